(* C20 - JSON: the whole-value round trip  js_decode (js_encode v) = Some v  by nested induction.
   Part 1: the parser reads back the token list of a value (depth within the limit, keys sorted). *)
From Icv Require Import Base.Tac Codec.NsModel Codec.NsDecimal Codec.JsModel Codec.JsProofs.
From Coq Require Import Sorting.Sorted.
Local Open Scope Z_scope.

Section JsRt.
Variable js_flt : Type.
Variable js_fprint : js_flt -> list Z.
Variable js_fparse : list Z -> option js_flt.
Variable js_lim : option Z.

Notation V := (js_value js_flt).
Notation T := (js_tok js_flt).

(* nested induction principle *)
Fixpoint js_value_rect' (P : V -> Prop)
  (Hnull : P (JsNull _)) (Hbool : forall b, P (JsBool _ b)) (Hnum : forall z, P (JsNum _ z)) (Hflt : forall f, P (JsFlt _ f))
  (Hstr : forall s, P (JsStr _ s))
  (Harr : forall l, Forall P l -> P (JsArr _ l))
  (Hobj : forall kvs, Forall (fun kv => P (snd kv)) kvs -> P (JsObj _ kvs))
  (v : V) {struct v} : P v :=
  match v with
  | JsNull _ => Hnull | JsBool _ b => Hbool b | JsNum _ z => Hnum z | JsFlt _ f => Hflt f | JsStr _ s => Hstr s
  | JsArr _ l => Harr l ((fix go (l : list V) : Forall P l :=
                            match l with [] => Forall_nil _ | x :: t => Forall_cons x (js_value_rect' P Hnull Hbool Hnum Hflt Hstr Harr Hobj x) (go t) end) l)
  | JsObj _ kvs => Hobj kvs ((fix go (l : list (list Z * V)) : Forall (fun kv => P (snd kv)) l :=
                            match l with [] => Forall_nil _
                            | x :: t => Forall_cons x (js_value_rect' P Hnull Hbool Hnum Hflt Hstr Harr Hobj (snd x)) (go t) end) kvs)
  end.

(* comma-joined token lists *)
Definition js_tjoin (xs : list (list T)) : list T :=
  match xs with [] => [] | x :: t => x ++ concat (map (fun y => JtComma _ :: y) t) end.

Fixpoint js_toks (v : V) : list T :=
  match v with
  | JsNull _ => [JtNull _]
  | JsBool _ true => [JtTrue _]
  | JsBool _ false => [JtFalse _]
  | JsNum _ z => [JtInt _ z]
  | JsFlt _ f => [JtFlt _ f]
  | JsStr _ s => [JtStr _ s]
  | JsArr _ l => JtLBrack _ :: js_tjoin (map js_toks l) ++ [JtRBrack _]
  | JsObj _ kvs => JtLBrace _ :: js_tjoin (map (fun kv => JtStr _ (fst kv) :: JtColon _ :: js_toks (snd kv)) kvs) ++ [JtRBrace _]
  end.

Fixpoint js_depth (v : V) : Z :=
  match v with
  | JsArr _ l => 1 + fold_right (fun x a => Z.max (js_depth x) a) 0 l
  | JsObj _ kvs => 1 + fold_right (fun kv a => Z.max (js_depth (snd kv)) a) 0 kvs
  | _ => 0
  end.

Definition js_key_lt (a b : list Z * V) : Prop := js_key_ltb (fst a) (fst b) = true.

(* structure: dictionaries are key-sorted and duplicate free (what std::map gives) *)
Inductive js_sorted : V -> Prop :=
| Jso_null : js_sorted (JsNull _) | Jso_bool b : js_sorted (JsBool _ b) | Jso_num z : js_sorted (JsNum _ z)
| Jso_flt f : js_sorted (JsFlt _ f) | Jso_str s : js_sorted (JsStr _ s)
| Jso_arr l : Forall js_sorted l -> js_sorted (JsArr _ l)
| Jso_obj kvs : Forall (fun kv => js_sorted (snd kv)) kvs -> StronglySorted js_key_lt kvs -> js_sorted (JsObj _ kvs).

Lemma js_fold_max_nonneg {A} (f : A -> Z) l : 0 <= fold_right (fun x a => Z.max (f x) a) 0 l.
Proof. induction l; cbn [fold_right]; lia. Qed.

Lemma js_fold_max_in {A} (f : A -> Z) l x : In x l -> f x <= fold_right (fun x a => Z.max (f x) a) 0 l.
Proof. induction l as [|y l IH]; [contradiction|]. cbn [fold_right]. intros [->|Hin]; [lia|]. specialize (IH Hin). lia. Qed.

Lemma js_depth_nonneg v : 0 <= js_depth v.
Proof.
  destruct v; cbn [js_depth]; try lia.
  - pose proof (js_fold_max_nonneg js_depth l). lia.
  - pose proof (js_fold_max_nonneg (fun kv : list Z * V => js_depth (snd kv)) kvs). lia.
Qed.

Lemma js_toks_nonempty v : (1 <= length (js_toks v))%nat.
Proof. destruct v; cbn; try lia. destruct b; cbn; lia. Qed.

Lemma js_key_ltb_asym a : forall b, js_key_ltb a b = true -> js_key_ltb b a = false.
Proof.
  induction a as [|x a IH]; intros [|y b] H; cbn in *; try discriminate; try reflexivity.
  destruct (x <? y) eqn:E1; destruct (y <? x) eqn:E2; try lia; try discriminate; auto.
Qed.

Lemma js_obj_set_append k (v : V) acc :
  Forall (fun kv => js_key_ltb (fst kv) k = true) acc -> js_obj_set _ k v acc = acc ++ [(k, v)].
Proof.
  induction acc as [|[k' v'] acc IH]; intros H; cbn [js_obj_set app]; [reflexivity|].
  inv H. cbn [fst] in H2. rewrite (js_key_ltb_asym _ _ H2), H2. f_equal. auto.
Qed.

Definition js_fits (d : Z) (v : V) : Prop := match js_lim with Some m => d + js_depth v <= m | None => True end.

Lemma js_fits_ok d v : js_fits d v -> 1 <= js_depth v -> js_depth_ok js_lim d = true.
Proof. unfold js_fits, js_depth_ok. destruct js_lim; [lia|reflexivity]. Qed.

Lemma js_fits_elem d x (l : list V) : In x l -> js_fits d (JsArr _ l) -> js_fits (d + 1) x.
Proof.
  unfold js_fits. destruct js_lim as [m|]; [|auto]. cbn [js_depth]. intros Hin H.
  pose proof (js_fold_max_in js_depth l x Hin). lia.
Qed.

Lemma js_fits_member d (x : list Z * V) kvs : In x kvs -> js_fits d (JsObj _ kvs) -> js_fits (d + 1) (snd x).
Proof.
  unfold js_fits. destruct js_lim as [m|]; [|auto]. cbn [js_depth]. intros Hin H.
  pose proof (js_fold_max_in (fun kv : list Z * V => js_depth (snd kv)) kvs x Hin). cbv beta in *. lia.
Qed.

Definition js_pval_ok (v : V) : Prop :=
  js_sorted v -> forall d fuel rest, js_fits d v -> (2 * length (js_toks v) <= fuel)%nat ->
  js_pval _ js_lim fuel d (js_toks v ++ rest) = Some (v, rest).

Definition js_tcount (xs : list (list T)) : nat := length (js_tjoin xs).

Lemma js_tjoin_cons x (t : list (list T)) :
  js_tjoin (x :: t) = x ++ match t with [] => [] | _ => JtComma _ :: js_tjoin t end.
Proof. destruct t as [|y t]; cbn; [reflexivity|]. reflexivity. Qed.

(* elements of an array *)
Lemma js_parr_ok : forall (l : list V) acc d fuel rest,
  l <> [] -> Forall js_pval_ok l -> Forall js_sorted l -> (forall x, In x l -> js_fits d x) ->
  (2 * length (js_tjoin (map js_toks l)) + 1 <= fuel)%nat ->
  js_parr _ js_lim fuel d (js_tjoin (map js_toks l) ++ JtRBrack _ :: rest) acc = Some (JsArr _ (acc ++ l), rest).
Proof.
  induction l as [|e t IH]; intros acc d fuel rest Hne Hok Hs Hfit Hf; [contradiction|].
  inv Hok. inv Hs. cbn [map] in *. rewrite js_tjoin_cons in *. rewrite app_length in Hf.
  destruct fuel as [|f]; [lia|]. cbn [js_parr]. rewrite <- app_assoc.
  pose proof (js_toks_nonempty e).
  rewrite H1; [|assumption|apply Hfit; left; reflexivity|lia].
  destruct t as [|e2 t].
  - cbn [map app]. reflexivity.
  - cbn [map app].
    change (js_toks e2 :: map js_toks t) with (map js_toks (e2 :: t)).
    rewrite IH; [rewrite <- app_assoc; reflexivity|discriminate|assumption|assumption|intros x Hx; apply Hfit; right; assumption|].
    cbn [map length] in Hf |- *. lia.
Qed.

(* members of a dictionary *)
Lemma js_pobj_ok : forall (l : list (list Z * V)) acc d fuel rest,
  l <> [] -> Forall (fun kv => js_pval_ok (snd kv)) l -> Forall (fun kv => js_sorted (snd kv)) l ->
  StronglySorted js_key_lt l -> (forall a b, In a acc -> In b l -> js_key_lt a b) ->
  (forall x, In x l -> js_fits d (snd x)) ->
  (2 * length (js_tjoin (map (fun kv => JtStr _ (fst kv) :: JtColon _ :: js_toks (snd kv)) l)) + 1 <= fuel)%nat ->
  js_pobj _ js_lim fuel d (js_tjoin (map (fun kv => JtStr _ (fst kv) :: JtColon _ :: js_toks (snd kv)) l) ++ JtRBrace _ :: rest) acc
  = Some (JsObj _ (acc ++ l), rest).
Proof.
  induction l as [|[k e] t IH]; intros acc d fuel rest Hne Hok Hs Hss Hacc Hfit Hf; [contradiction|].
  inv Hok. inv Hs. inv Hss. cbn [map fst snd] in *. rewrite js_tjoin_cons in *. rewrite app_length in Hf. cbn [length] in Hf.
  destruct fuel as [|f]; [lia|]. cbn [js_pobj app]. rewrite <- app_assoc.
  pose proof (js_toks_nonempty e).
  rewrite H1; [|assumption|apply (Hfit (k, e)); left; reflexivity|lia].
  assert (js_obj_set _ k e acc = acc ++ [(k, e)]) as Hset.
  { apply js_obj_set_append. apply Forall_forall. intros a Ha. apply (Hacc a (k, e) Ha). left. reflexivity. }
  destruct t as [|e2 t].
  - cbn [map app]. rewrite Hset. reflexivity.
  - cbn [map app]. rewrite Hset.
    change ((JtStr js_flt (fst e2) :: JtColon js_flt :: js_toks (snd e2)) :: map (fun kv : list Z * V => JtStr js_flt (fst kv) :: JtColon js_flt :: js_toks (snd kv)) t)
      with (map (fun kv : list Z * V => JtStr js_flt (fst kv) :: JtColon js_flt :: js_toks (snd kv)) (e2 :: t)).
    rewrite IH; [rewrite <- app_assoc; reflexivity|discriminate|assumption|assumption|assumption| |intros x Hx; apply Hfit; right; assumption|].
    + intros a b Ha Hb. apply in_app_or in Ha as [Ha|Ha].
      * apply Hacc; [assumption|right; assumption].
      * destruct Ha as [<-|[]]. rewrite Forall_forall in H6. apply H6. assumption.
    + cbn [map length] in Hf |- *. lia.
Qed.

Lemma js_toks_head_arr (l : list V) rest : l <> [] ->
  match js_tjoin (map js_toks l) ++ JtRBrack _ :: rest with JtRBrack _ :: _ => False | _ => True end.
Proof.
  destruct l as [|e t]; [contradiction|]. intros _. cbn [map]. rewrite js_tjoin_cons, <- app_assoc.
  destruct e; cbn; auto. destruct b; cbn; auto.
Qed.

Theorem js_pval_toks : forall v, js_pval_ok v.
Proof.
  apply js_value_rect'; unfold js_pval_ok.
  - intros _ d [|f] rest _ Hf; [cbn in Hf; lia|reflexivity].
  - intros b _ d [|f] rest _ Hf; [cbn in Hf; destruct b; cbn in Hf; lia|destruct b; reflexivity].
  - intros z _ d [|f] rest _ Hf; [cbn in Hf; lia|reflexivity].
  - intros x _ d [|f] rest _ Hf; [cbn in Hf; lia|reflexivity].
  - intros s _ d [|f] rest _ Hf; [cbn in Hf; lia|reflexivity].
  - intros l IH Hs d fuel rest Hfit Hf. inv Hs. cbn [js_toks] in *. cbn [length] in Hf. rewrite app_length in Hf. cbn [length] in Hf.
    destruct fuel as [|f]; [lia|]. cbn [app js_pval].
    rewrite (js_fits_ok d (JsArr _ l) Hfit) by (cbn [js_depth]; pose proof (js_fold_max_nonneg js_depth l); lia).
    destruct l as [|e t].
    + reflexivity.
    + rewrite <- app_assoc. cbn [app].
      pose proof (js_toks_head_arr (e :: t) rest ltac:(discriminate)) as Hh.
      pose proof (js_parr_ok (e :: t) [] (d + 1) f rest ltac:(discriminate) IH H0
                    (fun x Hx => js_fits_elem d x (e :: t) Hx Hfit) ltac:(lia)) as Hp.
      destruct (js_tjoin (map js_toks (e :: t)) ++ JtRBrack _ :: rest) as [|t0 ts] eqn:E.
      * apply app_eq_nil in E as [_ E]. discriminate.
      * destruct t0; try exact Hp. contradiction.
  - intros kvs IH Hs d fuel rest Hfit Hf. inversion Hs as [| | | | | |kvs' Hsv Hss]; subst. cbn [js_toks] in *. cbn [length] in Hf. rewrite app_length in Hf. cbn [length] in Hf.
    destruct fuel as [|f]; [lia|]. cbn [app js_pval].
    rewrite (js_fits_ok d (JsObj _ kvs) Hfit) by (cbn [js_depth]; pose proof (js_fold_max_nonneg (fun kv : list Z * V => js_depth (snd kv)) kvs); cbv beta in *; lia).
    destruct kvs as [|[k e] t].
    + reflexivity.
    + rewrite <- app_assoc. cbn [app].
      pose proof (js_pobj_ok ((k, e) :: t) [] (d + 1) f rest ltac:(discriminate) IH Hsv Hss
                    (fun a b Ha _ => match Ha with end)
                    (fun x Hx => js_fits_member d x ((k, e) :: t) Hx Hfit) ltac:(lia)) as Hp.
      cbn [map fst snd] in *. rewrite js_tjoin_cons in *. cbn [app] in *. exact Hp.
Qed.

(* ================================================================ Part 2: the lexer reads back the encoder's output *)
(* binary64 printing/parsing (Grisu2 / strtod) are parameters; what the round trip needs from them: *)
Hypothesis js_fparse_fprint : forall x, js_fparse (js_fprint x) = Some x.
Hypothesis js_fprint_token : forall x rest,
  match rest with [] => True | b :: _ => b = 44 \/ b = 93 \/ b = 125 end ->
  js_lex_num (js_fprint x ++ rest) = Some (js_fprint x, false, rest).
Hypothesis js_fprint_ascii : forall x, exists b t, js_fprint x = b :: t /\ (b = 45 \/ 48 <= b <= 57) /\ Forall (fun c => 0 <= c < 128) (b :: t).

Definition js_delim (rest : list Z) : Prop := match rest with [] => True | b :: _ => b = 44 \/ b = 93 \/ b = 125 end.
Definition js_lex_ok (rest : list Z) (ts : list T) : Prop :=
  forall f, (length rest < f)%nat -> js_lex _ js_fparse f rest = Some ts.

Lemma js_lex_ok_nil : js_lex_ok [] [].
Proof. intros [|f] H; [cbn in H; lia|reflexivity]. Qed.

Ltac lex_char := let H := fresh in let f := fresh in let Hf := fresh in
  intros H f Hf; destruct f; [cbn in Hf; lia|]; cbn; rewrite H by (cbn in Hf; lia); reflexivity.

Lemma js_lex_lbrack rest ts : js_lex_ok rest ts -> js_lex_ok (91 :: rest) (JtLBrack _ :: ts). Proof. lex_char. Qed.
Lemma js_lex_rbrack rest ts : js_lex_ok rest ts -> js_lex_ok (93 :: rest) (JtRBrack _ :: ts). Proof. lex_char. Qed.
Lemma js_lex_lbrace rest ts : js_lex_ok rest ts -> js_lex_ok (123 :: rest) (JtLBrace _ :: ts). Proof. lex_char. Qed.
Lemma js_lex_rbrace rest ts : js_lex_ok rest ts -> js_lex_ok (125 :: rest) (JtRBrace _ :: ts). Proof. lex_char. Qed.
Lemma js_lex_comma rest ts : js_lex_ok rest ts -> js_lex_ok (44 :: rest) (JtComma _ :: ts). Proof. lex_char. Qed.
Lemma js_lex_colon rest ts : js_lex_ok rest ts -> js_lex_ok (58 :: rest) (JtColon _ :: ts). Proof. lex_char. Qed.

Lemma js_starts_app pre rest : js_starts pre (pre ++ rest) = Some rest.
Proof.
  unfold js_starts. assert (firstn (length pre) (pre ++ rest) = pre) as ->.
  { induction pre; cbn; [destruct rest; reflexivity|]. f_equal. assumption. }
  destruct (list_eq_dec Z.eq_dec pre pre); [|contradiction].
  f_equal. induction pre; cbn; auto.
Qed.

Lemma js_lex_null rest ts : js_lex_ok rest ts -> js_lex_ok ([110; 117; 108; 108] ++ rest) (JtNull _ :: ts).
Proof.
  intros H f Hf. destruct f; [cbn in Hf; lia|]. cbn [app js_lex]. cbn [Z.eqb Pos.eqb js_is_ws orb].
  change (117 :: 108 :: 108 :: rest) with ([117; 108; 108] ++ rest). rewrite js_starts_app.
  rewrite H by (cbn in Hf; lia). reflexivity.
Qed.
Lemma js_lex_true rest ts : js_lex_ok rest ts -> js_lex_ok ([116; 114; 117; 101] ++ rest) (JtTrue _ :: ts).
Proof.
  intros H f Hf. destruct f; [cbn in Hf; lia|]. cbn [app js_lex]. cbn [Z.eqb Pos.eqb js_is_ws orb].
  change (114 :: 117 :: 101 :: rest) with ([114; 117; 101] ++ rest). rewrite js_starts_app.
  rewrite H by (cbn in Hf; lia). reflexivity.
Qed.
Lemma js_lex_false rest ts : js_lex_ok rest ts -> js_lex_ok ([102; 97; 108; 115; 101] ++ rest) (JtFalse _ :: ts).
Proof.
  intros H f Hf. destruct f; [cbn in Hf; lia|]. cbn [app js_lex]. cbn [Z.eqb Pos.eqb js_is_ws orb].
  change (97 :: 108 :: 115 :: 101 :: rest) with ([97; 108; 115; 101] ++ rest). rewrite js_starts_app.
  rewrite H by (cbn in Hf; lia). reflexivity.
Qed.

(* strings *)
Lemma js_esc_cp_nonempty cp : (1 <= length (js_esc_cp cp))%nat.
Proof.
  unfold js_esc_cp.
  repeat match goal with |- context [if ?c then _ else _] => destruct c end; cbn; try lia.
Qed.

Lemma js_esc_len cps : (length cps <= length (concat (map js_esc_cp cps)))%nat.
Proof. induction cps as [|c t IH]; cbn; [lia|]. rewrite app_length. pose proof (js_esc_cp_nonempty c). lia. Qed.

Lemma js_lex_string cps rest ts :
  Forall js_scalar cps -> js_lex_ok rest ts ->
  js_lex_ok (js_quote (js_utf8_of cps) ++ rest) (JtStr _ (js_utf8_of cps) :: ts).
Proof.
  intros Hs H f Hf. unfold js_quote in *. rewrite js_sanitize_valid, js_escape_valid in * by assumption.
  destruct f; [cbn in Hf; lia|]. cbn [app js_lex]. cbn [Z.eqb Pos.eqb js_is_ws orb].
  rewrite <- app_assoc. cbn [app].
  cbn [app length] in Hf. rewrite !app_length in Hf. cbn [length] in Hf. pose proof (js_esc_len cps).
  rewrite js_lex_str_escape by (assumption || lia). cbn [app].
  rewrite H by lia. reflexivity.
Qed.

(* numbers *)
Definition js_numstart (b : Z) : Prop := b = 45 \/ 48 <= b <= 57.

Lemma js_lex_int_tok b t f text r ts :
  js_numstart b -> js_lex_num (b :: t) = Some (text, true, r) ->
  js_int_overflow (js_int_of_tok text) = false -> js_lex _ js_fparse f r = Some ts ->
  js_lex _ js_fparse (S f) (b :: t) = Some (JtInt _ (js_int_of_tok text) :: ts).
Proof.
  intros Hb Hn Ho Hr. cbn [js_lex].
  assert ((b =? 0) = false) as -> by (unfold js_numstart in Hb; lia).
  assert (js_is_ws b = false) as -> by (unfold js_is_ws, js_numstart in *; lia).
  assert ((b =? 91) = false) as -> by (unfold js_numstart in Hb; lia).
  assert ((b =? 93) = false) as -> by (unfold js_numstart in Hb; lia).
  assert ((b =? 123) = false) as -> by (unfold js_numstart in Hb; lia).
  assert ((b =? 125) = false) as -> by (unfold js_numstart in Hb; lia).
  assert ((b =? 44) = false) as -> by (unfold js_numstart in Hb; lia).
  assert ((b =? 58) = false) as -> by (unfold js_numstart in Hb; lia).
  assert ((b =? 110) = false) as -> by (unfold js_numstart in Hb; lia).
  assert ((b =? 116) = false) as -> by (unfold js_numstart in Hb; lia).
  assert ((b =? 102) = false) as -> by (unfold js_numstart in Hb; lia).
  assert ((b =? 34) = false) as -> by (unfold js_numstart in Hb; lia).
  assert ((b =? 45) || js_isdig b = true) as -> by (unfold js_isdig, ns_isdigit, js_numstart in *; lia).
  rewrite Hn, Ho, Hr. reflexivity.
Qed.

Lemma js_lex_flt_tok b t f text r ts x :
  js_numstart b -> js_lex_num (b :: t) = Some (text, false, r) ->
  js_fparse text = Some x -> js_lex _ js_fparse f r = Some ts ->
  js_lex _ js_fparse (S f) (b :: t) = Some (JtFlt _ x :: ts).
Proof.
  intros Hb Hn Ho Hr. cbn [js_lex].
  assert ((b =? 0) = false) as -> by (unfold js_numstart in Hb; lia).
  assert (js_is_ws b = false) as -> by (unfold js_is_ws, js_numstart in *; lia).
  assert ((b =? 91) = false) as -> by (unfold js_numstart in Hb; lia).
  assert ((b =? 93) = false) as -> by (unfold js_numstart in Hb; lia).
  assert ((b =? 123) = false) as -> by (unfold js_numstart in Hb; lia).
  assert ((b =? 125) = false) as -> by (unfold js_numstart in Hb; lia).
  assert ((b =? 44) = false) as -> by (unfold js_numstart in Hb; lia).
  assert ((b =? 58) = false) as -> by (unfold js_numstart in Hb; lia).
  assert ((b =? 110) = false) as -> by (unfold js_numstart in Hb; lia).
  assert ((b =? 116) = false) as -> by (unfold js_numstart in Hb; lia).
  assert ((b =? 102) = false) as -> by (unfold js_numstart in Hb; lia).
  assert ((b =? 34) = false) as -> by (unfold js_numstart in Hb; lia).
  assert ((b =? 45) || js_isdig b = true) as -> by (unfold js_isdig, ns_isdigit, js_numstart in *; lia).
  rewrite Hn, Ho, Hr. reflexivity.
Qed.

Lemma js_span_digits_app ds : forall rest,
  forallb ns_isdigit ds = true -> match rest with b :: _ => ns_isdigit b = false | [] => True end ->
  js_span_digits (ds ++ rest) = (ds, rest).
Proof.
  induction ds as [|d t IH]; intros rest Hd Hr; cbn [app js_span_digits].
  - destruct rest as [|b r]; [reflexivity|]. cbn [js_span_digits]. unfold js_isdig. rewrite Hr. reflexivity.
  - cbn [forallb] in Hd. apply andb_true_iff in Hd as [H1 H2]. unfold js_isdig. rewrite H1, IH by assumption. reflexivity.
Qed.

Lemma js_delim_nodigit rest : js_delim rest ->
  match rest with b :: _ => ns_isdigit b = false /\ (b =? 46) = false /\ ((b =? 101) || (b =? 69)) = false | [] => True end.
Proof. destruct rest as [|b r]; [auto|]. unfold js_delim, ns_isdigit. intros H. repeat split; lia. Qed.

(* the decimal digits of n >= 0, followed by a delimiter, are one integer token *)
Lemma js_lex_num_digits n rest : 0 <= n -> js_delim rest ->
  js_lex_num (ns_dec n ++ rest) = Some (ns_dec n, true, rest) /\
  js_lex_num (45 :: ns_dec n ++ rest) = Some (45 :: ns_dec n, true, rest) /\
  ns_val (ns_dec n) = n /\ exists d t, ns_dec n = d :: t /\ 48 <= d <= 57.
Proof.
  intros Hn Hd. apply js_delim_nodigit in Hd.
  assert (forall d t, 48 <= d <= 57 -> ns_dec n = d :: t ->
          (if d =? 48 then ([48], t ++ rest) else js_span_digits (d :: t ++ rest)) = (d :: t, rest) ->
          js_lex_num (ns_dec n ++ rest) = Some (ns_dec n, true, rest) /\
          js_lex_num (45 :: ns_dec n ++ rest) = Some (45 :: ns_dec n, true, rest)) as Hcore.
  { intros d t Hdr E Hint. rewrite E. unfold js_lex_num. cbn [app].
    assert ((d =? 45) = false) as -> by lia. cbn [Z.eqb Pos.eqb].
    assert (negb (js_isdig d) = false) as -> by (unfold js_isdig, ns_isdigit; lia).
    rewrite Hint.
    destruct rest as [|b r].
    - rewrite !app_nil_r. split; reflexivity.
    - destruct Hd as (H1 & H2 & H3). rewrite H2, H3. rewrite !app_nil_r. split; reflexivity. }
  destruct (Z.eq_dec n 0) as [->|Hne].
  - rewrite ns_dec_zero. destruct (Hcore 48 [] ltac:(lia) ns_dec_zero) as [A B].
    { cbn [Z.eqb Pos.eqb app]. reflexivity. }
    rewrite ns_dec_zero in A, B. repeat split; try assumption. exists 48, []. split; [reflexivity|lia].
  - destruct (ns_dec_shape n ltac:(lia)) as (d & ds & E & Hdr & Hds & Hv & _).
    destruct (Hcore d ds ltac:(lia) E) as [A B].
    { assert ((d =? 48) = false) as -> by lia.
      change (d :: ds ++ rest) with ((d :: ds) ++ rest). apply js_span_digits_app.
      - cbn [forallb]. rewrite Hds, andb_true_r. apply ns_isdigit_iff. lia.
      - destruct rest; [auto|]. apply Hd. }
    repeat split; try assumption.
    + rewrite E. unfold ns_val. cbn [fold_left]. rewrite Z.mul_0_l, Z.add_0_l. exact Hv.
    + exists d, ds. split; [assumption|lia].
Qed.

Lemma js_int_bound_no_overflow z : Z.abs z <= 2 ^ 53 -> js_int_overflow z = false.
Proof.
  intros H. unfold js_int_overflow. assert (2 ^ 53 < 2 ^ 1024 - 2 ^ 970) by (vm_compute; reflexivity). lia.
Qed.

Lemma js_lex_int z rest ts :
  Z.abs z <= 2 ^ 53 -> js_delim rest -> js_lex_ok rest ts -> js_lex_ok (js_int z ++ rest) (JtInt _ z :: ts).
Proof.
  intros Hz Hd H f Hf. destruct f; [cbn in Hf; lia|]. unfold js_int in *.
  destruct (z <? 0) eqn:Ez.
  - destruct (js_lex_num_digits (- z) rest ltac:(lia) Hd) as (_ & B & Hv & _).
    cbn [app] in *.
    assert (js_int_of_tok (45 :: ns_dec (- z)) = z) as Hi.
    { unfold js_int_of_tok. cbn [Z.eqb Pos.eqb]. rewrite Hv. lia. }
    rewrite (js_lex_int_tok 45 (ns_dec (- z) ++ rest) f _ _ ts (or_introl eq_refl) B); rewrite ?Hi.
    + reflexivity.
    + apply js_int_bound_no_overflow; assumption.
    + apply H. cbn [length] in Hf. rewrite app_length in Hf. lia.
  - destruct (js_lex_num_digits z rest ltac:(lia) Hd) as (A & _ & Hv & d & t & E & Hdr).
    assert (js_int_of_tok (ns_dec z) = z) as Hi.
    { unfold js_int_of_tok. rewrite E. assert ((d =? 45) = false) as -> by lia. rewrite <- E. exact Hv. }
    rewrite E in A, Hf |- *. cbn [app] in *.
    rewrite (js_lex_int_tok d (t ++ rest) f _ _ ts (or_intror Hdr) A); rewrite <- ?E, ?Hi.
    + reflexivity.
    + apply js_int_bound_no_overflow; assumption.
    + apply H. cbn [length] in Hf. rewrite app_length in Hf. lia.
Qed.

Lemma js_lex_float x rest ts :
  js_delim rest -> js_lex_ok rest ts -> js_lex_ok (js_fprint x ++ rest) (JtFlt _ x :: ts).
Proof.
  intros Hd H f Hf. destruct f; [cbn in Hf; lia|].
  destruct (js_fprint_ascii x) as (b & t & E & Hb & _).
  pose proof (js_fprint_token x rest Hd) as Hn. rewrite E in Hn, Hf |- *. cbn [app] in *.
  rewrite (js_lex_flt_tok b (t ++ rest) f _ _ ts x Hb Hn); [reflexivity|rewrite <- E; apply js_fparse_fprint|].
  apply H. cbn [length] in Hf. rewrite app_length in Hf. lia.
Qed.

(* ================================================================ Part 3: composition *)
Notation enc := (js_encode js_flt js_fprint).

Definition js_bjoin (xs : list (list Z)) : list Z :=
  match xs with [] => [] | x :: t => x ++ concat (map (fun y => 44 :: y) t) end.

Lemma js_encode_arr l : enc (JsArr _ l) = 91 :: js_bjoin (map enc l) ++ [93].
Proof.
  cbn [js_encode]. f_equal. f_equal. destruct l as [|x t]; [reflexivity|]. cbn [map js_bjoin app]. f_equal.
  induction t as [|y t IH]; [reflexivity|]. cbn [map concat app]. f_equal. f_equal. exact IH.
Qed.

Lemma js_encode_obj kvs :
  enc (JsObj _ kvs) = 123 :: js_bjoin (map (fun kv => js_quote (fst kv) ++ 58 :: enc (snd kv)) kvs) ++ [125].
Proof.
  cbn [js_encode]. f_equal. f_equal. destruct kvs as [|[k x] t]; [reflexivity|]. cbn [map js_bjoin app fst snd].
  rewrite <- app_assoc. cbn [app]. f_equal. f_equal. f_equal.
  induction t as [|[k2 y] t IH]; [reflexivity|]. cbn [map concat app fst snd].
  rewrite <- app_assoc. cbn [app]. f_equal. f_equal. f_equal. f_equal. exact IH.
Qed.

(* values of the data model: integers up to 2^53 (other numbers are js_flt), strings and keys well-formed UTF-8 *)
Inductive js_wf : V -> Prop :=
| Jw_null : js_wf (JsNull _) | Jw_bool b : js_wf (JsBool _ b)
| Jw_num z : Z.abs z <= 2 ^ 53 -> js_wf (JsNum _ z)
| Jw_flt x : js_wf (JsFlt _ x)
| Jw_str cps : Forall js_scalar cps -> js_wf (JsStr _ (js_utf8_of cps))
| Jw_arr l : Forall js_wf l -> js_wf (JsArr _ l)
| Jw_obj kvs : Forall (fun kv => (exists cps, Forall js_scalar cps /\ fst kv = js_utf8_of cps) /\ js_wf (snd kv)) kvs -> js_wf (JsObj _ kvs).

Definition js_lex_val_ok (v : V) : Prop :=
  js_wf v -> forall rest ts, js_delim rest -> js_lex_ok rest ts -> js_lex_ok (enc v ++ rest) (js_toks v ++ ts).

Lemma js_delim_commas (xs : list (list Z)) rest : js_delim rest -> js_delim (concat (map (fun y => 44 :: y) xs) ++ rest).
Proof. destruct xs; cbn; auto. Qed.

Lemma js_lex_elems_tail : forall (l : list V), Forall js_lex_val_ok l -> Forall js_wf l ->
  forall rest ts, js_delim rest -> js_lex_ok rest ts ->
  js_lex_ok (concat (map (fun y => 44 :: y) (map enc l)) ++ rest)
            (concat (map (fun y => JtComma _ :: y) (map js_toks l)) ++ ts).
Proof.
  induction l as [|y t IH]; intros Hok Hwf rest ts Hd H; [exact H|].
  inversion Hok as [|? ? Hy Ht]; subst. inversion Hwf as [|? ? Wy Wt]; subst. cbn [map concat app]. rewrite <- !app_assoc.
  apply js_lex_comma. apply Hy; [assumption|apply js_delim_commas; assumption|]. apply IH; assumption.
Qed.

Lemma js_lex_elems : forall (l : list V), Forall js_lex_val_ok l -> Forall js_wf l ->
  forall rest ts, js_delim rest -> js_lex_ok rest ts ->
  js_lex_ok (js_bjoin (map enc l) ++ rest) (js_tjoin (map js_toks l) ++ ts).
Proof.
  intros [|x t] Hok Hwf rest ts Hd H; [exact H|]. inversion Hok as [|? ? Hy Ht]; subst. inversion Hwf as [|? ? Wy Wt]; subst.
  cbn [map js_bjoin js_tjoin]. rewrite <- !app_assoc.
  apply Hy; [assumption|apply js_delim_commas; assumption|]. apply js_lex_elems_tail; assumption.
Qed.

Definition js_member_ok (kv : list Z * V) : Prop :=
  (exists cps, Forall js_scalar cps /\ fst kv = js_utf8_of cps) /\ js_wf (snd kv).

Lemma js_lex_member (kv : list Z * V) rest ts :
  js_lex_val_ok (snd kv) -> js_member_ok kv -> js_delim rest -> js_lex_ok rest ts ->
  js_lex_ok (js_quote (fst kv) ++ 58 :: enc (snd kv) ++ rest) (JtStr _ (fst kv) :: JtColon _ :: js_toks (snd kv) ++ ts).
Proof.
  intros Hok [(cps & Hs & Ek) Hwf] Hd H. rewrite Ek.
  apply js_lex_string; [assumption|]. apply js_lex_colon. apply Hok; assumption.
Qed.

Lemma js_lex_members_tail : forall (l : list (list Z * V)), Forall (fun kv => js_lex_val_ok (snd kv)) l -> Forall js_member_ok l ->
  forall rest ts, js_delim rest -> js_lex_ok rest ts ->
  js_lex_ok (concat (map (fun y => 44 :: y) (map (fun kv => js_quote (fst kv) ++ 58 :: enc (snd kv)) l)) ++ rest)
            (concat (map (fun y => JtComma _ :: y) (map (fun kv => JtStr _ (fst kv) :: JtColon _ :: js_toks (snd kv)) l)) ++ ts).
Proof.
  induction l as [|y t IH]; intros Hok Hwf rest ts Hd H; [exact H|].
  inversion Hok as [|? ? Hy Ht]; subst. inversion Hwf as [|? ? Wy Wt]; subst. cbn [map concat app]. rewrite <- !app_assoc. cbn [app].
  apply js_lex_comma.
  apply js_lex_member; [assumption|assumption|apply js_delim_commas; assumption|]. apply IH; assumption.
Qed.

Lemma js_lex_members : forall (l : list (list Z * V)), Forall (fun kv => js_lex_val_ok (snd kv)) l -> Forall js_member_ok l ->
  forall rest ts, js_delim rest -> js_lex_ok rest ts ->
  js_lex_ok (js_bjoin (map (fun kv => js_quote (fst kv) ++ 58 :: enc (snd kv)) l) ++ rest)
            (js_tjoin (map (fun kv => JtStr _ (fst kv) :: JtColon _ :: js_toks (snd kv)) l) ++ ts).
Proof.
  intros [|x t] Hok Hwf rest ts Hd H; [exact H|]. inversion Hok as [|? ? Hy Ht]; subst. inversion Hwf as [|? ? Wy Wt]; subst.
  cbn [map js_bjoin js_tjoin]. rewrite <- !app_assoc. cbn [app].
  apply js_lex_member; [assumption|assumption|apply js_delim_commas; assumption|]. apply js_lex_members_tail; assumption.
Qed.

Theorem js_lex_encode : forall v, js_lex_val_ok v.
Proof.
  apply js_value_rect'; unfold js_lex_val_ok.
  - intros _ rest ts Hd H. apply js_lex_null. assumption.
  - intros [|] _ rest ts Hd H; [apply js_lex_true|apply js_lex_false]; assumption.
  - intros z Hw rest ts Hd H. inv Hw. apply js_lex_int; assumption.
  - intros x _ rest ts Hd H. apply js_lex_float; assumption.
  - intros s Hw rest ts Hd H. inv Hw. apply js_lex_string; assumption.
  - intros l IH Hw rest ts Hd H. inv Hw. rewrite js_encode_arr. cbn [js_toks app]. rewrite <- !app_assoc. cbn [app].
    apply js_lex_lbrack. apply js_lex_elems; [assumption|assumption|cbn; auto|]. apply js_lex_rbrack. assumption.
  - intros kvs IH Hw rest ts Hd H. inv Hw. rewrite js_encode_obj. cbn [js_toks app]. rewrite <- !app_assoc. cbn [app].
    apply js_lex_lbrace. apply js_lex_members; [assumption|assumption|cbn; auto|]. apply js_lex_rbrace. assumption.
Qed.

(* ================================================================ Part 4: the encoder's output is ASCII, so ValidateUTF8 and skip_bom leave it alone *)
Definition js_ascii (l : list Z) : Prop := Forall (fun c => 0 <= c < 128) l.

Lemma js_ascii_app a b : js_ascii a -> js_ascii b -> js_ascii (a ++ b).
Proof. intros. apply Forall_app. split; assumption. Qed.

Lemma js_ascii_utf8 l : js_ascii l -> js_utf8_of l = l /\ Forall js_scalar l.
Proof.
  induction 1 as [|c l Hc Hl [IH1 IH2]]; [split; [reflexivity|constructor]|].
  unfold js_utf8_of in *. cbn [map concat]. unfold js_utf8_enc at 1.
  assert ((c <? 128) = true) as -> by lia. cbn [app]. rewrite IH1. split; [reflexivity|].
  constructor; [|assumption]. unfold js_scalar. lia.
Qed.

Lemma js_sanitize_ascii l : js_ascii l -> js_sanitize l = l.
Proof. intros H. destruct (js_ascii_utf8 l H) as [E Hs]. pose proof (js_sanitize_valid l Hs) as Hv. rewrite E in Hv. exact Hv. Qed.

Lemma js_hex4_ascii x : 0 <= x < 65536 -> js_ascii (js_hex4 x).
Proof.
  intros H. unfold js_hex4, js_ascii.
  repeat constructor; match goal with |- _ <= js_hexdigit ?n => pose proof (js_hexdigit_range n ltac:(lia)); lia
                                     | |- js_hexdigit ?n < _ => pose proof (js_hexdigit_range n ltac:(lia)); lia end.
Qed.

Lemma js_esc_cp_ascii cp : js_scalar cp -> js_ascii (js_esc_cp cp).
Proof.
  intros [Hr Hs]. unfold js_esc_cp, js_ascii.
  destruct (cp =? 8); [repeat constructor; lia|]. destruct (cp =? 9); [repeat constructor; lia|].
  destruct (cp =? 10); [repeat constructor; lia|]. destruct (cp =? 12); [repeat constructor; lia|].
  destruct (cp =? 13); [repeat constructor; lia|]. destruct (cp =? 34); [repeat constructor; lia|].
  destruct (cp =? 92); [repeat constructor; lia|].
  destruct ((cp <=? 31) || (127 <=? cp)) eqn:E.
  - destruct (cp <=? 65535) eqn:E2.
    + constructor; [lia|]. constructor; [lia|]. apply js_hex4_ascii. lia.
    + constructor; [lia|]. constructor; [lia|]. apply js_ascii_app; [apply js_hex4_ascii; lia|].
      constructor; [lia|]. constructor; [lia|]. apply js_hex4_ascii. lia.
  - constructor; [lia|constructor].
Qed.

Lemma js_quote_ascii cps : Forall js_scalar cps -> js_ascii (js_quote (js_utf8_of cps)).
Proof.
  intros H. unfold js_quote. rewrite js_sanitize_valid, js_escape_valid by assumption.
  constructor; [lia|]. apply js_ascii_app; [|constructor; [lia|constructor]].
  induction H as [|c l Hc Hl IH]; [constructor|]. cbn [map concat]. apply js_ascii_app; [apply js_esc_cp_ascii; assumption|exact IH].
Qed.

Lemma ns_dec_ascii n : 0 <= n -> js_ascii (ns_dec n).
Proof.
  intros Hn. destruct (Z.eq_dec n 0) as [->|Hne]; [rewrite ns_dec_zero; constructor; [lia|constructor]|].
  destruct (ns_dec_shape n ltac:(lia)) as (d & ds & E & Hd & Hds & _). rewrite E. constructor; [lia|].
  apply Forall_forall. intros c Hc. rewrite forallb_forall in Hds. specialize (Hds c Hc). apply ns_isdigit_iff in Hds. lia.
Qed.

Lemma js_int_ascii z : js_ascii (js_int z).
Proof. unfold js_int. destruct (z <? 0) eqn:E; [constructor; [lia|]|]; apply ns_dec_ascii; lia. Qed.

Lemma js_bjoin_ascii xs : Forall js_ascii xs -> js_ascii (js_bjoin xs).
Proof.
  intros H. destruct H as [|x t Hx Ht]; [constructor|]. cbn [js_bjoin]. apply js_ascii_app; [assumption|].
  induction Ht as [|y t Hy Ht IH]; [constructor|]. cbn [map concat]. apply js_ascii_app; [constructor; [lia|assumption]|exact IH].
Qed.

Theorem js_encode_ascii : forall v, js_wf v -> js_ascii (enc v).
Proof.
  apply (js_value_rect' (fun v => js_wf v -> js_ascii (enc v))).
  - intros _. cbn. repeat constructor; lia.
  - intros [|] _; cbn; repeat constructor; lia.
  - intros z _. apply js_int_ascii.
  - intros x _. cbn [js_encode]. destruct (js_fprint_ascii x) as (b & t & E & _ & H). rewrite E. exact H.
  - intros s Hw. inv Hw. apply js_quote_ascii. assumption.
  - intros l IH Hw. inv Hw. rewrite js_encode_arr. constructor; [lia|]. apply js_ascii_app; [|constructor; [lia|constructor]].
    apply js_bjoin_ascii. apply Forall_forall. intros x Hx. apply in_map_iff in Hx as (v & <- & Hv).
    rewrite Forall_forall in IH, H0. apply IH; auto.
  - intros kvs IH Hw. inv Hw. rewrite js_encode_obj. constructor; [lia|]. apply js_ascii_app; [|constructor; [lia|constructor]].
    apply js_bjoin_ascii. apply Forall_forall. intros x Hx. apply in_map_iff in Hx as (kv & <- & Hv).
    rewrite Forall_forall in IH, H0. destruct (H0 kv Hv) as [(cps & Hs & Ek) Hwv].
    apply js_ascii_app; [rewrite Ek; apply js_quote_ascii; assumption|]. constructor; [lia|]. apply IH; auto.
Qed.

(* ================================================================ C20: the receiver decodes an equal value *)
Theorem js_roundtrip v :
  js_wf v -> js_sorted v -> js_fits 0 v ->
  js_decode _ js_fparse js_lim (enc v) = Some v.
Proof.
  intros Hwf Hs Hfit. pose proof (js_encode_ascii v Hwf) as Ha. unfold js_decode.
  rewrite (js_sanitize_ascii _ Ha).
  assert (js_skip_bom (enc v) = Some (enc v)) as ->.
  { destruct (enc v) as [|b t]; [reflexivity|]. unfold js_skip_bom. inv Ha. assert ((b =? 239) = false) as -> by lia. reflexivity. }
  pose proof (js_lex_encode v Hwf [] [] I js_lex_ok_nil (S (length (enc v)))) as Hl. rewrite !app_nil_r in Hl. rewrite Hl by lia.
  pose proof (js_pval_toks v Hs 0 (S (2 * length (js_toks v))) [] Hfit ltac:(lia)) as Hp. rewrite app_nil_r in Hp. rewrite Hp.
  reflexivity.
Qed.

End JsRt.

Theorem js_roundtrip_integers (js_lim : option Z) (v : js_value Empty_set) :
  js_wf _ v -> js_sorted _ v -> js_fits _ js_lim 0 v ->
  js_decode Empty_set (fun _ => None) js_lim (js_encode Empty_set (fun x => match x with end) v) = Some v.
Proof.
  apply js_roundtrip; intros x; destruct x.
Qed.
