(* C20 - JSON: the whole-value round trip  js_decode (js_encode v) = Some v  by nested induction.
   Part 1: the parser reads back the token list of a value (depth within the limit, keys sorted). *)
From Icv Require Import Base.Tac Codec.NsModel Codec.NsDecimal Codec.JsModel Codec.JsProofs.
From Coq Require Import Sorting.Sorted.
Local Open Scope Z_scope.

Section JsRt.
Variable js_flt : Type.
Variable js_fprint : js_flt -> list Z.
Variable js_fparse : list Z -> option js_flt.
Variable js_lim : option Z.

Notation V := (js_value js_flt).
Notation T := (js_tok js_flt).

(* nested induction principle *)
Fixpoint js_value_rect' (P : V -> Prop)
  (Hnull : P (JsNull _)) (Hbool : forall b, P (JsBool _ b)) (Hnum : forall z, P (JsNum _ z)) (Hflt : forall f, P (JsFlt _ f))
  (Hstr : forall s, P (JsStr _ s))
  (Harr : forall l, Forall P l -> P (JsArr _ l))
  (Hobj : forall kvs, Forall (fun kv => P (snd kv)) kvs -> P (JsObj _ kvs))
  (v : V) {struct v} : P v :=
  match v with
  | JsNull _ => Hnull | JsBool _ b => Hbool b | JsNum _ z => Hnum z | JsFlt _ f => Hflt f | JsStr _ s => Hstr s
  | JsArr _ l => Harr l ((fix go (l : list V) : Forall P l :=
                            match l with [] => Forall_nil _ | x :: t => Forall_cons x (js_value_rect' P Hnull Hbool Hnum Hflt Hstr Harr Hobj x) (go t) end) l)
  | JsObj _ kvs => Hobj kvs ((fix go (l : list (list Z * V)) : Forall (fun kv => P (snd kv)) l :=
                            match l with [] => Forall_nil _
                            | x :: t => Forall_cons x (js_value_rect' P Hnull Hbool Hnum Hflt Hstr Harr Hobj (snd x)) (go t) end) kvs)
  end.

(* comma-joined token lists *)
Definition js_tjoin (xs : list (list T)) : list T :=
  match xs with [] => [] | x :: t => x ++ concat (map (fun y => JtComma _ :: y) t) end.

Fixpoint js_toks (v : V) : list T :=
  match v with
  | JsNull _ => [JtNull _]
  | JsBool _ true => [JtTrue _]
  | JsBool _ false => [JtFalse _]
  | JsNum _ z => [JtInt _ z]
  | JsFlt _ f => [JtFlt _ f]
  | JsStr _ s => [JtStr _ s]
  | JsArr _ l => JtLBrack _ :: js_tjoin (map js_toks l) ++ [JtRBrack _]
  | JsObj _ kvs => JtLBrace _ :: js_tjoin (map (fun kv => JtStr _ (fst kv) :: JtColon _ :: js_toks (snd kv)) kvs) ++ [JtRBrace _]
  end.

Fixpoint js_depth (v : V) : Z :=
  match v with
  | JsArr _ l => 1 + fold_right (fun x a => Z.max (js_depth x) a) 0 l
  | JsObj _ kvs => 1 + fold_right (fun kv a => Z.max (js_depth (snd kv)) a) 0 kvs
  | _ => 0
  end.

Definition js_key_lt (a b : list Z * V) : Prop := js_key_ltb (fst a) (fst b) = true.

(* structure: dictionaries are key-sorted and duplicate free (what std::map gives) *)
Inductive js_sorted : V -> Prop :=
| Jso_null : js_sorted (JsNull _) | Jso_bool b : js_sorted (JsBool _ b) | Jso_num z : js_sorted (JsNum _ z)
| Jso_flt f : js_sorted (JsFlt _ f) | Jso_str s : js_sorted (JsStr _ s)
| Jso_arr l : Forall js_sorted l -> js_sorted (JsArr _ l)
| Jso_obj kvs : Forall (fun kv => js_sorted (snd kv)) kvs -> StronglySorted js_key_lt kvs -> js_sorted (JsObj _ kvs).

Lemma js_fold_max_nonneg {A} (f : A -> Z) l : 0 <= fold_right (fun x a => Z.max (f x) a) 0 l.
Proof. induction l; cbn [fold_right]; lia. Qed.

Lemma js_fold_max_in {A} (f : A -> Z) l x : In x l -> f x <= fold_right (fun x a => Z.max (f x) a) 0 l.
Proof. induction l as [|y l IH]; [contradiction|]. cbn [fold_right]. intros [->|Hin]; [lia|]. specialize (IH Hin). lia. Qed.

Lemma js_depth_nonneg v : 0 <= js_depth v.
Proof.
  destruct v; cbn [js_depth]; try lia.
  - pose proof (js_fold_max_nonneg js_depth l). lia.
  - pose proof (js_fold_max_nonneg (fun kv : list Z * V => js_depth (snd kv)) kvs). lia.
Qed.

Lemma js_toks_nonempty v : (1 <= length (js_toks v))%nat.
Proof. destruct v; cbn; try lia. destruct b; cbn; lia. Qed.

Lemma js_key_ltb_asym a : forall b, js_key_ltb a b = true -> js_key_ltb b a = false.
Proof.
  induction a as [|x a IH]; intros [|y b] H; cbn in *; try discriminate; try reflexivity.
  destruct (x <? y) eqn:E1; destruct (y <? x) eqn:E2; try lia; try discriminate; auto.
Qed.

Lemma js_obj_set_append k (v : V) acc :
  Forall (fun kv => js_key_ltb (fst kv) k = true) acc -> js_obj_set _ k v acc = acc ++ [(k, v)].
Proof.
  induction acc as [|[k' v'] acc IH]; intros H; cbn [js_obj_set app]; [reflexivity|].
  inv H. cbn [fst] in H2. rewrite (js_key_ltb_asym _ _ H2), H2. f_equal. auto.
Qed.

Definition js_fits (d : Z) (v : V) : Prop := match js_lim with Some m => d + js_depth v <= m | None => True end.

Lemma js_fits_ok d v : js_fits d v -> 1 <= js_depth v -> js_depth_ok js_lim d = true.
Proof. unfold js_fits, js_depth_ok. destruct js_lim; [lia|reflexivity]. Qed.

Lemma js_fits_elem d x (l : list V) : In x l -> js_fits d (JsArr _ l) -> js_fits (d + 1) x.
Proof.
  unfold js_fits. destruct js_lim as [m|]; [|auto]. cbn [js_depth]. intros Hin H.
  pose proof (js_fold_max_in js_depth l x Hin). lia.
Qed.

Lemma js_fits_member d (x : list Z * V) kvs : In x kvs -> js_fits d (JsObj _ kvs) -> js_fits (d + 1) (snd x).
Proof.
  unfold js_fits. destruct js_lim as [m|]; [|auto]. cbn [js_depth]. intros Hin H.
  pose proof (js_fold_max_in (fun kv : list Z * V => js_depth (snd kv)) kvs x Hin). cbv beta in *. lia.
Qed.

Definition js_pval_ok (v : V) : Prop :=
  js_sorted v -> forall d fuel rest, js_fits d v -> (2 * length (js_toks v) <= fuel)%nat ->
  js_pval _ js_lim fuel d (js_toks v ++ rest) = Some (v, rest).

Definition js_tcount (xs : list (list T)) : nat := length (js_tjoin xs).

Lemma js_tjoin_cons x (t : list (list T)) :
  js_tjoin (x :: t) = x ++ match t with [] => [] | _ => JtComma _ :: js_tjoin t end.
Proof. destruct t as [|y t]; cbn; [reflexivity|]. reflexivity. Qed.

(* elements of an array *)
Lemma js_parr_ok : forall (l : list V) acc d fuel rest,
  l <> [] -> Forall js_pval_ok l -> Forall js_sorted l -> (forall x, In x l -> js_fits d x) ->
  (2 * length (js_tjoin (map js_toks l)) + 1 <= fuel)%nat ->
  js_parr _ js_lim fuel d (js_tjoin (map js_toks l) ++ JtRBrack _ :: rest) acc = Some (JsArr _ (acc ++ l), rest).
Proof.
  induction l as [|e t IH]; intros acc d fuel rest Hne Hok Hs Hfit Hf; [contradiction|].
  inv Hok. inv Hs. cbn [map] in *. rewrite js_tjoin_cons in *. rewrite app_length in Hf.
  destruct fuel as [|f]; [lia|]. cbn [js_parr]. rewrite <- app_assoc.
  pose proof (js_toks_nonempty e).
  rewrite H1; [|assumption|apply Hfit; left; reflexivity|lia].
  destruct t as [|e2 t].
  - cbn [map app]. reflexivity.
  - cbn [map app].
    change (js_toks e2 :: map js_toks t) with (map js_toks (e2 :: t)).
    rewrite IH; [rewrite <- app_assoc; reflexivity|discriminate|assumption|assumption|intros x Hx; apply Hfit; right; assumption|].
    cbn [map length] in Hf |- *. lia.
Qed.

(* members of a dictionary *)
Lemma js_pobj_ok : forall (l : list (list Z * V)) acc d fuel rest,
  l <> [] -> Forall (fun kv => js_pval_ok (snd kv)) l -> Forall (fun kv => js_sorted (snd kv)) l ->
  StronglySorted js_key_lt l -> (forall a b, In a acc -> In b l -> js_key_lt a b) ->
  (forall x, In x l -> js_fits d (snd x)) ->
  (2 * length (js_tjoin (map (fun kv => JtStr _ (fst kv) :: JtColon _ :: js_toks (snd kv)) l)) + 1 <= fuel)%nat ->
  js_pobj _ js_lim fuel d (js_tjoin (map (fun kv => JtStr _ (fst kv) :: JtColon _ :: js_toks (snd kv)) l) ++ JtRBrace _ :: rest) acc
  = Some (JsObj _ (acc ++ l), rest).
Proof.
  induction l as [|[k e] t IH]; intros acc d fuel rest Hne Hok Hs Hss Hacc Hfit Hf; [contradiction|].
  inv Hok. inv Hs. inv Hss. cbn [map fst snd] in *. rewrite js_tjoin_cons in *. rewrite app_length in Hf. cbn [length] in Hf.
  destruct fuel as [|f]; [lia|]. cbn [js_pobj app]. rewrite <- app_assoc.
  pose proof (js_toks_nonempty e).
  rewrite H1; [|assumption|apply (Hfit (k, e)); left; reflexivity|lia].
  assert (js_obj_set _ k e acc = acc ++ [(k, e)]) as Hset.
  { apply js_obj_set_append. apply Forall_forall. intros a Ha. apply (Hacc a (k, e) Ha). left. reflexivity. }
  destruct t as [|e2 t].
  - cbn [map app]. rewrite Hset. reflexivity.
  - cbn [map app]. rewrite Hset.
    change ((JtStr js_flt (fst e2) :: JtColon js_flt :: js_toks (snd e2)) :: map (fun kv : list Z * V => JtStr js_flt (fst kv) :: JtColon js_flt :: js_toks (snd kv)) t)
      with (map (fun kv : list Z * V => JtStr js_flt (fst kv) :: JtColon js_flt :: js_toks (snd kv)) (e2 :: t)).
    rewrite IH; [rewrite <- app_assoc; reflexivity|discriminate|assumption|assumption|assumption| |intros x Hx; apply Hfit; right; assumption|].
    + intros a b Ha Hb. apply in_app_or in Ha as [Ha|Ha].
      * apply Hacc; [assumption|right; assumption].
      * destruct Ha as [<-|[]]. rewrite Forall_forall in H6. apply H6. assumption.
    + cbn [map length] in Hf |- *. lia.
Qed.

Lemma js_toks_head_arr (l : list V) rest : l <> [] ->
  match js_tjoin (map js_toks l) ++ JtRBrack _ :: rest with JtRBrack _ :: _ => False | _ => True end.
Proof.
  destruct l as [|e t]; [contradiction|]. intros _. cbn [map]. rewrite js_tjoin_cons, <- app_assoc.
  destruct e; cbn; auto. destruct b; cbn; auto.
Qed.

Theorem js_pval_toks : forall v, js_pval_ok v.
Proof.
  apply js_value_rect'; unfold js_pval_ok.
  - intros _ d [|f] rest _ Hf; [cbn in Hf; lia|reflexivity].
  - intros b _ d [|f] rest _ Hf; [cbn in Hf; destruct b; cbn in Hf; lia|destruct b; reflexivity].
  - intros z _ d [|f] rest _ Hf; [cbn in Hf; lia|reflexivity].
  - intros x _ d [|f] rest _ Hf; [cbn in Hf; lia|reflexivity].
  - intros s _ d [|f] rest _ Hf; [cbn in Hf; lia|reflexivity].
  - intros l IH Hs d fuel rest Hfit Hf. inv Hs. cbn [js_toks] in *. cbn [length] in Hf. rewrite app_length in Hf. cbn [length] in Hf.
    destruct fuel as [|f]; [lia|]. cbn [app js_pval].
    rewrite (js_fits_ok d (JsArr _ l) Hfit) by (cbn [js_depth]; pose proof (js_fold_max_nonneg js_depth l); lia).
    destruct l as [|e t].
    + reflexivity.
    + rewrite <- app_assoc. cbn [app].
      pose proof (js_toks_head_arr (e :: t) rest ltac:(discriminate)) as Hh.
      pose proof (js_parr_ok (e :: t) [] (d + 1) f rest ltac:(discriminate) IH H0
                    (fun x Hx => js_fits_elem d x (e :: t) Hx Hfit) ltac:(lia)) as Hp.
      destruct (js_tjoin (map js_toks (e :: t)) ++ JtRBrack _ :: rest) as [|t0 ts] eqn:E.
      * apply app_eq_nil in E as [_ E]. discriminate.
      * destruct t0; try exact Hp. contradiction.
  - intros kvs IH Hs d fuel rest Hfit Hf. inversion Hs as [| | | | | |kvs' Hsv Hss]; subst. cbn [js_toks] in *. cbn [length] in Hf. rewrite app_length in Hf. cbn [length] in Hf.
    destruct fuel as [|f]; [lia|]. cbn [app js_pval].
    rewrite (js_fits_ok d (JsObj _ kvs) Hfit) by (cbn [js_depth]; pose proof (js_fold_max_nonneg (fun kv : list Z * V => js_depth (snd kv)) kvs); cbv beta in *; lia).
    destruct kvs as [|[k e] t].
    + reflexivity.
    + rewrite <- app_assoc. cbn [app].
      pose proof (js_pobj_ok ((k, e) :: t) [] (d + 1) f rest ltac:(discriminate) IH Hsv Hss
                    (fun a b Ha _ => match Ha with end)
                    (fun x Hx => js_fits_member d x ((k, e) :: t) Hx Hfit) ltac:(lia)) as Hp.
      cbn [map fst snd] in *. rewrite js_tjoin_cons in *. cbn [app] in *. exact Hp.
Qed.

End JsRt.
