(* C20 - the buffered netstring reader at the END OF THE STREAM: the loop every caller runs terminates, for every
   input and every chunking, hands over exactly the frames of the batch parse of the whole input, and ends with
   StatusEof or an exception - never with an endless run of StatusNeedData. *)
From Icv Require Import Base.Tac Codec.NsModel Codec.NsDecimal Codec.NsProofs.
Local Open Scope Z_scope.

(* between calls: Eof not latched, and whenever MustRead is set the carried buffer is an incomplete frame *)
Definition ns_inv (max : Z) (c : ns_ctx) : Prop :=
  ns_eof c = false /\ (ns_must c = true -> ns_parse max (ns_buf c) = NsNeed).

Lemma ns_inv_init max : ns_inv max ns_ctx_init.
Proof. split; [reflexivity|]. intros _. reflexivity. Qed.

Definition ns_end_of (e : option Z) : ns_end := match e with None => NsEndEof | Some e => NsEndErr e end.

Lemma ns_loop_drain max : forall n c fills,
  ns_inv max c -> (ns_loop_bound c fills <= n)%nat ->
  let '(tr, c') := ns_loop n max c fills in
  let '(fs, rest, e) := ns_drain_full max (ns_buf c ++ concat fills) in
  ns_trace_items tr = fs /\ ns_trace_end tr = ns_end_of e /\
  (e = None -> ns_buf c' = rest /\ ns_eof c' = true) /\
  (length tr <= ns_loop_bound c fills)%nat.
Proof.
  induction n as [|n IH]; intros c fills [He Hm] Hb; [unfold ns_loop_bound in Hb; lia|].
  destruct c as [b m e0]. cbn [ns_eof ns_must ns_buf] in *. subst e0.
  cbn [ns_loop]. unfold ns_ctx_read. cbn [ns_eof ns_must ns_buf negb andb].
  destruct m.
  - (* MustRead: this call fills *)
    destruct fills as [|d fs].
    + cbn [concat tl]. rewrite app_nil_r, ns_drain_full_eq, (Hm eq_refl).
      cbn. unfold ns_loop_bound. cbn. repeat split; auto. lia.
    + cbn [tl ns_buf ns_must ns_eof]. cbn [concat]. rewrite app_assoc.
      unfold ns_loop_bound in Hb. cbn [ns_buf ns_must concat length] in Hb. rewrite app_length in Hb.
      rewrite (ns_drain_full_eq max ((b ++ d) ++ concat fs)).
      destruct (ns_parse max (b ++ d)) as [|p r|e|] eqn:E.
      * (* NeedData *)
        specialize (IH {| ns_buf := b ++ d; ns_must := true; ns_eof := false |} fs).
        cbn [ns_buf] in IH. rewrite <- ns_drain_full_eq.
        destruct (ns_loop n max {| ns_buf := b ++ d; ns_must := true; ns_eof := false |} fs) as [tr c''].
        destruct (ns_drain_full max ((b ++ d) ++ concat fs)) as [[fs1 rest] e1].
        destruct IH as (I1 & I2 & I3 & I4).
        { split; [reflexivity|]. intros _. exact E. }
        { unfold ns_loop_bound. cbn [ns_buf ns_must]. rewrite app_length. lia. }
        unfold ns_loop_bound in *. cbn [ns_buf ns_must concat length] in *. rewrite !app_length in *.
        cbn [ns_trace_items ns_trace_end length]. repeat split; auto; try apply I3; auto. lia.
      * (* NewItem *)
        rewrite (ns_parse_item_mono _ _ (concat fs) _ _ E).
        apply ns_buffered_item_within_limit in E as [_ Hl]. unfold ns_len in Hl. rewrite app_length in Hl.
        specialize (IH {| ns_buf := r; ns_must := false; ns_eof := false |} fs).
        cbn [ns_buf] in IH.
        destruct (ns_loop n max {| ns_buf := r; ns_must := false; ns_eof := false |} fs) as [tr c''].
        destruct (ns_drain_full max (r ++ concat fs)) as [[fs1 rest] e1].
        destruct IH as (I1 & I2 & I3 & I4).
        { split; [reflexivity|]. cbn. discriminate. }
        { unfold ns_loop_bound. cbn [ns_buf ns_must]. lia. }
        unfold ns_loop_bound in *. cbn [ns_buf ns_must concat length] in *. rewrite ?app_length in *.
        cbn [ns_trace_items ns_trace_end length]. rewrite I1. repeat split; auto; try apply I3; auto. lia.
      * rewrite ns_parse_mono by (rewrite E; discriminate). rewrite E.
        cbn. unfold ns_loop_bound. cbn. repeat split; auto; try discriminate. lia.
      * rewrite ns_parse_mono by (rewrite E; discriminate). rewrite E.
        cbn. unfold ns_loop_bound. cbn. repeat split; auto; try discriminate. lia.
  - (* MustRead not set: the buffer is parsed as it is *)
    cbn [ns_buf ns_must ns_eof].
    unfold ns_loop_bound in Hb. cbn [ns_buf ns_must] in Hb.
    destruct (ns_parse max b) as [|p r|e|] eqn:E.
    + specialize (IH {| ns_buf := b; ns_must := true; ns_eof := false |} fills).
      cbn [ns_buf] in IH.
      destruct (ns_loop n max {| ns_buf := b; ns_must := true; ns_eof := false |} fills) as [tr c''].
      destruct (ns_drain_full max (b ++ concat fills)) as [[fs1 rest] e1].
      destruct IH as (I1 & I2 & I3 & I4).
      { split; [reflexivity|]. intros _. exact E. }
      { unfold ns_loop_bound. cbn [ns_buf ns_must]. lia. }
      unfold ns_loop_bound in *. cbn [ns_buf ns_must] in *.
      cbn [ns_trace_items ns_trace_end length]. repeat split; auto; try apply I3; auto. lia.
    + rewrite (ns_drain_full_eq max (b ++ concat fills)), (ns_parse_item_mono _ _ (concat fills) _ _ E).
      apply ns_buffered_item_within_limit in E as [_ Hl]. unfold ns_len in Hl.
      specialize (IH {| ns_buf := r; ns_must := false; ns_eof := false |} fills).
      cbn [ns_buf] in IH.
      destruct (ns_loop n max {| ns_buf := r; ns_must := false; ns_eof := false |} fills) as [tr c''].
      destruct (ns_drain_full max (r ++ concat fills)) as [[fs1 rest] e1].
      destruct IH as (I1 & I2 & I3 & I4).
      { split; [reflexivity|]. cbn. discriminate. }
      { unfold ns_loop_bound. cbn [ns_buf ns_must]. lia. }
      unfold ns_loop_bound in *. cbn [ns_buf ns_must] in *.
      cbn [ns_trace_items ns_trace_end length]. rewrite I1. repeat split; auto; try apply I3; auto. lia.
    + rewrite (ns_drain_full_eq max (b ++ concat fills)), ns_parse_mono by (rewrite E; discriminate). rewrite E.
      cbn. unfold ns_loop_bound. cbn. repeat split; auto; try discriminate. lia.
    + rewrite (ns_drain_full_eq max (b ++ concat fills)), ns_parse_mono by (rewrite E; discriminate). rewrite E.
      cbn. unfold ns_loop_bound. cbn. repeat split; auto; try discriminate. lia.
Qed.

(* ---------------------------------------------------------------- C20_ns_eof_terminates *)
(* for every input cut into every list of fills (empty fills included): whatever fuel the loop is given beyond the
   bound, it makes at most |input| + |fills| + 1 calls and the last one returns StatusEof or throws *)
Theorem ns_eof_terminates max fills n :
  (length (concat fills) + length fills + 1 <= n)%nat ->
  let tr := fst (ns_loop n max ns_ctx_init fills) in
  ns_trace_end tr <> NsEndFuel /\ (length tr <= length (concat fills) + length fills + 1)%nat.
Proof.
  intros Hn. pose proof (ns_loop_drain max n ns_ctx_init fills (ns_inv_init max)) as H.
  unfold ns_loop_bound in H. cbn [ns_buf ns_must ns_ctx_init length Nat.add] in H.
  specialize (H ltac:(lia)).
  destruct (ns_loop n max ns_ctx_init fills) as [tr c']. cbn [fst].
  destruct (ns_drain_full max ([] ++ concat fills)) as [[fs rest] e].
  destruct H as (_ & H2 & _ & H4). split; [|lia].
  rewrite H2. destruct e; discriminate.
Qed.

(* the whole-stream result does not depend on the fuel beyond the bound, nor on the chunking: it is the batch parse *)
Theorem ns_read_all_drain max fills :
  let '(fs, rest, e) := ns_drain_full max (concat fills) in
  let '(items, en, size) := ns_read_all max fills in
  items = fs /\ en = ns_end_of e /\ (e = None -> size = ns_len rest).
Proof.
  unfold ns_read_all.
  pose proof (ns_loop_drain max (ns_loop_bound ns_ctx_init fills) ns_ctx_init fills (ns_inv_init max) (le_n _)) as H.
  cbn [ns_buf ns_ctx_init app] in H.
  destruct (ns_loop (ns_loop_bound ns_ctx_init fills) max ns_ctx_init fills) as [tr c'].
  destruct (ns_drain_full max (concat fills)) as [[fs rest] e].
  destruct H as (H1 & H2 & H3 & _). repeat split; auto. intros He. destruct (H3 He) as [-> _]. reflexivity.
Qed.

Theorem ns_eof_chunking_independent max fills fills' :
  concat fills = concat fills' ->
  fst (ns_read_all max fills) = fst (ns_read_all max fills') /\
  (snd (fst (ns_read_all max fills)) = NsEndEof -> ns_read_all max fills = ns_read_all max fills').
Proof.
  intros Hc. pose proof (ns_read_all_drain max fills) as H1. pose proof (ns_read_all_drain max fills') as H2.
  rewrite <- Hc in H2. destruct (ns_drain_full max (concat fills)) as [[fs rest] e].
  destruct (ns_read_all max fills) as [[i1 e1] s1]. destruct (ns_read_all max fills') as [[i2 e2] s2].
  destruct H1 as (A1 & B1 & C1). destruct H2 as (A2 & B2 & C2). cbn [fst snd]. subst i1 i2 e1 e2.
  split; [reflexivity|]. intros He. destruct e; [discriminate|]. rewrite C1, C2; reflexivity.
Qed.

(* ---------------------------------------------------------------- C20_ns_eof_prefix *)
(* complete frames followed by ANY remainder that is not itself a complete frame: exactly the frames are handed over,
   then the loop ends - with StatusEof when the remainder is an incomplete frame (nothing, part of a header, part of a
   payload, the terminator still missing), with the reader's exception when the remainder is malformed *)
Theorem ns_eof_prefix max ps tail fills :
  Forall (fun p => ns_len p < 10 ^ 9 /\ (max < 0 \/ ns_len p + 1 <= max)) ps ->
  concat fills = concat (map ns_write ps) ++ tail ->
  (ns_parse max tail = NsNeed -> ns_read_all max fills = (ps, NsEndEof, ns_len tail)) /\
  (forall e, ns_parse max tail = NsErr e -> fst (ns_read_all max fills) = (ps, NsEndErr e)).
Proof.
  intros Hps Hcat. pose proof (ns_read_all_drain max fills) as H. rewrite Hcat in H.
  pose proof (ns_drain_incremental max (S (length (concat (map ns_write ps)))) (concat (map ns_write ps)) tail ltac:(lia)) as Hinc.
  rewrite ns_drain_frames in Hinc by assumption. cbn [app] in Hinc.
  rewrite (ns_drain_full_eq max tail) in Hinc.
  split.
  - intros Ht. rewrite Ht in Hinc. rewrite Hinc, app_nil_r in H.
    destruct (ns_read_all max fills) as [[i e] s]. destruct H as (A & B & C). subst. rewrite C; reflexivity.
  - intros e Ht. rewrite Ht in Hinc. rewrite Hinc, app_nil_r in H.
    destruct (ns_read_all max fills) as [[i e1] s]. destruct H as (A & B & C). subst. reflexivity.
Qed.

(* every byte string splits that way: what the batch parse leaves is an incomplete frame or malformed *)
Theorem ns_remainder_cases max input :
  let '(fs, rest, e) := ns_drain_full max input in
  match e with None => ns_parse max rest = NsNeed | Some e => ns_parse max rest = NsErr e \/ (e = 0 /\ ns_parse max rest = NsOob) end.
Proof.
  remember (S (length input)) as n eqn:Hn. assert (length input < n)%nat as Hl by lia. clear Hn.
  revert input Hl. induction n as [|n IH]; intros input Hl; [lia|].
  rewrite ns_drain_full_eq. destruct (ns_parse max input) as [|p r|e|] eqn:E; auto.
  apply ns_buffered_item_within_limit in E as [_ Hr]. unfold ns_len in Hr.
  specialize (IH r ltac:(lia)). destruct (ns_drain_full max r) as [[fs rest] e]. exact IH.
Qed.

(* ---------------------------------------------------------------- no StatusNeedData once the end has been seen *)
Fixpoint ns_count_need (tr : list ns_status) : nat :=
  match tr with
  | [] => 0
  | NsStNeed :: t => S (ns_count_need t)
  | _ :: t => ns_count_need t
  end.

(* after the last fill: at most one more StatusNeedData (the call that finds the buffered remainder incomplete),
   and none at all when the reader is about to look at the stream (MustRead set) *)
Theorem ns_need_after_last_fill max : forall n c,
  ns_eof c = false ->
  (ns_count_need (fst (ns_loop n max c [])) <= (if ns_must c then 0 else 1))%nat.
Proof.
  induction n as [|n IH]; intros c He; [cbn; lia|].
  destruct c as [b m e0]. cbn [ns_eof ns_must] in *. subst e0.
  cbn [ns_loop]. unfold ns_ctx_read. cbn [ns_eof ns_must ns_buf negb andb tl].
  destruct m.
  - cbn. lia.
  - cbn [ns_buf ns_must ns_eof]. destruct (ns_parse max b) as [|p r|e|] eqn:E.
    + specialize (IH {| ns_buf := b; ns_must := true; ns_eof := false |} eq_refl). cbn [ns_must] in IH.
      destruct (ns_loop n max {| ns_buf := b; ns_must := true; ns_eof := false |} []) as [tr c'']. cbn [fst] in IH. cbn [fst ns_count_need]. lia.
    + specialize (IH {| ns_buf := r; ns_must := false; ns_eof := false |} eq_refl). cbn [ns_must] in IH.
      destruct (ns_loop n max {| ns_buf := r; ns_must := false; ns_eof := false |} []) as [tr c'']. cbn [fst] in IH. cbn [fst ns_count_need]. lia.
    + cbn. lia.
    + cbn. lia.
Qed.

(* the call that is told "end of stream" answers StatusEof and latches it; from then on every call answers StatusEof *)
Lemma ns_end_seen_is_eof max c :
  ns_eof c = false -> ns_must c = true ->
  ns_ctx_read max c None = (NsStEof, {| ns_buf := ns_buf c; ns_must := true; ns_eof := true |}).
Proof. intros He Hm. unfold ns_ctx_read. rewrite He, Hm. reflexivity. Qed.

Lemma ns_eof_latched max c fill : ns_eof c = true -> ns_ctx_read max c fill = (NsStEof, c).
Proof. intros He. unfold ns_ctx_read. rewrite He. reflexivity. Qed.
