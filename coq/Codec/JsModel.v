(* C20 - JSON.  Executable transcription of icinga::JsonEncode / JsonDecode (lib/base/json.cpp) together with the
   parts of nlohmann::json they use (serializer::dump_escaped / dump_integer with ensure_ascii = true, the lexer and
   the SAX parser in strict mode) and Utility::ValidateUTF8 (utf8::replace_invalid).  No proofs here.

   Numbers: a Value number is a binary64.  The abstraction used by the drivers maps a finite double that is
   integral and lies in [-2^63, 2^64) to [JsNum z] (this is exactly the case in which JsonEncoder::NumberFloat
   prints an integer) and every other finite double to [JsFlt f], where the type [js_flt] of such doubles, its printer
   (nlohmann's Grisu2, to_chars) and its parser (strtod + the isfinite test of the lexer) are PARAMETERS of the model
   (environment inputs, like libc's time zone data elsewhere): they are never computed inside Coq. *)
From Icv Require Import Base.Tac Codec.NsModel.
Local Open Scope Z_scope.

(* ---------------------------------------------------------------- UTF-8 (utf8cpp core.h / checked.h) *)
Inductive js_u8 :=
| JsU8Ok (cp : Z) (n : nat)      (* UTF8_OK: code point, sequence length *)
| JsU8NoRoom | JsU8BadLead | JsU8Incomplete | JsU8Overlong | JsU8BadCp.

Definition js_is_trail (b : Z) : bool := b / 64 =? 2.

(* is_code_point_valid, then is_overlong_sequence *)
Definition js_u8_check (cp : Z) (n : nat) : js_u8 :=
  if (cp <=? 1114111) && negb ((55296 <=? cp) && (cp <=? 57343)) then
    if ((cp <? 128) && negb (Nat.eqb n 1)) || ((128 <=? cp) && (cp <? 2048) && negb (Nat.eqb n 2))
       || ((2048 <=? cp) && (cp <? 65536) && negb (Nat.eqb n 3))
    then JsU8Overlong else JsU8Ok cp n
  else JsU8BadCp.

(* validate_next *)
Definition js_utf8_next (l : list Z) : js_u8 :=
  match l with
  | [] => JsU8NoRoom
  | b0 :: t =>
      if b0 <? 128 then js_u8_check b0 1
      else if b0 / 32 =? 6 then
        match t with
        | [] => JsU8NoRoom
        | b1 :: _ => if js_is_trail b1 then js_u8_check ((b0 * 64) mod 2048 + b1 mod 64) 2 else JsU8Incomplete
        end
      else if b0 / 16 =? 14 then
        match t with
        | [] => JsU8NoRoom
        | b1 :: t1 =>
            if js_is_trail b1 then
              match t1 with
              | [] => JsU8NoRoom
              | b2 :: _ => if js_is_trail b2
                           then js_u8_check ((b0 * 4096) mod 65536 + (b1 * 64) mod 4096 + b2 mod 64) 3
                           else JsU8Incomplete
              end
            else JsU8Incomplete
        end
      else if b0 / 8 =? 30 then
        match t with
        | [] => JsU8NoRoom
        | b1 :: t1 =>
            if js_is_trail b1 then
              match t1 with
              | [] => JsU8NoRoom
              | b2 :: t2 =>
                  if js_is_trail b2 then
                    match t2 with
                    | [] => JsU8NoRoom
                    | b3 :: _ =>
                        if js_is_trail b3
                        then js_u8_check ((b0 * 262144) mod 2097152 + (b1 * 4096) mod 262144 + (b2 * 64) mod 4096 + b3 mod 64) 4
                        else JsU8Incomplete
                    end
                  else JsU8Incomplete
              end
            else JsU8Incomplete
        end
      else JsU8BadLead
  end.

(* utf8::append *)
Definition js_utf8_enc (cp : Z) : list Z :=
  if cp <? 128 then [cp]
  else if cp <? 2048 then [192 + cp / 64; 128 + cp mod 64]
  else if cp <? 65536 then [224 + cp / 4096; 128 + (cp / 64) mod 64; 128 + cp mod 64]
  else [240 + cp / 262144; 128 + (cp / 4096) mod 64; 128 + (cp / 64) mod 64; 128 + cp mod 64].

Definition js_replacement : list Z := [239; 191; 189].      (* U+FFFD *)

Fixpoint js_skip_trail (l : list Z) : list Z :=
  match l with
  | b :: t => if js_is_trail b then js_skip_trail t else l
  | [] => []
  end.

(* Utility::ValidateUTF8 = utf8::replace_invalid; fuel = number of bytes (every round consumes at least one) *)
Fixpoint js_sanitize_aux (fuel : nat) (l : list Z) : list Z :=
  match fuel with
  | O => []
  | S f =>
      match l with
      | [] => []
      | b :: t =>
          match js_utf8_next l with
          | JsU8Ok _ n => firstn n l ++ js_sanitize_aux f (skipn n l)
          | JsU8NoRoom => js_replacement
          | JsU8BadLead => js_replacement ++ js_sanitize_aux f t
          | _ => js_replacement ++ js_sanitize_aux f (js_skip_trail t)
          end
      end
  end.
Definition js_sanitize (l : list Z) : list Z := js_sanitize_aux (length l) l.

(* ---------------------------------------------------------------- values *)
Section JsFloat.
Variable js_flt : Type.
Variable js_fprint : js_flt -> list Z.               (* dump_float *)
Variable js_fparse : list Z -> option js_flt.        (* strtod; None = not finite ("number overflow") *)
Variable js_lim : option Z.                          (* l_MaxJsonNestingDepth of lib/base/json.cpp (regenerated source fact
                                                        Facts_c20.f_js_max_depth); None = no nesting limit in the source *)

Inductive js_value :=
| JsNull
| JsBool (b : bool)
| JsNum (z : Z)
| JsFlt (f : js_flt)
| JsStr (s : list Z)
| JsArr (l : list js_value)
| JsObj (kvs : list (list Z * js_value)).            (* Dictionary: std::map<String, Value>, sorted by key *)

(* ---------------------------------------------------------------- encoder *)
Definition js_hexdigit (n : Z) : Z := if n <? 10 then 48 + n else 87 + n.     (* %x: lower case *)
Definition js_hex4 (x : Z) : list Z :=
  [js_hexdigit (x / 4096); js_hexdigit ((x / 256) mod 16); js_hexdigit ((x / 16) mod 16); js_hexdigit (x mod 16)].

(* one code point of dump_escaped with ensure_ascii = true *)
Definition js_esc_cp (cp : Z) : list Z :=
  if cp =? 8 then [92; 98] else if cp =? 9 then [92; 116] else if cp =? 10 then [92; 110]
  else if cp =? 12 then [92; 102] else if cp =? 13 then [92; 114]
  else if cp =? 34 then [92; 34] else if cp =? 92 then [92; 92]
  else if (cp <=? 31) || (127 <=? cp) then
    if cp <=? 65535 then 92 :: 117 :: js_hex4 cp
    else 92 :: 117 :: js_hex4 (55232 + cp / 1024) ++ 92 :: 117 :: js_hex4 (56320 + cp mod 1024)
  else [cp].

(* dump_escaped over a string; an ill-formed sequence makes the real serializer throw (error_handler strict):
   unreachable, because the string went through ValidateUTF8 - the model skips the byte *)
Fixpoint js_escape_aux (fuel : nat) (l : list Z) : list Z :=
  match fuel with
  | O => []
  | S f =>
      match l with
      | [] => []
      | b :: t =>
          match js_utf8_next l with
          | JsU8Ok cp n => js_esc_cp cp ++ js_escape_aux f (skipn n l)
          | _ => js_escape_aux f t
          end
      end
  end.
Definition js_escape (l : list Z) : list Z := js_escape_aux (length l) l.

Definition js_quote (s : list Z) : list Z := 34 :: js_escape (js_sanitize s) ++ [34].

(* dump_integer *)
Definition js_int (z : Z) : list Z := if z <? 0 then 45 :: ns_dec (- z) else ns_dec z.

Fixpoint js_encode (v : js_value) : list Z :=
  match v with
  | JsNull => [110; 117; 108; 108]
  | JsBool true => [116; 114; 117; 101]
  | JsBool false => [102; 97; 108; 115; 101]
  | JsNum z => js_int z
  | JsFlt f => js_fprint f
  | JsStr s => js_quote s
  | JsArr l =>
      91 :: (fix elems (l : list js_value) (first : bool) : list Z :=
               match l with
               | [] => []
               | v :: t => (if first then [] else [44]) ++ js_encode v ++ elems t false
               end) l true ++ [93]
  | JsObj kvs =>
      123 :: (fix members (l : list (list Z * js_value)) (first : bool) : list Z :=
                match l with
                | [] => []
                | (k, v) :: t => (if first then [] else [44]) ++ js_quote k ++ 58 :: js_encode v ++ members t false
                end) kvs true ++ [125]
  end.

(* ---------------------------------------------------------------- lexer *)
Inductive js_tok :=
| JtLBrack | JtRBrack | JtLBrace | JtRBrace | JtComma | JtColon
| JtNull | JtTrue | JtFalse
| JtStr (s : list Z) | JtInt (z : Z) | JtFlt (f : js_flt).

Definition js_hexval (b : Z) : option Z :=
  if (48 <=? b) && (b <=? 57) then Some (b - 48)
  else if (65 <=? b) && (b <=? 70) then Some (b - 55)
  else if (97 <=? b) && (b <=? 102) then Some (b - 87)
  else None.

(* get_codepoint: exactly four hex digits *)
Definition js_unhex4 (l : list Z) : option (Z * list Z) :=
  match l with
  | a :: b :: c :: d :: rest =>
      match js_hexval a, js_hexval b, js_hexval c, js_hexval d with
      | Some x3, Some x2, Some x1, Some x0 => Some (x3 * 4096 + x2 * 256 + x1 * 16 + x0, rest)
      | _, _, _, _ => None
      end
  | _ => None
  end.

(* scan_string after the opening quote; [acc] is the decoded string reversed in chunks *)
Fixpoint js_lex_str (fuel : nat) (l : list Z) (acc : list Z) : option (list Z * list Z) :=
  match fuel with
  | O => None
  | S f =>
      match l with
      | [] => None                                             (* missing closing quote *)
      | b :: t =>
          if b =? 34 then Some (acc, t)
          else if b =? 92 then
            match t with
            | [] => None
            | e :: t' =>
                if e =? 34 then js_lex_str f t' (acc ++ [34])
                else if e =? 92 then js_lex_str f t' (acc ++ [92])
                else if e =? 47 then js_lex_str f t' (acc ++ [47])
                else if e =? 98 then js_lex_str f t' (acc ++ [8])
                else if e =? 102 then js_lex_str f t' (acc ++ [12])
                else if e =? 110 then js_lex_str f t' (acc ++ [10])
                else if e =? 114 then js_lex_str f t' (acc ++ [13])
                else if e =? 116 then js_lex_str f t' (acc ++ [9])
                else if e =? 117 then
                  match js_unhex4 t' with
                  | None => None
                  | Some (cp1, r1) =>
                      if (55296 <=? cp1) && (cp1 <=? 56319) then      (* high surrogate: a low one must follow *)
                        match r1 with
                        | 92 :: 117 :: r2 =>
                            match js_unhex4 r2 with
                            | Some (cp2, r3) =>
                                if (56320 <=? cp2) && (cp2 <=? 57343)
                                then js_lex_str f r3 (acc ++ js_utf8_enc (cp1 * 1024 + cp2 - 56613888))
                                else None
                            | None => None
                            end
                        | _ => None
                        end
                      else if (56320 <=? cp1) && (cp1 <=? 57343) then None   (* lone low surrogate *)
                      else js_lex_str f r1 (acc ++ js_utf8_enc cp1)
                  end
                else None
            end
          else if b <? 32 then None                             (* control character must be escaped *)
          else js_lex_str f t (acc ++ [b])                      (* >= 0x80: well-formed because of ValidateUTF8 *)
      end
  end.

Definition js_isdig (b : Z) : bool := ns_isdigit b.

Fixpoint js_span_digits (l : list Z) : list Z * list Z :=
  match l with
  | b :: t => if js_isdig b then let '(ds, r) := js_span_digits t in (b :: ds, r) else ([], l)
  | [] => ([], [])
  end.

(* scan_number: optional minus, zero or a non-zero digit and digits, optional fraction, optional exponent
   ->  (token text, is-integer, rest) *)
Definition js_lex_num (l : list Z) : option (list Z * bool * list Z) :=
  let '(sign, l1) := match l with b :: t => if b =? 45 then ([45], t) else ([], l) | [] => ([], l) end in
  match l1 with
  | [] => None
  | d :: t =>
      if negb (js_isdig d) then None
      else
        let '(intpart, l2) := if d =? 48 then ([48], t) else js_span_digits l1 in
        let fracres :=
          match l2 with
          | b :: t2 =>
              if b =? 46 then
                let '(fd, l3) := js_span_digits t2 in
                match fd with [] => None | _ => Some (46 :: fd, l3) end
              else Some ([], l2)
          | [] => Some ([], l2)
          end in
        match fracres with
        | None => None
        | Some (frac, l3) =>
            let expres :=
              match l3 with
              | e :: t3 =>
                  if (e =? 101) || (e =? 69) then
                    let '(sg, t4) := match t3 with
                                     | s :: t4 => if (s =? 43) || (s =? 45) then ([s], t4) else ([], t3)
                                     | [] => ([], t3)
                                     end in
                    let '(ed, l4) := js_span_digits t4 in
                    match ed with [] => None | _ => Some (e :: sg ++ ed, l4) end
                  else Some ([], l3)
              | [] => Some ([], l3)
              end in
            match expres with
            | None => None
            | Some (ex, l4) =>
                Some (sign ++ intpart ++ frac ++ ex,
                      match frac, ex with [], [] => true | _, _ => false end, l4)
            end
        end
  end.

(* an integer literal beyond the 64-bit ranges is re-read with strtod; it is an error if that is not finite:
   round-to-nearest gives infinity from 2^1024 - 2^970 on *)
Definition js_int_overflow (z : Z) : bool := 2 ^ 1024 - 2 ^ 970 <=? Z.abs z.

Definition js_int_of_tok (text : list Z) : Z :=
  match text with
  | b :: ds => if b =? 45 then - ns_val ds else ns_val text
  | [] => 0
  end.

Definition js_is_ws (b : Z) : bool := (b =? 32) || (b =? 9) || (b =? 10) || (b =? 13).

Definition js_starts (pre l : list Z) : option (list Z) :=
  if list_eq_dec Z.eq_dec (firstn (length pre) l) pre then Some (skipn (length pre) l) else None.

Fixpoint js_lex (fuel : nat) (l : list Z) : option (list js_tok) :=
  match fuel with
  | O => None
  | S f =>
      match l with
      | [] => Some []
      | b :: t =>
          let cont (tok : js_tok) (rest : list Z) :=
            match js_lex f rest with Some ts => Some (tok :: ts) | None => None end in
          if b =? 0 then Some []                         (* the lexer takes a NUL byte for the end of the input *)
          else if js_is_ws b then js_lex f t
          else if b =? 91 then cont JtLBrack t
          else if b =? 93 then cont JtRBrack t
          else if b =? 123 then cont JtLBrace t
          else if b =? 125 then cont JtRBrace t
          else if b =? 44 then cont JtComma t
          else if b =? 58 then cont JtColon t
          else if b =? 110 then match js_starts [117; 108; 108] t with Some r => cont JtNull r | None => None end
          else if b =? 116 then match js_starts [114; 117; 101] t with Some r => cont JtTrue r | None => None end
          else if b =? 102 then match js_starts [97; 108; 115; 101] t with Some r => cont JtFalse r | None => None end
          else if b =? 34 then
            match js_lex_str f t [] with                  (* f >= length t: enough for any string inside t *)
            | Some (s, r) => cont (JtStr s) r
            | None => None
            end
          else if (b =? 45) || js_isdig b then
            match js_lex_num l with
            | Some (text, true, r) =>
                let z := js_int_of_tok text in
                if js_int_overflow z then None else cont (JtInt z) r
            | Some (text, false, r) =>
                match js_fparse text with Some x => cont (JtFlt x) r | None => None end
            | None => None
            end
          else None
      end
  end.

(* ---------------------------------------------------------------- SAX adapter + parser *)
(* byte-wise order of std::string / icinga::String *)
Fixpoint js_key_ltb (a b : list Z) : bool :=
  match a, b with
  | [], [] => false
  | [], _ :: _ => true
  | _ :: _, [] => false
  | x :: a', y :: b' => if x <? y then true else if y <? x then false else js_key_ltb a' b'
  end.

(* Dictionary::Set on the sorted association list: replace or insert in order *)
Fixpoint js_obj_set (k : list Z) (v : js_value) (l : list (list Z * js_value)) : list (list Z * js_value) :=
  match l with
  | [] => [(k, v)]
  | (k', v') :: t =>
      if js_key_ltb k k' then (k, v) :: l
      else if js_key_ltb k' k then (k', v') :: js_obj_set k v t
      else (k, v) :: t
  end.

(* JsonSax::start_object / start_array: m_CurrentSubtree.size() >= limit -> throw; [d] = open containers *)
Definition js_depth_ok (d : Z) : bool :=
  match js_lim with Some m => d <? m | None => true end.

Fixpoint js_pval (fuel : nat) (d : Z) (ts : list js_tok) : option (js_value * list js_tok) :=
  match fuel with
  | O => None
  | S f =>
      match ts with
      | JtNull :: r => Some (JsNull, r)
      | JtTrue :: r => Some (JsBool true, r)
      | JtFalse :: r => Some (JsBool false, r)
      | JtInt z :: r => Some (JsNum z, r)
      | JtFlt x :: r => Some (JsFlt x, r)
      | JtStr s :: r => Some (JsStr s, r)
      | JtLBrack :: r =>
          if js_depth_ok d then
            match r with
            | JtRBrack :: r' => Some (JsArr [], r')
            | _ => js_parr f (d + 1) r []
            end
          else None
      | JtLBrace :: r =>
          if js_depth_ok d then
            match r with
            | JtRBrace :: r' => Some (JsObj [], r')
            | _ => js_pobj f (d + 1) r []
            end
          else None
      | _ => None
      end
  end
with js_parr (fuel : nat) (d : Z) (ts : list js_tok) (acc : list js_value) : option (js_value * list js_tok) :=
  match fuel with
  | O => None
  | S f =>
      match js_pval f d ts with
      | Some (v, JtComma :: r) => js_parr f d r (acc ++ [v])
      | Some (v, JtRBrack :: r) => Some (JsArr (acc ++ [v]), r)
      | _ => None
      end
  end
with js_pobj (fuel : nat) (d : Z) (ts : list js_tok) (acc : list (list Z * js_value)) : option (js_value * list js_tok) :=
  match fuel with
  | O => None
  | S f =>
      match ts with
      | JtStr k :: JtColon :: r =>
          match js_pval f d r with
          | Some (v, JtComma :: r') => js_pobj f d r' (js_obj_set k v acc)
          | Some (v, JtRBrace :: r') => Some (JsObj (js_obj_set k v acc), r')
          | _ => None
          end
      | _ => None
      end
  end.

(* skip_bom *)
Definition js_skip_bom (l : list Z) : option (list Z) :=
  match l with
  | b :: t => if b =? 239 then match t with 187 :: 191 :: r => Some r | _ => None end else Some l
  | [] => Some l
  end.

(* JsonDecode: ValidateUTF8, then sax_parse (strict: nothing but white space may follow the value) *)
Definition js_decode (input : list Z) : option js_value :=
  match js_skip_bom (js_sanitize input) with
  | None => None
  | Some l =>
      match js_lex (S (length l)) l with
      | None => None
      | Some ts =>
          match js_pval (S (2 * length ts)) 0 ts with
          | Some (v, []) => Some v
          | _ => None
          end
      end
  end.

(* JsonRpc::DecodeMessage: the value must be a dictionary *)
Definition js_decode_message (input : list Z) : option js_value :=
  match js_decode input with
  | Some (JsObj kvs) => Some (JsObj kvs)
  | _ => None
  end.

End JsFloat.
