(* C20 - the executable checks that are run over the IMPLEMENTATION's traces (extracted next to the model).
   They compare what the real code returned with what the theorems of Codec/*Proofs.v establish for the model
   (and, for JSON round trips, with the C20 statement itself: the decoded value equals the original one). *)
From Icv Require Import Base.Tac Codec.NsModel Codec.JsModel.
Local Open Scope Z_scope.

Fixpoint cd_bytes_eqb (a b : list Z) : bool :=
  match a, b with
  | [], [] => true
  | x :: a', y :: b' => (x =? y) && cd_bytes_eqb a' b'
  | _, _ => false
  end.

Fixpoint cd_frames_eqb (a b : list (list Z)) : bool :=
  match a, b with
  | [], [] => true
  | x :: a', y :: b' => cd_bytes_eqb x y && cd_frames_eqb a' b'
  | _, _ => false
  end.

(* ---------------- buffered netstring reader: one pump after a chunk arrived *)
Record ns_obs := { nso_items : list (list Z); nso_err : bool; nso_size : Z }.

Definition ns_obs_of (r : ns_pumped) : ns_obs :=
  {| nso_items := ns_items r;
     nso_err := match ns_error r with Some _ => true | None => false end;
     nso_size := ns_len (ns_buf (ns_ctx_after r)) |}.

Definition ns_obs_eqb (a b : ns_obs) : bool :=
  cd_frames_eqb (nso_items a) (nso_items b) && Bool.eqb (nso_err a) (nso_err b) && (nso_size a =? nso_size b).

(* index of the first pump whose observation is not the one established for the model, or None.
   The reader is not used any more after an error (the harness prints "dead"; such feeds are not passed in). *)
Fixpoint ns_oracle_buffered (max : Z) (c : ns_ctx) (idx : Z) (feeds : list (list Z * ns_obs)) : option Z :=
  match feeds with
  | [] => None
  | (chunk, o) :: more =>
      let r := ns_feed max c chunk in
      if ns_obs_eqb (ns_obs_of r) o then
        (if nso_err o then None else ns_oracle_buffered max (ns_ctx_after r) (idx + 1) more)
      else Some idx
  end.

(* the C20 statement for declared frame sequences: if the chunks are a chunking of the declared valid frames,
   exactly those frames come out, in order, without error, and nothing is left in the buffer *)
Definition ns_frame_ok (max : Z) (p : list Z) : bool :=
  (ns_len p <? 10 ^ 9) && ((max <? 0) || (ns_len p + 1 <=? max)).

Definition ns_oracle_frames (max : Z) (frames : list (list Z)) (feeds : list (list Z * ns_obs)) : bool :=
  if forallb (ns_frame_ok max) frames && cd_bytes_eqb (concat (map fst feeds)) (concat (map ns_write frames)) then
    cd_frames_eqb (concat (map (fun f => nso_items (snd f)) feeds)) frames
    && forallb (fun f => negb (nso_err (snd f))) feeds
    && match rev feeds with [] => true | (_, o) :: _ => nso_size o =? 0 end
  else true.

(* ---------------- buffered reader driven by the callers' loop up to the END of the stream.
   Observation: frames handed over, how the loop ended (0 = StatusEof, 1 = exception, 2 = neither within the harness'
   generous bound on the number of calls), and - at StatusEof - the bytes left in the buffer and whether the next calls
   answered StatusEof again.  The expectation is computed with the whole input as ONE fill: by
   C20_ns_eof_chunking_independent it is the same for every chunking the real stream may have delivered. *)
Definition ns_end_code (e : ns_end) : Z := match e with NsEndEof => 0 | NsEndErr _ => 1 | NsEndFuel => 2 end.

Definition ns_oracle_eof (max : Z) (input : list Z) (items : list (list Z)) (en size sticky : Z) : bool :=
  let '(fs, e, sz) := ns_read_all max [input] in
  cd_frames_eqb fs items && (en =? ns_end_code e) &&
  (if en =? 0 then (size =? sz) && (sticky =? 1) else true).

(* ---------------- the real writers on a payload of n bytes built inside the harness (sizes around the digit-count boundaries,
   too large to pass through a script), read back by the real readers.  The expectation is not computed by running the model on
   the payload but taken from the theorems (ns_wbig_sound in CodecOracleProofs.v): header = decimal n ':', n + digits + 2 bytes,
   ',' last, both writer overloads agree, and the payload comes back iff n < 10^9 and the limit allows it
   (buffered reader: n + 1 <= max, TLS readers: n <= max), otherwise the reader throws *)
Definition ns_wbig_back (tls : bool) (max n : Z) : bool :=
  (n <? 10 ^ 9) && ((max <? 0) || (if tls then n <=? max else n + 1 <=? max)).

Definition ns_oracle_wbig (tls : bool) (max n : Z) (hdr : list Z) (total : Z) (last : list Z) (same back err : Z) : bool :=
  cd_bytes_eqb hdr (ns_dec n ++ [ns_colon]) && (total =? ns_len (ns_dec n) + n + 2) && cd_bytes_eqb last [ns_comma] && (same =? 1) &&
  (if ns_wbig_back tls max n then (back =? 1) && (err =? 0) else (back =? 0) && (err =? 1)).

(* ---------------- stream variant: frames read until the first error / end of the stream *)
Fixpoint nss_run (fuel : nat) (max : Z) (input : list Z) : list (list Z) * Z * Z :=   (* items, end (0 short, 1 err), rest *)
  match fuel with
  | O => ([], 0, 0)
  | S f =>
      match ns_read_stream max input with
      | NsSOk p rest => let '(fs, e, r) := nss_run f max rest in (p :: fs, e, r)
      | NsSErr _ rest => ([], 1, ns_len rest)
      | NsSShort => ([], 0, 0)
      end
  end.

Definition nss_oracle (max : Z) (input : list Z) (items : list (list Z)) (e rest big : Z) : bool :=
  let '(fs, e', r') := nss_run (S (length input)) max input in
  cd_frames_eqb fs items && (e =? e') && (rest =? r') && (big =? 0).

(* ---------------- JSON *)
Section JsOracle.
Variable js_flt : Type.
Variable js_fprint : js_flt -> list Z.
Variable js_fparse : list Z -> option js_flt.
Variable js_lim : option Z.
Variable js_feqb : js_flt -> js_flt -> bool.
Variable js_fofz : Z -> js_flt.            (* (double)z, correctly rounded: the Value a JsNum stands for *)

Fixpoint js_value_eqb (a b : js_value js_flt) : bool :=
  match a, b with
  | JsNull _, JsNull _ => true
  | JsBool _ x, JsBool _ y => Bool.eqb x y
  | JsNum _ x, JsNum _ y => (x =? y) || js_feqb (js_fofz x) (js_fofz y)
  | JsFlt _ x, JsFlt _ y => js_feqb x y
  | JsFlt _ x, JsNum _ z => js_feqb x (js_fofz z)
  | JsNum _ z, JsFlt _ x => js_feqb (js_fofz z) x
  | JsStr _ x, JsStr _ y => cd_bytes_eqb x y
  | JsArr _ x, JsArr _ y =>
      (fix go (x y : list (js_value js_flt)) : bool :=
         match x, y with
         | [], [] => true
         | u :: x', v :: y' => js_value_eqb u v && go x' y'
         | _, _ => false
         end) x y
  | JsObj _ x, JsObj _ y =>
      (fix go (x y : list (list Z * js_value js_flt)) : bool :=
         match x, y with
         | [], [] => true
         | (k, u) :: x', (k', v) :: y' => cd_bytes_eqb k k' && js_value_eqb u v && go x' y'
         | _, _ => false
         end) x y
  | _, _ => false
  end.

(* what the sender's value looks like after Utility::ValidateUTF8 on every string and key (identity on UTF-8) *)
Fixpoint js_norm (v : js_value js_flt) : js_value js_flt :=
  match v with
  | JsStr _ s => JsStr _ (js_sanitize s)
  | JsArr _ l => JsArr _ (map js_norm l)
  | JsObj _ kvs => JsObj _ (fold_left (fun acc kv => js_obj_set _ (js_sanitize (fst kv)) (js_norm (snd kv)) acc) kvs [])
  | o => o
  end.

(* round trip: the receiver's value equals the sender's *)
Definition js_oracle_rt (v : js_value js_flt) (decoded : option (js_value js_flt)) : bool :=
  match decoded with
  | Some d => js_value_eqb (js_norm v) d
  | None => false
  end.

(* arbitrary bytes: error or value exactly as established for the model *)
Definition js_oracle_dec (input : list Z) (decoded : option (js_value js_flt)) : bool :=
  match js_decode _ js_fparse js_lim input, decoded with
  | Some a, Some b => js_value_eqb a b
  | None, None => true
  | _, _ => false
  end.

Definition js_oracle_msg (input : list Z) (decoded : option (js_value js_flt)) : bool :=
  match js_decode_message _ js_fparse js_lim input, decoded with
  | Some a, Some b => js_value_eqb a b
  | None, None => true
  | _, _ => false
  end.

End JsOracle.
