(* C20 - the netstring oracles accept every trace the model can produce (so they fire only where the
   implementation leaves what the theorems establish). *)
From Icv Require Import Base.Tac Codec.NsModel Codec.NsDecimal Codec.NsProofs Codec.NsEofProofs Codec.NsStreamProofs Codec.JsModel Codec.CodecOracle.
Local Open Scope Z_scope.

Lemma cd_bytes_eqb_refl a : cd_bytes_eqb a a = true.
Proof. induction a; cbn; [reflexivity|]. rewrite Z.eqb_refl. assumption. Qed.

Lemma cd_bytes_eqb_eq a : forall b, cd_bytes_eqb a b = true -> a = b.
Proof.
  induction a as [|x a IH]; intros [|y b] H; cbn in H; try discriminate; [reflexivity|].
  apply andb_true_iff in H as [H1 H2]. apply Z.eqb_eq in H1. subst. f_equal. auto.
Qed.

Lemma cd_frames_eqb_refl a : cd_frames_eqb a a = true.
Proof. induction a; cbn; [reflexivity|]. rewrite cd_bytes_eqb_refl. assumption. Qed.

Lemma ns_obs_eqb_refl o : ns_obs_eqb o o = true.
Proof. unfold ns_obs_eqb. rewrite cd_frames_eqb_refl, Bool.eqb_reflx, Z.eqb_refl. reflexivity. Qed.

(* what the model observes when the chunks are fed one after the other (nothing is fed after an error) *)
Fixpoint ns_model_feeds (max : Z) (c : ns_ctx) (chunks : list (list Z)) : list (list Z * ns_obs) :=
  match chunks with
  | [] => []
  | ch :: more =>
      let r := ns_feed max c ch in
      (ch, ns_obs_of r) :: (if nso_err (ns_obs_of r) then [] else ns_model_feeds max (ns_ctx_after r) more)
  end.

Theorem ns_oracle_buffered_accepts_model max : forall chunks c idx,
  ns_oracle_buffered max c idx (ns_model_feeds max c chunks) = None.
Proof.
  induction chunks as [|ch more IH]; intros c idx; cbn [ns_model_feeds ns_oracle_buffered]; [reflexivity|].
  rewrite ns_obs_eqb_refl. destruct (nso_err (ns_obs_of (ns_feed max c ch))); [reflexivity|]. apply IH.
Qed.

Lemma ns_model_feeds_all max : forall chunks c,
  let '(fs, c', e) := ns_feed_all max c chunks in
  e = None ->
  concat (map (fun f => nso_items (snd f)) (ns_model_feeds max c chunks)) = fs /\
  forallb (fun f => negb (nso_err (snd f))) (ns_model_feeds max c chunks) = true /\
  map fst (ns_model_feeds max c chunks) = chunks /\
  match rev (ns_model_feeds max c chunks) with [] => True | (_, o) :: _ => nso_size o = ns_len (ns_buf c') end.
Proof.
  induction chunks as [|ch more IH]; intros c; cbn [ns_feed_all ns_model_feeds].
  - intros _. cbn. auto.
  - cbv zeta.
    assert (nso_err (ns_obs_of (ns_feed max c ch)) =
            match ns_error (ns_feed max c ch) with Some _ => true | None => false end) as Herr by reflexivity.
    rewrite Herr.
    destruct (ns_error (ns_feed max c ch)) as [e|] eqn:Ee; [intros H; discriminate|].
    specialize (IH (ns_ctx_after (ns_feed max c ch))).
    destruct (ns_feed_all max (ns_ctx_after (ns_feed max c ch)) more) as [[fs c'] e] eqn:Efa.
    intros ->. destruct (IH eq_refl) as (A & B & C & D).
    cbn [map concat forallb snd fst]. rewrite Herr. cbn [negb andb]. change (nso_items (ns_obs_of (ns_feed max c ch))) with (ns_items (ns_feed max c ch)).
    split; [rewrite A; reflexivity|]. split; [exact B|]. split; [rewrite C; reflexivity|].
    cbn [rev]. destruct (rev (ns_model_feeds max (ns_ctx_after (ns_feed max c ch)) more)) as [|[ch' o] t] eqn:Er.
    + cbn [app]. cbn [nso_size].
      destruct more as [|m1 more']; [cbn [ns_feed_all] in Efa; inv Efa; reflexivity|].
      exfalso. cbn [ns_model_feeds] in Er. apply (f_equal (@length _)) in Er. rewrite rev_length in Er. cbn in Er. lia.
    + cbn [app]. exact D.
Qed.

Theorem ns_oracle_frames_accepts_model max frames chunks :
  ns_oracle_frames max frames (ns_model_feeds max ns_ctx_init chunks) = true.
Proof.
  unfold ns_oracle_frames.
  destruct (forallb (ns_frame_ok max) frames &&
            cd_bytes_eqb (concat (map fst (ns_model_feeds max ns_ctx_init chunks))) (concat (map ns_write frames))) eqn:Hc;
    [|reflexivity].
  apply andb_true_iff in Hc as [Hv Hcat]. apply cd_bytes_eqb_eq in Hcat.
  assert (Forall (fun p => ns_len p < 10 ^ 9 /\ (max < 0 \/ ns_len p + 1 <= max)) frames) as Hf.
  { apply Forall_forall. intros p Hp. rewrite forallb_forall in Hv. specialize (Hv p Hp). unfold ns_frame_ok in Hv. lia. }
  (* the chunks that were actually fed form a chunking of the frames (no error can have cut the list short:
     map fst of the model feeds is then the list of chunks fed so far, and feeding exactly those is error free) *)
  set (fed := map fst (ns_model_feeds max ns_ctx_init chunks)) in *.
  assert (ns_model_feeds max ns_ctx_init fed = ns_model_feeds max ns_ctx_init chunks) as Hsame.
  { unfold fed. generalize ns_ctx_init. clear. induction chunks as [|ch more IH]; intros c; cbn [ns_model_feeds map fst]; [reflexivity|].
    f_equal. destruct (nso_err (ns_obs_of (ns_feed max c ch))); [reflexivity|]. apply IH. }
  destruct (ns_chunking max frames fed Hf Hcat) as (c' & Hall & Hbuf & _).
  pose proof (ns_model_feeds_all max fed ns_ctx_init) as H. rewrite Hall in H.
  destruct (H eq_refl) as (A & B & _ & D). rewrite Hsame in *.
  rewrite A, cd_frames_eqb_refl, B. cbn [andb].
  destruct (rev (ns_model_feeds max ns_ctx_init chunks)) as [|[ch o] t]; [reflexivity|].
  rewrite D, Hbuf. reflexivity.
Qed.

(* the end-of-stream oracle accepts what the model's caller loop computes, for EVERY chunking of the input *)
Theorem ns_oracle_eof_accepts_model max fills :
  let '(items, e, size) := ns_read_all max fills in
  ns_oracle_eof max (concat fills) items (ns_end_code e) size 1 = true.
Proof.
  pose proof (ns_eof_chunking_independent max fills [concat fills]) as H.
  cbn [concat] in H. rewrite app_nil_r in H. destruct (H eq_refl) as [H1 H2]. clear H.
  unfold ns_oracle_eof.
  destruct (ns_read_all max fills) as [[i e] sz]. destruct (ns_read_all max [concat fills]) as [[i' e'] sz'].
  cbn [fst snd] in *. inv H1. rewrite cd_frames_eqb_refl, Z.eqb_refl. cbn [andb].
  destruct e'; cbn [ns_end_code Z.eqb]; try reflexivity.
  specialize (H2 eq_refl). inv H2. rewrite Z.eqb_refl. reflexivity.
Qed.

(* what ns_oracle_wbig expects is what the model does on EVERY payload of that length *)
Theorem ns_wbig_sound max p :
  let n := ns_len p in
  ns_write p = (ns_dec n ++ [ns_colon]) ++ p ++ [ns_comma] /\
  ns_len (ns_write p) = ns_len (ns_dec n) + n + 2 /\
  (ns_wbig_back false max n = true -> ns_read_all max [ns_write p] = ([p], NsEndEof, 0)) /\
  (ns_wbig_back true max n = true -> ns_read_stream max (ns_write p) = NsSOk p []) /\
  (n < 10 ^ 9 -> ns_wbig_back false max n = false -> fst (ns_read_all max [ns_write p]) = ([], NsEndErr ns_e_max)) /\
  (n < 10 ^ 9 -> ns_wbig_back true max n = false -> exists tl, ns_read_stream max (ns_write p) = NsSErr ns_e_max tl).
Proof.
  cbv zeta. pose proof (ns_len_nonneg p) as Hn.
  split; [unfold ns_write; rewrite <- app_assoc; reflexivity|].
  split; [unfold ns_write; rewrite ns_len_app, ns_len_cons, ns_len_app; change (ns_len [ns_comma]) with 1; lia|].
  unfold ns_wbig_back.
  split; [|split; [|split]].
  - intros H. apply andb_prop in H as [H9 Hm]. apply Z.ltb_lt in H9.
    assert (max < 0 \/ ns_len p + 1 <= max) as Hmax by (apply orb_prop in Hm as [Hm|Hm]; [left; apply Z.ltb_lt; assumption|right; apply Z.leb_le; assumption]).
    destruct (ns_eof_prefix max [p] [] [ns_write p]) as [A _].
    + constructor; [split; assumption|constructor].
    + cbn. rewrite !app_nil_r. reflexivity.
    + apply A. reflexivity.
  - intros H. apply andb_prop in H as [H9 Hm]. apply Z.ltb_lt in H9.
    rewrite <- (app_nil_r (ns_write p)). apply ns_roundtrip_stream; [assumption|].
    apply orb_prop in Hm as [Hm|Hm]; [left; apply Z.ltb_lt; assumption|right; apply Z.leb_le; assumption].
  - intros H9 H. apply andb_false_iff in H as [H|H]; [apply Z.ltb_ge in H; lia|].
    apply orb_false_iff in H as [H1 H2]. apply Z.ltb_ge in H1. apply Z.leb_gt in H2.
    destruct (ns_eof_prefix max [] (ns_write p) [ns_write p]) as [_ B]; [constructor|cbn; rewrite app_nil_r; reflexivity|].
    apply B. unfold ns_write. apply ns_buffered_limit; lia.
  - intros H9 H. apply andb_false_iff in H as [H|H]; [apply Z.ltb_ge in H; lia|].
    apply orb_false_iff in H as [H1 H2]. apply Z.ltb_ge in H1. apply Z.leb_gt in H2.
    unfold ns_write. destruct (ns_stream_limit_rejects max (ns_len p) (p ++ [ns_comma]) ltac:(lia) H9) as (Hrej & _).
    eexists. exact Hrej.
Qed.

(* the stream oracle accepts what the model computes *)
Theorem nss_oracle_accepts_model max input :
  let '(fs, e, r) := nss_run (S (length input)) max input in nss_oracle max input fs e r 0 = true.
Proof.
  unfold nss_oracle. destruct (nss_run (S (length input)) max input) as [[fs e] r].
  rewrite cd_frames_eqb_refl, !Z.eqb_refl. reflexivity.
Qed.

(* the frames the stream oracle's run reports are exactly what the strictness theorem allows: each one is a
   well-formed frame at the head of the remaining stream *)
Theorem nss_run_sound max : forall fuel input fs e r,
  nss_run fuel max input = (fs, e, r) ->
  exists rest, input = concat (map ns_write fs) ++ rest /\
               Forall (fun p => ns_len p < 10 ^ 9 /\ (max < 0 \/ ns_len p <= max)) fs.
Proof.
  induction fuel as [|f IH]; intros input fs e r H; cbn [nss_run] in H.
  - inv H. exists input. split; [reflexivity|constructor].
  - destruct (ns_read_stream max input) as [p rest|e' rest|] eqn:E.
    + destruct (nss_run f max rest) as [[fs' e2] r2] eqn:E2. inv H.
      apply ns_stream_strict in E as (-> & H9 & Hm).
      destruct (IH _ _ _ _ E2) as (rest' & -> & Hall).
      exists rest'. cbn [map concat]. rewrite <- app_assoc. split; [reflexivity|]. constructor; auto.
    + inv H. exists input. split; [reflexivity|constructor].
    + inv H. exists input. split; [reflexivity|constructor].
Qed.

(* nesting to depth 64 (the property's quantifier) fits the limit the source has now *)
From Icv Require Import Codec.JsProofs Codec.JsRoundtrip Facts.Facts_c20.
Theorem js_depth64_fits (js_flt : Type) (v : js_value js_flt) :
  js_depth _ v <= 64 -> js_fits _ f_js_max_depth 0 v.
Proof.
  intros H. unfold js_fits. destruct f_js_max_depth as [m|] eqn:E; [|exact I].
  assert (64 < m) as Hm. { pose proof (eq_refl : match f_js_max_depth with Some m => 64 <? m | None => true end = true) as C. rewrite E in C. lia. }
  lia.
Qed.

(* ---------------- the JSON round-trip oracle accepts what the model computes (rests on js_roundtrip) *)
From Coq Require Import Sorting.Sorted.
Section JsOracleProofs.
Variable js_flt : Type.
Variable js_fprint : js_flt -> list Z.
Variable js_fparse : list Z -> option js_flt.
Variable js_lim : option Z.
Variable js_feqb : js_flt -> js_flt -> bool.
Variable js_fofz : Z -> js_flt.
Hypothesis js_feqb_refl : forall x, js_feqb x x = true.

Lemma js_value_eqb_refl : forall v : js_value js_flt, js_value_eqb js_flt js_feqb js_fofz v v = true.
Proof.
  apply js_value_rect'; cbn [js_value_eqb]; intros.
  - reflexivity.
  - apply Bool.eqb_reflx.
  - rewrite Z.eqb_refl. reflexivity.
  - apply js_feqb_refl.
  - apply cd_bytes_eqb_refl.
  - induction H as [|x l Hx Hl IH]; [reflexivity|]. rewrite Hx. exact IH.
  - induction H as [|[k x] l Hx Hl IH]; [reflexivity|]. cbn [snd] in Hx. rewrite cd_bytes_eqb_refl, Hx. exact IH.
Qed.

Lemma js_norm_members : forall (l acc : list (list Z * js_value js_flt)),
  Forall (fun kv => js_sanitize (fst kv) = fst kv /\ js_norm js_flt (snd kv) = snd kv) l ->
  StronglySorted (js_key_lt js_flt) l -> (forall a b, In a acc -> In b l -> js_key_lt js_flt a b) ->
  fold_left (fun acc kv => js_obj_set js_flt (js_sanitize (fst kv)) (js_norm js_flt (snd kv)) acc) l acc = acc ++ l.
Proof.
  induction l as [|[k x] t IH]; intros acc Hid Hss Hacc; cbn [fold_left]; [rewrite app_nil_r; reflexivity|].
  inversion Hid as [|? ? Hkx Ht]; subst. destruct Hkx as [Hk Hx]. inversion Hss as [|? ? Hst Hlt]; subst. cbn [fst snd] in *. rewrite Hk, Hx.
  rewrite (js_obj_set_append js_flt js_fparse).
  - rewrite IH; [rewrite <- app_assoc; reflexivity|assumption|assumption|].
    intros a b Ha Hb. apply in_app_or in Ha as [Ha|[<-|[]]].
    + apply Hacc; [assumption|right; assumption].
    + exact (proj1 (Forall_forall _ _) Hlt b Hb).
  - apply Forall_forall. intros a Ha. apply (Hacc a (k, x) Ha). left. reflexivity.
Qed.

Lemma js_norm_id : forall v : js_value js_flt, js_wf js_flt v -> js_sorted js_flt v -> js_norm js_flt v = v.
Proof.
  apply (js_value_rect' js_flt (fun v => js_wf js_flt v -> js_sorted js_flt v -> js_norm js_flt v = v)); cbn [js_norm]; try reflexivity.
  - intros s Hw _. inv Hw. rewrite js_sanitize_valid by assumption. reflexivity.
  - intros l IH Hw Hs. inv Hw. inv Hs. f_equal.
    induction l as [|x l IHl]; [reflexivity|]. inv IH. inv H0. inv H1. cbn [map]. f_equal; auto.
  - intros kvs IH Hw Hs. inv Hw. inversion Hs as [| | | | | |? Hsv Hss]; subst. f_equal.
    rewrite js_norm_members; [reflexivity| |assumption|intros a b []].
    apply Forall_forall. intros kv Hin. rewrite Forall_forall in IH, H0, Hsv.
    destruct (H0 kv Hin) as [(cps & Hc & Ek) Hwv]. split; [rewrite Ek; apply js_sanitize_valid; assumption|].
    apply IH; auto.
Qed.

Hypothesis js_fparse_fprint : forall x, js_fparse (js_fprint x) = Some x.
Hypothesis js_fprint_token : forall x rest,
  match rest with [] => True | b :: _ => b = 44 \/ b = 93 \/ b = 125 end ->
  js_lex_num (js_fprint x ++ rest) = Some (js_fprint x, false, rest).
Hypothesis js_fprint_ascii : forall x, exists b t, js_fprint x = b :: t /\ (b = 45 \/ 48 <= b <= 57) /\ Forall (fun c => 0 <= c < 128) (b :: t).

(* the oracle run over implementation traces accepts the model's own round trip of every value of the data model *)
Theorem js_oracle_rt_accepts_model (v : js_value js_flt) :
  js_wf js_flt v -> js_sorted js_flt v -> js_fits js_flt js_lim 0 v ->
  js_oracle_rt js_flt js_feqb js_fofz v (js_decode js_flt js_fparse js_lim (js_encode js_flt js_fprint v)) = true.
Proof.
  intros Hw Hs Hf. rewrite (js_roundtrip js_flt js_fprint js_fparse js_lim js_fparse_fprint js_fprint_token js_fprint_ascii v Hw Hs Hf).
  unfold js_oracle_rt. rewrite js_norm_id by assumption. apply js_value_eqb_refl.
Qed.

(* and, trivially, the hostile-input oracles compare with the model itself *)
Theorem js_oracle_dec_accepts_model input :
  js_oracle_dec js_flt js_fparse js_lim js_feqb js_fofz input (js_decode js_flt js_fparse js_lim input) = true.
Proof. unfold js_oracle_dec. destruct (js_decode js_flt js_fparse js_lim input); [apply js_value_eqb_refl|reflexivity]. Qed.

End JsOracleProofs.
