(* C20 - netstring framing: round trip, in-bounds reads, limit, chunking independence (buffered variant). *)
From Icv Require Import Base.Tac Codec.NsModel Codec.NsDecimal.
Local Open Scope Z_scope.

(* ---------------------------------------------------------------- guarded reads *)
Lemma ns_len_app a b : ns_len (a ++ b) = ns_len a + ns_len b.
Proof. unfold ns_len. rewrite app_length. lia. Qed.

Lemma ns_len_cons a t : ns_len (a :: t) = 1 + ns_len t.
Proof. unfold ns_len. cbn [length]. lia. Qed.

Lemma ns_len_nonneg a : 0 <= ns_len a.
Proof. unfold ns_len. lia. Qed.

Lemma ns_get_app_l a b i : 0 <= i < ns_len a -> ns_get (a ++ b) i = ns_get a i.
Proof.
  intros H. unfold ns_get, ns_len in *. destruct (i <? 0) eqn:E; [lia|]. apply nth_error_app1. lia.
Qed.

Lemma ns_get_app_r a b i : ns_len a <= i -> ns_get (a ++ b) i = ns_get b (i - ns_len a).
Proof.
  intros H. unfold ns_get, ns_len in *. destruct (i <? 0) eqn:E; [lia|].
  destruct (i - Z.of_nat (length a) <? 0) eqn:E2; [lia|].
  rewrite nth_error_app2 by lia. f_equal. lia.
Qed.

Lemma ns_get_some buf i : 0 <= i < ns_len buf -> exists b, ns_get buf i = Some b.
Proof.
  intros H. unfold ns_get, ns_len in *. destruct (i <? 0) eqn:E; [lia|].
  destruct (nth_error buf (Z.to_nat i)) eqn:E2; [eauto|]. apply nth_error_None in E2. lia.
Qed.

Lemma ns_get_cons0 b t : ns_get (b :: t) 0 = Some b.
Proof. reflexivity. Qed.

Lemma ns_get_cons b t i : 1 <= i -> ns_get (b :: t) i = ns_get t (i - 1).
Proof.
  intros H. unfold ns_get. destruct (i <? 0) eqn:E; [lia|]. destruct (i - 1 <? 0) eqn:E2; [lia|].
  replace (Z.to_nat i) with (S (Z.to_nat (i - 1))) by lia. reflexivity.
Qed.

Lemma ns_skipn_app_exact (a b : list Z) : skipn (length a) (a ++ b) = b.
Proof. induction a; cbn; auto. Qed.

Lemma ns_firstn_app_exact (a b : list Z) : firstn (length a) (a ++ b) = a.
Proof. induction a; cbn; [destruct b; reflexivity|]. f_equal. assumption. Qed.

(* ---------------------------------------------------------------- the header scan *)
Lemma ns_find_colon_digits ds : forall i rest, 0 <= i ->
  forallb ns_isdigit ds = true -> i + ns_len ds <= 17 ->
  ns_find_colon (ds ++ ns_colon :: rest) i =
    if i + ns_len ds =? 0 then NsScanErr ns_e_nolen else NsScanAt (i + ns_len ds).
Proof.
  induction ds as [|d t IH]; intros i rest Hi Hd Hl; cbn [app ns_find_colon].
  - rewrite Z.eqb_refl. unfold ns_len. cbn [length]. rewrite Z.add_0_r. reflexivity.
  - cbn [forallb] in Hd. apply andb_true_iff in Hd as [Hd Ht]. apply ns_isdigit_iff in Hd.
    rewrite ns_len_cons in *. pose proof (ns_len_nonneg t).
    unfold ns_colon at 1. destruct (d =? 58) eqn:E; [lia|].
    destruct (16 <? i) eqn:E2; [lia|].
    rewrite IH by (assumption || lia).
    replace (i + 1 + ns_len t) with (i + (1 + ns_len t)) by lia. reflexivity.
Qed.

Lemma ns_find_colon_at l : forall i h, 0 <= i -> ns_find_colon l i = NsScanAt h ->
  i <= h /\ 1 <= h /\ h - i < ns_len l.
Proof.
  induction l as [|b t IH]; intros i h Hi H; cbn [ns_find_colon] in H; [discriminate|].
  rewrite ns_len_cons. pose proof (ns_len_nonneg t).
  destruct (b =? ns_colon).
  - destruct (i =? 0) eqn:E; [discriminate|]. inv H. lia.
  - destruct (16 <? i); [discriminate|]. apply IH in H; lia.
Qed.

Lemma ns_find_colon_mono l x : forall i h, ns_find_colon l i = NsScanAt h -> ns_find_colon (l ++ x) i = NsScanAt h.
Proof.
  induction l as [|b t IH]; intros i h H; cbn [ns_find_colon app] in *; [discriminate|].
  destruct (b =? ns_colon); [assumption|]. destruct (16 <? i); [discriminate|]. auto.
Qed.

(* ---------------------------------------------------------------- the length loop *)
Lemma ns_len_loop_digits ds : forall fuel pre rest len,
  forallb ns_isdigit ds = true -> ns_len pre + ns_len ds <= 9 -> (length ds <= fuel)%nat ->
  ns_len_loop fuel (pre ++ ds ++ ns_colon :: rest) (ns_len pre + ns_len ds) (ns_len pre) len
  = NsLenOk (fold_left ns_dstep ds len).
Proof.
  induction ds as [|d t IH]; intros fuel pre rest len Hd Hl Hf.
  - cbn [fold_left]. unfold ns_len at 2. cbn [length]. rewrite Z.add_0_r.
    destruct fuel; cbn [ns_len_loop]; [reflexivity|]. rewrite Z.ltb_irrefl. reflexivity.
  - destruct fuel as [|f]; [cbn in Hf; lia|]. cbn [ns_len_loop fold_left].
    cbn [forallb] in Hd. apply andb_true_iff in Hd as [Hd Ht].
    rewrite ns_len_cons in *. pose proof (ns_len_nonneg t). pose proof (ns_len_nonneg pre).
    destruct (ns_len pre <? ns_len pre + (1 + ns_len t)) eqn:E; [|lia].
    rewrite ns_get_app_r by lia. rewrite Z.sub_diag. cbn [app]. rewrite ns_get_cons0, Hd.
    destruct (9 <=? ns_len pre) eqn:E9; [lia|].
    specialize (IH f (pre ++ [d]) rest (len * 10 + (d - 48)) Ht).
    rewrite ns_len_app in IH. change (ns_len [d]) with 1 in IH.
    rewrite <- app_assoc in IH. cbn [app] in IH. unfold ns_dstep at 2.
    replace (ns_len pre + 1 + ns_len t) with (ns_len pre + (1 + ns_len t)) in IH by lia.
    apply IH; [lia|]. cbn [length] in Hf. lia.
Qed.

Lemma ns_len_loop_mono fuel : forall buf x h i len, 0 <= i -> h <= ns_len buf ->
  ns_len_loop fuel (buf ++ x) h i len = ns_len_loop fuel buf h i len.
Proof.
  induction fuel as [|f IH]; intros buf x h i len Hi Hh; cbn [ns_len_loop]; [reflexivity|].
  destruct (i <? h) eqn:E; [|reflexivity].
  rewrite ns_get_app_l by lia.
  destruct (ns_get buf i); [|reflexivity]. destruct (ns_isdigit z); [|reflexivity].
  destruct (9 <=? i); [reflexivity|]. apply IH; lia.
Qed.

Lemma ns_len_loop_noob fuel : forall buf h i len, 0 <= i -> h <= ns_len buf ->
  ns_len_loop fuel buf h i len <> NsLenOob.
Proof.
  induction fuel as [|f IH]; intros buf h i len Hi Hh; cbn [ns_len_loop]; [discriminate|].
  destruct (i <? h) eqn:E; [|discriminate].
  destruct (ns_get_some buf i ltac:(lia)) as [b ->].
  destruct (ns_isdigit b); [|discriminate]. destruct (9 <=? i); [discriminate|]. apply IH; lia.
Qed.

Lemma ns_len_loop_nonneg fuel : forall buf h i len r, 0 <= len ->
  ns_len_loop fuel buf h i len = NsLenOk r -> 0 <= r.
Proof.
  induction fuel as [|f IH]; intros buf h i len r Hl H; cbn [ns_len_loop] in H; [inv H; lia|].
  destruct (i <? h); [|inv H; lia].
  destruct (ns_get buf i) as [b|]; [|discriminate].
  destruct (ns_isdigit b) eqn:Eb; [|inv H; lia]. apply ns_isdigit_iff in Eb.
  destruct (9 <=? i); [discriminate|]. eapply IH; [|exact H]. lia.
Qed.

(* ---------------------------------------------------------------- C20_ns_bounds *)
Theorem ns_parse_in_bounds max buf : ns_parse max buf <> NsOob.
Proof.
  unfold ns_parse. destruct (ns_find_colon buf 0) as [|h|e] eqn:Ef; try discriminate.
  apply ns_find_colon_at in Ef as (_ & H1 & Hl); [|lia].
  destruct (ns_get_some buf 0 ltac:(lia)) as [b0 ->]. destruct (ns_get_some buf 1 ltac:(lia)) as [b1 ->].
  destruct ((b0 =? ns_zero) && ns_isdigit b1); [discriminate|].
  destruct (ns_len_loop (Z.to_nat h) buf h 0 0) as [len|e|] eqn:El; try discriminate.
  - apply ns_len_loop_nonneg in El as Hn; [|lia].
    destruct ((0 <=? max) && (max <? len + 1)); [discriminate|].
    destruct (ns_len buf <? h + 1 + (len + 1)) eqn:Es; [discriminate|].
    destruct (ns_get_some buf (h + 1 + len) ltac:(lia)) as [c ->]. destruct (c =? ns_comma); discriminate.
  - exfalso. eapply ns_len_loop_noob; [| |exact El]; lia.
Qed.

(* ---------------------------------------------------------------- C20_ns_roundtrip (buffered) *)
Theorem ns_roundtrip_buffered max p rest :
  ns_len p < 10 ^ 9 -> (max < 0 \/ ns_len p + 1 <= max) ->
  ns_parse max (ns_write p ++ rest) = NsItem p rest.
Proof.
  intros H9 Hmax. pose proof (ns_len_nonneg p) as Hp0.
  destruct (ns_dec_props (ns_len p) ltac:(lia)) as (Hdig & Hlen & Hval & d & t & Ed & Hd & Hd0).
  unfold ns_write. set (ds := ns_dec (ns_len p)) in *.
  rewrite <- app_assoc. cbn [app]. rewrite <- app_assoc. cbn [app].
  set (tail := p ++ ns_comma :: rest).
  unfold ns_parse.
  rewrite ns_find_colon_digits by (assumption || lia).
  destruct (0 + ns_len ds =? 0) eqn:E0; [lia|]. rewrite Z.add_0_l.
  (* the two bytes of the leading-zero test *)
  assert (ns_get (ds ++ ns_colon :: tail) 0 = Some d) as ->.
  { rewrite Ed. reflexivity. }
  assert (exists b1, ns_get (ds ++ ns_colon :: tail) 1 = Some b1 /\ (d = 48 -> ns_isdigit b1 = false)) as (b1 & -> & Hb1).
  { rewrite Ed. cbn [app]. rewrite ns_get_cons by lia. cbn [Z.sub].
    destruct t as [|t0 t']; cbn [app]; rewrite ns_get_cons0; eexists; split; try reflexivity.
    intros Hd48. specialize (Hd0 Hd48). discriminate. }
  assert ((d =? ns_zero) && ns_isdigit b1 = false) as ->.
  { unfold ns_zero. destruct (d =? 48) eqn:E; [|reflexivity]. rewrite Hb1 by lia. reflexivity. }
  pose proof (ns_len_loop_digits ds (Z.to_nat (ns_len ds)) [] tail 0 Hdig) as Hloop.
  change (ns_len (@nil Z)) with 0 in Hloop. cbn [app] in Hloop. rewrite Z.add_0_l in Hloop.
  rewrite Hloop; [|lia|unfold ns_len; lia]. rewrite Hval.
  assert ((0 <=? max) && (max <? ns_len p + 1) = false) as -> by lia.
  rewrite ns_len_app, ns_len_cons. unfold tail. rewrite ns_len_app, ns_len_cons.
  pose proof (ns_len_nonneg rest).
  destruct (ns_len ds + (1 + (ns_len p + (1 + ns_len rest))) <? ns_len ds + 1 + (ns_len p + 1)) eqn:Es; [lia|].
  rewrite ns_get_app_r by lia. rewrite ns_get_cons by lia. rewrite ns_get_app_r by lia.
  replace (ns_len ds + 1 + ns_len p - ns_len ds - 1 - ns_len p) with 0 by lia.
  rewrite ns_get_cons0, Z.eqb_refl.
  f_equal.
  - replace (Z.to_nat (ns_len ds + 1)) with (length (ds ++ [ns_colon])).
    2:{ rewrite app_length. unfold ns_len. cbn [length]. lia. }
    replace (ds ++ ns_colon :: p ++ ns_comma :: rest) with ((ds ++ [ns_colon]) ++ p ++ ns_comma :: rest)
      by (rewrite <- app_assoc; reflexivity).
    rewrite ns_skipn_app_exact. unfold ns_len. rewrite Nat2Z.id. apply ns_firstn_app_exact.
  - replace (Z.to_nat (ns_len ds + 1 + ns_len p + 1)) with (length (ds ++ [ns_colon] ++ p ++ [ns_comma])).
    2:{ rewrite !app_length. unfold ns_len. cbn [length]. lia. }
    replace (ds ++ ns_colon :: p ++ ns_comma :: rest) with ((ds ++ [ns_colon] ++ p ++ [ns_comma]) ++ rest).
    2:{ rewrite <- !app_assoc. cbn [app]. try rewrite <- !app_assoc. reflexivity. }
    apply ns_skipn_app_exact.
Qed.

(* the buffered reader rejects an over-long declared length whatever follows the header *)
Theorem ns_buffered_limit max n tail :
  0 <= n < 10 ^ 9 -> 0 <= max < n + 1 -> ns_parse max (ns_dec n ++ ns_colon :: tail) = NsErr ns_e_max.
Proof.
  intros Hn Hmax.
  destruct (ns_dec_props n Hn) as (Hdig & Hlen & Hval & d & t & Ed & Hd & Hd0).
  set (ds := ns_dec n) in *. unfold ns_parse.
  rewrite ns_find_colon_digits by (assumption || lia).
  destruct (0 + ns_len ds =? 0) eqn:E0; [lia|]. rewrite Z.add_0_l.
  assert (ns_get (ds ++ ns_colon :: tail) 0 = Some d) as ->.
  { rewrite Ed. reflexivity. }
  assert (exists b1, ns_get (ds ++ ns_colon :: tail) 1 = Some b1 /\ (d = 48 -> ns_isdigit b1 = false)) as (b1 & -> & Hb1).
  { rewrite Ed. cbn [app]. rewrite ns_get_cons by lia. cbn [Z.sub].
    destruct t as [|t0 t']; cbn [app]; rewrite ns_get_cons0; eexists; split; try reflexivity.
    intros Hd48. specialize (Hd0 Hd48). discriminate. }
  assert ((d =? ns_zero) && ns_isdigit b1 = false) as ->.
  { unfold ns_zero. destruct (d =? 48) eqn:E; [|reflexivity]. rewrite Hb1 by lia. reflexivity. }
  pose proof (ns_len_loop_digits ds (Z.to_nat (ns_len ds)) [] tail 0 Hdig) as Hloop.
  change (ns_len (@nil Z)) with 0 in Hloop. cbn [app] in Hloop. rewrite Z.add_0_l in Hloop.
  rewrite Hloop; [|lia|unfold ns_len; lia]. rewrite Hval.
  assert ((0 <=? max) && (max <? n + 1) = true) as -> by lia. reflexivity.
Qed.

Theorem ns_buffered_item_within_limit max buf p r :
  ns_parse max buf = NsItem p r -> (max < 0 \/ ns_len p + 1 <= max) /\ ns_len r < ns_len buf.
Proof.
  unfold ns_parse. destruct (ns_find_colon buf 0) as [|h|e] eqn:Ef; try discriminate.
  apply ns_find_colon_at in Ef as (_ & H1 & Hl); [|lia].
  destruct (ns_get buf 0) as [b0|]; [|discriminate]. destruct (ns_get buf 1) as [b1|]; [|discriminate].
  destruct ((b0 =? ns_zero) && ns_isdigit b1); [discriminate|].
  destruct (ns_len_loop (Z.to_nat h) buf h 0 0) as [len|e|] eqn:El; try discriminate.
  apply ns_len_loop_nonneg in El as Hn; [|lia].
  destruct ((0 <=? max) && (max <? len + 1)) eqn:Em; [discriminate|].
  destruct (ns_len buf <? h + 1 + (len + 1)) eqn:Es; [discriminate|].
  destruct (ns_get buf (h + 1 + len)) as [c|]; [|discriminate]. destruct (c =? ns_comma); [|discriminate].
  intros H. inv H. unfold ns_len in *. rewrite firstn_length, !skipn_length. lia.
Qed.

(* ---------------------------------------------------------------- more bytes never change a decision *)
Lemma ns_find_colon_err_mono l x : forall i e, ns_find_colon l i = NsScanErr e -> ns_find_colon (l ++ x) i = NsScanErr e.
Proof.
  induction l as [|b t IH]; intros i e H; cbn [ns_find_colon app] in *; [discriminate|].
  destruct (b =? ns_colon); [assumption|]. destruct (16 <? i); [assumption|]. auto.
Qed.

Lemma ns_parse_mono max buf x :
  ns_parse max buf <> NsNeed ->
  ns_parse max (buf ++ x) = match ns_parse max buf with NsItem p r => NsItem p (r ++ x) | o => o end.
Proof.
  unfold ns_parse. destruct (ns_find_colon buf 0) as [|h|e] eqn:Ef.
  - intros H. contradiction.
  - rewrite (ns_find_colon_mono _ x _ _ Ef).
    apply ns_find_colon_at in Ef as (_ & H1 & Hl); [|lia].
    rewrite (ns_get_app_l buf x 0) by lia. rewrite (ns_get_app_l buf x 1) by lia.
    destruct (ns_get buf 0) as [b0|]; [|reflexivity]. destruct (ns_get buf 1) as [b1|]; [|reflexivity].
    destruct ((b0 =? ns_zero) && ns_isdigit b1); [reflexivity|].
    rewrite ns_len_loop_mono by lia.
    destruct (ns_len_loop (Z.to_nat h) buf h 0 0) as [len|e|] eqn:El; try reflexivity.
    apply ns_len_loop_nonneg in El as Hn; [|lia].
    destruct ((0 <=? max) && (max <? len + 1)); [reflexivity|].
    destruct (ns_len buf <? h + 1 + (len + 1)) eqn:Es; [intros H; contradiction|]. intros _.
    rewrite ns_len_app. pose proof (ns_len_nonneg x).
    destruct (ns_len buf + ns_len x <? h + 1 + (len + 1)) eqn:Es2; [lia|].
    rewrite ns_get_app_l by lia.
    destruct (ns_get buf (h + 1 + len)) as [c|]; [|reflexivity]. destruct (c =? ns_comma); [|reflexivity].
    unfold ns_len in *. f_equal.
    + rewrite skipn_app. rewrite firstn_app. rewrite skipn_length.
      replace (Z.to_nat len - (length buf - Z.to_nat (h + 1)))%nat with 0%nat by lia.
      cbn [firstn]. rewrite app_nil_r. reflexivity.
    + rewrite skipn_app.
      replace (Z.to_nat (h + 1 + len + 1) - length buf)%nat with 0%nat by lia. reflexivity.
  - intros _. rewrite (ns_find_colon_err_mono _ x _ _ Ef). reflexivity.
Qed.

Lemma ns_parse_item_mono max buf x p r :
  ns_parse max buf = NsItem p r -> ns_parse max (buf ++ x) = NsItem p (r ++ x).
Proof. intros H. rewrite ns_parse_mono by (rewrite H; discriminate). rewrite H. reflexivity. Qed.

(* ---------------------------------------------------------------- draining a buffer *)
Fixpoint ns_drain (fuel : nat) (max : Z) (buf : list Z) : list (list Z) * list Z * option Z :=
  match fuel with
  | O => ([], buf, None)
  | S f =>
      match ns_parse max buf with
      | NsNeed => ([], buf, None)
      | NsErr e => ([], buf, Some e)
      | NsOob => ([], buf, Some 0)
      | NsItem p r => let '(fs, b, e) := ns_drain f max r in (p :: fs, b, e)
      end
  end.

Definition ns_drain_full (max : Z) (buf : list Z) := ns_drain (S (length buf)) max buf.

Lemma ns_drain_fuel max f1 : forall f2 buf, (length buf < f1)%nat -> (length buf < f2)%nat ->
  ns_drain f1 max buf = ns_drain f2 max buf.
Proof.
  induction f1 as [|f1 IH]; intros f2 buf H1 H2; [lia|]. destruct f2 as [|f2]; [lia|].
  cbn [ns_drain]. destruct (ns_parse max buf) as [|p r|e|] eqn:E; try reflexivity.
  apply ns_buffered_item_within_limit in E as [_ Hl]. unfold ns_len in Hl.
  rewrite (IH f2 r) by lia. reflexivity.
Qed.

Lemma ns_drain_full_eq max buf :
  ns_drain_full max buf =
    match ns_parse max buf with
    | NsNeed => ([], buf, None)
    | NsErr e => ([], buf, Some e)
    | NsOob => ([], buf, Some 0)
    | NsItem p r => let '(fs, b, e) := ns_drain_full max r in (p :: fs, b, e)
    end.
Proof.
  unfold ns_drain_full at 1. cbn [ns_drain].
  destruct (ns_parse max buf) as [|p r|e|] eqn:E; try reflexivity.
  apply ns_buffered_item_within_limit in E as [_ Hl]. unfold ns_len in Hl.
  unfold ns_drain_full. rewrite (ns_drain_fuel max (length buf) (S (length r)) r) by lia. reflexivity.
Qed.

(* incremental = batch: what was emitted from a prefix stays emitted, the rest continues from the carried
   buffer; an error found in a prefix stays an error *)
Lemma ns_drain_incremental max : forall n b1 b2,
  (length b1 < n)%nat ->
  let '(fs, r, e) := ns_drain_full max b1 in
  match e with
  | None => ns_drain_full max (b1 ++ b2) =
              let '(fs2, r2, e2) := ns_drain_full max (r ++ b2) in (fs ++ fs2, r2, e2)
  | Some e => exists r', ns_drain_full max (b1 ++ b2) = (fs, r', Some e)
  end.
Proof.
  induction n as [|n IH]; intros b1 b2 Hn; [lia|].
  rewrite (ns_drain_full_eq max b1).
  destruct (ns_parse max b1) as [|p r1|e|] eqn:E.
  - cbn [app]. destruct (ns_drain_full max (b1 ++ b2)) as [[fs2 r2] e2]. reflexivity.
  - pose proof (ns_parse_item_mono _ _ b2 _ _ E) as Em.
    apply ns_buffered_item_within_limit in E as [_ Hl]. unfold ns_len in Hl.
    specialize (IH r1 b2 ltac:(lia)).
    destruct (ns_drain_full max r1) as [[fs1 rr] e1] eqn:E1.
    rewrite (ns_drain_full_eq max (b1 ++ b2)), Em.
    destruct e1 as [e1|].
    + destruct IH as [r' ->]. eexists. reflexivity.
    + rewrite IH. destruct (ns_drain_full max (rr ++ b2)) as [[fs2 r2] e2]. reflexivity.
  - exists (b1 ++ b2). rewrite ns_drain_full_eq, ns_parse_mono by (rewrite E; discriminate). rewrite E. reflexivity.
  - exists (b1 ++ b2). rewrite ns_drain_full_eq, ns_parse_mono by (rewrite E; discriminate). rewrite E. reflexivity.
Qed.

Lemma ns_drain_rest_need max : forall n buf fs rest,
  (length buf < n)%nat -> ns_drain_full max buf = (fs, rest, None) -> ns_parse max rest = NsNeed.
Proof.
  induction n as [|n IH]; intros buf fs rest Hn H; [lia|].
  rewrite ns_drain_full_eq in H.
  destruct (ns_parse max buf) as [|p r1|e|] eqn:E; try discriminate.
  - inv H. assumption.
  - apply ns_buffered_item_within_limit in E as [_ Hl]. unfold ns_len in Hl.
    destruct (ns_drain_full max r1) as [[fs1 rr] e1] eqn:E1. inv H.
    eapply (IH r1); [lia|exact E1].
Qed.

Lemma ns_drain_frames max ps :
  Forall (fun p => ns_len p < 10 ^ 9 /\ (max < 0 \/ ns_len p + 1 <= max)) ps ->
  ns_drain_full max (concat (map ns_write ps)) = (ps, [], None).
Proof.
  induction ps as [|p ps IH]; intros H.
  - reflexivity.
  - inv H. cbn [map concat]. rewrite ns_drain_full_eq.
    destruct H2 as [A B]. rewrite ns_roundtrip_buffered by assumption.
    rewrite IH by assumption. reflexivity.
Qed.

(* ---------------------------------------------------------------- the context-level pump is the drain *)
Lemma ns_pump_drain max : forall f c fill,
  ns_eof c = false ->
  let b := if ns_must c then ns_buf c ++ fill else ns_buf c in
  let r := ns_pump_loop f max c fill in
  let '(fs, rest, e) := ns_drain f max b in
  ns_items r = fs /\ ns_error r = e /\ ns_buf (ns_ctx_after r) = (if Nat.eqb f 0 then ns_buf c else rest) /\
  ns_eof (ns_ctx_after r) = false /\
  (e = None -> (length b < f)%nat -> ns_must (ns_ctx_after r) = true).
Proof.
  induction f as [|f IH]; intros c fill He; cbv zeta.
  - cbn. repeat split; auto. intros _ H. lia.
  - cbn [ns_pump_loop ns_drain Nat.eqb]. unfold ns_ctx_read. rewrite He.
    set (b := if ns_must c then ns_buf c ++ fill else ns_buf c).
    assert (match (if ns_must c then Some {| ns_buf := ns_buf c ++ fill; ns_must := false; ns_eof := false |} else Some c)
            with Some c1 => ns_buf c1 = b /\ ns_must c1 = false /\ ns_eof c1 = false | None => False end) as Hc1.
    { unfold b. destruct c as [cb cm ce]. cbn in *. destruct cm; cbn; auto. }
    destruct (if ns_must c then Some {| ns_buf := ns_buf c ++ fill; ns_must := false; ns_eof := false |} else Some c)
      as [c1|]; [|contradiction].
    destruct Hc1 as (Hb & Hm & He1). destruct c1 as [cb1 cm1 ce1]. cbn [ns_buf ns_must ns_eof] in *. subst cb1 cm1 ce1.
    destruct (ns_parse max b) as [|p r|e|] eqn:E; cbn.
    + repeat split; auto.
    + specialize (IH {| ns_buf := r; ns_must := false; ns_eof := false |} [] eq_refl).
      cbv zeta in IH. cbn [ns_must ns_buf] in IH.
      destruct (ns_drain f max r) as [[fs rest] e] eqn:Ed.
      destruct IH as (I1 & I2 & I3 & I4 & I5). cbn. rewrite I1, I2, I4.
      apply ns_buffered_item_within_limit in E as [_ Hl]. unfold ns_len in Hl.
      repeat split; auto.
      * rewrite I3. destruct f; [|reflexivity]. cbn in Ed. inv Ed. reflexivity.
      * intros He0 Hlen. apply I5; [assumption|lia].
    + repeat split; auto. discriminate.
    + repeat split; auto. discriminate.
Qed.

(* ---------------------------------------------------------------- C20_ns_chunking *)
(* between pumps: not at EOF, MustRead set, and the carried buffer is an incomplete frame *)
Definition ns_quiescent (max : Z) (c : ns_ctx) : Prop :=
  ns_eof c = false /\ ns_must c = true /\ ns_parse max (ns_buf c) = NsNeed.

Lemma ns_quiescent_init max : ns_quiescent max ns_ctx_init.
Proof. repeat split. Qed.

Lemma ns_feed_drain max c chunk :
  ns_quiescent max c ->
  let r := ns_feed max c chunk in
  let '(fs, rest, e) := ns_drain_full max (ns_buf c ++ chunk) in
  ns_items r = fs /\ ns_error r = e /\ ns_buf (ns_ctx_after r) = rest /\
  (e = None -> ns_quiescent max (ns_ctx_after r)).
Proof.
  intros (He & Hm & _). cbv zeta. unfold ns_feed.
  pose proof (ns_pump_drain max (S (length (ns_buf c) + length chunk)) c chunk He) as H.
  cbv zeta in H. rewrite Hm in H.
  pose proof (ns_drain_rest_need max (S (length (ns_buf c ++ chunk))) (ns_buf c ++ chunk)) as Hneed.
  unfold ns_drain_full in *. rewrite app_length in *.
  destruct (ns_drain (S (length (ns_buf c) + length chunk)) max (ns_buf c ++ chunk)) as [[fs rest] e].
  destruct H as (I1 & I2 & I3 & I4 & I5). cbn [Nat.eqb] in I3.
  split; [exact I1|]. split; [exact I2|]. split; [exact I3|].
  intros ->. split; [exact I4|]. split.
  - apply I5; [reflexivity|]. lia.
  - rewrite I3. eapply Hneed; [|reflexivity]. lia.
Qed.

Lemma ns_feed_all_drain max : forall chunks c,
  ns_quiescent max c ->
  let '(fs, c', e) := ns_feed_all max c chunks in
  let '(fs2, rest2, e2) := ns_drain_full max (ns_buf c ++ concat chunks) in
  e2 = None -> fs = fs2 /\ e = None /\ ns_buf c' = rest2 /\ ns_quiescent max c'.
Proof.
  induction chunks as [|ch more IH]; intros c Hq.
  - cbn [ns_feed_all concat]. rewrite app_nil_r. rewrite ns_drain_full_eq.
    destruct Hq as (A & B & C). rewrite C. intros _. repeat split; auto.
  - cbn [ns_feed_all concat]. pose proof (ns_feed_drain max c ch Hq) as Hf. cbv zeta in Hf.
    pose proof (ns_drain_incremental max (S (length (ns_buf c ++ ch))) (ns_buf c ++ ch) (concat more) ltac:(lia)) as Hinc.
    destruct (ns_drain_full max (ns_buf c ++ ch)) as [[fs1 rest1] e1].
    destruct Hf as (F1 & F2 & F3 & F4). rewrite F2.
    rewrite <- app_assoc in Hinc.
    destruct e1 as [e1|].
    + destruct Hinc as [r' ->]. intros; discriminate.
    + specialize (IH (ns_ctx_after (ns_feed max c ch)) (F4 eq_refl)). rewrite F3 in IH.
      destruct (ns_feed_all max (ns_ctx_after (ns_feed max c ch)) more) as [[fs' c'] e'].
      rewrite Hinc.
      destruct (ns_drain_full max (rest1 ++ concat more)) as [[fs2 r2] e2].
      intros He2. destruct (IH He2) as (J1 & J2 & J3 & J4). subst. repeat split; auto; apply J4.
Qed.

(* feeding the concatenation of frames in ANY chunking yields exactly those frames, in order *)
Theorem ns_chunking max ps chunks :
  Forall (fun p => ns_len p < 10 ^ 9 /\ (max < 0 \/ ns_len p + 1 <= max)) ps ->
  concat chunks = concat (map ns_write ps) ->
  exists c', ns_feed_all max ns_ctx_init chunks = (ps, c', None) /\ ns_buf c' = [] /\ ns_quiescent max c'.
Proof.
  intros Hps Hcat.
  pose proof (ns_feed_all_drain max chunks ns_ctx_init (ns_quiescent_init max)) as H.
  cbn [ns_buf ns_ctx_init app] in H. rewrite Hcat, ns_drain_frames in H by assumption.
  destruct (ns_feed_all max ns_ctx_init chunks) as [[fs c'] e].
  destruct (H eq_refl) as (A & B & C & D). subst. exists c'. auto.
Qed.

(* ... and also when more bytes (an incomplete next frame) follow: the tail stays in the carried buffer *)
Theorem ns_chunking_tail max ps chunks tail :
  Forall (fun p => ns_len p < 10 ^ 9 /\ (max < 0 \/ ns_len p + 1 <= max)) ps ->
  ns_parse max tail = NsNeed ->
  concat chunks = concat (map ns_write ps) ++ tail ->
  exists c', ns_feed_all max ns_ctx_init chunks = (ps, c', None) /\ ns_buf c' = tail.
Proof.
  intros Hps Htail Hcat.
  pose proof (ns_feed_all_drain max chunks ns_ctx_init (ns_quiescent_init max)) as H.
  cbn [ns_buf ns_ctx_init app] in H. rewrite Hcat in H.
  pose proof (ns_drain_incremental max (S (length (concat (map ns_write ps)))) (concat (map ns_write ps)) tail ltac:(lia)) as Hinc.
  rewrite ns_drain_frames in Hinc by assumption. cbn [app] in Hinc.
  rewrite (ns_drain_full_eq max tail), Htail in Hinc. rewrite Hinc, app_nil_r in H.
  destruct (ns_feed_all max ns_ctx_init chunks) as [[fs c'] e].
  destruct (H eq_refl) as (A & B & C & D). subst. exists c'. auto.
Qed.
