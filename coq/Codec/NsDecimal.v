(* C20 - facts about the decimal length prefix (ns_dec) used by the netstring proofs. *)
From Icv Require Import Base.Tac Codec.NsModel.
Local Open Scope Z_scope.

Definition ns_dstep (a d : Z) : Z := a * 10 + (d - 48).

Lemma ns_val_eq ds : ns_val ds = fold_left ns_dstep ds 0.
Proof. reflexivity. Qed.

Lemma ns_isdigit_iff b : ns_isdigit b = true <-> 48 <= b <= 57.
Proof. unfold ns_isdigit. lia. Qed.

Lemma ns_dec_aux_acc f : forall n acc, ns_dec_aux f n acc = ns_dec_aux f n [] ++ acc.
Proof.
  induction f as [|f IH]; intros n acc; cbn [ns_dec_aux]; [reflexivity|].
  destruct (n <? 10); [reflexivity|].
  rewrite IH. rewrite (IH _ [_]). rewrite <- app_assoc. reflexivity.
Qed.

Lemma ns_pow2_S (f : nat) : 2 ^ Z.of_nat (S f) = 2 * 2 ^ Z.of_nat f.
Proof. rewrite Nat2Z.inj_succ. apply Z.pow_succ_r. lia. Qed.

Lemma ns_dec_aux_fuel f : forall g n acc,
  0 <= n -> n < 2 ^ Z.of_nat f -> n < 2 ^ Z.of_nat g -> (1 <= f)%nat -> (1 <= g)%nat ->
  ns_dec_aux f n acc = ns_dec_aux g n acc.
Proof.
  induction f as [|f IH]; intros g n acc Hn Hf Hg H1 H2; [lia|].
  destruct g as [|g]; [lia|]. cbn [ns_dec_aux].
  destruct (n <? 10) eqn:E; [reflexivity|].
  apply Z.ltb_ge in E.
  rewrite ns_pow2_S in Hf, Hg.
  assert (f <> 0)%nat by (intros ->; cbn in Hf; lia).
  assert (g <> 0)%nat by (intros ->; cbn in Hg; lia).
  apply IH; lia.
Qed.

Lemma ns_dec_small n : 0 <= n < 10 -> ns_dec n = [48 + n].
Proof.
  intros H. unfold ns_dec. cbn [ns_dec_aux].
  rewrite Z.mod_small by lia. destruct (n <? 10) eqn:E; [reflexivity|lia].
Qed.

Lemma ns_dec_big n : 10 <= n -> ns_dec n = ns_dec (n / 10) ++ [48 + n mod 10].
Proof.
  intros H. unfold ns_dec at 1. cbn [ns_dec_aux].
  destruct (n <? 10) eqn:E; [lia|].
  rewrite ns_dec_aux_acc. f_equal.
  assert (0 < n / 10) by (apply Z.div_str_pos; lia).
  pose proof (Z.log2_spec n ltac:(lia)) as [_ Hl].
  pose proof (Z.log2_spec (n / 10) ltac:(lia)) as [_ Hl2].
  pose proof (Z.log2_nonneg n). pose proof (Z.log2_nonneg (n / 10)).
  assert (0 < Z.log2 n).
  { apply Z.log2_pos. lia. }
  unfold ns_dec. apply ns_dec_aux_fuel; try lia.
  - rewrite Z2Nat.id by lia.
    apply Z.div_lt_upper_bound; [lia|].
    replace (Z.succ (Z.log2 n)) with (Z.log2 n - 1 + 1 + 1) in Hl by lia.
    rewrite (Z.pow_add_r _ _ 1) in Hl by lia.
    replace (Z.log2 n) with (Z.log2 n - 1 + 1) at 1 by lia.
    rewrite (Z.pow_add_r _ _ 1) by lia.
    rewrite (Z.pow_add_r _ _ 1) in Hl by lia. lia.
  - rewrite Nat2Z.inj_succ, Z2Nat.id by lia. exact Hl2.
Qed.

Lemma ns_dec_ind (P : Z -> Prop) :
  (forall n, 0 <= n < 10 -> P n) -> (forall n, 10 <= n -> P (n / 10) -> P n) -> forall n, 0 <= n -> P n.
Proof.
  intros H0 H1 n Hn.
  assert (forall k : nat, forall m, 0 <= m < Z.of_nat k -> P m) as A.
  { induction k as [|k IH]; intros m Hm; [lia|].
    destruct (Z_lt_ge_dec m 10) as [L|G]; [apply H0; lia|].
    apply H1; [lia|]. apply IH. split; [apply Z.div_pos; lia|].
    apply Z.div_lt_upper_bound; lia. }
  apply (A (S (Z.to_nat n))). lia.
Qed.

(* shape of the printed length for n >= 1: a non-zero digit followed by digits, value n, at most k digits if n < 10^k *)
Definition ns_shape_P (n : Z) : Prop :=
  exists d ds, ns_dec n = d :: ds /\ 49 <= d <= 57 /\ forallb ns_isdigit ds = true /\
               fold_left ns_dstep ds (d - 48) = n /\
               (forall k : nat, n < 10 ^ Z.of_nat k -> ns_len ds + 1 <= Z.of_nat k).

Lemma ns_dec_shape0 : forall n, 0 <= n -> 1 <= n -> ns_shape_P n.
Proof.
  apply (ns_dec_ind (fun n => 1 <= n -> ns_shape_P n)).
  - intros n Hn H1. exists (48 + n), []. rewrite ns_dec_small by lia.
    split; [reflexivity|]. split; [lia|]. split; [reflexivity|]. split; [cbn [fold_left]; lia|].
    intros k Hk. cbn. destruct k; [cbn in Hk; lia|lia].
  - intros n Hn IH _.
    assert (1 <= n / 10) by (apply Z.div_le_lower_bound; lia).
    destruct (IH ltac:(lia)) as (d & ds & E & Hd & Hds & Hv & Hk).
    exists d, (ds ++ [48 + n mod 10]). rewrite ns_dec_big, E by lia.
    split; [reflexivity|]. split; [lia|]. split.
    + rewrite forallb_app, Hds. cbn [forallb andb]. rewrite andb_true_r. apply ns_isdigit_iff. lia.
    + split.
      * rewrite fold_left_app, Hv. cbn [fold_left]. unfold ns_dstep. lia.
      * intros k Hlt. unfold ns_len. rewrite app_length. cbn [length].
        destruct k as [|k]; [cbn in Hlt; lia|].
        rewrite Nat2Z.inj_succ, Z.pow_succ_r in Hlt by lia.
        specialize (Hk k). unfold ns_len in Hk.
        assert (n / 10 < 10 ^ Z.of_nat k) by (apply Z.div_lt_upper_bound; lia). lia.
Qed.

Lemma ns_dec_shape n : 1 <= n -> ns_shape_P n.
Proof. intros H. apply ns_dec_shape0; lia. Qed.

(* canonical decimals are exactly what ns_dec prints *)
Lemma ns_dec_fold ds : forall a, 1 <= a -> forallb ns_isdigit ds = true ->
  ns_dec (fold_left ns_dstep ds a) = ns_dec a ++ ds.
Proof.
  induction ds as [|d t IH]; intros a Ha Hd; cbn [fold_left]; [rewrite app_nil_r; reflexivity|].
  cbn [forallb] in Hd. apply andb_true_iff in Hd as [Hd Ht]. apply ns_isdigit_iff in Hd.
  rewrite IH; [|unfold ns_dstep; lia|assumption].
  rewrite ns_dec_big by (unfold ns_dstep; lia).
  unfold ns_dstep.
  replace ((a * 10 + (d - 48)) / 10) with a by lia.
  replace (48 + (a * 10 + (d - 48)) mod 10) with d by lia.
  rewrite <- app_assoc. reflexivity.
Qed.

Lemma ns_dec_unique d ds : 49 <= d <= 57 -> forallb ns_isdigit ds = true ->
  ns_dec (fold_left ns_dstep ds (d - 48)) = d :: ds.
Proof.
  intros Hd Hds. rewrite ns_dec_fold by (assumption || lia).
  rewrite ns_dec_small by lia. cbn [app]. f_equal. lia.
Qed.

Lemma ns_fold_bound ds : forall a k, 0 <= a < 10 ^ k -> 0 <= k -> forallb ns_isdigit ds = true ->
  0 <= fold_left ns_dstep ds a < 10 ^ (k + ns_len ds).
Proof.
  induction ds as [|d t IH]; intros a k Ha Hk Hd; cbn [fold_left].
  - unfold ns_len. cbn. rewrite Z.add_0_r. exact Ha.
  - cbn [forallb] in Hd. apply andb_true_iff in Hd as [Hd Ht]. apply ns_isdigit_iff in Hd.
    replace (k + ns_len (d :: t)) with ((k + 1) + ns_len t) by (unfold ns_len; cbn [length]; lia).
    apply IH; [|lia|assumption].
    rewrite Z.pow_add_r by lia. unfold ns_dstep. lia.
Qed.

Lemma ns_dec_zero : ns_dec 0 = [48].
Proof. reflexivity. Qed.

Lemma ns_fold_nonneg ds : forall a, 0 <= a -> forallb ns_isdigit ds = true -> 0 <= fold_left ns_dstep ds a.
Proof.
  intros a Ha Hd. pose proof (ns_fold_bound ds a (Z.max 1 a) ) as H.
  assert (a < 10 ^ Z.max 1 a).
  { apply Z.lt_le_trans with (2 ^ Z.max 1 a).
    - apply Z.le_lt_trans with (Z.max 1 a); [lia|]. apply Z.pow_gt_lin_r; lia.
    - apply Z.pow_le_mono_l. lia. }
  apply H; try lia. assumption.
Qed.

(* everything the framing proofs need to know about the printed length *)
Lemma ns_dec_props n : 0 <= n < 10 ^ 9 ->
  forallb ns_isdigit (ns_dec n) = true /\ 1 <= ns_len (ns_dec n) <= 9 /\
  fold_left ns_dstep (ns_dec n) 0 = n /\
  exists d t, ns_dec n = d :: t /\ 48 <= d <= 57 /\ (d = 48 -> t = []).
Proof.
  intros [H0 H9]. destruct (Z.eq_dec n 0) as [->|Hn].
  - rewrite ns_dec_zero. repeat split; try reflexivity; try (cbn; lia).
    exists 48, []. repeat split; lia.
  - destruct (ns_dec_shape n ltac:(lia)) as (d & ds & E & Hd & Hds & Hv & Hk).
    specialize (Hk 9%nat H9). rewrite E. unfold ns_len in *. cbn [length forallb fold_left].
    split; [|split; [|split]].
    + rewrite Hds, andb_true_r. apply ns_isdigit_iff. lia.
    + lia.
    + unfold ns_dstep at 2. replace (0 * 10 + (d - 48)) with (d - 48) by lia. exact Hv.
    + exists d, ds. repeat split; lia.
Qed.
