(* C20 - the limits of the writers and of the readers AS THEY STAND IN THE SOURCE (Facts_c20, regenerated on every run):
   what the netstring writer can emit the three readers accept; what JsonEncode writes the decoder of the state file
   accepts.  A fact that is not recognised any more turns the statement into True (compared only); a fact that is
   recognised with a value the model does not have makes the proof fail. *)
From Icv Require Import Base.Tac Codec.NsModel Codec.NsDecimal Codec.NsProofs Codec.NsStreamProofs
  Codec.JsModel Codec.JsRoundtrip Facts.Facts_c20.
Local Open Scope Z_scope.

(* (digits every reader accepts in a length prefix, limit the file readers pass, limit for an endpoint's connection,
   limit for an anonymous connection) - None unless every ingredient is recognised, the writer is the plain
   `stream << len << ":" << str << ","` without a limit of its own, and the limit tests have the shape the model has *)
Definition cd_src_limits : option (Z * Z * Z * Z) :=
  match f_ns_buf_digits, f_ns_sync_digits, f_ns_co_digits, f_ns_buf_limit_plus_one, f_ns_stream_limit_gt,
        f_ns_writer_plain, f_ns_default_max, f_ns_file_callers_default, f_rpc_anon_max, f_rpc_endpoint_max with
  | Some a, Some b, Some c, Some true, Some true, Some true, Some dm, Some true, Some anon, Some ep =>
      Some (Z.min a (Z.min b c), dm, ep, anon)
  | _, _, _, _, _, _, _, _, _, _ => None
  end.

Definition cd_limits_agree_stmt : Prop :=
  match cd_src_limits with
  | None => True
  | Some (digits, filemax, epmax, anonmax) =>
      forall p rest, ns_len p < 10 ^ digits ->
        ns_parse filemax (ns_write p ++ rest) = NsItem p rest /\
        ns_read_stream epmax (ns_write p ++ rest) = NsSOk p rest /\
        (ns_len p <= anonmax -> ns_read_stream anonmax (ns_write p ++ rest) = NsSOk p rest) /\
        (anonmax < ns_len p -> exists tl, ns_read_stream anonmax (ns_write p ++ rest) = NsSErr ns_e_max tl)
  end.

Lemma cd_limits_agree : cd_limits_agree_stmt.
Proof.
  unfold cd_limits_agree_stmt.
  assert (cd_src_limits = Some (9, -1, -1, 1048576)) as -> by (vm_compute; reflexivity).
  intros p rest Hp.
  split; [apply ns_roundtrip_buffered; [assumption|lia]|].
  split; [apply ns_roundtrip_stream; [assumption|lia]|].
  split.
  - intros Hl. apply ns_roundtrip_stream; [assumption|lia].
  - intros Hl. unfold ns_write. rewrite <- app_assoc. cbn [app]. rewrite <- (app_assoc p).
    pose proof (ns_len_nonneg p).
    destruct (ns_stream_limit_rejects 1048576 (ns_len p) (p ++ [ns_comma] ++ rest) ltac:(lia) Hp) as (Hrej & _).
    eexists. exact Hrej.
Qed.

(* the other side of the 9-digit rule: the header the writer emits for a payload of 10^9 bytes (ten digits) is refused
   by every reader, whatever follows and whatever the limit *)
Lemma cd_writer_beyond_readers : forall max tail,
  ns_parse max (ns_dec (10 ^ 9) ++ ns_colon :: tail) = NsErr ns_e_toolong /\
  (exists tl, ns_read_stream max (ns_dec (10 ^ 9) ++ ns_colon :: tail) = NsSErr ns_e_toolong tl).
Proof.
  intros max tail.
  assert (ns_dec (10 ^ 9) = [49; 48; 48; 48; 48; 48; 48; 48; 48; 48]) as -> by (vm_compute; reflexivity).
  split.
  - reflexivity.
  - eexists. reflexivity.
Qed.

(* ---------------------------------------------------------------- JSON: the decoder of the state file *)
Definition cd_json_trusted_stmt : Prop :=
  match f_js_restore_trusted, f_js_trusted_max_depth, f_js_encode_unlimited with
  | Some true, Some lim, Some true =>
      forall (js_flt : Type) (js_fprint : js_flt -> list Z) (js_fparse : list Z -> option js_flt),
      (forall x, js_fparse (js_fprint x) = Some x) ->
      (forall x rest, match rest with [] => True | b :: _ => b = 44 \/ b = 93 \/ b = 125 end ->
                      js_lex_num (js_fprint x ++ rest) = Some (js_fprint x, false, rest)) ->
      (forall x, exists b t, js_fprint x = b :: t /\ (b = 45 \/ 48 <= b <= 57) /\ Forall (fun c => 0 <= c < 128) (b :: t)) ->
      forall v : js_value js_flt, js_wf js_flt v -> js_sorted js_flt v ->
      js_decode js_flt js_fparse lim (js_encode js_flt js_fprint v) = Some v
  | _, _, _ => True
  end.

Lemma cd_json_trusted : cd_json_trusted_stmt.
Proof.
  unfold cd_json_trusted_stmt.
  assert (f_js_restore_trusted = Some true) as -> by reflexivity.
  assert (f_js_trusted_max_depth = Some None) as -> by reflexivity.
  assert (f_js_encode_unlimited = Some true) as -> by reflexivity.
  intros flt fprint fparse H1 H2 H3 v Hw Hs.
  apply js_roundtrip; auto. exact I.
Qed.

(* nesting deeper than the network decoder's limit: array in array ... *)
Fixpoint cd_nest (n : nat) : js_value Empty_set :=
  match n with O => JsArr _ [] | S k => JsArr _ [cd_nest k] end.

(* why the second decoder exists: 129 arrays in each other are written by JsonEncode, read back by the decoder without
   limit and refused by the decoder with the network limit (the limit of the source as it stands) *)
Lemma cd_json_depth_contrast :
  let enc := js_encode Empty_set (fun f => match f with end) in
  let dec := js_decode Empty_set (fun _ => None) in
  match f_js_max_depth with
  | Some m =>
      dec None (enc (cd_nest (Z.to_nat m))) = Some (cd_nest (Z.to_nat m)) /\
      dec (Some m) (enc (cd_nest (Z.to_nat m))) = None /\
      dec (Some m) (enc (cd_nest (Z.to_nat m - 1))) = Some (cd_nest (Z.to_nat m - 1))
  | None => True
  end.
Proof. vm_compute. repeat split. Qed.
