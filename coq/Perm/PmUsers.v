(* C18 round 6 - WHO is the user, and WHICH permission list: histories (definitions only, no proofs).
   (1) ApiUser objects are mutable state: `permissions` is an attribute that ModifyAttribute / RestoreAttribute assign while the
       process runs; users are deleted and (re-)created.  Objects have an identity (index into an append-only heap) and a name
       (registry), as in PmConc.v.  FilterUtility::HasPermission reads `user->GetPermissions()` on every call; a switch describes
       the other shape - a member of the ApiUser derived from the list on first use and kept ("normalise once"), with or
       without invalidation by the attribute's setter.
   (2) HttpServerConnection::ProcessMessages: per request `authenticatedUser = m_ApiUser` (the user of the client certificate's
       CN, resolved ONCE in the constructor by ApiUser::GetByClientCN), and only if that is null
       `ApiUser::GetByAuthHeader(request[authorization])`; null => 401 + `Connection: close` and the loop ends.  A switch
       describes the other shape: the user resolved from the header is stored in the member.
   The decision function of a request (`decide perms rq`) is an argument: the theorems hold for every handler. *)
From Icv Require Import Base.Tac Perm.PmModel.
Local Open Scope Z_scope.

(* ---------------------------------------------------------------- ApiUser objects *)
(* pmu_cn = [] : no client_cn attribute *)
Record pmu_rec := { pmu_name : pm_str; pmu_pass : pm_str; pmu_cn : pm_str; pmu_perms : list pm_entry; pmu_orig : list pm_entry }.

(* heap: every ApiUser object ever created (identity = index); registry: the identities ConfigType<ApiUser> holds, in
   registration order (GetObjectsByType / GetByName see only these) *)
Record pmu_core := { pmu_heap : list pmu_rec; pmu_reg : list nat }.

(* the world additionally carries what a memoising ApiUser would keep: per OBJECT the list derived at first use *)
Record pmu_world := { pmu_c : pmu_core; pmu_memo_tab : list (nat * list pm_entry) }.

(* pmu_memo: HasPermission iterates a member derived from `permissions` at first use; pmu_invalidate: assigning the
   attribute drops that member; pmu_sticky: the user resolved from the Authorization header is stored in m_ApiUser.
   This tree: all three false (PmUsersFacts.pmu_cfg_tree, tied to the source facts). *)
Record pmu_cfg := { pmu_memo : bool; pmu_invalidate : bool; pmu_sticky : bool }.

Definition pmu_get (c : pmu_core) (id : nat) : option pmu_rec := nth_error (pmu_heap c) id.
Definition pmu_perms_of (c : pmu_core) (id : nat) : list pm_entry :=
  match pmu_get c id with Some r => pmu_perms r | None => [] end.

Definition pmu_name_is (c : pmu_core) (n : pm_str) (id : nat) : bool :=
  match pmu_get c id with Some r => pm_str_eqb (pmu_name r) n | None => false end.
(* ApiUser::GetByName: exact, case-sensitive *)
Definition pmu_find_name (c : pmu_core) (n : pm_str) : option nat := find (pmu_name_is c n) (pmu_reg c).
(* ApiUser::GetByClientCN: the first registered user whose client_cn equals the identity *)
Definition pmu_cn_is (c : pmu_core) (cn : pm_str) (id : nat) : bool :=
  match pmu_get c id with Some r => pm_str_eqb (pmu_cn r) cn | None => false end.
Definition pmu_find_cn (c : pmu_core) (cn : pm_str) : option nat := find (pmu_cn_is c cn) (pmu_reg c).

Fixpoint pmu_upd (l : list pmu_rec) (id : nat) (f : pmu_rec -> pmu_rec) : list pmu_rec :=
  match l, id with
  | [], _ => []
  | r :: t, O => f r :: t
  | r :: t, S k => r :: pmu_upd t k f
  end.

Definition pmu_with_perms (p : list pm_entry) (r : pmu_rec) : pmu_rec :=
  {| pmu_name := pmu_name r; pmu_pass := pmu_pass r; pmu_cn := pmu_cn r; pmu_perms := p; pmu_orig := pmu_orig r |}.
Definition pmu_restored (r : pmu_rec) : pmu_rec := pmu_with_perms (pmu_orig r) r.

(* runtime changes: ModifyAttribute("permissions", p) / RestoreAttribute("permissions") on the registered user of that name
   (POST /v1/objects/apiusers/<name> attrs / restore_attrs, cluster sync); DELETE; creation of a user object *)
Inductive pmu_op :=
| PmuSet (n : pm_str) (p : list pm_entry)
| PmuRestore (n : pm_str)
| PmuDelete (n : pm_str)
| PmuCreate (n pass cn : pm_str) (p : list pm_entry).

Definition pmu_apply_core (c : pmu_core) (op : pmu_op) : pmu_core :=
  match op with
  | PmuSet n p =>
      match pmu_find_name c n with
      | Some id => {| pmu_heap := pmu_upd (pmu_heap c) id (pmu_with_perms p); pmu_reg := pmu_reg c |}
      | None => c
      end
  | PmuRestore n =>
      match pmu_find_name c n with
      | Some id => {| pmu_heap := pmu_upd (pmu_heap c) id pmu_restored; pmu_reg := pmu_reg c |}
      | None => c
      end
  | PmuDelete n =>
      match pmu_find_name c n with
      | Some id => {| pmu_heap := pmu_heap c; pmu_reg := filter (fun x => negb (Nat.eqb x id)) (pmu_reg c) |}
      | None => c
      end
  | PmuCreate n pass cn p =>
      match pmu_find_name c n with
      | Some _ => c                                   (* the name is taken: the object is not created *)
      | None => {| pmu_heap := pmu_heap c ++ [{| pmu_name := n; pmu_pass := pass; pmu_cn := cn; pmu_perms := p; pmu_orig := p |}];
                   pmu_reg := pmu_reg c ++ [length (pmu_heap c)] |}
      end
  end.

(* the objects whose `permissions` the operation assigns (the setter runs for these) / that come into being (a new object
   has no derived member yet) *)
Definition pmu_assigned (c : pmu_core) (op : pmu_op) : option nat :=
  match op with
  | PmuSet n _ | PmuRestore n => pmu_find_name c n
  | PmuDelete _ => None
  | PmuCreate n _ _ _ => None
  end.
Definition pmu_born (c : pmu_core) (op : pmu_op) : option nat :=
  match op with
  | PmuCreate n _ _ _ => match pmu_find_name c n with Some _ => None | None => Some (length (pmu_heap c)) end
  | _ => None
  end.

Definition pmu_tab_drop (tab : list (nat * list pm_entry)) (o : option nat) : list (nat * list pm_entry) :=
  match o with Some id => filter (fun x => negb (Nat.eqb (fst x) id)) tab | None => tab end.

Definition pmu_apply (cfg : pmu_cfg) (w : pmu_world) (op : pmu_op) : pmu_world :=
  {| pmu_c := pmu_apply_core (pmu_c w) op;
     pmu_memo_tab := pmu_tab_drop (if pmu_invalidate cfg then pmu_tab_drop (pmu_memo_tab w) (pmu_assigned (pmu_c w) op) else pmu_memo_tab w)
                                  (pmu_born (pmu_c w) op) |}.

Fixpoint pmu_tab_get (tab : list (nat * list pm_entry)) (id : nat) : option (list pm_entry) :=
  match tab with
  | [] => None
  | (k, l) :: t => if Nat.eqb k id then Some l else pmu_tab_get t id
  end.

(* the list HasPermission iterates for the user object id, and the world afterwards *)
Definition pmu_read (cfg : pmu_cfg) (w : pmu_world) (id : nat) : list pm_entry * pmu_world :=
  if pmu_memo cfg then
    match pmu_tab_get (pmu_memo_tab w) id with
    | Some l => (l, w)
    | None => (pmu_perms_of (pmu_c w) id,
               {| pmu_c := pmu_c w; pmu_memo_tab := (id, pmu_perms_of (pmu_c w) id) :: pmu_memo_tab w |})
    end
  else (pmu_perms_of (pmu_c w) id, w).

(* ---------------------------------------------------------------- ApiUser::GetByAuthHeader *)
(* the Authorization header: absent (operator[] yields ""), `Basic <base64 of cred>` (cred = the decoded bytes), anything else
   (no blank, or another scheme - the comparison with "Basic" is exact) *)
Inductive pmu_hdr := PmuNoHdr | PmuBasic (cred : pm_str) | PmuOtherScheme.

(* split at the FIRST ':' (58); without one both parts stay empty *)
Fixpoint pmu_split_colon (s : pm_str) : option (pm_str * pm_str) :=
  match s with
  | [] => None
  | c :: r => if c =? 58 then Some ([], r)
              else match pmu_split_colon r with Some (u, p) => Some (c :: u, p) | None => None end
  end.

Definition pmu_auth (c : pmu_core) (h : pmu_hdr) : option nat :=
  let '(user, pass) := match h with
                       | PmuBasic cred => match pmu_split_colon cred with Some up => up | None => ([], []) end
                       | _ => ([], [])
                       end in
  match pmu_find_name c user with
  | None => None
  | Some id =>
      match pass with
      | [] => None                                            (* an empty password never authenticates *)
      | _ :: _ => match pmu_get c id with
                  | Some r => if pm_str_eqb pass (pmu_pass r) then Some id else None
                  | None => None
                  end
      end
  end.

(* ---------------------------------------------------------------- one HttpServerConnection *)
(* pmu_cuser = m_ApiUser; pmu_open = the ProcessMessages loop is still running *)
Record pmu_conn := { pmu_cuser : option nat; pmu_open : bool }.

(* constructor: with a verified client certificate (identity = its CN) m_ApiUser = GetByClientCN(identity) *)
Definition pmu_connect (c : pmu_core) (cert : option pm_str) : pmu_conn :=
  {| pmu_cuser := match cert with Some cn => pmu_find_cn c cn | None => None end; pmu_open := true |}.

Inductive pmu_resp (A : Type) := PmuClosed | Pmu401 | PmuAns (a : A).
Arguments PmuClosed {A}. Arguments Pmu401 {A}. Arguments PmuAns {A} a.

Section PmuRun.
Variables (R A : Type) (decide : list pm_entry -> R -> A).

(* one iteration of the loop: request with header h; close = HTTP/1.0 or `Connection: close` *)
Definition pmu_request (cfg : pmu_cfg) (w : pmu_world) (k : pmu_conn) (h : pmu_hdr) (rq : R) (close : bool)
  : pmu_resp A * pmu_world * pmu_conn :=
  if pmu_open k then
    let au := match pmu_cuser k with Some u => Some u | None => pmu_auth (pmu_c w) h end in
    let k1 := if pmu_sticky cfg then {| pmu_cuser := au; pmu_open := pmu_open k |} else k in
    match au with
    | None => (Pmu401, w, {| pmu_cuser := pmu_cuser k1; pmu_open := false |})
    | Some id =>
        let '(perms, w') := pmu_read cfg w id in
        (PmuAns (decide perms rq), w', {| pmu_cuser := pmu_cuser k1; pmu_open := negb close |})
    end
  else (PmuClosed, w, k).

(* a history: attribute / registry operations, permission-checked calls for a user OBJECT the caller holds (the handlers as
   the harness drives them directly), requests on the connection *)
Inductive pmu_ev :=
| PmuEvOp (op : pmu_op)
| PmuEvDirect (id : nat) (rq : R)
| PmuEvReq (h : pmu_hdr) (rq : R) (close : bool).

Fixpoint pmu_run (cfg : pmu_cfg) (evs : list pmu_ev) (w : pmu_world) (k : pmu_conn) : list (pmu_resp A) :=
  match evs with
  | [] => []
  | PmuEvOp op :: r => pmu_run cfg r (pmu_apply cfg w op) k
  | PmuEvDirect id rq :: r =>
      let '(perms, w') := pmu_read cfg w id in PmuAns (decide perms rq) :: pmu_run cfg r w' k
  | PmuEvReq h rq close :: r =>
      let '(a, w', k') := pmu_request cfg w k h rq close in a :: pmu_run cfg r w' k'
  end.

(* the reference semantics: no state but the ApiUser objects themselves (attribute values, registry), the connection's
   certificate user and whether it is still open *)
Fixpoint pmu_ops_only (evs : list pmu_ev) (c : pmu_core) : pmu_core :=
  match evs with
  | [] => c
  | PmuEvOp op :: r => pmu_ops_only r (pmu_apply_core c op)
  | _ :: r => pmu_ops_only r c
  end.

Definition pmu_answer (c : pmu_core) (cu : option nat) (h : pmu_hdr) (rq : R) : pmu_resp A :=
  match (match cu with Some u => Some u | None => pmu_auth c h end) with
  | None => Pmu401
  | Some id => PmuAns (decide (pmu_perms_of c id) rq)
  end.

Fixpoint pmu_ref (cu : option nat) (evs : list pmu_ev) (c : pmu_core) (open : bool) : list (pmu_resp A) :=
  match evs with
  | [] => []
  | PmuEvOp op :: r => pmu_ref cu r (pmu_apply_core c op) open
  | PmuEvDirect id rq :: r => PmuAns (decide (pmu_perms_of c id) rq) :: pmu_ref cu r c open
  | PmuEvReq h rq close :: r =>
      if open then
        match pmu_answer c cu h rq with
        | Pmu401 => Pmu401 :: pmu_ref cu r c false
        | a => a :: pmu_ref cu r c (negb close)
        end
      else PmuClosed :: pmu_ref cu r c false
  end.

(* is the connection still open after the history? *)
Fixpoint pmu_open_after (cu : option nat) (evs : list pmu_ev) (c : pmu_core) (open : bool) : bool :=
  match evs with
  | [] => open
  | PmuEvOp op :: r => pmu_open_after cu r (pmu_apply_core c op) open
  | PmuEvDirect _ _ :: r => pmu_open_after cu r c open
  | PmuEvReq h rq close :: r =>
      if open then
        match pmu_answer c cu h rq with
        | Pmu401 => pmu_open_after cu r c false
        | _ => pmu_open_after cu r c (negb close)
        end
      else pmu_open_after cu r c false
  end.
End PmuRun.

Arguments PmuEvOp {R} op. Arguments PmuEvDirect {R} id rq. Arguments PmuEvReq {R} h rq close.

Definition pmu_world0 (c : pmu_core) : pmu_world := {| pmu_c := c; pmu_memo_tab := [] |}.
Definition pmu_core0 : pmu_core := {| pmu_heap := []; pmu_reg := [] |}.

(* ---------------------------------------------------------------- the oracle of the tie (run over the implementation's lines) *)
(* one request on a connection as seen from outside: 401, or the answer of a handler.  The statement: the request is answered
   401 exactly when neither the connection's certificate nor the request's OWN header identifies a registered user, and
   otherwise `judge perms obs` holds for the permission list that user has NOW (judge = the per-request oracle, e.g.
   pm_oracle_q). *)
Definition pmu_oracle_req {O : Type} (judge : list pm_entry -> O -> bool) (c : pmu_core) (cu : option nat) (h : pmu_hdr)
           (obs : option O) : bool :=
  match (match cu with Some u => Some u | None => pmu_auth c h end), obs with
  | None, None => true
  | Some id, Some o => judge (pmu_perms_of c id) o
  | _, _ => false
  end.
