(* The oracle that is run over implementation observations accepts every observation the model produces
  : it can only fire where the implementation leaves what the
   theorems establish. *)
From Icv Require Import Base.Tac Perm.PmModel Perm.PmProofs Perm.PmJoins Perm.PmObs.
Local Open Scope Z_scope.

(* object names are unique per type (ConfigObject registry) *)
Definition pm_inv_wf (inv : list pm_obj) : Prop :=
  forall o, In o inv -> pm_lookup inv (po_type o) (po_name o) = Some o.

Lemma pm_name_one_lookup G pf inv t n fr o fr' : pm_name_one G pf inv t n fr = inr (o, fr') -> pm_lookup inv t n = Some o.
Proof.
  unfold pm_name_one. destruct (pm_lookup inv t n) as [o'|]; [|discriminate].
  destruct (pm_evalf G pf fr o') as [ns r]. destruct r; try discriminate. intros H; inversion H; reflexivity.
Qed.

Lemma pm_name_list_named G pf inv t : forall ns acc fr res,
  pm_name_list G pf inv t ns acc fr = inr res ->
  (forall x, In x acc -> In x res) /\ (forall n, In n ns -> exists o, pm_lookup inv t n = Some o /\ In o res).
Proof.
  induction ns as [|m r IH]; intros acc fr res H; cbn in H.
  - inversion H; subst. split; [auto|intros n []].
  - destruct (pm_name_one G pf inv t m fr) as [e|[o fr']] eqn:E; [discriminate|].
    destruct (IH _ _ _ H) as [Hm Hn]. split.
    + intros x Hx. apply Hm. apply in_or_app. left. assumption.
    + intros n [<-|Hin]; [|auto]. exists o. split; [eapply pm_name_one_lookup; eassumption|].
      apply Hm. apply in_or_app. right. left. reflexivity.
Qed.

Lemma pm_names_type_named G pf inv q t acc res :
  pm_names_type G pf inv q t acc = inr res ->
  (forall x, In x acc -> In x res) /\ (forall n, pm_names q t n -> exists o, pm_lookup inv t n = Some o /\ In o res).
Proof.
  unfold pm_names_type, pm_names. intros H.
  destruct (pm_q_single q t) as [n0|] eqn:S.
  - destruct (pm_name_one G pf inv t n0 []) as [e|[o fr0]] eqn:E; [discriminate|].
    pose proof (pm_name_one_lookup _ _ _ _ _ _ _ _ E) as L0.
    destruct (pm_q_plural q t) as [ns|] eqn:P.
    + destruct (pm_name_list_named _ _ _ _ _ _ _ _ H) as [Hm Hn]. split.
      * intros x Hx. apply Hm. apply in_or_app. left. assumption.
      * intros n [Hs|(ns' & Hp & Hin)].
        -- inversion Hs; subst. exists o. split; [assumption|]. apply Hm. apply in_or_app. right. left. reflexivity.
        -- inversion Hp; subst. auto.
    + inversion H; subst. split.
      * intros x Hx. apply in_or_app. left. assumption.
      * intros n [Hs|(ns' & Hp & Hin)]; [|discriminate].
        inversion Hs; subst. exists o. split; [assumption|]. apply in_or_app. right. left. reflexivity.
  - destruct (pm_q_plural q t) as [ns|] eqn:P.
    + destruct (pm_name_list_named _ _ _ _ _ _ _ _ H) as [Hm Hn]. split; [assumption|].
      intros n [Hs|(ns' & Hp & Hin)]; [discriminate|]. inversion Hp; subst. auto.
    + inversion H; subst. split; [auto|]. intros n [Hs|(ns' & Hp & Hin)]; discriminate.
Qed.

Lemma pm_by_names_named G pf inv q : forall tys acc res,
  pm_by_names G pf inv q tys acc = inr res ->
  (forall x, In x acc -> In x res) /\
  (forall t n, In t tys -> pm_names q t n -> exists o, pm_lookup inv t n = Some o /\ In o res).
Proof.
  induction tys as [|t r IH]; intros acc res H; cbn in H.
  - inversion H; subst. split; [auto|intros t n []].
  - destruct (pm_names_type G pf inv q t acc) as [e|acc'] eqn:E; [discriminate|].
    destruct (pm_names_type_named _ _ _ _ _ _ _ E) as [Hm1 Hn1]. destruct (IH _ _ H) as [Hm2 Hn2]. split.
    + auto.
    + intros t' n [<-|Hin] Hnm; [|eauto]. destruct (Hn1 n Hnm) as (o & L & Ho). eauto.
Qed.

Lemma pm_named_in q tys t n : In (t, n) (pm_named q tys) -> In t tys /\ pm_names q t n.
Proof.
  unfold pm_named. intros H. apply in_flat_map in H. destruct H as (t' & Ht' & Hin).
  apply in_app_or in Hin. destruct Hin as [Hin|Hin].
  - destruct (pm_q_single q t') as [n'|] eqn:S; [|destruct Hin]. destruct Hin as [Heq|[]]. inversion Heq; subst.
    split; [assumption|]. left. assumption.
  - destruct (pm_q_plural q t') as [ns|] eqn:P; [|destruct Hin]. apply in_map_iff in Hin.
    destruct Hin as (n' & Heq & Hn'). inversion Heq; subst. split; [assumption|]. right. eauto.
Qed.

Theorem pm_oracle_accepts_model G prov fast u perm tys q inv :
  perm <> [] -> pm_inv_wf inv ->
  pm_oracle_q G u perm tys q inv
    (pm_observe prov (fst (pm_has_permission u perm)) (pm_filter_targets G fast u perm tys q inv)) = true.
Proof.
  intros Hne Hwf. unfold pm_oracle_q. destruct perm as [|c0 p0] eqn:Hp; [congruence|]. rewrite <- Hp in *.
  unfold pm_observe. cbn [pv_has pv_cons pv_res].
  rewrite pm_spec_has_correct. rewrite Bool.eqb_reflx. cbn [andb].
  destruct (pm_filter_targets G fast u perm tys q inv) as [c r] eqn:FT. cbn [fst snd].
  apply andb_true_intro. split.
  - destruct (pm_spec_has u perm) eqn:Hh; [reflexivity|].
    rewrite <- pm_spec_has_correct in Hh. unfold pm_filter_targets in FT.
    assert (pm_check_permission u perm = None) as Hc.
    { unfold pm_check_permission. destruct (pm_has_permission u perm) as [f pf]. cbn in Hh. subst f. reflexivity. }
    rewrite Hc in FT. inversion FT; subst. destruct prov; reflexivity.
  - destruct r as [objs|e]; [|reflexivity].
    destruct (pm_only_permitted_clean _ _ _ _ _ _ _ _ _ FT) as (pf & Hc & Hall).
    assert (forall o, In o objs -> pm_key_allowed G u perm inv (pm_key_of o) = true) as Hadm.
    { intros o Ho. destruct (Hall o Ho) as [Hin Hev]. unfold pm_key_allowed, pm_key_of. cbn [fst snd].
      rewrite (Hwf o Hin). unfold pm_spec_allow. eapply pm_granted_allow; eassumption. }
    apply andb_true_intro. split.
    + apply forallb_forall. intros k Hk. apply in_map_iff in Hk. destruct Hk as (o & <- & Ho). auto.
    + apply negb_true_iff. destruct (existsb _ (pm_named q tys)) eqn:X; [exfalso|reflexivity].
      apply existsb_exists in X. destruct X as ([t n] & Hin & Hf).
      apply pm_named_in in Hin. destruct Hin as [Ht Hn].
      destruct (pm_filter_targets_ok _ _ _ _ _ _ _ _ _ FT) as (pf' & res & Hc' & Hbn & Hobjs).
      destruct (pm_by_names_named _ _ _ _ _ _ _ Hbn) as [_ Hnamed].
      destruct (Hnamed t n Ht Hn) as (o & L & Ho).
      assert (In o objs) as Hoo.
      { destruct Hobjs as [->|(t' & l & _ & _ & ->)]; [assumption|apply in_or_app; left; assumption]. }
      unfold pm_key_forbidden in Hf. cbn [fst snd] in Hf. rewrite L in Hf.
      specialize (Hadm o Hoo). unfold pm_key_allowed, pm_key_of in Hadm. cbn [fst snd] in Hadm.
      apply pm_lookup_some in L. destruct L as (Hi & Hty & Hnm). rewrite Hty, Hnm in Hadm.
      assert (pm_lookup inv t n = Some o) as L2 by (rewrite <- Hty, <- Hnm; apply Hwf; assumption).
      rewrite L2 in Hadm. rewrite Hadm in Hf. discriminate.
Qed.

(* HasPermission + allowed objects, and joins *)
Theorem pm_oracle_perm_accepts_model G u perm inv :
  pm_inv_wf inv ->
  pm_oracle_perm G u perm inv (fst (pm_has_permission u perm))
    (map fst (filter (fun ke => negb (snd ke)) (pm_allows G u perm inv))) = true.
Proof.
  intros Hwf. unfold pm_oracle_perm. destruct perm as [|c0 p0] eqn:Hp; [reflexivity|]. rewrite <- Hp.
  assert (perm <> []) as Hne by (rewrite Hp; discriminate).
  rewrite pm_spec_has_correct, Bool.eqb_reflx. cbn [andb].
  apply forallb_forall. intros k Hk. apply in_map_iff in Hk. destruct Hk as ([k' b] & <- & Hk).
  apply filter_In in Hk. destruct Hk as [Hk Hb]. cbn in Hb. destruct b; [discriminate|]. cbn [fst].
  unfold pm_allows in Hk. destruct (pm_has_permission u perm) as [found pf] eqn:E. destruct found; [|destruct Hk].
  apply in_flat_map in Hk. destruct Hk as (o & Ho & Hk).
  destruct (pm_eval_opt G pf o) eqn:Ev; cbn in Hk; try (destruct Hk as [Hk|[]]; inversion Hk; subst; clear Hk); try destruct Hk.
  unfold pm_key_allowed, pm_key_of. cbn [fst snd]. rewrite (Hwf o Ho).
  eapply pm_granted_allow; [exact Hne| |exact Ev]. unfold pm_check_permission. rewrite E. reflexivity.
Qed.

Theorem pm_oracle_joins_accepts_model G u inv t sel all objs :
  pm_oracle_joins G u inv (map snd (pm_joins G u inv t sel all objs)) = true.
Proof.
  unfold pm_oracle_joins. apply forallb_forall. intros k Hk. apply in_map_iff in Hk. destruct Hk as ([v k'] & Hk & Hin).
  cbn in Hk. subst k'. destruct (pm_joins_only_permitted G u inv t sel all objs v k Hin) as (j & W & <- & _ & A).
  unfold pm_jkey_allowed, pm_jkey_of. cbn [fst snd]. destruct j as [o|tj n]; cbn [pm_jobj_type pm_jobj_name].
  - cbn in W. rewrite W. exact A.
  - cbn in W. destruct tj; [congruence|exact A..].
Qed.
