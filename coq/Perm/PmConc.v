(* C18 - check-then-act on the write path (model, no proofs).  The modify / delete / actions / query handlers all have
   the shape

        objs = FilterUtility::GetFilterTargets(qd, params, user);        -- authorise a set of OBJECTS     PhStart -> PhLoop objs
        for (const ConfigObject::Ptr& obj : objs) {
            ObjectNameLock objectNameLock(type, obj->GetName());         -- modify, delete only            PhLoop (x :: r) -> PhLocked x r
            obj->ModifyAttribute(..) / DeleteObject(obj, ..) / action->Invoke(obj, ..) / SerializeObjectAttrs(obj, ..)
        }                                                                -- act, release                   PhLocked x r -> PhLoop r

   and run concurrently with other writers (API requests, cluster config sync) that delete and create objects.  An object
   has an IDENTITY (the ConfigObject the pointer refers to: an index into the heap of all objects that ever existed) and a
   NAME (registry: name -> identity, names unique per type among the registered objects).  Between any two steps of the
   handler the environment may take / release name locks, unregister a name and register a NEW object (fresh identity)
   under any name - also under the name of an object the handler has authorised.
   Switches (pm_ccfg):
     pc_lock       true  = the handler takes the per-name lock before it acts (modify, delete); false = actions, query
     pc_reresolve  false = the handler acts on the pointer GetFilterTargets returned (the tree as it is);
                   true  = after taking the lock it looks the NAME up again and acts on whatever object carries it now
                           ("it may have been deleted or re-created while waiting for the lock") - the refuted shape
   Atomicity relied on: registry operations are atomic (ConfigType's mutex); ObjectNameLock is mutual exclusion per name.
   Ghost: pcs_auth = the identities authorised, pcs_acts = the identities acted on (newest first), pcs_gone = number of
   objects answered with 404 by the re-resolving shape. *)
From Icv Require Import Base.Tac Perm.PmModel Perm.PmObs.
Local Open Scope Z_scope.

Definition pm_oid := nat.

Record pm_ccfg := { pc_lock : bool; pc_reresolve : bool }.

Record pm_world := {
  pw_heap : list pm_obj;                 (* identity = position; append-only: an object's own attributes are what they were *)
  pw_reg : list (pm_key * pm_oid);       (* registered names *)
  pw_envlocks : list pm_key              (* name locks held by other writers *)
}.

Inductive pm_hpc :=
  | PhStart
  | PhLoop (todo : list pm_oid)
  | PhLocked (x : pm_oid) (todo : list pm_oid).

Record pm_cstate := {
  pcs_w : pm_world;
  pcs_pc : pm_hpc;
  pcs_auth : list pm_oid;
  pcs_acts : list pm_oid;
  pcs_gone : nat
}.

Inductive pm_clabel :=
  | PlAuth (A : list pm_oid)               (* GetFilterTargets returned the objects A *)
  | PlLock                                 (* the handler obtains the name lock of the next object *)
  | PlAct                                  (* the handler acts on it (and releases the lock) *)
  | PlEnvLock (k : pm_key)
  | PlEnvUnlock (k : pm_key)
  | PlEnvDelete (k : pm_key)
  | PlEnvCreate (k : pm_key) (o : pm_obj).

Definition pm_key_eqb (a b : pm_key) : bool := pm_type_eqb (fst a) (fst b) && pm_str_eqb (snd a) (snd b).

Fixpoint pm_reg_find (k : pm_key) (reg : list (pm_key * pm_oid)) : option pm_oid :=
  match reg with
  | [] => None
  | (k', x) :: r => if pm_key_eqb k' k then Some x else pm_reg_find k r
  end.
Definition pm_reg_remove (k : pm_key) (reg : list (pm_key * pm_oid)) : list (pm_key * pm_oid) :=
  filter (fun kv => negb (pm_key_eqb (fst kv) k)) reg.
Definition pm_registered (w : pm_world) (x : pm_oid) : bool := existsb (fun kv => Nat.eqb (snd kv) x) (pw_reg w).
Definition pm_heap_get (w : pm_world) (x : pm_oid) : option pm_obj := nth_error (pw_heap w) x.

Section WithVerdict.
(* the permission verdict on an object (its own attributes): pm_spec_allow G u perm in the instance *)
Variable allow : pm_obj -> bool.
Variable cfg : pm_ccfg.

Definition pm_allowed (w : pm_world) (x : pm_oid) : bool :=
  match pm_heap_get w x with Some o => allow o | None => false end.

(* what GetFilterTargets guarantees about the set it returns, at the moment it returns it (C18_only_permitted): every
   object is registered and the permission filter is true of it *)
Definition pm_auth_ok (w : pm_world) (A : list pm_oid) : bool :=
  forallb (fun x => pm_registered w x && pm_allowed w x) A.

Definition pm_name_of (w : pm_world) (x : pm_oid) : option pm_key := option_map pm_key_of (pm_heap_get w x).

(* the object the handler acts on when its turn comes *)
Definition pm_act_target (w : pm_world) (x : pm_oid) : option pm_oid :=
  if pc_reresolve cfg then match pm_name_of w x with Some k => pm_reg_find k (pw_reg w) | None => None end
  else Some x.

Definition pm_do_act (s : pm_cstate) (x : pm_oid) (r : list pm_oid) : pm_cstate :=
  match pm_act_target (pcs_w s) x with
  | Some y => {| pcs_w := pcs_w s; pcs_pc := PhLoop r; pcs_auth := pcs_auth s; pcs_acts := y :: pcs_acts s; pcs_gone := pcs_gone s |}
  | None => {| pcs_w := pcs_w s; pcs_pc := PhLoop r; pcs_auth := pcs_auth s; pcs_acts := pcs_acts s; pcs_gone := S (pcs_gone s) |}
  end.

Definition pm_set_w (s : pm_cstate) (w : pm_world) : pm_cstate :=
  {| pcs_w := w; pcs_pc := pcs_pc s; pcs_auth := pcs_auth s; pcs_acts := pcs_acts s; pcs_gone := pcs_gone s |}.

(* one step; None = the label is not enabled in this state *)
Definition pm_cstep (l : pm_clabel) (s : pm_cstate) : option pm_cstate :=
  let w := pcs_w s in
  match l with
  | PlAuth A =>
      match pcs_pc s with
      | PhStart =>
          if pm_auth_ok w A
          then Some {| pcs_w := w; pcs_pc := PhLoop A; pcs_auth := A; pcs_acts := pcs_acts s; pcs_gone := pcs_gone s |}
          else None
      | _ => None
      end
  | PlLock =>
      match pcs_pc s with
      | PhLoop (x :: r) =>
          if pc_lock cfg then
            match pm_name_of w x with
            | Some k => if existsb (pm_key_eqb k) (pw_envlocks w) then None        (* waits *)
                        else Some {| pcs_w := w; pcs_pc := PhLocked x r; pcs_auth := pcs_auth s; pcs_acts := pcs_acts s; pcs_gone := pcs_gone s |}
            | None => None
            end
          else None
      | _ => None
      end
  | PlAct =>
      match pcs_pc s with
      | PhLocked x r => Some (pm_do_act s x r)
      | PhLoop (x :: r) => if pc_lock cfg then None else Some (pm_do_act s x r)
      | _ => None
      end
  | PlEnvLock k =>
      (* not while the handler holds that name *)
      match pcs_pc s with
      | PhLocked x _ => if match pm_name_of w x with Some k' => pm_key_eqb k' k | None => false end then None
                        else Some (pm_set_w s {| pw_heap := pw_heap w; pw_reg := pw_reg w; pw_envlocks := k :: pw_envlocks w |})
      | _ => Some (pm_set_w s {| pw_heap := pw_heap w; pw_reg := pw_reg w; pw_envlocks := k :: pw_envlocks w |})
      end
  | PlEnvUnlock k =>
      Some (pm_set_w s {| pw_heap := pw_heap w; pw_reg := pw_reg w; pw_envlocks := filter (fun k' => negb (pm_key_eqb k' k)) (pw_envlocks w) |})
  | PlEnvDelete k =>
      Some (pm_set_w s {| pw_heap := pw_heap w; pw_reg := pm_reg_remove k (pw_reg w); pw_envlocks := pw_envlocks w |})
  | PlEnvCreate k o =>
      (* a new object: fresh identity; only under a free name, and it carries that name *)
      match pm_reg_find k (pw_reg w) with
      | Some _ => None
      | None => if pm_key_eqb (pm_key_of o) k
                then Some (pm_set_w s {| pw_heap := pw_heap w ++ [o]; pw_reg := (k, length (pw_heap w)) :: pw_reg w; pw_envlocks := pw_envlocks w |})
                else None
      end
  end.

Fixpoint pm_crun (ls : list pm_clabel) (s : pm_cstate) : option pm_cstate :=
  match ls with
  | [] => Some s
  | l :: r => match pm_cstep l s with Some s' => pm_crun r s' | None => None end
  end.

End WithVerdict.

Definition pm_cinit (w : pm_world) : pm_cstate :=
  {| pcs_w := w; pcs_pc := PhStart; pcs_auth := []; pcs_acts := []; pcs_gone := 0 |}.

(* an inventory as a world: identity = position, everything registered *)
Fixpoint pm_reg_of (inv : list pm_obj) (n : nat) : list (pm_key * pm_oid) :=
  match inv with [] => [] | o :: r => (pm_key_of o, n) :: pm_reg_of r (S n) end.
Definition pm_world_of (inv : list pm_obj) : pm_world := {| pw_heap := inv; pw_reg := pm_reg_of inv 0; pw_envlocks := [] |}.

(* the directed schedule of the tie (harness op pm_race): another writer holds the name lock of x's name; the request is
   authorised for A (x in A); the writer deletes x and creates o' under the same name, releases; the handler proceeds *)
Definition pm_race_schedule (lock : bool) (k : pm_key) (A : list pm_oid) (o' : pm_obj) : list pm_clabel :=
  (if lock then [PlEnvLock k] else []) ++ [PlAuth A; PlEnvDelete k; PlEnvCreate k o'] ++ (if lock then [PlEnvUnlock k] else [])
  ++ flat_map (fun _ => if lock then [PlLock; PlAct] else [PlAct]) A.

(* the oracle over the implementation's observation of such a run: acted_old / acted_new = the request changed the object
   that had the name at authorisation time / the object that has it afterwards *)
Definition pm_oracle_race (allow_old allow_new acted_old acted_new : bool) : bool :=
  implb acted_old allow_old && implb acted_new allow_new.
