(* C18 - what the correspondence run observes, and the executable property oracle that is run over the
   IMPLEMENTATION's observations (definitions only; PmOracleProofs.v shows it accepts every model output). *)
From Icv Require Import Base.Tac Perm.PmModel.
Local Open Scope Z_scope.

Definition pm_key := (pm_type * pm_str)%type.
Definition pm_key_of (o : pm_obj) : pm_key := (po_type o, po_name o).

(* one GetFilterTargets call as seen from outside: HasPermission's answer, whether the counting provider
   saw a call (None when the default provider was used), the returned objects (None = exception) *)
Record pm_obsv := { pv_has : bool; pv_cons : option bool; pv_res : option (list pm_key) }.

Definition pm_observe (prov : bool) (has : bool) (r : bool * pm_result) : pm_obsv :=
  {| pv_has := has;
     pv_cons := if prov then Some (fst r) else None;
     pv_res := match snd r with PmOk l => Some (map pm_key_of l) | PmErr _ => None end |}.

(* every (type, name) the query addresses by name, for the types of the QueryDescription *)
Definition pm_named (q : pm_query) (tys : list pm_type) : list pm_key :=
  flat_map (fun t =>
    (match pm_q_single q t with Some n => [(t, n)] | None => [] end)
    ++ (match pm_q_plural q t with Some ns => map (pair t) ns | None => [] end)) tys.

Definition pm_key_allowed (G : pm_env) (u : list pm_entry) (perm : pm_str) (inv : list pm_obj) (k : pm_key) : bool :=
  match pm_lookup inv (fst k) (snd k) with
  | Some o => pm_spec_allow G u perm o
  | None => false
  end.

Definition pm_key_forbidden (G : pm_env) (u : list pm_entry) (perm : pm_str) (inv : list pm_obj) (k : pm_key) : bool :=
  match pm_lookup inv (fst k) (snd k) with
  | Some o => negb (pm_spec_allow G u perm o)
  | None => false
  end.

(* The statement of C18 over one observed call:
   1. HasPermission answers exactly "some entry matches (lower-cased, wildcards)";
   2. without a matching entry: an error, and no object was consulted;
   3. every returned object exists and is permitted: an entry matches whose filter, if any, is true of the object
      ALONE under the global constants G - the request's filter_vars are no argument of pm_spec_allow;
   4. if a forbidden object was addressed by name the call did not return objects. *)
Definition pm_oracle_q (G : pm_env) (u : list pm_entry) (perm : pm_str) (tys : list pm_type) (q : pm_query)
           (inv : list pm_obj) (ob : pm_obsv) : bool :=
  match perm with
  | [] => true
  | _ :: _ =>
      Bool.eqb (pv_has ob) (pm_spec_has u perm)
      && (if pv_has ob then true
          else negb (pm_is_some (pv_res ob)) && match pv_cons ob with Some true => false | _ => true end)
      && match pv_res ob with
         | None => true
         | Some keys =>
             forallb (pm_key_allowed G u perm inv) keys
             && negb (existsb (pm_key_forbidden G u perm inv) (pm_named q tys))
         end
  end.

(* HasPermission + the objects its combined filter allows *)
Definition pm_oracle_perm (G : pm_env) (u : list pm_entry) (perm : pm_str) (inv : list pm_obj) (has : bool)
           (allowed : list pm_key) : bool :=
  match perm with
  | [] => true
  | _ :: _ => Bool.eqb has (pm_spec_has u perm) && forallb (pm_key_allowed G u perm inv) allowed
  end.

(* joined objects that were serialised, as (type, name): each must be permitted under objects/query/<ITS type> *)
Definition pm_jkey_allowed (G : pm_env) (u : list pm_entry) (inv : list pm_obj) (k : pm_jkey) : bool :=
  match fst k with
  | PmJHost => match pm_lookup inv PmHost (snd k) with Some o => pm_spec_allow_j G u (PmJH o) | None => false end
  | t => pm_spec_allow_j G u (PmJA t (snd k))
  end.
Definition pm_oracle_joins (G : pm_env) (u : list pm_entry) (inv : list pm_obj) (joined : list pm_jkey) : bool :=
  forallb (pm_jkey_allowed G u inv) joined.

(* what the model says about HasPermission's filter over an inventory: allowed keys and keys whose
   evaluation throws *)
Definition pm_allows (G : pm_env) (u : list pm_entry) (perm : pm_str) (inv : list pm_obj) : list (pm_key * bool) :=
  let '(found, pf) := pm_has_permission u perm in
  if found then
    flat_map (fun o => match pm_eval_opt G pf o with
                       | PmT => [(pm_key_of o, false)]
                       | PmE => [(pm_key_of o, true)]
                       | PmF => []
                       end) inv
  else [].
