(* C18 - the joins loop of ObjectQueryHandler::HandleRequest with its two per-request caches
   (typePermissions keyed by the Type pointer, objectAccessAllowed keyed by the Object pointer): the caches are transparent - what is
   serialised is what the uncached decision [pm_join_visible] admits - for ALL inventories, in particular those in
   which objects of different types carry the same name, and every serialised joined object is permitted under
   objects/query/<its own type>. *)
From Icv Require Import Base.Tac Perm.PmModel Perm.PmProofs.
Local Open Scope Z_scope.

Lemma pm_jtype_eqb_eq a b : pm_jtype_eqb a b = true <-> a = b.
Proof. destruct a, b; cbn; split; intros; congruence. Qed.

Lemma pm_jkey_eqb_eq a b : pm_jkey_eqb a b = true <-> a = b.
Proof.
  destruct a as [t n], b as [t' n']. unfold pm_jkey_eqb. cbn [fst snd]. split.
  - intros H. apply andb_prop in H. destruct H as [A B]. apply pm_jtype_eqb_eq in A. apply pm_str_eqb_eq in B. congruence.
  - intros H. inversion H; subst. apply andb_true_intro. split; [apply pm_jtype_eqb_eq|apply pm_str_eqb_eq]; reflexivity.
Qed.

(* a joined object as NavigateField delivers it: a host is THE host of that name in the inventory, any other joined
   object is of a non-host type *)
Definition pm_jwf (inv : list pm_obj) (j : pm_jobj) : Prop :=
  match j with
  | PmJH o => pm_lookup inv PmHost (po_name o) = Some o
  | PmJA t _ => t <> PmJHost
  end.

(* (type, name) identifies a joined object - the name alone does not *)
Lemma pm_jkey_identifies inv j1 j2 : pm_jwf inv j1 -> pm_jwf inv j2 -> pm_jkey_of j1 = pm_jkey_of j2 -> j1 = j2.
Proof.
  destruct j1 as [o1|t1 n1], j2 as [o2|t2 n2]; unfold pm_jkey_of; cbn; intros W1 W2 K; inversion K; subst.
  - rewrite H0 in W1. rewrite W1 in W2. inversion W2. reflexivity.
  - congruence.
  - congruence.
  - reflexivity.
Qed.

Example pm_same_name_different_objects :
  pm_jobj_name (PmJA PmJEndpoint [120]) = pm_jobj_name (PmJA PmJCheckCommand [120]) /\
  pm_jkey_eqb (pm_jkey_of (PmJA PmJEndpoint [120])) (pm_jkey_of (PmJA PmJCheckCommand [120])) = false.
Proof. split; reflexivity. Qed.

Lemma pm_navigate_wf inv o v j : pm_navigate inv o v = Some j -> pm_jwf inv j.
Proof.
  unfold pm_navigate. destruct v as [| | |[]].
  - destruct (po_type o); [discriminate|]. destruct (pm_lookup inv PmHost (po_host o)) as [h|] eqn:L; [|discriminate].
    cbn. intros H; inversion H; subst. cbn. destruct (pm_lookup_some _ _ _ _ L) as (_ & _ & Hn). rewrite Hn. exact L.
  - discriminate.
  - discriminate.
  - destruct (po_cc o); cbn; intros H; inversion H; subst; cbn; discriminate.
  - destruct (po_cp o); cbn; intros H; inversion H; subst; cbn; discriminate.
  - destruct (po_ec o); cbn; intros H; inversion H; subst; cbn; discriminate.
  - destruct (po_ce o); cbn; intros H; inversion H; subst; cbn; discriminate.
Qed.

Section WithGlobals.
Variables (G : pm_env) (u : list pm_entry) (inv : list pm_obj).

(* every cached entry is what a fresh computation would give *)
Definition pm_jc_ok (c : pm_jcache) : Prop :=
  (forall t gp, pm_jc_type_find t (jc_types c) = Some gp -> gp = pm_has_permission u (pm_jquery_perm t)) /\
  (forall j b, pm_jwf inv j -> pm_jc_obj_find (pm_jkey_of j) (jc_objs c) = Some b ->
               b = pm_jverdict G (snd (pm_has_permission u (pm_jquery_perm (pm_jobj_type j)))) j).

Lemma pm_jc_ok_empty : pm_jc_ok pm_jcache_empty.
Proof. split; cbn; intros; discriminate. Qed.

Lemma pm_join_one_ok c j :
  pm_jc_ok c -> pm_jwf inv j ->
  pm_jc_ok (fst (pm_join_one G u c j)) /\ snd (pm_join_one G u c j) = pm_join_visible G u j.
Proof.
  intros [Ht Ho] Wj. unfold pm_join_one, pm_join_visible.
  set (t := pm_jobj_type j). set (gp0 := pm_has_permission u (pm_jquery_perm t)).
  (* the first cache *)
  assert (exists c1, (match pm_jc_type_find t (jc_types c) with
                      | Some gp => (c, gp)
                      | None => ({| jc_types := (t, gp0) :: jc_types c; jc_objs := jc_objs c |}, gp0)
                      end) = (c1, gp0) /\ pm_jc_ok c1 /\ jc_objs c1 = jc_objs c) as (c1 & E1 & Ok1 & Hobjs).
  { destruct (pm_jc_type_find t (jc_types c)) as [gp|] eqn:F.
    - exists c. rewrite (Ht t gp F). repeat split; assumption.
    - eexists. split; [reflexivity|]. split; [|reflexivity]. split.
      + intros t' gp'. cbn [jc_types pm_jc_type_find]. destruct (pm_jtype_eqb t' t) eqn:E.
        * apply pm_jtype_eqb_eq in E. subst t'. intros H; inversion H. reflexivity.
        * apply Ht.
      + exact Ho. }
  rewrite E1. destruct gp0 as [granted pf] eqn:Egp. cbn [negb].
  destruct granted; cbn [negb andb]; [|split; [exact Ok1|reflexivity]].
  destruct Ok1 as [Ht1 Ho1].
  destruct (pm_jc_obj_find (pm_jkey_of j) (jc_objs c1)) as [b|] eqn:F.
  - cbn [fst snd]. split; [split; assumption|]. rewrite (Ho1 j b Wj F). fold t. unfold gp0 in Egp. rewrite Egp. reflexivity.
  - cbn [fst snd]. split; [|reflexivity]. split; [exact Ht1|].
    intros j' b' Wj'. cbn [jc_objs pm_jc_obj_find]. destruct (pm_jkey_eqb (pm_jkey_of j') (pm_jkey_of j)) eqn:E.
    + apply pm_jkey_eqb_eq in E. pose proof (pm_jkey_identifies inv j' j Wj' Wj E) as ->.
      intros H; inversion H. fold t. unfold gp0 in Egp. rewrite Egp. reflexivity.
    + apply Ho1. exact Wj'.
Qed.

(* the loop without caches *)
Fixpoint pm_join_fields_ref (o : pm_obj) (fields : list pm_scope) : list (pm_scope * pm_jkey) :=
  match fields with
  | [] => []
  | v :: r =>
      match pm_navigate inv o v with
      | None => pm_join_fields_ref o r
      | Some j => if pm_join_visible G u j then (v, pm_jkey_of j) :: pm_join_fields_ref o r else pm_join_fields_ref o r
      end
  end.
Definition pm_joins_ref (t : pm_type) (sel : list pm_scope) (all : bool) (objs : list pm_obj) : list (pm_scope * pm_jkey) :=
  flat_map (fun o => pm_join_fields_ref o (pm_join_attrs t sel all)) objs.

Lemma pm_join_fields_eq o : forall fields c,
  pm_jc_ok c ->
  pm_jc_ok (fst (pm_join_fields G u inv c o fields)) /\ snd (pm_join_fields G u inv c o fields) = pm_join_fields_ref o fields.
Proof.
  induction fields as [|v r IH]; intros c Ok; cbn [pm_join_fields pm_join_fields_ref].
  - split; [exact Ok|reflexivity].
  - destruct (pm_navigate inv o v) as [j|] eqn:N; [|apply IH; exact Ok].
    destruct (pm_join_one_ok c j Ok (pm_navigate_wf _ _ _ _ N)) as [Ok1 E1].
    destruct (pm_join_one G u c j) as [c1 ok]. cbn [fst snd] in Ok1, E1.
    destruct (IH c1 Ok1) as [Ok2 E2]. destruct (pm_join_fields G u inv c1 o r) as [c2 l]. cbn [fst snd] in *.
    split; [exact Ok2|]. rewrite <- E1, E2. reflexivity.
Qed.

Lemma pm_join_objs_eq fields : forall objs c,
  pm_jc_ok c -> pm_join_objs G u inv c fields objs = flat_map (fun o => pm_join_fields_ref o fields) objs.
Proof.
  induction objs as [|o r IH]; intros c Ok; cbn [pm_join_objs flat_map]; [reflexivity|].
  destruct (pm_join_fields_eq o fields c Ok) as [Ok1 E1].
  destruct (pm_join_fields G u inv c o fields) as [c1 l]. cbn [fst snd] in *. rewrite E1, (IH c1 Ok1). reflexivity.
Qed.

(* the caches change nothing: for every inventory (names shared across types included), every user, every selection
   of join fields and every list of result objects *)
Theorem pm_joins_cache_transparent t sel all objs : pm_joins G u inv t sel all objs = pm_joins_ref t sel all objs.
Proof. unfold pm_joins, pm_joins_ref. apply pm_join_objs_eq. apply pm_jc_ok_empty. Qed.

(* the uncached decision implies the statement's reading: some entry matches objects/query/<type of the joined object>
   and its filter, if any, is true of the joined object *)
Lemma pm_jquery_perm_nonempty t : pm_jquery_perm t <> [].
Proof. destruct t; discriminate. Qed.

Theorem pm_join_only_permitted j : pm_join_visible G u j = true -> pm_spec_allow_j G u j = true.
Proof.
  unfold pm_join_visible. set (perm := pm_jquery_perm (pm_jobj_type j)).
  destruct (pm_has_permission u perm) as [granted pf] eqn:E. intros H. apply andb_prop in H. destruct H as [-> Hv].
  pose proof (pm_jquery_perm_nonempty (pm_jobj_type j)) as Hne. fold perm in Hne.
  destruct perm as [|c p] eqn:Hp; [congruence|]. unfold pm_has_permission in E.
  set (req := pm_lower (c :: p)) in *.
  assert (fst (pm_hp_loop u req false None) = true) as Hf by (rewrite E; reflexivity).
  assert (snd (pm_hp_loop u req false None) = pf) as Hs by (rewrite E; reflexivity).
  rewrite pm_hp_loop_found in Hf. cbn [orb] in Hf.
  unfold pm_spec_allow_j. apply existsb_exists. unfold pm_jverdict in Hv.
  destruct pf as [g|].
  - assert (pm_eval G (pm_jbind j) g = PmT) as Hev by (destruct (pm_eval G (pm_jbind j) g); [reflexivity|discriminate|discriminate]).
    destruct (pm_hp_loop_filter_true G u req (pm_jbind j) _ _ _ Hs Hev) as [(g0 & Hg0 & _)|(e & f & Hin & Hm & Hfe & He)].
    + discriminate.
    + exists e. split; [assumption|]. unfold pm_jentry_allows. fold perm. rewrite Hp. fold req.
      unfold pm_matches in Hm. rewrite Hm, Hfe, He. reflexivity.
  - apply pm_hp_loop_filter_none in Hs. destruct Hs as [_ Hall].
    apply existsb_exists in Hf. destruct Hf as (e & Hin & Hm). exists e. split; [assumption|].
    unfold pm_jentry_allows. fold perm. rewrite Hp. fold req. unfold pm_matches in Hm. rewrite Hm. rewrite (Hall e Hin Hm). reflexivity.
Qed.

(* what the handler serialises *)
Theorem pm_joins_only_permitted t sel all objs v k :
  In (v, k) (pm_joins G u inv t sel all objs) ->
  exists j, pm_jwf inv j /\ pm_jkey_of j = k /\ pm_join_visible G u j = true /\ pm_spec_allow_j G u j = true.
Proof.
  rewrite pm_joins_cache_transparent. unfold pm_joins_ref. intros H. apply in_flat_map in H. destruct H as (o & _ & H).
  induction (pm_join_attrs t sel all) as [|w r IH]; [destruct H|]. cbn [pm_join_fields_ref] in H.
  destruct (pm_navigate inv o w) as [j|] eqn:N; [|auto].
  destruct (pm_join_visible G u j) eqn:V; [|auto].
  destruct H as [H|H]; [|auto]. inversion H; subst. exists j.
  split; [eapply pm_navigate_wf; eassumption|]. split; [reflexivity|]. split; [assumption|apply pm_join_only_permitted; assumption].
Qed.

End WithGlobals.
