(* C18 round 6 - proofs about histories (Perm/PmUsers.v): the answer to a request is a function of the ApiUser objects as
   they are NOW (attribute values + registry), of the connection's certificate user and of the request's own header. *)
From Icv Require Import Base.Tac Perm.PmModel Perm.PmUsers.
Local Open Scope Z_scope.

Definition pmu_fresh (cfg : pmu_cfg) : Prop := pmu_memo cfg = false \/ pmu_invalidate cfg = true.

Definition pmu_tab_ok (w : pmu_world) : Prop :=
  forall id l, pmu_tab_get (pmu_memo_tab w) id = Some l -> l = pmu_perms_of (pmu_c w) id.
Definition pmu_good (cfg : pmu_cfg) (w : pmu_world) : Prop := pmu_memo cfg = false \/ pmu_tab_ok w.

Lemma pmu_world0_good cfg c : pmu_good cfg (pmu_world0 c).
Proof. right. intros id l H. discriminate H. Qed.

Lemma pmu_tab_get_filter tab k id :
  pmu_tab_get (filter (fun x => negb (Nat.eqb (fst x) k)) tab) id = if Nat.eqb k id then None else pmu_tab_get tab id.
Proof.
  induction tab as [|[k' l'] t IH]; cbn [filter pmu_tab_get fst].
  - destruct (Nat.eqb k id); reflexivity.
  - destruct (Nat.eqb k' k) eqn:E1; cbn [negb pmu_tab_get].
    + apply Nat.eqb_eq in E1. subst k'. rewrite IH. destruct (Nat.eqb k id); reflexivity.
    + rewrite IH. destruct (Nat.eqb k' id) eqn:E2.
      * apply Nat.eqb_eq in E2. subst k'. rewrite Nat.eqb_sym, E1. reflexivity.
      * reflexivity.
Qed.
Lemma pmu_tab_get_drop tab k id :
  pmu_tab_get (pmu_tab_drop tab (Some k)) id = if Nat.eqb k id then None else pmu_tab_get tab id.
Proof. apply pmu_tab_get_filter. Qed.

Lemma pmu_tab_get_drop_opt tab o id l :
  pmu_tab_get (pmu_tab_drop tab o) id = Some l -> pmu_tab_get tab id = Some l /\ o <> Some id.
Proof.
  destruct o as [k|].
  - rewrite pmu_tab_get_drop. destruct (Nat.eqb k id) eqn:E; [discriminate|].
    intros H. split; [exact H|]. intros C. injection C as C. subst k. rewrite Nat.eqb_refl in E. discriminate.
  - cbn [pmu_tab_drop]. intros H. split; [exact H | discriminate].
Qed.

Lemma pmu_upd_other l f : forall id k, id <> k -> nth_error (pmu_upd l k f) id = nth_error l id.
Proof.
  induction l as [|r t IH]; intros id k Hne; [destruct k; reflexivity|].
  destruct k, id; cbn; try reflexivity; try congruence. apply IH. congruence.
Qed.

Lemma pmu_nth_snoc (l : list pmu_rec) r id : id <> length l -> nth_error (l ++ [r]) id = nth_error l id.
Proof.
  intros Hne. destruct (Nat.lt_ge_cases id (length l)) as [Hlt|Hge].
  - apply nth_error_app1. exact Hlt.
  - assert (length l < id)%nat by lia.
    transitivity (@None pmu_rec); [|symmetry]; apply nth_error_None; [rewrite app_length; cbn; lia | lia].
Qed.

(* an operation changes the permission list of no object but the one it assigns / creates *)
Lemma pmu_perms_of_apply_other c op id :
  pmu_assigned c op <> Some id -> pmu_born c op <> Some id ->
  pmu_perms_of (pmu_apply_core c op) id = pmu_perms_of c id.
Proof.
  unfold pmu_perms_of, pmu_get. destruct op as [n p|n|n|n pass cn p]; cbn [pmu_assigned pmu_born pmu_apply_core]; intros Ha Hb.
  - destruct (pmu_find_name c n) as [k|]; [|reflexivity]. cbn. rewrite pmu_upd_other; [reflexivity|congruence].
  - destruct (pmu_find_name c n) as [k|]; [|reflexivity]. cbn. rewrite pmu_upd_other; [reflexivity|congruence].
  - destruct (pmu_find_name c n); reflexivity.
  - destruct (pmu_find_name c n); [reflexivity|]. cbn. rewrite pmu_nth_snoc; [reflexivity|congruence].
Qed.

Lemma pmu_apply_core_eq cfg w op : pmu_c (pmu_apply cfg w op) = pmu_apply_core (pmu_c w) op.
Proof. reflexivity. Qed.

Lemma pmu_apply_good cfg w op : pmu_fresh cfg -> pmu_good cfg w -> pmu_good cfg (pmu_apply cfg w op).
Proof.
  intros Hf [Hm|Hok]; [left; exact Hm|].
  destruct Hf as [Hm|Hi]; [left; exact Hm|].
  right. intros id l H. unfold pmu_apply in H. cbn [pmu_memo_tab pmu_c] in *. rewrite Hi in H.
  apply pmu_tab_get_drop_opt in H. destruct H as [H Hb].
  apply pmu_tab_get_drop_opt in H. destruct H as [H Ha].
  rewrite pmu_apply_core_eq. rewrite pmu_perms_of_apply_other by assumption. apply Hok. exact H.
Qed.

Lemma pmu_read_ok cfg w id : pmu_good cfg w ->
  fst (pmu_read cfg w id) = pmu_perms_of (pmu_c w) id /\ pmu_c (snd (pmu_read cfg w id)) = pmu_c w /\
  pmu_good cfg (snd (pmu_read cfg w id)).
Proof.
  intros Hg. unfold pmu_read. destruct (pmu_memo cfg) eqn:Em.
  - destruct Hg as [Hm|Hok]; [congruence|].
    destruct (pmu_tab_get (pmu_memo_tab w) id) as [l|] eqn:Et; cbn.
    + split; [apply Hok; exact Et|]. split; [reflexivity|right; exact Hok].
    + split; [reflexivity|]. split; [reflexivity|]. right. intros id' l' H. cbn in H.
      destruct (Nat.eqb id id') eqn:E.
      * apply Nat.eqb_eq in E. subst id'. injection H as H. subst l'. reflexivity.
      * apply Hok. exact H.
  - cbn. split; [reflexivity|]. split; [reflexivity|exact Hg].
Qed.

Section PmuProofs.
Variables (R A : Type) (decide : list pm_entry -> R -> A).

(* the code (read through a memoising member or not, per-request local or not) = the reference semantics *)
Theorem pmu_run_refines cfg : pmu_fresh cfg -> pmu_sticky cfg = false ->
  forall evs w k, pmu_good cfg w ->
  pmu_run R A decide cfg evs w k = pmu_ref R A decide (pmu_cuser k) evs (pmu_c w) (pmu_open k).
Proof.
  intros Hf Hs. induction evs as [|e r IH]; intros w k Hg; [reflexivity|].
  destruct e as [op|id rq|h rq close]; cbn [pmu_run pmu_ref].
  - rewrite IH by (apply pmu_apply_good; assumption). reflexivity.
  - destruct (pmu_read_ok cfg w id Hg) as (H1 & H2 & H3).
    destruct (pmu_read cfg w id) as [perms w'] eqn:Er. cbn in H1, H2, H3. subst perms.
    rewrite IH by exact H3. rewrite H2. reflexivity.
  - unfold pmu_request, pmu_answer. rewrite Hs. destruct (pmu_open k) eqn:Eo.
    + destruct (match pmu_cuser k with Some u => Some u | None => pmu_auth (pmu_c w) h end) as [id|] eqn:Ea.
      * destruct (pmu_read_ok cfg w id Hg) as (H1 & H2 & H3).
        destruct (pmu_read cfg w id) as [perms w'] eqn:Er. cbn in H1, H2, H3. subst perms.
        rewrite IH by exact H3. cbn [pmu_cuser pmu_open]. rewrite H2. reflexivity.
      * rewrite IH by exact Hg. reflexivity.
    + rewrite IH by exact Hg. rewrite Eo. reflexivity.
Qed.

Lemma pmu_ref_app cu : forall pre post c open,
  pmu_ref R A decide cu (pre ++ post) c open =
  pmu_ref R A decide cu pre c open ++ pmu_ref R A decide cu post (pmu_ops_only R pre c) (pmu_open_after R A decide cu pre c open).
Proof.
  induction pre as [|e r IH]; intros post c open; [reflexivity|].
  destruct e as [op|id rq|h rq close]; cbn [app pmu_ref pmu_ops_only pmu_open_after].
  - apply IH.
  - rewrite IH. reflexivity.
  - destruct open.
    + destruct (pmu_answer R A decide c cu h rq); rewrite IH; reflexivity.
    + rewrite IH. reflexivity.
Qed.

(* freshness: after ANY history the permission-checked call for user object id is decided on the list that object's
   `permissions` attribute holds now - a function of the attribute operations alone; earlier requests left nothing behind *)
Theorem pmu_uses_current_permissions cfg : pmu_fresh cfg -> pmu_sticky cfg = false ->
  forall pre w k id rq, pmu_good cfg w ->
  pmu_run R A decide cfg (pre ++ [PmuEvDirect id rq]) w k =
  pmu_run R A decide cfg pre w k ++ [PmuAns (decide (pmu_perms_of (pmu_ops_only R pre (pmu_c w)) id) rq)].
Proof.
  intros Hf Hs pre w k id rq Hg. rewrite !pmu_run_refines by assumption. rewrite pmu_ref_app. reflexivity.
Qed.

(* identity: the response to a request on a connection is Closed if the loop has ended, else the answer for the user the
   connection's certificate (if any) or THIS request's header identifies among the users registered now *)
Theorem pmu_request_after_history cfg : pmu_fresh cfg -> pmu_sticky cfg = false ->
  forall pre w k h rq close, pmu_good cfg w ->
  pmu_run R A decide cfg (pre ++ [PmuEvReq h rq close]) w k =
  pmu_run R A decide cfg pre w k ++
    [if pmu_open_after R A decide (pmu_cuser k) pre (pmu_c w) (pmu_open k)
     then pmu_answer R A decide (pmu_ops_only R pre (pmu_c w)) (pmu_cuser k) h rq else PmuClosed].
Proof.
  intros Hf Hs pre w k h rq close Hg. rewrite !pmu_run_refines by assumption. rewrite pmu_ref_app. f_equal.
  cbn [pmu_ref]. destruct (pmu_open_after _ _ _ _ _ _ _); [|reflexivity].
  destruct (pmu_answer R A decide _ _ h rq); reflexivity.
Qed.

Theorem pmu_identity_per_request cfg : pmu_fresh cfg -> pmu_sticky cfg = false ->
  forall pre w k h rq close, pmu_good cfg w -> pmu_cuser k = None ->
  let c := pmu_ops_only R pre (pmu_c w) in
  pmu_open_after R A decide None pre (pmu_c w) (pmu_open k) = true ->
  pmu_run R A decide cfg (pre ++ [PmuEvReq h rq close]) w k =
  pmu_run R A decide cfg pre w k ++
    [match pmu_auth c h with None => Pmu401 | Some id => PmuAns (decide (pmu_perms_of c id) rq) end].
Proof.
  intros Hf Hs pre w k h rq close Hg Hk c Ho. rewrite pmu_request_after_history by assumption.
  rewrite Hk, Ho. reflexivity.
Qed.

(* a connection with a certificate user: every request is answered for THAT object, whatever its header says *)
Theorem pmu_identity_certificate cfg : pmu_fresh cfg -> pmu_sticky cfg = false ->
  forall pre w k u h rq close, pmu_good cfg w -> pmu_cuser k = Some u ->
  pmu_open_after R A decide (Some u) pre (pmu_c w) (pmu_open k) = true ->
  pmu_run R A decide cfg (pre ++ [PmuEvReq h rq close]) w k =
  pmu_run R A decide cfg pre w k ++ [PmuAns (decide (pmu_perms_of (pmu_ops_only R pre (pmu_c w)) u) rq)].
Proof.
  intros Hf Hs pre w k u h rq close Hg Hk Ho. rewrite pmu_request_after_history by assumption.
  rewrite Hk, Ho. reflexivity.
Qed.

(* 401 exactly for missing / wrong credentials (no certificate user) *)
Lemma pmu_answer_401_iff c h rq : pmu_answer R A decide c None h rq = Pmu401 <-> pmu_auth c h = None.
Proof. unfold pmu_answer. destruct (pmu_auth c h); split; intros H; try reflexivity; discriminate H. Qed.

(* the oracle of the tie accepts what the model answers, for every per-request oracle that accepts the handler's answers *)
Theorem pmu_oracle_req_accepts_model (O : Type) (judge : list pm_entry -> O -> bool) (obsf : A -> O) :
  (forall perms rq, judge perms (obsf (decide perms rq)) = true) ->
  forall c cu h rq,
  pmu_oracle_req judge c cu h
    (match pmu_answer R A decide c cu h rq with PmuAns a => Some (obsf a) | _ => None end) = true.
Proof.
  intros Hj c cu h rq. unfold pmu_oracle_req, pmu_answer.
  destruct (match cu with Some u => Some u | None => pmu_auth c h end); [apply Hj|reflexivity].
Qed.
End PmuProofs.

(* what authenticates: a registered user of that name, a non-empty password equal to the configured one *)
Lemma pmu_auth_some c h id : pmu_auth c h = Some id ->
  exists user pass r, h = PmuBasic (user ++ 58 :: pass) /\ pmu_find_name c user = Some id /\ pmu_get c id = Some r /\
    pass <> [] /\ pm_str_eqb pass (pmu_pass r) = true /\ ~ In 58 user.
Proof.
  unfold pmu_auth. intros H.
  assert (Hs : forall s u p, pmu_split_colon s = Some (u, p) -> s = u ++ 58 :: p /\ ~ In 58 u).
  { induction s as [|x s IH]; intros u p E; [discriminate|]. cbn in E. destruct (x =? 58) eqn:Ex.
    - injection E as <- <-. apply Z.eqb_eq in Ex. subst x. split; [reflexivity|intros []].
    - destruct (pmu_split_colon s) as [[u' p']|]; [|discriminate]. injection E as <- <-.
      destruct (IH u' p' eq_refl) as [E1 E2]. subst s. split; [reflexivity|].
      intros [C|C]; [subst x; discriminate Ex | exact (E2 C)]. }
  destruct h as [|cred|].
  - destruct (pmu_find_name c []); discriminate H.
  - destruct (pmu_split_colon cred) as [[u p]|] eqn:Es.
    + destruct (Hs _ _ _ Es) as [E1 E2]. destruct (pmu_find_name c u) as [k|] eqn:Ef; [|discriminate].
      destruct p as [|x p]; [discriminate|]. destruct (pmu_get c k) as [r|] eqn:Eg; [|discriminate].
      destruct (pm_str_eqb (x :: p) (pmu_pass r)) eqn:Ep; [|discriminate]. injection H as H. subst id.
      exists u, (x :: p), r. subst cred. repeat split; try assumption. discriminate.
    + destruct (pmu_find_name c []); discriminate H.
  - destruct (pmu_find_name c []); discriminate H.
Qed.

(* ---------------------------------------------------------------- the two other shapes are refuted *)
Definition pmu_x_entry (s : pm_str) : pm_entry := {| pe_perm := s; pe_filter := None |}.
Definition pmu_x_star : pm_str := [42].
Definition pmu_x_status : pm_str := [115].                  (* "s" *)
Definition pmu_x_perm : pm_str := [111;47;113].             (* the required permission "o/q" *)
Definition pmu_x_decide (perms : list pm_entry) (rq : pm_str) : bool := pm_spec_has perms rq.
Definition pmu_x_admin : pm_str := [97].                    (* user "a", password "p" *)
Definition pmu_x_other : pm_str := [98].                    (* user "b", password "q" *)
Definition pmu_x_core : pmu_core :=
  pmu_apply_core (pmu_apply_core pmu_core0 (PmuCreate pmu_x_admin [112] [] [pmu_x_entry pmu_x_star]))
                 (PmuCreate pmu_x_other [113] [] [pmu_x_entry pmu_x_status]).

(* request, revoke, request again *)
Definition pmu_x_hist_memo : list (pmu_ev pm_str) :=
  [PmuEvDirect 0%nat pmu_x_perm; PmuEvOp (PmuSet pmu_x_admin [pmu_x_entry pmu_x_status]); PmuEvDirect 0%nat pmu_x_perm].
Lemma pmu_memo_without_invalidation_refuted :
  pmu_run pm_str bool pmu_x_decide {| pmu_memo := true; pmu_invalidate := false; pmu_sticky := false |} pmu_x_hist_memo
          (pmu_world0 pmu_x_core) (pmu_connect pmu_x_core None) = [PmuAns true; PmuAns true] /\
  pmu_x_decide (pmu_perms_of (pmu_ops_only pm_str pmu_x_hist_memo pmu_x_core) 0%nat) pmu_x_perm = false /\
  pmu_run pm_str bool pmu_x_decide {| pmu_memo := false; pmu_invalidate := false; pmu_sticky := false |} pmu_x_hist_memo
          (pmu_world0 pmu_x_core) (pmu_connect pmu_x_core None) = [PmuAns true; PmuAns false].
Proof. vm_compute. repeat split. Qed.

(* a: p, then b: q, then a with a wrong password, then no header at all - on ONE connection *)
Definition pmu_x_hist_sticky : list (pmu_ev pm_str) :=
  [PmuEvReq (PmuBasic [97;58;112]) pmu_x_perm false; PmuEvReq (PmuBasic [98;58;113]) pmu_x_perm false;
   PmuEvReq (PmuBasic [97;58;120]) pmu_x_perm false; PmuEvReq PmuNoHdr pmu_x_perm false].
Lemma pmu_sticky_refuted :
  pmu_run pm_str bool pmu_x_decide {| pmu_memo := false; pmu_invalidate := false; pmu_sticky := true |} pmu_x_hist_sticky
          (pmu_world0 pmu_x_core) (pmu_connect pmu_x_core None) = [PmuAns true; PmuAns true; PmuAns true; PmuAns true] /\
  pmu_run pm_str bool pmu_x_decide {| pmu_memo := false; pmu_invalidate := false; pmu_sticky := false |} pmu_x_hist_sticky
          (pmu_world0 pmu_x_core) (pmu_connect pmu_x_core None) = [PmuAns true; PmuAns false; Pmu401; PmuClosed].
Proof. vm_compute. repeat split. Qed.
