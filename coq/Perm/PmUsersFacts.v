(* Round 6: the configuration of Perm/PmUsers.v that describes this source tree, against the regenerated source facts
   (coq/Facts/Facts_c18.v).  In a file of its own so that a fact that no longer holds fails THIS lemma and the theorem built on it,
   not the unrelated lemmas of PmFacts.v. *)
From Icv Require Import Base.Tac Perm.PmModel Facts.Facts_c18.
(* Which configuration this source tree is.  f_pm_perms_read_fresh = Some true: HasPermission
   reads user->GetPermissions() on every call and class ApiUser has no data member of its own (nothing derived from the
   list can survive a request): pmu_memo = false.  f_pm_auth_user_per_request = Some true: the user of a request is a local of
   the ProcessMessages loop, m_ApiUser is assigned in the constructor only: pmu_sticky = false.  Some false does not check. *)
From Icv Require Import Perm.PmUsers.
Definition pmu_cfg_tree : pmu_cfg := {| pmu_memo := false; pmu_invalidate := false; pmu_sticky := false |}.
Definition pmu_memo_ok (f : option bool) (c : pmu_cfg) : Prop := match f with Some b => pmu_memo c = negb b | None => True end.
Definition pmu_sticky_ok (f : option bool) (c : pmu_cfg) : Prop := match f with Some b => pmu_sticky c = negb b | None => True end.
Lemma pmu_source_facts : pmu_memo_ok f_pm_perms_read_fresh pmu_cfg_tree /\ pmu_sticky_ok f_pm_auth_user_per_request pmu_cfg_tree.
Proof. cbv. repeat split. Qed.
