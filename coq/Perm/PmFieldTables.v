(* C18 - the field tables of this source tree as the attribute model reads them (definitions only, nothing that can fail:
   the extracted model driver uses them; what the theorems need of them is checked in PmFacts.v). *)
From Icv Require Import Base.Tac Perm.PmModel Perm.PmAttrs Facts.Facts_c18.
Local Open Scope Z_scope.

Definition pm_cur_tables : list (pm_str * pm_ftable) :=
  map (fun x => (fst x, map pm_field_of_fact (snd x))) f_pm_field_tables.
Definition pm_cur_table (n : pm_str) : pm_ftable :=
  match find (fun x => pm_str_eqb (fst x) n) pm_cur_tables with Some x => snd x | None => [] end.

