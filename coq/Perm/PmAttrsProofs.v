(* C18 - attribute selection on the read path: whatever the request asks for (no attrs, named fields, navigation
   fields, no_user_view fields, unknown names, joins / all_joins with <join>.<field>, meta), a serialised value is never
   (part of) another config object - other objects appear only through the joins loop, under their own permission -
   and hidden fields never appear. *)
From Icv Require Import Base.Tac Perm.PmModel Perm.PmProofs Perm.PmObs Perm.PmJoins Perm.PmAttrs.
Local Open Scope Z_scope.

Lemma pm_field_find_in tbl n f : pm_field_find tbl n = Some f -> In f tbl /\ pf_name f = n.
Proof.
  induction tbl as [|g r IH]; cbn; [discriminate|].
  destruct (pm_str_eqb (pf_name g) n) eqn:E.
  - intros H; inversion H; subst. split; [left; reflexivity|apply pm_str_eqb_eq; exact E].
  - intros H. destruct (IH H). split; [right|]; assumption.
Qed.

Lemma pm_attr_select_in tbl isJoin prefix : forall attrs l,
  pm_attr_select tbl isJoin prefix attrs = Some l -> forall f, In f l -> In f tbl.
Proof.
  induction attrs as [|a r IH]; cbn [pm_attr_select]; intros l H f Hin.
  - inversion H; subst. destruct Hin.
  - destruct (if isJoin then match pm_split_dot a with
                              | Some (p, f0) => if pm_str_eqb p prefix then Some f0 else None
                              | None => None end else Some a) as [n|].
    + destruct (pm_field_find tbl n) as [g|] eqn:F; [|discriminate].
      destruct (pm_attr_select tbl isJoin prefix r) as [l'|]; [|discriminate].
      inversion H; subst. destruct Hin as [<-|Hin]; [apply (pm_field_find_in _ _ _ F)|eapply IH; [reflexivity|exact Hin]].
    + eapply IH; eassumption.
Qed.

(* every request shape: what is serialised is a field of the type that passed BOTH hide tests *)
Lemma pm_serialize_attrs_sound tbl prefix attrs isJoin allAttrs l :
  pm_serialize_attrs tbl prefix attrs isJoin allAttrs = Some l ->
  forall f, In f l -> In f tbl /\ pm_field_visible f = true.
Proof.
  unfold pm_serialize_attrs. intros H f Hin.
  match type of H with option_map _ ?x = _ => destruct x as [fids|] eqn:E end; [|discriminate].
  cbn in H. inversion H; subst. apply filter_In in Hin. destruct Hin as [Hin Hv]. split; [|exact Hv].
  match type of E with (if ?c then _ else _) = _ => destruct c end.
  - inversion E; subst. exact Hin.
  - destruct attrs as [al|].
    + eapply pm_attr_select_in; eassumption.
    + inversion E; subst. destruct Hin.
Qed.

Lemma pm_visible_wf f : pm_field_wf f = true -> pm_field_visible f = true -> pf_objval f = false /\ pf_hidden f = false.
Proof.
  unfold pm_field_wf, pm_field_visible. destruct (pf_objval f), (pf_hidden f), (pf_nav f), (pf_config f), (pf_state f); cbn; intros; split; congruence.
Qed.

Lemma pm_tbl_wf_in tbl f : pm_tbl_wf tbl = true -> In f tbl -> pm_field_wf f = true.
Proof. unfold pm_tbl_wf. intros H Hin. eapply forallb_forall in H; eassumption. Qed.

(* the field-level statement, for any table that satisfies what the .ti files guarantee *)
Theorem pm_serialize_never_embeds tbl prefix attrs isJoin allAttrs l :
  pm_tbl_wf tbl = true ->
  pm_serialize_attrs tbl prefix attrs isJoin allAttrs = Some l ->
  forall f, In f l -> pm_field_visible f = true /\ pf_objval f = false /\ pf_hidden f = false.
Proof.
  intros W H f Hin. destruct (pm_serialize_attrs_sound _ _ _ _ _ _ H f Hin) as [Ht Hv].
  split; [exact Hv|]. apply pm_visible_wf; [eapply pm_tbl_wf_in; eassumption|exact Hv].
Qed.

Section WithTables.
Variable T : pm_str -> pm_ftable.
Variables (G : pm_env) (u : list pm_entry) (inv : list pm_obj).
Hypothesis Twf : forall n, pm_tbl_wf (T n) = true.

Definition pm_fields_clean (fs : list pm_field) : Prop :=
  forall f, In f fs -> pm_field_visible f = true /\ pf_objval f = false /\ pf_hidden f = false.

Lemma pm_ajoin_fields_ok req o : forall fields l,
  pm_ajoin_fields T G u inv req o fields = Some l ->
  forall v k fs, In (v, k, fs) l ->
    (exists j, pm_jwf inv j /\ pm_jkey_of j = k /\ pm_join_visible G u j = true /\ pm_spec_allow_j G u j = true) /\ pm_fields_clean fs.
Proof.
  induction fields as [|w r IH]; cbn [pm_ajoin_fields]; intros l H v k fs Hin.
  - inversion H; subst. destruct Hin.
  - destruct (pm_navigate inv o w) as [j|] eqn:N; [|eapply IH; eassumption].
    destruct (pm_join_visible G u j) eqn:V; [|eapply IH; eassumption].
    destruct (pm_serialize_attrs _ _ _ _ _) as [fs0|] eqn:S; [|discriminate].
    destruct (pm_ajoin_fields T G u inv req o r) as [l'|] eqn:R; [|discriminate].
    inversion H; subst. destruct Hin as [E|Hin]; [|eapply IH; [reflexivity|exact Hin]].
    inversion E; subst. split.
    + exists j. split; [eapply pm_navigate_wf; eassumption|]. split; [reflexivity|]. split; [exact V|apply pm_join_only_permitted; exact V].
    + intros f Hf. eapply pm_serialize_never_embeds; [apply Twf|exact S|exact Hf].
Qed.

Definition pm_aobj_ok (a : pm_aobj) : Prop :=
  pm_fields_clean (ao_attrs a) /\
  forall v k fs, In (v, k, fs) (ao_joins a) ->
    (exists j, pm_jwf inv j /\ pm_jkey_of j = k /\ pm_join_visible G u j = true /\ pm_spec_allow_j G u j = true) /\ pm_fields_clean fs.

Lemma pm_aobj_of_ok t req o a : pm_aobj_of T G u inv t req o = Some a -> pm_aobj_ok a /\ ao_key a = pm_key_of o.
Proof.
  unfold pm_aobj_of. destruct (negb (pm_meta_ok (ar_meta req))); [discriminate|].
  destruct (pm_serialize_attrs _ _ _ _ _) as [fs|] eqn:S; [|discriminate].
  destruct (pm_ajoin_fields _ _ _ _ _ _ _) as [js|] eqn:J; [|discriminate].
  intros H; inversion H; subst. cbn. split; [|reflexivity]. split.
  - intros f Hf. eapply pm_serialize_never_embeds; [apply Twf|exact S|exact Hf].
  - intros v k fs0 Hin. eapply pm_ajoin_fields_ok; eassumption.
Qed.

Lemma pm_aobjs_ok t req : forall objs l, pm_aobjs T G u inv t req objs = Some l ->
  (forall a, In a l -> pm_aobj_ok a) /\ map ao_key l = map pm_key_of objs.
Proof.
  induction objs as [|o r IH]; cbn [pm_aobjs]; intros l H.
  - inversion H; subst. split; [intros a []|reflexivity].
  - destruct (pm_aobj_of T G u inv t req o) as [a|] eqn:A; [|discriminate].
    destruct (pm_aobjs T G u inv t req r) as [l'|] eqn:R; [|discriminate].
    inversion H; subst. destruct (pm_aobj_of_ok _ _ _ _ A) as [Oa Ka]. destruct (IH _ eq_refl) as [Ol Kl]. split.
    + intros b [<-|Hb]; [exact Oa|apply Ol; exact Hb].
    + cbn. rewrite Ka, Kl. reflexivity.
Qed.

(* the response of the object query handler, for every request: the serialised objects are the ones GetFilterTargets
   returned; none of their own attributes is (part of) another object or a hidden field; another object's attributes
   appear only as a `joins` entry, for an object the user may query under objects/query/<its own type>, and that
   entry again contains no further object and no hidden field *)
Theorem pm_attrs_never_embed_objects t req objs l :
  pm_aquery T G u inv t req objs = PmA200 l ->
  map ao_key l = map pm_key_of objs /\ forall a, In a l -> pm_aobj_ok a.
Proof.
  unfold pm_aquery. destruct (pm_aobjs T G u inv t req objs) as [l'|] eqn:E; [|discriminate].
  intros H; inversion H; subst. destruct (pm_aobjs_ok _ _ _ _ E). split; assumption.
Qed.

Lemma pm_embeds_of_clean o fs : pm_fields_clean fs -> pm_embeds_of inv o fs = [].
Proof.
  unfold pm_embeds_of. induction fs as [|f r IH]; intros C; cbn [flat_map]; [reflexivity|].
  destruct (C f (or_introl eq_refl)) as (_ & -> & _). cbn [app]. apply IH. intros g Hg. apply C. right; exact Hg.
Qed.

Lemma pm_hidden_count_clean fs : pm_fields_clean fs -> pm_hidden_count fs = 0.
Proof.
  unfold pm_hidden_count. intros H. replace (filter (fun f => negb (pm_field_visible f)) fs) with (@nil pm_field); [reflexivity|].
  induction fs as [|f r IH]; cbn [filter]; [reflexivity|]. destruct (H f (or_introl eq_refl)) as [-> _]. cbn [negb]. apply IH. intros g Hg. apply H. right; exact Hg.
Qed.

Lemma pm_sum_zero (l : list Z) : (forall x, In x l -> x = 0) -> fold_right Z.add 0 l = 0.
Proof. induction l as [|a r IH]; cbn [fold_right]; intros H; [reflexivity|]. rewrite (H a (or_introl eq_refl)), IH; [reflexivity|]. intros; apply H; right; assumption. Qed.

Lemma pm_aobs_embeds_nil l : (forall a, In a l -> pm_aobj_ok a) -> pm_aobs_embeds inv l = [].
Proof.
  unfold pm_aobs_embeds. induction l as [|a r IH]; intros Hok; cbn [flat_map]; [reflexivity|].
  rewrite (pm_embeds_of_clean _ (ao_attrs a)); [|apply (Hok a (or_introl eq_refl))]. cbn [app].
  apply IH. intros b Hb. apply Hok. right; exact Hb.
Qed.

Lemma pm_aobs_hidden_zero l : (forall a, In a l -> pm_aobj_ok a) -> pm_aobs_hidden l = 0.
Proof.
  intros Hok. unfold pm_aobs_hidden. apply pm_sum_zero. intros x Hx. apply in_map_iff in Hx. destruct Hx as (a & <- & Ha).
  destruct (Hok a Ha) as [Ca Cj]. rewrite (pm_hidden_count_clean _ Ca). rewrite pm_sum_zero; [reflexivity|].
  intros y Hy. apply in_map_iff in Hy. destruct Hy as ([[v k] fs] & <- & Hin). cbn [snd]. apply pm_hidden_count_clean.
  apply (Cj v k fs Hin).
Qed.

(* the extracted oracle accepts what the model serialises *)
Theorem pm_oracle_aq_accepts_model t req objs l :
  pm_aquery T G u inv t req objs = PmA200 l ->
  pm_oracle_aq G u inv (pm_aobs_joined l) (map snd (pm_aobs_embeds inv l)) (pm_aobs_hidden l) = true.
Proof.
  intros H. apply pm_attrs_never_embed_objects in H. destruct H as [_ Hok].
  unfold pm_oracle_aq. rewrite (pm_aobs_embeds_nil _ Hok), (pm_aobs_hidden_zero _ Hok). cbn [map pm_oracle_joins forallb].
  rewrite Z.eqb_refl, !andb_true_r.
  unfold pm_oracle_joins. apply forallb_forall. intros k Hk. unfold pm_aobs_joined in Hk. apply in_flat_map in Hk.
  destruct Hk as (a & Ha & Hk). apply in_map_iff in Hk. destruct Hk as ([[v k'] fs] & E & Hin). cbn in E. subst k'.
  destruct (Hok a Ha) as [_ Hj]. destruct (Hj v k fs Hin) as [(j & Wj & Kj & _ & Aj) _]. subst k.
  unfold pm_jkey_allowed. destruct j as [o|jt n]; cbn [pm_jkey_of pm_jobj_type pm_jobj_name fst snd].
  - cbn in Wj. rewrite Wj. exact Aj.
  - cbn in Wj. destruct jt; [congruence|exact Aj..].
Qed.

End WithTables.

(* ---- the variant with the navigation test in the ENUMERATION loop only (fields named explicitly bypass it) embeds the
   host into a service: a table with the two fields `name` [config] and `host` [no_storage, navigation] Host::Ptr *)
Definition pm_tbl_demo : pm_ftable :=
  [ {| pf_name := [110;97;109;101]; pf_navname := []; pf_config := true; pf_state := false; pf_nav := false; pf_hidden := false; pf_objval := false |};
    {| pf_name := [104;111;115;116]; pf_navname := [104;111;115;116]; pf_config := false; pf_state := false; pf_nav := true; pf_hidden := false; pf_objval := true |} ].

Lemma pm_hide_in_enum_embeds :
  pm_tbl_wf pm_tbl_demo = true /\
  (* without attrs both variants agree: the host field is left out *)
  pm_serialize_attrs_hide_in_enum pm_tbl_demo [] None false false = pm_serialize_attrs pm_tbl_demo [] None false false /\
  (* attrs = ["host"]: the code leaves it out, the variant serialises the Host object *)
  pm_serialize_attrs pm_tbl_demo [] (Some [[104;111;115;116]]) false false = Some [] /\
  exists f, pm_serialize_attrs_hide_in_enum pm_tbl_demo [] (Some [[104;111;115;116]]) false false = Some [f] /\ pf_objval f = true.
Proof. repeat split. eexists. split; reflexivity. Qed.
