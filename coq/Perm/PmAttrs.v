(* C18 - the ATTRIBUTE dimension of the read path (definitions only; proofs in PmAttrsProofs.v).
   ObjectQueryHandler::SerializeObjectAttrs selects which fields of a permitted object (the result object itself, or a
   joined object the joins loop let through) are serialised, for every request shape: no `attrs`, `attrs` naming fields,
   `joins` entries `<join>` / `<join>.<field>`, `all_joins`, unknown names.  The model is generic in the field table
   (Type::GetFieldInfo for fid = 0 .. GetFieldCount()-1, base class first); the tables of the real types are
   regenerated from the .ti files (Facts_c18.f_pm_field_tables) and compared with the live reflection data on every run. *)
From Icv Require Import Base.Tac Perm.PmModel Perm.PmObs.
Local Open Scope Z_scope.

(* one reflected field: the flags SerializeObjectAttrs tests, and whether the getter hands out ANOTHER config object
   (`[no_storage, navigation] Host::Ptr host` of Service is the only such field in the tree) *)
Record pm_field := {
  pf_name : pm_str;
  pf_navname : pm_str;        (* Field::NavigationName, [] when the field is no navigation field *)
  pf_config : bool;           (* FAConfig *)
  pf_state : bool;            (* FAState *)
  pf_nav : bool;              (* FANavigation *)
  pf_hidden : bool;           (* FANoUserView *)
  pf_objval : bool            (* the field's value is a config object, not a scalar / dictionary / array *)
}.
Definition pm_ftable := list pm_field.

Definition pm_field_of_fact (x : list Z * (list Z * (bool * (bool * (bool * (bool * bool)))))) : pm_field :=
  let '(n, (nn, (c, (s, (nv, (h, ov)))))) := x in
  {| pf_name := n; pf_navname := nn; pf_config := c; pf_state := s; pf_nav := nv; pf_hidden := h; pf_objval := ov |}.

(* Type::GetFieldId(name): exact, case-sensitive *)
Fixpoint pm_field_find (tbl : pm_ftable) (n : pm_str) : option pm_field :=
  match tbl with
  | [] => None
  | f :: r => if pm_str_eqb (pf_name f) n then Some f else pm_field_find r n
  end.

(* attr.FindFirstOf(".") / SubStr: split at the FIRST dot *)
Fixpoint pm_split_dot (s : pm_str) : option (pm_str * pm_str) :=
  match s with
  | [] => None
  | c :: r =>
      if c =? 46 then Some ([], r)
      else match pm_split_dot r with Some (a, b) => Some (c :: a, b) | None => None end
  end.
(* ujoin.SubStr(0, ujoin.FindFirstOf(".")): the part before the first dot, the whole string when there is none *)
Definition pm_join_prefix (s : pm_str) : pm_str :=
  match pm_split_dot s with Some (a, _) => a | None => s end.

(* `for (const String& attr : attrs)`: None = ScriptError("Invalid field specified") *)
Fixpoint pm_attr_select (tbl : pm_ftable) (isJoin : bool) (prefix : pm_str) (attrs : list pm_str) : option (list pm_field) :=
  match attrs with
  | [] => Some []
  | a :: r =>
      let ua := if isJoin
                then match pm_split_dot a with
                     | None => None                                               (* no dot: continue *)
                     | Some (p, f) => if pm_str_eqb p prefix then Some f else None   (* other join: continue *)
                     end
                else Some a in
      match ua with
      | None => pm_attr_select tbl isJoin prefix r
      | Some n =>
          match pm_field_find tbl n with
          | None => None
          | Some f => match pm_attr_select tbl isJoin prefix r with Some l => Some (f :: l) | None => None end
          end
      end
  end.

(* the two tests of the loop that EMITS (`for (int fid : fids)`): no_user_view fields and internal navigation fields
   (navigation without config/state, i.e. fields that exist only to reach another object) are left out *)
Definition pm_field_visible (f : pm_field) : bool :=
  negb (pf_hidden f) && negb (pf_nav f && negb (pf_config f || pf_state f)).

(* SerializeObjectAttrs(object, attrPrefix, attrs, isJoin, allAttrs): the fields that end up in the dictionary *)
Definition pm_serialize_attrs (tbl : pm_ftable) (prefix : pm_str) (attrs : option (list pm_str)) (isJoin allAttrs : bool)
  : option (list pm_field) :=
  let all1 := allAttrs || (isJoin && match attrs with Some l => existsb (pm_str_eqb prefix) l | None => false end) in
  let all2 := all1 || (negb isJoin && negb (pm_is_some attrs)) in
  let fids := if all2 then Some tbl
              else match attrs with Some l => pm_attr_select tbl isJoin prefix l | None => Some [] end in
  option_map (filter pm_field_visible) fids.

(* the variant in which the navigation test sits in the loop that ENUMERATES all fields instead: fields named
   explicitly bypass it (refuted below: it embeds the host into a service) *)
Definition pm_field_visible_nouserview_only (f : pm_field) : bool := negb (pf_hidden f).
Definition pm_field_not_internal_nav (f : pm_field) : bool := negb (pf_nav f && negb (pf_config f || pf_state f)).
Definition pm_serialize_attrs_hide_in_enum (tbl : pm_ftable) (prefix : pm_str) (attrs : option (list pm_str)) (isJoin allAttrs : bool)
  : option (list pm_field) :=
  let all1 := allAttrs || (isJoin && match attrs with Some l => existsb (pm_str_eqb prefix) l | None => false end) in
  let all2 := all1 || (negb isJoin && negb (pm_is_some attrs)) in
  let fids := if all2 then Some (filter pm_field_not_internal_nav tbl)
              else match attrs with Some l => pm_attr_select tbl isJoin prefix l | None => Some [] end in
  option_map (filter pm_field_visible_nouserview_only) fids.

(* what the .ti files must guarantee for the hide test to keep other objects out: a field whose getter returns a
   config object is an internal navigation field *)
Definition pm_field_wf (f : pm_field) : bool :=
  implb (pf_objval f) (pf_nav f && negb (pf_config f || pf_state f)).
Definition pm_tbl_wf (tbl : pm_ftable) : bool := forallb pm_field_wf tbl.
(* GetFieldId is unambiguous *)
Fixpoint pm_tbl_nodup (tbl : pm_ftable) : bool :=
  match tbl with
  | [] => true
  | f :: r => negb (existsb (fun g => pm_str_eqb (pf_name g) (pf_name f)) r) && pm_tbl_nodup r
  end.

(* ---- the request and the response of GET /v1/objects/<type> as far as attribute selection is concerned *)
Record pm_areq := {
  ar_attrs : option (list pm_str);
  ar_joins : option (list pm_str);
  ar_all_joins : bool;
  ar_meta : option (list pm_str)
}.

Definition pm_meta_used_by : pm_str := [117;115;101;100;95;98;121].
Definition pm_meta_location : pm_str := [108;111;99;97;116;105;111;110].
Definition pm_meta_ok (m : option (list pm_str)) : bool :=
  match m with
  | None => true
  | Some l => forallb (fun x => pm_str_eqb x pm_meta_used_by || pm_str_eqb x pm_meta_location) l
  end.

(* a navigation prefix the client named -> the navigation field of Host/Service it selects *)
Definition pm_scope_of_prefix (p : pm_str) : option pm_scope :=
  find (fun v => pm_str_eqb (pm_scope_zname v) p) pm_join_order.
Definition pm_join_sel_of (joins : option (list pm_str)) : list pm_scope :=
  match joins with
  | None => []
  | Some l => flat_map (fun s => match pm_scope_of_prefix (pm_join_prefix s) with Some v => [v] | None => [] end) l
  end.

(* one serialised result object: its own selected fields, and per permitted join (field, joined object, selected fields) *)
Record pm_aobj := {
  ao_key : pm_key;
  ao_attrs : list pm_field;
  ao_joins : list (pm_scope * pm_jkey * list pm_field)
}.
Inductive pm_aresp := PmA400 | PmA200 (l : list pm_aobj).

Section WithTables.
(* T: type name -> field table *)
Variable T : pm_str -> pm_ftable.
Variables (G : pm_env) (u : list pm_entry) (inv : list pm_obj).

(* the joins loop for one result object with the uncached decision (PmJoins.pm_joins_cache_transparent: the handler's two
   caches change nothing), now WITH the serialisation of each permitted joined object; None = ScriptError -> 400 *)
Fixpoint pm_ajoin_fields (req : pm_areq) (o : pm_obj) (fields : list pm_scope) : option (list (pm_scope * pm_jkey * list pm_field)) :=
  match fields with
  | [] => Some []
  | v :: r =>
      match pm_navigate inv o v with
      | None => pm_ajoin_fields req o r
      | Some j =>
          if pm_join_visible G u j then
            match pm_serialize_attrs (T (pm_jtype_name (pm_jobj_type j))) (pm_scope_zname v) (ar_joins req) true (ar_all_joins req) with
            | None => None
            | Some fs => match pm_ajoin_fields req o r with Some l => Some ((v, pm_jkey_of j, fs) :: l) | None => None end
            end
          else pm_ajoin_fields req o r
      end
  end.

(* the body of `for (const ConfigObject::Ptr& obj : objs)`: meta, attrs, joins - the first error ends the request *)
Definition pm_aobj_of (t : pm_type) (req : pm_areq) (o : pm_obj) : option pm_aobj :=
  if negb (pm_meta_ok (ar_meta req)) then None else
  match pm_serialize_attrs (T (pm_type_name t)) [] (ar_attrs req) false false with
  | None => None
  | Some fs =>
      match pm_ajoin_fields req o (pm_join_attrs t (pm_join_sel_of (ar_joins req)) (ar_all_joins req)) with
      | None => None
      | Some js => Some {| ao_key := pm_key_of o; ao_attrs := fs; ao_joins := js |}
      end
  end.

Fixpoint pm_aobjs (t : pm_type) (req : pm_areq) (objs : list pm_obj) : option (list pm_aobj) :=
  match objs with
  | [] => Some []
  | o :: r =>
      match pm_aobj_of t req o with
      | None => None
      | Some a => match pm_aobjs t req r with Some l => Some (a :: l) | None => None end
      end
  end.

(* the response for the objects GetFilterTargets returned (no objects: 200 with an empty list, whatever was asked for) *)
Definition pm_aquery (t : pm_type) (req : pm_areq) (objs : list pm_obj) : pm_aresp :=
  match pm_aobjs t req objs with Some l => PmA200 l | None => PmA400 end.

End WithTables.

(* ---- what an observer of the response can extract: every place where (part of) ANOTHER config object shows up.
   A serialised field with an object-valued getter embeds the object the getter returns (for Service.host: the host). *)
Definition pm_embeds_of (inv0 : list pm_obj) (o : option pm_obj) (fs : list pm_field) : list (pm_str * pm_jkey) :=
  flat_map (fun f =>
    if pf_objval f then
      match o with
      | Some o' =>
          match pm_scope_of_prefix (pf_navname f) with
          | Some v => match pm_navigate inv0 o' v with Some j => [(pf_name f, pm_jkey_of j)] | None => [] end
          | None => []
          end
      | None => []
      end
    else []) fs.


(* observation of one response: joined objects, embedded objects (anywhere in attrs / joins.<x>), number of fields that
   are flagged no_user_view or internal-navigation among the serialised keys *)
Definition pm_hidden_count (fs : list pm_field) : Z := Z.of_nat (length (filter (fun f => negb (pm_field_visible f)) fs)).

Definition pm_aobs_joined (l : list pm_aobj) : list pm_jkey :=
  flat_map (fun a => map (fun x => snd (fst x)) (ao_joins a)) l.
Definition pm_aobs_hidden (l : list pm_aobj) : Z :=
  fold_right Z.add 0 (map (fun a => pm_hidden_count (ao_attrs a)
                                   + fold_right Z.add 0 (map (fun x => pm_hidden_count (snd x)) (ao_joins a))) l).
Definition pm_aobs_embeds (inv : list pm_obj) (l : list pm_aobj) : list (pm_str * pm_jkey) :=
  flat_map (fun a => pm_embeds_of inv (pm_lookup inv (fst (ao_key a)) (snd (ao_key a))) (ao_attrs a)) l.

(* the oracle over the IMPLEMENTATION's response: every joined and every embedded object is one the user may query under
   objects/query/<its own type> (filter true of that object), and no hidden field is shown *)
Definition pm_oracle_aq (G : pm_env) (u : list pm_entry) (inv : list pm_obj) (joined embedded : list pm_jkey) (hidden : Z) : bool :=
  pm_oracle_joins G u inv joined && pm_oracle_joins G u inv embedded && (hidden =? 0).
