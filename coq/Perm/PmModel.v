(* C18 - API authorisation: model (definitions only, no proofs).
   Transcription of lib/remote/filterutility.cpp (HasPermission, CheckPermission, EvaluateFilter,
   GetFilterTargets incl. the ApplyRule::GetTargetHosts/GetTargetServices fast path of
   lib/config/applyrule-targeted.cpp), of the joins loop of lib/remote/objectqueryhandler.cpp and of
   Utility::Match (third-party/mmatch/mmatch.c: '*', '?', '\*', '\?', tolower on both sides).
   Strings are lists of byte codes.  Branch order follows the C++ text. *)
From Icv Require Import Base.Tac.
Local Open Scope Z_scope.

Definition pm_str := list Z.

Fixpoint pm_str_eqb (a b : pm_str) : bool :=
  match a, b with
  | [], [] => true
  | x :: a', y :: b' => (x =? y) && pm_str_eqb a' b'
  | _, _ => false
  end.

(* tolower() in the "C" locale; String::ToLower on ASCII *)
Definition pm_lower_c (c : Z) : Z := if (65 <=? c) && (c <=? 90) then c + 32 else c.
Definition pm_lower (s : pm_str) : pm_str := map pm_lower_c s.

(* ---------------------------------------------------------------- Utility::Match *)
Inductive pm_tok := PmStar | PmAny | PmLit (c : Z).

(* '*' = 42, '?' = 63, '\' = 92; a backslash quotes a following '*' or '?' and is literal otherwise *)
Fixpoint pm_tokens (p : pm_str) : list pm_tok :=
  match p with
  | [] => []
  | c :: r =>
      if c =? 42 then PmStar :: pm_tokens r
      else if c =? 63 then PmAny :: pm_tokens r
      else if c =? 92 then
        match r with
        | e :: r' => if (e =? 42) || (e =? 63) then PmLit e :: pm_tokens r' else PmLit c :: pm_tokens r
        | [] => [PmLit c]
        end
      else PmLit c :: pm_tokens r
  end.

Fixpoint pm_match_toks (ts : list pm_tok) (s : pm_str) {struct ts} : bool :=
  match ts with
  | [] => match s with [] => true | _ :: _ => false end
  | PmStar :: ts' =>
      (fix pm_star (s : pm_str) : bool :=
         pm_match_toks ts' s || match s with [] => false | _ :: s' => pm_star s' end) s
  | PmAny :: ts' => match s with [] => false | _ :: s' => pm_match_toks ts' s' end
  | PmLit c :: ts' =>
      match s with
      | [] => false
      | d :: s' => (pm_lower_c d =? pm_lower_c c) && pm_match_toks ts' s'
      end
  end.

Definition pm_match (pat text : pm_str) : bool := pm_match_toks (pm_tokens pat) text.

(* ---------------------------------------------------------------- objects and filters *)
Inductive pm_type := PmHost | PmService.
Definition pm_type_eqb (a b : pm_type) : bool :=
  match a, b with PmHost, PmHost | PmService, PmService => true | _, _ => false end.

Inductive pm_nav := PmNCheckCommand | PmNCheckPeriod | PmNEventCommand | PmNCommandEndpoint.

(* po_name: full object name (what ConfigObject::GetObject is keyed by, "host!service" for services);
   po_short: the `name` attribute; po_host/po_hvars: name and vars of the host a service belongs to (of the object
   itself for hosts); po_cc/po_cp/po_ec/po_ce: the objects its navigation fields check_command / check_period /
   event_command / command_endpoint refer to (None = null reference) *)
Record pm_obj := {
  po_type : pm_type; po_name : pm_str; po_short : pm_str; po_host : pm_str;
  po_vars : list (pm_str * pm_str); po_hvars : list (pm_str * pm_str);
  po_cc : option pm_str; po_cp : option pm_str; po_ec : option pm_str; po_ce : option pm_str
}.

(* the variables of a filter frame's namespace that the fragment can read *)
Inductive pm_scope := PmScHost | PmScService | PmScObj | PmScNav (k : pm_nav).
Definition pm_nav_eqb (a b : pm_nav) : bool :=
  match a, b with
  | PmNCheckCommand, PmNCheckCommand | PmNCheckPeriod, PmNCheckPeriod
  | PmNEventCommand, PmNEventCommand | PmNCommandEndpoint, PmNCommandEndpoint => true
  | _, _ => false
  end.
Definition pm_scope_eqb (a b : pm_scope) : bool :=
  match a, b with
  | PmScHost, PmScHost | PmScService, PmScService | PmScObj, PmScObj => true
  | PmScNav x, PmScNav y => pm_nav_eqb x y
  | _, _ => false
  end.

(* the boolean fragment of the DSL the tie generates:  sc.name == "n",  sc.vars.k == "v",  &&, ||, !, true, false
   with sc a namespace variable (host, service, obj or a joined object), and atoms that mention a FREE NAME x - a name
   EvaluateFilter does not bind, which the evaluator resolves in the frame's own namespace first and in the imports /
   global constants after it:  sc.name == x,  sc.vars.k == x,  sc.name in x,  match(x, sc.name);  and function calls
   that keep a user filter off the targeted fast path:  match("p", sc.name),  len(sc.name) == n,  regex("^s$", sc.name) *)
Inductive pm_filter :=
| PmFTrue | PmFFalse
| PmFName (sc : pm_scope) (n : pm_str)
| PmFVar (sc : pm_scope) (k v : pm_str)
| PmFNameVar (sc : pm_scope) (x : pm_str)
| PmFVarFree (sc : pm_scope) (k x : pm_str)
| PmFNameIn (sc : pm_scope) (x : pm_str)
| PmFMatch (sc : pm_scope) (pat : pm_str)
| PmFMatchVar (sc : pm_scope) (x : pm_str)
| PmFLen (sc : pm_scope) (n : Z)
| PmFRegex (sc : pm_scope) (s : pm_str)
| PmFAnd (a b : pm_filter)
| PmFOr (a b : pm_filter)
| PmFNot (a : pm_filter).

(* evaluation outcome: true / false / a ScriptError was thrown *)
Inductive pm_tri := PmT | PmF | PmE.
Definition pm_tri_of_bool (b : bool) : pm_tri := if b then PmT else PmF.
Definition pm_is_t (t : pm_tri) : bool := match t with PmT => true | _ => false end.

Fixpoint pm_assoc (k : pm_str) (l : list (pm_str * pm_str)) : option pm_str :=
  match l with
  | [] => None
  | (k', v) :: r => if pm_str_eqb k k' then Some v else pm_assoc k r
  end.

(* ---------------------------------------------------------------- free names: filter_vars and global constants *)
(* the value of a free name: a string or an array of strings *)
Inductive pm_fval := PmVS (s : pm_str) | PmVA (l : list pm_str).
(* an environment of free names, first binding wins.  The PERMISSION filter (a lambda called with `this` = the
   permission frame's namespace, which holds nothing but what EvaluateFilter binds) resolves a free name in the
   global constants G only; the USER's filter runs in a frame whose namespace also received the request's
   filter_vars, which therefore come first: filter_vars ++ G. *)
Definition pm_env := list (pm_str * pm_fval).
Fixpoint pm_env_get (x : pm_str) (e : pm_env) : option pm_fval :=
  match e with
  | [] => None
  | (k, v) :: r => if pm_str_eqb x k then Some v else pm_env_get x r
  end.

(* ---------------------------------------------------------------- the namespace of a filter frame *)
(* a bound value: None = null (`x.name`, `x.vars.k` are Empty, every comparison false); Some (name, vars) with
   vars = None for an object type without a `vars` field (Endpoint: reading it throws) *)
Definition pm_val := option (pm_str * option (list (pm_str * pm_str))).
(* latest binding first; a variable that was never Set is undefined (reading it throws) *)
Definition pm_ns := list (pm_scope * pm_val).
Fixpoint pm_ns_get (ns : pm_ns) (v : pm_scope) : option pm_val :=
  match ns with
  | [] => None
  | (v', x) :: r => if pm_scope_eqb v v' then Some x else pm_ns_get r v
  end.
Definition pm_ns_set (ns : pm_ns) (v : pm_scope) (x : pm_val) : pm_ns := (v, x) :: ns.

(* which fields of Host / Service carry FANavigation, in field order (Facts_c18.f_pm_nav_host/_service):
   Checkable: check_command, check_period, event_command, command_endpoint; Service adds host *)
Definition pm_checkable_navs : list pm_scope :=
  [PmScNav PmNCheckCommand; PmScNav PmNCheckPeriod; PmScNav PmNEventCommand; PmScNav PmNCommandEndpoint].
Definition pm_nav_vars (t : pm_type) : list pm_scope :=
  match t with PmHost => pm_checkable_navs | PmService => pm_checkable_navs ++ [PmScHost] end.

(* target->NavigateField(fid) *)
Definition pm_nav_val (o : pm_obj) (v : pm_scope) : pm_val :=
  match v with
  | PmScNav PmNCheckCommand => option_map (fun n => (n, Some [])) (po_cc o)
  | PmScNav PmNCheckPeriod => option_map (fun n => (n, Some [])) (po_cp o)
  | PmScNav PmNEventCommand => option_map (fun n => (n, Some [])) (po_ec o)
  | PmScNav PmNCommandEndpoint => option_map (fun n => (n, None)) (po_ce o)
  | PmScHost => Some (po_host o, Some (po_hvars o))       (* Service::host; a service always has its host *)
  | _ => None
  end.

Definition pm_type_var (t : pm_type) : pm_scope := match t with PmHost => PmScHost | PmService => PmScService end.

(* the binding step of FilterUtility::EvaluateFilter: frameNS->Set("obj", target); Set(<type name>, target);
   then for EVERY navigation field of the target's type Set(<navigation name>, joined object OR null) - there is no
   early `continue` for a null reference (Facts_c18.f_pm_bind_guard).  Nothing is ever removed from [ns]. *)
Definition pm_bind (ns : pm_ns) (o : pm_obj) : pm_ns :=
  let self : pm_val := Some (po_short o, Some (po_vars o)) in
  fold_left (fun ns v => pm_ns_set ns v (pm_nav_val o v)) (pm_nav_vars (po_type o))
            (pm_ns_set (pm_ns_set ns PmScObj self) (pm_type_var (po_type o)) self).

(* `x.name` converted to a String for a function argument: Empty (null x) converts to "" *)
Definition pm_val_name (val : pm_val) : pm_str := match val with None => [] | Some (nm, _) => nm end.

(* filter->Evaluate(frame): reads the frame's namespace [ns] for the variables EvaluateFilter binds and the
   environment [env] for free names.  Operand order as in the expression classes: `a == b` evaluates a then b,
   `a in b` evaluates b first (not an Array: ScriptError), a call evaluates its arguments left to right. *)
Fixpoint pm_eval (env : pm_env) (ns : pm_ns) (f : pm_filter) : pm_tri :=
  match f with
  | PmFTrue => PmT
  | PmFFalse => PmF
  | PmFName sc n =>
      match pm_ns_get ns sc with
      | None => PmE                                  (* undefined script variable *)
      | Some None => PmF
      | Some (Some (nm, _)) => pm_tri_of_bool (pm_str_eqb nm n)
      end
  | PmFVar sc k v =>
      match pm_ns_get ns sc with
      | None => PmE
      | Some None => PmF
      | Some (Some (_, None)) => PmE                 (* no such field *)
      | Some (Some (_, Some vars)) =>
          match pm_assoc k vars with
          | None => PmF
          | Some v' => pm_tri_of_bool (pm_str_eqb v' v)
          end
      end
  | PmFNameVar sc x =>
      match pm_ns_get ns sc with
      | None => PmE
      | Some val =>
          match pm_env_get x env with
          | None => PmE                              (* undefined script variable *)
          | Some (PmVA _) => PmF                     (* String == Array *)
          | Some (PmVS n) => match val with None => PmF | Some (nm, _) => pm_tri_of_bool (pm_str_eqb nm n) end
          end
      end
  | PmFVarFree sc k x =>
      match pm_ns_get ns sc with
      | None => PmE
      | Some (Some (_, None)) => PmE                 (* no such field *)
      | Some val =>
          match pm_env_get x env with
          | None => PmE
          | Some (PmVA _) => PmF
          | Some (PmVS v) =>
              match val with
              | Some (_, Some vars) =>
                  match pm_assoc k vars with None => PmF | Some v' => pm_tri_of_bool (pm_str_eqb v' v) end
              | _ => PmF
              end
          end
      end
  | PmFNameIn sc x =>
      match pm_env_get x env with
      | None => PmE
      | Some (PmVS _) => PmE                         (* Invalid right side argument for 'in' operator *)
      | Some (PmVA l) =>
          match pm_ns_get ns sc with
          | None => PmE
          | Some None => PmF
          | Some (Some (nm, _)) => pm_tri_of_bool (existsb (pm_str_eqb nm) l)
          end
      end
  | PmFMatch sc pat =>
      match pm_ns_get ns sc with
      | None => PmE
      | Some val => pm_tri_of_bool (pm_match pat (pm_val_name val))
      end
  | PmFMatchVar sc x =>
      match pm_env_get x env with
      | None => PmE
      | Some xv =>
          match pm_ns_get ns sc with
          | None => PmE
          | Some val => match xv with PmVS pat => pm_tri_of_bool (pm_match pat (pm_val_name val)) | PmVA _ => PmF end
          end
      end
  | PmFLen sc n =>
      match pm_ns_get ns sc with
      | None => PmE
      | Some val => pm_tri_of_bool (Z.of_nat (length (pm_val_name val)) =? n)
      end
  | PmFRegex sc s =>
      match pm_ns_get ns sc with
      | None => PmE
      | Some val => pm_tri_of_bool (pm_str_eqb (pm_val_name val) s)
      end
  | PmFAnd a b =>
      match pm_eval env ns a with PmE => PmE | PmF => PmF | PmT => pm_eval env ns b end
  | PmFOr a b =>
      match pm_eval env ns a with PmE => PmE | PmT => PmT | PmF => pm_eval env ns b end
  | PmFNot a =>
      match pm_eval env ns a with PmE => PmE | PmT => PmF | PmF => PmT end
  end.

(* FilterUtility::EvaluateFilter(frame, filter, target): a null filter returns true before anything is bound;
   otherwise bind, then evaluate.  Result: the frame's namespace afterwards and the outcome.  [env] = what a free
   name resolves to in this frame. *)
Definition pm_evalf (env : pm_env) (pf : option pm_filter) (ns : pm_ns) (o : pm_obj) : pm_ns * pm_tri :=
  match pf with
  | None => (ns, PmT)
  | Some f => let ns' := pm_bind ns o in (ns', pm_eval env ns' f)
  end.

(* the evaluation the statement means: the permission filter on the object alone - a fresh namespace, free names
   resolved in the global constants [G] and nowhere else *)
Definition pm_eval_opt (G : pm_env) (pf : option pm_filter) (o : pm_obj) : pm_tri := snd (pm_evalf G pf [] o).

(* ---------------------------------------------------------------- HasPermission / CheckPermission *)
Record pm_entry := { pe_perm : pm_str; pe_filter : option pm_filter }.

(* the loop over user->GetPermissions(): foundPermission and the growing *permissionFilter.
   A matching entry WITHOUT filter sets found but leaves the accumulated filter untouched. *)
Fixpoint pm_hp_loop (u : list pm_entry) (req : pm_str) (found : bool) (pf : option pm_filter)
  : bool * option pm_filter :=
  match u with
  | [] => (found, pf)
  | e :: r =>
      if pm_match (pm_lower (pe_perm e)) req then
        pm_hp_loop r req true
          (match pe_filter e with
           | None => pf
           | Some f => match pf with None => Some f | Some g => Some (PmFOr g f) end
           end)
      else pm_hp_loop r req found pf
  end.

Definition pm_has_permission (u : list pm_entry) (perm : pm_str) : bool * option pm_filter :=
  match perm with
  | [] => (true, None)
  | _ :: _ => pm_hp_loop u (pm_lower perm) false None
  end.

(* None = ScriptError "Missing permission"; Some pf = granted with the combined filter pf *)
Definition pm_check_permission (u : list pm_entry) (perm : pm_str) : option (option pm_filter) :=
  let '(found, pf) := pm_has_permission u perm in if found then Some pf else None.

(* ---------------------------------------------------------------- GetFilterTargets *)
Inductive pm_qtype := PmQHost | PmQService | PmQOtherValid | PmQInvalid.

Record pm_query := {
  pq_host : option pm_str;              (* "host" *)
  pq_service : option pm_str;           (* "service" *)
  pq_hosts : option (list pm_str);      (* "hosts" *)
  pq_services : option (list pm_str);   (* "services" *)
  pq_type : option pm_qtype;            (* "type" *)
  pq_filter : option pm_filter;         (* "filter" *)
  pq_fvars : pm_env                     (* "filter_vars" *)
}.

Inductive pm_err :=
| PmErrPerm        (* ScriptError: Missing permission *)
| PmErrNoObj       (* invalid_argument: Object does not exist. *)
| PmErrDenied      (* ScriptError: Access denied to object *)
| PmErrNoType      (* invalid_argument: Type must be specified when using a filter. *)
| PmErrBadType     (* invalid_argument: Invalid type specified. *)
| PmErrTypeNotInQd (* invalid_argument: Invalid type specified for this query. *)
| PmErrScript.     (* ScriptError thrown by a filter *)

Inductive pm_result := PmOk (l : list pm_obj) | PmErr (e : pm_err).

Definition pm_lookup (inv : list pm_obj) (t : pm_type) (n : pm_str) : option pm_obj :=
  find (fun o => pm_type_eqb (po_type o) t && pm_str_eqb (po_name o) n) inv.

Definition pm_q_single (q : pm_query) (t : pm_type) : option pm_str :=
  match t with PmHost => pq_host q | PmService => pq_service q end.
Definition pm_q_plural (q : pm_query) (t : pm_type) : option (list pm_str) :=
  match t with PmHost => pq_hosts q | PmService => pq_services q end.

(* GetTargetByName + EvaluateFilter(permissionFrame, permissionFilter, target) + throw "Access denied".
   [ns] = the permission frame's namespace before this evaluation; returned with the target on success.
   The permission frame's namespace is a `new Namespace()` only EvaluateFilter writes to
   (Facts_c18.f_pm_perm_ns_private): a free name of the permission filter is resolved in G. *)
Definition pm_name_one (G : pm_env) (pf : option pm_filter) (inv : list pm_obj) (t : pm_type) (n : pm_str)
           (ns : pm_ns) : pm_err + (pm_obj * pm_ns) :=
  match pm_lookup inv t n with
  | None => inl PmErrNoObj
  | Some o =>
      match pm_evalf G pf ns o with
      | (ns', PmT) => inr (o, ns')
      | (_, PmF) => inl PmErrDenied
      | (_, PmE) => inl PmErrScript
      end
  end.

Fixpoint pm_name_list (G : pm_env) (pf : option pm_filter) (inv : list pm_obj) (t : pm_type) (ns : list pm_str)
         (acc : list pm_obj) (fr : pm_ns) : pm_err + list pm_obj :=
  match ns with
  | [] => inr acc
  | n :: r =>
      match pm_name_one G pf inv t n fr with
      | inl e => inl e
      | inr (o, fr') => pm_name_list G pf inv t r (acc ++ [o]) fr'
      end
  end.

(* one iteration of `for (const String& type : qd.Types)`: it starts with
   `permissionFrame.Self = new Namespace()` (fix 053695b), i.e. with an empty namespace *)
Definition pm_names_type (G : pm_env) (pf : option pm_filter) (inv : list pm_obj) (q : pm_query) (t : pm_type)
           (acc : list pm_obj) : pm_err + list pm_obj :=
  match (match pm_q_single q t with
         | None => inr (acc, [])
         | Some n => match pm_name_one G pf inv t n [] with inl e => inl e | inr (o, fr) => inr (acc ++ [o], fr) end
         end) with
  | inl e => inl e
  | inr (acc1, fr1) =>
      match pm_q_plural q t with
      | None => inr acc1
      | Some ns => pm_name_list G pf inv t ns acc1 fr1
      end
  end.

Fixpoint pm_by_names (G : pm_env) (pf : option pm_filter) (inv : list pm_obj) (q : pm_query) (tys : list pm_type)
         (acc : list pm_obj) : pm_err + list pm_obj :=
  match tys with
  | [] => inr acc
  | t :: r =>
      match pm_names_type G pf inv q t acc with
      | inl e => inl e
      | inr acc' => pm_by_names G pf inv q r acc'
      end
  end.

(* does the by-name part call GetTargetByName at all *)
Definition pm_names_consult (q : pm_query) (tys : list pm_type) : bool :=
  existsb (fun t => match pm_q_single q t with Some _ => true | None => false end
                    || match pm_q_plural q t with Some (_ :: _) => true | _ => false end) tys.

(* ApplyRule::GetComparedName / IsNameIndexer / GetConstString with `constants` = filter_vars (NOT the globals:
   a variable that is no filter_vars key, or whose value is no String, is no constant - no fast path) *)
Definition pm_compared_name (sc : pm_scope) (f : pm_filter) (fv : pm_env) : option pm_str :=
  match f with
  | PmFName sc' n => if pm_scope_eqb sc' sc then Some n else None
  | PmFNameVar sc' x =>
      if pm_scope_eqb sc' sc then match pm_env_get x fv with Some (PmVS n) => Some n | _ => None end else None
  | _ => None
  end.

Fixpoint pm_target_hosts (f : pm_filter) (fv : pm_env) : option (list pm_str) :=
  match f with
  | PmFOr a b =>
      match pm_target_hosts a fv with
      | None => None
      | Some x => match pm_target_hosts b fv with None => None | Some y => Some (x ++ y) end
      end
  | _ => match pm_compared_name PmScHost f fv with Some n => Some [n] | None => None end
  end.

Definition pm_target_service (f : pm_filter) (fv : pm_env) : option (pm_str * pm_str) :=
  match f with
  | PmFAnd op1 op2 =>
      match pm_compared_name PmScHost op1 fv with
      | Some h => match pm_compared_name PmScService op2 fv with Some s => Some (h, s) | None => None end
      | None =>
          match pm_compared_name PmScHost op2 fv with
          | Some h => match pm_compared_name PmScService op1 fv with Some s => Some (h, s) | None => None end
          | None => None
          end
      end
  | _ => None
  end.

Fixpoint pm_target_services (f : pm_filter) (fv : pm_env) : option (list pm_str) :=
  match f with
  | PmFOr a b =>
      match pm_target_services a fv with
      | None => None
      | Some x => match pm_target_services b fv with None => None | Some y => Some (x ++ y) end
      end
  | _ => match pm_target_service f fv with Some (h, s) => Some [h ++ [33] ++ s] | None => None end
  end.

Definition pm_targets (t : pm_type) (f : pm_filter) (fv : pm_env) : option (list pm_str) :=
  match t with PmHost => pm_target_hosts f fv | PmService => pm_target_services f fv end.

(* `if (targeted)`: names -> objects (missing ones are skipped), then only the PERMISSION filter, all in the one
   permission namespace [ns] *)
Fixpoint pm_fast_collect (G : pm_env) (pf : option pm_filter) (ns : pm_ns) (inv : list pm_obj) (t : pm_type)
         (names : list pm_str) : pm_err + list pm_obj :=
  match names with
  | [] => inr []
  | n :: r =>
      match pm_lookup inv t n with
      | None => pm_fast_collect G pf ns inv t r
      | Some o =>
          match pm_evalf G pf ns o with
          | (_, PmE) => inl PmErrScript
          | (ns', PmF) => pm_fast_collect G pf ns' inv t r
          | (ns', PmT) => match pm_fast_collect G pf ns' inv t r with inl e => inl e | inr l => inr (o :: l) end
          end
      end
  end.

(* FindTargets + FilteredAddTarget: the permission filter in the permission frame (namespace [pns], free names in
   G), then the user's filter in the user's own sandboxed frame: namespace [uns], into which the request's
   filter_vars [fv] were Set before the enumeration - they shadow the globals THERE, and only there *)
Fixpoint pm_scan (G : pm_env) (pf : option pm_filter) (pns : pm_ns) (uf : option pm_filter) (fv : pm_env)
         (uns : pm_ns) (t : pm_type) (inv : list pm_obj) : pm_err + list pm_obj :=
  match inv with
  | [] => inr []
  | o :: r =>
      if pm_type_eqb (po_type o) t then
        match pm_evalf G pf pns o with
        | (_, PmE) => inl PmErrScript
        | (pns', PmF) => pm_scan G pf pns' uf fv uns t r
        | (pns', PmT) =>
            match pm_evalf (fv ++ G) uf uns o with
            | (_, PmE) => inl PmErrScript
            | (uns', PmF) => pm_scan G pf pns' uf fv uns' t r
            | (uns', PmT) => match pm_scan G pf pns' uf fv uns' t r with inl e => inl e | inr l => inr (o :: l) end
            end
        end
      else pm_scan G pf pns uf fv uns t r
  end.

(* the DSL name of a namespace variable (= Facts: PmFacts.pm_scope_name) *)
Definition pm_scope_zname (v : pm_scope) : pm_str :=
  match v with
  | PmScObj => [111;98;106]
  | PmScHost => [104;111;115;116]
  | PmScService => [115;101;114;118;105;99;101]
  | PmScNav PmNCheckCommand => [99;104;101;99;107;95;99;111;109;109;97;110;100]
  | PmScNav PmNCheckPeriod => [99;104;101;99;107;95;112;101;114;105;111;100]
  | PmScNav PmNEventCommand => [101;118;101;110;116;95;99;111;109;109;97;110;100]
  | PmScNav PmNCommandEndpoint => [99;111;109;109;97;110;100;95;101;110;100;112;111;105;110;116]
  end.

(* fix 06579d2 and its extension: filter_vars named obj / host / service, or like a navigation field of the queried
   type (check_command, ...), are overwritten by EvaluateFilter with the target resp. a joined object, so they are
   no constants and the fast path is skipped (variableName is empty for the config-object handlers) *)
Definition pm_shadowed (t : pm_type) (fv : pm_env) : bool :=
  existsb (fun kv => existsb (fun v => pm_str_eqb (fst kv) (pm_scope_zname v))
                             ([PmScObj; PmScHost; PmScService] ++ pm_nav_vars t)) fv.

(* the filter phase; it starts with `permissionFrame.Self = new Namespace()` (fix 17a75cd) and a new user frame *)
Definition pm_by_filter (G : pm_env) (fast : bool) (pf : option pm_filter) (inv : list pm_obj) (t : pm_type)
           (uf : option pm_filter) (fv : pm_env) : pm_err + list pm_obj :=
  match uf with
  | None => pm_scan G pf [] None fv [] t inv
  | Some f =>
      match (if fast && negb (pm_shadowed t fv) then pm_targets t f fv else None) with
      | Some ns => pm_fast_collect G pf [] inv t ns
      | None => pm_scan G pf [] (Some f) fv [] t inv
      end
  end.

Definition pm_qtype_in (tys : list pm_type) (qt : pm_qtype) : option pm_type :=
  match qt with
  | PmQHost => if existsb (pm_type_eqb PmHost) tys then Some PmHost else None
  | PmQService => if existsb (pm_type_eqb PmService) tys then Some PmService else None
  | _ => None
  end.

Definition pm_is_nil {A} (l : list A) : bool := match l with [] => true | _ => false end.
Definition pm_is_some {A} (o : option A) : bool := match o with Some _ => true | None => false end.

(* G = the global constants; fast = the provider is the ConfigObjectTargetProvider (fast path available).
   Result: (was any object consulted, result) *)
Definition pm_filter_targets (G : pm_env) (fast : bool) (u : list pm_entry) (perm : pm_str) (tys : list pm_type)
           (q : pm_query) (inv : list pm_obj) : bool * pm_result :=
  match pm_check_permission u perm with
  | None => (false, PmErr PmErrPerm)
  | Some pf =>
      let c1 := pm_names_consult q tys in
      match pm_by_names G pf inv q tys [] with
      | inl e => (c1, PmErr e)
      | inr res =>
          if pm_is_some (pq_filter q) || pm_is_nil res then
            match pq_type q with
            | None => (c1, PmErr PmErrNoType)
            | Some PmQInvalid => (c1, PmErr PmErrBadType)
            | Some qt =>
                match pm_qtype_in tys qt with
                | None => (c1, PmErr PmErrTypeNotInQd)
                | Some t =>
                    (true, match pm_by_filter G fast pf inv t (pq_filter q) (pq_fvars q) with
                           | inl e => PmErr e
                           | inr l => PmOk (res ++ l)
                           end)
                end
            end
          else (c1, PmOk res)
      end
  end.

(* ---------------------------------------------------------------- the statement's reading of "permitted" *)
(* some entry matches the required permission and, when that entry carries a filter, the filter is true of the
   object alone under the global constants *)
Definition pm_entry_allows (G : pm_env) (perm : pm_str) (o : pm_obj) (e : pm_entry) : bool :=
  pm_match (pm_lower (pe_perm e)) (pm_lower perm)
  && match pe_filter e with None => true | Some f => pm_is_t (pm_eval G (pm_bind [] o) f) end.
Definition pm_spec_allow (G : pm_env) (u : list pm_entry) (perm : pm_str) (o : pm_obj) : bool :=
  existsb (pm_entry_allows G perm o) u.
Definition pm_spec_has (u : list pm_entry) (perm : pm_str) : bool :=
  match perm with
  | [] => true
  | _ => existsb (fun e => pm_match (pm_lower (pe_perm e)) (pm_lower perm)) u
  end.

(* "objects/query/" *)
Definition pm_query_prefix : pm_str := [111;98;106;101;99;116;115;47;113;117;101;114;121;47].
Definition pm_type_name (t : pm_type) : pm_str :=
  match t with PmHost => [72;111;115;116] | PmService => [83;101;114;118;105;99;101] end.
Definition pm_query_perm (t : pm_type) : pm_str := pm_query_prefix ++ pm_type_name t.

(* ---------------------------------------------------------------- objectqueryhandler.cpp joins *)
(* the types the navigation fields of Host / Service lead to *)
Inductive pm_jtype := PmJHost | PmJCheckCommand | PmJTimePeriod | PmJEventCommand | PmJEndpoint.
Definition pm_jtype_eqb (a b : pm_jtype) : bool :=
  match a, b with
  | PmJHost, PmJHost | PmJCheckCommand, PmJCheckCommand | PmJTimePeriod, PmJTimePeriod
  | PmJEventCommand, PmJEventCommand | PmJEndpoint, PmJEndpoint => true
  | _, _ => false
  end.
Definition pm_jtype_name (t : pm_jtype) : pm_str :=
  match t with
  | PmJHost => [72;111;115;116]
  | PmJCheckCommand => [67;104;101;99;107;67;111;109;109;97;110;100]
  | PmJTimePeriod => [84;105;109;101;80;101;114;105;111;100]
  | PmJEventCommand => [69;118;101;110;116;67;111;109;109;97;110;100]
  | PmJEndpoint => [69;110;100;112;111;105;110;116]
  end.
(* String permission = "objects/query/" + reflectionType->GetName() *)
Definition pm_jquery_perm (t : pm_jtype) : pm_str := pm_query_prefix ++ pm_jtype_name t.

(* a joined object: a host of the inventory, or an object of another type of which the fragment sees the name and
   whether its type has a `vars` field (CheckCommand, TimePeriod, EventCommand: yes; Endpoint: no).  Objects of
   DIFFERENT types may carry the SAME name: names are unique within a type only. *)
Inductive pm_jobj := PmJH (o : pm_obj) | PmJA (t : pm_jtype) (n : pm_str).
Definition pm_jobj_type (j : pm_jobj) : pm_jtype := match j with PmJH _ => PmJHost | PmJA t _ => t end.
Definition pm_jobj_name (j : pm_jobj) : pm_str := match j with PmJH o => po_name o | PmJA _ n => n end.

(* EvaluateFilter's binding step for a joined object in a NEW frame (`ScriptFrame permissionFrame(false, new Namespace())`):
   a host as for any host target; for the other types `obj` (and a type variable and navigation fields the fragment has
   no name for) *)
Definition pm_jbind (j : pm_jobj) : pm_ns :=
  match j with
  | PmJH o => pm_bind [] o
  | PmJA t n => [(PmScObj, Some (n, match t with PmJEndpoint => None | _ => Some [] end))]
  end.

(* accessAllowed = EvaluateFilter(permissionFrame, permissionFilter, joinedObj); a ScriptError counts as "no" *)
Definition pm_jverdict (G : pm_env) (pf : option pm_filter) (j : pm_jobj) : bool :=
  match pf with None => true | Some f => pm_is_t (pm_eval G (pm_jbind j) f) end.

(* what the loop decides without its caches: HasPermission("objects/query/<type of the joined object>") and the
   combined filter of THAT permission true of the joined object *)
Definition pm_join_visible (G : pm_env) (u : list pm_entry) (j : pm_jobj) : bool :=
  let '(granted, pf) := pm_has_permission u (pm_jquery_perm (pm_jobj_type j)) in
  granted && pm_jverdict G pf j.

(* the identity of a config object: its type AND its name.  This is what an `Object*` key distinguishes
   (Facts_c18.f_pm_join_cache_key): two live objects are the same object iff type and name agree. *)
Definition pm_jkey := (pm_jtype * pm_str)%type.
Definition pm_jkey_of (j : pm_jobj) : pm_jkey := (pm_jobj_type j, pm_jobj_name j).
Definition pm_jkey_eqb (a b : pm_jkey) : bool := pm_jtype_eqb (fst a) (fst b) && pm_str_eqb (snd a) (snd b).

(* the two per-request caches of ObjectQueryHandler::HandleRequest:
   typePermissions : unordered_map<Type*, pair<bool, unique_ptr<Expression>>>   and
   objectAccessAllowed : unordered_map<Object*, bool>; both live for the whole request - across result objects,
   across join fields, across joined types *)
Record pm_jcache := {
  jc_types : list (pm_jtype * (bool * option pm_filter));
  jc_objs : list (pm_jkey * bool)
}.
Definition pm_jcache_empty : pm_jcache := {| jc_types := []; jc_objs := [] |}.

Fixpoint pm_jc_type_find (t : pm_jtype) (l : list (pm_jtype * (bool * option pm_filter))) : option (bool * option pm_filter) :=
  match l with
  | [] => None
  | (t', x) :: r => if pm_jtype_eqb t t' then Some x else pm_jc_type_find t r
  end.
Fixpoint pm_jc_obj_find (k : pm_jkey) (l : list (pm_jkey * bool)) : option bool :=
  match l with
  | [] => None
  | (k', b) :: r => if pm_jkey_eqb k k' then Some b else pm_jc_obj_find k r
  end.

(* one joined object: typePermissions lookup / fill, `if (!granted) continue`, objectAccessAllowed lookup / fill *)
Definition pm_join_one (G : pm_env) (u : list pm_entry) (c : pm_jcache) (j : pm_jobj) : pm_jcache * bool :=
  let t := pm_jobj_type j in
  let '(c1, (granted, pf)) :=
    match pm_jc_type_find t (jc_types c) with
    | Some gp => (c, gp)
    | None =>
        let gp := pm_has_permission u (pm_jquery_perm t) in
        ({| jc_types := (t, gp) :: jc_types c; jc_objs := jc_objs c |}, gp)
    end in
  if negb granted then (c1, false)
  else
    match pm_jc_obj_find (pm_jkey_of j) (jc_objs c1) with
    | Some b => (c1, b)
    | None =>
        let b := pm_jverdict G pf j in
        ({| jc_types := jc_types c1; jc_objs := (pm_jkey_of j, b) :: jc_objs c1 |}, b)
    end.

(* joinAttrs is a std::set<String> of field names, so the fields are visited in alphabetical order:
   check_command < check_period < command_endpoint < event_command < host *)
Definition pm_join_order : list pm_scope :=
  [PmScNav PmNCheckCommand; PmScNav PmNCheckPeriod; PmScNav PmNCommandEndpoint; PmScNav PmNEventCommand; PmScHost].
(* the navigation fields of the queried type that the request selected (all_joins, or the prefix of a `joins` entry) *)
Definition pm_join_attrs (t : pm_type) (sel : list pm_scope) (all : bool) : list pm_scope :=
  filter (fun v => existsb (pm_scope_eqb v) (pm_nav_vars t) && (all || existsb (pm_scope_eqb v) sel)) pm_join_order.

(* obj->NavigateField(fid) of a result object *)
Definition pm_navigate (inv : list pm_obj) (o : pm_obj) (v : pm_scope) : option pm_jobj :=
  match v with
  | PmScNav PmNCheckCommand => option_map (PmJA PmJCheckCommand) (po_cc o)
  | PmScNav PmNCheckPeriod => option_map (PmJA PmJTimePeriod) (po_cp o)
  | PmScNav PmNEventCommand => option_map (PmJA PmJEventCommand) (po_ec o)
  | PmScNav PmNCommandEndpoint => option_map (PmJA PmJEndpoint) (po_ce o)
  | PmScHost =>
      match po_type o with
      | PmService => option_map PmJH (pm_lookup inv PmHost (po_host o))
      | PmHost => None
      end
  | _ => None
  end.

(* `for (const String& joinAttr : joinAttrs)` for one result object: which (field, joined object) are serialised *)
Fixpoint pm_join_fields (G : pm_env) (u : list pm_entry) (inv : list pm_obj) (c : pm_jcache) (o : pm_obj)
         (fields : list pm_scope) : pm_jcache * list (pm_scope * pm_jkey) :=
  match fields with
  | [] => (c, [])
  | v :: r =>
      match pm_navigate inv o v with
      | None => pm_join_fields G u inv c o r                       (* if (!joinedObj) continue *)
      | Some j =>
          let '(c1, ok) := pm_join_one G u c j in
          let '(c2, l) := pm_join_fields G u inv c1 o r in
          (c2, if ok then (v, pm_jkey_of j) :: l else l)
      end
  end.

(* `for (const ConfigObject::Ptr& obj : objs)` with the caches carried from one result object to the next *)
Fixpoint pm_join_objs (G : pm_env) (u : list pm_entry) (inv : list pm_obj) (c : pm_jcache) (fields : list pm_scope)
         (objs : list pm_obj) : list (pm_scope * pm_jkey) :=
  match objs with
  | [] => []
  | o :: r => let '(c1, l) := pm_join_fields G u inv c o fields in l ++ pm_join_objs G u inv c1 fields r
  end.

Definition pm_joins (G : pm_env) (u : list pm_entry) (inv : list pm_obj) (t : pm_type) (sel : list pm_scope) (all : bool)
           (objs : list pm_obj) : list (pm_scope * pm_jkey) :=
  pm_join_objs G u inv pm_jcache_empty (pm_join_attrs t sel all) objs.

(* the statement's reading for a joined object *)
Definition pm_jentry_allows (G : pm_env) (j : pm_jobj) (e : pm_entry) : bool :=
  pm_match (pm_lower (pe_perm e)) (pm_lower (pm_jquery_perm (pm_jobj_type j)))
  && match pe_filter e with None => true | Some f => pm_is_t (pm_eval G (pm_jbind j) f) end.
Definition pm_spec_allow_j (G : pm_env) (u : list pm_entry) (j : pm_jobj) : bool := existsb (pm_jentry_allows G j) u.
