(* C18 - API authorisation: model (definitions only, no proofs).
   Transcription of lib/remote/filterutility.cpp (HasPermission, CheckPermission, EvaluateFilter,
   GetFilterTargets incl. the ApplyRule::GetTargetHosts/GetTargetServices fast path of
   lib/config/applyrule-targeted.cpp), of the joins loop of lib/remote/objectqueryhandler.cpp and of
   Utility::Match (third-party/mmatch/mmatch.c: '*', '?', '\*', '\?', tolower on both sides).
   Strings are lists of byte codes.  Branch order follows the C++ text. *)
From Icv Require Import Base.Tac.
Local Open Scope Z_scope.

Definition pm_str := list Z.

Fixpoint pm_str_eqb (a b : pm_str) : bool :=
  match a, b with
  | [], [] => true
  | x :: a', y :: b' => (x =? y) && pm_str_eqb a' b'
  | _, _ => false
  end.

(* tolower() in the "C" locale; String::ToLower on ASCII *)
Definition pm_lower_c (c : Z) : Z := if (65 <=? c) && (c <=? 90) then c + 32 else c.
Definition pm_lower (s : pm_str) : pm_str := map pm_lower_c s.

(* ---------------------------------------------------------------- Utility::Match *)
Inductive pm_tok := PmStar | PmAny | PmLit (c : Z).

(* '*' = 42, '?' = 63, '\' = 92; a backslash quotes a following '*' or '?' and is literal otherwise *)
Fixpoint pm_tokens (p : pm_str) : list pm_tok :=
  match p with
  | [] => []
  | c :: r =>
      if c =? 42 then PmStar :: pm_tokens r
      else if c =? 63 then PmAny :: pm_tokens r
      else if c =? 92 then
        match r with
        | e :: r' => if (e =? 42) || (e =? 63) then PmLit e :: pm_tokens r' else PmLit c :: pm_tokens r
        | [] => [PmLit c]
        end
      else PmLit c :: pm_tokens r
  end.

Fixpoint pm_match_toks (ts : list pm_tok) (s : pm_str) {struct ts} : bool :=
  match ts with
  | [] => match s with [] => true | _ :: _ => false end
  | PmStar :: ts' =>
      (fix pm_star (s : pm_str) : bool :=
         pm_match_toks ts' s || match s with [] => false | _ :: s' => pm_star s' end) s
  | PmAny :: ts' => match s with [] => false | _ :: s' => pm_match_toks ts' s' end
  | PmLit c :: ts' =>
      match s with
      | [] => false
      | d :: s' => (pm_lower_c d =? pm_lower_c c) && pm_match_toks ts' s'
      end
  end.

Definition pm_match (pat text : pm_str) : bool := pm_match_toks (pm_tokens pat) text.

(* ---------------------------------------------------------------- objects and filters *)
Inductive pm_type := PmHost | PmService.
Definition pm_type_eqb (a b : pm_type) : bool :=
  match a, b with PmHost, PmHost | PmService, PmService => true | _, _ => false end.

Inductive pm_nav := PmNCheckCommand | PmNCheckPeriod | PmNEventCommand | PmNCommandEndpoint.

(* po_name: full object name (what ConfigObject::GetObject is keyed by, "host!service" for services);
   po_short: the `name` attribute; po_host/po_hvars: name and vars of the host a service belongs to (of the object
   itself for hosts); po_cc/po_cp/po_ec/po_ce: the objects its navigation fields check_command / check_period /
   event_command / command_endpoint refer to (None = null reference) *)
Record pm_obj := {
  po_type : pm_type; po_name : pm_str; po_short : pm_str; po_host : pm_str;
  po_vars : list (pm_str * pm_str); po_hvars : list (pm_str * pm_str);
  po_cc : option pm_str; po_cp : option pm_str; po_ec : option pm_str; po_ce : option pm_str
}.

(* the variables of a filter frame's namespace that the fragment can read *)
Inductive pm_scope := PmScHost | PmScService | PmScObj | PmScNav (k : pm_nav).
Definition pm_nav_eqb (a b : pm_nav) : bool :=
  match a, b with
  | PmNCheckCommand, PmNCheckCommand | PmNCheckPeriod, PmNCheckPeriod
  | PmNEventCommand, PmNEventCommand | PmNCommandEndpoint, PmNCommandEndpoint => true
  | _, _ => false
  end.
Definition pm_scope_eqb (a b : pm_scope) : bool :=
  match a, b with
  | PmScHost, PmScHost | PmScService, PmScService | PmScObj, PmScObj => true
  | PmScNav x, PmScNav y => pm_nav_eqb x y
  | _, _ => false
  end.

(* the boolean fragment of the DSL the tie generates:  sc.name == "n",  sc.vars.k == "v",  sc.name == x
   (x a filter variable), &&, ||, !, true, false;  sc a namespace variable: host, service, obj or a joined object *)
Inductive pm_filter :=
| PmFTrue | PmFFalse
| PmFName (sc : pm_scope) (n : pm_str)
| PmFVar (sc : pm_scope) (k v : pm_str)
| PmFNameVar (sc : pm_scope) (x : pm_str)
| PmFAnd (a b : pm_filter)
| PmFOr (a b : pm_filter)
| PmFNot (a : pm_filter).

(* evaluation outcome: true / false / a ScriptError was thrown *)
Inductive pm_tri := PmT | PmF | PmE.
Definition pm_tri_of_bool (b : bool) : pm_tri := if b then PmT else PmF.
Definition pm_is_t (t : pm_tri) : bool := match t with PmT => true | _ => false end.

Fixpoint pm_assoc (k : pm_str) (l : list (pm_str * pm_str)) : option pm_str :=
  match l with
  | [] => None
  | (k', v) :: r => if pm_str_eqb k k' then Some v else pm_assoc k r
  end.

(* ---------------------------------------------------------------- the namespace of a filter frame *)
(* a bound value: None = null (`x.name`, `x.vars.k` are Empty, every comparison false); Some (name, vars) with
   vars = None for an object type without a `vars` field (Endpoint: reading it throws) *)
Definition pm_val := option (pm_str * option (list (pm_str * pm_str))).
(* latest binding first; a variable that was never Set is undefined (reading it throws) *)
Definition pm_ns := list (pm_scope * pm_val).
Fixpoint pm_ns_get (ns : pm_ns) (v : pm_scope) : option pm_val :=
  match ns with
  | [] => None
  | (v', x) :: r => if pm_scope_eqb v v' then Some x else pm_ns_get r v
  end.
Definition pm_ns_set (ns : pm_ns) (v : pm_scope) (x : pm_val) : pm_ns := (v, x) :: ns.

(* which fields of Host / Service carry FANavigation, in field order (Facts_c18.f_pm_nav_host/_service):
   Checkable: check_command, check_period, event_command, command_endpoint; Service adds host *)
Definition pm_checkable_navs : list pm_scope :=
  [PmScNav PmNCheckCommand; PmScNav PmNCheckPeriod; PmScNav PmNEventCommand; PmScNav PmNCommandEndpoint].
Definition pm_nav_vars (t : pm_type) : list pm_scope :=
  match t with PmHost => pm_checkable_navs | PmService => pm_checkable_navs ++ [PmScHost] end.

(* target->NavigateField(fid) *)
Definition pm_nav_val (o : pm_obj) (v : pm_scope) : pm_val :=
  match v with
  | PmScNav PmNCheckCommand => option_map (fun n => (n, Some [])) (po_cc o)
  | PmScNav PmNCheckPeriod => option_map (fun n => (n, Some [])) (po_cp o)
  | PmScNav PmNEventCommand => option_map (fun n => (n, Some [])) (po_ec o)
  | PmScNav PmNCommandEndpoint => option_map (fun n => (n, None)) (po_ce o)
  | PmScHost => Some (po_host o, Some (po_hvars o))       (* Service::host; a service always has its host *)
  | _ => None
  end.

Definition pm_type_var (t : pm_type) : pm_scope := match t with PmHost => PmScHost | PmService => PmScService end.

(* the binding step of FilterUtility::EvaluateFilter: frameNS->Set("obj", target); Set(<type name>, target);
   then for EVERY navigation field of the target's type Set(<navigation name>, joined object OR null) - there is no
   early `continue` for a null reference (Facts_c18.f_pm_bind_guard).  Nothing is ever removed from [ns]. *)
Definition pm_bind (ns : pm_ns) (o : pm_obj) : pm_ns :=
  let self : pm_val := Some (po_short o, Some (po_vars o)) in
  fold_left (fun ns v => pm_ns_set ns v (pm_nav_val o v)) (pm_nav_vars (po_type o))
            (pm_ns_set (pm_ns_set ns PmScObj self) (pm_type_var (po_type o)) self).

(* filter->Evaluate(frame): reads only the namespace [ns] (and, for the user's filter, filter_vars [fv]) *)
Fixpoint pm_eval (fv : list (pm_str * pm_str)) (ns : pm_ns) (f : pm_filter) : pm_tri :=
  match f with
  | PmFTrue => PmT
  | PmFFalse => PmF
  | PmFName sc n =>
      match pm_ns_get ns sc with
      | None => PmE                                  (* undefined script variable *)
      | Some None => PmF
      | Some (Some (nm, _)) => pm_tri_of_bool (pm_str_eqb nm n)
      end
  | PmFVar sc k v =>
      match pm_ns_get ns sc with
      | None => PmE
      | Some None => PmF
      | Some (Some (_, None)) => PmE                 (* no such field *)
      | Some (Some (_, Some vars)) =>
          match pm_assoc k vars with
          | None => PmF
          | Some v' => pm_tri_of_bool (pm_str_eqb v' v)
          end
      end
  | PmFNameVar sc x =>
      match pm_ns_get ns sc with
      | None => PmE
      | Some val =>
          match pm_assoc x fv with
          | None => PmE                              (* undefined script variable *)
          | Some n => match val with None => PmF | Some (nm, _) => pm_tri_of_bool (pm_str_eqb nm n) end
          end
      end
  | PmFAnd a b =>
      match pm_eval fv ns a with PmE => PmE | PmF => PmF | PmT => pm_eval fv ns b end
  | PmFOr a b =>
      match pm_eval fv ns a with PmE => PmE | PmT => PmT | PmF => pm_eval fv ns b end
  | PmFNot a =>
      match pm_eval fv ns a with PmE => PmE | PmT => PmF | PmF => PmT end
  end.

(* FilterUtility::EvaluateFilter(frame, filter, target): a null filter returns true before anything is bound;
   otherwise bind, then evaluate.  Result: the frame's namespace afterwards and the outcome. *)
Definition pm_evalf (fv : list (pm_str * pm_str)) (pf : option pm_filter) (ns : pm_ns) (o : pm_obj) : pm_ns * pm_tri :=
  match pf with
  | None => (ns, PmT)
  | Some f => let ns' := pm_bind ns o in (ns', pm_eval fv ns' f)
  end.

(* the evaluation the statement means: the filter on the object alone (a fresh namespace) *)
Definition pm_eval_opt (pf : option pm_filter) (o : pm_obj) : pm_tri := snd (pm_evalf [] pf [] o).

(* ---------------------------------------------------------------- HasPermission / CheckPermission *)
Record pm_entry := { pe_perm : pm_str; pe_filter : option pm_filter }.

(* the loop over user->GetPermissions(): foundPermission and the growing *permissionFilter.
   A matching entry WITHOUT filter sets found but leaves the accumulated filter untouched. *)
Fixpoint pm_hp_loop (u : list pm_entry) (req : pm_str) (found : bool) (pf : option pm_filter)
  : bool * option pm_filter :=
  match u with
  | [] => (found, pf)
  | e :: r =>
      if pm_match (pm_lower (pe_perm e)) req then
        pm_hp_loop r req true
          (match pe_filter e with
           | None => pf
           | Some f => match pf with None => Some f | Some g => Some (PmFOr g f) end
           end)
      else pm_hp_loop r req found pf
  end.

Definition pm_has_permission (u : list pm_entry) (perm : pm_str) : bool * option pm_filter :=
  match perm with
  | [] => (true, None)
  | _ :: _ => pm_hp_loop u (pm_lower perm) false None
  end.

(* None = ScriptError "Missing permission"; Some pf = granted with the combined filter pf *)
Definition pm_check_permission (u : list pm_entry) (perm : pm_str) : option (option pm_filter) :=
  let '(found, pf) := pm_has_permission u perm in if found then Some pf else None.

(* ---------------------------------------------------------------- GetFilterTargets *)
Inductive pm_qtype := PmQHost | PmQService | PmQOtherValid | PmQInvalid.

Record pm_query := {
  pq_host : option pm_str;              (* "host" *)
  pq_service : option pm_str;           (* "service" *)
  pq_hosts : option (list pm_str);      (* "hosts" *)
  pq_services : option (list pm_str);   (* "services" *)
  pq_type : option pm_qtype;            (* "type" *)
  pq_filter : option pm_filter;         (* "filter" *)
  pq_fvars : list (pm_str * pm_str)     (* "filter_vars" *)
}.

Inductive pm_err :=
| PmErrPerm        (* ScriptError: Missing permission *)
| PmErrNoObj       (* invalid_argument: Object does not exist. *)
| PmErrDenied      (* ScriptError: Access denied to object *)
| PmErrNoType      (* invalid_argument: Type must be specified when using a filter. *)
| PmErrBadType     (* invalid_argument: Invalid type specified. *)
| PmErrTypeNotInQd (* invalid_argument: Invalid type specified for this query. *)
| PmErrScript.     (* ScriptError thrown by a filter *)

Inductive pm_result := PmOk (l : list pm_obj) | PmErr (e : pm_err).

Definition pm_lookup (inv : list pm_obj) (t : pm_type) (n : pm_str) : option pm_obj :=
  find (fun o => pm_type_eqb (po_type o) t && pm_str_eqb (po_name o) n) inv.

Definition pm_q_single (q : pm_query) (t : pm_type) : option pm_str :=
  match t with PmHost => pq_host q | PmService => pq_service q end.
Definition pm_q_plural (q : pm_query) (t : pm_type) : option (list pm_str) :=
  match t with PmHost => pq_hosts q | PmService => pq_services q end.

(* GetTargetByName + EvaluateFilter(permissionFrame, permissionFilter, target) + throw "Access denied".
   [ns] = the permission frame's namespace before this evaluation; returned with the target on success. *)
Definition pm_name_one (pf : option pm_filter) (inv : list pm_obj) (t : pm_type) (n : pm_str)
           (ns : pm_ns) : pm_err + (pm_obj * pm_ns) :=
  match pm_lookup inv t n with
  | None => inl PmErrNoObj
  | Some o =>
      match pm_evalf [] pf ns o with
      | (ns', PmT) => inr (o, ns')
      | (_, PmF) => inl PmErrDenied
      | (_, PmE) => inl PmErrScript
      end
  end.

Fixpoint pm_name_list (pf : option pm_filter) (inv : list pm_obj) (t : pm_type) (ns : list pm_str)
         (acc : list pm_obj) (fr : pm_ns) : pm_err + list pm_obj :=
  match ns with
  | [] => inr acc
  | n :: r =>
      match pm_name_one pf inv t n fr with
      | inl e => inl e
      | inr (o, fr') => pm_name_list pf inv t r (acc ++ [o]) fr'
      end
  end.

(* one iteration of `for (const String& type : qd.Types)`: it starts with
   `permissionFrame.Self = new Namespace()` (fix 053695b), i.e. with an empty namespace *)
Definition pm_names_type (pf : option pm_filter) (inv : list pm_obj) (q : pm_query) (t : pm_type)
           (acc : list pm_obj) : pm_err + list pm_obj :=
  match (match pm_q_single q t with
         | None => inr (acc, [])
         | Some n => match pm_name_one pf inv t n [] with inl e => inl e | inr (o, fr) => inr (acc ++ [o], fr) end
         end) with
  | inl e => inl e
  | inr (acc1, fr1) =>
      match pm_q_plural q t with
      | None => inr acc1
      | Some ns => pm_name_list pf inv t ns acc1 fr1
      end
  end.

Fixpoint pm_by_names (pf : option pm_filter) (inv : list pm_obj) (q : pm_query) (tys : list pm_type)
         (acc : list pm_obj) : pm_err + list pm_obj :=
  match tys with
  | [] => inr acc
  | t :: r =>
      match pm_names_type pf inv q t acc with
      | inl e => inl e
      | inr acc' => pm_by_names pf inv q r acc'
      end
  end.

(* does the by-name part call GetTargetByName at all *)
Definition pm_names_consult (q : pm_query) (tys : list pm_type) : bool :=
  existsb (fun t => match pm_q_single q t with Some _ => true | None => false end
                    || match pm_q_plural q t with Some (_ :: _) => true | _ => false end) tys.

(* ApplyRule::GetComparedName / IsNameIndexer / GetConstString with `constants` = filter_vars *)
Definition pm_compared_name (sc : pm_scope) (f : pm_filter) (fv : list (pm_str * pm_str)) : option pm_str :=
  match f with
  | PmFName sc' n => if pm_scope_eqb sc' sc then Some n else None
  | PmFNameVar sc' x => if pm_scope_eqb sc' sc then pm_assoc x fv else None
  | _ => None
  end.

Fixpoint pm_target_hosts (f : pm_filter) (fv : list (pm_str * pm_str)) : option (list pm_str) :=
  match f with
  | PmFOr a b =>
      match pm_target_hosts a fv with
      | None => None
      | Some x => match pm_target_hosts b fv with None => None | Some y => Some (x ++ y) end
      end
  | _ => match pm_compared_name PmScHost f fv with Some n => Some [n] | None => None end
  end.

Definition pm_target_service (f : pm_filter) (fv : list (pm_str * pm_str)) : option (pm_str * pm_str) :=
  match f with
  | PmFAnd op1 op2 =>
      match pm_compared_name PmScHost op1 fv with
      | Some h => match pm_compared_name PmScService op2 fv with Some s => Some (h, s) | None => None end
      | None =>
          match pm_compared_name PmScHost op2 fv with
          | Some h => match pm_compared_name PmScService op1 fv with Some s => Some (h, s) | None => None end
          | None => None
          end
      end
  | _ => None
  end.

Fixpoint pm_target_services (f : pm_filter) (fv : list (pm_str * pm_str)) : option (list pm_str) :=
  match f with
  | PmFOr a b =>
      match pm_target_services a fv with
      | None => None
      | Some x => match pm_target_services b fv with None => None | Some y => Some (x ++ y) end
      end
  | _ => match pm_target_service f fv with Some (h, s) => Some [h ++ [33] ++ s] | None => None end
  end.

Definition pm_targets (t : pm_type) (f : pm_filter) (fv : list (pm_str * pm_str)) : option (list pm_str) :=
  match t with PmHost => pm_target_hosts f fv | PmService => pm_target_services f fv end.

(* `if (targeted)`: names -> objects (missing ones are skipped), then only the PERMISSION filter, all in the one
   permission namespace [ns] *)
Fixpoint pm_fast_collect (pf : option pm_filter) (ns : pm_ns) (inv : list pm_obj) (t : pm_type)
         (names : list pm_str) : pm_err + list pm_obj :=
  match names with
  | [] => inr []
  | n :: r =>
      match pm_lookup inv t n with
      | None => pm_fast_collect pf ns inv t r
      | Some o =>
          match pm_evalf [] pf ns o with
          | (_, PmE) => inl PmErrScript
          | (ns', PmF) => pm_fast_collect pf ns' inv t r
          | (ns', PmT) => match pm_fast_collect pf ns' inv t r with inl e => inl e | inr l => inr (o :: l) end
          end
      end
  end.

(* FindTargets + FilteredAddTarget: permission filter in the permission namespace [pns], then the user filter in
   the namespace [uns] of the user's own frame (filter_vars [fv] live there too) *)
Fixpoint pm_scan (pf : option pm_filter) (pns : pm_ns) (uf : option pm_filter) (fv : list (pm_str * pm_str))
         (uns : pm_ns) (t : pm_type) (inv : list pm_obj) : pm_err + list pm_obj :=
  match inv with
  | [] => inr []
  | o :: r =>
      if pm_type_eqb (po_type o) t then
        match pm_evalf [] pf pns o with
        | (_, PmE) => inl PmErrScript
        | (pns', PmF) => pm_scan pf pns' uf fv uns t r
        | (pns', PmT) =>
            match pm_evalf fv uf uns o with
            | (_, PmE) => inl PmErrScript
            | (uns', PmF) => pm_scan pf pns' uf fv uns' t r
            | (uns', PmT) => match pm_scan pf pns' uf fv uns' t r with inl e => inl e | inr l => inr (o :: l) end
            end
        end
      else pm_scan pf pns uf fv uns t r
  end.

(* fix 06579d2: filter_vars named obj / host / service are overwritten by EvaluateFilter with the target, so
   they are no constants and the fast path is skipped (variableName is empty for the config-object handlers) *)
Definition pm_shadowed (fv : list (pm_str * pm_str)) : bool :=
  existsb (fun kv => pm_str_eqb (fst kv) [111;98;106] || pm_str_eqb (fst kv) [104;111;115;116]
                     || pm_str_eqb (fst kv) [115;101;114;118;105;99;101]) fv.

(* the filter phase; it starts with `permissionFrame.Self = new Namespace()` (fix 17a75cd) and a new user frame *)
Definition pm_by_filter (fast : bool) (pf : option pm_filter) (inv : list pm_obj) (t : pm_type)
           (uf : option pm_filter) (fv : list (pm_str * pm_str)) : pm_err + list pm_obj :=
  match uf with
  | None => pm_scan pf [] None fv [] t inv
  | Some f =>
      match (if fast && negb (pm_shadowed fv) then pm_targets t f fv else None) with
      | Some ns => pm_fast_collect pf [] inv t ns
      | None => pm_scan pf [] (Some f) fv [] t inv
      end
  end.

Definition pm_qtype_in (tys : list pm_type) (qt : pm_qtype) : option pm_type :=
  match qt with
  | PmQHost => if existsb (pm_type_eqb PmHost) tys then Some PmHost else None
  | PmQService => if existsb (pm_type_eqb PmService) tys then Some PmService else None
  | _ => None
  end.

Definition pm_is_nil {A} (l : list A) : bool := match l with [] => true | _ => false end.
Definition pm_is_some {A} (o : option A) : bool := match o with Some _ => true | None => false end.

(* fast = the provider is the ConfigObjectTargetProvider (fast path available).
   Result: (was any object consulted, result) *)
Definition pm_filter_targets (fast : bool) (u : list pm_entry) (perm : pm_str) (tys : list pm_type)
           (q : pm_query) (inv : list pm_obj) : bool * pm_result :=
  match pm_check_permission u perm with
  | None => (false, PmErr PmErrPerm)
  | Some pf =>
      let c1 := pm_names_consult q tys in
      match pm_by_names pf inv q tys [] with
      | inl e => (c1, PmErr e)
      | inr res =>
          if pm_is_some (pq_filter q) || pm_is_nil res then
            match pq_type q with
            | None => (c1, PmErr PmErrNoType)
            | Some PmQInvalid => (c1, PmErr PmErrBadType)
            | Some qt =>
                match pm_qtype_in tys qt with
                | None => (c1, PmErr PmErrTypeNotInQd)
                | Some t =>
                    (true, match pm_by_filter fast pf inv t (pq_filter q) (pq_fvars q) with
                           | inl e => PmErr e
                           | inr l => PmOk (res ++ l)
                           end)
                end
            end
          else (c1, PmOk res)
      end
  end.

(* ---------------------------------------------------------------- objectqueryhandler.cpp joins *)
(* "objects/query/" *)
Definition pm_query_prefix : pm_str := [111;98;106;101;99;116;115;47;113;117;101;114;121;47].
Definition pm_type_name (t : pm_type) : pm_str :=
  match t with PmHost => [72;111;115;116] | PmService => [83;101;114;118;105;99;101] end.
Definition pm_query_perm (t : pm_type) : pm_str := pm_query_prefix ++ pm_type_name t.

(* a joined object is serialised iff HasPermission("objects/query/<its type>") and its filter is true
   (a ScriptError while evaluating counts as "no"); a fresh frame per joined object *)
Definition pm_join_visible (u : list pm_entry) (o : pm_obj) : bool :=
  let '(granted, pf) := pm_has_permission u (pm_query_perm (po_type o)) in
  granted && pm_is_t (pm_eval_opt pf o).

(* ---------------------------------------------------------------- the statement's reading of "permitted" *)
(* some entry matches the required permission and, when that entry carries a filter, the filter is true *)
Definition pm_entry_allows (perm : pm_str) (o : pm_obj) (e : pm_entry) : bool :=
  pm_match (pm_lower (pe_perm e)) (pm_lower perm)
  && match pe_filter e with None => true | Some f => pm_is_t (pm_eval [] (pm_bind [] o) f) end.
Definition pm_spec_allow (u : list pm_entry) (perm : pm_str) (o : pm_obj) : bool :=
  existsb (pm_entry_allows perm o) u.
Definition pm_spec_has (u : list pm_entry) (perm : pm_str) : bool :=
  match perm with
  | [] => true
  | _ => existsb (fun e => pm_match (pm_lower (pe_perm e)) (pm_lower perm)) u
  end.
