(* C18 - check-then-act: whatever other writers do between authorisation and action (delete, re-create under the same name,
   hold name locks), a handler that acts on the pointers GetFilterTargets returned acts only on objects - IDENTITIES - for
   which the permission filter was true; a handler that looks the name up again after taking the lock does not. *)
From Icv Require Import Base.Tac Perm.PmModel Perm.PmObs Perm.PmConc.
Local Open Scope Z_scope.

Section WithVerdict.
Variable allow : pm_obj -> bool.
Variable cfg : pm_ccfg.

Definition pm_cinv (s : pm_cstate) : Prop :=
  (forall y, In y (pcs_auth s) -> pm_allowed allow (pcs_w s) y = true) /\
  (forall y, In y (pcs_acts s) -> In y (pcs_auth s)) /\
  match pcs_pc s with
  | PhStart => pcs_acts s = []
  | PhLoop todo => incl todo (pcs_auth s)
  | PhLocked x todo => In x (pcs_auth s) /\ incl todo (pcs_auth s)
  end.

Lemma pm_cinv_init w : pm_cinv (pm_cinit w).
Proof. repeat split; cbn; intros; contradiction. Qed.

(* the heap only grows: an identity keeps its object *)
Lemma pm_allowed_grow h reg1 l1 reg2 l2 o y :
  pm_allowed allow {| pw_heap := h; pw_reg := reg1; pw_envlocks := l1 |} y = true ->
  pm_allowed allow {| pw_heap := h ++ [o]; pw_reg := reg2; pw_envlocks := l2 |} y = true.
Proof.
  unfold pm_allowed, pm_heap_get. cbn [pw_heap]. destruct (nth_error h y) as [o0|] eqn:E; [|discriminate].
  rewrite nth_error_app1; [rewrite E; auto|]. apply nth_error_Some. congruence.
Qed.

Lemma pm_allowed_same_heap h reg1 l1 reg2 l2 y :
  pm_allowed allow {| pw_heap := h; pw_reg := reg1; pw_envlocks := l1 |} y =
  pm_allowed allow {| pw_heap := h; pw_reg := reg2; pw_envlocks := l2 |} y.
Proof. reflexivity. Qed.

Lemma pm_cinv_set_w s w' :
  (forall y, pm_allowed allow (pcs_w s) y = true -> pm_allowed allow w' y = true) ->
  pm_cinv s -> pm_cinv (pm_set_w s w').
Proof. intros Hg (A & B & C). unfold pm_cinv, pm_set_w; cbn. repeat split; auto. Qed.

Lemma pm_cstep_inv l s s' : pc_reresolve cfg = false -> pm_cinv s -> pm_cstep allow cfg l s = Some s' -> pm_cinv s'.
Proof.
  intros Hr Inv. pose proof Inv as (Ha & Hb & Hc). destruct s as [w pc auth acts gone]. cbn [pcs_w pcs_pc pcs_auth pcs_acts pcs_gone] in *.
  destruct l as [A| | |k|k|k|k o]; cbn [pm_cstep pcs_w pcs_pc pcs_auth pcs_acts pcs_gone].
  - (* authorise *)
    destruct pc; try discriminate. destruct (pm_auth_ok allow w A) eqn:Ok; [|discriminate].
    intros H; inversion H; subst. unfold pm_cinv; cbn. repeat split.
    + intros y Hy. unfold pm_auth_ok in Ok. eapply forallb_forall in Ok; [|exact Hy]. apply andb_prop in Ok. apply Ok.
    + intros y Hy. destruct Hy.
    + apply incl_refl.
  - (* lock *)
    destruct pc as [|[|x r]|]; try discriminate. destruct (pc_lock cfg); [|discriminate].
    destruct (pm_name_of w x); [|discriminate]. destruct (existsb _ _); [discriminate|].
    intros H; inversion H; subst. unfold pm_cinv; cbn. repeat split; auto.
    + apply Hc. left; reflexivity.
    + intros y Hy. apply Hc. right; exact Hy.
  - (* act *)
    assert (forall x r, In x auth -> incl r auth ->
              pm_cinv (pm_do_act cfg {| pcs_w := w; pcs_pc := pc; pcs_auth := auth; pcs_acts := acts; pcs_gone := gone |} x r)) as Hact.
    { intros x r Hx Hrr. unfold pm_do_act, pm_act_target. rewrite Hr. cbn. unfold pm_cinv; cbn. repeat split; auto.
      intros y [<-|Hy]; auto. }
    destruct pc as [|[|x r]|x r]; try discriminate.
    + destruct (pc_lock cfg); [discriminate|]. intros H; inversion H; subst. apply Hact; [apply Hc; left; reflexivity|].
      intros y Hy. apply Hc. right; exact Hy.
    + intros H; inversion H; subst. destruct Hc. apply Hact; assumption.
  - (* another writer takes a name lock *)
    assert (pm_cinv (pm_set_w {| pcs_w := w; pcs_pc := pc; pcs_auth := auth; pcs_acts := acts; pcs_gone := gone |}
                             {| pw_heap := pw_heap w; pw_reg := pw_reg w; pw_envlocks := k :: pw_envlocks w |})) as Hs.
    { apply pm_cinv_set_w; [|exact Inv]. intros y. destruct w; exact (fun H => H). }
    destruct pc as [| |x r]; try (intros H; inversion H; subst; exact Hs).
    destruct (match pm_name_of w x with Some k' => pm_key_eqb k' k | None => false end); [discriminate|].
    intros H; inversion H; subst; exact Hs.
  - intros H; inversion H; subst. apply pm_cinv_set_w; [|exact Inv]. intros y. destruct w; exact (fun H => H).
  - intros H; inversion H; subst. apply pm_cinv_set_w; [|exact Inv]. intros y. destruct w; exact (fun H => H).
  - destruct (pm_reg_find k (pw_reg w)); [discriminate|]. destruct (pm_key_eqb (pm_key_of o) k); [|discriminate].
    intros H; inversion H; subst. apply pm_cinv_set_w; [|exact Inv]. intros y. destruct w. cbn. apply pm_allowed_grow.
Qed.

Lemma pm_crun_inv : pc_reresolve cfg = false -> forall ls s s', pm_cinv s -> pm_crun allow cfg ls s = Some s' -> pm_cinv s'.
Proof.
  intros Hr. induction ls as [|l r IH]; cbn [pm_crun]; intros s s' Inv H.
  - inversion H; subst; exact Inv.
  - destruct (pm_cstep allow cfg l s) as [s1|] eqn:E; [|discriminate]. eapply IH; [|exact H]. eapply pm_cstep_inv; eassumption.
Qed.

(* every object acted on is one of the authorised IDENTITIES, and the permission verdict on that very object is true -
   for every schedule of the handler's steps and the other writers' steps *)
Theorem pm_act_on_authorised_object :
  pc_reresolve cfg = false ->
  forall w ls s, pm_crun allow cfg ls (pm_cinit w) = Some s ->
  forall y, In y (pcs_acts s) ->
    In y (pcs_auth s) /\ exists o, pm_heap_get (pcs_w s) y = Some o /\ allow o = true.
Proof.
  intros Hr w ls s H y Hy. destruct (pm_crun_inv Hr ls _ _ (pm_cinv_init w) H) as (A & B & _).
  split; [apply B; exact Hy|]. specialize (A y (B y Hy)). unfold pm_allowed in A.
  destruct (pm_heap_get (pcs_w s) y) as [o|]; [|discriminate]. exists o. split; [reflexivity|exact A].
Qed.

(* the oracle of the directed-schedule op accepts every run of the model *)
Theorem pm_oracle_race_accepts_model :
  pc_reresolve cfg = false ->
  forall w ls s x x', pm_crun allow cfg ls (pm_cinit w) = Some s ->
  pm_oracle_race (pm_allowed allow (pcs_w s) x) (pm_allowed allow (pcs_w s) x')
                 (existsb (Nat.eqb x) (pcs_acts s)) (existsb (Nat.eqb x') (pcs_acts s)) = true.
Proof.
  intros Hr w ls s x x' H. destruct (pm_crun_inv Hr ls _ _ (pm_cinv_init w) H) as (A & B & _).
  assert (forall z, existsb (Nat.eqb z) (pcs_acts s) = true -> pm_allowed allow (pcs_w s) z = true) as Hz.
  { intros z Hz. apply existsb_exists in Hz. destruct Hz as (y & Hy & E). apply Nat.eqb_eq in E. subst y. apply A, B, Hy. }
  unfold pm_oracle_race. apply andb_true_intro. split.
  - destruct (existsb (Nat.eqb x) (pcs_acts s)) eqn:E; [rewrite (Hz x E)|]; reflexivity.
  - destruct (existsb (Nat.eqb x') (pcs_acts s)) eqn:E; [rewrite (Hz x' E)|]; reflexivity.
Qed.

End WithVerdict.

(* ---- refutation of "look the name up again after the lock": host "a" of team b, a user who may modify hosts of team b;
   another writer holds the name lock, deletes the host and creates host "a" of team r; the request - authorised for the
   first object - then changes the second one, for which the filter is false *)
Definition pm_rx_name : pm_str := [97].
Definition pm_rx_host (team : Z) : pm_obj :=
  {| po_type := PmHost; po_name := pm_rx_name; po_short := pm_rx_name; po_host := pm_rx_name; po_vars := [([116], [team])]; po_hvars := [([116], [team])];
     po_cc := Some [99]; po_cp := None; po_ec := None; po_ce := None |}.
Definition pm_rx_perm : pm_str := [111;98;106;101;99;116;115;47;109;111;100;105;102;121;47;72;111;115;116].
Definition pm_rx_user : list pm_entry := [ {| pe_perm := pm_rx_perm; pe_filter := Some (PmFVar PmScHost [116] [98]) |} ].
Definition pm_rx_allow : pm_obj -> bool := pm_spec_allow [] pm_rx_user pm_rx_perm.
Definition pm_rx_schedule : list pm_clabel := pm_race_schedule true (PmHost, pm_rx_name) [0%nat] (pm_rx_host 114).

Lemma pm_reresolve_refuted :
  exists s, pm_crun pm_rx_allow {| pc_lock := true; pc_reresolve := true |} pm_rx_schedule (pm_cinit (pm_world_of [pm_rx_host 98])) = Some s /\
    pcs_auth s = [0%nat] /\ pcs_acts s = [1%nat] /\ pm_allowed pm_rx_allow (pcs_w s) 1%nat = false.
Proof. eexists. vm_compute. repeat split. Qed.

(* the same schedule with the handler as it is: the authorised object is changed (it is no longer registered), the new one is not *)
Lemma pm_race_as_coded :
  exists s, pm_crun pm_rx_allow {| pc_lock := true; pc_reresolve := false |} pm_rx_schedule (pm_cinit (pm_world_of [pm_rx_host 98])) = Some s /\
    pcs_auth s = [0%nat] /\ pcs_acts s = [0%nat] /\ pm_registered (pcs_w s) 0%nat = false /\ pm_allowed pm_rx_allow (pcs_w s) 0%nat = true.
Proof. eexists. vm_compute. repeat split. Qed.
