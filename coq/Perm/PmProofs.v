(* C18 - proofs over the model of PmModel.v *)
From Icv Require Import Base.Tac Perm.PmModel.
Local Open Scope Z_scope.

(* ================================================================ the glob matcher *)
(* declarative meaning of a tokenised pattern: '*' stands for any string, '?' for any one character,
   a literal for itself up to ASCII case *)
Inductive pm_glob : list pm_tok -> pm_str -> Prop :=
| pm_glob_nil : pm_glob [] []
| pm_glob_star : forall ts pre s, pm_glob ts s -> pm_glob (PmStar :: ts) (pre ++ s)
| pm_glob_any : forall ts c s, pm_glob ts s -> pm_glob (PmAny :: ts) (c :: s)
| pm_glob_lit : forall ts c d s, pm_lower_c d = pm_lower_c c -> pm_glob ts s -> pm_glob (PmLit c :: ts) (d :: s).

Lemma pm_star_unfold ts s :
  pm_match_toks (PmStar :: ts) s =
  pm_match_toks ts s || match s with [] => false | _ :: s' => pm_match_toks (PmStar :: ts) s' end.
Proof. destruct s; reflexivity. Qed.

Lemma pm_match_toks_sound : forall ts s, pm_match_toks ts s = true -> pm_glob ts s.
Proof.
  induction ts as [|t ts IH]; intros s H.
  - destruct s; [constructor|discriminate].
  - destruct t.
    + induction s as [|c s IHs].
      * rewrite pm_star_unfold in H. rewrite orb_false_r in H.
        apply (pm_glob_star ts [] []). auto.
      * rewrite pm_star_unfold in H. apply orb_prop in H. destruct H as [H|H].
        -- apply (pm_glob_star ts [] (c :: s)). auto.
        -- specialize (IHs H). inversion IHs; subst.
           apply (pm_glob_star ts (c :: pre) s0). assumption.
    + destruct s as [|c s]; [discriminate|]. cbn in H. constructor. auto.
    + destruct s as [|d s]; [discriminate|]. cbn [pm_match_toks] in H.
      apply andb_prop in H. destruct H as [H1 H2]. constructor; [apply Z.eqb_eq; assumption|auto].
Qed.

Lemma pm_match_toks_complete : forall ts s, pm_glob ts s -> pm_match_toks ts s = true.
Proof.
  intros ts s H. induction H.
  - reflexivity.
  - induction pre as [|c pre IHp].
    + cbn [app]. rewrite pm_star_unfold, IHpm_glob. reflexivity.
    + cbn [app]. rewrite pm_star_unfold. rewrite IHp. apply orb_true_r.
  - cbn. assumption.
  - cbn [pm_match_toks]. rewrite IHpm_glob, andb_true_r. apply Z.eqb_eq. assumption.
Qed.

Theorem pm_match_correct pat text : pm_match pat text = true <-> pm_glob (pm_tokens pat) text.
Proof. split; [apply pm_match_toks_sound|apply pm_match_toks_complete]. Qed.

Lemma pm_lower_c_idem c : pm_lower_c (pm_lower_c c) = pm_lower_c c.
Proof.
  unfold pm_lower_c. destruct ((65 <=? c) && (c <=? 90)) eqn:E; [|rewrite E; reflexivity].
  destruct ((65 <=? c + 32) && (c + 32 <=? 90)) eqn:E2; [lia|reflexivity].
Qed.

(* matching does not depend on the case of the text (what HasPermission's lower-casing relies on) *)
Lemma pm_glob_lower_text ts s : pm_glob ts s <-> pm_glob ts (pm_lower s).
Proof.
  split.
  - intros H. induction H; cbn.
    + constructor.
    + unfold pm_lower. rewrite map_app. constructor. assumption.
    + constructor. assumption.
    + constructor; [rewrite pm_lower_c_idem; assumption|assumption].
  - intros H. remember (pm_lower s) as ls eqn:E. revert s E. induction H; intros s0 E.
    + destruct s0; [constructor|discriminate].
    + unfold pm_lower in E. symmetry in E. apply map_eq_app in E. destruct E as (p1 & p2 & -> & E1 & E2).
      constructor. apply IHpm_glob. symmetry. exact E2.
    + destruct s0 as [|d s0]; [discriminate|]. cbn in E. inversion E; subst. constructor. apply IHpm_glob. reflexivity.
    + destruct s0 as [|d' s0]; [discriminate|]. cbn in E. inversion E; subst.
      constructor; [rewrite <- H; symmetry; apply pm_lower_c_idem|apply IHpm_glob; reflexivity].
Qed.

Theorem pm_match_case_insensitive pat text : pm_match pat (pm_lower text) = pm_match pat text.
Proof.
  destruct (pm_match pat text) eqn:E.
  - apply pm_match_correct. apply (proj1 (pm_glob_lower_text _ _)). apply pm_match_correct. assumption.
  - destruct (pm_match pat (pm_lower text)) eqn:E2; [|reflexivity].
    apply pm_match_correct in E2. apply (proj2 (pm_glob_lower_text _ _)) in E2. apply pm_match_correct in E2. congruence.
Qed.

(* ================================================================ small facts *)
Lemma pm_str_eqb_eq a b : pm_str_eqb a b = true <-> a = b.
Proof.
  revert b. induction a as [|x a IH]; destruct b as [|y b]; cbn; split; intros H; try discriminate; try reflexivity.
  - apply andb_prop in H. destruct H as [H1 H2]. apply Z.eqb_eq in H1. apply IH in H2. congruence.
  - inversion H; subst. rewrite Z.eqb_refl. apply IH. reflexivity.
Qed.

Lemma pm_type_eqb_eq a b : pm_type_eqb a b = true <-> a = b.
Proof. destruct a, b; cbn; split; intros; congruence. Qed.

Lemma pm_lookup_some inv t n o : pm_lookup inv t n = Some o -> In o inv /\ po_type o = t /\ po_name o = n.
Proof.
  unfold pm_lookup. intros H. apply find_some in H. destruct H as [H1 H2].
  apply andb_prop in H2. destruct H2 as [A B]. apply pm_type_eqb_eq in A. apply pm_str_eqb_eq in B. auto.
Qed.

Lemma pm_nav_eqb_eq a b : pm_nav_eqb a b = true <-> a = b.
Proof. destruct a, b; cbn; split; intros; congruence. Qed.
Lemma pm_scope_eqb_eq a b : pm_scope_eqb a b = true <-> a = b.
Proof.
  destruct a, b; cbn; split; intros H; try congruence.
  - apply pm_nav_eqb_eq in H. congruence.
  - inversion H; subst. apply pm_nav_eqb_eq. reflexivity.
Qed.

(* ================================================================ the namespace of a filter frame *)
(* evaluation reads the namespace only through pm_ns_get *)
Lemma pm_eval_ext fv ns1 ns2 f : (forall v, pm_ns_get ns1 v = pm_ns_get ns2 v) -> pm_eval fv ns1 f = pm_eval fv ns2 f.
Proof.
  intros H. induction f; cbn; try reflexivity; try (rewrite (H sc); reflexivity).
  - rewrite IHf1, IHf2. reflexivity.
  - rewrite IHf1, IHf2. reflexivity.
  - rewrite IHf. reflexivity.
Qed.

(* the variables the binding step of EvaluateFilter Sets for a target of type t *)
Definition pm_bound_vars (t : pm_type) : list pm_scope := PmScObj :: pm_type_var t :: pm_nav_vars t.
Definition pm_is_bound (t : pm_type) (v : pm_scope) : bool := existsb (pm_scope_eqb v) (pm_bound_vars t).

(* after binding, a bound variable holds what the CURRENT target determines - value or null -, any other
   variable is untouched.  (This is where "every navigation field is Set, also when null" enters: pm_bind folds
   over ALL of pm_nav_vars.) *)
Lemma pm_bind_get ns o v :
  pm_ns_get (pm_bind ns o) v = if pm_is_bound (po_type o) v then pm_ns_get (pm_bind [] o) v else pm_ns_get ns v.
Proof.
  unfold pm_bind, pm_is_bound, pm_bound_vars, pm_nav_vars, pm_checkable_navs, pm_type_var.
  destruct (po_type o); destruct v as [| | |[]]; reflexivity.
Qed.

(* a namespace that only ever saw targets of type t *)
Definition pm_ns_typed (t : pm_type) (ns : pm_ns) : Prop := forall v, pm_ns_get ns v <> None -> pm_is_bound t v = true.

Lemma pm_ns_typed_nil t : pm_ns_typed t [].
Proof. intros v H. cbn in H. congruence. Qed.

Lemma pm_bind_typed t ns o : po_type o = t -> pm_ns_typed t ns -> pm_ns_typed t (pm_bind ns o).
Proof.
  intros Ht Hns v H. rewrite pm_bind_get, Ht in H. destruct (pm_is_bound t v) eqn:E; [reflexivity|]. rewrite <- E. apply Hns. assumption.
Qed.

(* C18_frame_depends_on_target_only: in a namespace used for one type only, the frame after binding a target
   is - variable by variable - the frame obtained by binding that target into an EMPTY namespace *)
Theorem pm_frame_depends_on_target_only ns o :
  pm_ns_typed (po_type o) ns -> forall v, pm_ns_get (pm_bind ns o) v = pm_ns_get (pm_bind [] o) v.
Proof.
  intros Hns v. rewrite pm_bind_get. destruct (pm_is_bound (po_type o) v) eqn:E; [reflexivity|].
  rewrite (pm_bind_get [] o v), E. cbn [pm_ns_get].
  destruct (pm_ns_get ns v) eqn:G; [|reflexivity]. exfalso.
  assert (pm_is_bound (po_type o) v = true) by (apply Hns; congruence). congruence.
Qed.

(* hence EvaluateFilter's outcome for a target does not depend on what was evaluated before in that namespace *)
Lemma pm_evalf_clean fv pf ns o :
  pm_ns_typed (po_type o) ns ->
  snd (pm_evalf fv pf ns o) = snd (pm_evalf fv pf [] o) /\ pm_ns_typed (po_type o) (fst (pm_evalf fv pf ns o)).
Proof.
  intros Hns. unfold pm_evalf. destruct pf as [f|]; cbn [fst snd].
  - split; [apply pm_eval_ext; apply pm_frame_depends_on_target_only; assumption|apply pm_bind_typed; auto].
  - split; [reflexivity|assumption].
Qed.

Section WithGlobals.
Variable G : pm_env.      (* the global constants - arbitrary *)

(* ================================================================ HasPermission *)
Definition pm_matches (req : pm_str) (e : pm_entry) : bool := pm_match (pm_lower (pe_perm e)) req.

Lemma pm_hp_loop_found u req found pf :
  fst (pm_hp_loop u req found pf) = found || existsb (pm_matches req) u.
Proof.
  revert found pf. induction u as [|e r IH]; intros; cbn [pm_hp_loop existsb].
  - rewrite orb_false_r. reflexivity.
  - unfold pm_matches at 1. destruct (pm_match (pm_lower (pe_perm e)) req); rewrite IH.
    + cbn. rewrite orb_true_r. reflexivity.
    + reflexivity.
Qed.

(* the combined filter is true (in namespace ns) only if the initial one is, or the filter of a matching entry is *)
Lemma pm_hp_loop_filter_true u req ns : forall found pf g,
  snd (pm_hp_loop u req found pf) = Some g -> pm_eval G ns g = PmT ->
  (exists g0, pf = Some g0 /\ pm_eval G ns g0 = PmT)
  \/ (exists e f, In e u /\ pm_matches req e = true /\ pe_filter e = Some f /\ pm_eval G ns f = PmT).
Proof.
  induction u as [|e r IH]; intros found pf g Hs Hev; cbn [pm_hp_loop] in Hs.
  - cbn in Hs. left. exists g. auto.
  - destruct (pm_match (pm_lower (pe_perm e)) req) eqn:Hm.
    + destruct (pe_filter e) as [f|] eqn:Hf.
      * destruct pf as [g0|].
        -- destruct (IH _ _ _ Hs Hev) as [(g1 & Hg1 & Hev1)|(e' & f' & Hin & Hm' & Hf' & Hev')].
           ++ inversion Hg1; subst. cbn [pm_eval] in Hev1.
              destruct (pm_eval G ns g0) eqn:E0; try discriminate.
              ** left. exists g0. auto.
              ** right. exists e, f. cbn. auto.
           ++ right. exists e', f'. cbn. auto.
        -- destruct (IH _ _ _ Hs Hev) as [(g1 & Hg1 & Hev1)|(e' & f' & Hin & Hm' & Hf' & Hev')].
           ++ inversion Hg1; subst. right. exists e, g1. cbn. auto.
           ++ right. exists e', f'. cbn. auto.
      * destruct (IH _ _ _ Hs Hev) as [H|(e' & f' & Hin & Hm' & Hf' & Hev')]; [left; assumption|].
        right. exists e', f'. cbn. auto.
    + destruct (IH _ _ _ Hs Hev) as [H|(e' & f' & Hin & Hm' & Hf' & Hev')]; [left; assumption|].
      right. exists e', f'. cbn. auto.
Qed.

(* no combined filter: no matching entry carries one *)
Lemma pm_hp_loop_filter_none u req : forall found pf,
  snd (pm_hp_loop u req found pf) = None ->
  pf = None /\ forall e, In e u -> pm_matches req e = true -> pe_filter e = None.
Proof.
  induction u as [|e r IH]; intros found pf Hs; cbn [pm_hp_loop] in Hs.
  - cbn in Hs. split; [assumption|]. intros e [].
  - destruct (pm_match (pm_lower (pe_perm e)) req) eqn:Hm.
    + destruct (pe_filter e) as [f|] eqn:Hf.
      * destruct pf; apply IH in Hs; destruct Hs as [Hs _]; discriminate.
      * apply IH in Hs. destruct Hs as [-> Hall]. split; [reflexivity|].
        intros e' [<-|Hin] Hm'; [assumption|auto].
    + apply IH in Hs. destruct Hs as [-> Hall]. split; [reflexivity|].
      intros e' [<-|Hin] Hm'; [unfold pm_matches in Hm'; congruence|auto].
Qed.

Lemma pm_spec_has_correct u perm : fst (pm_has_permission u perm) = pm_spec_has u perm.
Proof.
  destruct perm as [|c p]; [reflexivity|]. unfold pm_has_permission, pm_spec_has.
  rewrite pm_hp_loop_found. reflexivity.
Qed.

Lemma pm_check_some u perm pf : pm_check_permission u perm = Some pf ->
  pm_has_permission u perm = (true, pf).
Proof.
  unfold pm_check_permission. destruct (pm_has_permission u perm) as [found pf']. destruct found; intros H; inversion H. reflexivity.
Qed.

Lemma pm_check_none u perm : pm_check_permission u perm = None -> fst (pm_has_permission u perm) = false.
Proof.
  unfold pm_check_permission. destruct (pm_has_permission u perm) as [found pf']. destruct found; intros H; [discriminate|reflexivity].
Qed.

(* granted + combined filter true of o (evaluated on o alone)  ==>  some matching entry whose filter, if any, is true of o *)
Lemma pm_granted_allow u perm pf o :
  perm <> [] -> pm_check_permission u perm = Some pf -> pm_eval_opt G pf o = PmT ->
  pm_spec_allow G u perm o = true.
Proof.
  intros Hne Hc Hev. apply pm_check_some in Hc.
  destruct perm as [|c p]; [congruence|]. unfold pm_has_permission in Hc.
  set (req := pm_lower (c :: p)) in *.
  assert (fst (pm_hp_loop u req false None) = true) as Hf by (rewrite Hc; reflexivity).
  assert (snd (pm_hp_loop u req false None) = pf) as Hs by (rewrite Hc; reflexivity).
  rewrite pm_hp_loop_found in Hf. cbn [orb] in Hf.
  unfold pm_spec_allow. apply existsb_exists.
  destruct pf as [g|].
  - unfold pm_eval_opt, pm_evalf in Hev. cbn [snd] in Hev.
    destruct (pm_hp_loop_filter_true u req (pm_bind [] o) _ _ _ Hs Hev) as [(g0 & Hg0 & _)|(e & f & Hin & Hm & Hfe & He)].
    + discriminate.
    + exists e. split; [assumption|]. unfold pm_entry_allows. fold req. unfold pm_matches in Hm. rewrite Hm, Hfe, He. reflexivity.
  - apply pm_hp_loop_filter_none in Hs. destruct Hs as [_ Hall].
    apply existsb_exists in Hf. destruct Hf as (e & Hin & Hm). exists e. split; [assumption|].
    unfold pm_entry_allows. fold req. unfold pm_matches in Hm. rewrite Hm. rewrite (Hall e Hin Hm). reflexivity.
Qed.

(* ================================================================ GetFilterTargets: what every returned object satisfies *)
(* o is an inventory object for which the combined permission filter, evaluated on o alone, is true *)
Definition pm_ret_clean (pf : option pm_filter) (inv : list pm_obj) (o : pm_obj) : Prop :=
  In o inv /\ pm_eval_opt G pf o = PmT.

(* one EvaluateFilter call of the permission filter in a namespace that only saw targets of o's type *)
Lemma pm_evalf_perm pf ns o ns' r :
  pm_ns_typed (po_type o) ns -> pm_evalf G pf ns o = (ns', r) ->
  r = pm_eval_opt G pf o /\ pm_ns_typed (po_type o) ns'.
Proof.
  intros Hns E. destruct (pm_evalf_clean G pf ns o Hns) as [A B]. rewrite E in A, B. cbn [fst snd] in A, B.
  split; [exact A|exact B].
Qed.

Section Names.
  Variables (pf : option pm_filter) (inv : list pm_obj).

  Lemma pm_name_one_ok t n ns o ns' :
    pm_ns_typed t ns ->
    pm_name_one G pf inv t n ns = inr (o, ns') ->
    pm_ret_clean pf inv o /\ po_type o = t /\ po_name o = n /\ pm_lookup inv t n = Some o /\ pm_ns_typed t ns'.
  Proof.
    intros Hns. unfold pm_name_one. destruct (pm_lookup inv t n) as [o'|] eqn:L; [|discriminate].
    destruct (pm_lookup_some _ _ _ _ L) as (A & B & C).
    destruct (pm_evalf G pf ns o') as [ns1 r] eqn:E.
    rewrite <- B in Hns. destruct (pm_evalf_perm pf ns o' ns1 r Hns E) as [Hr Ht]. rewrite B in Ht.
    destruct r; try discriminate. intros H. inversion H; subst. repeat split; auto.
  Qed.

  Lemma pm_name_list_ok t ns : forall acc fr res,
    pm_ns_typed t fr -> (forall x, In x acc -> pm_ret_clean pf inv x) ->
    pm_name_list G pf inv t ns acc fr = inr res -> forall x, In x res -> pm_ret_clean pf inv x.
  Proof.
    induction ns as [|n r IH]; intros acc fr res Hfr Hacc H; cbn in H.
    - inversion H; subst. assumption.
    - destruct (pm_name_one G pf inv t n fr) as [e|[o fr']] eqn:E; [discriminate|].
      destruct (pm_name_one_ok t n fr o fr' Hfr E) as (A & _ & _ & _ & F).
      eapply IH; [exact F| |exact H].
      intros x Hx. apply in_app_or in Hx. destruct Hx as [Hx|[<-|[]]]; auto.
  Qed.

  Lemma pm_names_type_ok q t acc res :
    (forall x, In x acc -> pm_ret_clean pf inv x) ->
    pm_names_type G pf inv q t acc = inr res -> forall x, In x res -> pm_ret_clean pf inv x.
  Proof.
    intros Hacc H. unfold pm_names_type in H.
    destruct (pm_q_single q t) as [n|].
    - destruct (pm_name_one G pf inv t n []) as [e|[o fr]] eqn:E; [discriminate|].
      destruct (pm_name_one_ok t n [] o fr (pm_ns_typed_nil t) E) as (A & _ & _ & _ & F).
      assert (forall x, In x (acc ++ [o]) -> pm_ret_clean pf inv x) as Hacc'.
      { intros x Hx. apply in_app_or in Hx. destruct Hx as [Hx|[<-|[]]]; auto. }
      destruct (pm_q_plural q t) as [ns|].
      + eapply pm_name_list_ok; [exact F|exact Hacc'|exact H].
      + inversion H; subst. assumption.
    - destruct (pm_q_plural q t) as [ns|].
      + eapply pm_name_list_ok; [apply pm_ns_typed_nil|exact Hacc|exact H].
      + inversion H; subst. assumption.
  Qed.

  Lemma pm_by_names_ok q tys : forall acc res,
    (forall x, In x acc -> pm_ret_clean pf inv x) ->
    pm_by_names G pf inv q tys acc = inr res -> forall x, In x res -> pm_ret_clean pf inv x.
  Proof.
    induction tys as [|t r IH]; intros acc res Hacc H; cbn in H.
    - inversion H; subst. assumption.
    - destruct (pm_names_type G pf inv q t acc) as [e|acc'] eqn:E; [discriminate|].
      eapply IH; [|exact H]. eapply pm_names_type_ok; eassumption.
  Qed.
End Names.

Lemma pm_fast_collect_ret pf inv t : forall names ns l,
  pm_ns_typed t ns ->
  pm_fast_collect G pf ns inv t names = inr l -> forall x, In x l -> In x inv /\ po_type x = t /\ pm_eval_opt G pf x = PmT.
Proof.
  induction names as [|n r IH]; intros ns l Hns H; cbn in H.
  - inversion H; subst. intros x [].
  - destruct (pm_lookup inv t n) as [o|] eqn:L; [|eapply IH; eassumption].
    destruct (pm_lookup_some _ _ _ _ L) as (A & B & C).
    destruct (pm_evalf G pf ns o) as [ns1 r0] eqn:E.
    rewrite <- B in Hns. destruct (pm_evalf_perm pf ns o ns1 r0 Hns E) as [Hr Ht]. rewrite B in Ht.
    destruct r0; try discriminate.
    + destruct (pm_fast_collect G pf ns1 inv t r) as [e|l'] eqn:R; [discriminate|].
      inversion H; subst. intros x [<-|Hx]; [auto|eapply IH; eassumption].
    + eapply IH; eassumption.
Qed.

Lemma pm_scan_ret pf uf fv t : forall inv pns uns l,
  pm_ns_typed t pns -> pm_ns_typed t uns ->
  pm_scan G pf pns uf fv uns t inv = inr l ->
  forall x, In x l -> In x inv /\ po_type x = t /\ pm_eval_opt G pf x = PmT /\ snd (pm_evalf (fv ++ G) uf [] x) = PmT.
Proof.
  induction inv as [|o r IH]; intros pns uns l Hp Hu H; cbn in H.
  - inversion H; subst. intros x [].
  - destruct (pm_type_eqb (po_type o) t) eqn:T.
    + apply pm_type_eqb_eq in T.
      destruct (pm_evalf G pf pns o) as [pns1 r1] eqn:E1.
      rewrite <- T in Hp. destruct (pm_evalf_perm pf pns o pns1 r1 Hp E1) as [Hr1 Hp1]. rewrite T in Hp1.
      destruct r1; try discriminate.
      * destruct (pm_evalf (fv ++ G) uf uns o) as [uns1 r2] eqn:E2.
        rewrite <- T in Hu. destruct (pm_evalf_clean (fv ++ G) uf uns o Hu) as [Hr2 Hu1]. rewrite E2 in Hr2, Hu1. cbn [fst snd] in Hr2, Hu1.
        rewrite T in Hu1.
        destruct r2; try discriminate.
        -- destruct (pm_scan G pf pns1 uf fv uns1 t r) as [e|l'] eqn:R; [discriminate|].
           inversion H; subst. intros x [<-|Hx].
           ++ repeat split; auto. left; reflexivity.
           ++ destruct (IH _ _ _ Hp1 Hu1 R x Hx) as (A & B). split; [right; assumption|assumption].
        -- intros x Hx. destruct (IH _ _ _ Hp1 Hu1 H x Hx) as (A & B). split; [right; assumption|assumption].
      * intros x Hx. destruct (IH _ _ _ Hp1 Hu H x Hx) as (A & B). split; [right; assumption|assumption].
    + intros x Hx. destruct (IH _ _ _ Hp Hu H x Hx) as (A & B). split; [right; assumption|assumption].
Qed.

Lemma pm_by_filter_ret fast pf inv t uf fv l :
  pm_by_filter G fast pf inv t uf fv = inr l ->
  forall x, In x l -> In x inv /\ po_type x = t /\ pm_eval_opt G pf x = PmT.
Proof.
  unfold pm_by_filter. intros H x Hx. destruct uf as [f|].
  - destruct (if fast && negb (pm_shadowed t fv) then pm_targets t f fv else None) as [ns|].
    + eapply pm_fast_collect_ret; [apply pm_ns_typed_nil|eassumption|assumption].
    + destruct (pm_scan_ret _ _ _ _ _ _ _ _ (pm_ns_typed_nil t) (pm_ns_typed_nil t) H x Hx) as (A & B & C & _). auto.
  - destruct (pm_scan_ret _ _ _ _ _ _ _ _ (pm_ns_typed_nil t) (pm_ns_typed_nil t) H x Hx) as (A & B & C & _). auto.
Qed.

(* decomposition of a successful call *)
Lemma pm_filter_targets_ok fast u perm tys q inv objs c :
  pm_filter_targets G fast u perm tys q inv = (c, PmOk objs) ->
  exists pf res, pm_check_permission u perm = Some pf /\ pm_by_names G pf inv q tys [] = inr res /\
    (objs = res \/ exists t l, pm_by_filter G fast pf inv t (pq_filter q) (pq_fvars q) = inr l
                               /\ In t tys /\ objs = res ++ l).
Proof.
  unfold pm_filter_targets. destruct (pm_check_permission u perm) as [pf|]; [|discriminate].
  destruct (pm_by_names G pf inv q tys []) as [e|res] eqn:N; [discriminate|].
  destruct (pm_is_some (pq_filter q) || pm_is_nil res).
  - destruct (pq_type q) as [qt|]; [|discriminate].
    destruct qt; try discriminate; cbn [pm_qtype_in].
    + destruct (existsb (pm_type_eqb PmHost) tys) eqn:E; [|discriminate].
      destruct (pm_by_filter G fast pf inv PmHost (pq_filter q) (pq_fvars q)) as [e|l] eqn:BF; [discriminate|].
      intros H. inversion H; subst. exists pf, res. split; [reflexivity|]. split; [exact N|]. right.
      exists PmHost, l. split; [assumption|]. split; [|reflexivity].
      apply existsb_exists in E. destruct E as (x & Hx & Hex). apply pm_type_eqb_eq in Hex. subst. assumption.
    + destruct (existsb (pm_type_eqb PmService) tys) eqn:E; [|discriminate].
      destruct (pm_by_filter G fast pf inv PmService (pq_filter q) (pq_fvars q)) as [e|l] eqn:BF; [discriminate|].
      intros H. inversion H; subst. exists pf, res. split; [reflexivity|]. split; [exact N|]. right.
      exists PmService, l. split; [assumption|]. split; [|reflexivity].
      apply existsb_exists in E. destruct E as (x & Hx & Hex). apply pm_type_eqb_eq in Hex. subst. assumption.
  - intros H. inversion H; subst. eexists; eexists. split; [reflexivity|]. split; [exact N|]. left; reflexivity.
Qed.

(* C18_only_permitted, in terms of the combined filter: every returned object is an inventory object for which
   the combined permission filter - evaluated on that object alone - is true *)
Theorem pm_only_permitted_clean fast u perm tys q inv objs c :
  pm_filter_targets G fast u perm tys q inv = (c, PmOk objs) ->
  exists pf, pm_check_permission u perm = Some pf /\ forall o, In o objs -> pm_ret_clean pf inv o.
Proof.
  intros H. destruct (pm_filter_targets_ok _ _ _ _ _ _ _ _ H) as (pf & res & Hc & Hn & Hobjs).
  exists pf. split; [assumption|]. intros o Ho.
  pose proof (pm_by_names_ok pf inv q tys [] res (fun x (Hx : In x []) => match Hx with end) Hn) as Hres.
  destruct Hobjs as [->|(t & l & Hbf & Ht & ->)]; [auto|].
  apply in_app_or in Ho. destruct Ho as [Ho|Ho]; [auto|].
  destruct (pm_by_filter_ret _ _ _ _ _ _ _ Hbf o Ho) as (A & B & C). split; assumption.
Qed.

(* ================================================================ reject first *)
Theorem pm_reject_first fast u perm tys q inv :
  perm <> [] -> (forall e, In e u -> pm_match (pm_lower (pe_perm e)) (pm_lower perm) = false) ->
  pm_filter_targets G fast u perm tys q inv = (false, PmErr PmErrPerm).
Proof.
  intros Hne Hno. unfold pm_filter_targets.
  assert (pm_check_permission u perm = None) as ->; [|reflexivity].
  unfold pm_check_permission. destruct (pm_has_permission u perm) as [found pf] eqn:E.
  assert (found = false) as ->; [|reflexivity].
  change found with (fst (found, pf)). rewrite <- E. rewrite pm_spec_has_correct.
  destruct perm as [|c p]; [congruence|]. cbn [pm_spec_has].
  destruct (existsb _ u) eqn:X; [|reflexivity]. apply existsb_exists in X. destruct X as (e & Hin & Hm).
  rewrite (Hno e Hin) in Hm. discriminate.
Qed.

(* ================================================================ by name denied *)
(* the query addresses (t, n) by name *)
Definition pm_names (q : pm_query) (t : pm_type) (n : pm_str) : Prop :=
  pm_q_single q t = Some n \/ exists ns, pm_q_plural q t = Some ns /\ In n ns.

Lemma pm_name_one_denied pf inv t n o ns :
  pm_ns_typed t ns -> pm_lookup inv t n = Some o -> pm_eval_opt G pf o <> PmT ->
  exists e, pm_name_one G pf inv t n ns = inl e.
Proof.
  intros Hns L Hno. unfold pm_name_one. rewrite L.
  destruct (pm_lookup_some _ _ _ _ L) as (_ & B & _).
  destruct (pm_evalf G pf ns o) as [ns1 r] eqn:E. rewrite <- B in Hns.
  destruct (pm_evalf_perm pf ns o ns1 r Hns E) as [Hr _]. destruct r; eauto. congruence.
Qed.

Lemma pm_name_list_denied pf inv t n o : forall ns acc fr,
  pm_ns_typed t fr ->
  In n ns -> pm_lookup inv t n = Some o -> pm_eval_opt G pf o <> PmT ->
  exists e, pm_name_list G pf inv t ns acc fr = inl e.
Proof.
  induction ns as [|m r IH]; intros acc fr Hfr Hin L Hno; [destruct Hin|]. cbn.
  destruct (pm_name_one G pf inv t m fr) as [e|[o' fr']] eqn:E; [eauto|].
  destruct Hin as [->|Hin].
  - destruct (pm_name_one_denied pf inv t n o fr Hfr L Hno) as (e & He). congruence.
  - destruct (pm_name_one_ok pf inv t m fr o' fr' Hfr E) as (_ & _ & _ & _ & F). apply IH; auto.
Qed.

Lemma pm_names_type_denied pf inv q t n o acc :
  pm_names q t n -> pm_lookup inv t n = Some o -> pm_eval_opt G pf o <> PmT ->
  exists e, pm_names_type G pf inv q t acc = inl e.
Proof.
  intros Hn L Hno. unfold pm_names_type.
  destruct Hn as [Hs|(ns & Hp & Hin)].
  - rewrite Hs. destruct (pm_name_one_denied pf inv t n o [] (pm_ns_typed_nil t) L Hno) as (e & ->). eauto.
  - rewrite Hp. destruct (pm_q_single q t) as [n0|].
    + destruct (pm_name_one G pf inv t n0 []) as [e|[o0 fr0]] eqn:E; [eauto|].
      destruct (pm_name_one_ok pf inv t n0 [] o0 fr0 (pm_ns_typed_nil t) E) as (_ & _ & _ & _ & F).
      eapply pm_name_list_denied; eassumption.
    + eapply pm_name_list_denied; try eassumption. apply pm_ns_typed_nil.
Qed.

Lemma pm_by_names_denied pf inv q t n o : forall tys acc,
  In t tys -> pm_names q t n -> pm_lookup inv t n = Some o -> pm_eval_opt G pf o <> PmT ->
  exists e, pm_by_names G pf inv q tys acc = inl e.
Proof.
  induction tys as [|t' r IH]; intros acc Hin Hn L Hno; [destruct Hin|]. cbn.
  destruct (pm_names_type G pf inv q t' acc) as [e|acc'] eqn:E; [eauto|].
  destruct Hin as [->|Hin]; [|eauto].
  destruct (pm_names_type_denied pf inv q t n o acc Hn L Hno) as (e & He). congruence.
Qed.

(* an object addressed by name for which the combined filter (on the object alone) is not true: error *)
Theorem pm_by_name_denied fast u perm tys q inv t n o pf :
  In t tys -> pm_names q t n -> pm_lookup inv t n = Some o ->
  pm_check_permission u perm = Some pf -> pm_eval_opt G pf o <> PmT ->
  exists c e, pm_filter_targets G fast u perm tys q inv = (c, PmErr e).
Proof.
  intros Hin Hn L Hc Hno. unfold pm_filter_targets. rewrite Hc.
  destruct (pm_by_names_denied pf inv q t n o tys [] Hin Hn L Hno) as (e & ->). eauto.
Qed.

(* ================================================================ the access paths agree *)
Definition pm_qtype_of (t : pm_type) : pm_qtype := match t with PmHost => PmQHost | PmService => PmQService end.
Definition pm_q0 : pm_query :=
  {| pq_host := None; pq_service := None; pq_hosts := None; pq_services := None; pq_type := None; pq_filter := None; pq_fvars := [] |}.
Definition pm_q_by_name (t : pm_type) (n : pm_str) : pm_query :=
  match t with
  | PmHost => {| pq_host := Some n; pq_service := None; pq_hosts := None; pq_services := None; pq_type := None; pq_filter := None; pq_fvars := [] |}
  | PmService => {| pq_host := None; pq_service := Some n; pq_hosts := None; pq_services := None; pq_type := None; pq_filter := None; pq_fvars := [] |}
  end.
Definition pm_q_by_list (t : pm_type) (n : pm_str) : pm_query :=
  match t with
  | PmHost => {| pq_host := None; pq_service := None; pq_hosts := Some [n]; pq_services := None; pq_type := None; pq_filter := None; pq_fvars := [] |}
  | PmService => {| pq_host := None; pq_service := None; pq_hosts := None; pq_services := Some [n]; pq_type := None; pq_filter := None; pq_fvars := [] |}
  end.
Definition pm_q_by_type (t : pm_type) (uf : option pm_filter) (fv : pm_env) : pm_query :=
  {| pq_host := None; pq_service := None; pq_hosts := None; pq_services := None; pq_type := Some (pm_qtype_of t); pq_filter := uf; pq_fvars := fv |}.

(* the user's filter on the object alone *)
Definition pm_ueval (fv : pm_env) (uf : option pm_filter) (o : pm_obj) : pm_tri := snd (pm_evalf (fv ++ G) uf [] o).

Section Paths.
  Variables (u : list pm_entry) (perm : pm_str) (inv : list pm_obj) (o : pm_obj) (pf : option pm_filter).
  Hypothesis Hperm : pm_check_permission u perm = Some pf.
  Hypothesis Hlook : pm_lookup inv (po_type o) (po_name o) = Some o.   (* names are unique per type *)

  Lemma pm_path_by_name fast :
    snd (pm_filter_targets G fast u perm [po_type o] (pm_q_by_name (po_type o) (po_name o)) inv) = PmOk [o]
    <-> pm_eval_opt G pf o = PmT.
  Proof.
    unfold pm_filter_targets. rewrite Hperm. unfold pm_q_by_name, pm_eval_opt.
    destruct (po_type o) eqn:T; cbn [pm_by_names]; unfold pm_names_type, pm_name_one, pm_q_single, pm_q_plural;
      cbn [pq_host pq_service pq_hosts pq_services pm_name_list]; rewrite Hlook;
      destruct (pm_evalf G pf [] o) as [ns r]; destruct r; cbn; split; intros H; congruence.
  Qed.

  Lemma pm_path_by_list fast :
    snd (pm_filter_targets G fast u perm [po_type o] (pm_q_by_list (po_type o) (po_name o)) inv) = PmOk [o]
    <-> pm_eval_opt G pf o = PmT.
  Proof.
    unfold pm_filter_targets. rewrite Hperm. unfold pm_q_by_list, pm_eval_opt.
    destruct (po_type o) eqn:T; cbn [pm_by_names]; unfold pm_names_type, pm_q_single, pm_q_plural;
      cbn [pq_host pq_service pq_hosts pq_services pm_name_list]; unfold pm_name_one; rewrite Hlook;
      destruct (pm_evalf G pf [] o) as [ns r]; destruct r; cbn; split; intros H; congruence.
  Qed.

  Lemma pm_scan_complete uf fv : forall inv0 pns uns l,
    pm_ns_typed (po_type o) pns -> pm_ns_typed (po_type o) uns ->
    pm_scan G pf pns uf fv uns (po_type o) inv0 = inr l -> In o inv0 -> pm_eval_opt G pf o = PmT ->
    pm_ueval fv uf o = PmT -> In o l.
  Proof.
    induction inv0 as [|x r IH]; intros pns uns l Hp Hu H Hin Hev Huv; [destruct Hin|]. cbn in H.
    destruct (pm_type_eqb (po_type x) (po_type o)) eqn:T.
    - apply pm_type_eqb_eq in T.
      destruct (pm_evalf G pf pns x) as [pns1 r1] eqn:E1.
      rewrite <- T in Hp. destruct (pm_evalf_perm pf pns x pns1 r1 Hp E1) as [Hr1 Hp1]. rewrite T in Hp1.
      destruct (pm_evalf (fv ++ G) uf uns x) as [uns1 r2] eqn:E2.
      rewrite <- T in Hu. destruct (pm_evalf_clean (fv ++ G) uf uns x Hu) as [Hr2 Hu1]. rewrite E2 in Hr2, Hu1. cbn [fst snd] in Hr2, Hu1.
      rewrite T in Hu1, Hu.
      destruct Hin as [->|Hin].
      + unfold pm_ueval in Huv. rewrite Hev in Hr1. rewrite Huv in Hr2. subst r1 r2.
        destruct (pm_scan G pf pns1 uf fv uns1 (po_type o) r); [discriminate|]. inversion H. left. reflexivity.
      + destruct r1; try discriminate.
        * destruct r2; try discriminate.
          -- destruct (pm_scan G pf pns1 uf fv uns1 (po_type o) r) as [e0|l0] eqn:R; [discriminate|]. inversion H; subst. right.
             exact (IH pns1 uns1 l0 Hp1 Hu1 R Hin Hev Huv).
          -- exact (IH pns1 uns1 l Hp1 Hu1 H Hin Hev Huv).
        * exact (IH pns1 uns l Hp1 Hu H Hin Hev Huv).
    - destruct Hin as [->|Hin]; [rewrite (proj2 (pm_type_eqb_eq _ _) eq_refl) in T; discriminate|].
      exact (IH pns uns l Hp Hu H Hin Hev Huv).
  Qed.

  Lemma pm_filter_targets_type_only fast uf fv :
    snd (pm_filter_targets G fast u perm [po_type o] (pm_q_by_type (po_type o) uf fv) inv) =
    match pm_by_filter G fast pf inv (po_type o) uf fv with inl e => PmErr e | inr l => PmOk l end.
  Proof.
    unfold pm_filter_targets. rewrite Hperm. unfold pm_q_by_type.
    cbn [pm_by_names]. unfold pm_names_type, pm_q_single, pm_q_plural.
    destruct (po_type o); cbn [pq_host pq_service pq_hosts pq_services pq_type pq_filter pq_fvars pm_is_nil pm_qtype_of];
      rewrite orb_true_r; cbn [pm_qtype_in existsb pm_type_eqb orb snd app]; reflexivity.
  Qed.

  (* by type (no user filter) and by type + user filter on the slow path *)
  Lemma pm_path_by_type uf fv objs :
    snd (pm_filter_targets G false u perm [po_type o] (pm_q_by_type (po_type o) uf fv) inv) = PmOk objs ->
    (In o objs <-> pm_eval_opt G pf o = PmT /\ pm_ueval fv uf o = PmT).
  Proof.
    rewrite pm_filter_targets_type_only. unfold pm_by_filter.
    assert (In o inv) as Hin by (apply pm_lookup_some in Hlook; tauto).
    assert (forall l, pm_scan G pf [] uf fv [] (po_type o) inv = inr l ->
              (In o l <-> pm_eval_opt G pf o = PmT /\ pm_ueval fv uf o = PmT)) as GG.
    { intros l S. split.
      - intros Ho. destruct (pm_scan_ret _ _ _ _ _ _ _ _ (pm_ns_typed_nil _) (pm_ns_typed_nil _) S o Ho) as (_ & _ & A & B). auto.
      - intros [A B]. eapply pm_scan_complete; eauto; apply pm_ns_typed_nil. }
    destruct uf as [f|]; cbn [negb andb]; (destruct (pm_scan G pf [] _ fv [] (po_type o) inv) as [e|l] eqn:S; [discriminate|]);
      intros H; inversion H; subst; apply GG; reflexivity.
  Qed.

  Lemma pm_fast_collect_complete : forall names ns l,
    pm_ns_typed (po_type o) ns ->
    pm_fast_collect G pf ns inv (po_type o) names = inr l -> In (po_name o) names -> pm_eval_opt G pf o = PmT -> In o l.
  Proof.
    induction names as [|n r IH]; intros ns l Hns H Hin Hev; [destruct Hin|]. cbn in H.
    destruct Hin as [->|Hin].
    - rewrite Hlook in H. destruct (pm_evalf G pf ns o) as [ns1 r1] eqn:E.
      destruct (pm_evalf_perm pf ns o ns1 r1 Hns E) as [Hr _]. rewrite Hev in Hr. subst r1.
      destruct (pm_fast_collect G pf ns1 inv (po_type o) r); [discriminate|]. inversion H. left. reflexivity.
    - destruct (pm_lookup inv (po_type o) n) as [x|] eqn:L; [|eauto].
      destruct (pm_lookup_some _ _ _ _ L) as (_ & B & _).
      destruct (pm_evalf G pf ns x) as [ns1 r1] eqn:E.
      rewrite <- B in Hns. destruct (pm_evalf_perm pf ns x ns1 r1 Hns E) as [_ Ht]. rewrite B in Ht.
      destruct r1; try discriminate; [|eauto].
      destruct (pm_fast_collect G pf ns1 inv (po_type o) r) eqn:R; [discriminate|]. inversion H; subst. right. eauto.
  Qed.

  (* the fast path: host.name == "<name>" *)
  Lemma pm_path_fast_host objs :
    po_type o = PmHost ->
    snd (pm_filter_targets G true u perm [po_type o] (pm_q_by_type (po_type o) (Some (PmFName PmScHost (po_name o))) []) inv) = PmOk objs ->
    (In o objs <-> pm_eval_opt G pf o = PmT).
  Proof.
    intros Ht. rewrite pm_filter_targets_type_only. unfold pm_by_filter. cbn [andb negb pm_shadowed existsb].
    assert (pm_targets (po_type o) (PmFName PmScHost (po_name o)) [] = Some [po_name o]) as -> by (rewrite Ht; reflexivity).
    destruct (pm_fast_collect G pf [] inv (po_type o) [po_name o]) as [e|l] eqn:F; [discriminate|].
    intros H. inversion H; subst. split.
    - intros Ho. destruct (pm_fast_collect_ret _ _ _ _ _ _ (pm_ns_typed_nil _) F o Ho) as (_ & _ & A). assumption.
    - intros A. eapply pm_fast_collect_complete; [apply pm_ns_typed_nil|exact F|left; reflexivity|assumption].
  Qed.

  (* the fast path for services: host.name == "<host>" && service.name == "<short name>" (either order);
     the full name of a service is <host>!<short name> (Service's NameComposer) *)
  Lemma pm_path_fast_service objs (swap : bool) :
    po_type o = PmService -> po_name o = po_host o ++ [33] ++ po_short o ->
    let f := if swap then PmFAnd (PmFName PmScService (po_short o)) (PmFName PmScHost (po_host o))
             else PmFAnd (PmFName PmScHost (po_host o)) (PmFName PmScService (po_short o)) in
    snd (pm_filter_targets G true u perm [po_type o] (pm_q_by_type (po_type o) (Some f) []) inv) = PmOk objs ->
    (In o objs <-> pm_eval_opt G pf o = PmT).
  Proof.
    intros Ht Hname f. rewrite pm_filter_targets_type_only. unfold pm_by_filter. cbn [andb negb pm_shadowed existsb].
    assert (pm_targets (po_type o) f [] = Some [po_name o]) as ->.
    { rewrite Ht, Hname. unfold f. destruct swap; reflexivity. }
    destruct (pm_fast_collect G pf [] inv (po_type o) [po_name o]) as [e|l] eqn:F; [discriminate|].
    intros H. inversion H; subst. split.
    - intros Ho. destruct (pm_fast_collect_ret _ _ _ _ _ _ (pm_ns_typed_nil _) F o Ho) as (_ & _ & A). assumption.
    - intros A. eapply pm_fast_collect_complete; [apply pm_ns_typed_nil|exact F|left; reflexivity|assumption].
  Qed.
End Paths.

(* ================================================================ packaged statements for Properties_C18.v *)
Theorem pm_only_permitted fast u perm tys q inv objs c :
  perm <> [] ->
  pm_filter_targets G fast u perm tys q inv = (c, PmOk objs) ->
  forall o, In o objs -> In o inv /\ pm_spec_allow G u perm o = true.
Proof.
  intros Hne H o Ho.
  destruct (pm_only_permitted_clean _ _ _ _ _ _ _ _ H) as (pf & Hc & Hall).
  destruct (Hall o Ho) as [Hin Hev]. split; [assumption|].
  exact (pm_granted_allow u perm pf o Hne Hc Hev).
Qed.

Theorem pm_paths_agree u perm inv o pf :
  pm_check_permission u perm = Some pf -> pm_lookup inv (po_type o) (po_name o) = Some o ->
  (forall fast, snd (pm_filter_targets G fast u perm [po_type o] (pm_q_by_name (po_type o) (po_name o)) inv) = PmOk [o]
                <-> pm_eval_opt G pf o = PmT) /\
  (forall fast, snd (pm_filter_targets G fast u perm [po_type o] (pm_q_by_list (po_type o) (po_name o)) inv) = PmOk [o]
                <-> pm_eval_opt G pf o = PmT) /\
  (forall uf fv objs, snd (pm_filter_targets G false u perm [po_type o] (pm_q_by_type (po_type o) uf fv) inv) = PmOk objs ->
                (In o objs <-> pm_eval_opt G pf o = PmT /\ pm_ueval fv uf o = PmT)) /\
  (forall objs, po_type o = PmHost ->
                snd (pm_filter_targets G true u perm [po_type o] (pm_q_by_type (po_type o) (Some (PmFName PmScHost (po_name o))) []) inv) = PmOk objs ->
                (In o objs <-> pm_eval_opt G pf o = PmT)) /\
  (forall objs (swap : bool), po_type o = PmService -> po_name o = po_host o ++ [33] ++ po_short o ->
                snd (pm_filter_targets G true u perm [po_type o]
                       (pm_q_by_type (po_type o)
                          (Some (if swap then PmFAnd (PmFName PmScService (po_short o)) (PmFName PmScHost (po_host o))
                                 else PmFAnd (PmFName PmScHost (po_host o)) (PmFName PmScService (po_short o)))) []) inv) = PmOk objs ->
                (In o objs <-> pm_eval_opt G pf o = PmT)).
Proof.
  intros Hc Hl.
  split; [intros fast; apply pm_path_by_name; assumption|].
  split; [intros fast; apply pm_path_by_list; assumption|].
  split; [intros uf fv objs H; eapply pm_path_by_type; eassumption|].
  split; [intros objs Ht H; eapply pm_path_fast_host; eassumption|].
  intros objs swap Ht Hn H. eapply (pm_path_fast_service u perm inv o pf Hc Hl objs swap Ht Hn). exact H.
Qed.
End WithGlobals.
