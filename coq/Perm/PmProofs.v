(* C18 - proofs over the model of PmModel.v *)
From Icv Require Import Base.Tac Perm.PmModel.
Local Open Scope Z_scope.

(* ================================================================ the glob matcher *)
(* declarative meaning of a tokenised pattern: '*' stands for any string, '?' for any one character,
   a literal for itself up to ASCII case *)
Inductive pm_glob : list pm_tok -> pm_str -> Prop :=
| pm_glob_nil : pm_glob [] []
| pm_glob_star : forall ts pre s, pm_glob ts s -> pm_glob (PmStar :: ts) (pre ++ s)
| pm_glob_any : forall ts c s, pm_glob ts s -> pm_glob (PmAny :: ts) (c :: s)
| pm_glob_lit : forall ts c d s, pm_lower_c d = pm_lower_c c -> pm_glob ts s -> pm_glob (PmLit c :: ts) (d :: s).

Lemma pm_star_unfold ts s :
  pm_match_toks (PmStar :: ts) s =
  pm_match_toks ts s || match s with [] => false | _ :: s' => pm_match_toks (PmStar :: ts) s' end.
Proof. destruct s; reflexivity. Qed.

Lemma pm_match_toks_sound : forall ts s, pm_match_toks ts s = true -> pm_glob ts s.
Proof.
  induction ts as [|t ts IH]; intros s H.
  - destruct s; [constructor|discriminate].
  - destruct t.
    + induction s as [|c s IHs].
      * rewrite pm_star_unfold in H. rewrite orb_false_r in H.
        apply (pm_glob_star ts [] []). auto.
      * rewrite pm_star_unfold in H. apply orb_prop in H. destruct H as [H|H].
        -- apply (pm_glob_star ts [] (c :: s)). auto.
        -- specialize (IHs H). inversion IHs; subst.
           apply (pm_glob_star ts (c :: pre) s0). assumption.
    + destruct s as [|c s]; [discriminate|]. cbn in H. constructor. auto.
    + destruct s as [|d s]; [discriminate|]. cbn [pm_match_toks] in H.
      apply andb_prop in H. destruct H as [H1 H2]. constructor; [apply Z.eqb_eq; assumption|auto].
Qed.

Lemma pm_match_toks_complete : forall ts s, pm_glob ts s -> pm_match_toks ts s = true.
Proof.
  intros ts s H. induction H.
  - reflexivity.
  - induction pre as [|c pre IHp].
    + cbn [app]. rewrite pm_star_unfold, IHpm_glob. reflexivity.
    + cbn [app]. rewrite pm_star_unfold. rewrite IHp. apply orb_true_r.
  - cbn. assumption.
  - cbn [pm_match_toks]. rewrite IHpm_glob, andb_true_r. apply Z.eqb_eq. assumption.
Qed.

Theorem pm_match_correct pat text : pm_match pat text = true <-> pm_glob (pm_tokens pat) text.
Proof. split; [apply pm_match_toks_sound|apply pm_match_toks_complete]. Qed.

Lemma pm_lower_c_idem c : pm_lower_c (pm_lower_c c) = pm_lower_c c.
Proof.
  unfold pm_lower_c. destruct ((65 <=? c) && (c <=? 90)) eqn:E; [|rewrite E; reflexivity].
  destruct ((65 <=? c + 32) && (c + 32 <=? 90)) eqn:E2; [lia|reflexivity].
Qed.

(* matching does not depend on the case of the text (what HasPermission's lower-casing relies on) *)
Lemma pm_glob_lower_text ts s : pm_glob ts s <-> pm_glob ts (pm_lower s).
Proof.
  split.
  - intros H. induction H; cbn.
    + constructor.
    + unfold pm_lower. rewrite map_app. constructor. assumption.
    + constructor. assumption.
    + constructor; [rewrite pm_lower_c_idem; assumption|assumption].
  - intros H. remember (pm_lower s) as ls eqn:E. revert s E. induction H; intros s0 E.
    + destruct s0; [constructor|discriminate].
    + unfold pm_lower in E. symmetry in E. apply map_eq_app in E. destruct E as (p1 & p2 & -> & E1 & E2).
      constructor. apply IHpm_glob. symmetry. exact E2.
    + destruct s0 as [|d s0]; [discriminate|]. cbn in E. inversion E; subst. constructor. apply IHpm_glob. reflexivity.
    + destruct s0 as [|d' s0]; [discriminate|]. cbn in E. inversion E; subst.
      constructor; [rewrite <- H; symmetry; apply pm_lower_c_idem|apply IHpm_glob; reflexivity].
Qed.

Theorem pm_match_case_insensitive pat text : pm_match pat (pm_lower text) = pm_match pat text.
Proof.
  destruct (pm_match pat text) eqn:E.
  - apply pm_match_correct. apply (proj1 (pm_glob_lower_text _ _)). apply pm_match_correct. assumption.
  - destruct (pm_match pat (pm_lower text)) eqn:E2; [|reflexivity].
    apply pm_match_correct in E2. apply (proj2 (pm_glob_lower_text _ _)) in E2. apply pm_match_correct in E2. congruence.
Qed.

(* ================================================================ small facts *)
Lemma pm_str_eqb_eq a b : pm_str_eqb a b = true <-> a = b.
Proof.
  revert b. induction a as [|x a IH]; destruct b as [|y b]; cbn; split; intros H; try discriminate; try reflexivity.
  - apply andb_prop in H. destruct H as [H1 H2]. apply Z.eqb_eq in H1. apply IH in H2. congruence.
  - inversion H; subst. rewrite Z.eqb_refl. apply IH. reflexivity.
Qed.

Lemma pm_type_eqb_eq a b : pm_type_eqb a b = true <-> a = b.
Proof. destruct a, b; cbn; split; intros; congruence. Qed.

Lemma pm_lookup_some inv t n o : pm_lookup inv t n = Some o -> In o inv /\ po_type o = t /\ po_name o = n.
Proof.
  unfold pm_lookup. intros H. apply find_some in H. destruct H as [H1 H2].
  apply andb_prop in H2. destruct H2 as [A B]. apply pm_type_eqb_eq in A. apply pm_str_eqb_eq in B. auto.
Qed.

(* an evaluation on a service, or in a frame without stale service, is the evaluation the statement means *)
Lemma pm_view_clean sv sc o : po_type o = PmService \/ sv = None -> pm_scope_view sv sc o = pm_scope_view None sc o.
Proof. intros [H| ->]; [|reflexivity]. destruct sc; cbn; try reflexivity. rewrite H. reflexivity. Qed.

Lemma pm_eval_clean fv sv f o : po_type o = PmService \/ sv = None -> pm_eval fv sv f o = pm_eval fv None f o.
Proof.
  intros H. induction f; cbn; try reflexivity; try (rewrite (pm_view_clean sv sc o H); reflexivity).
  - rewrite IHf1, IHf2. reflexivity.
  - rewrite IHf1, IHf2. reflexivity.
  - rewrite IHf. reflexivity.
Qed.

Lemma pm_eval_opt_clean pf sv o : po_type o = PmService \/ sv = None -> pm_eval_opt pf sv o = pm_eval_opt pf None o.
Proof. destruct pf; cbn; [apply pm_eval_clean|reflexivity]. Qed.

(* ================================================================ HasPermission *)
Definition pm_matches (req : pm_str) (e : pm_entry) : bool := pm_match (pm_lower (pe_perm e)) req.

Lemma pm_hp_loop_found u req found pf :
  fst (pm_hp_loop u req found pf) = found || existsb (pm_matches req) u.
Proof.
  revert found pf. induction u as [|e r IH]; intros; cbn [pm_hp_loop existsb].
  - rewrite orb_false_r. reflexivity.
  - unfold pm_matches at 1. destruct (pm_match (pm_lower (pe_perm e)) req); rewrite IH.
    + cbn. rewrite orb_true_r. reflexivity.
    + reflexivity.
Qed.

(* the combined filter is true (in frame state sv) only if the initial one is, or the filter of a matching entry is *)
Lemma pm_hp_loop_filter_true u req sv o : forall found pf g,
  snd (pm_hp_loop u req found pf) = Some g -> pm_eval [] sv g o = PmT ->
  (exists g0, pf = Some g0 /\ pm_eval [] sv g0 o = PmT)
  \/ (exists e f, In e u /\ pm_matches req e = true /\ pe_filter e = Some f /\ pm_eval [] sv f o = PmT).
Proof.
  induction u as [|e r IH]; intros found pf g Hs Hev; cbn [pm_hp_loop] in Hs.
  - cbn in Hs. left. exists g. auto.
  - destruct (pm_match (pm_lower (pe_perm e)) req) eqn:Hm.
    + destruct (pe_filter e) as [f|] eqn:Hf.
      * destruct pf as [g0|].
        -- destruct (IH _ _ _ Hs Hev) as [(g1 & Hg1 & Hev1)|(e' & f' & Hin & Hm' & Hf' & Hev')].
           ++ inversion Hg1; subst. cbn [pm_eval] in Hev1.
              destruct (pm_eval [] sv g0 o) eqn:E0; try discriminate.
              ** left. exists g0. auto.
              ** right. exists e, f. cbn. auto.
           ++ right. exists e', f'. cbn. auto.
        -- destruct (IH _ _ _ Hs Hev) as [(g1 & Hg1 & Hev1)|(e' & f' & Hin & Hm' & Hf' & Hev')].
           ++ inversion Hg1; subst. right. exists e, g1. cbn. auto.
           ++ right. exists e', f'. cbn. auto.
      * destruct (IH _ _ _ Hs Hev) as [H|(e' & f' & Hin & Hm' & Hf' & Hev')]; [left; assumption|].
        right. exists e', f'. cbn. auto.
    + destruct (IH _ _ _ Hs Hev) as [H|(e' & f' & Hin & Hm' & Hf' & Hev')]; [left; assumption|].
      right. exists e', f'. cbn. auto.
Qed.

(* no combined filter: no matching entry carries one *)
Lemma pm_hp_loop_filter_none u req : forall found pf,
  snd (pm_hp_loop u req found pf) = None ->
  pf = None /\ forall e, In e u -> pm_matches req e = true -> pe_filter e = None.
Proof.
  induction u as [|e r IH]; intros found pf Hs; cbn [pm_hp_loop] in Hs.
  - cbn in Hs. split; [assumption|]. intros e [].
  - destruct (pm_match (pm_lower (pe_perm e)) req) eqn:Hm.
    + destruct (pe_filter e) as [f|] eqn:Hf.
      * destruct pf; apply IH in Hs; destruct Hs as [Hs _]; discriminate.
      * apply IH in Hs. destruct Hs as [-> Hall]. split; [reflexivity|].
        intros e' [<-|Hin] Hm'; [assumption|auto].
    + apply IH in Hs. destruct Hs as [-> Hall]. split; [reflexivity|].
      intros e' [<-|Hin] Hm'; [unfold pm_matches in Hm'; congruence|auto].
Qed.

Lemma pm_spec_has_correct u perm : fst (pm_has_permission u perm) = pm_spec_has u perm.
Proof.
  destruct perm as [|c p]; [reflexivity|]. unfold pm_has_permission, pm_spec_has.
  rewrite pm_hp_loop_found. reflexivity.
Qed.

Lemma pm_check_some u perm pf : pm_check_permission u perm = Some pf ->
  pm_has_permission u perm = (true, pf).
Proof.
  unfold pm_check_permission. destruct (pm_has_permission u perm) as [found pf']. destruct found; intros H; inversion H. reflexivity.
Qed.

Lemma pm_check_none u perm : pm_check_permission u perm = None -> fst (pm_has_permission u perm) = false.
Proof.
  unfold pm_check_permission. destruct (pm_has_permission u perm) as [found pf']. destruct found; intros H; [discriminate|reflexivity].
Qed.

(* granted + combined filter true (in frame state sv)  ==>  some matching entry whose filter, if any, is true *)
Lemma pm_granted_allow u perm pf sv o :
  perm <> [] -> pm_check_permission u perm = Some pf -> pm_eval_opt pf sv o = PmT ->
  pm_spec_allow_sv u perm sv o = true.
Proof.
  intros Hne Hc Hev. apply pm_check_some in Hc.
  destruct perm as [|c p]; [congruence|]. unfold pm_has_permission in Hc.
  set (req := pm_lower (c :: p)) in *.
  assert (fst (pm_hp_loop u req false None) = true) as Hf by (rewrite Hc; reflexivity).
  assert (snd (pm_hp_loop u req false None) = pf) as Hs by (rewrite Hc; reflexivity).
  rewrite pm_hp_loop_found in Hf. cbn [orb] in Hf.
  unfold pm_spec_allow_sv. apply existsb_exists.
  destruct pf as [g|].
  - cbn in Hev. destruct (pm_hp_loop_filter_true u req sv o _ _ _ Hs Hev) as [(g0 & Hg0 & _)|(e & f & Hin & Hm & Hfe & He)].
    + discriminate.
    + exists e. split; [assumption|]. unfold pm_entry_allows. fold req. unfold pm_matches in Hm. rewrite Hm, Hfe, He. reflexivity.
  - apply pm_hp_loop_filter_none in Hs. destruct Hs as [_ Hall].
    apply existsb_exists in Hf. destruct Hf as (e & Hin & Hm). exists e. split; [assumption|].
    unfold pm_entry_allows. fold req. unfold pm_matches in Hm. rewrite Hm. rewrite (Hall e Hin Hm). reflexivity.
Qed.

(* ================================================================ GetFilterTargets: what every returned object satisfies *)
(* o is an inventory object for which the combined permission filter, evaluated on o alone, is true *)
Definition pm_ret_clean (pf : option pm_filter) (inv : list pm_obj) (o : pm_obj) : Prop :=
  In o inv /\ pm_eval_opt pf None o = PmT.

Lemma pm_last_service_none l : (forall o, In o l -> po_type o = PmHost) -> pm_last_service l = None.
Proof.
  induction l as [|o r IH]; intros H; cbn; [reflexivity|].
  rewrite IH by (intros; apply H; right; assumption).
  unfold pm_is_service. rewrite (H o) by (left; reflexivity). reflexivity.
Qed.

Lemma pm_frame_sv_none l : (forall o, In o l -> po_type o = PmHost) -> pm_frame_sv l = None.
Proof. unfold pm_frame_sv. apply pm_last_service_none. Qed.
Lemma pm_frame_sv_nil : pm_frame_sv [] = None.
Proof. reflexivity. Qed.

(* the namespace of one by-name type iteration only holds targets of that type: every evaluation in it is the
   evaluation on the object alone *)
Lemma pm_frame_clean pf t fr o :
  (forall x, In x fr -> po_type x = t) -> po_type o = t ->
  pm_eval_opt pf (pm_frame_sv fr) o = pm_eval_opt pf None o.
Proof.
  intros Hfr Ho. apply pm_eval_opt_clean. destruct t; [right|left; assumption].
  apply pm_frame_sv_none. assumption.
Qed.

Section Names.
  Variables (pf : option pm_filter) (inv : list pm_obj).

  Lemma pm_name_one_ok t n fr o :
    (forall x, In x fr -> po_type x = t) ->
    pm_name_one pf inv t n fr = inr o ->
    pm_ret_clean pf inv o /\ po_type o = t /\ po_name o = n /\ pm_lookup inv t n = Some o.
  Proof.
    intros Hfr. unfold pm_name_one. destruct (pm_lookup inv t n) as [o'|] eqn:L; [|discriminate].
    destruct (pm_eval_opt pf (pm_frame_sv fr) o') eqn:E; try discriminate.
    intros H. inversion H; subst. destruct (pm_lookup_some _ _ _ _ L) as (A & B & C).
    rewrite (pm_frame_clean pf t fr o Hfr B) in E. repeat split; auto.
  Qed.

  Lemma pm_name_list_ok t ns : forall acc fr res,
    (forall x, In x fr -> po_type x = t) -> (forall x, In x acc -> pm_ret_clean pf inv x) ->
    pm_name_list pf inv t ns acc fr = inr res -> forall x, In x res -> pm_ret_clean pf inv x.
  Proof.
    induction ns as [|n r IH]; intros acc fr res Hfr Hacc H; cbn in H.
    - inversion H; subst. assumption.
    - destruct (pm_name_one pf inv t n fr) as [e|o] eqn:E; [discriminate|].
      destruct (pm_name_one_ok t n fr o Hfr E) as (A & B & _).
      eapply IH; [| |exact H].
      + intros x Hx. apply in_app_or in Hx. destruct Hx as [Hx|[<-|[]]]; auto.
      + intros x Hx. apply in_app_or in Hx. destruct Hx as [Hx|[<-|[]]]; auto.
  Qed.

  Lemma pm_names_type_ok q t acc res :
    (forall x, In x acc -> pm_ret_clean pf inv x) ->
    pm_names_type pf inv q t acc = inr res -> forall x, In x res -> pm_ret_clean pf inv x.
  Proof.
    intros Hacc H. unfold pm_names_type in H.
    destruct (pm_q_single q t) as [n|].
    - destruct (pm_name_one pf inv t n []) as [e|o] eqn:E; [discriminate|].
      destruct (pm_name_one_ok t n [] o (fun x (Hx : In x []) => match Hx with end) E) as (A & B & _).
      assert (forall x, In x (acc ++ [o]) -> pm_ret_clean pf inv x) as Hacc'.
      { intros x Hx. apply in_app_or in Hx. destruct Hx as [Hx|[<-|[]]]; auto. }
      destruct (pm_q_plural q t) as [ns|].
      + eapply pm_name_list_ok; [|exact Hacc'|exact H]. intros x [<-|[]]. assumption.
      + inversion H; subst. assumption.
    - destruct (pm_q_plural q t) as [ns|].
      + eapply pm_name_list_ok; [|exact Hacc|exact H]. intros x [].
      + inversion H; subst. assumption.
  Qed.

  Lemma pm_by_names_ok q tys : forall acc res,
    (forall x, In x acc -> pm_ret_clean pf inv x) ->
    pm_by_names pf inv q tys acc = inr res -> forall x, In x res -> pm_ret_clean pf inv x.
  Proof.
    induction tys as [|t r IH]; intros acc res Hacc H; cbn in H.
    - inversion H; subst. assumption.
    - destruct (pm_names_type pf inv q t acc) as [e|acc'] eqn:E; [discriminate|].
      eapply IH; [|exact H]. eapply pm_names_type_ok; eassumption.
  Qed.
End Names.

Lemma pm_fast_collect_ret pf sv inv t ns : forall l,
  pm_fast_collect pf sv inv t ns = inr l -> forall x, In x l -> In x inv /\ po_type x = t /\ pm_eval_opt pf sv x = PmT.
Proof.
  induction ns as [|n r IH]; intros l H; cbn in H.
  - inversion H; subst. intros x [].
  - destruct (pm_lookup inv t n) as [o|] eqn:L; [|apply IH; assumption].
    destruct (pm_eval_opt pf sv o) eqn:E; try discriminate; [|apply IH; assumption].
    destruct (pm_fast_collect pf sv inv t r) as [e|l'] eqn:R; [discriminate|].
    inversion H; subst. intros x [<-|Hx]; [|apply (IH l' eq_refl); assumption].
    apply pm_lookup_some in L. destruct L as (A & B & C). auto.
Qed.

Lemma pm_scan_ret pf sv uf fv t : forall inv l,
  pm_scan pf sv uf fv t inv = inr l ->
  forall x, In x l -> In x inv /\ po_type x = t /\ pm_eval_opt pf sv x = PmT
                      /\ match uf with None => True | Some f => pm_eval fv None f x = PmT end.
Proof.
  induction inv as [|o r IH]; intros l H; cbn in H.
  - inversion H; subst. intros x [].
  - destruct (pm_type_eqb (po_type o) t) eqn:T.
    + destruct (pm_eval_opt pf sv o) eqn:E; try discriminate.
      * destruct (match uf with None => PmT | Some f => pm_eval fv None f o end) eqn:U; try discriminate.
        -- destruct (pm_scan pf sv uf fv t r) as [e|l'] eqn:R; [discriminate|].
           inversion H; subst. intros x [<-|Hx].
           ++ apply pm_type_eqb_eq in T. repeat split; auto. left; reflexivity. destruct uf; auto.
           ++ destruct (IH _ eq_refl x Hx) as (A & B). split; [right; assumption|assumption].
        -- intros x Hx. destruct (IH _ H x Hx) as (A & B). split; [right; assumption|assumption].
      * intros x Hx. destruct (IH _ H x Hx) as (A & B). split; [right; assumption|assumption].
    + intros x Hx. destruct (IH _ H x Hx) as (A & B). split; [right; assumption|assumption].
Qed.

Lemma pm_by_filter_ret fast pf sv inv t uf fv l :
  pm_by_filter fast pf sv inv t uf fv = inr l ->
  forall x, In x l -> In x inv /\ po_type x = t /\ pm_eval_opt pf sv x = PmT.
Proof.
  unfold pm_by_filter. intros H x Hx. destruct uf as [f|].
  - destruct (if fast && negb (pm_shadowed fv) then pm_targets t f fv else None) as [ns|].
    + eapply pm_fast_collect_ret; eassumption.
    + destruct (pm_scan_ret _ _ _ _ _ _ _ H x Hx) as (A & B & C & _). auto.
  - destruct (pm_scan_ret _ _ _ _ _ _ _ H x Hx) as (A & B & C & _). auto.
Qed.

(* decomposition of a successful call *)
Lemma pm_filter_targets_ok fast u perm tys q inv objs c :
  pm_filter_targets fast u perm tys q inv = (c, PmOk objs) ->
  exists pf res, pm_check_permission u perm = Some pf /\ pm_by_names pf inv q tys [] = inr res /\
    (objs = res \/ exists t l, pm_by_filter fast pf None inv t (pq_filter q) (pq_fvars q) = inr l
                               /\ In t tys /\ objs = res ++ l).
Proof.
  unfold pm_filter_targets. rewrite pm_frame_sv_nil. destruct (pm_check_permission u perm) as [pf|]; [|discriminate].
  destruct (pm_by_names pf inv q tys []) as [e|res] eqn:N; [discriminate|].
  destruct (pm_is_some (pq_filter q) || pm_is_nil res).
  - destruct (pq_type q) as [qt|]; [|discriminate].
    destruct qt; try discriminate; cbn [pm_qtype_in].
    + destruct (existsb (pm_type_eqb PmHost) tys) eqn:E; [|discriminate].
      destruct (pm_by_filter fast pf None inv PmHost (pq_filter q) (pq_fvars q)) as [e|l] eqn:BF; [discriminate|].
      intros H. inversion H; subst. exists pf, res. split; [reflexivity|]. split; [exact N|]. right.
      exists PmHost, l. split; [assumption|]. split; [|reflexivity].
      apply existsb_exists in E. destruct E as (x & Hx & Hex). apply pm_type_eqb_eq in Hex. subst. assumption.
    + destruct (existsb (pm_type_eqb PmService) tys) eqn:E; [|discriminate].
      destruct (pm_by_filter fast pf None inv PmService (pq_filter q) (pq_fvars q)) as [e|l] eqn:BF; [discriminate|].
      intros H. inversion H; subst. exists pf, res. split; [reflexivity|]. split; [exact N|]. right.
      exists PmService, l. split; [assumption|]. split; [|reflexivity].
      apply existsb_exists in E. destruct E as (x & Hx & Hex). apply pm_type_eqb_eq in Hex. subst. assumption.
  - intros H. inversion H; subst. eexists; eexists. split; [reflexivity|]. split; [exact N|]. left; reflexivity.
Qed.

(* C18_only_permitted, in terms of the combined filter: every returned object is an inventory object for which
   the combined permission filter - evaluated on that object alone - is true *)
Theorem pm_only_permitted_clean fast u perm tys q inv objs c :
  pm_filter_targets fast u perm tys q inv = (c, PmOk objs) ->
  exists pf, pm_check_permission u perm = Some pf /\ forall o, In o objs -> pm_ret_clean pf inv o.
Proof.
  intros H. destruct (pm_filter_targets_ok _ _ _ _ _ _ _ _ H) as (pf & res & Hc & Hn & Hobjs).
  exists pf. split; [assumption|]. intros o Ho.
  pose proof (pm_by_names_ok pf inv q tys [] res (fun x (Hx : In x []) => match Hx with end) Hn) as Hres.
  destruct Hobjs as [->|(t & l & Hbf & Ht & ->)]; [auto|].
  apply in_app_or in Ho. destruct Ho as [Ho|Ho]; [auto|].
  destruct (pm_by_filter_ret _ _ _ _ _ _ _ _ Hbf o Ho) as (A & B & C). split; assumption.
Qed.

(* ================================================================ reject first *)
Theorem pm_reject_first fast u perm tys q inv :
  perm <> [] -> (forall e, In e u -> pm_match (pm_lower (pe_perm e)) (pm_lower perm) = false) ->
  pm_filter_targets fast u perm tys q inv = (false, PmErr PmErrPerm).
Proof.
  intros Hne Hno. unfold pm_filter_targets.
  assert (pm_check_permission u perm = None) as ->; [|reflexivity].
  unfold pm_check_permission. destruct (pm_has_permission u perm) as [found pf] eqn:E.
  assert (found = false) as ->; [|reflexivity].
  change found with (fst (found, pf)). rewrite <- E. rewrite pm_spec_has_correct.
  destruct perm as [|c p]; [congruence|]. cbn [pm_spec_has].
  destruct (existsb _ u) eqn:X; [|reflexivity]. apply existsb_exists in X. destruct X as (e & Hin & Hm).
  rewrite (Hno e Hin) in Hm. discriminate.
Qed.

(* ================================================================ by name denied *)
(* the query addresses (t, n) by name *)
Definition pm_names (q : pm_query) (t : pm_type) (n : pm_str) : Prop :=
  pm_q_single q t = Some n \/ exists ns, pm_q_plural q t = Some ns /\ In n ns.

Lemma pm_name_one_denied pf inv t n o fr :
  (forall x, In x fr -> po_type x = t) -> pm_lookup inv t n = Some o -> pm_eval_opt pf None o <> PmT ->
  exists e, pm_name_one pf inv t n fr = inl e.
Proof.
  intros Hfr L Hno. unfold pm_name_one. rewrite L.
  rewrite (pm_frame_clean pf t fr o Hfr) by (apply pm_lookup_some in L; tauto).
  destruct (pm_eval_opt pf None o); eauto. congruence.
Qed.

Lemma pm_name_list_denied pf inv t n o : forall ns acc fr,
  (forall x, In x fr -> po_type x = t) ->
  In n ns -> pm_lookup inv t n = Some o -> pm_eval_opt pf None o <> PmT ->
  exists e, pm_name_list pf inv t ns acc fr = inl e.
Proof.
  induction ns as [|m r IH]; intros acc fr Hfr Hin L Hno; [destruct Hin|]. cbn.
  destruct (pm_name_one pf inv t m fr) as [e|o'] eqn:E; [eauto|].
  destruct Hin as [->|Hin].
  - destruct (pm_name_one_denied pf inv t n o fr Hfr L Hno) as (e & He). congruence.
  - apply IH; auto. intros x Hx. apply in_app_or in Hx. destruct Hx as [Hx|[<-|[]]]; [auto|].
    unfold pm_name_one in E. destruct (pm_lookup inv t m) as [o2|] eqn:L2; [|discriminate].
    destruct (pm_eval_opt pf (pm_frame_sv fr) o2); try discriminate. inversion E; subst.
    apply pm_lookup_some in L2. tauto.
Qed.

Lemma pm_names_type_denied pf inv q t n o acc :
  pm_names q t n -> pm_lookup inv t n = Some o -> pm_eval_opt pf None o <> PmT ->
  exists e, pm_names_type pf inv q t acc = inl e.
Proof.
  intros Hn L Hno. unfold pm_names_type.
  destruct Hn as [Hs|(ns & Hp & Hin)].
  - rewrite Hs. destruct (pm_name_one_denied pf inv t n o [] (fun x (Hx : In x []) => match Hx with end) L Hno) as (e & ->). eauto.
  - rewrite Hp. destruct (pm_q_single q t) as [n0|].
    + destruct (pm_name_one pf inv t n0 []) as [e|o0] eqn:E; [eauto|].
      eapply pm_name_list_denied; try eassumption. intros x [<-|[]].
      unfold pm_name_one in E. destruct (pm_lookup inv t n0) as [o2|] eqn:L2; [|discriminate].
      destruct (pm_eval_opt pf (pm_frame_sv []) o2); try discriminate. inversion E; subst.
      apply pm_lookup_some in L2. tauto.
    + eapply pm_name_list_denied; try eassumption. intros x [].
Qed.

Lemma pm_by_names_denied pf inv q t n o : forall tys acc,
  In t tys -> pm_names q t n -> pm_lookup inv t n = Some o -> pm_eval_opt pf None o <> PmT ->
  exists e, pm_by_names pf inv q tys acc = inl e.
Proof.
  induction tys as [|t' r IH]; intros acc Hin Hn L Hno; [destruct Hin|]. cbn.
  destruct (pm_names_type pf inv q t' acc) as [e|acc'] eqn:E; [eauto|].
  destruct Hin as [->|Hin]; [|eauto].
  destruct (pm_names_type_denied pf inv q t n o acc Hn L Hno) as (e & He). congruence.
Qed.

(* an object addressed by name for which the combined filter (on the object alone) is not true: error *)
Theorem pm_by_name_denied fast u perm tys q inv t n o pf :
  In t tys -> pm_names q t n -> pm_lookup inv t n = Some o ->
  pm_check_permission u perm = Some pf -> pm_eval_opt pf None o <> PmT ->
  exists c e, pm_filter_targets fast u perm tys q inv = (c, PmErr e).
Proof.
  intros Hin Hn L Hc Hno. unfold pm_filter_targets. rewrite Hc.
  destruct (pm_by_names_denied pf inv q t n o tys [] Hin Hn L Hno) as (e & ->). eauto.
Qed.

(* ================================================================ the access paths agree *)
Definition pm_qtype_of (t : pm_type) : pm_qtype := match t with PmHost => PmQHost | PmService => PmQService end.
Definition pm_q0 : pm_query :=
  {| pq_host := None; pq_service := None; pq_hosts := None; pq_services := None; pq_type := None; pq_filter := None; pq_fvars := [] |}.
Definition pm_q_by_name (t : pm_type) (n : pm_str) : pm_query :=
  match t with
  | PmHost => {| pq_host := Some n; pq_service := None; pq_hosts := None; pq_services := None; pq_type := None; pq_filter := None; pq_fvars := [] |}
  | PmService => {| pq_host := None; pq_service := Some n; pq_hosts := None; pq_services := None; pq_type := None; pq_filter := None; pq_fvars := [] |}
  end.
Definition pm_q_by_list (t : pm_type) (n : pm_str) : pm_query :=
  match t with
  | PmHost => {| pq_host := None; pq_service := None; pq_hosts := Some [n]; pq_services := None; pq_type := None; pq_filter := None; pq_fvars := [] |}
  | PmService => {| pq_host := None; pq_service := None; pq_hosts := None; pq_services := Some [n]; pq_type := None; pq_filter := None; pq_fvars := [] |}
  end.
Definition pm_q_by_type (t : pm_type) (uf : option pm_filter) (fv : list (pm_str * pm_str)) : pm_query :=
  {| pq_host := None; pq_service := None; pq_hosts := None; pq_services := None; pq_type := Some (pm_qtype_of t); pq_filter := uf; pq_fvars := fv |}.

Section Paths.
  Variables (u : list pm_entry) (perm : pm_str) (inv : list pm_obj) (o : pm_obj) (pf : option pm_filter).
  Hypothesis Hperm : pm_check_permission u perm = Some pf.
  Hypothesis Hlook : pm_lookup inv (po_type o) (po_name o) = Some o.   (* names are unique per type *)

  Lemma pm_path_by_name fast :
    snd (pm_filter_targets fast u perm [po_type o] (pm_q_by_name (po_type o) (po_name o)) inv) = PmOk [o]
    <-> pm_eval_opt pf None o = PmT.
  Proof.
    unfold pm_filter_targets. rewrite Hperm. unfold pm_q_by_name.
    destruct (po_type o) eqn:T; cbn [pm_by_names]; unfold pm_names_type, pm_name_one, pm_q_single, pm_q_plural;
      cbn [pq_host pq_service pq_hosts pq_services pm_name_list]; rewrite ?pm_frame_sv_nil; rewrite Hlook;
      destruct (pm_eval_opt pf None o); cbn; split; intros H; congruence.
  Qed.

  Lemma pm_path_by_list fast :
    snd (pm_filter_targets fast u perm [po_type o] (pm_q_by_list (po_type o) (po_name o)) inv) = PmOk [o]
    <-> pm_eval_opt pf None o = PmT.
  Proof.
    unfold pm_filter_targets. rewrite Hperm. unfold pm_q_by_list.
    destruct (po_type o) eqn:T; cbn [pm_by_names]; unfold pm_names_type, pm_name_one, pm_q_single, pm_q_plural;
      cbn [pq_host pq_service pq_hosts pq_services pm_name_list]; unfold pm_name_one; rewrite ?pm_frame_sv_nil; rewrite Hlook;
      destruct (pm_eval_opt pf None o); cbn; split; intros H; congruence.
  Qed.

  Lemma pm_scan_complete sv uf fv : forall inv0 l,
    pm_scan pf sv uf fv (po_type o) inv0 = inr l -> In o inv0 -> pm_eval_opt pf sv o = PmT ->
    match uf with None => True | Some f => pm_eval fv None f o = PmT end -> In o l.
  Proof.
    induction inv0 as [|x r IH]; intros l H Hin Hev Hu; [destruct Hin|]. cbn in H.
    destruct Hin as [->|Hin].
    - rewrite (proj2 (pm_type_eqb_eq _ _) eq_refl) in H. rewrite Hev in H.
      destruct uf as [f|]; [rewrite Hu in H|];
        (destruct (pm_scan pf sv _ fv (po_type o) r); [discriminate|inversion H; left; reflexivity]).
    - destruct (pm_type_eqb (po_type x) (po_type o)); [|eauto].
      destruct (pm_eval_opt pf sv x); try discriminate; [|eauto].
      destruct (match uf with None => PmT | Some f => pm_eval fv None f x end); try discriminate; [|eauto].
      destruct (pm_scan pf sv uf fv (po_type o) r) eqn:R; [discriminate|]. inversion H; subst. right. eauto.
  Qed.

  Lemma pm_filter_targets_type_only fast uf fv :
    snd (pm_filter_targets fast u perm [po_type o] (pm_q_by_type (po_type o) uf fv) inv) =
    match pm_by_filter fast pf None inv (po_type o) uf fv with inl e => PmErr e | inr l => PmOk l end.
  Proof.
    unfold pm_filter_targets. rewrite Hperm. unfold pm_q_by_type.
    cbn [pm_by_names]. unfold pm_names_type, pm_q_single, pm_q_plural.
    destruct (po_type o); cbn [pq_host pq_service pq_hosts pq_services pq_type pq_filter pq_fvars pm_is_nil pm_qtype_of];
      rewrite orb_true_r; cbn [pm_qtype_in existsb pm_type_eqb orb snd app]; rewrite pm_frame_sv_nil; reflexivity.
  Qed.

  (* by type (no user filter) and by type + user filter on the slow path *)
  Lemma pm_path_by_type uf fv objs :
    snd (pm_filter_targets false u perm [po_type o] (pm_q_by_type (po_type o) uf fv) inv) = PmOk objs ->
    (In o objs <-> pm_eval_opt pf None o = PmT /\ match uf with None => True | Some f => pm_eval fv None f o = PmT end).
  Proof.
    rewrite pm_filter_targets_type_only. unfold pm_by_filter.
    assert (In o inv) as Hin by (apply pm_lookup_some in Hlook; tauto).
    assert (forall l, pm_scan pf None uf fv (po_type o) inv = inr l ->
              (In o l <-> pm_eval_opt pf None o = PmT /\ match uf with None => True | Some f => pm_eval fv None f o = PmT end)) as G.
    { intros l S. split.
      - intros Ho. destruct (pm_scan_ret _ _ _ _ _ _ _ S o Ho) as (_ & _ & A & B). auto.
      - intros [A B]. eapply pm_scan_complete; eauto. }
    destruct uf as [f|]; cbn [negb]; (destruct (pm_scan pf None _ fv (po_type o) inv) as [e|l] eqn:S; [discriminate|]);
      intros H; inversion H; subst; apply G; reflexivity.
  Qed.

  Lemma pm_fast_collect_complete sv : forall ns l,
    pm_fast_collect pf sv inv (po_type o) ns = inr l -> In (po_name o) ns -> pm_eval_opt pf sv o = PmT -> In o l.
  Proof.
    induction ns as [|n r IH]; intros l H Hin Hev; [destruct Hin|]. cbn in H.
    destruct Hin as [->|Hin].
    - rewrite Hlook, Hev in H. destruct (pm_fast_collect pf sv inv (po_type o) r); [discriminate|].
      inversion H. left. reflexivity.
    - destruct (pm_lookup inv (po_type o) n) as [x|]; [|eauto].
      destruct (pm_eval_opt pf sv x); try discriminate; [|eauto].
      destruct (pm_fast_collect pf sv inv (po_type o) r) eqn:R; [discriminate|]. inversion H; subst. right. eauto.
  Qed.

  (* the fast path: host.name == "<name>" *)
  Lemma pm_path_fast_host objs :
    po_type o = PmHost ->
    snd (pm_filter_targets true u perm [po_type o] (pm_q_by_type (po_type o) (Some (PmFName PmScHost (po_name o))) []) inv) = PmOk objs ->
    (In o objs <-> pm_eval_opt pf None o = PmT).
  Proof.
    intros Ht. rewrite pm_filter_targets_type_only. unfold pm_by_filter. cbn [andb negb pm_shadowed existsb].
    assert (pm_targets (po_type o) (PmFName PmScHost (po_name o)) [] = Some [po_name o]) as -> by (rewrite Ht; reflexivity).
    destruct (pm_fast_collect pf None inv (po_type o) [po_name o]) as [e|l] eqn:F; [discriminate|].
    intros H. inversion H; subst. split.
    - intros Ho. destruct (pm_fast_collect_ret _ _ _ _ _ _ F o Ho) as (_ & _ & A). assumption.
    - intros A. eapply pm_fast_collect_complete; [exact F|left; reflexivity|assumption].
  Qed.

  (* the fast path for services: host.name == "<host>" && service.name == "<short name>" (either order);
     the full name of a service is <host>!<short name> (Service's NameComposer) *)
  Lemma pm_path_fast_service objs (swap : bool) :
    po_type o = PmService -> po_name o = po_host o ++ [33] ++ po_short o ->
    let f := if swap then PmFAnd (PmFName PmScService (po_short o)) (PmFName PmScHost (po_host o))
             else PmFAnd (PmFName PmScHost (po_host o)) (PmFName PmScService (po_short o)) in
    snd (pm_filter_targets true u perm [po_type o] (pm_q_by_type (po_type o) (Some f) []) inv) = PmOk objs ->
    (In o objs <-> pm_eval_opt pf None o = PmT).
  Proof.
    intros Ht Hname f. rewrite pm_filter_targets_type_only. unfold pm_by_filter. cbn [andb negb pm_shadowed existsb].
    assert (pm_targets (po_type o) f [] = Some [po_name o]) as ->.
    { rewrite Ht, Hname. unfold f. destruct swap; reflexivity. }
    destruct (pm_fast_collect pf None inv (po_type o) [po_name o]) as [e|l] eqn:F; [discriminate|].
    intros H. inversion H; subst. split.
    - intros Ho. destruct (pm_fast_collect_ret _ _ _ _ _ _ F o Ho) as (_ & _ & A). assumption.
    - intros A. eapply pm_fast_collect_complete; [exact F|left; reflexivity|assumption].
  Qed.
End Paths.

(* ================================================================ joins *)
Theorem pm_join_only_permitted u o :
  pm_join_visible u o = true -> pm_spec_allow u (pm_query_perm (po_type o)) o = true.
Proof.
  unfold pm_join_visible. destruct (pm_has_permission u (pm_query_perm (po_type o))) as [granted pf] eqn:E.
  intros H. apply andb_prop in H. destruct H as [-> Ht].
  apply (pm_granted_allow u (pm_query_perm (po_type o)) pf None o).
  - destruct (po_type o); discriminate.
  - unfold pm_check_permission. rewrite E. reflexivity.
  - destruct (pm_eval_opt pf None o); [reflexivity|discriminate|discriminate].
Qed.

(* ================================================================ packaged statements for Properties_C18.v *)
Theorem pm_only_permitted fast u perm tys q inv objs c :
  perm <> [] ->
  pm_filter_targets fast u perm tys q inv = (c, PmOk objs) ->
  forall o, In o objs -> In o inv /\ pm_spec_allow u perm o = true.
Proof.
  intros Hne H o Ho.
  destruct (pm_only_permitted_clean _ _ _ _ _ _ _ _ H) as (pf & Hc & Hall).
  destruct (Hall o Ho) as [Hin Hev]. split; [assumption|].
  exact (pm_granted_allow u perm pf None o Hne Hc Hev).
Qed.

Theorem pm_paths_agree u perm inv o pf :
  pm_check_permission u perm = Some pf -> pm_lookup inv (po_type o) (po_name o) = Some o ->
  (forall fast, snd (pm_filter_targets fast u perm [po_type o] (pm_q_by_name (po_type o) (po_name o)) inv) = PmOk [o]
                <-> pm_eval_opt pf None o = PmT) /\
  (forall fast, snd (pm_filter_targets fast u perm [po_type o] (pm_q_by_list (po_type o) (po_name o)) inv) = PmOk [o]
                <-> pm_eval_opt pf None o = PmT) /\
  (forall uf fv objs, snd (pm_filter_targets false u perm [po_type o] (pm_q_by_type (po_type o) uf fv) inv) = PmOk objs ->
                (In o objs <-> pm_eval_opt pf None o = PmT /\ match uf with None => True | Some f => pm_eval fv None f o = PmT end)) /\
  (forall objs, po_type o = PmHost ->
                snd (pm_filter_targets true u perm [po_type o] (pm_q_by_type (po_type o) (Some (PmFName PmScHost (po_name o))) []) inv) = PmOk objs ->
                (In o objs <-> pm_eval_opt pf None o = PmT)) /\
  (forall objs (swap : bool), po_type o = PmService -> po_name o = po_host o ++ [33] ++ po_short o ->
                snd (pm_filter_targets true u perm [po_type o]
                       (pm_q_by_type (po_type o)
                          (Some (if swap then PmFAnd (PmFName PmScService (po_short o)) (PmFName PmScHost (po_host o))
                                 else PmFAnd (PmFName PmScHost (po_host o)) (PmFName PmScService (po_short o)))) []) inv) = PmOk objs ->
                (In o objs <-> pm_eval_opt pf None o = PmT)).
Proof.
  intros Hc Hl.
  split; [intros fast; apply pm_path_by_name; assumption|].
  split; [intros fast; apply pm_path_by_list; assumption|].
  split; [intros uf fv objs H; eapply pm_path_by_type; eassumption|].
  split; [intros objs Ht H; eapply pm_path_fast_host; eassumption|].
  intros objs swap Ht Hn H. eapply (pm_path_fast_service u perm inv o pf Hc Hl objs swap Ht Hn). exact H.
Qed.
