(* Model constants against the regenerated source facts (coq/Facts/Facts_c18.v).  A fact srcfacts could not
   recognise is None and imposes nothing ("compared only"); a recognised fact must agree. *)
From Coq Require Import String.
From Icv Require Import Base.Tac Perm.PmModel Facts.Facts_c18.
Local Open Scope Z_scope.

Definition pm_prefix_ok (f : option (list Z)) (p : list Z) : Prop := match f with Some x => x = p | None => True end.
Definition pm_guard_ok (f : option bool) : Prop := match f with Some b => b = true | None => True end.

Definition pm_modify_prefix : pm_str := [111;98;106;101;99;116;115;47;109;111;100;105;102;121;47].
Definition pm_delete_prefix : pm_str := [111;98;106;101;99;116;115;47;100;101;108;101;116;101;47].
Definition pm_actions_prefix : pm_str := [97;99;116;105;111;110;115;47].

(* the DSL name of a namespace variable *)
Definition pm_scope_name (v : pm_scope) : string :=
  match v with
  | PmScObj => "obj" | PmScHost => "host" | PmScService => "service"
  | PmScNav PmNCheckCommand => "check_command" | PmScNav PmNCheckPeriod => "check_period"
  | PmScNav PmNEventCommand => "event_command" | PmScNav PmNCommandEndpoint => "command_endpoint"
  end%string.
Definition pm_navs_ok (f : option (list string)) (t : pm_type) : Prop :=
  match f with Some l => l = map pm_scope_name (pm_nav_vars t) | None => True end.

(* the byte-list names the model's filter_vars shadowing guard compares with = the DSL names above *)
Fixpoint pm_zs_of_string (s : string) : list Z :=
  match s with
  | EmptyString => []
  | String c r => Z.of_nat (Ascii.nat_of_ascii c) :: pm_zs_of_string r
  end.
Lemma pm_scope_zname_ok : forall v, pm_scope_zname v = pm_zs_of_string (pm_scope_name v).
Proof. intros [| | |[]]; reflexivity. Qed.


Lemma pm_source_facts :
  pm_prefix_ok f_pm_query_prefix pm_query_prefix /\ pm_guard_ok f_pm_query_guard /\
  pm_prefix_ok f_pm_modify_prefix pm_modify_prefix /\ pm_guard_ok f_pm_modify_guard /\
  pm_prefix_ok f_pm_delete_prefix pm_delete_prefix /\ pm_guard_ok f_pm_delete_guard /\
  pm_prefix_ok f_pm_actions_prefix pm_actions_prefix /\ pm_guard_ok f_pm_actions_guard /\
  pm_prefix_ok f_pm_join_prefix pm_query_prefix /\ pm_guard_ok f_pm_join_guard /\
  pm_navs_ok f_pm_nav_host PmHost /\ pm_navs_ok f_pm_nav_service PmService /\ pm_guard_ok f_pm_bind_guard /\
  pm_guard_ok f_pm_perm_ns_private /\
  pm_guard_ok f_pm_join_cache_by_identity /\ pm_guard_ok f_pm_join_type_cache_by_identity /\ pm_guard_ok f_pm_join_attrs_sorted.
Proof. cbv. repeat split. Qed.
