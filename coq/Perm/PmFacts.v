(* Model constants against the regenerated source facts (coq/Facts/Facts_c18.v).  A fact srcfacts could not
   recognise is None and imposes nothing ("compared only"); a recognised fact must agree. *)
From Coq Require Import String.
From Icv Require Import Base.Tac Perm.PmModel Perm.PmObs Perm.PmAttrs Perm.PmFieldTables Facts.Facts_c18.
Local Open Scope Z_scope.

Definition pm_prefix_ok (f : option (list Z)) (p : list Z) : Prop := match f with Some x => x = p | None => True end.
Definition pm_guard_ok (f : option bool) : Prop := match f with Some b => b = true | None => True end.

Definition pm_modify_prefix : pm_str := [111;98;106;101;99;116;115;47;109;111;100;105;102;121;47].
Definition pm_delete_prefix : pm_str := [111;98;106;101;99;116;115;47;100;101;108;101;116;101;47].
Definition pm_actions_prefix : pm_str := [97;99;116;105;111;110;115;47].

(* the DSL name of a namespace variable *)
Definition pm_scope_name (v : pm_scope) : string :=
  match v with
  | PmScObj => "obj" | PmScHost => "host" | PmScService => "service"
  | PmScNav PmNCheckCommand => "check_command" | PmScNav PmNCheckPeriod => "check_period"
  | PmScNav PmNEventCommand => "event_command" | PmScNav PmNCommandEndpoint => "command_endpoint"
  end%string.
Definition pm_navs_ok (f : option (list string)) (t : pm_type) : Prop :=
  match f with Some l => l = map pm_scope_name (pm_nav_vars t) | None => True end.

(* the byte-list names the model's filter_vars shadowing guard compares with = the DSL names above *)
Fixpoint pm_zs_of_string (s : string) : list Z :=
  match s with
  | EmptyString => []
  | String c r => Z.of_nat (Ascii.nat_of_ascii c) :: pm_zs_of_string r
  end.
Lemma pm_scope_zname_ok : forall v, pm_scope_zname v = pm_zs_of_string (pm_scope_name v).
Proof. intros [| | |[]]; reflexivity. Qed.


Lemma pm_source_facts :
  pm_prefix_ok f_pm_query_prefix pm_query_prefix /\ pm_guard_ok f_pm_query_guard /\
  pm_prefix_ok f_pm_modify_prefix pm_modify_prefix /\ pm_guard_ok f_pm_modify_guard /\
  pm_prefix_ok f_pm_delete_prefix pm_delete_prefix /\ pm_guard_ok f_pm_delete_guard /\
  pm_prefix_ok f_pm_actions_prefix pm_actions_prefix /\ pm_guard_ok f_pm_actions_guard /\
  pm_prefix_ok f_pm_join_prefix pm_query_prefix /\ pm_guard_ok f_pm_join_guard /\
  pm_navs_ok f_pm_nav_host PmHost /\ pm_navs_ok f_pm_nav_service PmService /\ pm_guard_ok f_pm_bind_guard /\
  pm_guard_ok f_pm_perm_ns_private /\
  pm_guard_ok f_pm_join_cache_by_identity /\ pm_guard_ok f_pm_join_type_cache_by_identity /\ pm_guard_ok f_pm_join_attrs_sorted.
Proof. cbv. repeat split. Qed.

(* ---- round 5: the field tables of the types the object query serialises, regenerated from the .ti files *)
(* what the attribute theorems need of the real tables: a field whose getter returns a config object is an internal
   navigation field (no config / state flag), and field names are unique within a type *)
Definition pm_cur_tables_check : bool :=
  forallb (fun x => pm_tbl_wf (snd x) && pm_tbl_nodup (snd x)) pm_cur_tables.
Lemma pm_cur_tables_checked : pm_cur_tables_check = true.
Proof. vm_compute. reflexivity. Qed.

Lemma pm_cur_table_wf : forall n, pm_tbl_wf (pm_cur_table n) = true.
Proof.
  intros n. unfold pm_cur_table. destruct (find _ pm_cur_tables) as [x|] eqn:F; [|reflexivity].
  apply find_some in F. destruct F as [Hin _]. pose proof pm_cur_tables_checked as C. unfold pm_cur_tables_check in C.
  eapply forallb_forall in C; [|exact Hin]. apply andb_prop in C. apply C.
Qed.

(* the navigation fields the joins model uses are the navigation fields of the regenerated tables (Host, Service) *)
Definition pm_table_navs (tbl : pm_ftable) : list pm_str := map pf_navname (filter pf_nav tbl).
Definition pm_navs_table_ok (t : pm_type) : Prop :=
  match find (fun x => pm_str_eqb (fst x) (pm_type_name t)) pm_cur_tables with
  | Some x => pm_table_navs (snd x) = map pm_scope_zname (pm_nav_vars t)
  | None => True
  end.
Lemma pm_navs_tables_ok : pm_navs_table_ok PmHost /\ pm_navs_table_ok PmService.
Proof. split; vm_compute; reflexivity. Qed.

Lemma pm_attr_source_facts : pm_guard_ok f_pm_attrs_hide_in_emit_loop.
Proof. cbv. exact I || reflexivity. Qed.

(* ---- round 5 (e): the handlers act on the pointers GetFilterTargets returned (no second lookup by name between
   authorisation and action): the configurations of Perm/PmConc.v that describe this source tree *)
From Icv Require Import Perm.PmConc.
Definition pm_ccfg_modify : pm_ccfg := {| pc_lock := true; pc_reresolve := false |}.
Definition pm_ccfg_delete : pm_ccfg := {| pc_lock := true; pc_reresolve := false |}.
Definition pm_ccfg_actions : pm_ccfg := {| pc_lock := false; pc_reresolve := false |}.
Definition pm_ccfg_query : pm_ccfg := {| pc_lock := false; pc_reresolve := false |}.
Definition pm_reresolve_ok (f : option bool) (c : pm_ccfg) : Prop :=
  match f with Some b => pc_reresolve c = negb b | None => True end.
Lemma pm_act_source_facts :
  pm_reresolve_ok f_pm_query_acts_on_pointer pm_ccfg_query /\ pm_reresolve_ok f_pm_modify_acts_on_pointer pm_ccfg_modify /\
  pm_reresolve_ok f_pm_delete_acts_on_pointer pm_ccfg_delete /\ pm_reresolve_ok f_pm_actions_acts_on_pointer pm_ccfg_actions.
Proof. cbv. repeat split. Qed.
