(* C18 - the permission filter's verdict is independent of the request.
   [pm_verdict G pf o] is a function of the combined permission filter (= the user's permission entries and the
   required permission), the target and the global constants ONLY.  [pm_filter_targets_ref] is GetFilterTargets with
   every evaluation of the permission filter replaced by that function - no permission namespace is threaded through
   the loops, no filter_vars reach it, the user's filter is evaluated on the object alone - and the transcription of the
   code, which threads the permission frame's namespace through every loop and keeps the user's frame next to it, is
   proved EQUAL to it for all inputs. *)
From Icv Require Import Base.Tac Perm.PmModel Perm.PmProofs.
Local Open Scope Z_scope.

(* ---------------------------------------------------------------- the evaluation environment, made explicit *)
(* what a name resolves to in a filter frame whose namespace holds the bindings [ns] and, besides them, the entries
   [extra] (what anybody else Set into that namespace), with the global constants G behind it:
   Locals (none) -> frame.Self = the namespace -> imports / globals *)
Definition pm_resolve_free (G extra : pm_env) (x : pm_str) : option pm_fval := pm_env_get x (extra ++ G).

Lemma pm_env_get_app x a b : pm_env_get x (a ++ b) = match pm_env_get x a with Some v => Some v | None => pm_env_get x b end.
Proof.
  induction a as [|[k v] r IH]; cbn; [reflexivity|]. destruct (pm_str_eqb x k); [reflexivity|exact IH].
Qed.

(* the names a filter mentions that EvaluateFilter does not bind *)
Fixpoint pm_free_names (f : pm_filter) : list pm_str :=
  match f with
  | PmFNameVar _ x | PmFVarFree _ _ x | PmFNameIn _ x | PmFMatchVar _ x => [x]
  | PmFAnd a b | PmFOr a b => pm_free_names a ++ pm_free_names b
  | PmFNot a => pm_free_names a
  | _ => []
  end.

(* evaluation depends on the environment only through the free names of the filter *)
Lemma pm_eval_env_ext e1 e2 ns f :
  (forall x, In x (pm_free_names f) -> pm_env_get x e1 = pm_env_get x e2) -> pm_eval e1 ns f = pm_eval e2 ns f.
Proof.
  induction f; intros H; cbn [pm_eval]; try reflexivity;
    try (rewrite (H x (or_introl eq_refl)); reflexivity).
  - rewrite IHf1, IHf2; [reflexivity| |]; intros x Hx; apply H; cbn; apply in_or_app; auto.
  - rewrite IHf1, IHf2; [reflexivity| |]; intros x Hx; apply H; cbn; apply in_or_app; auto.
  - rewrite IHf; [reflexivity|]. exact H.
Qed.

(* WHY the permission frame must not see filter_vars: a frame whose namespace received [extra] evaluates the filter
   as the statement wants it (globals only) exactly as long as [extra] defines none of the filter's free names.
   In the code extra = [] for the permission frame (its namespace is a `new Namespace()` nobody else writes to);
   for the user's frame extra = filter_vars. *)
Lemma pm_eval_extra_irrelevant G extra ns f :
  (forall x, In x (pm_free_names f) -> pm_env_get x extra = None) -> pm_eval (extra ++ G) ns f = pm_eval G ns f.
Proof.
  intros H. apply pm_eval_env_ext. intros x Hx. rewrite pm_env_get_app, (H x Hx). reflexivity.
Qed.

(* ... and it is not a technicality: one filter_vars entry of the right name flips the verdict *)
Lemma pm_eval_extra_matters :
  let o := {| po_type := PmHost; po_name := [104]; po_short := [104]; po_host := [104]; po_vars := [([116], [100])];
              po_hvars := [([116], [100])]; po_cc := Some [99]; po_cp := None; po_ec := None; po_ce := None |} in
  let f := PmFVarFree PmScHost [116] [65] in          (* host.vars.t == A *)
  let G := [([65], PmVS [111])] in                    (* A = "o" *)
  let fv := [([65], PmVS [100])] in                   (* filter_vars: A = "d" *)
  pm_eval G (pm_bind [] o) f = PmF /\ pm_eval (fv ++ G) (pm_bind [] o) f = PmT.
Proof. vm_compute. split; reflexivity. Qed.

Section WithGlobals.
Variable G : pm_env.

(* ---------------------------------------------------------------- the verdict and the reference semantics *)
Definition pm_verdict (pf : option pm_filter) (o : pm_obj) : pm_tri := pm_eval_opt G pf o.

Definition pm_name_one_ref (pf : option pm_filter) (inv : list pm_obj) (t : pm_type) (n : pm_str) : pm_err + pm_obj :=
  match pm_lookup inv t n with
  | None => inl PmErrNoObj
  | Some o => match pm_verdict pf o with PmT => inr o | PmF => inl PmErrDenied | PmE => inl PmErrScript end
  end.

Fixpoint pm_name_list_ref (pf : option pm_filter) (inv : list pm_obj) (t : pm_type) (ns : list pm_str)
         (acc : list pm_obj) : pm_err + list pm_obj :=
  match ns with
  | [] => inr acc
  | n :: r =>
      match pm_name_one_ref pf inv t n with
      | inl e => inl e
      | inr o => pm_name_list_ref pf inv t r (acc ++ [o])
      end
  end.

Definition pm_names_type_ref (pf : option pm_filter) (inv : list pm_obj) (q : pm_query) (t : pm_type)
           (acc : list pm_obj) : pm_err + list pm_obj :=
  match (match pm_q_single q t with
         | None => inr acc
         | Some n => match pm_name_one_ref pf inv t n with inl e => inl e | inr o => inr (acc ++ [o]) end
         end) with
  | inl e => inl e
  | inr acc1 =>
      match pm_q_plural q t with
      | None => inr acc1
      | Some ns => pm_name_list_ref pf inv t ns acc1
      end
  end.

Fixpoint pm_by_names_ref (pf : option pm_filter) (inv : list pm_obj) (q : pm_query) (tys : list pm_type)
         (acc : list pm_obj) : pm_err + list pm_obj :=
  match tys with
  | [] => inr acc
  | t :: r =>
      match pm_names_type_ref pf inv q t acc with
      | inl e => inl e
      | inr acc' => pm_by_names_ref pf inv q r acc'
      end
  end.

Fixpoint pm_fast_collect_ref (pf : option pm_filter) (inv : list pm_obj) (t : pm_type) (names : list pm_str)
  : pm_err + list pm_obj :=
  match names with
  | [] => inr []
  | n :: r =>
      match pm_lookup inv t n with
      | None => pm_fast_collect_ref pf inv t r
      | Some o =>
          match pm_verdict pf o with
          | PmE => inl PmErrScript
          | PmF => pm_fast_collect_ref pf inv t r
          | PmT => match pm_fast_collect_ref pf inv t r with inl e => inl e | inr l => inr (o :: l) end
          end
      end
  end.

(* the user's filter on the object alone, in the user's frame: filter_vars before the globals *)
Fixpoint pm_scan_ref (pf uf : option pm_filter) (fv : pm_env) (t : pm_type) (inv : list pm_obj) : pm_err + list pm_obj :=
  match inv with
  | [] => inr []
  | o :: r =>
      if pm_type_eqb (po_type o) t then
        match pm_verdict pf o with
        | PmE => inl PmErrScript
        | PmF => pm_scan_ref pf uf fv t r
        | PmT =>
            match pm_ueval G fv uf o with
            | PmE => inl PmErrScript
            | PmF => pm_scan_ref pf uf fv t r
            | PmT => match pm_scan_ref pf uf fv t r with inl e => inl e | inr l => inr (o :: l) end
            end
        end
      else pm_scan_ref pf uf fv t r
  end.

Definition pm_by_filter_ref (fast : bool) (pf : option pm_filter) (inv : list pm_obj) (t : pm_type)
           (uf : option pm_filter) (fv : pm_env) : pm_err + list pm_obj :=
  match uf with
  | None => pm_scan_ref pf None fv t inv
  | Some f =>
      match (if fast && negb (pm_shadowed t fv) then pm_targets t f fv else None) with
      | Some ns => pm_fast_collect_ref pf inv t ns
      | None => pm_scan_ref pf (Some f) fv t inv
      end
  end.

Definition pm_filter_targets_ref (fast : bool) (u : list pm_entry) (perm : pm_str) (tys : list pm_type)
           (q : pm_query) (inv : list pm_obj) : bool * pm_result :=
  match pm_check_permission u perm with
  | None => (false, PmErr PmErrPerm)
  | Some pf =>
      let c1 := pm_names_consult q tys in
      match pm_by_names_ref pf inv q tys [] with
      | inl e => (c1, PmErr e)
      | inr res =>
          if pm_is_some (pq_filter q) || pm_is_nil res then
            match pq_type q with
            | None => (c1, PmErr PmErrNoType)
            | Some PmQInvalid => (c1, PmErr PmErrBadType)
            | Some qt =>
                match pm_qtype_in tys qt with
                | None => (c1, PmErr PmErrTypeNotInQd)
                | Some t =>
                    (true, match pm_by_filter_ref fast pf inv t (pq_filter q) (pq_fvars q) with
                           | inl e => PmErr e
                           | inr l => PmOk (res ++ l)
                           end)
                end
            end
          else (c1, PmOk res)
      end
  end.

(* ---------------------------------------------------------------- the code = the reference *)
Lemma pm_name_one_eq pf inv t n ns :
  pm_ns_typed t ns ->
  match pm_name_one G pf inv t n ns with
  | inl e => pm_name_one_ref pf inv t n = inl e
  | inr (o, ns') => pm_name_one_ref pf inv t n = inr o /\ pm_ns_typed t ns'
  end.
Proof.
  intros Hns. unfold pm_name_one, pm_name_one_ref, pm_verdict.
  destruct (pm_lookup inv t n) as [o|] eqn:L; [|reflexivity].
  destruct (pm_lookup_some _ _ _ _ L) as (_ & B & _).
  destruct (pm_evalf G pf ns o) as [ns1 r] eqn:E. rewrite <- B in Hns.
  destruct (pm_evalf_perm G pf ns o ns1 r Hns E) as [Hr Ht]. rewrite B in Ht. rewrite <- Hr.
  destruct r; auto.
Qed.

Lemma pm_name_list_eq pf inv t : forall ns acc fr,
  pm_ns_typed t fr -> pm_name_list G pf inv t ns acc fr = pm_name_list_ref pf inv t ns acc.
Proof.
  induction ns as [|n r IH]; intros acc fr Hfr; cbn; [reflexivity|].
  pose proof (pm_name_one_eq pf inv t n fr Hfr) as H.
  destruct (pm_name_one G pf inv t n fr) as [e|[o fr']].
  - rewrite H. reflexivity.
  - destruct H as [-> Ht]. apply IH. exact Ht.
Qed.

Lemma pm_names_type_eq pf inv q t acc : pm_names_type G pf inv q t acc = pm_names_type_ref pf inv q t acc.
Proof.
  unfold pm_names_type, pm_names_type_ref. destruct (pm_q_single q t) as [n|].
  - pose proof (pm_name_one_eq pf inv t n [] (pm_ns_typed_nil t)) as H.
    destruct (pm_name_one G pf inv t n []) as [e|[o fr]].
    + rewrite H. reflexivity.
    + destruct H as [-> Ht]. destruct (pm_q_plural q t); [apply pm_name_list_eq; exact Ht|reflexivity].
  - destruct (pm_q_plural q t); [apply pm_name_list_eq; apply pm_ns_typed_nil|reflexivity].
Qed.

Lemma pm_by_names_eq pf inv q : forall tys acc, pm_by_names G pf inv q tys acc = pm_by_names_ref pf inv q tys acc.
Proof.
  induction tys as [|t r IH]; intros acc; cbn; [reflexivity|]. rewrite pm_names_type_eq.
  destruct (pm_names_type_ref pf inv q t acc); [reflexivity|apply IH].
Qed.

Lemma pm_fast_collect_eq pf inv t : forall names ns,
  pm_ns_typed t ns -> pm_fast_collect G pf ns inv t names = pm_fast_collect_ref pf inv t names.
Proof.
  induction names as [|n r IH]; intros ns Hns; cbn; [reflexivity|].
  destruct (pm_lookup inv t n) as [o|] eqn:L; [|apply IH; exact Hns].
  destruct (pm_lookup_some _ _ _ _ L) as (_ & B & _).
  destruct (pm_evalf G pf ns o) as [ns1 r0] eqn:E. pose proof Hns as Hns'. rewrite <- B in Hns'.
  destruct (pm_evalf_perm G pf ns o ns1 r0 Hns' E) as [Hr Ht]. rewrite B in Ht. unfold pm_verdict. rewrite <- Hr.
  destruct r0; [rewrite (IH ns1 Ht); reflexivity|apply IH; exact Ht|reflexivity].
Qed.

Lemma pm_scan_eq pf uf fv t : forall inv pns uns,
  pm_ns_typed t pns -> pm_ns_typed t uns -> pm_scan G pf pns uf fv uns t inv = pm_scan_ref pf uf fv t inv.
Proof.
  induction inv as [|o r IH]; intros pns uns Hp Hu; cbn; [reflexivity|].
  destruct (pm_type_eqb (po_type o) t) eqn:T; [|apply IH; assumption].
  apply pm_type_eqb_eq in T.
  destruct (pm_evalf G pf pns o) as [pns1 r1] eqn:E1. pose proof Hp as Hp'. rewrite <- T in Hp'.
  destruct (pm_evalf_perm G pf pns o pns1 r1 Hp' E1) as [Hr1 Hp1]. rewrite T in Hp1. unfold pm_verdict. rewrite <- Hr1.
  destruct r1; [|apply IH; assumption|reflexivity].
  destruct (pm_evalf (fv ++ G) uf uns o) as [uns1 r2] eqn:E2. pose proof Hu as Hu'. rewrite <- T in Hu'.
  destruct (pm_evalf_clean (fv ++ G) uf uns o Hu') as [Hr2 Hu1]. rewrite E2 in Hr2, Hu1. cbn [fst snd] in Hr2, Hu1.
  rewrite T in Hu1. unfold pm_ueval. rewrite <- Hr2.
  destruct r2; [rewrite (IH pns1 uns1 Hp1 Hu1); reflexivity|apply IH; assumption|reflexivity].
Qed.

Lemma pm_by_filter_eq fast pf inv t uf fv : pm_by_filter G fast pf inv t uf fv = pm_by_filter_ref fast pf inv t uf fv.
Proof.
  unfold pm_by_filter, pm_by_filter_ref. destruct uf as [f|].
  - destruct (if fast && negb (pm_shadowed t fv) then pm_targets t f fv else None).
    + apply pm_fast_collect_eq. apply pm_ns_typed_nil.
    + apply pm_scan_eq; apply pm_ns_typed_nil.
  - apply pm_scan_eq; apply pm_ns_typed_nil.
Qed.

Theorem pm_filter_targets_eq_ref fast u perm tys q inv :
  pm_filter_targets G fast u perm tys q inv = pm_filter_targets_ref fast u perm tys q inv.
Proof.
  unfold pm_filter_targets, pm_filter_targets_ref. destruct (pm_check_permission u perm) as [pf|]; [|reflexivity].
  rewrite pm_by_names_eq. destruct (pm_by_names_ref pf inv q tys []) as [e|res]; [reflexivity|].
  destruct (pm_is_some (pq_filter q) || pm_is_nil res); [|reflexivity].
  destruct (pq_type q) as [qt|]; [|reflexivity]. destruct qt; try reflexivity;
    (destruct (pm_qtype_in tys _); [rewrite pm_by_filter_eq|]; reflexivity).
Qed.

(* ---------------------------------------------------------------- consequences in the words of the statement *)
(* the objects a type(+filter) request returns on the generic path are exactly the inventory objects of that type
   which the verdict admits and the user's filter selects - the verdict does not see the user's filter or filter_vars *)
Lemma pm_scan_ref_in pf uf fv t : forall inv l,
  pm_scan_ref pf uf fv t inv = inr l ->
  forall o, In o l <-> In o inv /\ po_type o = t /\ pm_verdict pf o = PmT /\ pm_ueval G fv uf o = PmT.
Proof.
  induction inv as [|x r IH]; intros l H o; cbn in H.
  - inversion H; subst. cbn. tauto.
  - cbn [In]. destruct (pm_type_eqb (po_type x) t) eqn:T.
    + pose proof T as T'. apply pm_type_eqb_eq in T'.
      destruct (pm_verdict pf x) eqn:V; try discriminate.
      * destruct (pm_ueval G fv uf x) eqn:U; try discriminate.
        -- destruct (pm_scan_ref pf uf fv t r) as [e|l'] eqn:R; [discriminate|]. inversion H; subst l.
           specialize (IH l' eq_refl o). cbn [In]. split.
           ++ intros [Hx|Ho]; [subst o; auto|]. apply IH in Ho. tauto.
           ++ intros [[Hx|Hi] Hr]; [left; exact Hx|right; apply IH; tauto].
        -- specialize (IH l H o). split.
           ++ intros Ho. apply IH in Ho. tauto.
           ++ intros [[Hx|Hi] Hr]; [subst o; destruct Hr as (_ & _ & Hu); congruence|apply IH; tauto].
      * specialize (IH l H o). split.
        -- intros Ho. apply IH in Ho. tauto.
        -- intros [[Hx|Hi] Hr]; [subst o; destruct Hr as (_ & Hv & _); congruence|apply IH; tauto].
    + specialize (IH l H o). split.
      * intros Ho. apply IH in Ho. tauto.
      * intros [[Hx|Hi] Hr]; [|apply IH; tauto]. destruct Hr as (Ht & _).
        subst o. rewrite (proj2 (pm_type_eqb_eq _ _) Ht) in T. discriminate.
Qed.

Lemma pm_by_type_slow_ref u perm t inv pf uf fv :
  pm_check_permission u perm = Some pf ->
  snd (pm_filter_targets_ref false u perm [t] (pm_q_by_type t uf fv) inv)
  = match pm_scan_ref pf uf fv t inv with inl e => PmErr e | inr l => PmOk l end.
Proof.
  intros Hc. unfold pm_filter_targets_ref. rewrite Hc.
  assert (pm_by_names_ref pf inv (pm_q_by_type t uf fv) [t] [] = inr []) as ->.
  { cbn. unfold pm_names_type_ref, pm_q_by_type, pm_q_single, pm_q_plural. destruct t; reflexivity. }
  cbn [pm_is_nil]. rewrite orb_true_r.
  assert (pm_by_filter_ref false pf inv t uf fv = pm_scan_ref pf uf fv t inv) as Hb.
  { unfold pm_by_filter_ref. destruct uf; reflexivity. }
  destruct t; cbn [pm_q_by_type pq_type pm_qtype_of pm_qtype_in existsb pm_type_eqb orb snd pq_filter pq_fvars app];
    rewrite Hb; reflexivity.
Qed.

(* two requests with different user filters / filter_vars against the same user, permission and inventory: an object
   both user filters select is returned by both or by neither - the request cannot buy itself a different verdict *)
Theorem pm_verdict_same_for_all_requests u perm t inv pf uf1 fv1 uf2 fv2 l1 l2 o :
  pm_check_permission u perm = Some pf ->
  snd (pm_filter_targets G false u perm [t] (pm_q_by_type t uf1 fv1) inv) = PmOk l1 ->
  snd (pm_filter_targets G false u perm [t] (pm_q_by_type t uf2 fv2) inv) = PmOk l2 ->
  pm_ueval G fv1 uf1 o = PmT -> pm_ueval G fv2 uf2 o = PmT ->
  (In o l1 <-> In o l2).
Proof.
  intros Hc H1 H2 U1 U2. rewrite pm_filter_targets_eq_ref in H1, H2.
  rewrite (pm_by_type_slow_ref _ _ _ _ _ _ _ Hc) in H1. rewrite (pm_by_type_slow_ref _ _ _ _ _ _ _ Hc) in H2.
  destruct (pm_scan_ref pf uf1 fv1 t inv) as [e1|s1] eqn:S1; [discriminate|].
  destruct (pm_scan_ref pf uf2 fv2 t inv) as [e2|s2] eqn:S2; [discriminate|].
  inversion H1; inversion H2; subst.
  rewrite (pm_scan_ref_in _ _ _ _ _ _ S1 o), (pm_scan_ref_in _ _ _ _ _ _ S2 o). tauto.
Qed.

End WithGlobals.
