(* C01 - the property theorems, nothing else.  Each is closed by [exact] of a lemma proved in
   Ck/CkStateProofs.v and followed by Print Assumptions. *)
From Icv Require Import Base.Tac Ck.CkState Ck.CkStateProofs Ck.CkObs Ck.CkFacts Ck.CkOracleProofs.
Local Open Scope Z_scope.

(* (state type, attempt) is the stated function of the streak of non-OK results since the last OK/Up *)
Theorem C01_characterisation : forall c s h n,
  1 <= c_max c -> nondecreasing (s_cr_start s) h ->
  streak (c_kind c) (map (fun nr => r_state (snd nr)) h) = Some n ->
  Char c (run c s h) n.
Proof. exact characterisation_run. Qed.
Print Assumptions C01_characterisation.

(* the event emitted by every step taken from a state of the characterised region *)
Theorem C01_events : forall c s r,
  post_ok_shape c s -> (c_volatile c = true -> s_type s = Hard) ->
  let '(s', i) := step_accept c s r in
  i_event i = spec_event c s (r_state r) (s_type s').
Proof. exact events. Qed.
Print Assumptions C01_events.

(* never-checked start: universal invariants from the very first result *)
Theorem C01_pending : forall c h, 1 <= c_max c -> h <> [] -> Univ c (run_acc c pending h).
Proof. exact pending_invariants. Qed.
Print Assumptions C01_pending.

Theorem C01_hard_within_max : forall c s h,
  1 <= c_max c -> 1 <= s_attempt s ->
  Forall (fun r => is_ok (c_kind c) (r_state r) = false) h ->
  c_max c <= Z.of_nat (length h) -> s_type (run_acc c s h) = Hard.
Proof. exact hard_within_max. Qed.
Print Assumptions C01_hard_within_max.

Theorem C01_host_collapse : forall c s1 s2 r1 r2,
  c_kind c = KHost ->
  hproj s1 = hproj s2 -> host_up (r_state r1) = host_up (r_state r2) ->
  hproj (fst (step_accept c s1 r1)) = hproj (fst (step_accept c s2 r2)) /\
  i_event (snd (step_accept c s1 r1)) = i_event (snd (step_accept c s2 r2)) /\
  i_state_change (snd (step_accept c s1 r1)) = i_state_change (snd (step_accept c s2 r2)) /\
  i_hard_change (snd (step_accept c s1 r1)) = i_hard_change (snd (step_accept c s2 r2)).
Proof. exact host_collapse. Qed.
Print Assumptions C01_host_collapse.

Theorem C01_stale_rejected : forall c now s r,
  s_has_cr s = true -> s_cr_start s <= now -> r_start r < s_cr_start s ->
  step c now s r = (s, None).
Proof. exact stale_rejected. Qed.
Print Assumptions C01_stale_rejected.

(* the executable oracle run over implementation traces never fires on a trace the model produces *)
Theorem C01_oracle_accepts_model : forall c h,
  1 <= c_max c -> oracle_c01 c (model_trace c pending h) = None.
Proof. exact oracle_accepts_model. Qed.
Print Assumptions C01_oracle_accepts_model.

(* model constants = what the source says now (regenerated facts) *)
Theorem C01_source_facts :
  (sstate_num SOK = Facts_enums.f_ServiceOK /\ sstate_num SWarning = Facts_enums.f_ServiceWarning /\
   sstate_num SCritical = Facts_enums.f_ServiceCritical /\ sstate_num SUnknown = Facts_enums.f_ServiceUnknown /\
   stype_num Soft = Facts_enums.f_StateTypeSoft /\ stype_num Hard = Facts_enums.f_StateTypeHard /\
   api_state KHost SOK = Facts_enums.f_HostUp /\ api_state KHost SCritical = Facts_enums.f_HostDown).
Proof. exact facts_enum_values. Qed.
Print Assumptions C01_source_facts.

(* non-vacuity: a concrete reachable state meets the premises *)
Example C01_nonvacuous :
  let c := {| c_kind := KService; c_max := 3; c_volatile := false |} in
  let h := [(10, {| r_state := SOK; r_start := 10; r_end := 10 |});
            (20, {| r_state := SCritical; r_start := 20; r_end := 20 |});
            (30, {| r_state := SWarning; r_start := 30; r_end := 30 |})] in
  nondecreasing (s_cr_start pending) h /\
  streak KService (map (fun nr => r_state (snd nr)) h) = Some 2 /\
  s_type (run c pending h) = Soft /\ s_attempt (run c pending h) = 2.
Proof. cbv. repeat split; discriminate. Qed.
