(* C01 - the property theorems, nothing else.  Each is closed by [exact] of a lemma proved in
   Ck/CkStateProofs.v and followed by Print Assumptions. *)
From Icv Require Import Base.Tac Ck.CkState Ck.CkStateProofs Ck.CkObs Ck.CkFacts Ck.CkOracleProofs Ck.CkFull Ck.CkAck Ck.CkLayer.
Local Open Scope Z_scope.

(* (state type, attempt) is the stated function of the streak of non-OK results since the last OK/Up *)
Theorem C01_characterisation : forall c s h n,
  1 <= c_max c -> nondecreasing (s_cr_start s) h ->
  streak (c_kind c) (map (fun nr => r_state (snd nr)) h) = Some n ->
  Char c (run c s h) n.
Proof. exact characterisation_run. Qed.
Print Assumptions C01_characterisation.

(* the event emitted by every step taken from a state of the characterised region *)
Theorem C01_events : forall c s r,
  post_ok_shape c s -> (c_volatile c = true -> s_type s = Hard) ->
  let '(s', i) := step_accept c s r in
  i_event i = spec_event c s (r_state r) (s_type s').
Proof. exact events. Qed.
Print Assumptions C01_events.

(* never-checked start: universal invariants from the very first result *)
Theorem C01_pending : forall c h, 1 <= c_max c -> h <> [] -> Univ c (run_acc c pending h).
Proof. exact pending_invariants. Qed.
Print Assumptions C01_pending.

Theorem C01_hard_within_max : forall c s h,
  1 <= c_max c -> 1 <= s_attempt s ->
  Forall (fun r => is_ok (c_kind c) (r_state r) = false) h ->
  c_max c <= Z.of_nat (length h) -> s_type (run_acc c s h) = Hard.
Proof. exact hard_within_max. Qed.
Print Assumptions C01_hard_within_max.

Theorem C01_host_collapse : forall c s1 s2 r1 r2,
  c_kind c = KHost ->
  hproj s1 = hproj s2 -> host_up (r_state r1) = host_up (r_state r2) ->
  hproj (fst (step_accept c s1 r1)) = hproj (fst (step_accept c s2 r2)) /\
  i_event (snd (step_accept c s1 r1)) = i_event (snd (step_accept c s2 r2)) /\
  i_state_change (snd (step_accept c s1 r1)) = i_state_change (snd (step_accept c s2 r2)) /\
  i_hard_change (snd (step_accept c s1 r1)) = i_hard_change (snd (step_accept c s2 r2)).
Proof. exact host_collapse. Qed.
Print Assumptions C01_host_collapse.

Theorem C01_stale_rejected : forall c now s r,
  s_has_cr s = true -> s_cr_start s <= now -> r_start r < s_cr_start s ->
  step c now s r = (s, None).
Proof. exact stale_rejected. Qed.
Print Assumptions C01_stale_rejected.

(* the executable oracle run over implementation traces never fires on a trace the model produces *)
Theorem C01_oracle_accepts_model : forall c h,
  1 <= c_max c -> oracle_c01 c (model_trace c pending h) = None.
Proof. exact oracle_accepts_model. Qed.
Print Assumptions C01_oracle_accepts_model.

(* model constants = what the source says now (regenerated facts) *)
Theorem C01_source_facts :
  (sstate_num SOK = Facts_enums.f_ServiceOK /\ sstate_num SWarning = Facts_enums.f_ServiceWarning /\
   sstate_num SCritical = Facts_enums.f_ServiceCritical /\ sstate_num SUnknown = Facts_enums.f_ServiceUnknown /\
   stype_num Soft = Facts_enums.f_StateTypeSoft /\ stype_num Hard = Facts_enums.f_StateTypeHard /\
   api_state KHost SOK = Facts_enums.f_HostUp /\ api_state KHost SCritical = Facts_enums.f_HostDown).
Proof. exact facts_enum_values. Qed.
Print Assumptions C01_source_facts.

(* ---- layering (DESIGN 1.6): the C01 layer of the combined checkable model CkFull IS CkState ----
   proved in Ck/CkLayer.v for ALL configurations (flapping on/off and any thresholds), clock values and
   full states (any acknowledgement, downtimes, suppression bits, parent state, pause flag) *)

(* the check result of the combined model computes its state layer by CkState.step - including WHEN a result
   is rejected as stale - and emits exactly the new-result / state-change events of that step *)
Theorem C01_full_projection : forall c now r f,
  f_st (fst (do_result c now r f)) = fst (step (fc_base c) now (f_st f) r) /\
  filter ckl_is_st (snd (do_result c now r f)) = ckl_step_events (snd (step (fc_base c) now (f_st f) r)).
Proof. exact ckl_do_result. Qed.
Print Assumptions C01_full_projection.

(* every other operation (acknowledge, remove acknowledgement, read, comment timer, downtime add / remove /
   start timer / clean-up, suppressed-notification timer, parent result, pause, next-check) leaves the state
   layer unchanged and emits none of its events *)
Theorem C01_full_other_ops : forall c now f o,
  (forall r, o <> OpResult r) ->
  f_st (fst (full_step c now f o)) = f_st f /\ filter ckl_is_st (snd (full_step c now f o)) = [].
Proof. exact ckl_other_ops_both. Qed.
Print Assumptions C01_full_other_ops.

(* along EVERY operation sequence the state layer of the combined model is the CkState run over the results
   fed (CkState.step itself skips the stale ones), and its events are the CkState events *)
Theorem C01_full_projection_run : forall c h f,
  f_st (ckl_run c f h) = run (fc_base c) (f_st f) (ckl_results h) /\
  filter ckl_is_st (ckl_outs c f h) = ckl_events (fc_base c) (f_st f) (ckl_results h).
Proof. exact ckl_projection. Qed.
Print Assumptions C01_full_projection_run.

(* ... also with the cluster acknowledgement events of CkAck interleaved *)
Theorem C01_full_projection_run_cluster : forall c h f,
  f_st (cka_run c f h) = run (fc_base c) (f_st f) (ckl_results_cka h).
Proof. exact ckl_projection_cka. Qed.
Print Assumptions C01_full_projection_run_cluster.

(* transfer: C01_characterisation holds of the combined model after ANY operation sequence *)
Theorem C01_full_characterisation : forall c f h n,
  1 <= c_max (fc_base c) -> nondecreasing (s_cr_start (f_st f)) (ckl_results h) ->
  streak (c_kind (fc_base c)) (map (fun nr => r_state (snd nr)) (ckl_results h)) = Some n ->
  Char (fc_base c) (f_st (ckl_run c f h)) n.
Proof. exact ckl_characterisation. Qed.
Print Assumptions C01_full_characterisation.

(* transfer: C01_events and C01_stale_rejected for a result processed by the combined model *)
Theorem C01_full_event : forall c now f r,
  rejected now (f_st f) r = false ->
  post_ok_shape (fc_base c) (f_st f) -> (c_volatile (fc_base c) = true -> s_type (f_st f) = Hard) ->
  filter ckl_is_st (snd (full_step c now f (OpResult r))) =
  [ONewResult; OStateChange (spec_event (fc_base c) (f_st f) (r_state r)
                                        (s_type (f_st (fst (full_step c now f (OpResult r))))))].
Proof. exact ckl_event. Qed.
Print Assumptions C01_full_event.

Theorem C01_full_stale_rejected : forall c now f r,
  s_has_cr (f_st f) = true -> s_cr_start (f_st f) <= now -> r_start r < s_cr_start (f_st f) ->
  f_st (fst (full_step c now f (OpResult r))) = f_st f /\
  filter ckl_is_st (snd (full_step c now f (OpResult r))) = [].
Proof. exact ckl_stale_rejected. Qed.
Print Assumptions C01_full_stale_rejected.

(* non-vacuity: a concrete reachable state meets the premises *)
Example C01_nonvacuous :
  let c := {| c_kind := KService; c_max := 3; c_volatile := false |} in
  let h := [(10, {| r_state := SOK; r_start := 10; r_end := 10 |});
            (20, {| r_state := SCritical; r_start := 20; r_end := 20 |});
            (30, {| r_state := SWarning; r_start := 30; r_end := 30 |})] in
  nondecreasing (s_cr_start pending) h /\
  streak KService (map (fun nr => r_state (snd nr)) h) = Some 2 /\
  s_type (run c pending h) = Soft /\ s_attempt (run c pending h) = 2.
Proof. cbv. repeat split; discriminate. Qed.
