(* C18, companion file - check-then-act on the write path (modify / delete / actions / query handlers running concurrently
   with other writers) and nothing else.  Each theorem is closed by [exact] of a lemma proved in Perm/PmConcProofs.v /
   Perm/PmFacts.v and followed by Print Assumptions.  Model: Perm/PmConc.v - small-step, [authorise a set of OBJECTS] ;
   [for each: (take the name lock) ; act on THAT object], interleaved with an environment that takes / releases name locks,
   deletes objects and creates new ones under any name; objects have identities, names are looked up in a registry. *)
From Icv Require Import Base.Tac Perm.PmModel Perm.PmProofs Perm.PmObs Perm.PmConc Perm.PmConcProofs Perm.PmFacts Facts.Facts_c18.
Local Open Scope Z_scope.

(* for every permission verdict [allow] on objects, every handler shape that acts on the pointers it was given (with or
   without the per-name lock), every initial world and EVERY schedule of handler and environment steps: an object that was
   acted on is one of the authorised identities - registered and with the verdict true at the moment GetFilterTargets
   returned it (the precondition of the PlAuth step = C18_only_permitted) - and the verdict on that very object is true.
   Identity, not name: what carries the name at the time of the action is irrelevant. *)
Theorem C18_act_on_authorised_object : forall allow cfg,
  pc_reresolve cfg = false ->
  forall w ls s, pm_crun allow cfg ls (pm_cinit w) = Some s ->
  forall y, In y (pcs_acts s) ->
    In y (pcs_auth s) /\ exists o, pm_heap_get (pcs_w s) y = Some o /\ allow o = true.
Proof. exact pm_act_on_authorised_object. Qed.
Print Assumptions C18_act_on_authorised_object.

(* "re-resolve by name after the lock" is refuted: the request is authorised for host a of team b (identity 0), waits for
   the name lock held by another writer who deletes the host and creates host a of team r (identity 1); the handler then acts
   on identity 1, which was never authorised and for which the user's filter is false *)
Theorem C18_reresolve_after_lock_refuted :
  exists s, pm_crun pm_rx_allow {| pc_lock := true; pc_reresolve := true |} pm_rx_schedule (pm_cinit (pm_world_of [pm_rx_host 98])) = Some s /\
    pcs_auth s = [0%nat] /\ pcs_acts s = [1%nat] /\ pm_allowed pm_rx_allow (pcs_w s) 1%nat = false.
Proof. exact pm_reresolve_refuted. Qed.
Print Assumptions C18_reresolve_after_lock_refuted.

(* the same schedule with the handler as it is coded: the authorised object is changed although it is no longer registered,
   the new object is untouched *)
Theorem C18_race_as_coded :
  exists s, pm_crun pm_rx_allow {| pc_lock := true; pc_reresolve := false |} pm_rx_schedule (pm_cinit (pm_world_of [pm_rx_host 98])) = Some s /\
    pcs_auth s = [0%nat] /\ pcs_acts s = [0%nat] /\ pm_registered (pcs_w s) 0%nat = false /\ pm_allowed pm_rx_allow (pcs_w s) 0%nat = true.
Proof. exact pm_race_as_coded. Qed.
Print Assumptions C18_race_as_coded.

(* the extracted oracle of the directed-schedule op never fires on a run of the model *)
Theorem C18_oracle_race_accepts_model : forall allow cfg,
  pc_reresolve cfg = false ->
  forall w ls s x x', pm_crun allow cfg ls (pm_cinit w) = Some s ->
  pm_oracle_race (pm_allowed allow (pcs_w s) x) (pm_allowed allow (pcs_w s) x')
                 (existsb (Nat.eqb x) (pcs_acts s)) (existsb (Nat.eqb x') (pcs_acts s)) = true.
Proof. exact pm_oracle_race_accepts_model. Qed.
Print Assumptions C18_oracle_race_accepts_model.

(* source facts: in each of the four handlers, between `objs = GetFilterTargets(..)` and the end of HandleRequest, the loop
   variable is a const reference over objs, is never assigned, the action is applied to it, and no object is looked up by name
   (GetObject / GetByName / GetByNamePair / GetTargetByName / GetObjects): the configurations of this tree have
   pc_reresolve = false (Some false = recognisably re-resolving: does not check; None = not recognised = compared only) *)
Theorem C18_conc_source_facts :
  pm_reresolve_ok f_pm_query_acts_on_pointer pm_ccfg_query /\ pm_reresolve_ok f_pm_modify_acts_on_pointer pm_ccfg_modify /\
  pm_reresolve_ok f_pm_delete_acts_on_pointer pm_ccfg_delete /\ pm_reresolve_ok f_pm_actions_acts_on_pointer pm_ccfg_actions.
Proof. exact pm_act_source_facts. Qed.
Print Assumptions C18_conc_source_facts.

(* non-vacuity: the theorem applies to the run above (two environment steps between authorisation and action) *)
Example C18_conc_nonvacuous :
  match pm_crun pm_rx_allow pm_ccfg_modify pm_rx_schedule (pm_cinit (pm_world_of [pm_rx_host 98])) with
  | Some s => pcs_acts s = [0%nat] /\ length (pw_heap (pcs_w s)) = 2%nat
  | None => False
  end.
Proof. vm_compute. split; reflexivity. Qed.
