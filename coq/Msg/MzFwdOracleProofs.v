(* The forwarding oracle accepts every answer of the model: it can only fire where the implementation forwards, answers
   or executes something the theorems of MzFwdProofs.v exclude. *)
From Icv Require Import Base.Tac Msg.MzModel Msg.MzFacts Msg.MzProofs Msg.MzObs Msg.MzOracleProofs Msg.MzFwd Msg.MzFwdProofs Msg.MzFwdObs.
From Coq Require Import String.
Local Open Scope nat_scope.

Lemma mz_exec_row_eq : mz_exec_row = option_map mz_row_core (mz_lookup "event::ExecuteCommand").
Proof. vm_compute. reflexivity. Qed.

Lemma mz_exec_class : mz_class_of "event::ExecuteCommand" = Some MzKCommand.
Proof. vm_compute. reflexivity. Qed.

Lemma mz_fwd_entitled_b_spec t l s : mz_fwd_entitled_b t l s = true <-> mz_fwd_entitled t l s.
Proof.
  unfold mz_fwd_entitled_b, mz_fwd_entitled. split.
  - intros H. apply andb_prop in H as [Ha H]. destruct (mz_cident s) as [[ez|]|]; try discriminate.
    exists ez; repeat split; auto. apply orb_prop in H as [H|H].
    + left. apply Nat.eqb_eq; auto.
    + right. apply mz_onat_eqb_some_l; auto.
  - intros (ez & Ha & Hi & H). rewrite Ha, Hi. cbn. destruct H as [->|P].
    + rewrite Nat.eqb_refl. reflexivity.
    + rewrite P. cbn. rewrite Nat.eqb_refl. apply orb_true_r.
Qed.

Lemma mz_path_plain_b_chain t tz : mz_path_plain_b t tz = true -> forall a, In a (mz_up t tz) -> mz_glob t a = false.
Proof.
  unfold mz_path_plain_b. rewrite forallb_forall. intros H a I. specialize (H a I).
  destruct (mz_glob t a); [discriminate|reflexivity].
Qed.

Lemma mz_relay_cands_ok_b t l tz z : mz_wf t -> mz_path_plain_b t tz = true ->
  In z (mz_relay_cands t l tz) -> mz_fwd_zone_ok_b t l tz z = true.
Proof.
  intros W PB H. unfold mz_relay_cands in H. apply in_flat_map in H as (a & Ha & Hz).
  pose proof (mz_path_plain_b_chain t tz PB a Ha) as G.
  destruct (mz_relay_one_plain t l a z G Hz) as [-> Adj].
  unfold mz_fwd_zone_ok_b, mz_adjacent_b. apply andb_true_intro; split.
  - apply mz_is_child_of_spec; auto. eapply mz_chain_anc; eauto.
  - destruct Adj as [->|[P|P]].
    + rewrite Nat.eqb_refl. reflexivity.
    + rewrite P. cbn. rewrite Nat.eqb_refl. rewrite orb_true_r. reflexivity.
    + rewrite P. cbn. rewrite Nat.eqb_refl. rewrite !orb_true_r. reflexivity.
Qed.

Lemma mz_xc_check t l e s tz : mz_wf t -> mz_path_plain_b t tz = true ->
  forallb (fun z => mz_fwd_zone_ok_b t l tz z && negb (mz_onat_eqb (mz_from_zone l s) (Some z)))
          (mz_relay_zones t l e (Some (mz_sender_zone s, mz_from_zone l s)) tz) = true.
Proof.
  intros W PB. apply forallb_forall. intros z H. unfold mz_relay_zones in H. apply filter_In in H as [H S].
  rewrite (mz_relay_cands_ok_b t l tz z W PB H). cbn.
  destruct (mz_from_zone l s) as [fz|] eqn:F; [|reflexivity]. cbn.
  apply mz_relay_sends_not_back in S. apply negb_true_iff. apply Nat.eqb_neq. auto.
Qed.

Lemma mz_xd_check t l e : mz_wf t -> mz_path_plain_b t l = true ->
  forallb (fun z => Nat.eqb z l || mz_onat_eqb (mz_par t l) (Some z)) (mz_relay_zones t l e None l) = true.
Proof.
  intros W PB. apply forallb_forall. intros z H. unfold mz_relay_zones in H. apply filter_In in H as [H _].
  pose proof (mz_relay_cands_ok_b t l l z W PB H) as OK. unfold mz_fwd_zone_ok_b, mz_adjacent_b in OK.
  apply andb_prop in OK as [A Adj]. apply mz_is_child_of_spec in A; auto.
  apply orb_prop in Adj as [Adj|Adj]; [exact Adj|].
  exfalso. apply mz_onat_eqb_some_l in Adj. apply mz_anc_le in A; auto. specialize (W _ _ Adj). lia.
Qed.

(* on the local-execution path the message is the ordinary row of the method *)
Lemma mz_exec_enqueue_is_run t c s m ts :
  mz_applied (mz_run t c s m ts "event::ExecuteCommand") =
  (if mz_is_some (mz_ep s) && mz_ts_is ts MzTsOld then false
   else match mz_exec_row with Some (e', p, f) => mz_authorise_core t c s m e' p f | None => false end).
Proof.
  unfold mz_run, mz_handle, mz_handle_core. rewrite mz_exec_row_eq, mz_exec_class.
  destruct (_ && mz_ts_is ts MzTsOld); cbn [mz_applied]; [reflexivity|].
  destruct (option_map mz_row_core (mz_lookup "event::ExecuteCommand")) as [[[e' p] f]|]; [|reflexivity].
  cbn. apply andb_true_r.
Qed.

Lemma mz_and3 a b : a && b && negb a = false.
Proof. destruct a, b; reflexivity. Qed.

Lemma mz_xoracle_accepts_model t c s m x e ts : mz_wf t ->
  mz_xoracle t c s m x (mz_exec_run t c s m x e ts) = 0.
Proof.
  intros W.
  assert (LOC : forall rlp app, rlp = (mz_is_some (mz_ep s) && mz_ts_is ts MzTsNew) ->
            (mz_is_some (mz_ep s) && mz_ts_is ts MzTsOld = false) ->
            app = match mz_exec_row with Some (e', p, f) => mz_authorise_core t c s m e' p f | None => false end ->
            mz_oracle_core t c s m (Some MzKCommand) {| mz_dropped := false; mz_rlp := rlp; mz_applied := app |} = 0).
  { intros rlp app -> OLD ->.
    pose proof (mz_oracle_accepts_model t c s m ts "event::ExecuteCommand" W) as OA.
    unfold mz_oracle_msg in OA. rewrite mz_exec_class in OA.
    assert (NF : forall r, mz_lookup "event::ExecuteCommand" = Some r -> ~ mz_finding_anon_cert s r).
    { intros r L (_ & _ & F). apply mz_find_row_in in L as [_ Mn]. rewrite Mn, mz_exec_class in F. discriminate. }
    specialize (OA NF).
    pose proof (mz_exec_enqueue_is_run t c s m ts) as AP. rewrite OLD in AP.
    unfold mz_run, mz_handle, mz_handle_core in OA, AP. rewrite OLD in OA, AP. cbn [mz_applied] in AP.
    rewrite AP in OA. exact OA. }
  unfold mz_exec_run, mz_exec_handle.
  destruct (mz_is_some (mz_ep s) && mz_ts_is ts MzTsOld) eqn:OLD.
  - unfold mz_xoracle; cbn [mz_xrlp mz_xapp mz_xc mz_xd mz_nonempty orb andb forallb negb].
    destruct (mz_xtgt x); rewrite ?andb_false_r; reflexivity.
  - destruct (mz_exec_route t c s x) as [| | |tz] eqn:R.
    + (* discard *)
      unfold mz_xoracle; cbn [mz_xrlp mz_xapp mz_xc mz_xd mz_nonempty orb andb forallb negb].
      rewrite mz_and3.
      destruct (mz_xtgt x); rewrite ?andb_false_r; try reflexivity;
      unfold mz_oracle_core; cbn [mz_dropped mz_rlp mz_applied andb orb negb];
      rewrite mz_and3; reflexivity.
    + (* local execution *)
      assert (E : mz_fwd_entitled_b t (mz_local c) s = true).
      { apply mz_fwd_entitled_b_spec. eapply mz_exec_route_entitled. rewrite R. discriminate. }
      unfold mz_xoracle; cbn [mz_xrlp mz_xapp mz_xc mz_xd mz_nonempty]. rewrite E.
      rewrite mz_and3. cbn [negb]. rewrite andb_false_r.
      destruct (mz_exec_route_enqueue t c s x R) as [-> | ->]; cbn [orb]; apply LOC; auto.
    + (* error reply *)
      assert (E : mz_fwd_entitled_b t (mz_local c) s = true).
      { apply mz_fwd_entitled_b_spec. eapply mz_exec_route_entitled. rewrite R. discriminate. }
      destruct (mz_exec_route_reply t c s x R) as (tz & T & I).
      unfold mz_xoracle; cbn [mz_xrlp mz_xapp mz_xc mz_xd mz_nonempty]. rewrite E, T, I.
      rewrite mz_and3. cbn [negb forallb]. rewrite ?andb_false_r.
      destruct (mz_path_plain_b t (mz_local c)) eqn:PB; [|reflexivity].
      rewrite (mz_xd_check t (mz_local c) e W PB). reflexivity.
    + (* forward *)
      assert (E : mz_fwd_entitled_b t (mz_local c) s = true).
      { apply mz_fwd_entitled_b_spec. eapply mz_exec_route_entitled. rewrite R. discriminate. }
      destruct (mz_exec_route_forward t c s x tz R) as (T & I).
      unfold mz_xoracle; cbn [mz_xrlp mz_xapp mz_xc mz_xd mz_nonempty]. rewrite E, T, I.
      rewrite mz_and3. cbn [negb forallb]. rewrite ?andb_false_r.
      destruct (mz_path_plain_b t tz) eqn:PB; cbn [andb].
      * rewrite (mz_xc_check t (mz_local c) e s tz W PB). cbn [negb]. rewrite ?andb_false_r. reflexivity.
      * rewrite ?andb_false_r. reflexivity.
Qed.
