(* C13 - a command is executed only with accept_commands on, whatever its kind. *)
From Icv Require Import Base.Tac Facts.Facts_c13 Msg.MzModel Msg.MzFacts Msg.MzProofs Msg.MzObs Msg.MzOracleProofs
                        Msg.MzFwd Msg.MzFwdObs Msg.MzFwdOracleProofs Msg.MzExec.
From Coq Require Import String.
Local Open Scope nat_scope.

(* ---------------------------------------------------------------- ExecuteCheckFromQueue proper *)
Lemma mz_exq_exec o a q : fst (mz_exq o a q) = true ->
  o = true /\ a = true /\ mz_qexists q = true /\ (mz_qsource q = true -> mz_qexpired q = false) /\
  match mz_qtype q with
  | MzCCheck | MzCEvent => True
  | MzCNotification => mz_qsource q = true
  | MzCOther => False
  end.
Proof.
  unfold mz_exq. destruct o; cbn [negb]; [|discriminate].
  destruct (mz_qsource q) eqn:S, (mz_qexpired q) eqn:X; cbn [andb]; try discriminate;
    destruct a; cbn [negb]; try discriminate;
    destruct (mz_qtype q), (mz_qexists q); cbn; try discriminate; intros _; repeat split; auto; discriminate.
Qed.

(* refusal because of the flag: nothing runs, for every command type; the sender gets the error answer *)
Lemma mz_exq_refused o q : fst (mz_exq o false q) = false /\
  (o = true -> (mz_qsource q && mz_qexpired q) = false ->
   snd (mz_exq o false q) = if mz_qsource q then MzQExecuted 126 else MzQCheckUnknown).
Proof.
  unfold mz_exq. destruct o; cbn [negb]; [|split; [reflexivity|discriminate]].
  destruct (mz_qsource q && mz_qexpired q); cbn; split; auto; discriminate.
Qed.

(* neither the command type nor "source"/"deadline"/existence can make up for a failed origin check *)
Lemma mz_exq_origin_refused a q : mz_exq false a q = (false, MzQNoReply).
Proof. reflexivity. Qed.

Lemma mz_authorise_core_flag t c s m e p f :
  mz_authorise_core t c s m e p f = mz_authorise_core t c s m e p MzFNone && mz_flag_ok c f.
Proof. unfold mz_authorise_core. cbn [mz_flag_ok]. rewrite andb_true_r. reflexivity. Qed.

(* ---------------------------------------------------------------- through MessageHandler, on the generated row *)
Lemma mz_exq_handle_exec t c s m ts r q :
  mz_qexec (mz_exq_handle t c s m ts (Some (mz_row_core r)) q) = true ->
  mz_authorise t c s m r = true /\ mz_qexists q = true /\ (mz_qsource q = true -> mz_qexpired q = false) /\
  match mz_qtype q with MzCCheck | MzCEvent => True | MzCNotification => mz_qsource q = true | MzCOther => False end.
Proof.
  unfold mz_exq_handle, mz_row_core. destruct (_ && mz_ts_is ts MzTsOld); cbn [mz_qexec]; [discriminate|].
  intros H. apply mz_exq_exec in H as (O & A & R). split; [|exact R].
  unfold mz_authorise. rewrite mz_authorise_core_flag, O, A. reflexivity.
Qed.

Lemma mz_exq_sound : forall r, In r mz_table -> mz_class_of (mz_rmethod r) = Some MzKCommand ->
  forall t c s m ts q, mz_wf t -> mz_zoned s ->
  mz_qexec (mz_exq_handle t c s m ts (Some (mz_row_core r)) q) = true ->
  mz_accept_commands c = true /\
  (exists ez, mz_cauth s = true /\ mz_cident s = Some (Some ez) /\ mz_anc t (mz_local c) ez) /\
  mz_qexists q = true /\ (mz_qsource q = true -> mz_qexpired q = false) /\
  match mz_qtype q with MzCCheck | MzCEvent => True | MzCNotification => mz_qsource q = true | MzCOther => False end.
Proof.
  intros r I CL t c s m ts q W Z H. apply mz_exq_handle_exec in H as (A & R).
  destruct (mz_flags r I t c s m W Z A) as [_ F]. destruct (F CL) as [AC EN]. split; [exact AC|]. split; [exact EN|exact R].
Qed.

(* the accept flag alone, without any hypothesis on the sender: the row of a Command-class method consults accept_commands *)
Lemma mz_exq_needs_accept : forall r, In r mz_table -> mz_class_of (mz_rmethod r) = Some MzKCommand ->
  forall t c s m ts q,
  mz_qexec (mz_exq_handle t c s m ts (Some (mz_row_core r)) q) = true -> mz_accept_commands c = true.
Proof.
  intros r I CL t c s m ts q H. apply mz_exq_handle_exec in H as (A & _).
  destruct (mz_table_row r I) as (k & CL' & OK). rewrite CL in CL'. inversion CL'; subst k.
  unfold mz_row_ok in OK. mz_split OK.
  unfold mz_authorise, mz_authorise_core in A. apply andb_prop in A as [_ AF].
  destruct (mz_rflag r); try discriminate. exact AF.
Qed.

Lemma mz_exq_handle_refused_flag : forall r, In r mz_table -> mz_class_of (mz_rmethod r) = Some MzKCommand ->
  forall t c s m ts q, mz_accept_commands c = false ->
  mz_qexec (mz_exq_handle t c s m ts (Some (mz_row_core r)) q) = false.
Proof.
  intros r I CL t c s m ts q AC.
  destruct (mz_qexec _) eqn:E; [|reflexivity].
  rewrite (mz_exq_needs_accept r I CL t c s m ts q E) in AC. discriminate.
Qed.

(* ---------------------------------------------------------------- the extracted entry point and the oracle *)
Lemma mz_exq_run_eq t c s m ts q :
  mz_exq_run t c s m ts q = mz_exq_handle t c s m ts (option_map mz_row_core (mz_lookup "event::ExecuteCommand")) q.
Proof. unfold mz_exq_run. rewrite mz_exec_row_eq. reflexivity. Qed.

Lemma mz_qoracle_accepts_model t c s m ts q : mz_wf t -> mz_qoracle t c s m (mz_exq_run t c s m ts q) = 0.
Proof.
  intros W. rewrite mz_exq_run_eq.
  destruct (mz_lookup "event::ExecuteCommand") as [r|] eqn:L; cbn [option_map].
  - destruct (mz_find_row_in _ _ _ L) as [I Mn].
    assert (CL : mz_class_of (mz_rmethod r) = Some MzKCommand) by (rewrite Mn; exact mz_exec_class).
    unfold mz_qoracle.
    destruct (mz_qexec (mz_exq_handle t c s m ts (Some (mz_row_core r)) q)) eqn:E.
    + pose proof (mz_exq_needs_accept r I CL t c s m ts q E) as AC.
      assert (RL : mz_qrlp (mz_exq_handle t c s m ts (Some (mz_row_core r)) q) && negb (mz_is_some (mz_ep s)) = false).
      { unfold mz_exq_handle. destruct (mz_is_some (mz_ep s)); cbn [andb negb].
        - destruct (mz_ts_is ts MzTsOld); cbn [mz_qrlp]; rewrite ?andb_false_r; reflexivity.
        - reflexivity. }
      rewrite RL. cbn [negb]. rewrite AC. cbn [negb].
      destruct (mz_zoned_b s) eqn:ZB; [|reflexivity]. cbn [andb].
      destruct (mz_exq_sound r I CL t c s m ts q W (mz_zoned_b_spec s ZB) E) as (_ & (ez & Ha & Hi & An) & _).
      assert (EN : mz_entitled t c s m MzKCommand).
      { cbn [mz_entitled]. exists ez. repeat split; auto. }
      rewrite (mz_entitled_b_complete t c s m MzKCommand W EN). reflexivity.
    + unfold mz_exq_handle in *. destruct (mz_is_some (mz_ep s)); cbn [andb negb] in *.
      * destruct (mz_ts_is ts MzTsOld); cbn [mz_qrlp mz_qexec] in *; rewrite ?andb_false_r; cbn; reflexivity.
      * reflexivity.
  - unfold mz_qoracle, mz_exq_handle. destruct (mz_is_some (mz_ep s)); cbn [andb negb].
    + destruct (mz_ts_is ts MzTsOld); cbn; rewrite ?andb_false_r; reflexivity.
    + reflexivity.
Qed.

(* the shapes of ExecuteCheckFromQueue the model transcribes are the ones the translator recognises now
   (None = not recognised: covered by the correspondence run only, logged) *)
Local Open Scope string_scope.
Definition mz_exq_rules_ok : Prop :=
  mz_rule_is f_mz_exq_refusal_rule "reply_and_return_before_any_execution" /\
  mz_rule_is f_mz_exq_types_rule "check_event_notification_with_source".
Lemma mz_exq_rules_now : mz_exq_rules_ok.
Proof. split; vm_compute; first [reflexivity | exact I]. Qed.
