(* C13 - cluster message authorisation.  Model only (no proofs).

   Transcribed from /repo:
     lib/remote/zone.cpp                 Zone::IsChildOf, Zone::CanAccessObject
     lib/remote/jsonrpcconnection.cpp    JsonRpcConnection ctor (m_Endpoint only when authenticated),
                                         MessageHandler (ts bookkeeping, origin->FromZone construction, dispatch)
     lib/icinga/clusterevents*.cpp, lib/remote/apilistener-*sync.cpp, jsonrpcconnection-pki.cpp:
                                         the origin check of each registered handler, NORMALISED to one of the
                                         patterns below by tools/facts_c13.py on every run (coq/Facts/Facts_c13.v).

   Zones are natural numbers indexing a list of (parent, global) records: arbitrary forests. *)
From Icv Require Import Base.Tac.
From Coq Require Import String.
Local Open Scope nat_scope.

Record mz_zinfo := { mz_zparent : option nat; mz_zglobal : bool }.
Definition mz_tree := list mz_zinfo.

Definition mz_par (t : mz_tree) (z : nat) : option nat :=
  match nth_error t z with Some i => mz_zparent i | None => None end.
Definition mz_glob (t : mz_tree) (z : nat) : bool :=
  match nth_error t z with Some i => mz_zglobal i | None => false end.

(* Zone::IsChildOf:  azone = this; while (azone) { if (azone == zone) return true; azone = azone->GetParent(); } return false;
   The loop is bounded by fuel; on a well-formed tree (parents have smaller numbers) fuel [S a] is exact. *)
Fixpoint mz_ico (t : mz_tree) (fuel : nat) (a z : nat) : bool :=
  match fuel with
  | O => false
  | S f => if Nat.eqb a z then true
           else match mz_par t a with Some p => mz_ico t f p z | None => false end
  end.
Definition mz_is_child_of (t : mz_tree) (a z : nat) : bool := mz_ico t (S a) a z.
(* IsChildOf(nullptr) is false: the loop never finds a null zone *)
Definition mz_is_child_of_opt (t : mz_tree) (a : nat) (oz : option nat) : bool :=
  match oz with Some z => mz_is_child_of t a z | None => false end.

(* Zone::CanAccessObject (this = z): object zone, defaulting to the local zone; global zones are open to all *)
Definition mz_objz (l : nat) (oz : option nat) : nat := match oz with Some o => o | None => l end.
Definition mz_can_access (t : mz_tree) (l z : nat) (oz : option nat) : bool :=
  if mz_glob t (mz_objz l oz) then true else mz_is_child_of t (mz_objz l oz) z.

(* ---- the connection a message arrives on ---- *)
Record mz_conn := {
  mz_cauth : bool;                       (* TLS peer certificate verified (m_Authenticated) *)
  mz_cident : option (option nat);       (* Endpoint::GetByName(identity): None = no such Endpoint object,
                                            Some z = the endpoint's zone (None = member of no zone) *)
  mz_cclaim : option nat                 (* Zone::GetByName(message["originZone"]) *)
}.
(* JsonRpcConnection ctor: if (authenticated) m_Endpoint = Endpoint::GetByName(identity); *)
Definition mz_ep (s : mz_conn) : option (option nat) := if mz_cauth s then mz_cident s else None.

Definition mz_onat_eqb (a b : option nat) : bool :=
  match a, b with Some x, Some y => Nat.eqb x y | None, None => true | _, _ => false end.

(* MessageHandler: if (m_Endpoint) { if (m_Endpoint->GetZone() != local) FromZone = m_Endpoint->GetZone();
                                     else FromZone = Zone::GetByName(message->Get("originZone")); } *)
Definition mz_from_zone (l : nat) (s : mz_conn) : option nat :=
  match mz_ep s with
  | None => None
  | Some ez => if mz_onat_eqb ez (Some l) then mz_cclaim s else ez
  end.

Record mz_cfg := { mz_local : nat; mz_accept_config : bool; mz_accept_commands : bool }.

(* what the handler looks up from the message's params *)
Record mz_msg := {
  mz_objzone : option nat;   (* zone attribute of the addressed object (None: object without zone);
                                for event::ExecutedCommand: the zone of the execution's endpoint *)
  mz_is_cmdep : bool         (* sender endpoint == checkable->GetCommandEndpoint() *)
}.

Inductive mz_pattern :=
| MzPCanAccess             (* origin->FromZone && !origin->FromZone->CanAccessObject(obj)  -> refuse *)
| MzPCanAccessOrCmdEp      (* ... && endpoint != checkable->GetCommandEndpoint()          -> refuse *)
| MzPEqLocal               (* origin->FromZone && origin->FromZone != Zone::GetLocalZone() -> refuse *)
| MzPLocalChildOfOrigin    (* origin->FromZone && !Zone::GetLocalZone()->IsChildOf(origin->FromZone) -> refuse *)
| MzPLocalChildOfEpZone    (* !Zone::GetLocalZone()->IsChildOf(endpoint->GetZone()) -> refuse *)
| MzPExecZoneChildOfOrigin (* origin->FromZone && !command_endpoint->GetZone()->IsChildOf(origin->FromZone) -> refuse *)
| MzPLocalOrParentThenOrigin (* ExecuteCommand: endpoint zone == local || == local->GetParent(), then
                                ExecuteCheckFromQueue: FromZone && !local->IsChildOf(FromZone) -> refuse *)
| MzPNone                  (* no origin check *)
| MzPUnrecognised.         (* the translator could not normalise the handler's check *)

Inductive mz_flag := MzFNone | MzFConfig | MzFCommands | MzFUnrecognised.

Record mz_row := { mz_rmethod : string; mz_rep : bool (* refuses when FromClient->GetEndpoint() is null *);
                   mz_rpat : mz_pattern; mz_rflag : mz_flag }.

Definition mz_is_some {A} (o : option A) : bool := match o with Some _ => true | None => false end.

Definition mz_origin_ok (t : mz_tree) (c : mz_cfg) (s : mz_conn) (m : mz_msg) (p : mz_pattern) : bool :=
  let l := mz_local c in
  let fz := mz_from_zone l s in
  match p with
  | MzPCanAccess => match fz with None => true | Some z => mz_can_access t l z (mz_objzone m) end
  | MzPCanAccessOrCmdEp => match fz with None => true | Some z => mz_can_access t l z (mz_objzone m) || mz_is_cmdep m end
  | MzPEqLocal => match fz with None => true | Some z => Nat.eqb z l end
  | MzPLocalChildOfOrigin => match fz with None => true | Some z => mz_is_child_of t l z end
  | MzPLocalChildOfEpZone => match mz_ep s with None => true | Some ez => mz_is_child_of_opt t l ez end
  | MzPExecZoneChildOfOrigin => match fz with None => true | Some z => mz_is_child_of t (mz_objz l (mz_objzone m)) z end
  | MzPLocalOrParentThenOrigin =>
      (match mz_ep s with
       | None => true
       | Some ez => mz_onat_eqb ez (Some l)
                    || match mz_par t l with Some p => mz_onat_eqb ez (Some p) | None => false end
       end)
      && match fz with None => true | Some z => mz_is_child_of t l z end
  | MzPNone => true
  | MzPUnrecognised => true
  end.

Definition mz_flag_ok (c : mz_cfg) (f : mz_flag) : bool :=
  match f with
  | MzFNone => true
  | MzFConfig => mz_accept_config c
  | MzFCommands => mz_accept_commands c
  | MzFUnrecognised => true
  end.

(* does the handler get past all its refusal checks? *)
Definition mz_authorise_core (t : mz_tree) (c : mz_cfg) (s : mz_conn) (m : mz_msg)
                             (ep : bool) (p : mz_pattern) (f : mz_flag) : bool :=
  (if ep then mz_is_some (mz_ep s) else true) && mz_origin_ok t c s m p && mz_flag_ok c f.
Definition mz_authorise (t : mz_tree) (c : mz_cfg) (s : mz_conn) (m : mz_msg) (r : mz_row) : bool :=
  mz_authorise_core t c s m (mz_rep r) (mz_rpat r) (mz_rflag r).

(* ---- MessageHandler around the dispatch ---- *)
Inductive mz_ts := MzTsNone | MzTsOld | MzTsNew.   (* no "ts" / ts < endpoint's remote log position / ts >= it *)
Record mz_out := { mz_dropped : bool;   (* "ignore old messages" *)
                   mz_rlp : bool;       (* the sender's own Endpoint::remote_log_position was advanced *)
                   mz_applied : bool }. (* the handler ran past its checks and (for well-formed params) had an effect *)

Definition mz_ts_is (a b : mz_ts) : bool :=
  match a, b with MzTsNone, MzTsNone | MzTsOld, MzTsOld | MzTsNew, MzTsNew => true | _, _ => false end.

(* [row] = ApiFunction::GetByName(method) as listed in the generated table; [eff] = the handler has any effect at all *)
Definition mz_handle_core (t : mz_tree) (c : mz_cfg) (s : mz_conn) (m : mz_msg) (ts : mz_ts)
                          (row : option (bool * mz_pattern * mz_flag)) (eff : bool) : mz_out :=
  let ep := mz_is_some (mz_ep s) in
  if ep && mz_ts_is ts MzTsOld then {| mz_dropped := true; mz_rlp := false; mz_applied := false |}
  else {| mz_dropped := false;
          mz_rlp := ep && mz_ts_is ts MzTsNew;
          mz_applied := match row with Some (e, p, f) => mz_authorise_core t c s m e p f && eff | None => false end |}.
Definition mz_row_core (r : mz_row) : bool * mz_pattern * mz_flag := (mz_rep r, mz_rpat r, mz_rflag r).
Definition mz_handle (t : mz_tree) (c : mz_cfg) (s : mz_conn) (m : mz_msg) (ts : mz_ts)
                     (row : option mz_row) (eff : bool) : mz_out :=
  mz_handle_core t c s m ts (option_map mz_row_core row) eff.

(* ---- the property's relation, written directly on the zone tree ---- *)
Inductive mz_anc (t : mz_tree) : nat -> nat -> Prop :=      (* a is z or lies below z *)
| mz_anc_refl a : mz_anc t a a
| mz_anc_step a p z : mz_par t a = Some p -> mz_anc t p z -> mz_anc t a z.

Definition mz_wf (t : mz_tree) : Prop := forall z p, mz_par t z = Some p -> p < z.   (* acyclic: a numbering by depth exists *)

Inductive mz_class :=
| MzKStateEvent       (* state / event update for an object *)
| MzKStateEventCmdEp  (* check result: additionally from the object's command endpoint *)
| MzKBookkeeping      (* zone-internal bookkeeping *)
| MzKConfig           (* configuration files, runtime objects *)
| MzKCommand          (* command execution *)
| MzKCertUpdate       (* signed certificate / CA pushed down from the signing side *)
| MzKSession          (* concerns only the sender's own Endpoint object (hello, log position) *)
| MzKInert            (* handler has no effect for anybody *)
| MzKCertRequest.     (* the one thing anonymous connections may do *)

(* the zone a message is attributed to: the sender's zone, or for messages relayed by a peer of the receiver's
   own zone the origin zone that peer vouches for *)
Definition mz_eff_zone (l : nat) (s : mz_conn) : option nat :=
  match mz_ep s with
  | None => None
  | Some ez => if mz_onat_eqb ez (Some l) then (match mz_cclaim s with Some z => Some z | None => Some l end) else ez
  end.

Definition mz_obj_in (t : mz_tree) (l : nat) (oz : option nat) (z : nat) : Prop :=
  mz_glob t (mz_objz l oz) = true \/ mz_anc t (mz_objz l oz) z.

Definition mz_entitled (t : mz_tree) (c : mz_cfg) (s : mz_conn) (m : mz_msg) (k : mz_class) : Prop :=
  let l := mz_local c in
  match k with
  | MzKCertRequest | MzKInert => True
  | _ =>
    exists ez, mz_cauth s = true /\ mz_cident s = Some (Some ez) /\      (* authenticated, configured endpoint in zone ez *)
    match k with
    | MzKStateEvent => exists z, mz_eff_zone l s = Some z /\ mz_obj_in t l (mz_objzone m) z
    | MzKStateEventCmdEp => (exists z, mz_eff_zone l s = Some z /\ mz_obj_in t l (mz_objzone m) z) \/ mz_is_cmdep m = true
    | MzKBookkeeping => mz_eff_zone l s = Some l
    | MzKConfig => mz_anc t l ez /\ mz_accept_config c = true
    | MzKCommand => mz_anc t l ez /\ mz_accept_commands c = true
    | MzKCertUpdate => mz_anc t l ez
    | _ => True
    end
  end.

(* hypotheses under which the theorems are stated (all visible in Properties_C13.v) *)
(* objects that exist on a node are in its own zone, below it, or global (what config sync delivers) *)
Definition mz_placed (t : mz_tree) (c : mz_cfg) (m : mz_msg) : Prop := mz_obj_in t (mz_local c) (mz_objzone m) (mz_local c).
(* Endpoint::OnAllConfigLoaded rejects an endpoint that is member of no zone *)
Definition mz_zoned (s : mz_conn) : Prop := mz_cident s <> Some None.

(* ---- specification side: which class each registered method belongs to ---- *)
Local Open Scope string_scope.
Definition mz_class_table : list (string * mz_class) := [
  ("event::CheckResult", MzKStateEventCmdEp);
  ("event::SetNextCheck", MzKStateEvent);
  ("event::SetLastCheckStarted", MzKStateEvent);
  ("event::SetStateBeforeSuppression", MzKBookkeeping);
  ("event::SetSuppressedNotifications", MzKBookkeeping);
  ("event::SetSuppressedNotificationTypes", MzKBookkeeping);
  ("event::SetNextNotification", MzKStateEvent);
  ("event::UpdateLastNotifiedStatePerUser", MzKBookkeeping);
  ("event::ClearLastNotifiedStatePerUser", MzKBookkeeping);
  ("event::SetForceNextCheck", MzKStateEvent);
  ("event::SetForceNextNotification", MzKStateEvent);
  ("event::SetAcknowledgement", MzKStateEvent);
  ("event::ClearAcknowledgement", MzKStateEvent);
  ("event::ExecuteCommand", MzKCommand);
  ("event::SendNotifications", MzKBookkeeping);
  ("event::NotificationSentUser", MzKBookkeeping);
  ("event::NotificationSentToAllUsers", MzKBookkeeping);
  ("event::ExecutedCommand", MzKStateEvent);
  ("event::UpdateExecutions", MzKStateEvent);
  ("event::SetRemovalInfo", MzKStateEvent);
  ("event::Heartbeat", MzKInert);
  ("config::Update", MzKConfig);
  ("config::UpdateObject", MzKConfig);
  ("config::DeleteObject", MzKConfig);
  ("log::SetLogPosition", MzKSession);
  ("icinga::Hello", MzKSession);
  ("pki::RequestCertificate", MzKCertRequest);
  ("pki::UpdateCertificate", MzKCertUpdate)
].

Fixpoint mz_assoc {A} (k : string) (l : list (string * A)) : option A :=
  match l with
  | [] => None
  | (k', v) :: r => if String.eqb k k' then Some v else mz_assoc k r
  end.
Definition mz_class_of (method : string) : option mz_class := mz_assoc method mz_class_table.

Definition mz_class_eqb (a b : mz_class) : bool :=
  match a, b with
  | MzKStateEvent, MzKStateEvent | MzKStateEventCmdEp, MzKStateEventCmdEp | MzKBookkeeping, MzKBookkeeping
  | MzKConfig, MzKConfig | MzKCommand, MzKCommand | MzKCertUpdate, MzKCertUpdate | MzKSession, MzKSession
  | MzKInert, MzKInert | MzKCertRequest, MzKCertRequest => true
  | _, _ => false
  end.

(* does a handler of this class have any effect (for well-formed parameters) once it is past its checks *)
Definition mz_effectful (k : mz_class) : bool := negb (mz_class_eqb k MzKInert).

(* is the normalised check the source shows for a method adequate for the method's class?  (decided per row;
   MzProofs.v proves that an adequate row is sound for ALL trees, placements and senders) *)
Definition mz_row_ok (k : mz_class) (r : mz_row) : bool :=
  match k with
  | MzKStateEvent =>
      mz_rep r && match mz_rpat r with MzPCanAccess | MzPLocalChildOfOrigin | MzPExecZoneChildOfOrigin => true | _ => false end
      && match mz_rflag r with MzFNone => true | _ => false end
  | MzKStateEventCmdEp =>
      mz_rep r && match mz_rpat r with MzPCanAccess | MzPCanAccessOrCmdEp => true | _ => false end
      && match mz_rflag r with MzFNone => true | _ => false end
  | MzKBookkeeping =>
      mz_rep r && match mz_rpat r with MzPEqLocal => true | _ => false end
      && match mz_rflag r with MzFNone => true | _ => false end
  | MzKConfig =>
      mz_rep r && match mz_rpat r with MzPLocalChildOfOrigin | MzPLocalChildOfEpZone => true | _ => false end
      && match mz_rflag r with MzFConfig => true | _ => false end
  | MzKCommand =>
      mz_rep r && match mz_rpat r with MzPLocalOrParentThenOrigin => true | _ => false end
      && match mz_rflag r with MzFCommands => true | _ => false end
  | MzKCertUpdate =>
      (* the endpoint test may be missing: that case is the recorded finding, excluded by a visible hypothesis *)
      match mz_rpat r with MzPLocalChildOfOrigin | MzPLocalChildOfEpZone => true | _ => false end
      && match mz_rflag r with MzFUnrecognised => false | _ => true end
  | MzKSession =>
      mz_rep r && match mz_rpat r with MzPUnrecognised => false | _ => true end
      && match mz_rflag r with MzFUnrecognised => false | _ => true end
  | MzKInert => true
  | MzKCertRequest => true
  end.

Definition mz_table_ok (tbl : list mz_row) : bool :=
  forallb (fun r => match mz_class_of (mz_rmethod r) with Some k => mz_row_ok k r | None => false end) tbl.

(* the recorded finding F-C13-b: pki::UpdateCertificate does not test for an endpoint, so a sender without one
   (anonymous, or authenticated under a name that is no configured Endpoint) gets past its only check *)
Definition mz_finding_anon_cert (s : mz_conn) (r : mz_row) : Prop :=
  mz_ep s = None /\ mz_rep r = false /\ mz_class_of (mz_rmethod r) = Some MzKCertUpdate.
