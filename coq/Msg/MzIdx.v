(* String-free, index-addressed tables for extraction (the shared OCaml driver cannot host Coq's [string] type).
   Index i = position of the method in MzModel.mz_class_table.  Both tables are NORMAL FORMS computed by the kernel
   from the string-keyed definitions; the lemmas below tie the indexed entry points back to [mz_run]/[mz_oracle_msg]. *)
From Icv Require Import Base.Tac Msg.MzModel Msg.MzFacts Msg.MzObs.
From Coq Require Import String Ascii NArith.
Local Open Scope nat_scope.

Definition mz_irow_of (kc : string * mz_class) : option (bool * mz_pattern * mz_flag) * mz_class :=
  (option_map mz_row_core (mz_lookup (fst kc)), snd kc).

Definition mz_irows : list (option (bool * mz_pattern * mz_flag) * mz_class) :=
  Eval vm_compute in map mz_irow_of mz_class_table.

(* the method names as byte lists, for the driver's name -> index lookup *)
Definition mz_names : list (list N) :=
  Eval vm_compute in map (fun kc => map N_of_ascii (list_ascii_of_string (fst kc))) mz_class_table.

Definition mz_run_i (t : mz_tree) (c : mz_cfg) (s : mz_conn) (m : mz_msg) (ts : mz_ts) (i : nat) : mz_out :=
  match nth_error mz_irows i with
  | Some (row, k) => mz_handle_core t c s m ts row (mz_effectful k)
  | None => mz_handle_core t c s m ts None true
  end.

Definition mz_oracle_i (t : mz_tree) (c : mz_cfg) (s : mz_conn) (m : mz_msg) (i : nat) (o : mz_out) : nat :=
  mz_oracle_core t c s m (match nth_error mz_irows i with Some (_, k) => Some k | None => None end) o.

Lemma mz_irows_eq : mz_irows = map mz_irow_of mz_class_table.
Proof. vm_compute. reflexivity. Qed.

Lemma mz_class_table_nodup :
  forallb (fun kc => match mz_class_of (fst kc) with Some k => mz_class_eqb k (snd kc) | None => false end) mz_class_table = true.
Proof. vm_compute. reflexivity. Qed.

Lemma mz_class_eqb_eq a b : mz_class_eqb a b = true -> a = b.
Proof. destruct a, b; cbn; intros; try discriminate; reflexivity. Qed.

Lemma mz_class_at i name k : nth_error mz_class_table i = Some (name, k) -> mz_class_of name = Some k.
Proof.
  intros H. apply nth_error_In in H. pose proof mz_class_table_nodup as F.
  rewrite forallb_forall in F. specialize (F _ H). cbn [fst snd] in F.
  destruct (mz_class_of name) as [k'|]; [|discriminate]. apply mz_class_eqb_eq in F; subst; reflexivity.
Qed.

Lemma mz_run_i_spec t c s m ts i name k :
  nth_error mz_class_table i = Some (name, k) -> mz_run_i t c s m ts i = mz_run t c s m ts name.
Proof.
  intros H. unfold mz_run_i, mz_run, mz_handle. rewrite mz_irows_eq.
  rewrite (map_nth_error mz_irow_of _ _ H). unfold mz_irow_of; cbn [fst snd].
  rewrite (mz_class_at _ _ _ H). reflexivity.
Qed.

Lemma mz_oracle_i_spec t c s m i name k o :
  nth_error mz_class_table i = Some (name, k) -> mz_oracle_i t c s m i o = mz_oracle_msg t c s m name o.
Proof.
  intros H. unfold mz_oracle_i, mz_oracle_msg. rewrite mz_irows_eq.
  rewrite (map_nth_error mz_irow_of _ _ H). unfold mz_irow_of; cbn [fst snd].
  rewrite (mz_class_at _ _ _ H). reflexivity.
Qed.
