(* C13 - the object a handler's entitlement test names is the object the handler changes. *)
From Icv Require Import Base.Tac Facts.Facts_c13 Msg.MzModel Msg.MzFacts Msg.MzProofs Msg.MzObs Msg.MzOracleProofs
                        Msg.MzIdx Msg.MzCfg Msg.MzCfgProofs Msg.MzObj.
From Coq Require Import String.
Local Open Scope nat_scope.

(* This is the line that stops checking when some handler's test is recognised to name ANOTHER object than the one the
   handler changes (the checkable of a notification, the host of a service, ...). *)
Lemma mz_sel_ok_now : mz_sel_ok = true.
Proof. vm_compute. reflexivity. Qed.

Lemma mz_sel_row_now r : In r mz_table ->
  match mz_sel_lookup (mz_rmethod r) with
  | MzSAddressed => True
  | MzSNone => mz_pat_reads_object (mz_rpat r) = false
  | MzSUnknown => True
  | MzSCheckableOf | MzSHostOf | MzSOther => False
  end.
Proof.
  intros I. pose proof mz_sel_ok_now as H. unfold mz_sel_ok in H. rewrite forallb_forall in H.
  specialize (H r I). unfold mz_sel_row_ok in H.
  destruct (mz_sel_lookup (mz_rmethod r)); try exact Logic.I; try discriminate.
  apply negb_true_iff in H. exact H.
Qed.

(* hence, for every row of the generated table, the check sees exactly the object that is changed: the zones of the
   related objects (its checkable, its host) play no role *)
Lemma mz_tested_is_changed r om : In r mz_table -> mz_tested_msg (mz_sel_lookup (mz_rmethod r)) om = mz_om om.
Proof.
  intros I. pose proof (mz_sel_row_now r I) as H.
  destruct (mz_sel_lookup (mz_rmethod r)); try contradiction; reflexivity.
Qed.

Lemma mz_authorise_obj_eq t c s om r : In r mz_table -> mz_authorise_obj t c s om r = mz_authorise t c s (mz_om om) r.
Proof. intros I. unfold mz_authorise_obj. rewrite (mz_tested_is_changed r om I). reflexivity. Qed.

Lemma mz_related_irrelevant t c s om ck ck' h h' r : In r mz_table ->
  mz_authorise_obj t c s {| mz_om := om; mz_ockzone := ck; mz_ohostzone := h |} r =
  mz_authorise_obj t c s {| mz_om := om; mz_ockzone := ck'; mz_ohostzone := h' |} r.
Proof. intros I. rewrite !mz_authorise_obj_eq; auto. Qed.

(* soundness for the object CHANGED: placement is about that object too *)
Lemma mz_sound_obj : forall r, In r mz_table -> forall t c s om,
  mz_wf t -> mz_placed t c (mz_om om) -> mz_zoned s -> ~ mz_finding_anon_cert s r ->
  mz_authorise_obj t c s om r = true ->
  exists k, mz_class_of (mz_rmethod r) = Some k /\ mz_entitled t c s (mz_om om) k.
Proof.
  intros r I t c s om W PL Z NF A. rewrite (mz_authorise_obj_eq t c s om r I) in A.
  eapply mz_sound; eauto.
Qed.

(* why the selection matters: a canaccess row that read the CHECKABLE's zone would let a child zone change an object of the
   receiver's own zone.  Tree: 0 receiver (root), 1 child.  Notification in zone 0 on a host in zone 1, sender from zone 1. *)
Definition mz_obj_witness_tree : mz_tree :=
  [ {| mz_zparent := None; mz_zglobal := false |}; {| mz_zparent := Some 0; mz_zglobal := false |} ].
Definition mz_obj_witness_msg : mz_omsg :=
  {| mz_om := {| mz_objzone := Some 0; mz_is_cmdep := false |}; mz_ockzone := Some 1; mz_ohostzone := Some 1 |}.

Lemma mz_checkable_of_unsound :
  let t := mz_obj_witness_tree in
  let c := {| mz_local := 0; mz_accept_config := false; mz_accept_commands := false |} in
  let s := {| mz_cauth := true; mz_cident := Some (Some 1); mz_cclaim := None |} in
  let r := {| mz_rmethod := "event::SetNextNotification"; mz_rep := true; mz_rpat := MzPCanAccess; mz_rflag := MzFNone |} in
  mz_wf t /\ mz_placed t c (mz_om mz_obj_witness_msg) /\ mz_zoned s /\
  mz_authorise t c s (mz_tested_msg MzSCheckableOf mz_obj_witness_msg) r = true /\
  mz_authorise t c s (mz_tested_msg MzSAddressed mz_obj_witness_msg) r = false /\
  ~ mz_entitled t c s (mz_om mz_obj_witness_msg) MzKStateEvent.
Proof.
  cbv zeta. split; [|split; [|split; [|split; [|split]]]].
  - intros z p H. unfold mz_par in H. destruct z as [|[|z]]; cbn in H; try discriminate.
    + inversion H; subst. lia.
    + destruct z; discriminate.
  - right. constructor.
  - discriminate.
  - vm_compute. reflexivity.
  - vm_compute. reflexivity.
  - intros (ez & _ & Hi & z & EF & OI). inversion Hi; subst ez. vm_compute in EF. inversion EF; subst z.
    destruct OI as [G|A]; [vm_compute in G; discriminate|].
    cbn in A. inversion A; subst. unfold mz_par in H; cbn in H. discriminate.
Qed.

(* ---------------------------------------------------------------- the index-addressed entry point *)
Lemma mz_isels_eq : mz_isels = map (fun kc => mz_sel_lookup (fst kc)) mz_class_table.
Proof. vm_compute. reflexivity. Qed.

Lemma mz_sel_i_spec i name k : nth_error mz_class_table i = Some (name, k) -> mz_sel_i i = mz_sel_lookup name.
Proof.
  intros H. unfold mz_sel_i. rewrite mz_isels_eq.
  apply (map_nth_error (fun kc => mz_sel_lookup (fst kc))) in H. cbn [fst] in H.
  apply nth_error_nth with (d := MzSUnknown) in H. exact H.
Qed.

Lemma mz_lookup_in name r : mz_lookup name = Some r -> In r mz_table /\ mz_rmethod r = name.
Proof. apply mz_find_row_in. Qed.

(* for every classified method the extracted model answers as if the check read the object changed *)
Lemma mz_run_obj_i_spec t c s om ts i name k zp :
  nth_error mz_class_table i = Some (name, k) ->
  mz_run_obj_i t c s om ts i zp = mz_run_zp_i t c s (mz_om om) ts i zp.
Proof.
  intros N. unfold mz_run_obj_i. rewrite (mz_sel_i_spec i name k N).
  destruct (mz_lookup name) as [r|] eqn:L.
  - destruct (mz_lookup_in name r L) as [I Mn]. rewrite <- Mn. rewrite (mz_tested_is_changed r om I). reflexivity.
  - (* a classified method is registered *)
    exfalso. pose proof mz_all_registered_now as A. unfold mz_all_registered in A. rewrite forallb_forall in A.
    apply nth_error_In in N. specialize (A _ N). cbn [fst] in A. rewrite L in A. discriminate.
Qed.

(* the per-message oracle, fed with the zone of the object CHANGED, never fires on an answer of this model *)
Lemma mz_oracle_obj_accepts t c s om ts i name k zp :
  mz_wf t -> nth_error mz_class_table i = Some (name, k) ->
  (forall r, mz_lookup name = Some r -> ~ mz_finding_anon_cert s r) ->
  mz_oracle_i t c s (mz_om om) i (mz_run_obj_i t c s om ts i zp) = 0.
Proof.
  intros W N NF. rewrite (mz_run_obj_i_spec t c s om ts i name k zp N).
  eapply mz_oracle_zp_accepts; eauto.
Qed.

(* ---------------------------------------------------------------- which objects changed *)
Lemma mz_oracle_core_applied t c s m k o :
  mz_oracle_core t c s m (Some k) o = 0 -> mz_applied o = true ->
  mz_placed_b t c m && mz_zoned_b s && negb (mz_entitled_b t c s m k) = false \/ mz_effectful k = false.
Proof.
  unfold mz_oracle_core. intros H A. rewrite A in H. cbn [negb orb] in H.
  destruct (mz_dropped o); cbn [andb] in H; [discriminate|].
  destruct (mz_rlp o && negb (mz_is_some (mz_ep s))); [discriminate|].
  destruct (mz_effectful k); cbn [negb] in H; [|discriminate].
  destruct (mz_placed_b t c m && mz_zoned_b s && negb (mz_entitled_b t c s m k)); [discriminate|auto].
Qed.

Lemma mz_with_zone_id m : mz_with_zone m (mz_objzone m) = m.
Proof. destruct m; reflexivity. Qed.

(* the changed-objects oracle accepts what the model says changed *)
Lemma mz_oracle_changed_accepts t c s om ts i name k zp :
  mz_wf t -> nth_error mz_class_table i = Some (name, k) -> mz_effectful k = true ->
  (forall r, mz_lookup name = Some r -> ~ mz_finding_anon_cert s r) ->
  mz_oracle_changed_i t c s (mz_om om) i (mz_changed_zones (mz_run_obj_i t c s om ts i zp) om) = 0.
Proof.
  intros W N EF NF. pose proof (mz_oracle_obj_accepts t c s om ts i name k zp W N NF) as O.
  unfold mz_oracle_changed_i, mz_changed_zones. unfold mz_oracle_i in O.
  rewrite mz_irows_eq in *. rewrite (map_nth_error mz_irow_of _ _ N) in *. unfold mz_irow_of in *; cbn [fst snd] in *.
  destruct (mz_applied (mz_run_obj_i t c s om ts i zp)) eqn:A; [|reflexivity].
  cbn [existsb]. rewrite mz_with_zone_id. rewrite orb_false_r.
  destruct (mz_oracle_core_applied _ _ _ _ _ _ O A) as [H|H]; [rewrite H; reflexivity|congruence].
Qed.

(* ---------------------------------------------------------------- unknown object type: inert *)
Lemma mz_oracle_gate t c s m i o b : mz_oracle_i t c s m i o = 0 -> mz_oracle_i t c s m i (mz_gate o b) = 0.
Proof.
  destruct b.
  - unfold mz_gate. rewrite andb_true_r. destruct o; auto.
  - unfold mz_gate. rewrite andb_false_r. unfold mz_oracle_i, mz_oracle_core. cbn [mz_dropped mz_rlp mz_applied].
    destruct o as [d r a]; cbn [mz_dropped mz_rlp mz_applied]. rewrite orb_false_l.
    destruct d, r, a; cbn; try reflexivity; try discriminate;
      destruct (mz_is_some (mz_ep s)); cbn; try reflexivity; try discriminate.
Qed.

Lemma mz_run_objk_unknown t c s om ts i zp : mz_applied (mz_run_objk_i t c s om ts i zp false) = false.
Proof. unfold mz_run_objk_i, mz_gate. cbn. apply andb_false_r. Qed.

Lemma mz_oracle_objk_accepts t c s om ts i name k zp known :
  mz_wf t -> nth_error mz_class_table i = Some (name, k) ->
  (forall r, mz_lookup name = Some r -> ~ mz_finding_anon_cert s r) ->
  mz_oracle_i t c s (mz_om om) i (mz_run_objk_i t c s om ts i zp known) = 0.
Proof. intros W N NF. apply mz_oracle_gate. eapply mz_oracle_obj_accepts; eauto. Qed.

Lemma mz_oracle_changed_k_accepts t c s om ts i name k zp known :
  mz_wf t -> nth_error mz_class_table i = Some (name, k) -> mz_effectful k = true ->
  (forall r, mz_lookup name = Some r -> ~ mz_finding_anon_cert s r) ->
  mz_oracle_changed_i t c s (mz_om om) i (mz_changed_zones (mz_run_objk_i t c s om ts i zp known) om) = 0.
Proof.
  intros W N EF NF. destruct known.
  - unfold mz_run_objk_i, mz_gate. rewrite andb_true_r.
    replace {| mz_dropped := mz_dropped (mz_run_obj_i t c s om ts i zp); mz_rlp := mz_rlp (mz_run_obj_i t c s om ts i zp);
               mz_applied := mz_applied (mz_run_obj_i t c s om ts i zp) |} with (mz_run_obj_i t c s om ts i zp)
      by (destruct (mz_run_obj_i t c s om ts i zp); reflexivity).
    eapply mz_oracle_changed_accepts; eauto.
  - unfold mz_changed_zones. rewrite mz_run_objk_unknown. unfold mz_oracle_changed_i.
    rewrite mz_irows_eq. rewrite (map_nth_error mz_irow_of _ _ N). reflexivity.
Qed.
