(* C13 - what the regenerated source facts say NOW about registrations and about the order of checks and effects. *)
From Icv Require Import Base.Tac Facts.Facts_c13 Msg.MzModel Msg.MzFacts Msg.MzProofs.
From Coq Require Import String.
Local Open Scope nat_scope.
Local Open Scope string_scope.

Lemma mz_strs_eqb_eq a : forall b, mz_strs_eqb a b = true -> a = b.
Proof.
  induction a as [|x a IH]; destruct b as [|y b]; cbn; intros H; try discriminate; [reflexivity|].
  apply andb_prop in H as [H1 H2]. apply String.eqb_eq in H1. subst. f_equal. auto.
Qed.

Lemma mz_str_nodup_b_spec l : mz_str_nodup_b l = true -> NoDup l.
Proof.
  induction l as [|x l IH]; cbn; intros H; [constructor|].
  apply andb_prop in H as [H1 H2]. constructor; auto.
  intros I. apply negb_true_iff in H1. assert (existsb (String.eqb x) l = true); [|congruence].
  apply existsb_exists. exists x; split; auto. apply String.eqb_refl.
Qed.

Lemma mz_registrations_ok_now : mz_registrations_ok = true.
Proof. vm_compute. reflexivity. Qed.

Lemma mz_registrations_now :
  map fst f_mz_registrations = map mz_rmethod mz_table /\ NoDup (map mz_rmethod mz_table) /\
  List.length f_mz_registrations = f_mz_macro_uses /\ f_mz_other_registrations = 0.
Proof.
  pose proof mz_registrations_ok_now as H. unfold mz_registrations_ok in H.
  apply andb_prop in H as [H H4]. apply andb_prop in H as [H H3]. apply andb_prop in H as [H1 H2].
  split; [|split; [|split]].
  - apply mz_strs_eqb_eq; auto.
  - apply mz_str_nodup_b_spec; auto.
  - apply Nat.eqb_eq; auto.
  - apply Nat.eqb_eq; auto.
Qed.

Lemma mz_find_row_some method l : In method (map mz_rmethod l) -> exists r, mz_find_row method l = Some r.
Proof.
  induction l as [|x l IH]; cbn; [intros []|].
  destruct (String.eqb method (mz_rmethod x)) eqn:E; [eauto|].
  intros [H|H]; [|auto]. subst. rewrite String.eqb_refl in E. discriminate.
Qed.

(* every registration the source contains has a row, a class and an adequate check *)
Lemma mz_registered_covered method fn :
  In (method, fn) f_mz_registrations ->
  exists r k, mz_lookup method = Some r /\ In r mz_table /\ mz_class_of method = Some k /\ mz_row_ok k r = true.
Proof.
  intros I. destruct mz_registrations_now as (M & _).
  assert (In method (map mz_rmethod mz_table)).
  { rewrite <- M. apply in_map_iff. exists (method, fn); auto. }
  destruct (mz_find_row_some _ _ H) as (r & L). exists r.
  assert (J : In r mz_table /\ mz_rmethod r = method).
  { clear -L. unfold mz_lookup in L. revert L. generalize mz_table. induction l as [|x l IH]; cbn; [discriminate|].
    destruct (String.eqb method (mz_rmethod x)) eqn:E.
    - intros Q; inversion Q; subst. split; auto. apply String.eqb_eq in E; auto.
    - intros Q. destruct (IH Q); auto. }
  destruct J as [J Mn]. destruct (mz_table_row r J) as (k & CL & OK). rewrite Mn in CL. eauto.
Qed.

Lemma mz_dom_ok_now : mz_dom_ok = true.
Proof. vm_compute. reflexivity. Qed.

Lemma mz_dom_now r : In r mz_table ->
  exists d, mz_assoc (mz_rmethod r) f_mz_dominance = Some d /\
    (d = "all" \/ (d = "no_check" /\ mz_row_has_no_check r = true) \/ In (mz_rmethod r, d) mz_dom_exceptions).
Proof.
  intros I. pose proof mz_dom_ok_now as H. unfold mz_dom_ok in H. rewrite forallb_forall in H.
  specialize (H r I). unfold mz_dom_row_ok in H.
  destruct (mz_assoc (mz_rmethod r) f_mz_dominance) as [d|]; [|discriminate].
  exists d; split; auto. apply orb_prop in H as [H|H]; [apply orb_prop in H as [H|H]|].
  - left. apply String.eqb_eq; auto.
  - right; left. apply andb_prop in H as [H1 H2]. apply String.eqb_eq in H1; auto.
  - right; right. apply existsb_exists in H as ([a b] & Hi & He). cbn in He.
    apply andb_prop in He as [E1 E2]. apply String.eqb_eq in E1. apply String.eqb_eq in E2. subst. exact Hi.
Qed.

Lemma mz_rules_now : mz_forward_rule_ok /\ mz_relay_rule_ok /\ mz_update_object_zone_rule_ok.
Proof. repeat split; vm_compute; first [reflexivity | exact I]. Qed.
