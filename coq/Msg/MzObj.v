(* C13 - handlers that touch MORE THAN ONE object: which object's zone the entitlement test reads, and which object the
   handler changes.

   A Notification, Comment or Downtime has a checkable; a Service has a Host; the "zone" attribute of each of them is set
   independently (apply rules copy the checkable's zone, explicit `object ... { zone = "..." }` need not).  The statement
   speaks about the object a message CHANGES.  tools/facts_c13.py determines, per handler, the variable handed to
   Zone::CanAccessObject (for event::ExecutedCommand: the record whose "endpoint" names the zone that is tested) and the
   variables the handler changes after its refusal checks, and emits the relation between the two (Facts_c13.f_mz_tested):

     addressed     the object tested IS the (only) object changed
     checkable_of  the test names the checkable of the object changed       (notification / comment / downtime handlers)
     host_of       the test names the host of the checkable changed
     other         some other variable
     none          the handler's check reads no object at all
     unknown       the scan cannot tell (several / no changed objects recognised): decided by the correspondence run only

   The model below FOLLOWS that fact: a message carries the zone of the object changed plus the zones of its checkable and
   of its host, and the row's selection says which of them the check reads.  Model only (no proofs). *)
From Icv Require Import Base.Tac Facts.Facts_c13 Msg.MzModel Msg.MzFacts Msg.MzObs Msg.MzIdx Msg.MzCfg.
From Coq Require Import String.
Local Open Scope nat_scope.

Inductive mz_sel := MzSAddressed | MzSCheckableOf | MzSHostOf | MzSOther | MzSNone | MzSUnknown.

Local Open Scope string_scope.
Definition mz_sel_of (s : string) : mz_sel :=
  if String.eqb s "addressed" then MzSAddressed
  else if String.eqb s "checkable_of" then MzSCheckableOf
  else if String.eqb s "host_of" then MzSHostOf
  else if String.eqb s "other" then MzSOther
  else if String.eqb s "none" then MzSNone
  else MzSUnknown.
Local Close Scope string_scope.

(* what the source says NOW, per method *)
Definition mz_sel_lookup (method : string) : mz_sel :=
  match mz_assoc method f_mz_tested with Some s => mz_sel_of s | None => MzSUnknown end.

(* a message as the multi-object handlers see it *)
Record mz_omsg := {
  mz_om : mz_msg;                 (* zone of the object the handler CHANGES (+ the command-endpoint flag) *)
  mz_ockzone : option nat;        (* zone of that object's checkable (notification, comment, downtime); else = its own *)
  mz_ohostzone : option nat       (* zone of the host of the checkable changed (services); else = its own *)
}.

(* the message as the handler's CHECK sees it *)
Definition mz_tested_msg (sel : mz_sel) (om : mz_omsg) : mz_msg :=
  match sel with
  | MzSCheckableOf => {| mz_objzone := mz_ockzone om; mz_is_cmdep := mz_is_cmdep (mz_om om) |}
  | MzSHostOf => {| mz_objzone := mz_ohostzone om; mz_is_cmdep := mz_is_cmdep (mz_om om) |}
  | MzSAddressed | MzSOther | MzSNone | MzSUnknown => mz_om om
  end.

Definition mz_pat_reads_object (p : mz_pattern) : bool :=
  match p with MzPCanAccess | MzPCanAccessOrCmdEp | MzPExecZoneChildOfOrigin => true | _ => false end.

(* adequacy of the generated selection for a row: the check reads the object that is changed; or no object at all; or
   the scan could not establish either (then only the run decides - logged in the evidence).  A POSITIVELY recognised
   other object is inadequate. *)
Definition mz_sel_row_ok (r : mz_row) : bool :=
  match mz_sel_lookup (mz_rmethod r) with
  | MzSAddressed => true
  | MzSNone => negb (mz_pat_reads_object (mz_rpat r))
  | MzSUnknown => true
  | MzSCheckableOf | MzSHostOf | MzSOther => false
  end.
Definition mz_sel_ok : bool := forallb mz_sel_row_ok mz_table.

(* string-free, index-addressed form for extraction (index = position in mz_class_table, cf. MzIdx.v) *)
Definition mz_isels : list mz_sel := Eval vm_compute in map (fun kc => mz_sel_lookup (fst kc)) mz_class_table.
Definition mz_sel_i (i : nat) : mz_sel := nth i mz_isels MzSUnknown.

(* the model's answer for one message of the multi-object family *)
Definition mz_run_obj_i (t : mz_tree) (c : mz_cfg) (s : mz_conn) (om : mz_omsg) (ts : mz_ts) (i : nat) (zp : mz_zparam) : mz_out :=
  mz_run_zp_i t c s (mz_tested_msg (mz_sel_i i) om) ts i zp.

(* string-keyed counterpart the theorems are stated on *)
Definition mz_authorise_obj (t : mz_tree) (c : mz_cfg) (s : mz_conn) (om : mz_omsg) (r : mz_row) : bool :=
  mz_authorise t c s (mz_tested_msg (mz_sel_lookup (mz_rmethod r)) om) r.

(* ---- WHICH objects changed: the zones (attribute "zone"; None = no such attribute) of the objects of the fixture whose
   serialised state differs after the message.  The model changes the one object the message names, when it applies. *)
Definition mz_changed_zones (o : mz_out) (om : mz_omsg) : list (option nat) :=
  if mz_applied o then [mz_objzone (mz_om om)] else [].

Definition mz_with_zone (m : mz_msg) (oz : option nat) : mz_msg := {| mz_objzone := oz; mz_is_cmdep := mz_is_cmdep m |}.

(* verdict over the observed list: every object that changed must be one the sender is entitled to change (13 otherwise) *)
Definition mz_oracle_changed_i (t : mz_tree) (c : mz_cfg) (s : mz_conn) (m : mz_msg) (i : nat) (zs : list (option nat)) : nat :=
  match nth_error mz_irows i with
  | Some (_, k) =>
      if existsb (fun oz => let m' := mz_with_zone m oz in
                            mz_placed_b t c m' && mz_zoned_b s && negb (mz_entitled_b t c s m' k)) zs then 13 else 0
  | None => match zs with [] => 0 | _ => 1 end
  end.

(* a message whose "type" field names something the handler does not know (event::SetRemovalInfo with an object_type other
   than Comment / Downtime) has no effect for anybody: [known] = false *)
Definition mz_run_objk_i (t : mz_tree) (c : mz_cfg) (s : mz_conn) (om : mz_omsg) (ts : mz_ts) (i : nat) (zp : mz_zparam)
                         (known : bool) : mz_out :=
  mz_gate (mz_run_obj_i t c s om ts i zp) known.
