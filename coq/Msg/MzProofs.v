(* C13 - proofs: IsChildOf on well-formed trees, soundness of every adequate (class, check) pair for all zone
   trees / placements / senders, anonymous senders, accept flags. *)
From Icv Require Import Base.Tac Msg.MzModel Msg.MzFacts.
From Coq Require Import String.
Local Open Scope nat_scope.

(* ---------------------------------------------------------------- IsChildOf *)
Lemma mz_ico_anc t f : forall a z, mz_ico t f a z = true -> mz_anc t a z.
Proof.
  induction f as [|f IH]; intros a z H; cbn in H; [discriminate|].
  destruct (Nat.eqb a z) eqn:E.
  - apply Nat.eqb_eq in E; subst; constructor.
  - destruct (mz_par t a) as [p|] eqn:P; [|discriminate].
    eapply mz_anc_step; eauto.
Qed.

Lemma mz_anc_le t a z : mz_wf t -> mz_anc t a z -> z <= a.
Proof.
  intros W H; induction H as [a|a p z P _ IH]; [lia|].
  specialize (W a p P); lia.
Qed.

Lemma mz_anc_ico t a z : mz_wf t -> mz_anc t a z -> forall f, a < f -> mz_ico t f a z = true.
Proof.
  intros W H; induction H as [a|a p z P _ IH]; intros f L.
  - destruct f; [lia|]. cbn. rewrite Nat.eqb_refl. reflexivity.
  - destruct f; [lia|]. cbn. destruct (Nat.eqb a z); [reflexivity|].
    rewrite P. apply IH. specialize (W a p P). lia.
Qed.

Lemma mz_is_child_of_spec t a z : mz_wf t -> (mz_is_child_of t a z = true <-> mz_anc t a z).
Proof.
  intros W; split.
  - apply mz_ico_anc.
  - intros H; apply mz_anc_ico; auto.
Qed.

Lemma mz_anc_trans t a b c : mz_anc t a b -> mz_anc t b c -> mz_anc t a c.
Proof. induction 1; intros; auto. eapply mz_anc_step; eauto. Qed.

Lemma mz_is_child_of_refl t a : mz_is_child_of t a a = true.
Proof. unfold mz_is_child_of; cbn. rewrite Nat.eqb_refl. reflexivity. Qed.

Lemma mz_is_child_of_trans t a b c : mz_wf t ->
  mz_is_child_of t a b = true -> mz_is_child_of t b c = true -> mz_is_child_of t a c = true.
Proof.
  intros W H1 H2. apply mz_is_child_of_spec in H1; auto. apply mz_is_child_of_spec in H2; auto.
  apply mz_is_child_of_spec; auto. eapply mz_anc_trans; eauto.
Qed.

Lemma mz_is_child_of_antisym t a b : mz_wf t ->
  mz_is_child_of t a b = true -> mz_is_child_of t b a = true -> a = b.
Proof.
  intros W H1 H2. apply mz_is_child_of_spec in H1; auto. apply mz_is_child_of_spec in H2; auto.
  apply mz_anc_le in H1; auto. apply mz_anc_le in H2; auto. lia.
Qed.

(* the parent relation is a partial order with the stated meaning; stated together for Properties_C13.v *)
Lemma mz_is_child_of_order t : mz_wf t ->
  (forall a z, mz_is_child_of t a z = true <-> mz_anc t a z) /\
  (forall a, mz_is_child_of t a a = true) /\
  (forall a b c, mz_is_child_of t a b = true -> mz_is_child_of t b c = true -> mz_is_child_of t a c = true) /\
  (forall a b, mz_is_child_of t a b = true -> mz_is_child_of t b a = true -> a = b).
Proof.
  intros W; repeat split.
  - apply mz_is_child_of_spec; auto.
  - apply mz_is_child_of_spec; auto.
  - apply mz_is_child_of_refl.
  - intros; eapply mz_is_child_of_trans; eauto.
  - intros; eapply mz_is_child_of_antisym; eauto.
Qed.

(* ---------------------------------------------------------------- senders *)
Lemma mz_ep_some s x : mz_ep s = Some x -> mz_cauth s = true /\ mz_cident s = Some x.
Proof. unfold mz_ep. destruct (mz_cauth s); [auto|discriminate]. Qed.

Lemma mz_ep_zoned s x : mz_zoned s -> mz_ep s = Some x -> exists ez, x = Some ez.
Proof.
  intros Z H. apply mz_ep_some in H as [_ H]. destruct x as [ez|]; [eauto|]. exfalso; apply Z; exact H.
Qed.

Lemma mz_onat_eqb_some a b : mz_onat_eqb (Some a) (Some b) = Nat.eqb a b.
Proof. reflexivity. Qed.

(* FromZone versus the zone the message is attributed to *)
Lemma mz_fz_eff l s ez : mz_ep s = Some (Some ez) ->
  (mz_from_zone l s = None /\ mz_eff_zone l s = Some l /\ ez = l) \/
  (exists z, mz_from_zone l s = Some z /\ mz_eff_zone l s = Some z).
Proof.
  intros E. unfold mz_from_zone, mz_eff_zone. rewrite E, mz_onat_eqb_some.
  destruct (Nat.eqb ez l) eqn:Q.
  - apply Nat.eqb_eq in Q. destruct (mz_cclaim s) as [z|]; [right; eauto|left; auto].
  - right; eauto.
Qed.

Lemma mz_fz_direct l s ez : mz_ep s = Some (Some ez) -> ez = l \/ mz_from_zone l s = Some ez.
Proof.
  intros E. unfold mz_from_zone. rewrite E, mz_onat_eqb_some.
  destruct (Nat.eqb ez l) eqn:Q; [left; apply Nat.eqb_eq; auto|right; auto].
Qed.

Lemma mz_can_access_obj_in t l z oz : mz_wf t -> mz_can_access t l z oz = true -> mz_obj_in t l oz z.
Proof.
  intros W H. unfold mz_can_access in H. unfold mz_obj_in.
  destruct (mz_glob t (mz_objz l oz)); [left; reflexivity|right]. apply mz_is_child_of_spec; auto.
Qed.

(* the three "from above" checks place the receiver at or below the sender's zone *)
Lemma mz_above t c s m p ez : mz_wf t -> mz_ep s = Some (Some ez) ->
  match p with MzPLocalChildOfOrigin | MzPLocalChildOfEpZone | MzPLocalOrParentThenOrigin => True | _ => False end ->
  mz_origin_ok t c s m p = true -> mz_anc t (mz_local c) ez.
Proof.
  intros W E P H. destruct p; try contradiction; unfold mz_origin_ok in H.
  - destruct (mz_fz_direct (mz_local c) s ez E) as [->|F]; [constructor|].
    rewrite F in H. apply mz_is_child_of_spec; auto.
  - rewrite E in H. cbn in H. apply mz_is_child_of_spec; auto.
  - rewrite E in H. apply andb_prop in H as [H _]. rewrite mz_onat_eqb_some in H.
    apply orb_prop in H as [H|H].
    + apply Nat.eqb_eq in H; subst; constructor.
    + destruct (mz_par t (mz_local c)) as [p|] eqn:Pq; [|discriminate].
      rewrite mz_onat_eqb_some in H. apply Nat.eqb_eq in H; subst.
      eapply mz_anc_step; eauto. constructor.
Qed.

(* which claimed originZone is honoured: none from a sender outside the receiver's zone (the message is attributed to
   the sender's own zone, whatever it claims); a peer of the receiver's own zone is trusted to name the zone it relays for *)
Lemma mz_origin_claim_sound l s :
  (forall ez, mz_ep s = Some (Some ez) -> ez <> l ->
     mz_from_zone l s = Some ez /\ mz_eff_zone l s = Some ez) /\
  (forall z, mz_from_zone l s = Some z ->
     exists ez, mz_cauth s = true /\ mz_cident s = Some ez /\
       ((ez = Some z /\ z <> l) \/ (ez = Some l /\ mz_cclaim s = Some z))) /\
  (mz_ep s = None -> mz_from_zone l s = None /\ mz_eff_zone l s = None).
Proof.
  repeat split.
  - unfold mz_from_zone. rewrite H, mz_onat_eqb_some. destruct (Nat.eqb ez l) eqn:Q; auto.
    apply Nat.eqb_eq in Q; contradiction.
  - unfold mz_eff_zone. rewrite H, mz_onat_eqb_some. destruct (Nat.eqb ez l) eqn:Q; auto.
    apply Nat.eqb_eq in Q; contradiction.
  - intros z F. unfold mz_from_zone in F. destruct (mz_ep s) as [ez|] eqn:E; [|discriminate].
    apply mz_ep_some in E as [Ha Hi]. exists ez; repeat split; auto.
    destruct ez as [e|]; cbn in F.
    + destruct (Nat.eqb e l) eqn:Q.
      * apply Nat.eqb_eq in Q; subst. right; auto.
      * inversion F; subst. left; split; auto. intros ->. rewrite Nat.eqb_refl in Q; discriminate.
    + discriminate.
  - unfold mz_from_zone. rewrite H. reflexivity.
  - unfold mz_eff_zone. rewrite H. reflexivity.
Qed.

Lemma mz_origin_rule_now : mz_origin_rule_ok.
Proof. vm_compute. first [reflexivity | exact I]. Qed.

(* ---------------------------------------------------------------- soundness of an adequate row *)
Ltac mz_split H :=
  repeat match type of H with
  | (_ && _) = true => let H' := fresh H in apply andb_prop in H as [H H']
  end.

Lemma mz_row_sound t c s m r k :
  mz_wf t -> mz_placed t c m -> mz_zoned s -> ~ mz_finding_anon_cert s r ->
  mz_class_of (mz_rmethod r) = Some k -> mz_row_ok k r = true ->
  mz_authorise t c s m r = true -> mz_entitled t c s m k.
Proof.
  intros W PL Z NF CL OK A.
  unfold mz_authorise, mz_authorise_core in A. apply andb_prop in A as [A AF]. apply andb_prop in A as [AE AO].
  (* sender identity whenever there is an endpoint *)
  assert (HEP : forall x, mz_ep s = Some x ->
            exists ez, x = Some ez /\ mz_cauth s = true /\ mz_cident s = Some (Some ez)).
  { intros x E. destruct (mz_ep_zoned s x Z E) as [ez ->]. apply mz_ep_some in E as [? ?]. eauto. }
  assert (HREP : mz_rep r = true -> exists ez, mz_ep s = Some (Some ez) /\ mz_cauth s = true /\ mz_cident s = Some (Some ez)).
  { intros R. rewrite R in AE. destruct (mz_ep s) as [x|] eqn:E; [|discriminate].
    destruct (HEP x eq_refl) as (ez & -> & ? & ?). eauto. }
  destruct k; unfold mz_row_ok in OK; cbn [mz_entitled].
  - (* StateEvent *)
    mz_split OK. destruct (HREP OK) as (ez & E & Ha & Hi). exists ez; repeat split; auto.
    destruct (mz_fz_eff (mz_local c) s ez E) as [(F & EF & _)|(z & F & EF)].
    + exists (mz_local c); split; auto.
    + exists z; split; auto. unfold mz_origin_ok in AO. rewrite F in AO.
      destruct (mz_rpat r); try discriminate.
      * apply mz_can_access_obj_in; auto.
      * apply mz_is_child_of_spec in AO; auto. destruct PL as [G|G]; [left; auto|right; eapply mz_anc_trans; eauto].
      * right. apply mz_is_child_of_spec; auto.
  - (* StateEventCmdEp *)
    mz_split OK. destruct (HREP OK) as (ez & E & Ha & Hi). exists ez; repeat split; auto.
    destruct (mz_fz_eff (mz_local c) s ez E) as [(F & EF & _)|(z & F & EF)].
    + left. exists (mz_local c); split; auto.
    + unfold mz_origin_ok in AO. rewrite F in AO.
      destruct (mz_rpat r); try discriminate.
      * left. exists z; split; auto. apply mz_can_access_obj_in; auto.
      * apply orb_prop in AO as [AO|AO]; [left|right; auto].
        exists z; split; auto. apply mz_can_access_obj_in; auto.
  - (* Bookkeeping *)
    mz_split OK. destruct (HREP OK) as (ez & E & Ha & Hi). exists ez; repeat split; auto.
    destruct (mz_fz_eff (mz_local c) s ez E) as [(F & EF & _)|(z & F & EF)]; auto.
    unfold mz_origin_ok in AO. rewrite F in AO. destruct (mz_rpat r); try discriminate.
    apply Nat.eqb_eq in AO; subst; auto.
  - (* Config *)
    mz_split OK. destruct (HREP OK) as (ez & E & Ha & Hi). exists ez; repeat split; auto.
    + eapply mz_above; eauto. destruct (mz_rpat r); try discriminate; exact I.
    + destruct (mz_rflag r); try discriminate. exact AF.
  - (* Command *)
    mz_split OK. destruct (HREP OK) as (ez & E & Ha & Hi). exists ez; repeat split; auto.
    + eapply mz_above; eauto. destruct (mz_rpat r); try discriminate; exact I.
    + destruct (mz_rflag r); try discriminate. exact AF.
  - (* CertUpdate *)
    mz_split OK.
    assert (exists ez, mz_ep s = Some (Some ez) /\ mz_cauth s = true /\ mz_cident s = Some (Some ez)) as (ez & E & Ha & Hi).
    { destruct (mz_rep r) eqn:R; [auto|].
      destruct (mz_ep s) as [x|] eqn:E.
      - destruct (HEP x eq_refl) as (ez & -> & ? & ?). eauto.
      - exfalso; apply NF; repeat split; auto. }
    exists ez; repeat split; auto.
    eapply mz_above; eauto. destruct (mz_rpat r); try discriminate; exact I.
  - (* Session *)
    mz_split OK. destruct (HREP OK) as (ez & E & Ha & Hi). exists ez; repeat split; auto.
  - exact I.
  - exact I.
Qed.

(* ---------------------------------------------------------------- the generated table *)
(* This is the line that stops checking when a handler's origin check changes to something inadequate for
   its class, becomes unrecognisable, or a method is registered that the specification does not classify. *)
Lemma mz_table_ok_now : mz_table_ok mz_table = true.
Proof. vm_compute. reflexivity. Qed.

Lemma mz_all_registered_now : mz_all_registered = true.
Proof. vm_compute. reflexivity. Qed.

Lemma mz_table_row r : In r mz_table -> exists k, mz_class_of (mz_rmethod r) = Some k /\ mz_row_ok k r = true.
Proof.
  intros I. pose proof mz_table_ok_now as T. unfold mz_table_ok in T.
  rewrite forallb_forall in T. specialize (T r I).
  destruct (mz_class_of (mz_rmethod r)) as [k|]; [eauto|discriminate].
Qed.

Lemma mz_sound : forall r, In r mz_table -> forall t c s m,
  mz_wf t -> mz_placed t c m -> mz_zoned s -> ~ mz_finding_anon_cert s r ->
  mz_authorise t c s m r = true ->
  exists k, mz_class_of (mz_rmethod r) = Some k /\ mz_entitled t c s m k.
Proof.
  intros r I t c s m W PL Z NF A. destruct (mz_table_row r I) as (k & CL & OK).
  exists k; split; auto. eapply mz_row_sound; eauto.
Qed.

(* ---------------------------------------------------------------- anonymous senders *)
Local Open Scope string_scope.
Definition mz_anon_row_ok (r : mz_row) : bool :=
  match mz_class_of (mz_rmethod r) with
  | Some MzKCertRequest => String.eqb (mz_rmethod r) "pki::RequestCertificate"
  | Some _ => true
  | None => false
  end.
Lemma mz_anon_rows_now : forallb mz_anon_row_ok mz_table = true.
Proof. vm_compute. reflexivity. Qed.

(* a sender without Endpoint object (unauthenticated, or authenticated under an unconfigured name) *)
Lemma mz_anonymous : forall r, In r mz_table -> forall t c s m k,
  mz_ep s = None -> mz_class_of (mz_rmethod r) = Some k ->
  mz_rmethod r <> "pki::RequestCertificate" -> ~ mz_finding_anon_cert s r ->
  mz_authorise t c s m r = false \/ mz_effectful k = false.
Proof.
  intros r I t c s m k E CL NR NF.
  destruct (mz_table_row r I) as (k' & CL' & OK). rewrite CL in CL'. inversion CL'; subst k'. clear CL'.
  pose proof mz_anon_rows_now as AR. rewrite forallb_forall in AR. specialize (AR r I).
  unfold mz_anon_row_ok in AR. rewrite CL in AR.
  assert (R : mz_rep r = true -> mz_authorise t c s m r = false).
  { intros R. unfold mz_authorise, mz_authorise_core. rewrite R, E. reflexivity. }
  destruct k; unfold mz_row_ok in OK; try (left; apply R; mz_split OK; exact OK).
  - (* CertUpdate *) left. destruct (mz_rep r) eqn:RR; [apply R; reflexivity|].
    exfalso; apply NF; repeat split; auto.
  - right; reflexivity.
  - exfalso. apply NR. apply String.eqb_eq. exact AR.
Qed.

(* the recorded finding on the model: the faithful row of pki::UpdateCertificate lets a sender without endpoint through *)
Definition mz_cert_row_as_found : mz_row :=
  {| mz_rmethod := "pki::UpdateCertificate"; mz_rep := false; mz_rpat := MzPLocalChildOfOrigin; mz_rflag := MzFNone |}.

Lemma mz_anon_update_certificate_refuted :
  exists t c s m,
    mz_wf t /\ mz_placed t c m /\ mz_zoned s /\ mz_cauth s = false /\
    mz_authorise t c s m mz_cert_row_as_found = true /\ mz_effectful MzKCertUpdate = true /\
    ~ mz_entitled t c s m MzKCertUpdate.
Proof.
  exists [ {| mz_zparent := None; mz_zglobal := false |} ],
         {| mz_local := 0; mz_accept_config := false; mz_accept_commands := false |},
         {| mz_cauth := false; mz_cident := None; mz_cclaim := None |},
         {| mz_objzone := None; mz_is_cmdep := false |}.
  repeat split.
  - intros z p H. unfold mz_par in H. destruct z as [|z]; cbn in H; [discriminate|]. destruct z; discriminate.
  - right. constructor.
  - discriminate.
  - intros (ez & H & _). discriminate.
Qed.

(* the table now: either exactly the row recorded as the finding, or the endpoint test has been added *)
Lemma mz_cert_row_now :
  mz_lookup "pki::UpdateCertificate" = Some mz_cert_row_as_found \/
  (exists r, mz_lookup "pki::UpdateCertificate" = Some r /\ mz_rep r = true).
Proof. left. vm_compute. reflexivity. Qed.

(* why the "endpoint has a zone" hypothesis is needed: every FromZone-guarded check passes for a zone-less endpoint *)
Lemma mz_zoneless_passes t c m claim p :
  match p with MzPCanAccess | MzPCanAccessOrCmdEp | MzPEqLocal | MzPLocalChildOfOrigin | MzPExecZoneChildOfOrigin => True | _ => False end ->
  mz_origin_ok t c {| mz_cauth := true; mz_cident := Some None; mz_cclaim := claim |} m p = true.
Proof. intros P; destruct p; try contradiction; reflexivity. Qed.

(* ---------------------------------------------------------------- accept flags *)
Lemma mz_flags : forall r, In r mz_table -> forall t c s m,
  mz_wf t -> mz_zoned s -> mz_authorise t c s m r = true ->
  (mz_class_of (mz_rmethod r) = Some MzKConfig ->
     mz_accept_config c = true /\ exists ez, mz_cauth s = true /\ mz_cident s = Some (Some ez) /\ mz_anc t (mz_local c) ez) /\
  (mz_class_of (mz_rmethod r) = Some MzKCommand ->
     mz_accept_commands c = true /\ exists ez, mz_cauth s = true /\ mz_cident s = Some (Some ez) /\ mz_anc t (mz_local c) ez).
Proof.
  intros r I t c s m W Z A.
  destruct (mz_table_row r I) as (k & CL & OK).
  assert (NF : k = MzKConfig \/ k = MzKCommand -> ~ mz_finding_anon_cert s r).
  { intros [->| ->] (_ & _ & F); rewrite CL in F; discriminate. }
  assert (PLx : forall m', mz_objzone m' = None -> mz_placed t c m').
  { intros m' Hm. unfold mz_placed, mz_obj_in. rewrite Hm. right; constructor. }
  set (m0 := {| mz_objzone := None; mz_is_cmdep := mz_is_cmdep m |}).
  assert (PL0 : mz_placed t c m0) by (apply PLx; reflexivity).
  split; intros CK; rewrite CK in CL; inversion CL; subst k.
  - assert (A' : mz_authorise t c s m0 r = true).
    { unfold mz_row_ok in OK. mz_split OK. unfold mz_authorise, mz_authorise_core in *. destruct (mz_rpat r); try discriminate; exact A. }
    destruct (mz_row_sound t c s m0 r MzKConfig W PL0 Z (NF (or_introl eq_refl)) CK OK A') as (ez & Ha & Hi & An & Fl).
    split; eauto.
  - assert (A' : mz_authorise t c s m0 r = true).
    { unfold mz_row_ok in OK. mz_split OK. unfold mz_authorise, mz_authorise_core in *. destruct (mz_rpat r); try discriminate; exact A. }
    destruct (mz_row_sound t c s m0 r MzKCommand W PL0 Z (NF (or_intror eq_refl)) CK OK A') as (ez & Ha & Hi & An & Fl).
    split; eauto.
Qed.

(* refusal is final: MessageHandler applies nothing when the handler's checks fail or the message is dropped as old *)
Lemma mz_handle_refused t c s m ts r eff :
  mz_authorise t c s m r = false -> mz_applied (mz_handle t c s m ts (Some r) eff) = false.
Proof.
  intros H. unfold mz_handle, mz_handle_core. cbn [option_map mz_row_core]. destruct (_ && _); cbn; [reflexivity|].
  unfold mz_authorise in H. rewrite H. reflexivity.
Qed.
