(* C13 - proofs about the ExecuteCommand forwarding branch and the zones the relayed copies go to. *)
From Icv Require Import Base.Tac Msg.MzModel Msg.MzFacts Msg.MzProofs Msg.MzFwd.
Local Open Scope nat_scope.

Lemma mz_onat_eqb_some_l a b : mz_onat_eqb a (Some b) = true -> a = Some b.
Proof. destruct a as [x|]; cbn; [|discriminate]. intros H; apply Nat.eqb_eq in H; subst; reflexivity. Qed.

(* ---------------------------------------------------------------- stage 1 *)
Lemma mz_exec_stage1_entitled t l s : mz_exec_stage1 t l s = true -> mz_fwd_entitled t l s.
Proof.
  unfold mz_exec_stage1, mz_fwd_entitled. destruct (mz_ep s) as [ez|] eqn:E; [|discriminate].
  apply mz_ep_some in E as [Ha Hi]. intros H. apply orb_prop in H as [H|H].
  - apply mz_onat_eqb_some_l in H; subst. exists l; auto.
  - destruct (mz_par t l) as [p|] eqn:P; [|discriminate].
    apply mz_onat_eqb_some_l in H; subst. exists p; auto.
Qed.

Lemma mz_fwd_entitled_stage1 t l s : mz_fwd_entitled t l s -> mz_exec_stage1 t l s = true.
Proof.
  intros (ez & Ha & Hi & H). unfold mz_exec_stage1, mz_ep. rewrite Ha, Hi. cbn.
  destruct H as [->|P].
  - rewrite Nat.eqb_refl. reflexivity.
  - rewrite P. cbn. rewrite Nat.eqb_refl. apply orb_true_r.
Qed.

(* the sender of an accepted stage 1 sits in the receiver's zone or above it *)
Lemma mz_fwd_entitled_above t l s : mz_fwd_entitled t l s ->
  exists ez, mz_cauth s = true /\ mz_cident s = Some (Some ez) /\ mz_anc t l ez.
Proof.
  intros (ez & Ha & Hi & H). exists ez; repeat split; auto.
  destruct H as [->|P]; [constructor|]. eapply mz_anc_step; eauto. constructor.
Qed.

(* ---------------------------------------------------------------- the route *)
Lemma mz_child_loop_cases t l x tz zs r :
  mz_child_loop t l x tz zs = Some r -> r = MzXReply \/ r = MzXDiscard.
Proof.
  induction zs as [|z zs IH]; cbn; [discriminate|].
  destruct (mz_child_step t l x tz z) as [a|] eqn:S; [|exact IH].
  intros H; inversion H; subst. unfold mz_child_step in S.
  destruct (_ && _); [|discriminate]. destruct (negb (mz_xcap x)); [inversion S; auto|].
  destruct (mz_xhost x); [|inversion S; auto]. destruct (_ && _); inversion S; auto.
Qed.

Lemma mz_exec_route_stage1 t c s x : mz_exec_route t c s x <> MzXDiscard -> mz_exec_stage1 t (mz_local c) s = true.
Proof.
  unfold mz_exec_route. destruct (mz_exec_stage1 t (mz_local c) s); [reflexivity|]. cbn. intros H; contradiction H; reflexivity.
Qed.

Lemma mz_exec_route_forward t c s x tz : mz_exec_route t c s x = MzXForward tz ->
  mz_xtgt x = MzXZone tz /\ mz_is_child_of t tz (mz_local c) = true.
Proof.
  unfold mz_exec_route. destruct (negb _); [discriminate|].
  destruct (mz_xtgt x) as [| | |tz']; try discriminate.
  destruct (mz_is_child_of t tz' (mz_local c)) eqn:I; cbn; [|discriminate].
  destruct (mz_child_loop _ _ _ _ _) as [a|] eqn:L.
  - apply mz_child_loop_cases in L as [->| ->]; discriminate.
  - intros H; inversion H; subst; auto.
Qed.

Lemma mz_exec_route_reply t c s x : mz_exec_route t c s x = MzXReply ->
  exists tz, mz_xtgt x = MzXZone tz /\ mz_is_child_of t tz (mz_local c) = true.
Proof.
  unfold mz_exec_route. destruct (negb _); [discriminate|].
  destruct (mz_xtgt x) as [| | |tz']; try discriminate.
  destruct (mz_is_child_of t tz' (mz_local c)) eqn:I; cbn; [|discriminate].
  intros _. eauto.
Qed.

Lemma mz_exec_route_enqueue t c s x : mz_exec_route t c s x = MzXEnqueue ->
  mz_xtgt x = MzXNone \/ mz_xtgt x = MzXLocalEp.
Proof.
  unfold mz_exec_route. destruct (negb _); [discriminate|].
  destruct (mz_xtgt x) as [| | |tz']; auto; try discriminate.
  destruct (negb _); [discriminate|].
  destruct (mz_child_loop _ _ _ _ _) as [a|] eqn:L; [|discriminate].
  apply mz_child_loop_cases in L as [->| ->]; discriminate.
Qed.

(* who may make the receiver pass a command on / answer on its behalf / execute locally: stage 1, always *)
Lemma mz_exec_route_entitled t c s x :
  mz_exec_route t c s x <> MzXDiscard -> mz_fwd_entitled t (mz_local c) s.
Proof. intros H. apply mz_exec_stage1_entitled. eapply mz_exec_route_stage1; eauto. Qed.

(* ... and where to: only to an endpoint of the receiver's own zone or of a zone below it *)
Lemma mz_exec_forward_target t c s x tz : mz_wf t ->
  mz_exec_route t c s x = MzXForward tz -> mz_xtgt x = MzXZone tz /\ mz_anc t tz (mz_local c).
Proof.
  intros W H. apply mz_exec_route_forward in H as [T I]. split; auto. apply mz_is_child_of_spec; auto.
Qed.

(* the accept flags play no role in routing: a node with accept_commands = false still passes commands down *)
Lemma mz_exec_route_flags t l ac ak ac' ak' s x :
  mz_exec_route t {| mz_local := l; mz_accept_config := ac; mz_accept_commands := ak |} s x =
  mz_exec_route t {| mz_local := l; mz_accept_config := ac'; mz_accept_commands := ak' |} s x.
Proof. reflexivity. Qed.

(* a command arriving from a zone strictly below the receiver is discarded - in particular the copy that
   SyncRelayMessage also hands to the receiver's parent zone dies there *)
Lemma mz_exec_from_below_discarded t c s x ez : mz_wf t ->
  mz_ep s = Some (Some ez) -> mz_anc t ez (mz_local c) -> ez <> mz_local c ->
  mz_exec_route t c s x = MzXDiscard.
Proof.
  intros W E A N. unfold mz_exec_route.
  destruct (mz_exec_stage1 t (mz_local c) s) eqn:S1; [|reflexivity]. exfalso.
  apply mz_exec_stage1_entitled in S1 as (ez' & Ha & Hi & H).
  apply mz_ep_some in E as [_ E]. rewrite E in Hi. inversion Hi; subst ez'.
  destruct H as [->|P]; [contradiction|].
  apply mz_anc_le in A; auto. specialize (W _ _ P). lia.
Qed.

(* also for siblings, unrelated zones, grandparents: anything but own zone / immediate parent *)
Lemma mz_exec_not_adjacent_discarded t c s x ez :
  mz_ep s = Some (Some ez) -> ez <> mz_local c -> mz_par t (mz_local c) <> Some ez ->
  mz_exec_route t c s x = MzXDiscard.
Proof.
  intros E N P. unfold mz_exec_route.
  destruct (mz_exec_stage1 t (mz_local c) s) eqn:S1; [|reflexivity]. exfalso.
  apply mz_exec_stage1_entitled in S1 as (ez' & Ha & Hi & H).
  apply mz_ep_some in E as [_ E]. rewrite E in Hi. inversion Hi; subst ez'. destruct H; contradiction.
Qed.

(* senders without Endpoint object: nothing is forwarded, answered or executed *)
Lemma mz_exec_anonymous t c s x : mz_ep s = None -> mz_exec_route t c s x = MzXDiscard.
Proof. intros E. unfold mz_exec_route, mz_exec_stage1. rewrite E. reflexivity. Qed.

(* the next hop: the copy handed to a direct child zone z comes from an endpoint of z's immediate parent, so it passes
   stage 1 there; if the command is for that node itself, what remains is the node's own accept_commands *)
Lemma mz_exec_next_hop t l z ac ak claim x : mz_wf t ->
  mz_par t z = Some l ->
  let c' := {| mz_local := z; mz_accept_config := ac; mz_accept_commands := ak |} in
  let s' := {| mz_cauth := true; mz_cident := Some (Some l); mz_cclaim := claim |} in
  mz_exec_stage1 t z s' = true /\
  mz_from_zone z s' = Some l /\
  (mz_xtgt x = MzXNone \/ mz_xtgt x = MzXLocalEp -> mz_exec_route t c' s' x = MzXEnqueue) /\
  forall m, mz_authorise_core t c' s' m true MzPLocalOrParentThenOrigin MzFCommands = ak.
Proof.
  intros W P c' s'. pose proof (W _ _ P) as LT.
  assert (Q : Nat.eqb l z = false) by (apply Nat.eqb_neq; lia).
  assert (S1 : mz_exec_stage1 t z s' = true).
  { unfold mz_exec_stage1, s', mz_ep. cbn. rewrite Q, P. cbn. rewrite Nat.eqb_refl. reflexivity. }
  assert (F : mz_from_zone z s' = Some l).
  { unfold mz_from_zone, s', mz_ep. cbn. rewrite Q. reflexivity. }
  repeat split; auto.
  - intros T. unfold mz_exec_route. cbn [mz_local c']. rewrite S1. cbn. destruct T as [-> | ->]; reflexivity.
  - intros m. unfold mz_authorise_core, mz_origin_ok, mz_flag_ok. cbn [mz_local c' mz_accept_commands]. rewrite F.
    assert (I : mz_is_child_of t z l = true).
    { apply mz_is_child_of_spec; auto. eapply mz_anc_step; eauto. constructor. }
    rewrite I. unfold s', mz_ep. cbn. rewrite Q, P. cbn. rewrite Nat.eqb_refl. cbn. reflexivity.
Qed.

(* ---------------------------------------------------------------- where relayed copies go *)
Lemma mz_chain_anc t f : forall z a, In a (mz_chain t f z) -> mz_anc t z a.
Proof.
  induction f as [|f IH]; cbn; intros z a H; [contradiction|].
  destruct H as [->|H]; [constructor|].
  destruct (mz_par t z) as [p|] eqn:P; [|contradiction]. eapply mz_anc_step; eauto.
Qed.

Lemma mz_anc_chain t : mz_wf t -> forall z a, mz_anc t z a -> forall f, z < f -> In a (mz_chain t f z).
Proof.
  intros W z a H; induction H as [z|z p a P _ IH]; intros f L; (destruct f; [lia|]); cbn.
  - left; reflexivity.
  - right. rewrite P. apply IH. specialize (W _ _ P). lia.
Qed.

Lemma mz_up_spec t z a : mz_wf t -> (In a (mz_up t z) <-> mz_anc t z a).
Proof. intros W; split; [apply mz_chain_anc|]. intros H. apply mz_anc_chain; auto. Qed.

Lemma mz_relay_one_plain t l a z : mz_glob t a = false -> In z (mz_relay_one t l a) ->
  z = a /\ (a = l \/ mz_par t l = Some a \/ mz_par t a = Some l).
Proof.
  intros G. unfold mz_relay_one. rewrite G.
  destruct (Nat.eqb a l) eqn:E1; cbn [orb].
  - intros [<-|[]]. apply Nat.eqb_eq in E1. auto.
  - destruct (mz_onat_eqb (mz_par t l) (Some a)) eqn:E2; cbn [orb].
    + intros [<-|[]]. apply mz_onat_eqb_some_l in E2. auto.
    + destruct (mz_onat_eqb (mz_par t a) (Some l)) eqn:E3; [|intros []].
      intros [<-|[]]. apply mz_onat_eqb_some_l in E3. auto.
Qed.

Lemma mz_relay_cands_ok t l tz z : mz_path_plain t tz -> In z (mz_relay_cands t l tz) -> mz_fwd_zone_ok t l tz z.
Proof.
  intros PP H. unfold mz_relay_cands in H. apply in_flat_map in H as (a & Ha & Hz).
  apply mz_chain_anc in Ha. destruct (mz_relay_one_plain t l a z (PP a Ha) Hz) as [-> Adj].
  split; auto.
Qed.

Lemma mz_relay_sends_not_back l e sez fz cz : mz_relay_sends l e (Some (sez, Some fz)) cz = true -> cz <> fz.
Proof.
  unfold mz_relay_sends. intros H. apply andb_prop in H as [H _]. intros ->.
  rewrite Nat.eqb_refl in H. discriminate.
Qed.

Lemma mz_relay_zones_ok t l e org tz z : mz_path_plain t tz -> In z (mz_relay_zones t l e org tz) ->
  mz_fwd_zone_ok t l tz z /\ (forall sez fz, org = Some (sez, Some fz) -> z <> fz).
Proof.
  intros PP H. unfold mz_relay_zones in H. apply filter_In in H as [H S]. split.
  - eapply mz_relay_cands_ok; eauto.
  - intros sez fz ->. eapply mz_relay_sends_not_back; eauto.
Qed.

(* the local zone's chain, seen from a zone at or below it, continues the target's chain *)
Lemma mz_anc_path_plain t tz l : mz_path_plain t tz -> mz_anc t tz l -> mz_path_plain t l.
Proof. intros PP A a H. apply PP. eapply mz_anc_trans; eauto. Qed.

(* ---------------------------------------------------------------- one message, end to end *)
Lemma mz_exec_handle_route t c s m x e ts row :
  let o := mz_exec_handle t c s m x e ts row in
  (mz_xapp o = true \/ mz_xc o <> [] \/ mz_xd o <> []) -> mz_exec_route t c s x <> MzXDiscard.
Proof.
  cbn zeta. unfold mz_exec_handle. destruct (_ && mz_ts_is ts MzTsOld).
  - cbn. intros [H|[H|H]]; [discriminate|contradiction H; reflexivity|contradiction H; reflexivity].
  - destruct (mz_exec_route t c s x); cbn; try discriminate.
    intros [H|[H|H]]; [discriminate|contradiction H; reflexivity|contradiction H; reflexivity].
Qed.

(* whatever an ExecuteCommand message causes, its sender is an authenticated, configured endpoint of the receiver's
   zone or of its immediate parent *)
Lemma mz_exec_handle_entitled t c s m x e ts row :
  let o := mz_exec_handle t c s m x e ts row in
  (mz_xapp o = true \/ mz_xc o <> [] \/ mz_xd o <> []) -> mz_fwd_entitled t (mz_local c) s.
Proof. cbn zeta. intros H. eapply mz_exec_route_entitled. eapply mz_exec_handle_route; eauto. Qed.

(* the zones a forwarded command is handed to *)
Lemma mz_exec_handle_xc t c s m x e ts row z : mz_wf t ->
  In z (mz_xc (mz_exec_handle t c s m x e ts row)) ->
  exists tz, mz_xtgt x = MzXZone tz /\ mz_anc t tz (mz_local c) /\
    (mz_path_plain t tz -> mz_fwd_zone_ok t (mz_local c) tz z /\ mz_from_zone (mz_local c) s <> Some z).
Proof.
  intros W. unfold mz_exec_handle. destruct (_ && mz_ts_is ts MzTsOld); [intros []|].
  destruct (mz_exec_route t c s x) as [| | |tz] eqn:R; cbn; try (intros []).
  intros H. destruct (mz_exec_forward_target t c s x tz W R) as [T A].
  exists tz. split; [exact T|]. split; [exact A|]. intros PP.
  destruct (mz_relay_zones_ok _ _ _ _ _ _ PP H) as [OK NB]. split; [exact OK|].
  destruct (mz_from_zone (mz_local c) s) as [fz|] eqn:F; [|discriminate].
  intros Q; inversion Q; subst fz. eapply NB; eauto.
Qed.

(* the zones an error reply (the receiver answering in place of a child that cannot run the command) is handed to:
   the receiver's own zone and its parent *)
Lemma mz_exec_handle_xd t c s m x e ts row z : mz_wf t ->
  In z (mz_xd (mz_exec_handle t c s m x e ts row)) ->
  (exists tz, mz_xtgt x = MzXZone tz /\ mz_is_child_of t tz (mz_local c) = true) /\
  (mz_path_plain t (mz_local c) -> z = mz_local c \/ mz_par t (mz_local c) = Some z).
Proof.
  intros W. unfold mz_exec_handle. destruct (_ && mz_ts_is ts MzTsOld); [intros []|].
  destruct (mz_exec_route t c s x) as [| | |tz] eqn:R; cbn; try (intros []).
  intros H. split; [apply mz_exec_route_reply in R; exact R|].
  intros PP. destruct (mz_relay_zones_ok _ _ _ _ _ _ PP H) as [[A Adj] _].
  destruct Adj as [?|[?|P]]; auto.
  exfalso. apply mz_anc_le in A; auto. specialize (W _ _ P). lia.
Qed.

(* Zone::OnAllConfigLoaded refuses a zone whose parent is global: then "no global zone on the way up" only concerns the
   target endpoint's own zone *)
Definition mz_parents_plain (t : mz_tree) : Prop := forall z p, mz_par t z = Some p -> mz_glob t p = false.

Lemma mz_path_plain_of_parents t tz : mz_parents_plain t -> mz_glob t tz = false -> mz_path_plain t tz.
Proof.
  intros PP G a H. induction H as [z|z p a P _ IH]; [exact G|].
  apply IH. eapply PP; eauto.
Qed.

(* a discarded ExecuteCommand leaves nothing behind: nothing applied, nothing handed to any zone *)
Lemma mz_exec_discard_nothing t c s m x e ts row :
  mz_exec_route t c s x = MzXDiscard ->
  let o := mz_exec_handle t c s m x e ts row in
  mz_xapp o = false /\ mz_xc o = [] /\ mz_xd o = [].
Proof.
  intros R. cbn zeta. unfold mz_exec_handle. rewrite R. destruct (_ && mz_ts_is ts MzTsOld); cbn; auto.
Qed.
