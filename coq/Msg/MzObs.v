(* C13 - what the correspondence run observes per message and the executable property oracle that is run over the
   IMPLEMENTATION's traces: "whatever was applied, the sender was entitled to". *)
From Icv Require Import Base.Tac Msg.MzModel Msg.MzFacts.
From Coq Require Import String.
Local Open Scope nat_scope.

(* the model's answer for one script line: method looked up in the generated table *)
Definition mz_run (t : mz_tree) (c : mz_cfg) (s : mz_conn) (m : mz_msg) (ts : mz_ts) (method : string) : mz_out :=
  mz_handle t c s m ts (mz_lookup method)
            (match mz_class_of method with Some k => mz_effectful k | None => true end).

(* boolean version of the entitlement relation *)
Definition mz_obj_in_b (t : mz_tree) (l : nat) (oz : option nat) (z : nat) : bool :=
  mz_glob t (mz_objz l oz) || mz_is_child_of t (mz_objz l oz) z.

Definition mz_entitled_b (t : mz_tree) (c : mz_cfg) (s : mz_conn) (m : mz_msg) (k : mz_class) : bool :=
  let l := mz_local c in
  match k with
  | MzKCertRequest | MzKInert => true
  | _ =>
    match mz_cauth s, mz_cident s with
    | true, Some (Some ez) =>
      match k with
      | MzKStateEvent => match mz_eff_zone l s with Some z => mz_obj_in_b t l (mz_objzone m) z | None => false end
      | MzKStateEventCmdEp =>
          (match mz_eff_zone l s with Some z => mz_obj_in_b t l (mz_objzone m) z | None => false end) || mz_is_cmdep m
      | MzKBookkeeping => mz_onat_eqb (mz_eff_zone l s) (Some l)
      | MzKConfig => mz_is_child_of t l ez && mz_accept_config c
      | MzKCommand => mz_is_child_of t l ez && mz_accept_commands c
      | MzKCertUpdate => mz_is_child_of t l ez
      | _ => true
      end
    | _, _ => false
    end
  end.

Definition mz_placed_b (t : mz_tree) (c : mz_cfg) (m : mz_msg) : bool :=
  mz_obj_in_b t (mz_local c) (mz_objzone m) (mz_local c).
Definition mz_zoned_b (s : mz_conn) : bool :=
  match mz_cident s with Some None => false | _ => true end.

(* verdict for one observed message: 0 = fine *)
Definition mz_oracle_core (t : mz_tree) (c : mz_cfg) (s : mz_conn) (m : mz_msg) (cls : option mz_class) (o : mz_out) : nat :=
  if mz_dropped o && (mz_applied o || mz_rlp o) then 4                    (* dropped as old, yet something happened *)
  else if mz_rlp o && negb (mz_is_some (mz_ep s)) then 5                  (* log position moved without endpoint *)
  else if negb (mz_applied o) then 0
  else match cls with
       | None => 1                                                        (* unclassified method had an effect *)
       | Some k =>
           if negb (mz_effectful k) then 3                                (* a handler specified as inert had an effect *)
           else if mz_placed_b t c m && mz_zoned_b s && negb (mz_entitled_b t c s m k) then 2   (* applied, not entitled *)
           else 0
       end.
Definition mz_oracle_msg (t : mz_tree) (c : mz_cfg) (s : mz_conn) (m : mz_msg) (method : string) (o : mz_out) : nat :=
  mz_oracle_core t c s m (mz_class_of method) o.
