(* C13 - local execution of event::ExecuteCommand for EVERY kind of command.

   Transcribed from lib/icinga/clusterevents-check.cpp ClusterEvents::ExecuteCheckFromQueue (reached through
   ExecuteCommandAPIHandler's stage 1 -> EnqueueCheck -> the "Remote Check Scheduler" thread):

     if (!sourceEndpoint || (origin->FromZone && !Zone::GetLocalZone()->IsChildOf(origin->FromZone))) return;      (stage 2)
     if (params->Contains("source")) { ... if (Utility::GetTime() > deadline) return; ... }
     if (!listener->GetAcceptCommands() && !origin->IsLocal()) {
         if (params->Contains("source")) SendEventExecutedCommand(params, 126, ...);    -- event::ExecutedCommand to the sender
         else                            SyncSendMessage(sourceEndpoint, <UNKNOWN check result>);
         return;                                                                         -- for EVERY command_type
     }
     command_type == "check_command":        no such CheckCommand        -> reply (ExecutedCommand 3 / UNKNOWN check result), return
     command_type == "event_command":        no such EventCommand        -> reply only with "source", return
     command_type == "notification_command": no such NotificationCommand -> reply only with "source", return
     check_command:                         host->ExecuteRemoteCheck(macros)
     event_command:                         host->ExecuteEventHandler(macros, true)
     notification_command && "source":      notificationCommand->Execute(...)
     anything else (notification_command without "source", an unknown command_type): nothing

   The command runs on a VIRTUAL Host object built from the message: whether a checkable of that name exists on the
   receiver plays no role.  What the command itself reports after it ran (check result / ExecutedCommand sent by the
   command's implementation) is not modelled: the harness's native commands only count their executions.
   Model only (no proofs). *)
From Icv Require Import Base.Tac Msg.MzModel Msg.MzFacts Msg.MzObs Msg.MzFwd Msg.MzFwdObs.
From Coq Require Import String.
Local Open Scope nat_scope.

Inductive mz_ctype := MzCCheck | MzCEvent | MzCNotification | MzCOther.

Record mz_qmsg := {
  mz_qtype : mz_ctype;      (* params.command_type *)
  mz_qsource : bool;        (* params.source present: the execute-command API action (an execution record waits for the result) *)
  mz_qexpired : bool;       (* params.deadline lies in the past (only read when "source" is present) *)
  mz_qexists : bool         (* a command object of that type and name exists on the receiver *)
}.

Inductive mz_qreply :=
| MzQNoReply
| MzQExecuted (exit : nat)      (* event::ExecutedCommand with that exit code, to the sending endpoint *)
| MzQCheckUnknown.              (* event::CheckResult with state UNKNOWN for the virtual host, to the sending endpoint *)

(* [origin_ok]: stage 1 and stage 2 passed; [accept]: the accept_commands test lets the command through *)
Definition mz_exq (origin_ok accept : bool) (q : mz_qmsg) : bool * mz_qreply :=
  if negb origin_ok then (false, MzQNoReply)
  else if mz_qsource q && mz_qexpired q then (false, MzQNoReply)
  else if negb accept then (false, if mz_qsource q then MzQExecuted 126 else MzQCheckUnknown)
  else match mz_qtype q with
       | MzCCheck => if mz_qexists q then (true, MzQNoReply)
                     else (false, if mz_qsource q then MzQExecuted 3 else MzQCheckUnknown)
       | MzCEvent => if mz_qexists q then (true, MzQNoReply)
                     else (false, if mz_qsource q then MzQExecuted 3 else MzQNoReply)
       | MzCNotification => if mz_qexists q then (mz_qsource q, MzQNoReply)
                            else (false, if mz_qsource q then MzQExecuted 3 else MzQNoReply)
       | MzCOther => (false, MzQNoReply)
       end.

Record mz_qout := {
  mz_qrlp : bool;            (* the sender's remote log position moved *)
  mz_qexec : bool;           (* the command was executed *)
  mz_qrep : mz_qreply        (* what was queued for the sending endpoint *)
}.

(* one event::ExecuteCommand message without "endpoint" through MessageHandler; [row] = the generated row of the method:
   endpoint test + two-stage origin check, and the accept flag ExecuteCheckFromQueue consults *)
Definition mz_exq_handle (t : mz_tree) (c : mz_cfg) (s : mz_conn) (m : mz_msg) (ts : mz_ts)
                         (row : option (bool * mz_pattern * mz_flag)) (q : mz_qmsg) : mz_qout :=
  let ep := mz_is_some (mz_ep s) in
  if ep && mz_ts_is ts MzTsOld then {| mz_qrlp := false; mz_qexec := false; mz_qrep := MzQNoReply |}
  else
    let r := match row with
             | Some (e, p, f) => mz_exq (mz_authorise_core t c s m e p MzFNone) (mz_flag_ok c f) q
             | None => (false, MzQNoReply)
             end in
    {| mz_qrlp := ep && mz_ts_is ts MzTsNew; mz_qexec := fst r; mz_qrep := snd r |}.

(* extraction entry point: the row is the kernel-computed normal form of the generated one (cf. MzFwdObs.mz_exec_row) *)
Definition mz_exq_run (t : mz_tree) (c : mz_cfg) (s : mz_conn) (m : mz_msg) (ts : mz_ts) (q : mz_qmsg) : mz_qout :=
  mz_exq_handle t c s m ts mz_exec_row q.

(* verdict for one observed message of this family: 0 = fine *)
Definition mz_qoracle (t : mz_tree) (c : mz_cfg) (s : mz_conn) (m : mz_msg) (o : mz_qout) : nat :=
  if mz_qrlp o && negb (mz_is_some (mz_ep s)) then 5                      (* log position moved without endpoint *)
  else if negb (mz_qexec o) then 0
  else if negb (mz_accept_commands c) then 11                             (* executed although accept_commands is off *)
  else if mz_zoned_b s && negb (mz_entitled_b t c s m MzKCommand) then 2  (* executed for a sender that is not entitled *)
  else 0.

(* numeric code of a reply, for the driver's output line: 0 none, 1 UNKNOWN check result, 1000+exit ExecutedCommand *)
Definition mz_qreply_code (r : mz_qreply) : nat :=
  match r with MzQNoReply => 0 | MzQCheckUnknown => 1 | MzQExecuted e => 1000 + e end.
