(* Decoding of the handler table that tools/facts_c13.py regenerates from the source on every run
   (coq/Facts/Facts_c13.v) into the model's row type.  Unknown names decode to the Unrecognised constructors. *)
From Icv Require Import Base.Tac Msg.MzModel Facts.Facts_c13.
From Coq Require Import String.
Local Open Scope string_scope.

Definition mz_pattern_of (s : string) : mz_pattern :=
  if String.eqb s "canaccess" then MzPCanAccess
  else if String.eqb s "canaccess_or_cmdep" then MzPCanAccessOrCmdEp
  else if String.eqb s "eq_local" then MzPEqLocal
  else if String.eqb s "local_childof_origin" then MzPLocalChildOfOrigin
  else if String.eqb s "local_childof_epzone" then MzPLocalChildOfEpZone
  else if String.eqb s "execzone_childof_origin" then MzPExecZoneChildOfOrigin
  else if String.eqb s "local_or_parent_then_origin" then MzPLocalOrParentThenOrigin
  else if String.eqb s "none" then MzPNone
  else MzPUnrecognised.

Definition mz_flag_of (s : string) : mz_flag :=
  if String.eqb s "none" then MzFNone
  else if String.eqb s "accept_config" then MzFConfig
  else if String.eqb s "accept_commands" then MzFCommands
  else MzFUnrecognised.

Definition mz_row_of (e : string * (bool * string * string)) : mz_row :=
  let '(m, (ep, p, f)) := e in
  {| mz_rmethod := m; mz_rep := ep; mz_rpat := mz_pattern_of p; mz_rflag := mz_flag_of f |}.

(* the table the theorems quantify over: what the source says NOW *)
Definition mz_table : list mz_row := map mz_row_of f_mz_handlers.

Fixpoint mz_find_row (method : string) (l : list mz_row) : option mz_row :=
  match l with
  | [] => None
  | r :: rest => if String.eqb method (mz_rmethod r) then Some r else mz_find_row method rest
  end.
Definition mz_lookup (method : string) : option mz_row := mz_find_row method mz_table.

(* every method of the specification's class table is registered in the source *)
Definition mz_all_registered : bool :=
  forallb (fun kc => mz_is_some (mz_lookup (fst kc))) mz_class_table.

(* the origin construction the model transcribes (mz_from_zone) is the one the translator recognises in
   JsonRpcConnection::MessageHandler now; an unrecognised shape (None) is covered by the correspondence run only *)
Definition mz_origin_rule_ok : Prop :=
  match f_mz_origin_rule with Some r => r = "claim_iff_sender_in_local_zone" | None => True end.

(* ---------------------------------------------------------------- registrations, dominance, single-spot rules *)
Fixpoint mz_strs_eqb (a b : list string) : bool :=
  match a, b with
  | [], [] => true
  | x :: a', y :: b' => String.eqb x y && mz_strs_eqb a' b'
  | _, _ => false
  end.

Fixpoint mz_str_nodup_b (l : list string) : bool :=
  match l with
  | [] => true
  | x :: r => negb (existsb (String.eqb x) r) && mz_str_nodup_b r
  end.

(* one row of the handler table per use of the registration macro, no registration that bypasses the macro *)
Definition mz_registrations_ok : bool :=
  mz_strs_eqb (map fst f_mz_registrations) (map mz_rmethod mz_table)
  && mz_str_nodup_b (map mz_rmethod mz_table)
  && Nat.eqb (List.length f_mz_registrations) f_mz_macro_uses
  && Nat.eqb f_mz_other_registrations 0.

(* handlers for which the translator cannot show that every refusal check precedes every effect: listed, with the verdict.
   event::ExecuteCommand: ExecuteCheckFromQueue installs Checkable::ExecuteCommandProcessFinishedHandler (reset on return)
   before it looks at accept_commands; its origin checks do precede everything. *)
Definition mz_dom_exceptions : list (string * string) := [("event::ExecuteCommand", "origin_only")].

Definition mz_row_has_no_check (r : mz_row) : bool :=
  negb (mz_rep r) && match mz_rpat r with MzPNone => true | _ => false end
  && match mz_rflag r with MzFNone => true | _ => false end.

Definition mz_dom_row_ok (r : mz_row) : bool :=
  match mz_assoc (mz_rmethod r) f_mz_dominance with
  | Some d => String.eqb d "all"
              || (String.eqb d "no_check" && mz_row_has_no_check r)
              || existsb (fun e => String.eqb (fst e) (mz_rmethod r) && String.eqb (snd e) d) mz_dom_exceptions
  | None => false
  end.
Definition mz_dom_ok : bool := forallb mz_dom_row_ok mz_table.

Definition mz_rule_is (f : option string) (name : string) : Prop :=
  match f with Some r => r = name | None => True end.
Definition mz_forward_rule_ok : Prop := mz_rule_is f_mz_exec_forward_rule "target_in_subtree_then_relay_to_target_zone".
Definition mz_relay_rule_ok : Prop := mz_rule_is f_mz_relay_rule "adjacent_zones_not_back_master_only".
Definition mz_update_object_zone_rule_ok : Prop :=
  mz_rule_is f_mz_update_object_zone_rule "refuse_unknown_nonempty_zone_otherwise_unused".
