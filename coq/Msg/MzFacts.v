(* Decoding of the handler table that tools/facts_c13.py regenerates from the source on every run
   (coq/Facts/Facts_c13.v) into the model's row type.  Unknown names decode to the Unrecognised constructors. *)
From Icv Require Import Base.Tac Msg.MzModel Facts.Facts_c13.
From Coq Require Import String.
Local Open Scope string_scope.

Definition mz_pattern_of (s : string) : mz_pattern :=
  if String.eqb s "canaccess" then MzPCanAccess
  else if String.eqb s "canaccess_or_cmdep" then MzPCanAccessOrCmdEp
  else if String.eqb s "eq_local" then MzPEqLocal
  else if String.eqb s "local_childof_origin" then MzPLocalChildOfOrigin
  else if String.eqb s "local_childof_epzone" then MzPLocalChildOfEpZone
  else if String.eqb s "execzone_childof_origin" then MzPExecZoneChildOfOrigin
  else if String.eqb s "local_or_parent_then_origin" then MzPLocalOrParentThenOrigin
  else if String.eqb s "none" then MzPNone
  else MzPUnrecognised.

Definition mz_flag_of (s : string) : mz_flag :=
  if String.eqb s "none" then MzFNone
  else if String.eqb s "accept_config" then MzFConfig
  else if String.eqb s "accept_commands" then MzFCommands
  else MzFUnrecognised.

Definition mz_row_of (e : string * (bool * string * string)) : mz_row :=
  let '(m, (ep, p, f)) := e in
  {| mz_rmethod := m; mz_rep := ep; mz_rpat := mz_pattern_of p; mz_rflag := mz_flag_of f |}.

(* the table the theorems quantify over: what the source says NOW *)
Definition mz_table : list mz_row := map mz_row_of f_mz_handlers.

Fixpoint mz_find_row (method : string) (l : list mz_row) : option mz_row :=
  match l with
  | [] => None
  | r :: rest => if String.eqb method (mz_rmethod r) then Some r else mz_find_row method rest
  end.
Definition mz_lookup (method : string) : option mz_row := mz_find_row method mz_table.

(* every method of the specification's class table is registered in the source *)
Definition mz_all_registered : bool :=
  forallb (fun kc => mz_is_some (mz_lookup (fst kc))) mz_class_table.

(* the origin construction the model transcribes (mz_from_zone) is the one the translator recognises in
   JsonRpcConnection::MessageHandler now; an unrecognised shape (None) is covered by the correspondence run only *)
Definition mz_origin_rule_ok : Prop :=
  match f_mz_origin_rule with Some r => r = "claim_iff_sender_in_local_zone" | None => True end.
