(* C13 - event::ExecuteCommand with an "endpoint" parameter: the forwarding branch, and where the relayed copies go.
   Model only (no proofs).

   Transcribed from /repo:
     lib/icinga/clusterevents.cpp   ClusterEvents::ExecuteCommandAPIHandler  (stage 1: sender's zone is the local zone or its
                                    immediate parent; "endpoint" parameter: unknown -> discard, local endpoint -> local
                                    execution, other endpoint -> must lie in the local zone or below it; version/capability
                                    and "child zone cannot access the checkable" replies; RelayMessage(origin, endpointZone, ..))
     lib/remote/apilistener.cpp     ApiListener::SyncRelayMessage (target zone, then all its ancestors),
                                    ApiListener::RelayMessageOne (only local zone / parent zone / direct child zones / global;
                                    not back to the sending endpoint, not back to origin->FromZone; routing-master rule)

   What the handler does NOT consult on this branch: accept_commands, and the second-stage origin check of
   ExecuteCheckFromQueue (both belong to local execution only). *)
From Icv Require Import Base.Tac Msg.MzModel.
Local Open Scope nat_scope.

(* params.endpoint *)
Inductive mz_xtarget :=
| MzXNone                 (* no "endpoint" parameter *)
| MzXUnknown              (* Endpoint::GetByName(params.endpoint) is null *)
| MzXLocalEp              (* the receiver's own endpoint *)
| MzXZone (tz : nat).     (* another Endpoint object; tz = its zone *)

Record mz_xmsg := {
  mz_xtgt : mz_xtarget;
  mz_xcap : bool;                   (* all endpoints of the child zone towards the target announce ExecuteArbitraryCommand *)
  mz_xhost : option (option nat)    (* Host::GetByName(params.host)[->service]: None = no such checkable, Some oz = its zone attribute *)
}.

Inductive mz_xroute :=
| MzXDiscard              (* return Empty without any effect *)
| MzXEnqueue              (* EnqueueCheck: local execution (second stage + accept_commands, see MzModel row of the method) *)
| MzXReply                (* an event::ExecutedCommand error reply (exit 126) is relayed with a null origin *)
| MzXForward (tz : nat).  (* RelayMessage(origin, endpointZone, event::ExecuteCommand) *)

(* stage 1:  endpoint = origin->FromClient->GetEndpoint(); if (!endpoint) discard;
             fromLocalZone = endpoint->GetZone() == local; fromParentZone = local->GetParent() && endpoint->GetZone() == local->GetParent() *)
Definition mz_exec_stage1 (t : mz_tree) (l : nat) (s : mz_conn) : bool :=
  match mz_ep s with
  | None => false
  | Some ez => mz_onat_eqb ez (Some l)
               || match mz_par t l with Some p => mz_onat_eqb ez (Some p) | None => false end
  end.

(* Zone::CanAccessObject(object) with a Zone as object: the object's zone is the object itself *)
Definition mz_zone_can_access (t : mz_tree) (z tz : nat) : bool :=
  if mz_glob t tz then true else mz_is_child_of t tz z.

(* body of   for (zone : all Zone objects) if (zone->GetParent() == localZone && zone->CanAccessObject(endpointZone)) { ... }
   Some r = the body returns r; None = falls through to the next zone *)
Definition mz_child_step (t : mz_tree) (l : nat) (x : mz_xmsg) (tz z : nat) : option mz_xroute :=
  if mz_onat_eqb (mz_par t z) (Some l) && mz_zone_can_access t z tz then
    if negb (mz_xcap x) then Some MzXReply
    else match mz_xhost x with
         | None => Some MzXDiscard
         | Some hz => if negb (mz_can_access t l z hz) && negb (Nat.eqb z tz) then Some MzXReply else None
         end
  else None.

Fixpoint mz_child_loop (t : mz_tree) (l : nat) (x : mz_xmsg) (tz : nat) (zs : list nat) : option mz_xroute :=
  match zs with
  | [] => None
  | z :: r => match mz_child_step t l x tz z with Some a => Some a | None => mz_child_loop t l x tz r end
  end.

Definition mz_exec_route (t : mz_tree) (c : mz_cfg) (s : mz_conn) (x : mz_xmsg) : mz_xroute :=
  let l := mz_local c in
  if negb (mz_exec_stage1 t l s) then MzXDiscard
  else match mz_xtgt x with
       | MzXNone => MzXEnqueue
       | MzXUnknown => MzXDiscard
       | MzXLocalEp => MzXEnqueue
       | MzXZone tz =>
           if negb (mz_is_child_of t tz l) then MzXDiscard
           else match mz_child_loop t l x tz (seq 0 (length t)) with
                | Some a => a
                | None => MzXForward tz
                end
       end.

(* ---- ApiListener::SyncRelayMessage / RelayMessageOne, at zone granularity ---- *)
(* z and all its ancestors, nearest first (target_zone, then target_zone->GetAllParentsRaw()) *)
Fixpoint mz_chain (t : mz_tree) (fuel : nat) (z : nat) : list nat :=
  match fuel with
  | O => []
  | S f => z :: match mz_par t z with Some p => mz_chain t f p | None => [] end
  end.
Definition mz_up (t : mz_tree) (z : nat) : list nat := mz_chain t (S z) z.

Definition mz_children (t : mz_tree) (l : nat) : list nat :=
  filter (fun z => mz_onat_eqb (mz_par t z) (Some l)) (seq 0 (length t)).

(* RelayMessageOne(a): the zones whose endpoints are candidates at all *)
Definition mz_relay_one (t : mz_tree) (l a : nat) : list nat :=
  if mz_glob t a then l :: mz_children t l
  else if Nat.eqb a l || mz_onat_eqb (mz_par t l) (Some a) || mz_onat_eqb (mz_par t a) (Some l) then [a]
  else [].

Definition mz_relay_cands (t : mz_tree) (l target : nat) : list nat := flat_map (mz_relay_one t l) (mz_up t target).

(* who is connected around the receiver *)
Record mz_renv := {
  mz_rnep : nat -> nat;      (* connected endpoints per zone (the receiver itself counts for its own zone) *)
  mz_rself : bool;           (* the sender is the receiver's own Endpoint object *)
  mz_rmaster : bool;         (* the receiver is the routing master of its zone (ApiListener::GetMaster) *)
  mz_rsndmaster : bool       (* the sender is that master *)
}.

(* the origin handed to RelayMessage: None = null origin; Some (zone of the sending endpoint, origin->FromZone) *)
Definition mz_rorigin := option (option nat * option nat).

(* does some endpoint of zone cz get the message?  Skipped: the receiver itself, the endpoint the message came from, every endpoint
   of origin->FromZone, and - when the receiver is not the routing master - everybody but that master *)
Definition mz_relay_sends (l : nat) (e : mz_renv) (org : mz_rorigin) (cz : nat) : bool :=
  match org with Some (_, Some fz) => negb (Nat.eqb fz cz) | _ => true end
  && if mz_rmaster e then
       Nat.ltb ((if Nat.eqb cz l then 1 else 0)
                + match org with
                  | Some (Some ez, _) => if Nat.eqb ez cz && negb (mz_rself e) then 1 else 0
                  | _ => 0
                  end)
               (mz_rnep e cz)
     else Nat.eqb cz l && negb (match org with Some _ => mz_rsndmaster e | None => false end).

Definition mz_relay_zones (t : mz_tree) (l : nat) (e : mz_renv) (org : mz_rorigin) (target : nat) : list nat :=
  filter (mz_relay_sends l e org) (mz_relay_cands t l target).

(* is there any candidate endpoint at all (sent to, or skipped with its log position advanced)? *)
Definition mz_relay_touches (t : mz_tree) (l : nat) (e : mz_renv) (target : nat) : bool :=
  existsb (fun cz => Nat.ltb (if Nat.eqb cz l then 1 else 0) (mz_rnep e cz)) (mz_relay_cands t l target).

Definition mz_sender_zone (s : mz_conn) : option nat := match mz_ep s with Some ez => ez | None => None end.

(* ---- one ExecuteCommand message through MessageHandler ---- *)
Record mz_xout := {
  mz_xrlp : bool;         (* the sender's remote log position moved *)
  mz_xapp : bool;         (* anything else changed: objects, files, executions, any queue but the reply queue of this connection *)
  mz_xc : list nat;       (* zones an endpoint of which got an event::ExecuteCommand *)
  mz_xd : list nat        (* zones an endpoint of which got an event::ExecutedCommand *)
}.

(* [row] = the generated row of event::ExecuteCommand (second stage + flag of the local-execution path) *)
Definition mz_exec_handle (t : mz_tree) (c : mz_cfg) (s : mz_conn) (m : mz_msg) (x : mz_xmsg) (e : mz_renv) (ts : mz_ts)
                          (row : option (bool * mz_pattern * mz_flag)) : mz_xout :=
  let l := mz_local c in
  let ep := mz_is_some (mz_ep s) in
  if ep && mz_ts_is ts MzTsOld then {| mz_xrlp := false; mz_xapp := false; mz_xc := []; mz_xd := [] |}
  else
    let rlp := ep && mz_ts_is ts MzTsNew in
    match mz_exec_route t c s x with
    | MzXDiscard => {| mz_xrlp := rlp; mz_xapp := false; mz_xc := []; mz_xd := [] |}
    | MzXEnqueue =>
        {| mz_xrlp := rlp;
           mz_xapp := match row with Some (e', p, f) => mz_authorise_core t c s m e' p f | None => false end;
           mz_xc := []; mz_xd := [] |}
    | MzXReply =>
        {| mz_xrlp := rlp; mz_xapp := mz_relay_touches t l e l; mz_xc := []; mz_xd := mz_relay_zones t l e None l |}
    | MzXForward tz =>
        {| mz_xrlp := rlp; mz_xapp := mz_relay_touches t l e tz;
           mz_xc := mz_relay_zones t l e (Some (mz_sender_zone s, mz_from_zone l s)) tz; mz_xd := [] |}
    end.

(* ---- the entitlement for making the receiver pass a command on ---- *)
(* authenticated, configured endpoint of the receiver's own zone or of its immediate parent zone *)
Definition mz_fwd_entitled (t : mz_tree) (l : nat) (s : mz_conn) : Prop :=
  exists ez, mz_cauth s = true /\ mz_cident s = Some (Some ez) /\ (ez = l \/ mz_par t l = Some ez).

(* a zone the forwarded command may be handed to: on the path from the target endpoint's zone upwards, and adjacent to
   the receiver (its own zone, its parent, a direct child) *)
Definition mz_fwd_zone_ok (t : mz_tree) (l tz z : nat) : Prop :=
  mz_anc t tz z /\ (z = l \/ mz_par t l = Some z \/ mz_par t z = Some l).

(* no global zone on the way up from the target (global zones have neither endpoints nor children) *)
Definition mz_path_plain (t : mz_tree) (tz : nat) : Prop := forall a, mz_anc t tz a -> mz_glob t a = false.
