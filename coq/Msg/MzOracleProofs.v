(* The oracle that is run over implementation traces accepts every answer of the model (outside the recorded
   finding): it can only fire where the implementation applies something the theorems exclude. *)
From Icv Require Import Base.Tac Msg.MzModel Msg.MzFacts Msg.MzProofs Msg.MzObs.
From Coq Require Import String.
Local Open Scope nat_scope.

Lemma mz_obj_in_b_spec t l oz z : mz_wf t -> (mz_obj_in_b t l oz z = true <-> mz_obj_in t l oz z).
Proof.
  intros W. unfold mz_obj_in_b, mz_obj_in. rewrite orb_true_iff, (mz_is_child_of_spec t _ _ W). reflexivity.
Qed.

Lemma mz_onat_eqb_eq a b : mz_onat_eqb a b = true <-> a = b.
Proof.
  destruct a, b; cbn; split; intros H; try discriminate; try reflexivity.
  - apply Nat.eqb_eq in H; subst; reflexivity.
  - inversion H; subst. apply Nat.eqb_refl.
Qed.

Lemma mz_entitled_b_complete t c s m k : mz_wf t -> mz_entitled t c s m k -> mz_entitled_b t c s m k = true.
Proof.
  intros W H. destruct k; cbn [mz_entitled] in H; cbn [mz_entitled_b]; try reflexivity;
    destruct H as (ez & Ha & Hi & H); rewrite Ha, Hi.
  - destruct H as (z & E & O). rewrite E. apply mz_obj_in_b_spec; auto.
  - destruct H as [(z & E & O)|Cm].
    + rewrite E. apply orb_true_iff; left. apply mz_obj_in_b_spec; auto.
    + rewrite Cm. apply orb_true_r.
  - apply mz_onat_eqb_eq; auto.
  - destruct H as [A F]. rewrite F, andb_true_r. apply mz_is_child_of_spec; auto.
  - destruct H as [A F]. rewrite F, andb_true_r. apply mz_is_child_of_spec; auto.
  - apply mz_is_child_of_spec; auto.
  - reflexivity.
Qed.

Lemma mz_entitled_b_sound t c s m k : mz_wf t -> mz_entitled_b t c s m k = true -> mz_entitled t c s m k.
Proof.
  intros W H. destruct k; cbn [mz_entitled]; cbn [mz_entitled_b] in H; try exact I;
    destruct (mz_cauth s) eqn:Ha; try discriminate;
    destruct (mz_cident s) as [[ez|]|] eqn:Hi; try discriminate;
    exists ez; repeat split; auto.
  - destruct (mz_eff_zone (mz_local c) s) as [z|]; [|discriminate]. exists z; split; auto. apply mz_obj_in_b_spec; auto.
  - apply orb_true_iff in H as [H|H]; [left|right; auto].
    destruct (mz_eff_zone (mz_local c) s) as [z|]; [|discriminate]. exists z; split; auto. apply mz_obj_in_b_spec; auto.
  - apply mz_onat_eqb_eq; auto.
  - apply andb_prop in H as [H _]. apply mz_is_child_of_spec; auto.
  - apply andb_prop in H as [_ H]; auto.
  - apply andb_prop in H as [H _]. apply mz_is_child_of_spec; auto.
  - apply andb_prop in H as [_ H]; auto.
  - apply mz_is_child_of_spec; auto.
Qed.

Lemma mz_find_row_in method l r : mz_find_row method l = Some r -> In r l /\ mz_rmethod r = method.
Proof.
  induction l as [|x l IH]; cbn; [discriminate|].
  destruct (String.eqb method (mz_rmethod x)) eqn:E.
  - intros H; inversion H; subst. split; [left; reflexivity|]. apply String.eqb_eq in E; auto.
  - intros H. destruct (IH H); split; auto.
Qed.

Lemma mz_zoned_b_spec s : mz_zoned_b s = true -> mz_zoned s.
Proof. unfold mz_zoned_b, mz_zoned. destruct (mz_cident s) as [[|]|]; intros; discriminate. Qed.

Lemma mz_oracle_accepts_model t c s m ts method :
  mz_wf t -> (forall r, mz_lookup method = Some r -> ~ mz_finding_anon_cert s r) ->
  mz_oracle_msg t c s m method (mz_run t c s m ts method) = 0.
Proof.
  intros W NF. unfold mz_run, mz_handle, mz_handle_core.
  destruct (mz_is_some (mz_ep s)) eqn:EP; cbn [andb].
  - destruct (mz_ts_is ts MzTsOld); [reflexivity|].
    unfold mz_oracle_msg, mz_oracle_core; cbn [mz_dropped mz_rlp mz_applied andb].
    rewrite EP. cbn [negb]. rewrite andb_false_r.
    destruct (mz_lookup method) as [r|] eqn:L; [|reflexivity]. cbn [option_map mz_row_core].
    fold (mz_authorise t c s m r).
    destruct (mz_authorise t c s m r && _) eqn:AP; [|reflexivity]. cbn [negb].
    apply andb_prop in AP as [A EF].
    destruct (mz_find_row_in _ _ _ L) as [I Mn].
    destruct (mz_class_of method) as [k|] eqn:CL.
    + rewrite EF. cbn [negb].
      destruct (mz_placed_b t c m) eqn:PB; [|reflexivity].
      destruct (mz_zoned_b s) eqn:ZB; [|reflexivity]. cbn [andb].
      destruct (mz_sound r I t c s m W) as (k' & CL' & EN); auto.
      * apply mz_obj_in_b_spec; auto.
      * apply mz_zoned_b_spec; auto.
      * rewrite Mn, CL in CL'. inversion CL'; subst k'.
        rewrite (mz_entitled_b_complete t c s m k W EN). reflexivity.
    + exfalso. destruct (mz_table_row r I) as (k & CL' & _). rewrite Mn, CL in CL'. discriminate.
  - unfold mz_oracle_msg, mz_oracle_core; cbn [mz_dropped mz_rlp mz_applied andb].
    destruct (mz_lookup method) as [r|] eqn:L; [|reflexivity]. cbn [option_map mz_row_core].
    fold (mz_authorise t c s m r).
    destruct (mz_authorise t c s m r && _) eqn:AP; [|reflexivity]. cbn [negb].
    apply andb_prop in AP as [A EF].
    destruct (mz_find_row_in _ _ _ L) as [I Mn].
    destruct (mz_class_of method) as [k|] eqn:CL.
    + rewrite EF. cbn [negb].
      destruct (mz_placed_b t c m) eqn:PB; [|reflexivity].
      destruct (mz_zoned_b s) eqn:ZB; [|reflexivity]. cbn [andb].
      destruct (mz_sound r I t c s m W) as (k' & CL' & EN); auto.
      * apply mz_obj_in_b_spec; auto.
      * apply mz_zoned_b_spec; auto.
      * rewrite Mn, CL in CL'. inversion CL'; subst k'.
        rewrite (mz_entitled_b_complete t c s m k W EN). reflexivity.
    + exfalso. destruct (mz_table_row r I) as (k & CL' & _). rewrite Mn, CL in CL'. discriminate.
Qed.
