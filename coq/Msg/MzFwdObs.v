(* C13 - ExecuteCommand forwarding: extraction entry point and the executable oracle that is run over the IMPLEMENTATION's
   traces of the forwarding family ("whatever was forwarded / answered / executed, the sender was entitled and the copies
   went only where the theorems allow"). *)
From Icv Require Import Base.Tac Msg.MzModel Msg.MzFacts Msg.MzObs Msg.MzFwd.
From Coq Require Import String.
Local Open Scope nat_scope.

(* the generated row of event::ExecuteCommand, as a string-free normal form (cf. MzIdx.v) *)
Definition mz_exec_row : option (bool * mz_pattern * mz_flag) :=
  Eval vm_compute in option_map mz_row_core (mz_lookup "event::ExecuteCommand").

Definition mz_exec_run (t : mz_tree) (c : mz_cfg) (s : mz_conn) (m : mz_msg) (x : mz_xmsg) (e : mz_renv) (ts : mz_ts) : mz_xout :=
  mz_exec_handle t c s m x e ts mz_exec_row.

Definition mz_nonempty {A} (l : list A) : bool := match l with [] => false | _ => true end.

Definition mz_fwd_entitled_b (t : mz_tree) (l : nat) (s : mz_conn) : bool :=
  mz_cauth s && match mz_cident s with
                | Some (Some ez) => Nat.eqb ez l || mz_onat_eqb (mz_par t l) (Some ez)
                | _ => false
                end.

Definition mz_adjacent_b (t : mz_tree) (l z : nat) : bool :=
  Nat.eqb z l || mz_onat_eqb (mz_par t l) (Some z) || mz_onat_eqb (mz_par t z) (Some l).

Definition mz_fwd_zone_ok_b (t : mz_tree) (l tz z : nat) : bool := mz_is_child_of t tz z && mz_adjacent_b t l z.

Definition mz_path_plain_b (t : mz_tree) (tz : nat) : bool := forallb (fun a => negb (mz_glob t a)) (mz_up t tz).

(* verdict for one observed ExecuteCommand message: 0 = fine *)
Definition mz_xoracle (t : mz_tree) (c : mz_cfg) (s : mz_conn) (m : mz_msg) (x : mz_xmsg) (o : mz_xout) : nat :=
  let l := mz_local c in
  let any := mz_xapp o || mz_nonempty (mz_xc o) || mz_nonempty (mz_xd o) in
  if mz_xrlp o && negb (mz_is_some (mz_ep s)) then 5                      (* log position moved without endpoint *)
  else if any && negb (mz_fwd_entitled_b t l s) then 6                    (* sender not in the own / immediate parent zone *)
  else match mz_xtgt x with
       | MzXZone tz =>
           if any && negb (mz_is_child_of t tz l) then 7                  (* target endpoint outside the receiver's subtree *)
           else if mz_path_plain_b t tz
                   && negb (forallb (fun z => mz_fwd_zone_ok_b t l tz z && negb (mz_onat_eqb (mz_from_zone l s) (Some z))) (mz_xc o))
                then 8                                                    (* command handed to a zone off the path / back to its origin *)
           else if mz_path_plain_b t l
                   && negb (forallb (fun z => Nat.eqb z l || mz_onat_eqb (mz_par t l) (Some z)) (mz_xd o))
                then 9                                                    (* error reply handed to a zone other than own / parent *)
           else 0
       | MzXUnknown => if any then 7 else 0
       | MzXNone | MzXLocalEp =>
           if mz_nonempty (mz_xc o) || mz_nonempty (mz_xd o) then 10      (* local execution relays nothing *)
           else mz_oracle_core t c s m (Some MzKCommand)
                  {| mz_dropped := false; mz_rlp := mz_xrlp o; mz_applied := mz_xapp o |}
       end.
