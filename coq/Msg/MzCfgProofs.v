From Icv Require Import Base.Tac Msg.MzModel Msg.MzFacts Msg.MzProofs Msg.MzObs Msg.MzOracleProofs Msg.MzIdx Msg.MzCfg.
From Coq Require Import String.
Local Open Scope nat_scope.
Local Open Scope string_scope.

Lemma mz_idx_update_object_spec :
  exists k, nth_error mz_class_table mz_idx_update_object = Some ("config::UpdateObject", k).
Proof. eexists. vm_compute. reflexivity. Qed.

(* the zone a message names never widens what is applied ... *)
Lemma mz_run_zp_refines t c s m ts i zp :
  mz_applied (mz_run_zp_i t c s m ts i zp) = true -> mz_applied (mz_run_i t c s m ts i) = true.
Proof.
  unfold mz_run_zp_i. destruct (Nat.eqb i mz_idx_update_object); [|auto].
  cbn. intros H. apply andb_prop in H as [H _]. exact H.
Qed.

(* ... and beyond "it exists" it plays no role: any two known zones, or none at all, give the same answer *)
Lemma mz_run_zp_known_irrelevant t c s m ts i z z' :
  mz_run_zp_i t c s m ts i (MzZKnown z) = mz_run_zp_i t c s m ts i (MzZKnown z') /\
  mz_run_zp_i t c s m ts i (MzZKnown z) = mz_run_zp_i t c s m ts i MzZEmpty.
Proof. split; reflexivity. Qed.

Lemma mz_run_zp_unknown t c s m ts :
  mz_applied (mz_run_zp_i t c s m ts mz_idx_update_object MzZUnknown) = false.
Proof. unfold mz_run_zp_i. rewrite Nat.eqb_refl. cbn. apply andb_false_r. Qed.

(* the per-message oracle keeps accepting the model's answers *)
Lemma mz_oracle_zp_accepts t c s m ts i name k zp :
  mz_wf t -> nth_error mz_class_table i = Some (name, k) ->
  (forall r, mz_lookup name = Some r -> ~ mz_finding_anon_cert s r) ->
  mz_oracle_i t c s m i (mz_run_zp_i t c s m ts i zp) = 0.
Proof.
  intros W N NF.
  assert (B : mz_oracle_i t c s m i (mz_run_i t c s m ts i) = 0).
  { rewrite (mz_oracle_i_spec t c s m i name k _ N), (mz_run_i_spec t c s m ts i name k N).
    apply mz_oracle_accepts_model; auto. }
  unfold mz_run_zp_i. destruct (Nat.eqb i mz_idx_update_object); [|exact B].
  destruct (mz_zparam_ok zp).
  - unfold mz_gate. rewrite andb_true_r. destruct (mz_run_i t c s m ts i); exact B.
  - unfold mz_gate. rewrite andb_false_r.
    unfold mz_oracle_i, mz_oracle_core in *. cbn [mz_dropped mz_rlp mz_applied] in *.
    destruct (mz_run_i t c s m ts i) as [d r a]; cbn [mz_dropped mz_rlp mz_applied] in *.
    rewrite orb_false_l.
    destruct d, r, a; cbn in *; try reflexivity; try discriminate B;
      destruct (mz_is_some (mz_ep s)); cbn in *; try reflexivity; try discriminate B.
Qed.

(* ---------------------------------------------------------------- stale messages *)
(* "ignore old messages": a message whose ts lies before the sending endpoint's remote log position is dropped before
   the handler is looked up - nothing is applied, the position does not move *)
Lemma mz_stale_dropped t c s m row eff :
  mz_is_some (mz_ep s) = true ->
  mz_handle t c s m MzTsOld row eff = {| mz_dropped := true; mz_rlp := false; mz_applied := false |}.
Proof. intros E. unfold mz_handle, mz_handle_core. rewrite E. reflexivity. Qed.

(* a connection without Endpoint object has no log position: its "ts" is ignored altogether (never dropped, never recorded) *)
Lemma mz_ts_ignored_without_endpoint t c s m ts row eff :
  mz_ep s = None ->
  mz_handle t c s m ts row eff = mz_handle t c s m MzTsNone row eff /\ mz_rlp (mz_handle t c s m ts row eff) = false.
Proof. intros E. unfold mz_handle, mz_handle_core. rewrite E. cbn. split; reflexivity. Qed.

(* the time stamp never widens what is applied: whatever is applied with some ts is applied without one *)
Lemma mz_ts_monotone t c s m ts row eff :
  mz_applied (mz_handle t c s m ts row eff) = true -> mz_applied (mz_handle t c s m MzTsNone row eff) = true.
Proof.
  unfold mz_handle, mz_handle_core. destruct (mz_is_some (mz_ep s)), ts; cbn; auto; discriminate.
Qed.

(* the one thing a message changes before its handler is even looked up - the sending endpoint's own remote log position -
   moves only for a connection that HAS an Endpoint object (authenticated, configured), and only forward (newer ts) *)
Lemma mz_rlp_only_own_endpoint t c s m ts row eff :
  mz_rlp (mz_handle t c s m ts row eff) = true ->
  (exists z, mz_cauth s = true /\ mz_cident s = Some z) /\ ts = MzTsNew.
Proof.
  unfold mz_handle, mz_handle_core. destruct (mz_ep s) as [z|] eqn:E; cbn.
  - apply mz_ep_some in E. destruct ts; cbn; try discriminate. intros _. split; [eauto|reflexivity].
  - destruct ts; discriminate.
Qed.
