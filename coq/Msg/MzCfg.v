(* C13 - config::UpdateObject: the "zone" the MESSAGE names for the object.
   lib/remote/apilistener-configsync.cpp ConfigUpdateObjectAPIHandler:
       String objZone = params->Get("zone");
       if (!objZone.IsEmpty() && !Zone::GetByName(objZone)) discard;
   and nothing else: the name is neither compared with the sender's zone, the receiver's zone or the zone of an existing
   object of that name, nor given to the object that is created (its zone is whatever the "config" text says).
   config::DeleteObject carries no zone at all.  The stale-message rule of MessageHandler is stated here as well. *)
From Icv Require Import Base.Tac Msg.MzModel Msg.MzFacts Msg.MzObs Msg.MzIdx.
From Coq Require Import String.
Local Open Scope nat_scope.

Inductive mz_zparam :=
| MzZEmpty                (* no "zone" in the message, or an empty one *)
| MzZKnown (z : nat)      (* names a Zone object the receiver has *)
| MzZUnknown.             (* names no Zone object *)

Definition mz_zparam_ok (p : mz_zparam) : bool := match p with MzZUnknown => false | _ => true end.

(* position of config::UpdateObject in the class table (extraction is string-free, cf. MzIdx.v) *)
Definition mz_idx_update_object : nat := Eval vm_compute in
  (fix go (i : nat) (l : list (string * mz_class)) : nat :=
     match l with
     | [] => i
     | (k, _) :: r => if String.eqb k "config::UpdateObject" then i else go (S i) r
     end) 0 mz_class_table.

Definition mz_gate (o : mz_out) (b : bool) : mz_out :=
  {| mz_dropped := mz_dropped o; mz_rlp := mz_rlp o; mz_applied := mz_applied o && b |}.

(* the model's answer for a message that carries a zone name (only config::UpdateObject looks at it) *)
Definition mz_run_zp_i (t : mz_tree) (c : mz_cfg) (s : mz_conn) (m : mz_msg) (ts : mz_ts) (i : nat) (zp : mz_zparam) : mz_out :=
  if Nat.eqb i mz_idx_update_object then mz_gate (mz_run_i t c s m ts i) (mz_zparam_ok zp) else mz_run_i t c s m ts i.

(* the zone of an object that config::UpdateObject creates: the one its "config" text states - not the one the message names *)
Definition mz_created_zone (o : mz_out) (config_zone : option nat) (zp : mz_zparam) : option nat :=
  if mz_applied o then config_zone else None.
