(* C07 - the property theorems, nothing else.  Each is closed by [exact] of a lemma proved in
   coq/Dep/*.v and followed by Print Assumptions.
   Model: Dep/DgModel.v.  dg_spec_available / dg_spec_reachable (Dep/DgReachProofs.v) are the statement of
   the property; dg_E / dg_acyclic (Dep/DgCycleProofs.v) the edge relation incl. implicit service->host edges. *)
From Coq Require Import Relations Permutation.
From Icv Require Import Base.Tac Dep.DgModel Dep.DgObs Dep.DgReachProofs Dep.DgCycleProofs
     Dep.DgOracleProofs Dep.DgFacts Dep.DgRegistryProofs Dep.DgLoadProofs.
Local Open Scope Z_scope.

(* Dependency::IsAvailable is the five-way disjunction of the statement, for every aspect and all inputs *)
Theorem C07_available : forall g st po a d,
  dgd_parent d <> dgd_child d ->
  (dg_available g st po a d = true <->
     dgs_checked (st (dgd_parent d)) = false                                   (* parent never checked *)
  \/ dg_filter_match g (st (dgd_parent d)) d = true                            (* state listed in the filter *)
  \/ (dgd_iss d = true /\ dgs_hard (st (dgd_parent d)) = false)                (* soft state, ignore_soft_states *)
  \/ dg_period_closed po d = true                                              (* period closed *)
  \/ dg_not_disabled a d = true).                                              (* aspect not disabled *)
Proof. exact dg_available_spec. Qed.
Print Assumptions C07_available.

(* quirk of the code, outside the statement: a dependency of an object on itself always passes
   (such a dependency is a cycle and never gets past the cycle check, see C07_dfs_complete) *)
Theorem C07_available_self : forall g st po a d,
  dgd_parent d = dgd_child d -> dg_available g st po a d = true.
Proof. exact dg_available_self. Qed.
Print Assumptions C07_available_self.

(* DependencyGroup::GetState: a redundancy group needs at least one member with a reachable parent that is
   available, any other group needs all of its (possibly duplicate) members *)
Theorem C07_group_state : forall rp av redundant ds,
  dg_gstate_ok (dg_group_state rp av redundant ds) =
  if redundant then existsb (fun d => rp (dgd_parent d) && av d) ds
  else forallb (fun d => rp (dgd_parent d) && av d) ds.
Proof. exact dg_group_state_ok. Qed.
Print Assumptions C07_group_state.

(* Checkable::IsReachable computes the statement on EVERY acyclic graph whose depth does not exceed
   l_MaxDependencyRecursionLevel, for all status/period assignments and the three aspects *)
Theorem C07_reachable_spec : forall g st po rk a c,
  dg_ranked g rk -> (rk c <= 256)%nat ->
  (dg_reachable 256 g st po a c = true <-> dg_spec_reachable g st po a c).
Proof. exact (fun g st po rk a => dg_reachable_spec g st po rk a 256). Qed.
Print Assumptions C07_reachable_spec.

(* the bound is tight: with 257 nested dependencies the code answers "unreachable" where the statement says
   "reachable" (documented recursion limit; the hypothesis rk c <= 256 above is therefore necessary) *)
Theorem C07_depth_limit_tight :
  let g := dg_chain_graph 257 in
  let st := fun _ => dg_status_pending false in
  let po := fun _ => true in
  dg_reachable dg_max_recursion g st po DgState 0%nat = false /\ dg_spec_reachable g st po DgState 0%nat.
Proof. exact dg_depth_limit_witness. Qed.
Print Assumptions C07_depth_limit_tight.

(* the verdict does not depend on the order in which dependencies sit in the containers *)
Theorem C07_order_irrelevant : forall g1 g2 st po rk a fuel c,
  dgg_svc g1 = dgg_svc g2 -> (forall d, In d (dgg_deps g1) <-> In d (dgg_deps g2)) ->
  dg_ranked g1 rk -> (rk c <= fuel)%nat ->
  dg_reachable fuel g1 st po a c = dg_reachable fuel g2 st po a c.
Proof. exact dg_reachable_order_irrel. Qed.
Print Assumptions C07_order_irrelevant.

(* cycle check, soundness: old graph acyclic (incl. implicit service->host edges) and the check of a batch of new
   dependencies passes  ==>  the graph with the batch registered is acyclic *)
Theorem C07_dfs_sound : forall g extra,
  dg_acyclic g [] -> dg_check_ok g extra = true ->
  dg_acyclic g extra /\ dg_acyclic (dg_with_deps g (dgg_deps g ++ extra)) [].
Proof. exact (fun g extra H1 H2 => conj (dg_dfs_sound g extra H1 H2) (dg_commit_acyclic g extra H1 H2)). Qed.
Print Assumptions C07_dfs_sound.

(* completeness: a rejection reports a real cycle - the reported stack is a lead-in followed by a non-empty
   chain of graph edges that closes on itself *)
Theorem C07_dfs_complete : forall g extra path,
  dg_cycle_check g extra = DgDfsCycle path ->
  (exists pre cyc, path = pre ++ cyc /\ cyc <> [] /\ dg_chain g extra cyc /\
     forall e0, dg_edge_src (hd e0 cyc) = dg_edge_dst (last cyc e0))
  /\ ~ dg_acyclic g extra.
Proof. exact (fun g extra path H => conj (dg_dfs_complete g extra path H) (dg_dfs_complete_cyclic g extra path H)). Qed.
Print Assumptions C07_dfs_complete.

(* hence the check DECIDES acyclicity of the new graph whenever the old one is acyclic *)
Theorem C07_check_decides : forall g extra,
  dg_acyclic g [] -> (dg_check_ok g extra = true <-> dg_acyclic g extra).
Proof. exact dg_check_ok_spec. Qed.
Print Assumptions C07_check_decides.

(* A configuration load commits its Dependency items in several rounds (apply-rule instances in a later round
   than plain objects; a runtime addition is a load with one round of one item).  Each round runs the check over
   ITS items against GetDependencies(includePending = true) = m_PendingDependencies ++ registered groups
   (dg_lview), then hands the items to their children (pending if the child is not started).  Whatever the
   rounds and whichever children are started: the load is accepted iff the union of the old graph and ALL new
   dependencies, with the implicit service->host edges, is acyclic; an accepted load registers exactly the union
   and leaves an acyclic graph; a rejected load leaves the graph unchanged. *)
Theorem C07_load_decides : forall started g batches,
  dg_acyclic g [] ->
  (snd (dg_load started g batches) = true <-> dg_acyclic g (concat batches)) /\
  (snd (dg_load started g batches) = true ->
     dgg_svc (fst (dg_load started g batches)) = dgg_svc g /\
     (forall d, In d (dgg_deps (fst (dg_load started g batches))) <-> In d (dgg_deps g) \/ In d (concat batches)) /\
     dg_acyclic (fst (dg_load started g batches)) []) /\
  (snd (dg_load started g batches) = false -> fst (dg_load started g batches) = g).
Proof. exact dg_load_decides. Qed.
Print Assumptions C07_load_decides.

(* in particular the verdict does not depend on how the new dependencies are split into rounds *)
Theorem C07_batching_irrelevant : forall started1 started2 g bs1 bs2,
  dg_acyclic g [] -> (forall d, In d (concat bs1) <-> In d (concat bs2)) ->
  snd (dg_load started1 g bs1) = snd (dg_load started2 g bs2).
Proof. exact dg_load_batching_irrelevant. Qed.
Print Assumptions C07_batching_irrelevant.

(* termination: the search never runs out of fuel, and on accepted graphs of depth <= 256 the evaluation never
   hits the recursion limit (more fuel does not change any answer) *)
Theorem C07_terminates :
  (forall g extra, dg_cycle_check g extra <> DgDfsFuel) /\
  (forall g st po rk a f1 f2 c, dg_ranked g rk -> (rk c <= f1)%nat -> (rk c <= f2)%nat ->
     dg_reachable f1 g st po a c = dg_reachable f2 g st po a c).
Proof. exact (conj dg_dfs_terminates dg_reachable_fuel_irrel). Qed.
Print Assumptions C07_terminates.

(* runtime additions/removals leave the grouping and the registry equal (same observations) to a fresh load *)
Theorem C07_registry : forall S0 ops,
  dg_deps_ok S0 -> dg_ops_valid S0 ops ->
  dg_reg_equiv (dg_reg_run (dg_reg_fresh S0) ops) (dg_reg_fresh (dg_set_run S0 ops)).
Proof. exact dg_registry_run_fresh. Qed.
Print Assumptions C07_registry.

(* the executable oracle run over implementation traces never fires on what the model produces *)
Theorem C07_oracle_accepts_model :
  (forall g st po rk, dg_oracle_reach g st po rk (fun a c => dg_reachable dg_max_recursion g st po a c) = None) /\
  (forall g extra, dg_acyclic g [] -> dg_oracle_commit g extra (snd (dg_commit g extra)) = true) /\
  (forall g extra, dg_acyclic g [] -> dg_acyclic (fst (dg_commit g extra)) []) /\
  (forall g id, dg_acyclic g [] -> dg_acyclic (dg_remove_dep g id) []) /\
  (forall started g batches, dg_acyclic g [] ->
     dg_oracle_commit g (concat batches) (snd (dg_load started g batches)) = true).
Proof.
  exact (conj dg_oracle_reach_accepts (conj dg_oracle_commit_accepts
          (conj dg_commit_preserves_acyclic (conj dg_remove_preserves_acyclic dg_oracle_load_accepts)))).
Qed.
Print Assumptions C07_oracle_accepts_model.

(* model constants = what the source says now (regenerated facts) *)
Theorem C07_source_facts :
  dg_opt_is Facts_c07.f_max_dependency_recursion (fun v => v = Z.of_nat dg_max_recursion) /\
  dg_opt_is Facts_c07.f_DependencyState (fun v => v = dg_aspect_num DgState) /\
  dg_opt_is Facts_c07.f_DependencyCheckExecution (fun v => v = dg_aspect_num DgChecks) /\
  dg_opt_is Facts_c07.f_DependencyNotification (fun v => v = dg_aspect_num DgNotif) /\
  dg_opt_is Facts_c07.f_service_state_to_filter (fun t => t = map (fun s => (s, dg_state_filter true s)) [0; 1; 2; 3]) /\
  dg_opt_is Facts_c07.f_host_state_to_filter (fun t => t = map (fun s => (s, dg_state_filter false s)) [0; 1]).
Proof. exact dg_facts_hold. Qed.
Print Assumptions C07_source_facts.

(* non-vacuity: host 0 <- service 1 (on host 0); host 2 depends on redundancy group {host 0, host 3} and, outside
   any group, on service 1.  Host 0 hard Down, host 3 Up, service 1 Critical but soft (ignore_soft_states). *)
Example C07_nonvacuous :
  let mk := fun i c p rg f iss => {| dgd_id := i; dgd_child := c; dgd_parent := p; dgd_rg := rg; dgd_filter := f;
                                     dgd_iss := iss; dgd_period := None; dgd_dc := true; dgd_dn := false |} in
  let g := {| dgg_nodes := [0; 1; 2; 3]%nat; dgg_svc := [(1, 0)]%nat;
              dgg_deps := [mk 0 2 0 (Some 1) 16%Z false; mk 1 2 3 (Some 1) 16%Z false; mk 2 2 1 None 3%Z true]%nat |} in
  let st := fun n => match n with
                     | O => {| dgs_checked := true; dgs_state := 1; dgs_hard := true |}
                     | S O => {| dgs_checked := true; dgs_state := 2; dgs_hard := false |}
                     | _ => {| dgs_checked := true; dgs_state := 0; dgs_hard := true |}
                     end in
  let rk := fun n => match n with S (S O) => 1 | _ => 0 end%nat in
  dg_ranked g rk /\ dg_acyclic g [] /\
  dg_reachable 256 g st (fun _ => true) DgChecks 2%nat = true /\      (* group satisfied by host 3, service 1 soft *)
  dg_reachable 256 g st (fun _ => true) DgState 2%nat = false /\      (* ... but its parent service 1 is unreachable for state *)
  dg_reachable 256 g st (fun _ => true) DgState 1%nat = false /\      (* service on a hard-Down host *)
  dg_reachable 256 g st (fun _ => true) DgChecks 1%nat = true /\      (* ... but not for check execution *)
  dg_check_ok g [mk 3 0 2 None 16%Z true]%nat = false /\               (* 0 -> 2 -> 0 would be a cycle *)
  dg_check_ok g [mk 3 0 1 None 3%Z true]%nat = false /\                (* 0 -> service 1 -> (implicit) host 0 *)
  dg_check_ok g [mk 3 3 1 None 3%Z true]%nat = true.
Proof.
  cbv zeta. split; [|split].
  - intros d [<-|[<-|[<-|[]]]]; cbn; lia.
  - apply dg_full_check_spec. vm_compute. reflexivity.
  - vm_compute. repeat split; reflexivity.
Qed.
