(* C08 - theorems over the functions TRANSLATED from /repo on every run (tools/cxx2coq.py -> coq/Facts/Facts_fn_*.v).
   Each theorem is guarded by `src_<fn>_recognised = true`: a C++ shape outside the translator's subset leaves it
   trivially true (logged as "xlate: ... not recognised", tie by the correspondence run only); a recognised shape that no
   longer equals the model breaks the proof in coq/Src and with it this file.  Only `exact` + Print Assumptions here. *)
From Icv Require Import Base.Tac Src.XlPrelude Tp.TpModel Facts.Facts_fn_tp Src.SrcTp.
Local Open Scope Z_scope.

Theorem C08_src_is_inside : src_timeperiod_is_inside_recognised = true ->
  forall s t,
    src_timeperiod_is_inside t (xtp_empty (tp_vb s)) (xtp_val (tp_vb s)) (xtp_empty (tp_ve s)) (xtp_val (tp_ve s)) true (tp_segs s)
    = tp_is_inside s t.
Proof. exact src_timeperiod_is_inside_eq. Qed.
Print Assumptions C08_src_is_inside.

Example C08_src_nonvacuous : src_timeperiod_is_inside_recognised = true -> src_timeperiod_is_inside 15 false 0 false 100 true [(10, 15); (15, 16)] = true /\ src_timeperiod_is_inside 16 false 0 false 100 true [(10, 15); (15, 16)] = false.
Proof. intro H; xl_rec H. all: repeat split; vm_compute; reflexivity. Qed.


(* ---------------------------------------------------------------------------------------------------------------------
   Round 2 (notes/XLATE.md section 8): the segment arithmetic of TimePeriod as translated from /repo on this run
   (coq/Facts/Facts_fn_tp2.v): loop bodies with in-place edits are translated per iteration (the edited segment = state). *)
From Icv Require Import Facts.Facts_fn_tp2 Src.SrcTp2.

(* AddSegment's merge loop: one iteration is one unfolding of tp_add_merge (returning = the new segment was absorbed) *)
Theorem C08_src_add_segment_iter : src_timeperiod_add_segment_iter_recognised = true ->
  forall b e sb se r,
    tp_add_merge b e ((sb, se) :: r)
    = let '(ret, sb', se') := src_timeperiod_add_segment_iter b e sb se in
      if ret then Some ((sb', se') :: r)
      else match tp_add_merge b e r with Some r' => Some ((sb, se) :: r') | None => None end.
Proof. exact src_timeperiod_add_segment_iter_eq. Qed.
Print Assumptions C08_src_add_segment_iter.

(* RemoveSegment's loop: one iteration appends tp_remove_one (dropped / kept / cut in two / trimmed), with today's comparisons *)
Theorem C08_src_remove_segment_iter : src_timeperiod_remove_segment_iter_recognised = true ->
  forall b e sb se, snd (src_timeperiod_remove_segment_iter b e sb se) = tp_remove_one true b e (sb, se).
Proof. exact src_timeperiod_remove_segment_iter_eq. Qed.
Print Assumptions C08_src_remove_segment_iter.

(* PurgeSegments = tp_purge: nothing happens without a valid_begin or for an instant before it; otherwise valid_begin moves and
   the segments that end before the instant are dropped *)
Theorem C08_src_purge_segments : src_timeperiod_purge_segments_recognised = true ->
  forall e s,
    src_timeperiod_purge_segments e (xt_none (tp_vb s)) (xt_val (tp_vb s)) true (tp_segs s)
    = (if xt_purges e s then e else xt_val (tp_vb s),
       if xt_purges e s then tp_segs (tp_purge e s) else [],
       if xt_purges e s then [tt] else []) /\
    (xt_purges e s = false -> tp_purge e s = s) /\
    (xt_purges e s = true -> tp_vb (tp_purge e s) = Some e /\ tp_ve (tp_purge e s) = tp_ve s).
Proof. exact src_timeperiod_purge_segments_eq. Qed.
Print Assumptions C08_src_purge_segments.

Example C08_src_round2_nonvacuous : src_timeperiod_remove_segment_iter_recognised = true -> src_timeperiod_add_segment_iter_recognised = true ->
  snd (src_timeperiod_remove_segment_iter 10 20 5 30) = [(5, 10); (20, 30)] /\
  snd (src_timeperiod_remove_segment_iter 10 20 10 30) = [(20, 30)] /\
  src_timeperiod_add_segment_iter 10 20 15 30 = (true, 10, 30).
Proof. intros H1 H2; xl_rec H1; xl_rec H2. all: repeat split; vm_compute; reflexivity. Qed.
