(* C08 - theorems over the functions TRANSLATED from /repo on every run (tools/cxx2coq.py -> coq/Facts/Facts_fn_*.v).
   Each theorem is guarded by `src_<fn>_recognised = true`: a C++ shape outside the translator's subset leaves it
   trivially true (logged as "xlate: ... not recognised", tie by the correspondence run only); a recognised shape that no
   longer equals the model breaks the proof in coq/Src and with it this file.  Only `exact` + Print Assumptions here. *)
From Icv Require Import Base.Tac Src.XlPrelude Tp.TpModel Facts.Facts_fn_tp Src.SrcTp.
Local Open Scope Z_scope.

Theorem C08_src_is_inside : src_timeperiod_is_inside_recognised = true ->
  forall s t,
    src_timeperiod_is_inside t (xtp_empty (tp_vb s)) (xtp_val (tp_vb s)) (xtp_empty (tp_ve s)) (xtp_val (tp_ve s)) true (tp_segs s)
    = tp_is_inside s t.
Proof. exact src_timeperiod_is_inside_eq. Qed.
Print Assumptions C08_src_is_inside.

Example C08_src_nonvacuous : src_timeperiod_is_inside_recognised = true -> src_timeperiod_is_inside 15 false 0 false 100 true [(10, 15); (15, 16)] = true /\ src_timeperiod_is_inside 16 false 0 false 100 true [(10, 15); (15, 16)] = false.
Proof. intro H; xl_rec H. all: repeat split; vm_compute; reflexivity. Qed.

