(* C07 - theorems over the functions TRANSLATED from /repo on every run (tools/cxx2coq.py -> coq/Facts/Facts_fn_*.v).
   Each theorem is guarded by `src_<fn>_recognised = true`: a C++ shape outside the translator's subset leaves it
   trivially true (logged as "xlate: ... not recognised", tie by the correspondence run only); a recognised shape that no
   longer equals the model breaks the proof in coq/Src and with it this file.  Only `exact` + Print Assumptions here. *)
From Icv Require Import Base.Tac Src.XlPrelude Dep.DgModel Facts.Facts_enums Facts.Facts_fn_notif Facts.Facts_fn_dep Src.SrcDep Src.SrcProps.
Local Open Scope Z_scope.

Theorem C07_src_is_available : src_dependency_is_available_recognised = true ->
  forall g st po a d,
    xdg_state_ok (dg_is_svc g (dgd_parent d)) (dgs_state (st (dgd_parent d))) ->
    src_dependency_is_available (xdg_aspect a) (Nat.eqb (dgd_parent d) (dgd_child d))
      (dgs_checked (st (dgd_parent d))) (dgd_iss d)
      (if dgs_hard (st (dgd_parent d)) then f_StateTypeHard else f_StateTypeSoft)
      (dg_is_svc g (dgd_parent d)) (dgs_state (st (dgd_parent d))) (dgd_filter d)
      (xdg_has_period d) (xdg_inside po d) (dgd_dc d) (dgd_dn d)
    = dg_available g st po a d.
Proof. exact src_dependency_is_available_eq. Qed.
Print Assumptions C07_src_is_available.

(* C07_available restated for the translated function *)
Theorem C07_src_available : src_dependency_is_available_recognised = true -> forall g st po a d,
  xdg_state_ok (dg_is_svc g (dgd_parent d)) (dgs_state (st (dgd_parent d))) ->
  dgd_parent d <> dgd_child d ->
  (src_dependency_is_available (xdg_aspect a) (Nat.eqb (dgd_parent d) (dgd_child d))
      (dgs_checked (st (dgd_parent d))) (dgd_iss d)
      (if dgs_hard (st (dgd_parent d)) then f_StateTypeHard else f_StateTypeSoft)
      (dg_is_svc g (dgd_parent d)) (dgs_state (st (dgd_parent d))) (dgd_filter d)
      (xdg_has_period d) (xdg_inside po d) (dgd_dc d) (dgd_dn d) = true <->
     dgs_checked (st (dgd_parent d)) = false
  \/ dg_filter_match g (st (dgd_parent d)) d = true
  \/ (dgd_iss d = true /\ dgs_hard (st (dgd_parent d)) = false)
  \/ dg_period_closed po d = true
  \/ dg_not_disabled a d = true).
Proof. exact src_available_spec. Qed.
Print Assumptions C07_src_available.

Example C07_src_nonvacuous : src_dependency_is_available_recognised = true -> src_dependency_is_available 2 false true true 1 true 2 3 false true false true = false /\ src_dependency_is_available 2 false true true 1 true 2 4 false true false true = true.
Proof. intro H; xl_rec H. all: repeat split; vm_compute; reflexivity. Qed.

