(* C20 - wire codecs: the property theorems, nothing else.  Each is closed by [exact] of a lemma proved in
   Codec/*.v and followed by Print Assumptions.  Bytes are Z values; payloads are arbitrary lists. *)
From Icv Require Import Base.Tac Codec.NsModel Codec.NsDecimal Codec.NsProofs Codec.NsEofProofs Codec.NsStreamProofs
  Codec.JsModel Codec.JsProofs Codec.JsRoundtrip Codec.CodecOracle Codec.CodecOracleProofs Codec.CodecLimits Facts.Facts_c20.
Local Open Scope Z_scope.

(* ---- netstring, StreamReadContext variant (state file, replay log, objects file) ---- *)
Theorem C20_ns_roundtrip : forall max p rest,
  ns_len p < 10 ^ 9 -> (max < 0 \/ ns_len p + 1 <= max) ->
  ns_parse max (ns_write p ++ rest) = NsItem p rest.
Proof. exact ns_roundtrip_buffered. Qed.
Print Assumptions C20_ns_roundtrip.

(* chunking independence: the concatenation of frames, cut into chunks in ANY way, comes out as exactly those frames *)
Theorem C20_ns_chunking : forall max ps chunks,
  Forall (fun p => ns_len p < 10 ^ 9 /\ (max < 0 \/ ns_len p + 1 <= max)) ps ->
  concat chunks = concat (map ns_write ps) ->
  exists c', ns_feed_all max ns_ctx_init chunks = (ps, c', None) /\ ns_buf c' = [] /\ ns_quiescent max c'.
Proof. exact ns_chunking. Qed.
Print Assumptions C20_ns_chunking.

(* ... and an incomplete next frame stays in the carried buffer *)
Theorem C20_ns_chunking_tail : forall max ps chunks tail,
  Forall (fun p => ns_len p < 10 ^ 9 /\ (max < 0 \/ ns_len p + 1 <= max)) ps ->
  ns_parse max tail = NsNeed ->
  concat chunks = concat (map ns_write ps) ++ tail ->
  exists c', ns_feed_all max ns_ctx_init chunks = (ps, c', None) /\ ns_buf c' = tail.
Proof. exact ns_chunking_tail. Qed.
Print Assumptions C20_ns_chunking_tail.

(* every read of the buffer is below the fill level *)
Theorem C20_ns_bounds : forall max buf, ns_parse max buf <> NsOob.
Proof. exact ns_parse_in_bounds. Qed.
Print Assumptions C20_ns_bounds.

(* a decision once taken is not changed by more bytes: no re-framing *)
Theorem C20_ns_monotone : forall max buf x,
  ns_parse max buf <> NsNeed ->
  ns_parse max (buf ++ x) = match ns_parse max buf with NsItem p r => NsItem p (r ++ x) | o => o end.
Proof. exact ns_parse_mono. Qed.
Print Assumptions C20_ns_monotone.

Theorem C20_ns_buffered_limit : forall max n tail,
  0 <= n < 10 ^ 9 -> 0 <= max < n + 1 -> ns_parse max (ns_dec n ++ ns_colon :: tail) = NsErr ns_e_max.
Proof. exact ns_buffered_limit. Qed.
Print Assumptions C20_ns_buffered_limit.

Theorem C20_ns_buffered_item_within_limit : forall max buf p r,
  ns_parse max buf = NsItem p r -> (max < 0 \/ ns_len p + 1 <= max) /\ ns_len r < ns_len buf.
Proof. exact ns_buffered_item_within_limit. Qed.
Print Assumptions C20_ns_buffered_item_within_limit.

(* ---- the same reader at the END OF THE STREAM: the loop every caller runs
        for (;;) { srs = ReadStringFromStream(...); if (srs == StatusEof) break; if (srs != StatusNewItem) continue; handle }
   (ConfigObject::RestoreObjects, ApiListener::ReplayLog, the object/variable list readers).  [fills] is what the successive
   FillFromStream calls deliver before the stream ends (a fill may be empty) ---- *)
(* termination: for every input and every chunking the loop makes at most |input| + |fills| + 1 calls, however much
   fuel it is given, and the last call answers StatusEof or throws - a truncated frame, a missing terminator, trailing
   garbage never make it run on *)
Theorem C20_ns_eof_terminates : forall max fills n,
  (length (concat fills) + length fills + 1 <= n)%nat ->
  let tr := fst (ns_loop n max ns_ctx_init fills) in
  ns_trace_end tr <> NsEndFuel /\ (length tr <= length (concat fills) + length fills + 1)%nat.
Proof. exact ns_eof_terminates. Qed.
Print Assumptions C20_ns_eof_terminates.

(* the frames handed over are exactly the complete frames in front of the remainder, whatever the remainder is:
   an incomplete frame (nothing, part of a header, part of a payload, terminator missing) ends the loop with StatusEof
   and stays in the buffer, a malformed one ends it with the reader's exception *)
Theorem C20_ns_eof_prefix : forall max ps tail fills,
  Forall (fun p => ns_len p < 10 ^ 9 /\ (max < 0 \/ ns_len p + 1 <= max)) ps ->
  concat fills = concat (map ns_write ps) ++ tail ->
  (ns_parse max tail = NsNeed -> ns_read_all max fills = (ps, NsEndEof, ns_len tail)) /\
  (forall e, ns_parse max tail = NsErr e -> fst (ns_read_all max fills) = (ps, NsEndErr e)).
Proof. exact ns_eof_prefix. Qed.
Print Assumptions C20_ns_eof_prefix.

(* ... and every byte string is of that form: the batch parse leaves an incomplete or a malformed remainder *)
Theorem C20_ns_eof_remainder_cases : forall max input,
  let '(fs, rest, e) := ns_drain_full max input in
  match e with None => ns_parse max rest = NsNeed | Some e => ns_parse max rest = NsErr e \/ (e = 0 /\ ns_parse max rest = NsOob) end.
Proof. exact ns_remainder_cases. Qed.
Print Assumptions C20_ns_eof_remainder_cases.

(* what the caller sees of a stream does not depend on how the bytes arrived *)
Theorem C20_ns_eof_chunking_independent : forall max fills fills',
  concat fills = concat fills' ->
  fst (ns_read_all max fills) = fst (ns_read_all max fills') /\
  (snd (fst (ns_read_all max fills)) = NsEndEof -> ns_read_all max fills = ns_read_all max fills').
Proof. exact ns_eof_chunking_independent. Qed.
Print Assumptions C20_ns_eof_chunking_independent.

(* StatusNeedData after the last fill: at most once (the call that finds the buffered remainder incomplete; the next one
   looks at the stream), never when the reader is about to look at the stream; the call that is told "end of stream"
   answers StatusEof, and so does every later call *)
Theorem C20_ns_eof_no_need_after_end : forall max,
  (forall n c, ns_eof c = false -> (ns_count_need (fst (ns_loop n max c [])) <= (if ns_must c then 0 else 1))%nat) /\
  (forall c, ns_eof c = false -> ns_must c = true ->
             ns_ctx_read max c None = (NsStEof, {| ns_buf := ns_buf c; ns_must := true; ns_eof := true |})) /\
  (forall c fill, ns_eof c = true -> ns_ctx_read max c fill = (NsStEof, c)).
Proof.
  intros max. split; [exact (ns_need_after_last_fill max)|]. split; [exact (ns_end_seen_is_eof max)|exact (ns_eof_latched max)].
Qed.
Print Assumptions C20_ns_eof_no_need_after_end.

(* ---- netstring, AsioTlsStream variants (JSON-RPC connections) ---- *)
(* strictness: accepted is exactly what the writer writes (canonical decimal length below 10^9 within the limit,
   ':' payload ','), every other prefix is an error or still incomplete *)
Theorem C20_ns_strict : forall max input p rest,
  ns_read_stream max input = NsSOk p rest <->
  (input = ns_write p ++ rest /\ ns_len p < 10 ^ 9 /\ (max < 0 \/ ns_len p <= max)).
Proof. exact ns_stream_strict. Qed.
Print Assumptions C20_ns_strict.

Theorem C20_ns_stream_total : forall max input,
  (exists p rest, ns_read_stream max input = NsSOk p rest) \/
  (exists e rest, ns_read_stream max input = NsSErr e rest /\ 1 <= e <= 6) \/
  ns_read_stream max input = NsSShort.
Proof. exact ns_stream_total. Qed.
Print Assumptions C20_ns_stream_total.

(* the limit (1 MiB for unauthenticated peers) is enforced before the payload: whatever follows the header,
   the frame is rejected after at most 10 bytes, nothing of the payload is consumed, nothing is allocated *)
Theorem C20_ns_limit : forall max n tail,
  0 <= max < n -> n < 10 ^ 9 ->
  ns_read_stream max (ns_dec n ++ ns_colon :: tail) = NsSErr ns_e_max tail /\
  ns_stream_alloc max (ns_dec n ++ ns_colon :: tail) = 0 /\
  ns_len (ns_dec n) + 1 <= 10.
Proof. exact ns_stream_limit_rejects. Qed.
Print Assumptions C20_ns_limit.

Theorem C20_ns_limit_only : forall max input rest,
  ns_read_stream max input = NsSErr ns_e_max rest ->
  exists n, 0 <= max < n /\ n < 10 ^ 9 /\ input = ns_dec n ++ ns_colon :: rest /\ ns_len (ns_dec n) + 1 <= 10.
Proof. exact ns_stream_limit_only. Qed.
Print Assumptions C20_ns_limit_only.

Theorem C20_ns_alloc_bounded : forall max input, 0 <= max -> 0 <= ns_stream_alloc max input <= max.
Proof. exact ns_stream_alloc_bounded. Qed.
Print Assumptions C20_ns_alloc_bounded.

(* ---- writer and readers, with the limits AS THEY STAND IN THE SOURCE (Facts_c20, regenerated on every run) ----
   cd_src_limits = (digits every reader accepts in a length prefix, maxMessageLength of the file readers, of a connection with
   an endpoint, of an anonymous connection); it is None unless the writer is recognised as the plain, limit-free
   `stream << len << ":" << str << ","`, all three digit tests and limit tests have the shape the model has, and every caller of
   the buffered reader passes the default limit.  Everything the writer emits for a payload below 10^digits bytes is accepted by
   the file readers and by an endpoint's connection and gives back the payload; an anonymous connection accepts it exactly up to
   its limit and refuses it by the limit test beyond. *)
Theorem C20_writer_reader_limits_agree :
  match cd_src_limits with
  | None => True
  | Some (digits, filemax, epmax, anonmax) =>
      forall p rest, ns_len p < 10 ^ digits ->
        ns_parse filemax (ns_write p ++ rest) = NsItem p rest /\
        ns_read_stream epmax (ns_write p ++ rest) = NsSOk p rest /\
        (ns_len p <= anonmax -> ns_read_stream anonmax (ns_write p ++ rest) = NsSOk p rest) /\
        (anonmax < ns_len p -> exists tl, ns_read_stream anonmax (ns_write p ++ rest) = NsSErr ns_e_max tl)
  end.
Proof. exact cd_limits_agree. Qed.
Print Assumptions C20_writer_reader_limits_agree.

(* the limits are recognised in the source as it stands (not vacuous), and they are the ones the model has *)
Theorem C20_source_limits : cd_src_limits = Some (9, -1, -1, 1048576).
Proof. vm_compute. reflexivity. Qed.
Print Assumptions C20_source_limits.

(* the other side of the nine-digit rule: the writer has no limit, so for a payload of 10^9 bytes it emits a ten-digit
   header - which every reader refuses, whatever follows and whatever its limit (asymmetry; such a message is 1 GB) *)
Theorem C20_ns_writer_beyond_readers : forall max tail,
  ns_parse max (ns_dec (10 ^ 9) ++ ns_colon :: tail) = NsErr ns_e_toolong /\
  (exists tl, ns_read_stream max (ns_dec (10 ^ 9) ++ ns_colon :: tail) = NsSErr ns_e_toolong tl).
Proof. exact cd_writer_beyond_readers. Qed.
Print Assumptions C20_ns_writer_beyond_readers.

(* ---- the executable oracles run over implementation traces accept every trace of the model ---- *)
Theorem C20_oracle_buffered_accepts_model : forall max chunks c idx,
  ns_oracle_buffered max c idx (ns_model_feeds max c chunks) = None.
Proof. exact ns_oracle_buffered_accepts_model. Qed.
Print Assumptions C20_oracle_buffered_accepts_model.

Theorem C20_oracle_frames_accepts_model : forall max frames chunks,
  ns_oracle_frames max frames (ns_model_feeds max ns_ctx_init chunks) = true.
Proof. exact ns_oracle_frames_accepts_model. Qed.
Print Assumptions C20_oracle_frames_accepts_model.

Theorem C20_oracle_eof_accepts_model : forall max fills,
  let '(items, e, size) := ns_read_all max fills in
  ns_oracle_eof max (concat fills) items (ns_end_code e) size 1 = true.
Proof. exact ns_oracle_eof_accepts_model. Qed.
Print Assumptions C20_oracle_eof_accepts_model.

(* the expectation of the writer-boundary oracle (payloads built inside the harness, sizes around 10^k) is what the model does on
   EVERY payload of that length: header, total length, and - below 10^9 bytes - the payload comes back through the buffered reader
   up to StatusEof / through the TLS reader iff the limit allows it, otherwise the reader throws "Max data length exceeded" *)
Theorem C20_ns_writer_boundaries : forall max p,
  let n := ns_len p in
  ns_write p = (ns_dec n ++ [ns_colon]) ++ p ++ [ns_comma] /\
  ns_len (ns_write p) = ns_len (ns_dec n) + n + 2 /\
  (ns_wbig_back false max n = true -> ns_read_all max [ns_write p] = ([p], NsEndEof, 0)) /\
  (ns_wbig_back true max n = true -> ns_read_stream max (ns_write p) = NsSOk p []) /\
  (n < 10 ^ 9 -> ns_wbig_back false max n = false -> fst (ns_read_all max [ns_write p]) = ([], NsEndErr ns_e_max)) /\
  (n < 10 ^ 9 -> ns_wbig_back true max n = false -> exists tl, ns_read_stream max (ns_write p) = NsSErr ns_e_max tl).
Proof. exact ns_wbig_sound. Qed.
Print Assumptions C20_ns_writer_boundaries.

Theorem C20_oracle_stream_accepts_model : forall max input,
  let '(fs, e, r) := nss_run (S (length input)) max input in nss_oracle max input fs e r 0 = true.
Proof. exact nss_oracle_accepts_model. Qed.
Print Assumptions C20_oracle_stream_accepts_model.

(* ---- JSON ---- *)
(* UTF-8: utf8::internal::validate_next decodes what utf8::append wrote, for every Unicode scalar value, whatever follows *)
Theorem C20_utf8_decode_encode : forall cp rest,
  js_scalar cp -> js_utf8_next (js_utf8_enc cp ++ rest) = JsU8Ok cp (length (js_utf8_enc cp)).
Proof. exact js_utf8_next_enc. Qed.
Print Assumptions C20_utf8_decode_encode.

(* Utility::ValidateUTF8 does not touch well-formed UTF-8 *)
Theorem C20_json_sanitize_identity : forall cps, Forall js_scalar cps -> js_sanitize (js_utf8_of cps) = js_utf8_of cps.
Proof. exact js_sanitize_valid. Qed.
Print Assumptions C20_json_sanitize_identity.

(* \uXXXX as printed by the serializer is read back by get_codepoint *)
Theorem C20_json_hex4 : forall x rest, 0 <= x < 65536 -> js_unhex4 (js_hex4 x ++ rest) = Some (x, rest).
Proof. exact js_unhex4_hex4. Qed.
Print Assumptions C20_json_hex4.

(* C20 for values: the receiver decodes a value equal to the sender's.  For ALL values of the data model -
   null, booleans, integers up to 2^53 (JsNum), other finite doubles (JsFlt), strings and keys of well-formed UTF-8
   over all of Unicode, arrays, key-sorted duplicate-free dictionaries - nested no deeper than the limit of the decoder.
   binary64 printing (nlohmann Grisu2) and parsing (strtod + isfinite) are parameters of the model; what is assumed
   about them are the three premises below (parse inverts print; what is printed is one JSON number token that is
   not an integer literal; it is ASCII and starts with '-' or a digit).  They are exhibited on every generated
   double by the correspondence run, not proved. *)
Theorem C20_json_roundtrip :
  forall (js_flt : Type) (js_fprint : js_flt -> list Z) (js_fparse : list Z -> option js_flt) (js_lim : option Z),
  (forall x, js_fparse (js_fprint x) = Some x) ->
  (forall x rest, match rest with [] => True | b :: _ => b = 44 \/ b = 93 \/ b = 125 end ->
                  js_lex_num (js_fprint x ++ rest) = Some (js_fprint x, false, rest)) ->
  (forall x, exists b t, js_fprint x = b :: t /\ (b = 45 \/ 48 <= b <= 57) /\ Forall (fun c => 0 <= c < 128) (b :: t)) ->
  forall v : js_value js_flt,
  js_wf js_flt v -> js_sorted js_flt v -> js_fits js_flt js_lim 0 v ->
  js_decode js_flt js_fparse js_lim (js_encode js_flt js_fprint v) = Some v.
Proof. exact js_roundtrip. Qed.
Print Assumptions C20_json_roundtrip.

(* without any hypothesis: values whose numbers are integers up to 2^53 (no JsFlt: the float type is empty) *)
Theorem C20_json_roundtrip_integers : forall (js_lim : option Z) (v : js_value Empty_set),
  js_wf _ v -> js_sorted _ v -> js_fits _ js_lim 0 v ->
  js_decode Empty_set (fun _ => None) js_lim (js_encode Empty_set (fun x => match x with end) v) = Some v.
Proof. exact js_roundtrip_integers. Qed.
Print Assumptions C20_json_roundtrip_integers.

(* the property's quantifier (nesting to depth 64) is inside the decoder's limit as it stands in the source *)
Theorem C20_json_depth64_fits : forall (js_flt : Type) (v : js_value js_flt),
  js_depth _ v <= 64 -> js_fits _ f_js_max_depth 0 v.
Proof. exact js_depth64_fits. Qed.
Print Assumptions C20_json_depth64_fits.

(* the nesting limit of JsonDecode as it stands in the source now (regenerated fact): the property's own round-trip
   quantifier (nesting to depth 64) lies inside it.  (None = the guard is not in the source: no limit in the model.) *)
Theorem C20_json_depth_covers_quantifier : match f_js_max_depth with Some m => 64 < m | None => True end.
Proof. vm_compute. reflexivity. Qed.
Print Assumptions C20_json_depth_covers_quantifier.

(* the SECOND decoder (JsonDecodeTrusted, /repo fix 9f18442): ConfigObject::RestoreObject reads the state file with it.
   With the facts of the source as it stands - RestoreObject uses JsonDecodeTrusted, whose SAX handlers have no nesting
   guard, and JsonEncode has none either - the decoder of the state file accepts WHATEVER JsonEncode writes, at any depth
   (no js_fits premise; the other premises are those of C20_json_roundtrip) *)
Theorem C20_json_restore_decoder_accepts_encoder :
  match f_js_restore_trusted, f_js_trusted_max_depth, f_js_encode_unlimited with
  | Some true, Some lim, Some true =>
      forall (js_flt : Type) (js_fprint : js_flt -> list Z) (js_fparse : list Z -> option js_flt),
      (forall x, js_fparse (js_fprint x) = Some x) ->
      (forall x rest, match rest with [] => True | b :: _ => b = 44 \/ b = 93 \/ b = 125 end ->
                      js_lex_num (js_fprint x ++ rest) = Some (js_fprint x, false, rest)) ->
      (forall x, exists b t, js_fprint x = b :: t /\ (b = 45 \/ 48 <= b <= 57) /\ Forall (fun c => 0 <= c < 128) (b :: t)) ->
      forall v : js_value js_flt, js_wf js_flt v -> js_sorted js_flt v ->
      js_decode js_flt js_fparse lim (js_encode js_flt js_fprint v) = Some v
  | _, _, _ => True
  end.
Proof. exact cd_json_trusted. Qed.
Print Assumptions C20_json_restore_decoder_accepts_encoder.

Theorem C20_source_json_decoders :
  f_js_restore_trusted = Some true /\ f_js_trusted_max_depth = Some None /\ f_js_encode_unlimited = Some true.
Proof. repeat split. Qed.
Print Assumptions C20_source_json_decoders.

(* why the second decoder exists: arrays nested one deeper than the network limit are written by JsonEncode, read back by the
   decoder without limit, refused by the network decoder; at the limit both read them back *)
Theorem C20_json_depth_contrast :
  let enc := js_encode Empty_set (fun f => match f with end) in
  let dec := js_decode Empty_set (fun _ => None) in
  match f_js_max_depth with
  | Some m =>
      dec None (enc (cd_nest (Z.to_nat m))) = Some (cd_nest (Z.to_nat m)) /\
      dec (Some m) (enc (cd_nest (Z.to_nat m))) = None /\
      dec (Some m) (enc (cd_nest (Z.to_nat m - 1))) = Some (cd_nest (Z.to_nat m - 1))
  | None => True
  end.
Proof. exact cd_json_depth_contrast. Qed.
Print Assumptions C20_json_depth_contrast.

(* whole values: kernel-evaluated instances only (floats instantiated by an empty type: integers only) *)
Example C20_json_roundtrip_examples :
  let dec := js_decode Empty_set (fun _ => None) f_js_max_depth in
  let enc := js_encode Empty_set (fun f => match f with end) in
  forallb (fun v => match dec (enc v) with Some v' => cd_bytes_eqb (enc v') (enc v) | None => false end)
    [ JsNull _; JsBool _ true; JsNum _ 0; JsNum _ (-9007199254740992); JsNum _ 18446744073709549568;
      JsStr _ [0; 31; 34; 92; 127; 195; 164; 240; 159; 152; 128; 239; 191; 189];
      JsArr _ []; JsObj _ [];
      JsObj _ [([], JsArr _ [JsNull _; JsNum _ (-1); JsObj _ [([97], JsStr _ []); ([98], JsArr _ [JsArr _ []])]]);
               ([10; 34], JsBool _ false)] ] = true /\
  dec [91; 49; 44; 93] = None /\ dec [123; 34; 97; 34; 58; 49; 44; 34; 97; 34; 58; 50; 125] = Some (JsObj _ [([97], JsNum _ 2)]) /\
  dec [34; 92; 117; 100; 56; 48; 48; 34] = None /\ dec [48; 49] = None /\ dec [91; 93; 0; 120] = Some (JsArr _ []).
Proof. vm_compute. repeat split. Qed.

(* the JSON oracles run over implementation traces accept what the model computes: the round-trip oracle for every value
   of the data model (same premises as C20_json_roundtrip, float comparison reflexive), the hostile-input oracle always *)
Theorem C20_oracle_json_accepts_model :
  forall (js_flt : Type) (js_fprint : js_flt -> list Z) (js_fparse : list Z -> option js_flt) (js_lim : option Z)
         (js_feqb : js_flt -> js_flt -> bool) (js_fofz : Z -> js_flt),
  (forall x, js_feqb x x = true) ->
  (forall x, js_fparse (js_fprint x) = Some x) ->
  (forall x rest, match rest with [] => True | b :: _ => b = 44 \/ b = 93 \/ b = 125 end ->
                  js_lex_num (js_fprint x ++ rest) = Some (js_fprint x, false, rest)) ->
  (forall x, exists b t, js_fprint x = b :: t /\ (b = 45 \/ 48 <= b <= 57) /\ Forall (fun c => 0 <= c < 128) (b :: t)) ->
  forall v : js_value js_flt,
  js_wf js_flt v -> js_sorted js_flt v -> js_fits js_flt js_lim 0 v ->
  js_oracle_rt js_flt js_feqb js_fofz v (js_decode js_flt js_fparse js_lim (js_encode js_flt js_fprint v)) = true.
Proof. exact js_oracle_rt_accepts_model. Qed.
Print Assumptions C20_oracle_json_accepts_model.

Theorem C20_oracle_json_hostile_accepts_model :
  forall (js_flt : Type) (js_fparse : list Z -> option js_flt) (js_lim : option Z)
         (js_feqb : js_flt -> js_flt -> bool) (js_fofz : Z -> js_flt),
  (forall x, js_feqb x x = true) ->
  forall input, js_oracle_dec js_flt js_fparse js_lim js_feqb js_fofz input (js_decode js_flt js_fparse js_lim input) = true.
Proof. exact js_oracle_dec_accepts_model. Qed.
Print Assumptions C20_oracle_json_hostile_accepts_model.

(* non-vacuity: two frames (one empty) cut in the middle of a length prefix and of a payload *)
Example C20_nonvacuous :
  let ps := [[104; 105]; []] in
  concat [[50]; [58; 104]; [105; 44; 48]; [58; 44]] = concat (map ns_write ps) /\
  ns_feed_all (-1) ns_ctx_init [[50]; [58; 104]; [105; 44; 48]; [58; 44]]
    = (ps, {| ns_buf := []; ns_must := true; ns_eof := false |}, None) /\
  ns_read_stream 1 [50; 58; 104; 105; 44] = NsSErr ns_e_max [104; 105; 44] /\
  ns_read_stream (-1) [48; 49; 58; 104; 44] = NsSErr ns_e_lead0 [58; 104; 44].
Proof. vm_compute. repeat split. Qed.

(* non-vacuity, end of stream: "2:hi," then a frame cut inside its payload, inside its header, before its terminator
   -> the first frame, StatusEof, the remainder in the buffer; a malformed remainder -> the first frame, exception *)
Example C20_eof_nonvacuous :
  ns_read_all (-1) [[50; 58; 104]; [105; 44; 51; 58; 97]] = ([[104; 105]], NsEndEof, 3) /\
  ns_read_all (-1) [[50; 58; 104; 105; 44; 49]] = ([[104; 105]], NsEndEof, 1) /\
  ns_read_all (-1) [[50; 58; 104; 105; 44; 49; 58; 97]] = ([[104; 105]], NsEndEof, 3) /\
  ns_read_all (-1) [[50; 58; 104; 105; 44; 10]] = ([[104; 105]], NsEndEof, 1) /\
  fst (ns_read_all (-1) [[50; 58; 104; 105; 44]; []; [49; 58; 97; 59]]) = ([[104; 105]], NsEndErr ns_e_nocomma) /\
  fst (ns_loop 100 (-1) ns_ctx_init [[50; 58; 104; 105; 44; 49]]) = [NsStNew [104; 105]; NsStNeed; NsStEof].
Proof. vm_compute. repeat split. Qed.
