(* C15 - "acyclic store => no DaCycle", part 2: built-in functions and the evaluator (see DslAcyclic.v). *)
From Coq Require Import ZArith List String Ascii Bool Lia.
From Icv Require Import Dsl.DslDefs Dsl.DslOps Dsl.DslJson Dsl.DslEval Dsl.DslAcyclic Codec.JsModel.
Import ListNotations.
Local Open Scope string_scope.

(* ------------------------------------------------------------------ built-in functions *)
Definition dsl_cycP (o : dsl_out) : Prop := fst o = DrAbort DaCycle -> dsl_cyc_in (snd o).

Lemma dsl_cycP_val : forall v st, dsl_cycP (DrVal v, st). Proof. intros v st H. discriminate H. Qed.
Lemma dsl_cycP_err : forall k st, dsl_cycP (DrErr k, st). Proof. intros k st H. discriminate H. Qed.
Lemma dsl_cycP_err' : forall k st, dsl_cycP (dsl_err k st). Proof. intros k st H. discriminate H. Qed.
Lemma dsl_cycP_dom : forall st, dsl_cycP (DrAbort DaDomain, st). Proof. intros st H. discriminate H. Qed.
Lemma dsl_cycP_new_arr : forall st xs, dsl_cycP (dsl_new_arr st xs). Proof. intros st xs H. discriminate H. Qed.
Lemma dsl_cycP_new_dict : forall st xs, dsl_cycP (dsl_new_dict st xs). Proof. intros st xs H. discriminate H. Qed.

Lemma dsl_cycP_with_str : forall st v k, (forall s, dsl_cycP (k s)) -> dsl_cycP (dsl_with_str st v k).
Proof.
  intros st v k Hk. unfold dsl_with_str. destruct (dsl_to_string st v) as [s|e|a] eqn:E; [apply Hk | apply dsl_cycP_err |].
  intros H. cbn in *. inversion H; subst. exists v. apply dsl_to_string_cyc. exact E.
Qed.

Lemma dsl_cycP_with_num : forall st v k, (forall m e, dsl_cycP (k m e)) -> dsl_cycP (dsl_with_num st v k).
Proof.
  intros st v k Hk. unfold dsl_with_num. destruct (dsl_to_double st v) as [[]|e|a] eqn:E; try apply dsl_cycP_dom; try apply dsl_cycP_err; [apply Hk|].
  intros H. cbn in *. inversion H; subst. exists v. apply dsl_to_double_cyc. exact E.
Qed.

Lemma dsl_cycP_with_int : forall st v k, (forall m, dsl_cycP (k m)) -> dsl_cycP (dsl_with_int st v k).
Proof.
  intros st v k Hk. unfold dsl_with_int. destruct (dsl_to_int st v) as [[]|e|a] eqn:E; try apply dsl_cycP_dom; try apply dsl_cycP_err; [apply Hk|].
  intros H. cbn in *. inversion H; subst. exists v. apply dsl_to_int_cyc. exact E.
Qed.

Lemma dsl_cycP_arity : forall n args st k, dsl_cycP k -> dsl_cycP (dsl_arity n args st k).
Proof. intros. unfold dsl_arity. destruct (Nat.eqb _ _); [assumption | apply dsl_cycP_err']. Qed.

Lemma dsl_getfield_nc : forall st c f, dsl_getfield st c f <> PrAbort DaCycle.
Proof. intros st c f H. unfold dsl_getfield, dsl_opt_native in H. destruct c; split_hyp H. Qed.

Lemma dsl_ns_set_nc : forall st l f v c, fst (dsl_ns_set st l f v c) <> PrAbort DaCycle.
Proof. intros st l f v c H. unfold dsl_ns_set in H. split_hyp H. Qed.

Lemma dsl_ns_remove_nc : forall st l f, fst (dsl_ns_remove st l f) <> PrAbort DaCycle.
Proof. intros st l f H. unfold dsl_ns_remove in H. split_hyp H. Qed.

Lemma dsl_setfield_nc : forall st c f v, fst (dsl_setfield st c f v) <> PrAbort DaCycle.
Proof.
  intros st c f v H. unfold dsl_setfield in H. destruct c; try (split_hyp H; fail).
  exact (dsl_ns_set_nc _ _ _ _ _ H).
Qed.

Lemma dsl_cycP_ret_getfield : forall st c f st', dsl_cycP (dsl_ret (dsl_getfield st c f) st').
Proof.
  intros st c f st' H. unfold dsl_ret in H. cbn [fst] in H. exfalso.
  destruct (dsl_getfield st c f) eqn:E; cbn in H; try discriminate. inversion H; subst. exact (dsl_getfield_nc _ _ _ E).
Qed.

Lemma dsl_cycP_of_pres : forall (r : dsl_pres * dsl_store), fst r <> PrAbort DaCycle -> dsl_cycP (dsl_lift (fst r), snd r).
Proof. intros [p s] N H. cbn in *. destruct p; cbn in H; try discriminate. inversion H; subst. congruence. Qed.

Lemma dsl_isect_args_nc : forall st rest a r, dsl_isect_args st rest a r <> LrAbort DaCycle.
Proof.
  induction rest as [|x t IH]; intros a r H; [discriminate H|].
  cbn [dsl_isect_args] in H.
  destruct (dsl_sorted a); [|destruct (dsl_mixed_throws a); discriminate].
  destruct (dsl_to_arrptr st x); try discriminate.
  destruct (dsl_sorted xs); [|destruct (dsl_mixed_throws xs); discriminate].
  destruct (_ && _); [destruct (dsl_mixed_throws _); discriminate|].
  exact (IH _ _ H).
Qed.

Ltac cyc_step :=
  first
  [ apply dsl_cycP_val | apply dsl_cycP_err | apply dsl_cycP_err' | apply dsl_cycP_dom | apply dsl_cycP_new_arr | apply dsl_cycP_new_dict
  | apply dsl_cycP_ret_getfield
  | apply dsl_cycP_arity
  | (apply dsl_cycP_with_str; intros ?s)
  | (apply dsl_cycP_with_num; intros ?m ?e)
  | (apply dsl_cycP_with_int; intros ?m)
  | match goal with |- dsl_cycP (if ?c then _ else _) => destruct c end
  | match goal with |- dsl_cycP (match ?x with _ => _ end) => destruct x end
  | match goal with |- dsl_cycP (let '(_, _) := ?x in _) => destruct x end ].

Lemma dsl_cycP_join : forall a0 xs first acc st,
  dsl_cycP ((fix go (xs : list dsl_val) (first : bool) (acc : dsl_val) (st : dsl_store) : dsl_out :=
           match xs with
           | [] => (DrVal acc, st)
           | x :: t =>
               let '(p1, st1) := if first then (PrVal acc, st) else dsl_binop_eval st DbAdd acc a0 in
               match p1 with
               | PrVal acc1 =>
                   let '(p2, st2) := dsl_binop_eval st1 DbAdd acc1 x in
                   match p2 with PrVal acc2 => go t false acc2 st2 | o => (dsl_lift o, st2) end
               | o => (dsl_lift o, st1)
               end
           end) xs first acc st).
Proof.
  induction xs as [|x t IH]; intros first acc st; [apply dsl_cycP_val|].
  assert (B : forall s a b, dsl_cycP (dsl_lift (fst (dsl_binop_eval s DbAdd a b)), snd (dsl_binop_eval s DbAdd a b))).
  { intros s a b H. cbn [fst snd] in *. apply dsl_binop_cyc. destruct (fst (dsl_binop_eval s DbAdd a b)); cbn in H; try discriminate. congruence. }
  destruct first.
  - pose proof (B st acc x) as B2. destruct (dsl_binop_eval st DbAdd acc x) as [p2 st2]. cbn [fst snd] in B2.
    destruct p2; try exact B2. apply IH.
  - pose proof (B st acc a0) as B1. destruct (dsl_binop_eval st DbAdd acc a0) as [p1 st1]. cbn [fst snd] in B1.
    destruct p1; try exact B1.
    pose proof (B st1 v x) as B2. destruct (dsl_binop_eval st1 DbAdd v x) as [p2 st2]. cbn [fst snd] in B2.
    destruct p2; try exact B2. apply IH.
Qed.


Lemma dsl_cycP_json_encode : forall st v, dsl_cycP (dsl_json_encode st v).
Proof. intros st v H. apply dsl_json_encode_cyc. exact H. Qed.
Lemma dsl_cycP_json_decode : forall st s, dsl_cycP (dsl_json_decode st s).
Proof. intros st s H. exfalso. exact (dsl_json_decode_nc _ _ H). Qed.
Lemma dsl_cycP_ns_set : forall st l f v c, dsl_cycP (dsl_lift (fst (dsl_ns_set st l f v c)), snd (dsl_ns_set st l f v c)).
Proof. intros. apply dsl_cycP_of_pres. apply dsl_ns_set_nc. Qed.
Lemma dsl_cycP_ns_remove : forall st l f, dsl_cycP (dsl_lift (fst (dsl_ns_remove st l f)), snd (dsl_ns_remove st l f)).
Proof. intros. apply dsl_cycP_of_pres. apply dsl_ns_remove_nc. Qed.
Lemma dsl_cycP_setfield : forall st c f v, dsl_cycP (dsl_lift (fst (dsl_setfield st c f v)), snd (dsl_setfield st c f v)).
Proof. intros. apply dsl_cycP_of_pres. apply dsl_setfield_nc. Qed.

Lemma dsl_cycP_contains : forall st xs v,
  dsl_cycP (match dsl_contains st xs v with Some b => (DrVal (DvBool b), st) | None => (DrAbort DaCycle, st) end).
Proof.
  intros st xs v H. destruct (dsl_contains st xs v) eqn:E; [discriminate H|]. cbn [snd]. eapply dsl_contains_none_cyclic. exact E.
Qed.

Lemma dsl_cycP_isect : forall st rest xs,
  dsl_cycP (match dsl_isect_args st rest xs [] with
            | LrOk r => dsl_new_arr st r | LrErr => dsl_err DkType st | LrAbort r => (DrAbort r, st) end).
Proof.
  intros st rest xs H. destruct (dsl_isect_args st rest xs []) eqn:E; try discriminate H.
  cbn in H. inversion H; subst. exfalso. exact (dsl_isect_args_nc _ _ _ _ E).
Qed.

Lemma dsl_cycP_match_go : forall st mode (m1 : string -> option bool) xs,
  dsl_cycP ((fix go (xs : list dsl_val) : dsl_out :=
             match xs with
             | [] => (DrVal (DvBool (mode =? 0)%Z), st)
             | x :: t =>
                 dsl_with_str st x (fun text =>
                   match m1 text with
                   | None => (DrAbort DaDomain, st)
                   | Some r =>
                       if (mode =? 1)%Z && r then (DrVal (DvBool true), st)
                       else if (mode =? 0)%Z && negb r then (DrVal (DvBool false), st)
                       else go t
                   end)
             end) xs).
Proof.
  intros st mode m1. induction xs as [|x t IH]; [apply dsl_cycP_val|].
  apply dsl_cycP_with_str. intros s. destruct (m1 s); [|apply dsl_cycP_dom].
  destruct (_ && _); [apply dsl_cycP_val|]. destruct (_ && _); [apply dsl_cycP_val|]. exact IH.
Qed.

Ltac cyc_step2 :=
  first
  [ apply dsl_cycP_json_encode | apply dsl_cycP_json_decode | apply dsl_cycP_ns_set | apply dsl_cycP_ns_remove | apply dsl_cycP_setfield
  | apply dsl_cycP_contains | apply dsl_cycP_isect | apply dsl_cycP_match_go | apply dsl_cycP_join
  | cyc_step ].

Ltac nat_case H args :=
  cbn [dsl_native_simple] in H; cbv zeta in H;
  first [ discriminate H | injection H as <- | (destruct args as [|? ?]; injection H as <-) ];
  unfold dsl_ret; repeat cyc_step2.

Definition dsl_cycPo (o : option dsl_out) : Prop := match o with Some r => dsl_cycP r | None => True end.

Lemma dsl_native_range_cyc : forall st self args, dsl_cycPo (dsl_native_simple st DnRange self args).
Proof.
  intros st self args.
  cbn [dsl_native_simple dsl_cycPo]. cbv zeta.
  destruct args as [|a [|b [|c [|d t]]]]; try apply dsl_cycP_err'.
  all: (apply dsl_cycP_with_num; intros m1 e1; apply dsl_cycP_with_num; intros m2 e2; apply dsl_cycP_with_num; intros m3 e3).
  all: (destruct e1; [|apply dsl_cycP_dom]; destruct e2; [|apply dsl_cycP_dom]; destruct e3; [|apply dsl_cycP_dom]).
  all: (destruct (_ || _); [apply dsl_cycP_new_arr|]; destruct (_ =? _)%Z; [apply dsl_cycP_new_arr|]; destruct (_ <? _)%Z; [apply dsl_cycP_dom | apply dsl_cycP_new_arr]).
Qed.

Lemma dsl_native_match_cyc : forall st self args, dsl_cycPo (dsl_native_simple st DnMatch self args).
Proof.
  intros st self args.
  cbn [dsl_native_simple dsl_cycPo]. cbv zeta.
  destruct args as [|a [|b t]]; try apply dsl_cycP_err'.
  apply dsl_cycP_with_str; intros pat.
  cbn [dsl_arg nth].
  destruct b; try apply dsl_cycP_err'.
  all: (destruct t as [|c t]; [|apply dsl_cycP_with_int; intros mode]).
  all: cbn [dsl_is_obj].
  all: repeat cyc_step2.
Qed.

Lemma dsl_native_simple_cyc : forall st n self args, dsl_cycPo (dsl_native_simple st n self args).
Proof.
  intros st n self args.
  destruct n; try apply dsl_native_range_cyc; try apply dsl_native_match_cyc;
    cbn [dsl_native_simple dsl_cycPo]; cbv zeta; try exact I;
    try (destruct args as [|? ?]; cbn [dsl_cycPo]);
    unfold dsl_ret; timeout 60 (repeat cyc_step2).
Qed.

(* ------------------------------------------------------------------ the evaluator *)
Lemma dsl_cycP_other : forall r st, (forall a, r <> DrAbort a) -> dsl_cycP (r, st).
Proof. intros r st N H. cbn in H. exfalso. exact (N _ H). Qed.

Ltac cyc_triv := first [ apply dsl_cycP_val | apply dsl_cycP_err | apply dsl_cycP_err' | apply dsl_cycP_dom
                       | (apply dsl_cycP_other; intros ?a; discriminate) | (let Hx := fresh "Hx" in intros Hx; discriminate Hx) ].

Section Cyc.
Variable ev : dsl_evaluator.
Hypothesis HE : forall fr st e, dsl_cycP (ev fr st e).

Ltac ev_case :=
  match goal with |- context [ev ?fr ?st ?e] =>
    let P := fresh "P" in pose proof (HE fr st e) as P; destruct (ev fr st e) as [[?v|?k| | |?v|?a] ?s] end.

Ltac cyc_go :=
  repeat first
  [ cyc_step2
  | cyc_triv
  | assumption
  | ev_case ].

Definition dsl_cycP3 {A} (t : dsl_res * dsl_store * A) : Prop := dsl_cycP (fst t).

Lemma dsl_eval_list_cyc : forall es fr st, dsl_cycP3 (dsl_eval_list ev fr st es).
Proof.
  induction es as [|e t IH]; intros fr st; unfold dsl_cycP3 in *; cbn [dsl_eval_list fst]; [apply dsl_cycP_val|].
  ev_case; cbn [fst]; try assumption; try cyc_triv.
  pose proof (IH fr s) as Q. destruct (dsl_eval_list ev fr s t) as [[r s2] l]. cbn [fst] in *.
  destruct r; cbn [fst]; try assumption; cyc_triv.
Qed.

Lemma dsl_cycP_bind : forall r k, dsl_cycP r -> (forall v s, dsl_cycP (k v s)) -> dsl_cycP (dsl_bind r k).
Proof. intros [[v|x| | |v|a] s] k Hr Hk; cbn [dsl_bind]; try exact Hr. apply Hk. Qed.

Lemma dsl_eval_seq_cyc : forall es fr st last, dsl_cycP (dsl_eval_seq ev fr st es last).
Proof.
  induction es as [|e t IH]; intros fr st last; cbn [dsl_eval_seq]; [apply dsl_cycP_val|].
  apply dsl_cycP_bind; [apply HE | intros; apply IH].
Qed.

Lemma dsl_eval_closed_cyc : forall cs fr st, dsl_cycP3 (dsl_eval_closed ev fr st cs).
Proof.
  induction cs as [|[k e] t IH]; intros fr st; unfold dsl_cycP3 in *; cbn [dsl_eval_closed fst]; [apply dsl_cycP_val|].
  ev_case; cbv zeta; cbn [fst]; try assumption; try cyc_triv;
  (pose proof (IH fr s) as Q; destruct (dsl_eval_closed ev fr s t) as [[r s2] l]; cbn [fst] in *;
   destruct r; cbn [fst]; try assumption; cyc_triv).
Qed.

Lemma dsl_while_cyc : forall L fr st c b, dsl_cycP (dsl_while ev L fr st c b).
Proof.
  induction L as [|L IH]; intros fr st c b; cbn [dsl_while]; [cyc_triv|].
  apply dsl_cycP_bind; [apply HE|]. intros v s. destruct (negb _); [cyc_triv|].
  ev_case; try assumption; try cyc_triv; apply IH.
Qed.

Lemma dsl_for_arr_cyc : forall L fr st k l i b, dsl_cycP (dsl_for_arr ev L fr st k l i b).
Proof.
  induction L as [|L IH]; intros fr st k l i b; cbn [dsl_for_arr]; [cyc_triv|]. cbv zeta.
  destruct (Nat.leb _ _); [cyc_triv|].
  ev_case; try assumption; try cyc_triv; apply IH.
Qed.

Lemma dsl_for_keys_cyc : forall keys fr st k v l isns b, dsl_cycP (dsl_for_keys ev fr st k v l isns keys b).
Proof.
  induction keys as [|key rest IH]; intros fr st k v l isns b; cbn [dsl_for_keys]; [cyc_triv|]. cbv zeta.
  destruct (dsl_for_fetch _ _ _ _); [|cyc_triv].
  ev_case; try assumption; try cyc_triv; apply IH.
Qed.

Lemma dsl_fun_result_cyc : forall o, dsl_cycP o -> dsl_cycP (dsl_fun_result o).
Proof. intros [[v|x| | |v|a] s] H; cbn [dsl_fun_result]; try exact H; cyc_triv. Qed.

Lemma dsl_call_user_cyc : forall st l self args, dsl_cycP (dsl_call_user ev st l self args).
Proof.
  intros st l self args. unfold dsl_call_user.
  destruct (dsl_sget st l) as [[| | | |params closed body]|]; try cyc_triv.
  destruct (Nat.ltb _ _); [cyc_triv|]. destruct (dsl_alloc _ _). apply dsl_fun_result_cyc. apply HE.
Qed.

Lemma dsl_callback_cyc : forall st f args, dsl_cycP (dsl_callback ev st f args).
Proof.
  intros st f args. unfold dsl_callback. destruct f; try cyc_triv; [apply dsl_call_user_cyc|].
  pose proof (dsl_native_simple_cyc st n (DvNs dsl_globals_loc) args) as Q.
  destruct (dsl_native_simple st n (DvNs dsl_globals_loc) args); [exact Q | cyc_triv].
Qed.

Definition dsl_cycP4 (t : dsl_res * dsl_store * list dsl_val * bool) : Prop := dsl_cycP (fst (fst t)).

Lemma dsl_iter_cyc : forall L mode f l i st acc, dsl_cycP4 (dsl_iter ev mode f l L i st acc).
Proof.
  induction L as [|L IH]; intros mode f l i st acc; unfold dsl_cycP4 in *; cbn [dsl_iter fst]; [cyc_triv|]. cbv zeta.
  destruct (Nat.leb _ _); [cbn [fst]; cyc_triv|].
  pose proof (dsl_callback_cyc st f [nth i (dsl_arr st l) DvEmpty]) as Q.
  destruct (dsl_callback ev st f [nth i (dsl_arr st l) DvEmpty]) as [[v|x| | |v|a] s]; cbn [fst]; try exact Q; try cyc_triv.
  destruct mode; try apply IH;
  (destruct (dsl_to_double s v) as [[]|x|a] eqn:E; cbn [fst]; try cyc_triv;
   [ match goal with |- context [if ?c then _ else _] => destruct c end; cbn [fst]; try cyc_triv; apply IH
   | intros Hx; cbn in Hx; inversion Hx; subst; exists v; apply dsl_to_double_cyc; exact E ]).
Qed.

Lemma dsl_reduce_cyc : forall L f l i acc st, dsl_cycP (dsl_reduce ev L f l i acc st).
Proof.
  induction L as [|L IH]; intros f l i acc st; cbn [dsl_reduce]; [cyc_triv|]. cbv zeta.
  destruct (Nat.leb _ _); [cyc_triv|].
  apply dsl_cycP_bind; [apply dsl_callback_cyc | intros; apply IH].
Qed.

Lemma dsl_native_call_cyc : forall L st n self args, dsl_cycP (dsl_native_call ev L st n self args).
Proof.
  intros L st n self args. unfold dsl_native_call.
  pose proof (dsl_native_simple_cyc st n self args) as Q.
  destruct (dsl_native_simple st n self args); [exact Q|].
  apply dsl_cycP_arity. destruct self; try cyc_triv. unfold dsl_need_fun.
  destruct (dsl_arg args 0); try cyc_triv;
  (destruct n; try cyc_triv;
   try (match goal with |- context [dsl_iter ev ?m ?f ?l ?LL ?i ?s ?acc] =>
          pose proof (dsl_iter_cyc LL m f l i s acc) as R; unfold dsl_cycP4 in R;
          destruct (dsl_iter ev m f l LL i s acc) as [[[r s1] a1] b1]; cbn [fst] in R; destruct r; try exact R; cyc_triv end);
   try (destruct (dsl_arr st l); [cyc_triv | apply dsl_reduce_cyc])).
Qed.

Lemma dsl_invoke_cyc : forall L st f self args, dsl_cycP (dsl_invoke ev L st f self args).
Proof.
  intros. unfold dsl_invoke. cbv zeta. destruct f; try cyc_triv; [apply dsl_call_user_cyc | apply dsl_native_call_cyc].
Qed.

Definition dsl_cycPi (r : dsl_impres) : Prop := match r with IrOut o => dsl_cycP o | _ => True end.
Definition dsl_cycPr (r : dsl_refres) : Prop := match r with RrOut o => dsl_cycP o | _ => True end.

Lemma dsl_find_import_cyc : forall imps fr st x, dsl_cycPi (dsl_find_import ev fr st imps x).
Proof.
  induction imps as [|i t IH]; intros fr st x; cbn [dsl_find_import]; [exact I|].
  ev_case; cbv zeta; cbn [dsl_cycPi]; try assumption; try cyc_triv;
  try (match goal with |- dsl_cycPi (match ?v with _ => _ end) => destruct v end; cbn [dsl_cycPi]; try cyc_triv;
       match goal with |- context [if ?c then _ else _] => destruct c end; cbn [dsl_cycPi]; first [exact I | apply IH]).
Qed.

Lemma dsl_var_read_cyc : forall imps fr st x, dsl_cycP (dsl_var_read ev fr st imps x).
Proof.
  intros. unfold dsl_var_read. destruct (dsl_dget _ _); [cyc_triv|]. destruct (dsl_self_has _ _ _); [apply dsl_cycP_ret_getfield|].
  pose proof (dsl_find_import_cyc imps fr st x) as Q. destruct (dsl_find_import ev fr st imps x); cbn [dsl_cycPi] in Q;
  [apply dsl_cycP_ret_getfield | | exact Q].
  destruct (dsl_sysval x); [cyc_triv|]. destruct (dsl_types x); [cyc_triv|]. destruct (dsl_dget _ _); cyc_triv.
Qed.

Lemma dsl_var_ref_cyc : forall imps fr st x, dsl_cycPr (dsl_var_ref ev fr st imps x).
Proof.
  intros. unfold dsl_var_ref. destruct (dsl_dhas _ _); [exact I|]. destruct (dsl_self_has _ _ _); [exact I|].
  pose proof (dsl_find_import_cyc imps fr st x) as Q. destruct (dsl_find_import ev fr st imps x); cbn [dsl_cycPi dsl_cycPr] in *;
  [exact I | | exact Q].
  destruct (dsl_sysval x); [exact I|]. destruct (dsl_types x); [exact I|]. destruct (dsl_dhas _ _); exact I.
Qed.

Ltac cyc_leaf :=
  let Hx := fresh "Hx" in intros Hx; cbn in Hx; inversion Hx; subst; clear Hx; cbn [snd];
  repeat match goal with H : (if ?c then _ else _) = _ |- _ => destruct c; try discriminate H end;
  first
  [ exfalso; eapply dsl_getfield_nc; eassumption
  | exfalso; match goal with H : dsl_setfield _ _ _ _ = _ |- _ => apply (f_equal fst) in H; cbn in H; exact (dsl_setfield_nc _ _ _ _ H) end
  | exfalso; match goal with H : dsl_ns_set _ _ _ _ _ = _ |- _ => apply (f_equal fst) in H; cbn in H; exact (dsl_ns_set_nc _ _ _ _ _ H) end
  | eexists; eapply dsl_to_string_cyc; eassumption
  | eexists; eapply dsl_to_double_cyc; eassumption
  | match goal with H : dsl_binop_eval ?s ?op ?a ?b = _ |- _ =>
      let B := fresh in pose proof (dsl_binop_cyc s op a b) as B; rewrite H in B; cbn in B; apply B; reflexivity end
  | eapply dsl_contains_none_cyclic; eassumption
  | (eexists; eassumption) ].

Ltac ref_go :=
  repeat first
  [ exact I | assumption | cyc_triv
  | apply dsl_cycP_ret_getfield
  | match goal with |- dsl_cycPr (RrOut _) => cbn [dsl_cycPr] end
  | match goal with |- dsl_cycPr (RrOk _ _ _) => exact I end
  | match goal with |- dsl_cycP (dsl_lift ?p, ?s) => destruct p; cbn [dsl_lift] end
  | match goal with |- dsl_cycPr (if ?c then _ else _) => destruct c eqn:? end
  | match goal with |- dsl_cycPr (match ?x with _ => _ end) =>
      lazymatch x with context [ev] => fail | _ => idtac end; destruct x eqn:? end
  | match goal with |- dsl_cycPr (let '(_, _) := ?x in _) =>
      lazymatch x with context [ev] => fail | _ => idtac end; destruct x eqn:? end
  | ev_case
  | cyc_leaf ].

Lemma dsl_ref_cyc : forall e fr st init, dsl_cycPr (dsl_ref ev fr st e init).
Proof.
  induction e; intros fr st init; try exact I; cbn [dsl_ref]; try apply dsl_var_ref_cyc.
  - cbv zeta. pose proof (IHe1 fr st init) as Q.
    destruct (dsl_ref ev fr st e1 init) as [vp vi s1| |o]; cbn [dsl_cycPr] in Q; [| |exact Q].
    + timeout 60 ref_go.
    + timeout 60 ref_go.
  - timeout 60 ref_go.
Qed.

Lemma dsl_cycP_ret_mknum : forall m e s, dsl_cycP (dsl_ret (dsl_mknum m e) s).
Proof.
  intros m e s H. unfold dsl_ret in H. cbn [fst] in H. exfalso.
  destruct (dsl_mknum m e) eqn:E; cbn in H; try discriminate. inversion H; subst. exact (dsl_mknum_nc _ _ E).
Qed.

Lemma dsl_ctor_cyc : forall st t args, dsl_cycP (dsl_ctor st t args).
Proof. intros st t args. unfold dsl_ctor. destruct t; repeat cyc_step2. Qed.

Ltac noev x := lazymatch x with context [ev] => fail | _ => idtac end.

Ltac do_go L :=
  repeat first
  [ cyc_triv | assumption
  | apply dsl_cycP_ret_getfield | apply dsl_cycP_ret_mknum | apply dsl_ctor_cyc | apply dsl_cycP_new_arr | apply dsl_cycP_new_dict
  | apply dsl_var_read_cyc | apply dsl_eval_seq_cyc | apply dsl_while_cyc | apply dsl_for_arr_cyc | apply dsl_for_keys_cyc
  | apply dsl_invoke_cyc | apply dsl_cycP_contains
  | (apply dsl_cycP_with_str; intros ?s)
  | (apply dsl_cycP_with_num; intros ?m ?e)
  | (apply dsl_cycP_bind; [first [apply HE | apply dsl_eval_seq_cyc] | intros ?v ?s])
  | match goal with |- dsl_cycP (dsl_lift ?p, ?s) => destruct p; cbn [dsl_lift] end
  | match goal with |- context [dsl_ref ev ?fr ?st ?e ?i] =>
      let Q := fresh "Q" in pose proof (dsl_ref_cyc e fr st i) as Q;
      destruct (dsl_ref ev fr st e i) as [?vp ?vi ?s| |?o]; cbn [dsl_cycPr] in Q end
  | match goal with |- context [dsl_eval_list ev ?fr ?st ?es] =>
      let Q := fresh "Q" in pose proof (dsl_eval_list_cyc es fr st) as Q; unfold dsl_cycP3 in Q;
      destruct (dsl_eval_list ev fr st es) as [[[?v|?k| | |?v|?a] ?s] ?vs]; cbn [fst] in Q end
  | match goal with |- context [dsl_eval_closed ev ?fr ?st ?cs] =>
      let Q := fresh "Q" in pose proof (dsl_eval_closed_cyc cs fr st) as Q; unfold dsl_cycP3 in Q;
      destruct (dsl_eval_closed ev fr st cs) as [[[?v|?k| | |?v|?a] ?s] ?vs]; cbn [fst] in Q end
  | match goal with |- dsl_cycP (if ?c then _ else _) => noev c; destruct c eqn:? end
  | match goal with |- dsl_cycP (match ?x with _ => _ end) => noev x; destruct x eqn:? end
  | match goal with |- dsl_cycP (let '(_, _) := ?x in _) => noev x; destruct x eqn:? end
  | ev_case
  | cyc_leaf ].

Lemma dsl_do_cyc : forall L fr st e, dsl_cycP (dsl_do L ev fr st e).
Proof.
  intros L fr st e.
  destruct e; cbn [dsl_do]; cbv zeta.
  all: timeout 120 (do_go L).
Qed.
End Cyc.

(* every evaluation: the abort DaCycle implies that a container reachable from itself exists in the store the evaluation
   ends with (an abort leaves the evaluator with the store of the moment it was raised) *)
Theorem dsl_eval_cyc : forall L g fr st e, dsl_cycP (dsl_eval L g fr st e).
Proof.
  intros L g. induction g as [|g IH]; intros fr st e; cbn [dsl_eval]; [cyc_triv|].
  apply dsl_do_cyc. exact IH.
Qed.

Corollary dsl_acyclic_no_cycle_abort : forall L g fr st e,
  dsl_acyclic_store (snd (dsl_eval L g fr st e)) -> fst (dsl_eval L g fr st e) <> DrAbort DaCycle.
Proof.
  intros L g fr st e Hac H. exact (dsl_acyclic_not_cyc_in _ Hac (dsl_eval_cyc L g fr st e H)).
Qed.

