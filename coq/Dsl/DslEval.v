(* C15 - the interpreter: built-in functions, GetReference, DoEvaluate of every node
   (lib/config/expression.cpp, vmops.hpp, lib/base/*-script.cpp, scriptutils.cpp).  No proofs here.

   Recursion structure.  Every Expression::Evaluate increments ScriptFrame::Depth and throws above 300;
   a callee's frame inherits the caller's depth.  So the remaining depth budget [g] = 300 - Depth
   strictly decreases along every chain of nested Evaluate calls and is the structural argument of
   [dsl_eval]; g = 0 is exactly "Stack overflow while evaluating expression".  What does NOT nest
   Evaluate calls are the iterations of while/for: they take the separate per-loop budget [L]
   ([DaFuel] when exceeded).  DoEvaluate of one node is [dsl_do], parametrised by the evaluator
   [ev] used for sub-expressions and callee bodies. *)
From Coq Require Import ZArith List String Ascii Bool.
From Icv Require Import Dsl.DslDefs Dsl.DslOps Dsl.DslJson.
Import ListNotations.
Local Open Scope string_scope.
Local Open Scope Z_scope.

Definition dsl_evaluator := dsl_frame -> dsl_store -> dsl_expr -> dsl_out.

Definition dsl_depth_limit : nat := 300.
Definition dsl_globals_loc : nat := 0.

Definition dsl_ret (p : dsl_pres) (st : dsl_store) : dsl_out := (dsl_lift p, st).
Definition dsl_numv (n : nat) : dsl_val := DvNum (Z.of_nat n) 0.
Definition dsl_err (k : dsl_errkind) (st : dsl_store) : dsl_out := (DrErr k, st).

(* CHECK_RESULT: continue with the value, or return any other result code unchanged *)
Definition dsl_bind (r : dsl_out) (k : dsl_val -> dsl_store -> dsl_out) : dsl_out :=
  match r with (DrVal v, st) => k v st | other => other end.

Definition dsl_with_str (st : dsl_store) (v : dsl_val) (k : string -> dsl_out) : dsl_out :=
  match dsl_to_string st v with SrOk s => k s | SrErr e => (DrErr e, st) | SrAbort a => (DrAbort a, st) end.

Definition dsl_with_num (st : dsl_store) (v : dsl_val) (k : Z -> nat -> dsl_out) : dsl_out :=
  match dsl_to_double st v with
  | PrVal (DvNum m e) => k m e
  | PrVal _ => (DrAbort DaDomain, st)
  | PrErr e => (DrErr e, st)
  | PrAbort a => (DrAbort a, st)
  end.

Definition dsl_with_int (st : dsl_store) (v : dsl_val) (k : Z -> dsl_out) : dsl_out :=
  match dsl_to_int st v with
  | PrVal (DvNum m _) => k m
  | PrVal _ => (DrAbort DaDomain, st)
  | PrErr e => (DrErr e, st)
  | PrAbort a => (DrAbort a, st)
  end.

Definition dsl_new_arr (st : dsl_store) (xs : list dsl_val) : dsl_out :=
  let '(st', l) := dsl_alloc st (DoArr xs) in (DrVal (DvArr l), st').
Definition dsl_new_dict (st : dsl_store) (kv : list (string * dsl_val)) : dsl_out :=
  let '(st', l) := dsl_alloc st (DoDict kv) in (DrVal (DvDict l), st').

(* FunctionWrapper: exact arity for fixed-arity natives *)
Definition dsl_arity (n : nat) (args : list dsl_val) (st : dsl_store) (k : dsl_out) : dsl_out :=
  if Nat.eqb (List.length args) n then k else dsl_err DkArg st.

Definition dsl_arg (args : list dsl_val) (i : nat) : dsl_val := nth i args DvEmpty.

(* insertion sort for homogeneous arrays (std::sort result is determined by the order alone) *)
Fixpoint dsl_ins_num (x : dsl_val) (xs : list dsl_val) : list dsl_val :=
  match xs with
  | [] => [x]
  | y :: t => match x, y with
              | DvNum m1 e1, DvNum m2 e2 => match dsl_ncmp m1 e1 m2 e2 with Gt => y :: dsl_ins_num x t | _ => x :: xs end
              | _, _ => x :: xs
              end
  end.
Fixpoint dsl_ins_str (x : dsl_val) (xs : list dsl_val) : list dsl_val :=
  match xs with
  | [] => [x]
  | y :: t => match x, y with
              | DvStr s1, DvStr s2 => match String.compare s1 s2 with Gt => y :: dsl_ins_str x t | _ => x :: xs end
              | _, _ => x :: xs
              end
  end.
Definition dsl_sorted (xs : list dsl_val) : option (list dsl_val) :=
  match xs with
  | [] | [_] => Some xs
  | _ => if forallb dsl_is_num xs then Some (fold_right dsl_ins_num [] xs)
         else if forallb (fun v => dsl_is_str v && negb (dsl_is_empty v)) xs then Some (fold_right dsl_ins_str [] xs)
         else None
  end.
Fixpoint dsl_dedup_sorted (st : dsl_store) (xs : list dsl_val) : list dsl_val :=
  match xs with
  | x :: ((y :: _) as t) =>
      match dsl_veq 2 st x y with Some true => dsl_dedup_sorted st t | _ => x :: dsl_dedup_sorted st t end
  | _ => xs
  end.

Fixpoint dsl_range_list (fuel : nat) (i stop step : Z) : list dsl_val :=
  match fuel with
  | O => []
  | S f => if (if 0 <? step then i <? stop else stop <? i) then DvNum i 0 :: dsl_range_list f (i + step) stop step else []
  end.

(* ---------------------------------------------------------------- typeof, union, intersection, match *)
(* Value::GetReflectionType *)
Definition dsl_typeof (v : dsl_val) : dsl_type :=
  match v with
  | DvEmpty => DtObject
  | DvNum _ _ => DtNumber
  | DvBool _ => DtBoolean
  | DvStr _ => DtString
  | DvArr _ => DtArray
  | DvDict _ => DtDictionary
  | DvNs _ | DvSys | DvJson | DvTypes => DtNamespace
  | DvFun _ | DvNat _ => DtFunction
  | DvType _ => DtType
  | DvRef _ => DtReference
  end.

(* Value -> Array::Ptr : null pointer for Empty, an exception for scalars ("" included) and other objects *)
Inductive dsl_aconv := AcNull | AcArr (xs : list dsl_val) | AcErr.
Definition dsl_to_arrptr (st : dsl_store) (v : dsl_val) : dsl_aconv :=
  match v with DvEmpty => AcNull | DvArr l => AcArr (dsl_arr st l) | _ => AcErr end.

(* the operands std::sort / std::set / set_intersection may compare with Value::operator< without an exception and with a
   strict weak order: numbers only, or non-empty strings only (as for Array#sort) *)
Definition dsl_homog (xs : list dsl_val) : bool :=
  forallb dsl_is_num xs || forallb (fun v => dsl_is_str v && negb (dsl_is_empty v)) xs.

(* numbers and non-empty strings only, both kinds present: operator< throws for every pair of unlike kinds, and any
   comparison sort / std::set insertion / set_intersection over such operands performs at least one unlike comparison
   (the first element of the other kind is compared with the tree's root; the comparison graph of a sort is connected) *)
Definition dsl_numstr_only (xs : list dsl_val) : bool :=
  forallb (fun v => dsl_is_num v || (dsl_is_str v && negb (dsl_is_empty v))) xs.
Definition dsl_mixed_throws (xs : list dsl_val) : bool :=
  dsl_numstr_only xs && existsb dsl_is_num xs && existsb dsl_is_str xs.

Definition dsl_vcmp (a b : dsl_val) : comparison :=
  match a, b with
  | DvNum m1 e1, DvNum m2 e2 => dsl_ncmp m1 e1 m2 e2
  | DvStr s1, DvStr s2 => String.compare s1 s2
  | _, _ => Eq
  end.

(* std::set_intersection on two sorted ranges *)
Fixpoint dsl_set_isect (fuel : nat) (xs ys : list dsl_val) : list dsl_val :=
  match fuel with
  | O => []
  | S f =>
      match xs, ys with
      | x :: xs', y :: ys' =>
          match dsl_vcmp x y with
          | Lt => dsl_set_isect f xs' ys
          | Gt => dsl_set_isect f xs ys'
          | Eq => x :: dsl_set_isect f xs' ys'
          end
      | _, _ => []
      end
  end.

(* ScriptUtils::Union: a std::set<Value> of all elements *)
Fixpoint dsl_union_collect (st : dsl_store) (args : list dsl_val) : option (list dsl_val) :=
  match args with
  | [] => Some []
  | a :: t =>
      match dsl_to_arrptr st a, dsl_union_collect st t with
      | AcErr, _ => None
      | _, None => None
      | AcNull, Some r => Some r
      | AcArr xs, Some r => Some (xs ++ r)%list
      end
  end.

Inductive dsl_lres := LrOk (xs : list dsl_val) | LrErr | LrAbort (a : dsl_abort).

(* ScriptUtils::Intersection, the loop over arguments 2..n.  [arr1] is the running left operand, [result] the array that
   is returned when a later argument is null.  Every step writes into a fresh array (fix b5e2da1; before it the running
   result doubled as the left input and was padded with nulls when the next array was longer). *)
Fixpoint dsl_isect_args (st : dsl_store) (rest : list dsl_val) (arr1 result : list dsl_val) : dsl_lres :=
  match rest with
  | [] => LrOk result
  | a :: t =>
      match dsl_sorted arr1 with
      | None => if dsl_mixed_throws arr1 then LrErr else LrAbort DaDomain
      | Some s1 =>
          match dsl_to_arrptr st a with
          | AcErr => LrErr
          | AcNull => LrOk result
          | AcArr ys =>
              match dsl_sorted ys with
              | None => if dsl_mixed_throws ys then LrErr else LrAbort DaDomain
              | Some s2 =>
                  if negb (Nat.eqb (List.length s1) 0) && negb (Nat.eqb (List.length s2) 0) && negb (dsl_homog (s1 ++ s2)) then
                    (if dsl_mixed_throws (s1 ++ s2) then LrErr else LrAbort DaDomain)
                  else let r := dsl_set_isect (S (List.length s1 + List.length s2)) s1 s2 in dsl_isect_args st t r r
              end
          end
      end
  end.

(* Utility::Match (third-party/mmatch match()): case-insensitive glob, `*` any sequence, `?` any one character,
   `\*` and `\?` literal; specification-style matcher (the C code is a backtracking implementation of it) *)
Definition dsl_ci_eqb (a b : ascii) : bool := Ascii.eqb (dsl_lower_c a) (dsl_lower_c b).

Fixpoint dsl_glob (p : string) : string -> bool :=
  match p with
  | EmptyString => fun s => match s with EmptyString => true | _ => false end
  | String c p' =>
      if Ascii.eqb c "*" then
        (fix star (s : string) : bool :=
           dsl_glob p' s || match s with String _ t => star t | EmptyString => false end)
      else if Ascii.eqb c "?" then
        fun s => match s with String _ t => dsl_glob p' t | EmptyString => false end
      else
        match p' with
        | String c2 p'' =>
            if Ascii.eqb c "\" && (Ascii.eqb c2 "*" || Ascii.eqb c2 "?") then
              fun s => match s with String d t => dsl_ci_eqb d c2 && dsl_glob p'' t | EmptyString => false end
            else fun s => match s with String d t => dsl_ci_eqb d c && dsl_glob p' t | EmptyString => false end
        | EmptyString => fun s => match s with String d t => dsl_ci_eqb d c && dsl_glob p' t | EmptyString => false end
        end
  end.

(* C strings and tolower(): only 7-bit text without NUL is followed *)
Definition dsl_plain7 (s : string) : bool :=
  negb (dsl_str_any (fun c => let n := N_of_ascii c in (n =? 0)%N || (127 <? n)%N) s).

(* ---------------------------------------------------------------- natives that never call back *)
Definition dsl_native_simple (st : dsl_store) (n : dsl_native) (self : dsl_val) (args : list dsl_val) : option dsl_out :=
  let a0 := dsl_arg args 0 in
  let a1 := dsl_arg args 1 in
  let on_arr (k : nat -> list dsl_val -> dsl_out) : dsl_out :=
      match self with DvArr l => k l (dsl_arr st l) | _ => dsl_err DkType st end in
  let on_dict (k : nat -> list (string * dsl_val) -> dsl_out) : dsl_out :=
      match self with DvDict l => k l (dsl_kv st l) | _ => dsl_err DkType st end in
  (* static_cast<Namespace::Ptr>(vframe->Self): the frozen built-in namespaces are not followed *)
  let on_ns (k : nat -> list (string * dsl_val) -> dsl_out) : dsl_out :=
      match self with
      | DvNs l => k l (dsl_kv st l)
      | DvSys | DvJson | DvTypes => (DrAbort DaDomain, st)
      | _ => dsl_err DkType st
      end in
  let of_pres (r : dsl_pres * dsl_store) : dsl_out := (dsl_lift (fst r), snd r) in
  match n with
  (* ---- String ---- *)
  | DnStrLen => Some (dsl_with_str st self (fun s => (DrVal (dsl_numv (String.length s)), st)))
  | DnStrToString => Some (dsl_with_str st self (fun s => (DrVal (DvStr s), st)))
  | DnStrUpper => Some (dsl_with_str st self (fun s => (DrVal (DvStr (dsl_smap dsl_upper_c s)), st)))
  | DnStrLower => Some (dsl_with_str st self (fun s => (DrVal (DvStr (dsl_smap dsl_lower_c s)), st)))
  | DnStrReverse => Some (dsl_with_str st self (fun s => (DrVal (DvStr (dsl_srev s "")), st)))
  | DnStrTrim => Some (dsl_with_str st self (fun s => (DrVal (DvStr (dsl_trim s)), st)))
  | DnStrSubstr =>
      Some (dsl_with_str st self (fun s =>
        match args with
        | [] => dsl_err DkArg st
        | _ =>
          dsl_with_num st a0 (fun m e =>
            if (m <? 0) || negb (match dsl_ncmp m e (Z.of_nat (String.length s)) 0 with Lt => true | _ => false end)
            then dsl_err DkRange st
            else
              let start := Z.to_nat (dsl_trunc m e) in
              match args with
              | [_] => (DrVal (DvStr (dsl_drop start s)), st)
              | _ => dsl_with_num st a1 (fun m2 e2 =>
                       if m2 <? 0 then (DrAbort DaDomain, st)
                       else (DrVal (DvStr (String.substring start (Z.to_nat (dsl_trunc m2 e2)) s)), st))
              end)
        end))
  | DnStrSplit =>
      Some (dsl_arity 1 args st (dsl_with_str st a0 (fun d => dsl_with_str st self (fun s =>
              dsl_new_arr st (map DvStr (dsl_split d s ""))))))
  | DnStrFind =>
      Some (dsl_with_str st self (fun s =>
        match args with
        | [] => dsl_err DkArg st
        | [_] => dsl_with_str st a0 (fun p =>
                   (DrVal (match dsl_find p s 0 with Some i => dsl_numv i | None => DvNum (-1) 0 end), st))
        | _ => dsl_with_num st a1 (fun m e =>
                 if m <? 0 then dsl_err DkRange st
                 else dsl_with_str st a0 (fun p =>
                   (DrVal (match dsl_find p s (Z.to_nat (dsl_trunc m e)) with Some i => dsl_numv i | None => DvNum (-1) 0 end), st)))
        end))
  | DnStrContains =>
      Some (dsl_arity 1 args st (dsl_with_str st a0 (fun p => dsl_with_str st self (fun s =>
              (DrVal (DvBool (match dsl_find p s 0 with Some _ => true | None => false end)), st)))))
  | DnStrReplace =>
      Some (dsl_arity 2 args st (dsl_with_str st a0 (fun p => dsl_with_str st a1 (fun r => dsl_with_str st self (fun s =>
              if String.eqb p "" then (DrAbort DaDomain, st)
              else let res := dsl_replace (S (String.length s)) p r s in
                   if Nat.ltb dsl_size_cap (String.length res) then (DrAbort DaDomain, st) else (DrVal (DvStr res), st))))))
  (* ---- Array ---- *)
  | DnArrLen => Some (on_arr (fun _ xs => (DrVal (dsl_numv (List.length xs)), st)))
  | DnArrSet =>
      Some (dsl_arity 2 args st (dsl_with_int st a0 (fun i => on_arr (fun l xs =>
              if (i <? 0) || (Z.of_nat (List.length xs) <=? i) then dsl_err DkRange st
              else (DrVal DvEmpty, dsl_sset st l (DoArr (dsl_lset xs (Z.to_nat i) a1)))))))
  | DnArrGet =>
      Some (dsl_arity 1 args st (dsl_with_int st a0 (fun i => on_arr (fun _ xs =>
              if (i <? 0) || (Z.of_nat (List.length xs) <=? i) then dsl_err DkRange st
              else (DrVal (nth (Z.to_nat i) xs DvEmpty), st)))))
  | DnArrAdd => Some (dsl_arity 1 args st (on_arr (fun l xs => (DrVal DvEmpty, dsl_sset st l (DoArr (xs ++ [a0])%list)))))
  | DnArrRemove =>
      Some (dsl_arity 1 args st (dsl_with_int st a0 (fun i => on_arr (fun l xs =>
              if (i <? 0) || (Z.of_nat (List.length xs) <=? i) then dsl_err DkRange st
              else (DrVal DvEmpty, dsl_sset st l (DoArr (firstn (Z.to_nat i) xs ++ skipn (S (Z.to_nat i)) xs)%list))))))
  | DnArrContains =>
      Some (dsl_arity 1 args st (on_arr (fun _ xs =>
              match dsl_contains st xs a0 with Some b => (DrVal (DvBool b), st) | None => (DrAbort DaCycle, st) end)))
  | DnArrClear => Some (on_arr (fun l _ => (DrVal DvEmpty, dsl_sset st l (DoArr []))))
  | DnArrSort =>
      match args with
      | [] => Some (on_arr (fun _ xs => match dsl_sorted xs with Some r => dsl_new_arr st r | None => (DrAbort DaDomain, st) end))
      | _ => Some (DrAbort DaDomain, st)       (* user comparator: the call sequence of std::sort is not modelled *)
      end
  | DnArrClone => Some (on_arr (fun _ xs => dsl_new_arr st xs))
  | DnArrReverse => Some (on_arr (fun _ xs => dsl_new_arr st (rev xs)))
  | DnArrUnique =>
      Some (on_arr (fun _ xs => match dsl_sorted xs with
                               | Some r => dsl_new_arr st (dsl_dedup_sorted st r)
                               | None => (DrAbort DaDomain, st) end))
  | DnArrJoin =>
      Some (dsl_arity 1 args st (on_arr (fun _ xs =>
        (fix go (xs : list dsl_val) (first : bool) (acc : dsl_val) (st : dsl_store) : dsl_out :=
           match xs with
           | [] => (DrVal acc, st)
           | x :: t =>
               let '(p1, st1) := if first then (PrVal acc, st) else dsl_binop_eval st DbAdd acc a0 in
               match p1 with
               | PrVal acc1 =>
                   let '(p2, st2) := dsl_binop_eval st1 DbAdd acc1 x in
                   match p2 with PrVal acc2 => go t false acc2 st2 | o => (dsl_lift o, st2) end
               | o => (dsl_lift o, st1)
               end
           end) xs true DvEmpty st)))
  (* ---- Dictionary ---- *)
  | DnDictLen => Some (on_dict (fun _ kv => (DrVal (dsl_numv (List.length kv)), st)))
  | DnDictSet => Some (dsl_arity 2 args st (dsl_with_str st a0 (fun k => on_dict (fun l kv =>
                   (DrVal DvEmpty, dsl_sset st l (DoDict (dsl_dset k a1 kv)))))))
  | DnDictGet => Some (dsl_arity 1 args st (dsl_with_str st a0 (fun k => on_dict (fun _ kv =>
                   (DrVal (match dsl_dget k kv with Some v => v | None => DvEmpty end), st)))))
  | DnDictRemove => Some (dsl_arity 1 args st (dsl_with_str st a0 (fun k => on_dict (fun l kv =>
                   (DrVal DvEmpty, dsl_sset st l (DoDict (dsl_dremove k kv)))))))
  | DnDictClear => Some (on_dict (fun l _ => (DrVal DvEmpty, dsl_sset st l (DoDict []))))
  | DnDictContains => Some (dsl_arity 1 args st (dsl_with_str st a0 (fun k => on_dict (fun _ kv =>
                   (DrVal (DvBool (dsl_dhas k kv)), st)))))
  | DnDictClone => Some (on_dict (fun _ kv => dsl_new_dict st kv))
  | DnDictKeys => Some (on_dict (fun _ kv => dsl_new_arr st (map (fun p => DvStr (fst p)) kv)))
  | DnDictValues => Some (on_dict (fun _ kv => dsl_new_arr st (map snd kv)))
  (* ---- Number / Boolean / Object ---- *)
  | DnNumToString => Some (dsl_with_str st self (fun s => (DrVal (DvStr s), st)))
  | DnBoolToString =>
      Some (match self with
            | DvBool b => (DrVal (DvStr (if b then "true" else "false")), st)
            | DvArr _ | DvDict _ | DvNs _ | DvFun _ | DvNat _ | DvSys | DvType _ | DvRef _ | DvJson | DvTypes => dsl_err DkType st
            | _ => dsl_with_num st self (fun m _ => (DrVal (DvStr (if m =? 0 then "false" else "true")), st))
            end)
  | DnObjToString => Some (dsl_with_str st self (fun s => (DrVal (DvStr s), st)))
  (* ---- System ---- *)
  | DnLen =>
      Some (dsl_arity 1 args st
        (match a0 with
         | DvDict l => (DrVal (dsl_numv (List.length (dsl_kv st l))), st)
         | DvArr l => (DrVal (dsl_numv (List.length (dsl_arr st l))), st)
         | DvStr s => (DrVal (dsl_numv (String.length s)), st)
         | _ => (DrVal (DvNum 0 0), st)
         end))
  | DnKeys =>
      Some (dsl_arity 1 args st
        (match a0 with
         | DvDict l | DvNs l => dsl_new_arr st (map (fun p => DvStr (fst p)) (dsl_kv st l))
         | DvEmpty | DvArr _ | DvFun _ | DvNat _ | DvType _ | DvRef _ => dsl_new_arr st []
         | DvSys | DvTypes => (DrAbort DaDomain, st)
         | DvJson => dsl_new_arr st [DvStr "decode"; DvStr "encode"]
         | _ => dsl_err DkType st
         end))
  | DnRange =>
      let mk (start stop step : dsl_val) : dsl_out :=
        dsl_with_num st start (fun m1 e1 => dsl_with_num st stop (fun m2 e2 => dsl_with_num st step (fun m3 e3 =>
          match e1, e2, e3 with
          | O, O, O =>
              if ((m1 <? m2) && (m3 <=? 0)) || ((m2 <? m1) && (0 <=? m3)) then dsl_new_arr st []
              else if m3 =? 0 then dsl_new_arr st []
              else if 2000 <? Z.abs (m2 - m1) then (DrAbort DaDomain, st)
              else dsl_new_arr st (dsl_range_list 2001 m1 m2 m3)
          | _, _, _ => (DrAbort DaDomain, st)
          end))) in
      Some (match args with
            | [a] => mk (DvNum 0 0) a (DvNum 1 0)
            | [a; b] => mk a b (DvNum 1 0)
            | [a; b; c] => mk a b c
            | _ => dsl_err DkArg st
            end)
  | DnString => Some (dsl_arity 1 args st (dsl_with_str st a0 (fun s => (DrVal (DvStr s), st))))
  | DnNumber => Some (dsl_arity 1 args st (dsl_with_num st a0 (fun m e => (DrVal (DvNum m e), st))))
  | DnBool => Some (dsl_arity 1 args st (DrVal (DvBool (dsl_to_bool st a0)), st))
  | DnTypeOf => Some (dsl_arity 1 args st (DrVal (DvType (dsl_typeof a0)), st))
  | DnUnion =>
      Some (match dsl_union_collect st args with
            | None => dsl_err DkType st
            | Some xs =>
                match xs with
                | [] | [_] => dsl_new_arr st xs
                | _ => if dsl_homog xs then
                         match dsl_sorted xs with
                         | Some r => dsl_new_arr st (dsl_dedup_sorted st r)
                         | None => (DrAbort DaDomain, st)
                         end
                       else if dsl_mixed_throws xs then dsl_err DkType st
                       else (DrAbort DaDomain, st)       (* the comparison sequence of the red-black tree decides whether operator< throws *)
                end
            end)
  | DnIntersection =>
      Some (match args with
            | [] => dsl_new_arr st []
            | a :: rest =>
                match dsl_to_arrptr st a with
                | AcErr => dsl_err DkType st
                | AcNull => dsl_new_arr st []
                | AcArr xs =>
                    match dsl_isect_args st rest xs [] with
                    | LrOk r => dsl_new_arr st r
                    | LrErr => dsl_err DkType st
                    | LrAbort r => (DrAbort r, st)
                    end
                end
            end)
  | DnMatch =>
      Some (match args with
            | [] | [_] => dsl_err DkArg st
            | _ =>
              let a2 := dsl_arg args 2 in
              dsl_with_str st a0 (fun pat =>
                match a1 with
                | DvDict _ => dsl_err DkType st
                | _ =>
                  let with_mode (k : Z -> dsl_out) : dsl_out :=
                      match args with
                      | [_; _] => k 0
                      | _ => dsl_with_int st a2 k
                      end in
                  with_mode (fun mode =>
                    let m1 (text : string) : option bool :=
                        if dsl_plain7 pat && dsl_plain7 text then Some (dsl_glob pat text) else None in
                    if dsl_is_obj a1 then
                      match a1 with
                      | DvArr l =>
                          match dsl_arr st l with
                          | [] => (DrVal (DvBool false), st)
                          | xs =>
                              (fix go (xs : list dsl_val) : dsl_out :=
                                 match xs with
                                 | [] => (DrVal (DvBool (mode =? 0)), st)
                                 | x :: t =>
                                     dsl_with_str st x (fun text =>
                                       match m1 text with
                                       | None => (DrAbort DaDomain, st)
                                       | Some r =>
                                           if (mode =? 1) && r then (DrVal (DvBool true), st)
                                           else if (mode =? 0) && negb r then (DrVal (DvBool false), st)
                                           else go t
                                       end)
                                 end) xs
                          end
                      | _ => dsl_err DkType st                 (* bad_cast to Array::Ptr *)
                      end
                    else
                      dsl_with_str st a1 (fun text =>
                        match m1 text with Some r => (DrVal (DvBool r), st) | None => (DrAbort DaDomain, st) end))
                end)
            end)
  (* ---- Namespace ---- *)
  | DnNsSet => Some (dsl_arity 2 args st (dsl_with_str st a0 (fun k => on_ns (fun l _ => of_pres (dsl_ns_set st l k a1 false)))))
  | DnNsGet => Some (dsl_arity 1 args st (dsl_with_str st a0 (fun k => on_ns (fun _ kv =>
                 match dsl_dget k kv with Some v => (DrVal v, st) | None => dsl_err DkName st end))))
  | DnNsRemove => Some (dsl_arity 1 args st (dsl_with_str st a0 (fun k => on_ns (fun l _ => of_pres (dsl_ns_remove st l k)))))
  | DnNsContains => Some (dsl_arity 1 args st (dsl_with_str st a0 (fun k => on_ns (fun _ kv => (DrVal (DvBool (dsl_dhas k kv)), st)))))
  | DnNsKeys => Some (on_ns (fun _ kv => dsl_new_arr st (map (fun p => DvStr (fst p)) kv)))
  | DnNsValues => Some (on_ns (fun _ kv => dsl_new_arr st (map snd kv)))
  (* ---- Reference ---- *)
  | DnRefGet =>
      Some (dsl_arity 0 args st
        (match self with
         | DvRef l => match dsl_sget st l with
                      | Some (DoRef parent idx) => dsl_ret (dsl_getfield st parent idx) st
                      | _ => (DrAbort DaDomain, st)
                      end
         | _ => dsl_err DkType st
         end))
  | DnRefSet =>
      Some (dsl_arity 1 args st
        (match self with
         | DvRef l => match dsl_sget st l with
                      | Some (DoRef parent idx) => of_pres (dsl_setfield st parent idx a0)
                      | _ => (DrAbort DaDomain, st)
                      end
         | _ => dsl_err DkType st
         end))
  (* ---- Json ---- *)
  | DnJsonEncode => Some (dsl_arity 1 args st (dsl_json_encode st a0))
  | DnJsonDecode => Some (dsl_arity 1 args st (dsl_with_str st a0 (fun s => dsl_json_decode st s)))
  | DnArrMap | DnArrReduce | DnArrFilter | DnArrAny | DnArrAll => None
  end.

(* Function::Invoke / InvokeThis on a script function (VMOps::NewFunction's wrapper) *)
Fixpoint dsl_bind_args (params : list string) (args : list dsl_val) (kv : list (string * dsl_val)) : list (string * dsl_val) :=
  match params, args with
  | p :: ps, a :: ar => dsl_bind_args ps ar (dsl_dset p a kv)
  | _, _ => kv
  end.

Definition dsl_fun_result (r : dsl_out) : dsl_out :=
  match r with
  | (DrVal v, st) => (DrVal v, st)
  | (DrReturn v, st) => (DrVal v, st)
  | (DrBreak, st) | (DrContinue, st) => (DrVal DvEmpty, st)
  | other => other
  end.

Definition dsl_call_user (ev : dsl_evaluator) (st : dsl_store) (l : nat) (self : dsl_val) (args : list dsl_val) : dsl_out :=
  match dsl_sget st l with
  | Some (DoFun params closed body) =>
      if Nat.ltb (List.length args) (List.length params) then dsl_err DkArg st
      else
        let '(st1, loc) := dsl_alloc st (DoDict (dsl_bind_args params args (dsl_dmerge closed []))) in
        dsl_fun_result (ev {| dfr_locals := loc; dfr_self := self |} st1 body)
  | _ => dsl_err DkType st
  end.

(* function->Invoke({...}) from inside a built-in: this = the globals *)
Definition dsl_callback (ev : dsl_evaluator) (st : dsl_store) (f : dsl_val) (args : list dsl_val) : dsl_out :=
  match f with
  | DvFun l => dsl_call_user ev st l (DvNs dsl_globals_loc) args
  | DvNat n => match dsl_native_simple st n (DvNs dsl_globals_loc) args with Some r => r | None => (DrAbort DaDomain, st) end
  | _ => dsl_err DkType st
  end.

(* Array#map/filter/any/all (after fix 2c1ef52): index based, the length is re-read on every iteration, so a callback
   that resizes the array is well defined (and may loop forever: loop budget L).  filter/any/all test the callback's
   result with `if (Value)`, which is the conversion to double (not ToBool): a non-numeric string or a container
   result is an error. *)
Inductive dsl_itermode := DiMap | DiFilter | DiAny | DiAll.

Fixpoint dsl_iter (ev : dsl_evaluator) (mode : dsl_itermode) (f : dsl_val) (l : nat) (L : nat) (i : nat) (st : dsl_store)
         (acc : list dsl_val) : dsl_res * dsl_store * list dsl_val * bool :=
  match L with
  | O => (DrAbort DaFuel, st, acc, false)
  | S L' =>
      let xs := dsl_arr st l in
      if Nat.leb (List.length xs) i then (DrVal DvEmpty, st, acc, false)
      else
      let item := nth i xs DvEmpty in
      match dsl_callback ev st f [item] with
      | (DrVal r, st1) =>
            match mode with
            | DiMap => dsl_iter ev mode f l L' (S i) st1 (r :: acc)
            | _ =>
                match dsl_to_double st1 r with
                | PrVal (DvNum m _) =>
                    let t := negb (m =? 0) in
                    match mode with
                    | DiFilter => dsl_iter ev mode f l L' (S i) st1 (if t then item :: acc else acc)
                    | DiAny => if t then (DrVal DvEmpty, st1, acc, true) else dsl_iter ev mode f l L' (S i) st1 acc
                    | _ => if t then dsl_iter ev mode f l L' (S i) st1 acc else (DrVal DvEmpty, st1, acc, true)
                    end
                | PrVal _ => (DrAbort DaDomain, st1, acc, false)
                | PrErr k => (DrErr k, st1, acc, false)
                | PrAbort a => (DrAbort a, st1, acc, false)
                end
            end
      | (o, st1) => (o, st1, acc, false)
      end
  end.

Definition dsl_need_fun (st : dsl_store) (f : dsl_val) (k : dsl_out) : dsl_out :=
  match f with DvFun _ | DvNat _ => k | _ => dsl_err DkType st end.

Fixpoint dsl_reduce (ev : dsl_evaluator) (L : nat) (f : dsl_val) (l : nat) (i : nat) (acc : dsl_val) (st : dsl_store) : dsl_out :=
  match L with
  | O => (DrAbort DaFuel, st)
  | S L' =>
      let xs := dsl_arr st l in
      if Nat.leb (List.length xs) i then (DrVal acc, st)
      else dsl_bind (dsl_callback ev st f [acc; nth i xs DvEmpty]) (fun r st1 => dsl_reduce ev L' f l (S i) r st1)
  end.

Definition dsl_native_call (ev : dsl_evaluator) (L : nat) (st : dsl_store) (n : dsl_native) (self : dsl_val) (args : list dsl_val) : dsl_out :=
  match dsl_native_simple st n self args with
  | Some r => r
  | None =>
      let f := dsl_arg args 0 in
      dsl_arity 1 args st
        (match self with
         | DvArr l =>
             dsl_need_fun st f
               (let xs := dsl_arr st l in
                let n0 := List.length xs in
                match n with
                | DnArrMap =>
                    match dsl_iter ev DiMap f l L 0 st [] with
                    | (DrVal _, st1, acc, _) => dsl_new_arr st1 (rev acc)
                    | (o, st1, _, _) => (o, st1)
                    end
                | DnArrFilter =>
                    match dsl_iter ev DiFilter f l L 0 st [] with
                    | (DrVal _, st1, acc, _) => dsl_new_arr st1 (rev acc)
                    | (o, st1, _, _) => (o, st1)
                    end
                | DnArrAny =>
                    match dsl_iter ev DiAny f l L 0 st [] with
                    | (DrVal _, st1, _, stopped) => (DrVal (DvBool stopped), st1)
                    | (o, st1, _, _) => (o, st1)
                    end
                | DnArrAll =>
                    match dsl_iter ev DiAll f l L 0 st [] with
                    | (DrVal _, st1, _, stopped) => (DrVal (DvBool (negb stopped)), st1)
                    | (o, st1, _, _) => (o, st1)
                    end
                | DnArrReduce =>
                    match xs with
                    | [] => (DrVal DvEmpty, st)
                    | x :: _ => dsl_reduce ev L f l 1 x st
                    end
                | _ => (DrAbort DaDomain, st)
                end)
         | _ => dsl_err DkType st
         end)
  end.

(* VMOps::FunctionCall *)
Definition dsl_invoke (ev : dsl_evaluator) (L : nat) (st : dsl_store) (f self : dsl_val) (args : list dsl_val) : dsl_out :=
  let this := if negb (dsl_is_empty self) || dsl_is_str self then self else DvNs dsl_globals_loc in
  match f with
  | DvFun l => dsl_call_user ev st l this args
  | DvNat n => dsl_native_call ev L st n this args
  | _ => dsl_err DkType st
  end.

(* evaluate a list of expressions left to right (arguments, array elements) *)
Fixpoint dsl_eval_list (ev : dsl_evaluator) (fr : dsl_frame) (st : dsl_store) (es : list dsl_expr) : dsl_res * dsl_store * list dsl_val :=
  match es with
  | [] => (DrVal DvEmpty, st, [])
  | e :: t =>
      match ev fr st e with
      | (DrVal v, st1) =>
          match dsl_eval_list ev fr st1 t with
          | (DrVal x, st2, vs) => (DrVal x, st2, v :: vs)
          | o => o
          end
      | (o, st1) => (o, st1, [])
      end
  end.

(* a statement sequence (DictExpression body): value of the last statement *)
Fixpoint dsl_eval_seq (ev : dsl_evaluator) (fr : dsl_frame) (st : dsl_store) (es : list dsl_expr) (last : dsl_val) : dsl_out :=
  match es with
  | [] => (DrVal last, st)
  | e :: t => dsl_bind (ev fr st e) (fun v st1 => dsl_eval_seq ev fr st1 t v)
  end.

(* VMOps::EvaluateClosedVars: the result code of each expression is ignored, only exceptions propagate *)
Fixpoint dsl_eval_closed (ev : dsl_evaluator) (fr : dsl_frame) (st : dsl_store) (cs : list (string * dsl_expr))
  : dsl_res * dsl_store * list (string * dsl_val) :=
  match cs with
  | [] => (DrVal DvEmpty, st, [])
  | (k, e) :: t =>
      let '(r, st1) := ev fr st e in
      let cont (v : dsl_val) :=
          match dsl_eval_closed ev fr st1 t with
          | (DrVal x, st2, kvs) => (DrVal x, st2, (k, v) :: kvs)
          | o => o
          end in
      match r with
      | DrVal v | DrReturn v => cont v
      | DrBreak | DrContinue => cont DvEmpty
      | o => (o, st1, [])
      end
  end.

(* ---------------------------------------------------------------- variables and `using` imports *)
(* VMOps::FindVarImportRef over the imports added by `using` (textual order); the built-in imports System, Types follow.
   The result code of an import expression is ignored; its value is converted to Object::Ptr: a scalar throws, null is a
   script error as well (fix 9625736; before it the null pointer was dereferenced). *)
Inductive dsl_impres := IrFound (parent : dsl_val) (st : dsl_store) | IrNone (st : dsl_store) | IrOut (o : dsl_out).

Fixpoint dsl_find_import (ev : dsl_evaluator) (fr : dsl_frame) (st : dsl_store) (imps : list dsl_expr) (x : string) : dsl_impres :=
  match imps with
  | [] => IrNone st
  | i :: t =>
      let '(r, st1) := ev fr st i in
      let go (v : dsl_val) : dsl_impres :=
          match v with
          | DvEmpty => IrOut (DrErr DkType, st1)
          | DvFun _ | DvNat _ => IrOut (DrAbort DaDomain, st1)
          | DvNum _ _ | DvBool _ | DvStr _ => IrOut (DrErr DkType, st1)
          | _ => if dsl_has_own st1 v x then IrFound v st1 else dsl_find_import ev fr st1 t x
          end in
      match r with
      | DrVal v | DrReturn v => go v
      | DrBreak | DrContinue => go DvEmpty
      | o => IrOut (o, st1)
      end
  end.

Definition dsl_self_has (fr : dsl_frame) (st : dsl_store) (x : string) : bool :=
  match dfr_self fr with
  | DvDict l => negb (Nat.eqb l (dfr_locals fr)) && dsl_dhas x (dsl_kv st l)
  | DvNs l => dsl_dhas x (dsl_kv st l)
  | _ => false
  end.

(* VariableExpression::DoEvaluate: locals, own field of Self, imports, globals *)
Definition dsl_var_read (ev : dsl_evaluator) (fr : dsl_frame) (st : dsl_store) (imps : list dsl_expr) (x : string) : dsl_out :=
  match dsl_dget x (dsl_kv st (dfr_locals fr)) with
  | Some v => (DrVal v, st)
  | None =>
      if dsl_self_has fr st x then dsl_ret (dsl_getfield st (dfr_self fr) x) st
      else match dsl_find_import ev fr st imps x with
           | IrFound p st1 => dsl_ret (dsl_getfield st1 p x) st1
           | IrOut o => o
           | IrNone st1 =>
               match dsl_sysval x with
               | Some v => (DrVal v, st1)
               | None =>
                   match dsl_types x with
                   | Some t => (DrVal (DvType t), st1)
                   | None => match dsl_dget x (dsl_kv st1 dsl_globals_loc) with
                             | Some v => (DrVal v, st1)
                             | None => dsl_err DkName st1
                             end
                   end
               end
           end
  end.

(* ---------------------------------------------------------------- GetReference *)
Inductive dsl_refres := RrOk (parent : dsl_val) (idx : string) (st : dsl_store) | RrNone | RrOut (o : dsl_out).

(* VariableExpression::GetReference *)
Definition dsl_var_ref (ev : dsl_evaluator) (fr : dsl_frame) (st : dsl_store) (imps : list dsl_expr) (x : string) : dsl_refres :=
  if dsl_dhas x (dsl_kv st (dfr_locals fr)) then RrOk (DvDict (dfr_locals fr)) x st
  else if dsl_self_has fr st x then RrOk (dfr_self fr) x st
  else match dsl_find_import ev fr st imps x with
       | IrFound p st1 => RrOk p x st1
       | IrOut o => RrOut o
       | IrNone st1 =>
           match dsl_sysval x with
           | Some _ => RrOk DvSys x st1
           | None =>
               match dsl_types x with
               | Some _ => RrOk DvTypes x st1
               | None => if dsl_dhas x (dsl_kv st1 dsl_globals_loc) then RrOk (DvNs dsl_globals_loc) x st1
                         else RrOk (dfr_self fr) x st1
               end
           end
       end.

Fixpoint dsl_ref (ev : dsl_evaluator) (fr : dsl_frame) (st : dsl_store) (e : dsl_expr) (init : bool) : dsl_refres :=
  match e with
  | DeVar x => dsl_var_ref ev fr st [] x
  | DeVarU imps x => dsl_var_ref ev fr st imps x
  | DeDeref a =>
      (* DerefExpression::GetReference: the operand must evaluate to a Reference *)
      match ev fr st a with
      | (DrVal (DvRef l), st1) =>
          match dsl_sget st1 l with
          | Some (DoRef p i) => RrOk p i st1
          | _ => RrOut (DrAbort DaDomain, st1)
          end
      | (DrVal _, st1) => RrOut (DrErr DkType, st1)           (* "Invalid reference specified." (null included: fix 45d9f22) *)
      | (DrErr k, st1) => RrOut (DrErr k, st1)
      | (DrAbort r, st1) => RrOut (DrAbort r, st1)
      | (_, st1) => RrOut (DrAbort DaDomain, st1)             (* a result code other than OK: returns false after side effects - not followed *)
      end
  | DeIndex a i =>
      let with_parent (parent : dsl_val) (st1 : dsl_store) : dsl_refres :=
          match ev fr st1 i with
          | (DrVal iv, st2) =>
              match dsl_to_string st2 iv with
              | SrOk s => RrOk parent s st2
              | SrErr k => RrOut (DrErr k, st2)
              | SrAbort r => RrOut (DrAbort r, st2)
              end
          | o => RrOut o
          end in
      match dsl_ref ev fr st a init with
      | RrOk vparent vindex st1 =>
          let after_init (st2 : dsl_store) : dsl_refres :=
              match dsl_getfield st2 vparent vindex with
              | PrVal parent => with_parent parent st2
              | o => RrOut (dsl_lift o, st2)
              end in
          if init then
            let has := if dsl_is_obj vparent then dsl_has_own st1 vparent vindex else true in
            match (if has then dsl_getfield st1 vparent vindex else PrVal DvEmpty) with
            | PrVal DvEmpty =>
                let '(st2, l) := dsl_alloc st1 (DoDict []) in
                match dsl_setfield st2 vparent vindex (DvDict l) with
                | (PrVal _, st3) => after_init st3
                | (o, st3) => RrOut (dsl_lift o, st3)
                end
            | PrVal _ => after_init st1
            | o => RrOut (dsl_lift o, st1)
            end
          else after_init st1
      | RrNone =>
          match ev fr st a with
          | (DrVal parent, st1) => with_parent parent st1
          | o => RrOut o
          end
      | RrOut o => RrOut o
      end
  | _ => RrNone
  end.

(* ---------------------------------------------------------------- loops *)
Fixpoint dsl_while (ev : dsl_evaluator) (L : nat) (fr : dsl_frame) (st : dsl_store) (c body : dsl_expr) : dsl_out :=
  match L with
  | O => (DrAbort DaFuel, st)
  | S L' =>
      dsl_bind (ev fr st c) (fun cv st1 =>
        if negb (dsl_to_bool st1 cv) then (DrVal DvEmpty, st1)
        else match ev fr st1 body with
             | (DrVal _, st2) | (DrContinue, st2) => dsl_while ev L' fr st2 c body
             | (DrBreak, st2) => (DrVal DvEmpty, st2)
             | o => o
             end)
  end.

Definition dsl_set_local (fr : dsl_frame) (st : dsl_store) (k : string) (v : dsl_val) : dsl_store :=
  dsl_kv_put st (dfr_locals fr) (dsl_dset k v (dsl_kv st (dfr_locals fr))).

(* for (x in array): index based, the length is re-read on every iteration *)
Fixpoint dsl_for_arr (ev : dsl_evaluator) (L : nat) (fr : dsl_frame) (st : dsl_store) (k : string) (l : nat) (i : nat) (body : dsl_expr) : dsl_out :=
  match L with
  | O => (DrAbort DaFuel, st)
  | S L' =>
      let xs := dsl_arr st l in
      if Nat.leb (List.length xs) i then (DrVal DvEmpty, st)
      else match ev fr (dsl_set_local fr st k (nth i xs DvEmpty)) body with
           | (DrVal _, st2) | (DrContinue, st2) => dsl_for_arr ev L' fr st2 k l (S i) body
           | (DrBreak, st2) => (DrVal DvEmpty, st2)
           | o => o
           end
  end.

(* for (k => v in dict) / (k => v in namespace) - VMOps::For: the keys are copied into a vector under the lock when the loop
   is entered; every iteration binds the key variable, then fetches the value of that key from the container AS IT IS NOW:
   `dict->Get(key)` yields Empty for a key the body removed meanwhile, `ns->Get(key)` throws a script error for it (the key
   variable is already bound then, the value variable is not).  A key added meanwhile is not in the vector: never visited. *)
Definition dsl_for_fetch (isns : bool) (st : dsl_store) (l : nat) (key : string) : option dsl_val :=
  match dsl_dget key (dsl_kv st l) with
  | Some x => Some x
  | None => if isns then None else Some DvEmpty
  end.

Fixpoint dsl_for_keys (ev : dsl_evaluator) (fr : dsl_frame) (st : dsl_store) (k v : string) (l : nat) (isns : bool) (keys : list string) (body : dsl_expr) : dsl_out :=
  match keys with
  | [] => (DrVal DvEmpty, st)
  | key :: rest =>
      let st1 := dsl_set_local fr st k (DvStr key) in
      match dsl_for_fetch isns st1 l key with
      | None => dsl_err DkName st1
      | Some cur =>
          let st2 := dsl_set_local fr st1 v cur in
          match ev fr st2 body with
          | (DrVal _, st3) | (DrContinue, st3) => dsl_for_keys ev fr st3 k v l isns rest body
          | (DrBreak, st3) => (DrVal DvEmpty, st3)
          | o => o
          end
      end
  end.

(* VMOps::ConstructorCall for the scalar types; instantiation of the other types is not modelled *)
Definition dsl_ctor (st : dsl_store) (t : dsl_type) (args : list dsl_val) : dsl_out :=
  match t with
  | DtString =>
      match args with
      | [] => (DrVal (DvStr ""), st)
      | [a] => dsl_with_str st a (fun s => (DrVal (DvStr s), st))
      | _ => dsl_err DkArg st
      end
  | DtNumber =>
      match args with
      | [] => (DrVal (DvNum 0 0), st)
      | [a] => dsl_with_num st a (fun m e => (DrVal (DvNum m e), st))
      | _ => dsl_err DkArg st
      end
  | DtBoolean =>
      match args with
      | [] => (DrVal (DvNum 0 0), st)                   (* sic: `return 0` *)
      | [a] => (DrVal (DvBool (dsl_to_bool st a)), st)
      | _ => dsl_err DkArg st
      end
  | _ => (DrAbort DaDomain, st)
  end.

(* ---------------------------------------------------------------- DoEvaluate *)
Definition dsl_do (L : nat) (ev : dsl_evaluator) (fr : dsl_frame) (st : dsl_store) (e : dsl_expr) : dsl_out :=
  match e with
  | DeLit v => (DrVal v, st)
  | DeVar x => dsl_var_read ev fr st [] x
  | DeVarU imps x => dsl_var_read ev fr st imps x
  | DeThis => (DrVal (dfr_self fr), st)
  | DeLocals => (DrVal (DvDict (dfr_locals fr)), st)
  | DeGlobals => (DrVal (DvNs dsl_globals_loc), st)
  | DeNeg a =>
      dsl_bind (ev fr st a) (fun v st1 =>
        dsl_with_num st1 v (fun m e => dsl_ret (dsl_mknum (- (dsl_trunc m e) - 1) 0) st1))
  | DeNot a => dsl_bind (ev fr st a) (fun v st1 => (DrVal (DvBool (negb (dsl_to_bool st1 v))), st1))
  | DeBin op a b =>
      dsl_bind (ev fr st a) (fun va st1 =>
      dsl_bind (ev fr st1 b) (fun vb st2 =>
        let '(p, st3) := dsl_binop_eval st2 op va vb in (dsl_lift p, st3)))
  | DeIn a b | DeNotIn a b =>
      let neg := match e with DeNotIn _ _ => true | _ => false end in
      dsl_bind (ev fr st b) (fun vb st1 =>
        if dsl_is_empty vb then (DrVal (DvBool neg), st1)
        else match vb with
             | DvArr l =>
                 dsl_bind (ev fr st1 a) (fun va st2 =>
                   match dsl_contains st2 (dsl_arr st2 l) va with
                   | Some r => (DrVal (DvBool (xorb neg r)), st2)
                   | None => (DrAbort DaCycle, st2)
                   end)
             | DvDict _ => if dsl_cyclic st1 vb then (DrAbort DaCycle, st1) else dsl_err DkType st1   (* the message JSON-encodes the operand *)
             | _ => dsl_err DkType st1
             end)
  | DeAnd a b =>
      dsl_bind (ev fr st a) (fun va st1 =>
        if negb (dsl_to_bool st1 va) then (DrVal va, st1) else dsl_bind (ev fr st1 b) (fun vb st2 => (DrVal vb, st2)))
  | DeOr a b =>
      dsl_bind (ev fr st a) (fun va st1 =>
        if dsl_to_bool st1 va then (DrVal va, st1) else dsl_bind (ev fr st1 b) (fun vb st2 => (DrVal vb, st2)))
  | DeCall f args =>
      let go (self vfunc : dsl_val) (st1 : dsl_store) : dsl_out :=
          match vfunc with
          | DvFun _ | DvNat _ =>
              match dsl_eval_list ev fr st1 args with
              | (DrVal _, st2, vs) => dsl_invoke ev L st2 vfunc self vs
              | (o, st2, _) => (o, st2)
              end
          | DvType t =>
              match dsl_eval_list ev fr st1 args with
              | (DrVal _, st2, vs) => dsl_ctor st2 t vs
              | (o, st2, _) => (o, st2)
              end
          | _ => dsl_err DkType st1
          end in
      match dsl_ref ev fr st f false with
      | RrOk self idx st1 =>
          match dsl_getfield st1 self idx with
          | PrVal vfunc => go self vfunc st1
          | o => (dsl_lift o, st1)
          end
      | RrNone => dsl_bind (ev fr st f) (fun vfunc st1 => go DvEmpty vfunc st1)
      | RrOut o => o
      end
  | DeArray es =>
      match dsl_eval_list ev fr st es with
      | (DrVal _, st1, vs) => dsl_new_arr st1 vs
      | (o, st1, _) => (o, st1)
      end
  | DeDict inline body =>
      if inline then dsl_eval_seq ev fr st body DvEmpty
      else
        let '(st1, l) := dsl_alloc st (DoDict []) in
        dsl_bind (dsl_eval_seq ev {| dfr_locals := dfr_locals fr; dfr_self := DvDict l |} st1 body DvEmpty)
                 (fun _ st2 => (DrVal (DvDict l), st2))
  | DeSet op lhs rhs =>
      match dsl_ref ev fr st lhs true with
      | RrOk parent idx st1 =>
          dsl_bind (ev fr st1 rhs) (fun v st2 =>
            let store (nv : dsl_val) (st3 : dsl_store) : dsl_out :=
                let '(p, st4) := dsl_setfield st3 parent idx nv in
                match p with PrVal _ => (DrVal DvEmpty, st4) | o => (dsl_lift o, st4) end in
            match dsl_setop_binop op with
            | None => store v st2
            | Some bop =>
                match dsl_getfield st2 parent idx with
                | PrVal old =>
                    let '(p, st3) := dsl_binop_eval st2 bop old v in
                    match p with PrVal nv => store nv st3 | o => (dsl_lift o, st3) end
                | o => (dsl_lift o, st2)
                end
            end)
      | RrNone => dsl_err DkType st
      | RrOut o => o
      end
  | DeCond c t f =>
      dsl_bind (ev fr st c) (fun cv st1 =>
        if dsl_to_bool st1 cv then ev fr st1 t
        else match f with Some fe => ev fr st1 fe | None => (DrVal DvEmpty, st1) end)
  | DeWhile c body => dsl_while ev L fr st c body
  | DeFor k v coll body =>
      dsl_bind (ev fr st coll) (fun cv st1 =>
        match cv with
        | DvArr l => if negb (String.eqb v "") then dsl_err DkType st1 else dsl_for_arr ev L fr st1 k l 0 body
        | DvDict l =>
            if String.eqb v "" then dsl_err DkType st1
            else dsl_for_keys ev fr st1 k v l false (map fst (dsl_kv st1 l)) body
        | DvNs l =>
            if String.eqb v "" then dsl_err DkType st1
            else dsl_for_keys ev fr st1 k v l true (map fst (dsl_kv st1 l)) body
        | _ => dsl_err DkType st1
        end)
  | DeReturn a => dsl_bind (ev fr st a) (fun v st1 => (DrReturn v, st1))
  | DeBreak => (DrBreak, st)
  | DeContinue => (DrContinue, st)
  | DeIndex a i =>
      dsl_bind (ev fr st a) (fun va st1 =>
      dsl_bind (ev fr st1 i) (fun vi st2 =>
        dsl_with_str st2 vi (fun s => dsl_ret (dsl_getfield st2 va s) st2)))
  | DeThrow a => dsl_bind (ev fr st a) (fun v st1 => dsl_with_str st1 v (fun _ => dsl_err DkUser st1))
  | DeTry a b =>
      match ev fr st a with
      | (DrVal _, st1) => (DrVal DvEmpty, st1)
      | (DrErr _, st1) => dsl_bind (ev fr st1 b) (fun _ st2 => (DrVal DvEmpty, st2))
      | o => o
      end
  | DeFunc params closed body =>
      match dsl_eval_closed ev fr st closed with
      | (DrVal _, st1, kvs) => let '(st2, l) := dsl_alloc st1 (DoFun params kvs body) in (DrVal (DvFun l), st2)
      | (o, st1, _) => (o, st1)
      end
  | DeRef a =>
      match dsl_ref ev fr st a false with
      | RrOk parent idx st1 =>
          if dsl_is_obj parent then let '(st2, l) := dsl_alloc st1 (DoRef parent idx) in (DrVal (DvRef l), st2)
          else dsl_err DkType st1
      | RrNone => dsl_err DkType st
      | RrOut o => o
      end
  | DeDeref a =>
      dsl_bind (ev fr st a) (fun v st1 =>
        match v with
        | DvRef l =>
            match dsl_sget st1 l with
            | Some (DoRef p i) => dsl_ret (dsl_getfield st1 p i) st1       (* Reference::Get: parent->GetFieldByName *)
            | _ => (DrAbort DaDomain, st1)
            end
        | _ => dsl_err DkType st1
        end)
  | DeConst x a =>
      dsl_bind (ev fr st a) (fun v st1 =>
        let '(p, st2) := dsl_ns_set st1 dsl_globals_loc x v true in
        match p with PrVal _ => (DrVal DvEmpty, st2) | o => (dsl_lift o, st2) end)
  | DeNsDef body =>
      (* new Namespace(true); ScriptFrame innerFrame(true, ns): fresh locals, this = the namespace, depth inherited *)
      let '(st1, l) := dsl_alloc st (DoNs true [] []) in
      let '(st2, loc) := dsl_alloc st1 (DoDict []) in
      dsl_bind (ev {| dfr_locals := loc; dfr_self := DvNs l |} st2 body) (fun _ st3 => (DrVal (DvNs l), st3))
  end.

(* Expression::Evaluate: IncreaseStackDepth, then DoEvaluate.  g = remaining depth budget. *)
Fixpoint dsl_eval (L : nat) (g : nat) : dsl_evaluator :=
  fun fr st e =>
    match g with
    | O => (DrErr DkStack, st)
    | S g' => dsl_do L (dsl_eval L g') fr st e
    end.

(* ---------------------------------------------------------------- a whole program *)
(* fresh environment: globals namespace at 0, `this` dictionary at 1, locals dictionary at 2 *)
Definition dsl_init_store : dsl_store := [DoNs false [] []; DoDict []; DoDict []].
Definition dsl_init_frame : dsl_frame := {| dfr_locals := 2; dfr_self := DvDict 1 |}.

Definition dsl_run (L : nat) (prog : dsl_expr) : dsl_out :=
  dsl_eval L dsl_depth_limit dsl_init_frame dsl_init_store prog.

(* what the correspondence run observes: result (value / "error" / abort reason), this, locals, globals *)
Definition dsl_show_res (o : dsl_out) : string :=
  let '(r, st) := o in
  match r with
  | DrVal v | DrReturn v => dsl_showv st v
  | DrBreak | DrContinue => "null"
  | DrErr _ => "error"
  | DrAbort DaFuel => "abort:fuel"
  | DrAbort DaDomain => "abort:domain"
  | DrAbort DaCycle => "abort:cycle"
  end.

Definition dsl_observe (o : dsl_out) : list string :=
  let st := snd o in
  [dsl_show_res o; dsl_showv st (DvDict 1); dsl_showv st (DvDict 2); dsl_showv st (DvDict 0)].

(* the property as an executable check on an observed trace: the implementation's observation of a
   program equals the model's, unless the model left its exact domain (then nothing is claimed) *)
Definition dsl_is_abort (o : dsl_out) : bool := match fst o with DrAbort _ => true | _ => false end.

Fixpoint dsl_lines_eqb (a b : list string) : bool :=
  match a, b with
  | [], [] => true
  | x :: a', y :: b' => String.eqb x y && dsl_lines_eqb a' b'
  | _, _ => false
  end.

Definition dsl_oracle (L : nat) (prog : dsl_expr) (observed : list string) : bool :=
  let o := dsl_run L prog in
  dsl_is_abort o || dsl_lines_eqb (dsl_observe o) observed.
