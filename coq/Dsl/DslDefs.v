(* C15 - configuration language: values, numbers, AST, store.  No proofs here.

   Numbers: the implementation computes with binary64.  The model computes with exact dyadic
   rationals m / 2^e (normalised: m odd or e = 0) and ABORTS with [DaDomain] whenever a result
   is not exactly representable that way with |m| < 2^53 (or is a negative zero, or a C++
   conversion is undefined).  Generated programs are screened so that they stay inside the
   exact domain; inside it binary64 arithmetic is exact and equals the model's. *)
From Coq Require Import ZArith List String Ascii Bool DecimalString.
Import ListNotations.
Local Open Scope string_scope.
Local Open Scope Z_scope.

(* why the model refuses to continue (never catchable by try/except) *)
Inductive dsl_abort :=
| DaFuel        (* a while/for loop exceeded the loop budget L *)
| DaDomain      (* outside the modelled/exact domain (inexact number, unmodelled conversion ...) *)
| DaCycle       (* a container reachable from itself is passed to a structural traversal: the code recurses without bound (F-C15-a) *).

(* script error kinds (all are "ScriptError" to a program: try/except cannot tell them apart) *)
Inductive dsl_errkind := DkType | DkName | DkRange | DkStack | DkUser | DkArg.

Inductive dsl_native :=
| DnStrLen | DnStrToString | DnStrSubstr | DnStrUpper | DnStrLower | DnStrSplit | DnStrFind
| DnStrContains | DnStrReplace | DnStrReverse | DnStrTrim
| DnArrLen | DnArrSet | DnArrGet | DnArrAdd | DnArrRemove | DnArrContains | DnArrClear | DnArrSort
| DnArrClone | DnArrJoin | DnArrReverse | DnArrMap | DnArrReduce | DnArrFilter | DnArrAny | DnArrAll
| DnArrUnique
| DnDictLen | DnDictSet | DnDictGet | DnDictRemove | DnDictClear | DnDictContains | DnDictClone
| DnDictKeys | DnDictValues
| DnNumToString | DnBoolToString | DnObjToString
| DnLen | DnKeys | DnRange | DnString | DnNumber | DnBool
| DnTypeOf | DnUnion | DnIntersection | DnMatch
| DnNsSet | DnNsGet | DnNsRemove | DnNsContains | DnNsKeys | DnNsValues
| DnRefGet | DnRefSet
| DnJsonEncode | DnJsonDecode.

Definition dsl_native_eqb (a b : dsl_native) : bool :=
  match a, b with
  | DnStrLen, DnStrLen | DnStrToString, DnStrToString | DnStrSubstr, DnStrSubstr | DnStrUpper, DnStrUpper
  | DnStrLower, DnStrLower | DnStrSplit, DnStrSplit | DnStrFind, DnStrFind | DnStrContains, DnStrContains
  | DnStrReplace, DnStrReplace | DnStrReverse, DnStrReverse | DnStrTrim, DnStrTrim
  | DnArrLen, DnArrLen | DnArrSet, DnArrSet | DnArrGet, DnArrGet | DnArrAdd, DnArrAdd | DnArrRemove, DnArrRemove
  | DnArrContains, DnArrContains | DnArrClear, DnArrClear | DnArrSort, DnArrSort | DnArrClone, DnArrClone
  | DnArrJoin, DnArrJoin | DnArrReverse, DnArrReverse | DnArrMap, DnArrMap | DnArrReduce, DnArrReduce
  | DnArrFilter, DnArrFilter | DnArrAny, DnArrAny | DnArrAll, DnArrAll | DnArrUnique, DnArrUnique
  | DnDictLen, DnDictLen | DnDictSet, DnDictSet | DnDictGet, DnDictGet | DnDictRemove, DnDictRemove
  | DnDictClear, DnDictClear | DnDictContains, DnDictContains | DnDictClone, DnDictClone
  | DnDictKeys, DnDictKeys | DnDictValues, DnDictValues
  | DnNumToString, DnNumToString | DnBoolToString, DnBoolToString | DnObjToString, DnObjToString
  | DnLen, DnLen | DnKeys, DnKeys | DnRange, DnRange | DnString, DnString | DnNumber, DnNumber | DnBool, DnBool
  | DnTypeOf, DnTypeOf | DnUnion, DnUnion | DnIntersection, DnIntersection | DnMatch, DnMatch
  | DnNsSet, DnNsSet | DnNsGet, DnNsGet | DnNsRemove, DnNsRemove | DnNsContains, DnNsContains
  | DnNsKeys, DnNsKeys | DnNsValues, DnNsValues | DnRefGet, DnRefGet | DnRefSet, DnRefSet
  | DnJsonEncode, DnJsonEncode | DnJsonDecode, DnJsonDecode => true
  | _, _ => false
  end.

(* the primitive Type objects of the `Types` namespace (typeof results) *)
Inductive dsl_type := DtObject | DtNumber | DtBoolean | DtString | DtArray | DtDictionary | DtNamespace | DtFunction
                    | DtType | DtReference.

Definition dsl_type_eqb (a b : dsl_type) : bool :=
  match a, b with
  | DtObject, DtObject | DtNumber, DtNumber | DtBoolean, DtBoolean | DtString, DtString | DtArray, DtArray
  | DtDictionary, DtDictionary | DtNamespace, DtNamespace | DtFunction, DtFunction | DtType, DtType
  | DtReference, DtReference => true
  | _, _ => false
  end.

(* values: containers and script functions are references into the store (identity, aliasing, cycles) *)
Inductive dsl_val :=
| DvEmpty
| DvNum (m : Z) (e : nat)          (* m / 2^e *)
| DvBool (b : bool)
| DvStr (s : string)
| DvArr (l : nat)
| DvDict (l : nat)
| DvNs (l : nat)                   (* Namespace object; location 0 = the globals *)
| DvFun (l : nat)                  (* script function (closure) *)
| DvNat (n : dsl_native)           (* built-in function object (prototype method / System function) *)
| DvSys                            (* the System namespace (only used as call target / this of built-ins) *)
| DvType (t : dsl_type)            (* a Type object *)
| DvRef (l : nat)                  (* a Reference object (&x) *)
| DvJson                           (* the frozen System.Json namespace *)
| DvTypes.                         (* the Types namespace (only its primitive members are modelled) *)

Inductive dsl_binop := DbAdd | DbSub | DbMul | DbDiv | DbMod | DbXor | DbAnd | DbOr | DbShl | DbShr
                     | DbEq | DbNe | DbLt | DbGt | DbLe | DbGe.
Inductive dsl_setop := DsSet | DsAdd | DsSub | DsMul | DsDiv | DsMod | DsXor | DsAnd | DsOr.

(* the AST mirrors the Expression class hierarchy of lib/config/expression.hpp *)
Inductive dsl_expr :=
| DeLit (v : dsl_val)                                   (* LiteralExpression (scalars only) *)
| DeVar (x : string)                                    (* VariableExpression *)
| DeThis | DeLocals | DeGlobals                         (* GetScopeExpression *)
| DeNeg (a : dsl_expr)                                  (* ~a  NegateExpression *)
| DeNot (a : dsl_expr)                                  (* !a  LogicalNegateExpression *)
| DeBin (op : dsl_binop) (a b : dsl_expr)
| DeIn (a b : dsl_expr) | DeNotIn (a b : dsl_expr)
| DeAnd (a b : dsl_expr) | DeOr (a b : dsl_expr)
| DeCall (f : dsl_expr) (args : list dsl_expr)          (* FunctionCallExpression *)
| DeArray (es : list dsl_expr)
| DeDict (inline : bool) (body : list dsl_expr)         (* DictExpression: {..} literal (not inline) or statement block (inline) *)
| DeSet (op : dsl_setop) (lhs rhs : dsl_expr)           (* SetExpression; "var x = e" is DeSet on DeIndex DeLocals "x" *)
| DeCond (c t : dsl_expr) (f : option dsl_expr)         (* if/else and ?: *)
| DeWhile (c body : dsl_expr)
| DeFor (k v : string) (coll body : dsl_expr)           (* v = "" : array form *)
| DeReturn (a : dsl_expr) | DeBreak | DeContinue
| DeIndex (a i : dsl_expr)                              (* a[i], a.name *)
| DeThrow (a : dsl_expr)
| DeTry (a b : dsl_expr)
| DeFunc (params : list string) (closed : list (string * dsl_expr)) (body : dsl_expr)
| DeVarU (imports : list dsl_expr) (x : string)         (* VariableExpression compiled after `using` directives (innermost last) *)
| DeRef (a : dsl_expr)                                  (* &a  RefExpression *)
| DeDeref (a : dsl_expr)                                (* *a  DerefExpression *)
| DeConst (x : string) (a : dsl_expr)                   (* const X = a  SetConstExpression *)
| DeNsDef (body : dsl_expr).                            (* NamespaceExpression (the assignment to globals.X is a DeSet around it) *)

Inductive dsl_obj :=
| DoArr (xs : list dsl_val)
| DoDict (kv : list (string * dsl_val))                 (* key-sorted, duplicate free (std::map) *)
| DoNs (allc : bool) (cst : list string) (kv : list (string * dsl_val))
         (* Namespace: allc = m_ConstValues (every inserted value is a constant), cst = the keys flagged Const *)
| DoRef (parent : dsl_val) (idx : string)               (* Reference(parent, index) *)
| DoFun (params : list string) (closed : list (string * dsl_val)) (body : dsl_expr).

Definition dsl_store := list dsl_obj.

Record dsl_frame := { dfr_locals : nat; dfr_self : dsl_val }.

Inductive dsl_res :=
| DrVal (v : dsl_val) | DrErr (k : dsl_errkind) | DrBreak | DrContinue | DrReturn (v : dsl_val)
| DrAbort (a : dsl_abort).

Definition dsl_out := (dsl_res * dsl_store)%type.

(* result of a store-level primitive *)
Inductive dsl_pres := PrVal (v : dsl_val) | PrErr (k : dsl_errkind) | PrAbort (a : dsl_abort).

Definition dsl_lift (p : dsl_pres) : dsl_res :=
  match p with PrVal v => DrVal v | PrErr k => DrErr k | PrAbort a => DrAbort a end.

(* ------------------------------------------------------------------ store *)
Definition dsl_sget (st : dsl_store) (l : nat) : option dsl_obj := nth_error st l.

Fixpoint dsl_sset (st : dsl_store) (l : nat) (o : dsl_obj) : dsl_store :=
  match st, l with
  | [], _ => []
  | _ :: t, O => o :: t
  | h :: t, S l' => h :: dsl_sset t l' o
  end.

Definition dsl_alloc (st : dsl_store) (o : dsl_obj) : dsl_store * nat := ((st ++ [o])%list, List.length st).

Definition dsl_arr (st : dsl_store) (l : nat) : list dsl_val :=
  match dsl_sget st l with Some (DoArr xs) => xs | _ => [] end.
Definition dsl_kv (st : dsl_store) (l : nat) : list (string * dsl_val) :=
  match dsl_sget st l with Some (DoDict kv) => kv | Some (DoNs _ _ kv) => kv | _ => [] end.
(* write back keeping the object kind *)
Definition dsl_kv_put (st : dsl_store) (l : nat) (kv : list (string * dsl_val)) : dsl_store :=
  match dsl_sget st l with
  | Some (DoNs a c _) => dsl_sset st l (DoNs a c kv)
  | _ => dsl_sset st l (DoDict kv)
  end.

(* ------------------------------------------------------------------ dictionaries (std::map<String,Value>) *)
Fixpoint dsl_dget (k : string) (kv : list (string * dsl_val)) : option dsl_val :=
  match kv with
  | [] => None
  | (k', v) :: t => if String.eqb k k' then Some v else dsl_dget k t
  end.

Fixpoint dsl_dset (k : string) (v : dsl_val) (kv : list (string * dsl_val)) : list (string * dsl_val) :=
  match kv with
  | [] => [(k, v)]
  | (k', v') :: t =>
      match String.compare k k' with
      | Eq => (k, v) :: t
      | Lt => (k, v) :: (k', v') :: t
      | Gt => (k', v') :: dsl_dset k v t
      end
  end.

Fixpoint dsl_dremove (k : string) (kv : list (string * dsl_val)) : list (string * dsl_val) :=
  match kv with
  | [] => []
  | (k', v') :: t => if String.eqb k k' then t else (k', v') :: dsl_dremove k t
  end.

Definition dsl_dhas (k : string) (kv : list (string * dsl_val)) : bool :=
  match dsl_dget k kv with Some _ => true | None => false end.

(* ------------------------------------------------------------------ numbers *)
Fixpoint dsl_norm (m : Z) (e : nat) : Z * nat :=
  match e with
  | O => (m, O)
  | S e' => if Z.even m then dsl_norm (Z.div2 m) e' else (m, e)
  end.

Definition dsl_p2 (k : nat) : Z := Z.pow 2 (Z.of_nat k).

Definition dsl_two53 : Z := 9007199254740992.

(* Some number if exactly representable in the model's domain *)
Definition dsl_mknum (m : Z) (e : nat) : dsl_pres :=
  let '(m', e') := dsl_norm m e in
  if (Z.abs m' <? dsl_two53) && (Nat.leb e' 40) then PrVal (DvNum m' e') else PrAbort DaDomain.

Definition dsl_nadd (m1 : Z) (e1 : nat) (m2 : Z) (e2 : nat) : dsl_pres :=
  let e := Nat.max e1 e2 in
  dsl_mknum (m1 * dsl_p2 (e - e1) + m2 * dsl_p2 (e - e2)) e.

Definition dsl_nsub (m1 : Z) (e1 : nat) (m2 : Z) (e2 : nat) : dsl_pres :=
  let e := Nat.max e1 e2 in
  dsl_mknum (m1 * dsl_p2 (e - e1) - m2 * dsl_p2 (e - e2)) e.

Definition dsl_nmul (m1 : Z) (e1 : nat) (m2 : Z) (e2 : nat) : dsl_pres :=
  if ((m1 =? 0) && (m2 <? 0)) || ((m2 =? 0) && (m1 <? 0)) then PrAbort DaDomain (* -0.0 *)
  else dsl_mknum (m1 * m2) (e1 + e2).

Definition dsl_ncmp (m1 : Z) (e1 : nat) (m2 : Z) (e2 : nat) : comparison :=
  let e := Nat.max e1 e2 in
  Z.compare (m1 * dsl_p2 (e - e1)) (m2 * dsl_p2 (e - e2)).

(* strip the factors of two of a non-zero integer: (odd part, count) *)
Fixpoint dsl_oddpart (fuel : nat) (m : Z) (k : nat) : Z * nat :=
  match fuel with
  | O => (m, k)
  | S f => if Z.even m then dsl_oddpart f (Z.div2 m) (S k) else (m, k)
  end.

(* m2 <> 0 *)
Definition dsl_ndiv (m1 : Z) (e1 : nat) (m2 : Z) (e2 : nat) : dsl_pres :=
  let '(o2, k) := dsl_oddpart 64 m2 O in
  if (m1 =? 0) && (m2 <? 0) then PrAbort DaDomain
  else if negb (Z.rem m1 o2 =? 0) then PrAbort DaDomain
  else dsl_mknum (Z.quot m1 o2 * dsl_p2 e2) (k + e1).

(* C++ double -> integer conversion (truncation) *)
Definition dsl_trunc (m : Z) (e : nat) : Z := Z.quot m (dsl_p2 e).

Definition dsl_int32_ok (z : Z) : bool := (-2147483648 <=? z) && (z <=? 2147483647).

(* ------------------------------------------------------------------ strings *)
Definition dsl_zstr (z : Z) : string := NilZero.string_of_int (Z.to_int z).

Definition dsl_pad6 (n : Z) : string :=
  let s := dsl_zstr n in String.substring 0 (6 - String.length s) "000000" ++ s.

(* Convert::ToString(double): integral -> no decimals; otherwise std::fixed with 6 decimals *)
Definition dsl_numstr (m : Z) (e : nat) : option string :=
  match e with
  | O => Some (dsl_zstr m)
  | _ => if Nat.leb e 6 then
           let n := Z.abs m * 1000000 / dsl_p2 e in
           Some ((if m <? 0 then "-" else "") ++ dsl_zstr (n / 1000000) ++ "." ++ dsl_pad6 (n mod 1000000))
         else None
  end.

Definition dsl_is_digit (c : ascii) : bool :=
  let n := N_of_ascii c in (48 <=? n)%N && (n <=? 57)%N.

Fixpoint dsl_digits (s : string) (acc : Z) : option Z :=
  match s with
  | EmptyString => Some acc
  | String c t => if dsl_is_digit c then dsl_digits t (acc * 10 + Z.of_N (N_of_ascii c) - 48) else None
  end.

(* [+-]?[0-9]+  (what boost::lexical_cast<long> accepts, overflow aside) *)
Definition dsl_parse_long (s : string) : option Z :=
  match s with
  | EmptyString => None
  | String c t =>
      if Ascii.eqb c "-" then (match t with EmptyString => None | _ => option_map Z.opp (dsl_digits t 0) end)
      else if Ascii.eqb c "+" then (match t with EmptyString => None | _ => dsl_digits t 0 end)
      else dsl_digits s 0
  end.

Fixpoint dsl_str_any (p : ascii -> bool) (s : string) : bool :=
  match s with EmptyString => false | String c t => p c || dsl_str_any p t end.

(* Value::operator double on a non-empty string (boost::lexical_cast<double>):
   the model decides the plain integers and the strings that certainly fail; everything else is out of domain *)
Definition dsl_str_to_num (s : string) : dsl_pres :=
  match dsl_parse_long s with
  | Some z => if (z =? 0) && (match s with String c _ => Ascii.eqb c "-" | _ => false end) then PrAbort DaDomain
              else dsl_mknum z 0
  | None =>
      if dsl_str_any (fun c => dsl_is_digit c || Ascii.eqb c "i" || Ascii.eqb c "I" || Ascii.eqb c "n" || Ascii.eqb c "N") s
      then PrAbort DaDomain else PrErr DkType
  end.

Definition dsl_upper_c (c : ascii) : ascii :=
  let n := N_of_ascii c in if (97 <=? n)%N && (n <=? 122)%N then ascii_of_N (n - 32) else c.
Definition dsl_lower_c (c : ascii) : ascii :=
  let n := N_of_ascii c in if (65 <=? n)%N && (n <=? 90)%N then ascii_of_N (n + 32) else c.
Fixpoint dsl_smap (f : ascii -> ascii) (s : string) : string :=
  match s with EmptyString => EmptyString | String c t => String (f c) (dsl_smap f t) end.
Fixpoint dsl_srev (s acc : string) : string :=
  match s with EmptyString => acc | String c t => dsl_srev t (String c acc) end.
Definition dsl_is_space (c : ascii) : bool :=
  let n := N_of_ascii c in (n =? 32)%N || ((9 <=? n)%N && (n <=? 13)%N).
Fixpoint dsl_ltrim (s : string) : string :=
  match s with String c t => if dsl_is_space c then dsl_ltrim t else s | _ => s end.
Definition dsl_trim (s : string) : string := dsl_srev (dsl_ltrim (dsl_srev (dsl_ltrim s) "")) "".

Fixpoint dsl_prefix (p s : string) : bool :=
  match p, s with
  | EmptyString, _ => true
  | String a p', String b s' => Ascii.eqb a b && dsl_prefix p' s'
  | _, _ => false
  end.

(* std::string::find(pat, from) *)
Fixpoint dsl_find_from (pat s : string) (pos : nat) : option nat :=
  if dsl_prefix pat s then Some pos
  else match s with EmptyString => None | String _ t => dsl_find_from pat t (S pos) end.
Fixpoint dsl_drop (n : nat) (s : string) : string :=
  match n, s with O, _ => s | S n', String _ t => dsl_drop n' t | _, EmptyString => EmptyString end.
Definition dsl_find (pat s : string) (from : nat) : option nat :=
  if Nat.ltb (String.length s) from then None else dsl_find_from pat (dsl_drop from s) from.

(* boost::algorithm::replace_all, pat non-empty *)
Fixpoint dsl_replace (fuel : nat) (pat rep s : string) : string :=
  match fuel with
  | O => s
  | S f =>
      match s with
      | EmptyString => EmptyString
      | String c t => if dsl_prefix pat s then rep ++ dsl_replace f pat rep (dsl_drop (String.length pat) s)
                      else String c (dsl_replace f pat rep t)
      end
  end.

(* boost::algorithm::split(tokens, s, is_any_of(delims)) *)
Fixpoint dsl_split (delims s cur : string) : list string :=
  match s with
  | EmptyString => [dsl_srev cur ""]
  | String c t => if dsl_str_any (Ascii.eqb c) delims then dsl_srev cur "" :: dsl_split delims t ""
                  else dsl_split delims t (String c cur)
  end.

(* ------------------------------------------------------------------ canonical printer (observation) *)
Definition dsl_hexd (n : N) : ascii :=
  ascii_of_N (if (n <? 10)%N then 48 + n else 87 + n).
Fixpoint dsl_esc (s : string) : string :=
  match s with
  | EmptyString => EmptyString
  | String c t =>
      let n := N_of_ascii c in
      if (n <? 32)%N || (126 <? n)%N || (n =? 34)%N || (n =? 92)%N
      then String "\" (String "x" (String (dsl_hexd (n / 16)) (String (dsl_hexd (n mod 16)) (dsl_esc t))))
      else String c (dsl_esc t)
  end.
Definition dsl_quote (s : string) : string := """" ++ dsl_esc s ++ """".

Definition dsl_shownum (m : Z) (e : nat) : string :=
  match e with O => dsl_zstr m | _ => dsl_zstr m ++ "/2^" ++ dsl_zstr (Z.of_nat e) end.

Fixpoint dsl_show (fuel : nat) (st : dsl_store) (path : list nat) (v : dsl_val) : string :=
  match fuel with
  | O => "@fuel"
  | S f =>
      match v with
      | DvEmpty => "null"
      | DvNum m e => dsl_shownum m e
      | DvBool b => if b then "true" else "false"
      | DvStr s => dsl_quote s
      | DvArr l =>
          if existsb (Nat.eqb l) path then "@cycle"
          else "[" ++ String.concat "," (map (dsl_show f st (l :: path)) (dsl_arr st l)) ++ "]"
      | DvDict l =>
          if existsb (Nat.eqb l) path then "@cycle"
          else "{" ++ String.concat "," (map (fun kv => dsl_quote (fst kv) ++ ":" ++ dsl_show f st (l :: path) (snd kv)) (dsl_kv st l)) ++ "}"
      | DvNs _ => "ns"
      | DvFun _ => "fn"
      | DvNat _ => "fn"
      | DvSys => "ns"
      | DvType _ => "obj"
      | DvRef _ => "obj"
      | DvJson => "ns"
      | DvTypes => "ns"
      end
  end.

Definition dsl_showv (st : dsl_store) (v : dsl_val) : string := dsl_show (S (S (List.length st))) st [] v.
