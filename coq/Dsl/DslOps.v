(* C15 - value operators (lib/base/value-operators.cpp, value.cpp, convert.cpp) and field access
   (lib/config/vmops.hpp GetField/SetField, Array/Dictionary/Namespace::Get/SetFieldByName),
   transcribed condition by condition.  No proofs here. *)
From Coq Require Import ZArith List String Ascii Bool.
From Icv Require Import Dsl.DslDefs.
Import ListNotations.
Local Open Scope string_scope.
Local Open Scope Z_scope.

(* the model does not follow programs that build huge strings/arrays (they are outside the generated population) *)
Definition dsl_size_cap : nat := 4096.

Definition dsl_is_empty (v : dsl_val) : bool :=        (* Value::IsEmpty: Empty or the empty string *)
  match v with DvEmpty => true | DvStr EmptyString => true | _ => false end.
Definition dsl_is_num (v : dsl_val) : bool := match v with DvNum _ _ => true | _ => false end.
Definition dsl_is_bool (v : dsl_val) : bool := match v with DvBool _ => true | _ => false end.
Definition dsl_is_str (v : dsl_val) : bool := match v with DvStr _ => true | _ => false end.
Definition dsl_is_arr (v : dsl_val) : bool := match v with DvArr _ => true | _ => false end.
Definition dsl_is_dict (v : dsl_val) : bool := match v with DvDict _ => true | _ => false end.
Definition dsl_is_obj (v : dsl_val) : bool :=
  match v with DvArr _ | DvDict _ | DvNs _ | DvFun _ | DvNat _ | DvSys | DvType _ | DvRef _ | DvJson | DvTypes => true | _ => false end.

(* Value::ToBool *)
Definition dsl_to_bool (st : dsl_store) (v : dsl_val) : bool :=
  match v with
  | DvEmpty => false
  | DvNum m _ => negb (m =? 0)
  | DvBool b => b
  | DvStr s => negb (String.eqb s "")
  | DvArr l => negb (Nat.eqb (List.length (dsl_arr st l)) 0)
  | DvDict l => negb (Nat.eqb (List.length (dsl_kv st l)) 0)
  | _ => true
  end.

(* is a container reachable from itself on the way down from v *)
Fixpoint dsl_cyc (fuel : nat) (st : dsl_store) (path : list nat) (v : dsl_val) : bool :=
  match fuel with
  | O => true
  | S f =>
      match v with
      | DvArr l => if existsb (Nat.eqb l) path then true else existsb (dsl_cyc f st (l :: path)) (dsl_arr st l)
      | DvDict l => if existsb (Nat.eqb l) path then true
                    else existsb (fun kv => dsl_cyc f st (l :: path) (snd kv)) (dsl_kv st l)
      | _ => false
      end
  end.
Definition dsl_cyclic (st : dsl_store) (v : dsl_val) : bool := dsl_cyc (S (List.length st)) st [] v.

(* Value::operator double : PrVal (DvNum ..) | PrErr | PrAbort *)
Definition dsl_to_double (st : dsl_store) (v : dsl_val) : dsl_pres :=
  match v with
  | DvNum _ _ => PrVal v
  | DvBool b => PrVal (DvNum (if b then 1 else 0) 0)
  | DvEmpty => PrVal (DvNum 0 0)
  | DvStr s => if String.eqb s "" then PrVal (DvNum 0 0) else dsl_str_to_num s
  | DvArr _ | DvDict _ => if dsl_cyclic st v then PrAbort DaCycle else PrErr DkType   (* the error message prints the value *)
  | _ => PrErr DkType
  end.

Inductive dsl_sres := SrOk (s : string) | SrErr (k : dsl_errkind) | SrAbort (a : dsl_abort).

Definition dsl_type_name (t : dsl_type) : string :=
  match t with
  | DtObject => "Object" | DtNumber => "Number" | DtBoolean => "Boolean" | DtString => "String" | DtArray => "Array"
  | DtDictionary => "Dictionary" | DtNamespace => "Namespace" | DtFunction => "Function" | DtType => "Type"
  | DtReference => "Reference"
  end.

(* Type::GetBaseType: the scalar types and Object have none *)
Definition dsl_type_base (t : dsl_type) : option dsl_type :=
  match t with
  | DtObject | DtNumber | DtBoolean | DtString => None
  | _ => Some DtObject
  end.

(* Value::operator String.  Containers: Array::ToString/Dictionary::ToString walk the structure
   (unbounded recursion on a cyclic one); their output format is not modelled. *)
Definition dsl_to_string (st : dsl_store) (v : dsl_val) : dsl_sres :=
  match v with
  | DvEmpty => SrOk ""
  | DvNum m e => match dsl_numstr m e with Some s => SrOk s | None => SrAbort DaDomain end
  | DvBool b => SrOk (if b then "true" else "false")
  | DvStr s => SrOk s
  | DvArr _ | DvDict _ => if dsl_cyclic st v then SrAbort DaCycle else SrAbort DaDomain
  | DvType t => SrOk ("type '" ++ dsl_type_name t ++ "'")           (* Type::ToString *)
  | DvRef _ => SrOk "Object of type 'Reference'"                    (* Object::ToString *)
  | DvFun _ | DvNat _ => SrOk "Object of type 'Function'"
  | DvNs _ | DvSys | DvJson | DvTypes => SrOk "Object of type 'Namespace'"
  end.

(* ------------------------------------------------------------------ == *)
Definition dsl_num_eq (a b : dsl_val) : bool :=
  match a, b with
  | DvNum m1 e1, DvNum m2 e2 => match dsl_ncmp m1 e1 m2 e2 with Eq => true | _ => false end
  | _, _ => false
  end.

Definition dsl_ident_eq (a b : dsl_val) : bool :=
  match a, b with
  | DvArr l1, DvArr l2 | DvDict l1, DvDict l2 | DvNs l1, DvNs l2 | DvFun l1, DvFun l2 => Nat.eqb l1 l2
  | DvNat n1, DvNat n2 => dsl_native_eqb n1 n2
  | DvSys, DvSys => true
  | DvType t1, DvType t2 => dsl_type_eqb t1 t2
  | DvRef l1, DvRef l2 => Nat.eqb l1 l2
  | DvJson, DvJson => true
  | DvTypes, DvTypes => true
  | _, _ => false
  end.

(* None: the recursion did not end within the fuel, i.e. (fuel > number of objects) a cyclic traversal *)
Fixpoint dsl_veq (fuel : nat) (st : dsl_store) (a b : dsl_val) : option bool :=
  match fuel with
  | O => None
  | S f =>
      if dsl_is_num a && dsl_is_num b then Some (dsl_num_eq a b)
      else if (dsl_is_bool a || dsl_is_num a) && (dsl_is_bool b || dsl_is_num b) then
        match dsl_to_double st a, dsl_to_double st b with
        | PrVal x, PrVal y => Some (dsl_num_eq x y)
        | _, _ => Some false
        end
      else
        match a, b with
        | DvStr s1, DvStr s2 => Some (String.eqb s1 s2)
        | _, _ =>
          if (dsl_is_str a || dsl_is_empty a) && (dsl_is_str b || dsl_is_empty b) && negb (dsl_is_empty a && dsl_is_empty b)
          then Some (String.eqb (match a with DvStr s => s | _ => "" end) (match b with DvStr s => s | _ => "" end))
          else if negb (Bool.eqb (dsl_is_empty a) (dsl_is_empty b)) then Some false
          else if dsl_is_empty a then Some true
          else if negb (Bool.eqb (dsl_is_obj a) (dsl_is_obj b)) then Some false
          else if dsl_is_obj a then
            match a, b with
            | DvArr l1, DvArr l2 =>
                if Nat.eqb l1 l2 then Some true
                else
                  let xs := dsl_arr st l1 in
                  let ys := dsl_arr st l2 in
                  if negb (Nat.eqb (List.length xs) (List.length ys)) then Some false
                  else
                    (fix go (xs ys : list dsl_val) : option bool :=
                       match xs, ys with
                       | x :: xs', y :: ys' =>
                           match dsl_veq f st x y with
                           | None => None
                           | Some false => Some false
                           | Some true => go xs' ys'
                           end
                       | _, _ => Some true
                       end) xs ys
            | _, _ => Some (dsl_ident_eq a b)
            end
          else Some false
        end
  end.

Definition dsl_eqfuel (st : dsl_store) : nat := S (S (List.length st)).

(* Array::Contains = std::find with == ; None = cyclic traversal *)
Fixpoint dsl_contains (st : dsl_store) (xs : list dsl_val) (v : dsl_val) : option bool :=
  match xs with
  | [] => Some false
  | x :: t => match dsl_veq (dsl_eqfuel st) st x v with
              | None => None
              | Some true => Some true
              | Some false => dsl_contains st t v
              end
  end.

(* ------------------------------------------------------------------ < > <= >= *)
Inductive dsl_cres := CrOk (b : bool) | CrErr | CrAbort (a : dsl_abort).

Definition dsl_cmp_dir (gt : bool) (c : comparison) : bool :=
  match c with Lt => negb gt | Gt => gt | Eq => false end.

(* the numeric reading used by the comparison operators: Number, Empty or "" *)
Definition dsl_numish (v : dsl_val) : option (Z * nat) :=
  match v with
  | DvNum m e => Some (m, e)
  | DvEmpty => Some (0, O)
  | DvStr EmptyString => Some (0, O)
  | _ => None
  end.

Fixpoint dsl_vlt (fuel : nat) (st : dsl_store) (gt : bool) (a b : dsl_val) : dsl_cres :=
  match fuel with
  | O => CrAbort DaCycle
  | S f =>
      match a, b with
      | DvStr s1, DvStr s2 => CrOk (dsl_cmp_dir gt (String.compare s1 s2))
      | _, _ =>
        if (dsl_is_num a || dsl_is_empty a) && (dsl_is_num b || dsl_is_empty b) && negb (dsl_is_empty a && dsl_is_empty b) then
          match dsl_numish a, dsl_numish b with
          | Some (m1, e1), Some (m2, e2) => CrOk (dsl_cmp_dir gt (dsl_ncmp m1 e1 m2 e2))
          | _, _ => CrErr
          end
        else
          match a, b with
          | DvArr l1, DvArr l2 =>
              (fix go (xs ys : list dsl_val) : dsl_cres :=
                 match xs, ys with
                 | [], [] => CrOk false
                 | _, _ =>
                     let x := match xs with x :: _ => x | [] => DvEmpty end in
                     let y := match ys with y :: _ => y | [] => DvEmpty end in
                     match dsl_vlt f st gt x y with
                     | CrOk true => CrOk true
                     | CrOk false =>
                         match dsl_vlt f st (negb gt) x y with
                         | CrOk true => CrOk false
                         | CrOk false =>
                             match xs, ys with
                             | _ :: xs', _ :: ys' => go xs' ys'
                             | _ :: xs', [] => go xs' []
                             | [], _ :: ys' =>
                                 (* left exhausted: compare Empty against the rest *)
                                 (fix gor (ys : list dsl_val) : dsl_cres :=
                                    match ys with
                                    | [] => CrOk false
                                    | y :: ys' =>
                                        match dsl_vlt f st gt DvEmpty y with
                                        | CrOk true => CrOk true
                                        | CrOk false =>
                                            match dsl_vlt f st (negb gt) DvEmpty y with
                                            | CrOk true => CrOk false
                                            | CrOk false => gor ys'
                                            | o => o
                                            end
                                        | o => o
                                        end
                                    end) ys'
                             | [], [] => CrOk false
                             end
                         | o => o
                         end
                     | o => o
                     end
                 end) (dsl_arr st l1) (dsl_arr st l2)
          | _, _ => CrErr
          end
      end
  end.

(* <= and >= have no array case *)
Definition dsl_vle (ge : bool) (a b : dsl_val) : dsl_cres :=
  match a, b with
  | DvStr s1, DvStr s2 =>
      CrOk (match String.compare s1 s2 with Eq => true | Lt => negb ge | Gt => ge end)
  | _, _ =>
    if (dsl_is_num a || dsl_is_empty a) && (dsl_is_num b || dsl_is_empty b) && negb (dsl_is_empty a && dsl_is_empty b) then
      match dsl_numish a, dsl_numish b with
      | Some (m1, e1), Some (m2, e2) =>
          CrOk (match dsl_ncmp m1 e1 m2 e2 with Eq => true | Lt => negb ge | Gt => ge end)
      | _, _ => CrErr
      end
    else CrErr
  end.

Definition dsl_of_cres (c : dsl_cres) : dsl_pres :=
  match c with CrOk b => PrVal (DvBool b) | CrErr => PrErr DkType | CrAbort a => PrAbort a end.

(* ------------------------------------------------------------------ arithmetic *)
(* static_cast<int>(Value): via operator double, then truncation; outside int the conversion is undefined *)
Definition dsl_to_int (st : dsl_store) (v : dsl_val) : dsl_pres :=
  match dsl_to_double st v with
  | PrVal (DvNum m e) => let z := dsl_trunc m e in if dsl_int32_ok z then PrVal (DvNum z 0) else PrAbort DaDomain
  | PrVal _ => PrAbort DaDomain
  | o => o
  end.

Definition dsl_num2 (st : dsl_store) (f : Z -> nat -> Z -> nat -> dsl_pres) (a b : dsl_val) : dsl_pres :=
  match dsl_to_double st a with
  | PrVal (DvNum m1 e1) =>
      match dsl_to_double st b with
      | PrVal (DvNum m2 e2) => f m1 e1 m2 e2
      | PrVal _ => PrAbort DaDomain
      | o => o
      end
  | PrVal _ => PrAbort DaDomain
  | o => o
  end.

Definition dsl_int2 (st : dsl_store) (f : Z -> Z -> dsl_pres) (a b : dsl_val) : dsl_pres :=
  match dsl_to_int st a with
  | PrVal (DvNum x _) =>
      match dsl_to_int st b with
      | PrVal (DvNum y _) => f x y
      | PrVal _ => PrAbort DaDomain
      | o => o
      end
  | PrVal _ => PrAbort DaDomain
  | o => o
  end.

(* the guard shared by * ^ & | << >> : (number or empty) on both sides, not both empty *)
Definition dsl_numguard (a b : dsl_val) : bool :=
  (dsl_is_num a || dsl_is_empty a) && (dsl_is_num b || dsl_is_empty b) && negb (dsl_is_empty a && dsl_is_empty b).

Definition dsl_is_zero (v : dsl_val) : bool := match v with DvNum m _ => m =? 0 | _ => false end.

(* Dictionary::CopyTo *)
Fixpoint dsl_dmerge (src dst : list (string * dsl_val)) : list (string * dsl_val) :=
  match src with [] => dst | (k, v) :: t => dsl_dmerge t (dsl_dset k v dst) end.

(* lhs - rhs on arrays: keep the elements of xs that are == to no element of ys *)
Fixpoint dsl_arr_minus (st : dsl_store) (xs ys : list dsl_val) : option (list dsl_val) :=
  match xs with
  | [] => Some []
  | x :: t =>
      match dsl_contains st ys x with   (* lv == rv, same operand order is immaterial for the verdict on cycles *)
      | None => None
      | Some found =>
          match dsl_arr_minus st t ys with
          | None => None
          | Some r => Some (if found then r else x :: r)
          end
      end
  end.

Definition dsl_binop_eval (st : dsl_store) (op : dsl_binop) (a b : dsl_val) : dsl_pres * dsl_store :=
  let ea := dsl_is_empty a in let eb := dsl_is_empty b in
  let na := dsl_is_num a in let nb := dsl_is_num b in
  let sa := dsl_is_str a in let sb := dsl_is_str b in
  match op with
  | DbAdd =>
      if (ea || na) && negb sa && (eb || nb) && negb sb && negb (ea && eb) then (dsl_num2 st dsl_nadd a b, st)
      else if (sa || ea || na) && (sb || eb || nb) && (negb (ea && eb) || sa || sb) then
        match dsl_to_string st a, dsl_to_string st b with
        | SrOk x, SrOk y => if Nat.ltb dsl_size_cap (String.length x + String.length y) then (PrAbort DaDomain, st) else (PrVal (DvStr (x ++ y)), st)
        | SrAbort r, _ => (PrAbort r, st)
        | _, SrAbort r => (PrAbort r, st)
        | _, _ => (PrErr DkType, st)
        end
      else if (dsl_is_arr a || ea) && (dsl_is_arr b || eb) && negb (ea && eb) then
        (* "" counts as empty in the guard; the copy is skipped for an empty side *)
        let xs := match a with DvArr l => dsl_arr st l | _ => [] end in
        let ys := match b with DvArr l => dsl_arr st l | _ => [] end in
        if Nat.ltb dsl_size_cap (List.length xs + List.length ys) then (PrAbort DaDomain, st) else
        let '(st', l) := dsl_alloc st (DoArr (xs ++ ys)%list) in (PrVal (DvArr l), st')
      else if (dsl_is_dict a || ea) && (dsl_is_dict b || eb) && negb (ea && eb) then
        let xs := match a with DvDict l => dsl_kv st l | _ => [] end in
        let ys := match b with DvDict l => dsl_kv st l | _ => [] end in
        let '(st', l) := dsl_alloc st (DoDict (dsl_dmerge ys (dsl_dmerge xs []))) in (PrVal (DvDict l), st')
      else (PrErr DkType, st)
  | DbSub =>
      if (na || ea) && negb sa && (nb || eb) && negb sb && negb (ea && eb) then (dsl_num2 st dsl_nsub a b, st)
      else if (dsl_is_arr a || ea) && (dsl_is_arr b || eb) && negb (ea && eb) then
        if ea then let '(st', l) := dsl_alloc st (DoArr []) in (PrVal (DvArr l), st')
        else
          match a, b with
          | DvArr l1, DvArr l2 =>
              match dsl_arr_minus st (dsl_arr st l1) (dsl_arr st l2) with
              | None => (PrAbort DaCycle, st)
              | Some r => let '(st', l) := dsl_alloc st (DoArr r) in (PrVal (DvArr l), st')
              end
          | DvArr l1, DvEmpty =>
              (* rhs Empty (not ""): a shallow clone of the left side (fix 9eeddcb; before it a null Array::Ptr was dereferenced) *)
              let '(st', l) := dsl_alloc st (DoArr (dsl_arr st l1)) in (PrVal (DvArr l), st')
          | _, _ => (PrErr DkType, st)     (* rhs "" : conversion to Array::Ptr throws *)
          end
      else (PrErr DkType, st)
  | DbMul => if dsl_numguard a b then (dsl_num2 st dsl_nmul a b, st) else (PrErr DkType, st)
  | DbDiv =>
      if eb then (PrErr DkType, st)
      else if (ea || na) && nb then
        if dsl_is_zero b then (PrErr DkRange, st) else (dsl_num2 st dsl_ndiv a b, st)
      else (PrErr DkType, st)
  | DbMod =>
      if eb then (PrErr DkType, st)
      else if nb then
        if dsl_is_zero b then (PrErr DkRange, st)
        else (dsl_int2 st (fun x y =>
                          if y =? 0 then PrErr DkRange                (* 0 < |rhs| < 1: the truncated divisor is re-checked (fix 150ea79) *)
                          else if y =? -1 then PrVal (DvNum 0 0)      (* avoids INT_MIN % -1 *)
                          else PrVal (DvNum (Z.rem x y) 0)) a b, st)
      else (PrErr DkType, st)
  | DbXor => if dsl_numguard a b then (dsl_int2 st (fun x y => PrVal (DvNum (Z.lxor x y) 0)) a b, st) else (PrErr DkType, st)
  | DbAnd => if dsl_numguard a b then (dsl_int2 st (fun x y => PrVal (DvNum (Z.land x y) 0)) a b, st) else (PrErr DkType, st)
  | DbOr => if dsl_numguard a b then (dsl_int2 st (fun x y => PrVal (DvNum (Z.lor x y) 0)) a b, st) else (PrErr DkType, st)
  | DbShl =>
      if dsl_numguard a b then
        (dsl_int2 st (fun x y =>
                     if (y <? 0) || (31 <? y) || (x <? 0) then PrAbort DaDomain
                     else let r := Z.shiftl x y in if dsl_int32_ok r then PrVal (DvNum r 0) else PrAbort DaDomain) a b, st)
      else (PrErr DkType, st)
  | DbShr =>
      if dsl_numguard a b then
        (dsl_int2 st (fun x y => if (y <? 0) || (31 <? y) then PrAbort DaDomain else PrVal (DvNum (Z.shiftr x y) 0)) a b, st)
      else (PrErr DkType, st)
  | DbEq => (match dsl_veq (dsl_eqfuel st) st a b with Some r => PrVal (DvBool r) | None => PrAbort DaCycle end, st)
  | DbNe => (match dsl_veq (dsl_eqfuel st) st a b with Some r => PrVal (DvBool (negb r)) | None => PrAbort DaCycle end, st)
  | DbLt => (dsl_of_cres (dsl_vlt (dsl_eqfuel st) st false a b), st)
  | DbGt => (dsl_of_cres (dsl_vlt (dsl_eqfuel st) st true a b), st)
  | DbLe => (dsl_of_cres (dsl_vle false a b), st)
  | DbGe => (dsl_of_cres (dsl_vle true a b), st)
  end.

Definition dsl_setop_binop (op : dsl_setop) : option dsl_binop :=
  match op with
  | DsSet => None | DsAdd => Some DbAdd | DsSub => Some DbSub | DsMul => Some DbMul | DsDiv => Some DbDiv
  | DsMod => Some DbMod | DsXor => Some DbXor | DsAnd => Some DbAnd | DsOr => Some DbOr
  end.

(* ------------------------------------------------------------------ prototypes and the System namespace *)
Definition dsl_proto_object (f : string) : option dsl_native :=
  if String.eqb f "to_string" then Some DnObjToString else None.

Definition dsl_proto_string (f : string) : option dsl_native :=
  if String.eqb f "len" then Some DnStrLen else if String.eqb f "to_string" then Some DnStrToString
  else if String.eqb f "substr" then Some DnStrSubstr else if String.eqb f "upper" then Some DnStrUpper
  else if String.eqb f "lower" then Some DnStrLower else if String.eqb f "split" then Some DnStrSplit
  else if String.eqb f "find" then Some DnStrFind else if String.eqb f "contains" then Some DnStrContains
  else if String.eqb f "replace" then Some DnStrReplace else if String.eqb f "reverse" then Some DnStrReverse
  else if String.eqb f "trim" then Some DnStrTrim else None.

Definition dsl_proto_array (f : string) : option dsl_native :=
  if String.eqb f "len" then Some DnArrLen else if String.eqb f "set" then Some DnArrSet
  else if String.eqb f "get" then Some DnArrGet else if String.eqb f "add" then Some DnArrAdd
  else if String.eqb f "remove" then Some DnArrRemove else if String.eqb f "contains" then Some DnArrContains
  else if String.eqb f "clear" then Some DnArrClear else if String.eqb f "sort" then Some DnArrSort
  else if String.eqb f "shallow_clone" then Some DnArrClone else if String.eqb f "join" then Some DnArrJoin
  else if String.eqb f "reverse" then Some DnArrReverse else if String.eqb f "map" then Some DnArrMap
  else if String.eqb f "reduce" then Some DnArrReduce else if String.eqb f "filter" then Some DnArrFilter
  else if String.eqb f "any" then Some DnArrAny else if String.eqb f "all" then Some DnArrAll
  else if String.eqb f "unique" then Some DnArrUnique else dsl_proto_object f.

Definition dsl_proto_dict (f : string) : option dsl_native :=
  if String.eqb f "len" then Some DnDictLen else if String.eqb f "set" then Some DnDictSet
  else if String.eqb f "get" then Some DnDictGet else if String.eqb f "remove" then Some DnDictRemove
  else if String.eqb f "clear" then Some DnDictClear else if String.eqb f "contains" then Some DnDictContains
  else if String.eqb f "shallow_clone" then Some DnDictClone else if String.eqb f "keys" then Some DnDictKeys
  else if String.eqb f "values" then Some DnDictValues else dsl_proto_object f.

Definition dsl_sys (f : string) : option dsl_native :=
  if String.eqb f "len" then Some DnLen else if String.eqb f "keys" then Some DnKeys
  else if String.eqb f "range" then Some DnRange else if String.eqb f "string" then Some DnString
  else if String.eqb f "number" then Some DnNumber else if String.eqb f "bool" then Some DnBool else None.

(* the System namespace as seen through the import list: functions, the match-mode constants and System.Json *)
Definition dsl_sysval (f : string) : option dsl_val :=
  match dsl_sys f with
  | Some n => Some (DvNat n)
  | None =>
      if String.eqb f "typeof" then Some (DvNat DnTypeOf) else if String.eqb f "union" then Some (DvNat DnUnion)
      else if String.eqb f "intersection" then Some (DvNat DnIntersection) else if String.eqb f "match" then Some (DvNat DnMatch)
      else if String.eqb f "MatchAll" then Some (DvNum 0 0) else if String.eqb f "MatchAny" then Some (DvNum 1 0)
      else if String.eqb f "Json" then Some DvJson else None
  end.

(* the primitive members of the Types namespace (the import consulted after System and System.Configuration) *)
Definition dsl_types (f : string) : option dsl_type :=
  if String.eqb f "Object" then Some DtObject else if String.eqb f "Number" then Some DtNumber
  else if String.eqb f "Boolean" then Some DtBoolean else if String.eqb f "String" then Some DtString
  else if String.eqb f "Array" then Some DtArray else if String.eqb f "Dictionary" then Some DtDictionary
  else if String.eqb f "Namespace" then Some DtNamespace else if String.eqb f "Function" then Some DtFunction
  else if String.eqb f "Type" then Some DtType else if String.eqb f "Reference" then Some DtReference else None.

Definition dsl_proto_ns (f : string) : option dsl_native :=
  if String.eqb f "set" then Some DnNsSet else if String.eqb f "get" then Some DnNsGet
  else if String.eqb f "remove" then Some DnNsRemove else if String.eqb f "contains" then Some DnNsContains
  else if String.eqb f "keys" then Some DnNsKeys else if String.eqb f "values" then Some DnNsValues
  else dsl_proto_object f.

Definition dsl_proto_ref (f : string) : option dsl_native :=
  if String.eqb f "set" then Some DnRefSet else if String.eqb f "get" then Some DnRefGet else dsl_proto_object f.

(* Object#clone / Object#notify_attribute / Type#register_attribute_handler exist but are not modelled *)
Definition dsl_unmodelled_method (f : string) : bool :=
  String.eqb f "clone" || String.eqb f "notify_attribute" || String.eqb f "register_attribute_handler"
  || String.eqb f "freeze" || String.eqb f "call" || String.eqb f "callv".

Definition dsl_opt_native (o : option dsl_native) (missing : dsl_pres) : dsl_pres :=
  match o with Some n => PrVal (DvNat n) | None => missing end.

(* VMOps::GetField *)
Definition dsl_getfield (st : dsl_store) (ctx : dsl_val) (field : string) : dsl_pres :=
  match ctx with
  | DvEmpty => PrVal DvEmpty
  | DvStr _ => dsl_opt_native (dsl_proto_string field) (PrErr DkName)
  | DvNum _ _ => dsl_opt_native (if String.eqb field "to_string" then Some DnNumToString else None) (PrErr DkName)
  | DvBool _ => dsl_opt_native (if String.eqb field "to_string" then Some DnBoolToString else None) (PrErr DkName)
  | DvArr l =>
      match dsl_parse_long field with
      | Some i =>
          if 2147483647 <? Z.abs i then PrAbort DaDomain    (* long -> int truncation *)
          else if (i <? 0) || (Z.of_nat (List.length (dsl_arr st l)) <=? i) then PrErr DkRange
          else PrVal (nth (Z.to_nat i) (dsl_arr st l) DvEmpty)
      | None => if String.eqb field "type" then PrVal (DvStr "Array")          (* Object's reflection field 0 *)
                else if dsl_unmodelled_method field then PrAbort DaDomain
                else dsl_opt_native (dsl_proto_array field) (PrErr DkName)
      end
  | DvDict l =>
      match dsl_dget field (dsl_kv st l) with
      | Some v => PrVal v
      | None => dsl_opt_native (dsl_proto_dict field) (PrVal DvEmpty)
      end
  | DvNs l =>
      match dsl_dget field (dsl_kv st l) with
      | Some v => PrVal v
      | None => if dsl_unmodelled_method field then PrAbort DaDomain
                else dsl_opt_native (dsl_proto_ns field) (PrVal DvEmpty)   (* a missing field of a namespace is not an error *)
      end
  | DvSys => match dsl_sysval field with Some v => PrVal v | None => PrAbort DaDomain end   (* the rest of System is not modelled *)
  | DvJson => if String.eqb field "encode" then PrVal (DvNat DnJsonEncode)
              else if String.eqb field "decode" then PrVal (DvNat DnJsonDecode)
              else if dsl_unmodelled_method field then PrAbort DaDomain
              else dsl_opt_native (dsl_proto_ns field) (PrVal DvEmpty)
  | DvTypes => match dsl_types field with Some t => PrVal (DvType t) | None => PrAbort DaDomain end
  | DvType t =>
      if String.eqb field "name" then PrVal (DvStr (dsl_type_name t))
      else if String.eqb field "base" then PrVal (match dsl_type_base t with Some b => DvType b | None => DvEmpty end)
      else if String.eqb field "type" then PrVal (DvStr "Type")
      else if String.eqb field "prototype" || dsl_unmodelled_method field then PrAbort DaDomain
      else dsl_opt_native (dsl_proto_object field) (PrErr DkName)
  | DvRef _ =>
      if String.eqb field "type" then PrVal (DvStr "Reference")
      else if dsl_unmodelled_method field then PrAbort DaDomain
      else dsl_opt_native (dsl_proto_ref field) (PrErr DkName)
  | DvFun _ | DvNat _ => PrAbort DaDomain   (* reflection fields of Function objects: not modelled *)
  end.

Fixpoint dsl_pad (xs : list dsl_val) (n : nat) : list dsl_val :=
  match n with O => xs | S n' => match xs with [] => DvEmpty :: dsl_pad [] n' | x :: t => x :: dsl_pad t n' end end.
Fixpoint dsl_lset (xs : list dsl_val) (i : nat) (v : dsl_val) : list dsl_val :=
  match xs, i with
  | [], _ => []
  | _ :: t, O => v :: t
  | x :: t, S i' => x :: dsl_lset t i' v
  end.

(* Namespace::Set(field, value, isConst) *)
Definition dsl_ns_set (st : dsl_store) (l : nat) (field : string) (v : dsl_val) (isconst : bool) : dsl_pres * dsl_store :=
  match dsl_sget st l with
  | Some (DoNs allc cst kv) =>
      if dsl_dhas field kv then
        if existsb (String.eqb field) cst then (PrErr DkType, st)        (* "Constant must not be modified." *)
        else (PrVal DvEmpty, dsl_sset st l (DoNs allc cst (dsl_dset field v kv)))
      else (PrVal DvEmpty, dsl_sset st l (DoNs allc (if isconst || allc then field :: cst else cst) (dsl_dset field v kv)))
  | _ => (PrErr DkType, st)
  end.

(* Namespace::Remove *)
Definition dsl_ns_remove (st : dsl_store) (l : nat) (field : string) : dsl_pres * dsl_store :=
  match dsl_sget st l with
  | Some (DoNs allc cst kv) =>
      if negb (dsl_dhas field kv) then (PrVal DvEmpty, st)
      else if existsb (String.eqb field) cst then (PrErr DkType, st)     (* "Constants must not be removed." *)
      else (PrVal DvEmpty, dsl_sset st l (DoNs allc cst (dsl_dremove field kv)))
  | _ => (PrErr DkType, st)
  end.

(* VMOps::SetField *)
Definition dsl_setfield (st : dsl_store) (ctx : dsl_val) (field : string) (v : dsl_val) : dsl_pres * dsl_store :=
  match ctx with
  | DvArr l =>
      match dsl_parse_long field with
      | None => (PrErr DkType, st)
      | Some i =>
          if i <? 0 then (if i <? -2147483648 then (PrAbort DaDomain, st) else (PrErr DkRange, st))
          else if 10000 <? i then (PrAbort DaDomain, st)    (* would resize to a huge array *)
          else
            let xs := dsl_pad (dsl_arr st l) (S (Z.to_nat i)) in
            (PrVal DvEmpty, dsl_sset st l (DoArr (dsl_lset xs (Z.to_nat i) v)))
      end
  | DvDict l => (PrVal DvEmpty, dsl_kv_put st l (dsl_dset field v (dsl_kv st l)))
  | DvNs l => dsl_ns_set st l field v false
  | DvEmpty | DvNum _ _ | DvBool _ | DvStr _ => (PrErr DkType, st)
  | DvSys | DvJson => (PrErr DkType, st)           (* frozen namespaces *)
  | DvTypes => (PrAbort DaDomain, st)
  | DvType _ | DvRef _ => (PrAbort DaDomain, st)   (* Object::SetFieldByName on reflection fields: not modelled *)
  | DvFun _ | DvNat _ => (PrAbort DaDomain, st)
  end.

(* Object::HasOwnField *)
Definition dsl_has_own (st : dsl_store) (ctx : dsl_val) (field : string) : bool :=
  match ctx with
  | DvDict l | DvNs l => dsl_dhas field (dsl_kv st l)
  | DvSys => match dsl_sysval field with Some _ => true | None => false end
  | DvJson => String.eqb field "encode" || String.eqb field "decode"
  | DvTypes => match dsl_types field with Some _ => true | None => false end
  | DvType _ => String.eqb field "name" || String.eqb field "base" || String.eqb field "prototype" || String.eqb field "type"
  | DvArr _ | DvRef _ | DvFun _ | DvNat _ => String.eqb field "type"   (* Object::HasOwnField: the reflection fields (Function has more: not modelled) *)
  | _ => false
  end.
