(* C15 - loop-budget monotonicity lifted through the whole interpreter. *)
From Coq Require Import ZArith List String Ascii Bool Lia.
From Icv Require Import Dsl.DslDefs Dsl.DslOps Dsl.DslEval.
Import ListNotations.
Local Open Scope string_scope.

Definition dsl_nf (r : dsl_res) : Prop := r <> DrAbort DaFuel.
Definition dsl_ev_le (ev1 ev2 : dsl_evaluator) : Prop :=
  forall fr st e, dsl_nf (fst (ev1 fr st e)) -> ev2 fr st e = ev1 fr st e.

Ltac fuel_absurd :=
  match goal with
  | H : dsl_nf _ |- _ => exfalso; apply H; reflexivity
  end.

(* one sub-evaluation: case on its result under ev1, transfer to ev2 *)
Ltac ev_step HR ev1 ev2 :=
  match goal with
  | |- context [ev2 ?fr ?st ?e] =>
      let E := fresh "E" in
      pose proof (HR fr st e) as E;
      destruct (ev1 fr st e) as [[?v|?k| | |?v|[| |]] ?s];
      cbn [fst] in E;
      try (rewrite E by (unfold dsl_nf; discriminate); clear E);
      cbn [dsl_bind fst] in *
  end.

Section Mono.
Variables ev1 ev2 : dsl_evaluator.
Hypothesis HR : dsl_ev_le ev1 ev2.

Lemma dsl_eval_list_mono : forall es fr st,
  dsl_nf (fst (fst (dsl_eval_list ev1 fr st es))) -> dsl_eval_list ev2 fr st es = dsl_eval_list ev1 fr st es.
Proof.
  induction es as [|e t IH]; intros fr st H; [reflexivity|].
  cbn [dsl_eval_list] in *. ev_step HR ev1 ev2; try reflexivity; try (cbn in H; fuel_absurd).
  rewrite IH; [reflexivity|].
  destruct (dsl_eval_list ev1 fr s t) as [[[?v|?k| | |?v|[| |]] ?s] ?l]; cbn in *; try exact H; unfold dsl_nf; discriminate.
Qed.

Lemma dsl_eval_seq_mono : forall es fr st last,
  dsl_nf (fst (dsl_eval_seq ev1 fr st es last)) -> dsl_eval_seq ev2 fr st es last = dsl_eval_seq ev1 fr st es last.
Proof.
  induction es as [|e t IH]; intros fr st last H; [reflexivity|].
  cbn [dsl_eval_seq dsl_bind] in *. ev_step HR ev1 ev2; try reflexivity; try (cbn in H; fuel_absurd).
  apply IH. exact H.
Qed.

Lemma dsl_eval_closed_mono : forall cs fr st,
  dsl_nf (fst (fst (dsl_eval_closed ev1 fr st cs))) -> dsl_eval_closed ev2 fr st cs = dsl_eval_closed ev1 fr st cs.
Proof.
  induction cs as [|[k e] t IH]; intros fr st H; [reflexivity|].
  cbn [dsl_eval_closed] in *. ev_step HR ev1 ev2; try reflexivity; try (cbn in H; fuel_absurd);
  (rewrite IH; [reflexivity|];
   destruct (dsl_eval_closed ev1 fr s t) as [[[?v|?k| | |?v|[| |]] ?s] ?l]; cbn in *; try exact H; unfold dsl_nf; discriminate).
Qed.

Lemma dsl_while_mono2 : forall L1 L2 fr st c b, (L1 <= L2)%nat ->
  dsl_nf (fst (dsl_while ev1 L1 fr st c b)) -> dsl_while ev2 L2 fr st c b = dsl_while ev1 L1 fr st c b.
Proof.
  induction L1 as [|L1 IH]; intros L2 fr st c b Hle H; [cbn in H; fuel_absurd|].
  destruct L2 as [|L2]; [lia|]. assert (L1 <= L2)%nat as Hle' by lia.
  cbn [dsl_while dsl_bind] in *.
  ev_step HR ev1 ev2; try reflexivity; try (cbn in H; fuel_absurd).
  destruct (negb (dsl_to_bool s v)); [reflexivity|].
  ev_step HR ev1 ev2; try reflexivity; try (cbn in H; fuel_absurd); apply IH; assumption.
Qed.

Lemma dsl_for_arr_mono : forall L1 L2 fr st k l i b, (L1 <= L2)%nat ->
  dsl_nf (fst (dsl_for_arr ev1 L1 fr st k l i b)) -> dsl_for_arr ev2 L2 fr st k l i b = dsl_for_arr ev1 L1 fr st k l i b.
Proof.
  induction L1 as [|L1 IH]; intros L2 fr st k l i b Hle H; [cbn in H; fuel_absurd|].
  destruct L2 as [|L2]; [lia|]. assert (L1 <= L2)%nat as Hle' by lia.
  cbn [dsl_for_arr] in *.
  destruct (Nat.leb (List.length (dsl_arr st l)) i); [reflexivity|].
  ev_step HR ev1 ev2; try reflexivity; try (cbn in H; fuel_absurd); apply IH; assumption.
Qed.

Lemma dsl_for_keys_mono : forall keys fr st k v l isns b,
  dsl_nf (fst (dsl_for_keys ev1 fr st k v l isns keys b)) -> dsl_for_keys ev2 fr st k v l isns keys b = dsl_for_keys ev1 fr st k v l isns keys b.
Proof.
  induction keys as [|key rest IH]; intros fr st k v l isns b H; [reflexivity|].
  cbn [dsl_for_keys] in *. cbv zeta in *.
  destruct (dsl_for_fetch isns (dsl_set_local fr st k (DvStr key)) l key); [|reflexivity].
  ev_step HR ev1 ev2; try reflexivity; try (cbn in H; fuel_absurd); apply IH; assumption.
Qed.

Lemma dsl_fun_result_nf : forall o, dsl_nf (fst (dsl_fun_result o)) -> dsl_nf (fst o).
Proof. intros [[v|k| | |v|[| |]] s] H; cbn in *; try exact H; unfold dsl_nf; discriminate. Qed.

Lemma dsl_call_user_mono : forall st l self args,
  dsl_nf (fst (dsl_call_user ev1 st l self args)) -> dsl_call_user ev2 st l self args = dsl_call_user ev1 st l self args.
Proof.
  intros st l self args H. unfold dsl_call_user in *.
  destruct (dsl_sget st l) as [[| | | |params closed body]|]; try reflexivity.
  destruct (Nat.ltb (List.length args) (List.length params)); [reflexivity|].
  destruct (dsl_alloc st (DoDict (dsl_bind_args params args (dsl_dmerge closed [])))) as [st1 loc].
  rewrite HR; [reflexivity|]. apply dsl_fun_result_nf. exact H.
Qed.

Lemma dsl_callback_mono : forall st f args,
  dsl_nf (fst (dsl_callback ev1 st f args)) -> dsl_callback ev2 st f args = dsl_callback ev1 st f args.
Proof.
  intros st f args H. unfold dsl_callback in *. destruct f; try reflexivity. apply dsl_call_user_mono. exact H.
Qed.

Ltac cb_step :=
  match goal with
  | |- context [dsl_callback ev2 ?st ?f ?args] =>
      let E := fresh "E" in
      pose proof (dsl_callback_mono st f args) as E;
      destruct (dsl_callback ev1 st f args) as [[?v|?k| | |?v|[| |]] ?s];
      cbn [fst] in E;
      try (rewrite E by (unfold dsl_nf; discriminate); clear E);
      cbn [dsl_bind fst] in *
  end.

Lemma dsl_iter_mono : forall L1 L2 mode f l i st acc, (L1 <= L2)%nat ->
  dsl_nf (fst (fst (fst (dsl_iter ev1 mode f l L1 i st acc)))) ->
  dsl_iter ev2 mode f l L2 i st acc = dsl_iter ev1 mode f l L1 i st acc.
Proof.
  induction L1 as [|L1 IH]; intros L2 mode f l i st acc Hle H; [cbn in H; fuel_absurd|].
  destruct L2 as [|L2]; [lia|]. assert (L1 <= L2)%nat as Hle' by lia.
  cbn [dsl_iter] in *. cbv zeta in *.
  destruct (Nat.leb (List.length (dsl_arr st l)) i); [reflexivity|].
  cb_step; try reflexivity; try (cbn in H; fuel_absurd).
  destruct mode; try (apply IH; assumption);
  (destruct (dsl_to_double s v) as [[]| |]; try reflexivity;
   match goal with |- context [if ?c then _ else _] => destruct c end; try reflexivity; apply IH; assumption).
Qed.

Lemma dsl_reduce_mono : forall L1 L2 f l i acc st, (L1 <= L2)%nat ->
  dsl_nf (fst (dsl_reduce ev1 L1 f l i acc st)) -> dsl_reduce ev2 L2 f l i acc st = dsl_reduce ev1 L1 f l i acc st.
Proof.
  induction L1 as [|L1 IH]; intros L2 f l i acc st Hle H; [cbn in H; fuel_absurd|].
  destruct L2 as [|L2]; [lia|]. assert (L1 <= L2)%nat as Hle' by lia.
  cbn [dsl_reduce dsl_bind] in *. cbv zeta in *.
  destruct (Nat.leb (List.length (dsl_arr st l)) i); [reflexivity|].
  cb_step; try reflexivity; try (cbn in H; fuel_absurd). apply IH; assumption.
Qed.

Lemma dsl_native_call_mono : forall L1 L2 st n self args, (L1 <= L2)%nat ->
  dsl_nf (fst (dsl_native_call ev1 L1 st n self args)) ->
  dsl_native_call ev2 L2 st n self args = dsl_native_call ev1 L1 st n self args.
Proof.
  intros L1 L2 st n self args Hle H. unfold dsl_native_call in *.
  destruct (dsl_native_simple st n self args); [reflexivity|].
  unfold dsl_arity in *. destruct (Nat.eqb (List.length args) 1); [|reflexivity].
  destruct self; try reflexivity. unfold dsl_need_fun in *.
  destruct (dsl_arg args 0); try reflexivity;
  (destruct n; try reflexivity;
   try (match goal with
        | |- context [dsl_iter ev2 ?m ?f ?l ?LL ?i ?st0 ?acc] =>
            let E := fresh "E" in
            pose proof (dsl_iter_mono L1 L2 m f l i st0 acc Hle) as E;
            destruct (dsl_iter ev1 m f l L1 i st0 acc) as [[[[?v|?k| | |?v|[| |]] ?s] ?a] ?b]; cbn [fst] in E;
            try (rewrite E by (unfold dsl_nf; discriminate)); try reflexivity; cbn in H; fuel_absurd
        end);
   try (destruct (dsl_arr st l); [reflexivity|]; apply dsl_reduce_mono; assumption)).
Qed.

Lemma dsl_invoke_mono : forall L1 L2 st f self args, (L1 <= L2)%nat ->
  dsl_nf (fst (dsl_invoke ev1 L1 st f self args)) ->
  dsl_invoke ev2 L2 st f self args = dsl_invoke ev1 L1 st f self args.
Proof.
  intros L1 L2 st f self args Hle H. unfold dsl_invoke in *. cbv zeta in *.
  destruct f; try reflexivity; [apply dsl_call_user_mono; exact H | apply dsl_native_call_mono; assumption].
Qed.

Definition dsl_nfref (r : dsl_refres) : Prop := match r with RrOut o => dsl_nf (fst o) | _ => True end.

Ltac res_cases t := destruct t as [[?v|?k| | |?v|[| |]] ?s].

Ltac crush H :=
  repeat (cbn [dsl_bind fst dsl_nfref dsl_ret dsl_err dsl_lift] in *;
    first
    [ reflexivity
    | fuel_absurd
    | exact I
    | match goal with |- context [if ?x then _ else _] =>
        lazymatch x with context [ev2] => fail | context [ev1] => fail | _ => idtac end;
        let Ex := fresh "Ex" in destruct x eqn:Ex; try rewrite Ex in H end
    | match goal with |- context [match ?x with _ => _ end] =>
        lazymatch x with context [ev2] => fail | context [ev1] => fail | _ => idtac end;
        let Ex := fresh "Ex" in destruct x eqn:Ex; try rewrite Ex in H end
    | match goal with |- context [ev2 ?fr ?st ?e] =>
        let E := fresh "E" in
        pose proof (HR fr st e) as E;
        res_cases (ev1 fr st e); cbn [fst] in E;
        first [ rewrite E by (unfold dsl_nf; discriminate); clear E | (cbn in H; fuel_absurd) ] end ]).

Definition dsl_nfimp (r : dsl_impres) : Prop := match r with IrOut o => dsl_nf (fst o) | _ => True end.

Lemma dsl_find_import_mono : forall imps fr st x,
  dsl_nfimp (dsl_find_import ev1 fr st imps x) -> dsl_find_import ev2 fr st imps x = dsl_find_import ev1 fr st imps x.
Proof.
  induction imps as [|i t IH]; intros fr st x H; [reflexivity|].
  cbn [dsl_find_import] in *.
  pose proof (HR fr st i) as E. destruct (ev1 fr st i) as [r st1] eqn:E1. cbn [fst] in E.
  assert (Hgo : forall v,
    dsl_nfimp (match v with
               | DvEmpty => IrOut (DrErr DkType, st1)
               | DvFun _ | DvNat _ => IrOut (DrAbort DaDomain, st1)
               | DvNum _ _ | DvBool _ | DvStr _ => IrOut (DrErr DkType, st1)
               | _ => if dsl_has_own st1 v x then IrFound v st1 else dsl_find_import ev1 fr st1 t x
               end) ->
    match v with
    | DvEmpty => IrOut (DrErr DkType, st1)
    | DvFun _ | DvNat _ => IrOut (DrAbort DaDomain, st1)
    | DvNum _ _ | DvBool _ | DvStr _ => IrOut (DrErr DkType, st1)
    | _ => if dsl_has_own st1 v x then IrFound v st1 else dsl_find_import ev2 fr st1 t x
    end =
    match v with
    | DvEmpty => IrOut (DrErr DkType, st1)
    | DvFun _ | DvNat _ => IrOut (DrAbort DaDomain, st1)
    | DvNum _ _ | DvBool _ | DvStr _ => IrOut (DrErr DkType, st1)
    | _ => if dsl_has_own st1 v x then IrFound v st1 else dsl_find_import ev1 fr st1 t x
    end).
  { intros v Hv. destruct v; try reflexivity;
    (destruct (dsl_has_own st1 _ x); [reflexivity | apply IH; exact Hv]). }
  destruct r as [v|k| | |v|[| |]];
    first [ (cbn in H; fuel_absurd)
          | rewrite E by (unfold dsl_nf; discriminate); cbv zeta; first [reflexivity | apply Hgo; exact H] ].
Qed.

Lemma dsl_var_read_mono : forall imps fr st x,
  dsl_nf (fst (dsl_var_read ev1 fr st imps x)) -> dsl_var_read ev2 fr st imps x = dsl_var_read ev1 fr st imps x.
Proof.
  intros imps fr st x H. unfold dsl_var_read in *.
  destruct (dsl_dget x (dsl_kv st (dfr_locals fr))); [reflexivity|].
  destruct (dsl_self_has fr st x); [reflexivity|].
  pose proof (dsl_find_import_mono imps fr st x) as E.
  destruct (dsl_find_import ev1 fr st imps x) as [p s1|s1|o]; cbn [dsl_nfimp] in E; rewrite E by (first [exact I | exact H]); reflexivity.
Qed.

Lemma dsl_var_ref_mono : forall imps fr st x,
  dsl_nfref (dsl_var_ref ev1 fr st imps x) -> dsl_var_ref ev2 fr st imps x = dsl_var_ref ev1 fr st imps x.
Proof.
  intros imps fr st x H. unfold dsl_var_ref in *.
  destruct (dsl_dhas x (dsl_kv st (dfr_locals fr))); [reflexivity|].
  destruct (dsl_self_has fr st x); [reflexivity|].
  pose proof (dsl_find_import_mono imps fr st x) as E.
  destruct (dsl_find_import ev1 fr st imps x) as [p s1|s1|o]; cbn [dsl_nfimp dsl_nfref] in *; rewrite E by (first [exact I | exact H]); reflexivity.
Qed.

Lemma dsl_ref_mono : forall e fr st init,
  dsl_nfref (dsl_ref ev1 fr st e init) -> dsl_ref ev2 fr st e init = dsl_ref ev1 fr st e init.
Proof.
  induction e; intros fr st init H; try reflexivity;
    try (cbn [dsl_ref] in *; apply dsl_var_ref_mono; exact H);
    try (cbn [dsl_ref] in *; crush H; fail).
  cbn [dsl_ref] in *. cbv zeta in *.
  pose proof (IHe1 fr st init) as E1.
  destruct (dsl_ref ev1 fr st e1 init) as [vp vi s1| |o] eqn:R1.
  - rewrite E1 by exact I. clear E1. crush H.
  - rewrite E1 by exact I. clear E1. crush H.
  - rewrite E1; [reflexivity|]. exact H.
Qed.

Ltac fin_step E H := first [ rewrite E by (first [exact I | unfold dsl_nf; discriminate]); clear E | (cbn in H; fuel_absurd) ].

Ltac crush2 H L1 L2 Hle :=
  repeat (cbn [dsl_bind fst dsl_nfref dsl_ret dsl_err dsl_lift dsl_new_arr] in *;
    first
    [ reflexivity
    | fuel_absurd
    | match goal with |- context [if ?x then _ else _] =>
        lazymatch x with context [ev2] => fail | context [ev1] => fail | _ => idtac end;
        let Ex := fresh "Ex" in destruct x eqn:Ex; try rewrite Ex in H end
    | match goal with |- context [match ?x with _ => _ end] =>
        lazymatch x with context [ev2] => fail | context [ev1] => fail | _ => idtac end;
        let Ex := fresh "Ex" in destruct x eqn:Ex; try rewrite Ex in H end
    | match goal with |- context [dsl_ref ev2 ?fr ?st ?e ?i] =>
        let E := fresh "E" in pose proof (dsl_ref_mono e fr st i) as E;
        destruct (dsl_ref ev1 fr st e i) as [?vp ?vi ?s| |[[?v|?k| | |?v|[| |]] ?s]]; cbn [dsl_nfref fst] in E; fin_step E H end
    | match goal with |- context [dsl_var_read ev2 ?fr ?st ?imps ?x] =>
        let E := fresh "E" in pose proof (dsl_var_read_mono imps fr st x) as E;
        res_cases (dsl_var_read ev1 fr st imps x); cbn [fst] in E; fin_step E H end
    | match goal with |- context [dsl_eval_list ev2 ?fr ?st ?es] =>
        let E := fresh "E" in pose proof (dsl_eval_list_mono es fr st) as E;
        destruct (dsl_eval_list ev1 fr st es) as [[[?v|?k| | |?v|[| |]] ?s] ?vs]; cbn [fst] in E; fin_step E H end
    | match goal with |- context [dsl_eval_closed ev2 ?fr ?st ?cs] =>
        let E := fresh "E" in pose proof (dsl_eval_closed_mono cs fr st) as E;
        destruct (dsl_eval_closed ev1 fr st cs) as [[[?v|?k| | |?v|[| |]] ?s] ?vs]; cbn [fst] in E; fin_step E H end
    | match goal with |- context [dsl_eval_seq ev2 ?fr ?st ?es ?l] =>
        let E := fresh "E" in pose proof (dsl_eval_seq_mono es fr st l) as E;
        res_cases (dsl_eval_seq ev1 fr st es l); cbn [fst] in E; fin_step E H end
    | match goal with |- context [dsl_while ev2 L2 ?fr ?st ?c ?b] =>
        let E := fresh "E" in pose proof (dsl_while_mono2 L1 L2 fr st c b Hle) as E;
        res_cases (dsl_while ev1 L1 fr st c b); cbn [fst] in E; fin_step E H end
    | match goal with |- context [dsl_for_arr ev2 L2 ?fr ?st ?k ?l ?i ?b] =>
        let E := fresh "E" in pose proof (dsl_for_arr_mono L1 L2 fr st k l i b Hle) as E;
        res_cases (dsl_for_arr ev1 L1 fr st k l i b); cbn [fst] in E; fin_step E H end
    | match goal with |- context [dsl_for_keys ev2 ?fr ?st ?k ?v ?l ?ns ?ks ?b] =>
        let E := fresh "E" in pose proof (dsl_for_keys_mono ks fr st k v l ns b) as E;
        res_cases (dsl_for_keys ev1 fr st k v l ns ks b); cbn [fst] in E; fin_step E H end
    | match goal with |- context [dsl_invoke ev2 L2 ?st ?f ?self ?args] =>
        let E := fresh "E" in pose proof (dsl_invoke_mono L1 L2 st f self args Hle) as E;
        res_cases (dsl_invoke ev1 L1 st f self args); cbn [fst] in E; fin_step E H end
    | match goal with |- context [ev2 ?fr ?st ?e] =>
        let E := fresh "E" in
        pose proof (HR fr st e) as E;
        res_cases (ev1 fr st e); cbn [fst] in E; fin_step E H end ]).

Lemma dsl_do_mono : forall L1 L2 fr st e, (L1 <= L2)%nat ->
  dsl_nf (fst (dsl_do L1 ev1 fr st e)) -> dsl_do L2 ev2 fr st e = dsl_do L1 ev1 fr st e.
Proof.
  intros L1 L2 fr st e Hle H.
  destruct e; cbn [dsl_do] in *; cbv zeta in *; unfold dsl_with_num, dsl_with_str in *; crush2 H L1 L2 Hle.
Qed.
End Mono.

Theorem dsl_eval_mono : forall g L1 L2, (L1 <= L2)%nat -> dsl_ev_le (dsl_eval L1 g) (dsl_eval L2 g).
Proof.
  induction g as [|g IH]; intros L1 L2 Hle fr st e H; [reflexivity|].
  cbn [dsl_eval] in *. apply dsl_do_mono; [apply IH; exact Hle | exact Hle | exact H].
Qed.

(* more loop budget never changes a result that is not "budget exhausted" *)
Corollary dsl_fuel_monotone : forall L1 L2 g fr st e, (L1 <= L2)%nat ->
  fst (dsl_eval L1 g fr st e) <> DrAbort DaFuel -> dsl_eval L2 g fr st e = dsl_eval L1 g fr st e.
Proof. intros. apply dsl_eval_mono; assumption. Qed.

(* ------------------------------------------------------------------ loop-free evaluations never exhaust the loop budget *)
(* With a loop budget of 0 every loop construct - while, for over an array, Array#map/filter/any/all and Array#reduce on a
   non-empty array - stops with DaFuel at the moment it is ENTERED, before its first iteration: evaluation with L = 0 is a
   loop detector.  (for over a dictionary/namespace iterates a snapshot of the keys and needs no budget.) *)
Lemma dsl_loops_need_budget :
  (forall ev fr st c b, dsl_while ev 0 fr st c b = (DrAbort DaFuel, st)) /\
  (forall ev fr st k l i b, dsl_for_arr ev 0 fr st k l i b = (DrAbort DaFuel, st)) /\
  (forall ev mode f l i st acc, dsl_iter ev mode f l 0 i st acc = (DrAbort DaFuel, st, acc, false)) /\
  (forall ev f l i acc st, dsl_reduce ev 0 f l i acc st = (DrAbort DaFuel, st)).
Proof. repeat split. Qed.

(* an evaluation that enters no loop construct (detected with budget 0) yields the same result and store under EVERY loop
   budget; in particular it never ends in DaFuel *)
Theorem dsl_loopfree_no_fuel : forall g fr st e,
  fst (dsl_eval 0 g fr st e) <> DrAbort DaFuel ->
  forall L, dsl_eval L g fr st e = dsl_eval 0 g fr st e /\ fst (dsl_eval L g fr st e) <> DrAbort DaFuel.
Proof.
  intros g fr st e H L.
  assert (E : dsl_eval L g fr st e = dsl_eval 0 g fr st e) by (apply dsl_eval_mono; [apply Nat.le_0_l | exact H]).
  split; [exact E | rewrite E; exact H].
Qed.
