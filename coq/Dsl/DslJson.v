(* C15 - Json.encode / Json.decode on the values of the configuration language: the JSON text model of the codec
   property (Codec/JsModel.v: js_encode, js_decode incl. UTF-8 sanitising, escapes, the nesting limit of the
   regenerated fact Facts_c20.f_js_max_depth) is reused; this file only converts between store values and
   [js_value].  Numbers: integers exactly; a non-integer m/2^e is printed by the code with the shortest
   round-trip representation, which is the exact decimal expansion as long as that has at most 15 significant
   digits - followed here for e <= 6 and |m| < 2^26, otherwise outside the model.  Decoded non-integer
   number tokens are outside the model.  No proofs here. *)
From Coq Require Import ZArith List String Ascii Bool.
From Icv Require Import Dsl.DslDefs Dsl.DslOps Codec.JsModel Facts.Facts_c20.
Import ListNotations.
Local Open Scope string_scope.
Local Open Scope Z_scope.

Definition dsl_jflt : Type := option (Z * nat).      (* Some (m, e): m / 2^e with m odd, e >= 1;  None: a decoded float *)

Definition dsl_bytes (s : string) : list Z := map (fun c => Z.of_N (N_of_ascii c)) (list_ascii_of_string s).
Definition dsl_of_bytes (l : list Z) : string := string_of_list_ascii (map (fun z => ascii_of_N (Z.to_N z)) l).

Fixpoint dsl_pad_left (n : nat) (s : string) : string :=
  match n with O => s | S n' => if Nat.ltb (String.length s) n then dsl_pad_left n' ("0" ++ s) else s end.

(* exact decimal expansion of m / 2^e (m odd, e >= 1): exactly e fractional digits, the last one is 5 *)
Definition dsl_jfprint (f : dsl_jflt) : list Z :=
  match f with
  | Some (m, e) =>
      let n := Z.abs m * Z.pow 5 (Z.of_nat e) in
      let p := Z.pow 10 (Z.of_nat e) in
      dsl_bytes ((if m <? 0 then "-" else "") ++ dsl_zstr (n / p) ++ "." ++ dsl_pad_left e (dsl_zstr (n mod p)))
  | None => []
  end.

(* a JSON number token with a fraction and/or an exponent (strtod): followed when the decimal value N * 10^t is exactly
   an m / 2^e of the model's number domain, i.e. for t < 0 when 5^(-t) divides N; everything else is "a float the model
   does not follow" (never a parse error here: the codec model's overflow case needs |value| > 1.8e308) *)
Fixpoint dsl_jdigits (l : list Z) (acc : Z) (n : nat) : Z * nat * list Z :=
  match l with
  | b :: t => if (48 <=? b) && (b <=? 57) then dsl_jdigits t (acc * 10 + (b - 48)) (S n) else (acc, n, l)
  | [] => (acc, n, [])
  end.

Definition dsl_jfparse (text : list Z) : option dsl_jflt :=
  let '(neg, l1) := match text with b :: t => if b =? 45 then (true, t) else (false, text) | [] => (false, text) end in
  let '(ip, _, l2) := dsl_jdigits l1 0 O in
  let '(nn, k, l3) := match l2 with
                      | b :: t => if b =? 46 then dsl_jdigits t ip O else (ip, O, l2)
                      | [] => (ip, O, l2)
                      end in
  let '(x, l4) := match l3 with
                  | b :: t =>
                      if (b =? 101) || (b =? 69) then
                        match t with
                        | s :: t' => if s =? 45 then let '(v, _, r) := dsl_jdigits t' 0 O in (- v, r)
                                     else if s =? 43 then let '(v, _, r) := dsl_jdigits t' 0 O in (v, r)
                                     else let '(v, _, r) := dsl_jdigits t 0 O in (v, r)
                        | [] => (0, t)
                        end
                      else (0, l3)
                  | [] => (0, l3)
                  end in
  let t := x - Z.of_nat k in
  match l4 with
  | _ :: _ => Some None
  | [] =>
      if (Z.abs t <? 25) && (Nat.ltb k 25) && (nn <? Z.pow 10 30) then
        if nn =? 0 then (if neg then Some None else Some (Some (0, O)))            (* -0.0 *)
        else if 0 <=? t then Some (Some ((if neg then -1 else 1) * nn * Z.pow 10 t, O))
        else let p5 := Z.pow 5 (- t) in
             if nn mod p5 =? 0 then Some (Some ((if neg then -1 else 1) * (nn / p5), Z.to_nat (- t))) else Some None
      else Some None
  end.

Inductive dsl_jres := JrOk (v : js_value dsl_jflt) | JrAbort (a : dsl_abort).

(* store value -> JSON value (lib/base/json.cpp Encode); fuel > number of objects on an acyclic value *)
Fixpoint dsl_to_js (fuel : nat) (st : dsl_store) (v : dsl_val) : dsl_jres :=
  match fuel with
  | O => JrAbort DaCycle
  | S f =>
      match v with
      | DvEmpty => JrOk (JsNull _)
      | DvBool b => JrOk (JsBool _ b)
      | DvNum m O => JrOk (JsNum _ m)
      | DvNum m e => if Nat.leb e 6 && (Z.abs m <? 67108864) then JrOk (JsFlt _ (Some (m, e))) else JrAbort DaDomain
      | DvStr s => JrOk (JsStr _ (dsl_bytes s))
      | DvArr l =>
          (fix go (xs : list dsl_val) (acc : list (js_value dsl_jflt)) : dsl_jres :=
             match xs with
             | [] => JrOk (JsArr _ (rev acc))
             | x :: t => match dsl_to_js f st x with JrOk j => go t (j :: acc) | o => o end
             end) (dsl_arr st l) []
      | DvDict l =>
          (fix go (kv : list (string * dsl_val)) (acc : list (list Z * js_value dsl_jflt)) : dsl_jres :=
             match kv with
             | [] => JrOk (JsObj _ (rev acc))
             | (k, x) :: t => match dsl_to_js f st x with JrOk j => go t ((dsl_bytes k, j) :: acc) | o => o end
             end) (dsl_kv st l) []
      | DvNs _ | DvSys | DvJson | DvTypes => JrAbort DaDomain          (* namespaces are encoded member by member: not followed *)
      | _ => match dsl_to_string st v with                              (* any other object: its ToString() as a JSON string *)
             | SrOk s => JrOk (JsStr _ (dsl_bytes s))
             | SrErr _ => JrAbort DaDomain
             | SrAbort a => JrAbort a
             end
      end
  end.

Definition dsl_json_encode (st : dsl_store) (v : dsl_val) : dsl_res * dsl_store :=
  if dsl_cyclic st v then (DrAbort DaCycle, st)
  else match dsl_to_js (S (S (List.length st))) st v with
       | JrOk j =>
           let s := dsl_of_bytes (js_encode dsl_jflt dsl_jfprint j) in
           if Nat.ltb dsl_size_cap (String.length s) then (DrAbort DaDomain, st) else (DrVal (DvStr s), st)
       | JrAbort a => (DrAbort a, st)
       end.

(* JSON value -> fresh store objects (JsonSax); None: outside the model (non-integer or huge number) *)
Fixpoint dsl_of_js (j : js_value dsl_jflt) (st : dsl_store) : option (dsl_val * dsl_store) :=
  match j with
  | JsNull _ => Some (DvEmpty, st)
  | JsBool _ b => Some (DvBool b, st)
  | JsNum _ z => if Z.abs z <? dsl_two53 then Some (DvNum z 0, st) else None
  | JsFlt _ (Some (m, e)) => match dsl_mknum m e with PrVal v => Some (v, st) | _ => None end
  | JsFlt _ None => None
  | JsStr _ s => Some (DvStr (dsl_of_bytes s), st)
  | JsArr _ l =>
      (fix go (l : list (js_value dsl_jflt)) (st : dsl_store) (acc : list dsl_val) : option (dsl_val * dsl_store) :=
         match l with
         | [] => let '(st', loc) := dsl_alloc st (DoArr (rev acc)) in Some (DvArr loc, st')
         | x :: t => match dsl_of_js x st with Some (v, st') => go t st' (v :: acc) | None => None end
         end) l st []
  | JsObj _ kvs =>
      (fix go (l : list (list Z * js_value dsl_jflt)) (st : dsl_store) (acc : list (string * dsl_val)) : option (dsl_val * dsl_store) :=
         match l with
         | [] => let '(st', loc) := dsl_alloc st (DoDict acc) in Some (DvDict loc, st')
         | (k, x) :: t => match dsl_of_js x st with Some (v, st') => go t st' (dsl_dset (dsl_of_bytes k) v acc) | None => None end
         end) kvs st []
  end.

Definition dsl_json_decode (st : dsl_store) (s : string) : dsl_res * dsl_store :=
  match js_decode dsl_jflt dsl_jfparse f_js_max_depth (dsl_bytes s) with
  | None => (DrErr DkArg, st)
  | Some j => match dsl_of_js j st with Some (v, st') => (DrVal v, st') | None => (DrAbort DaDomain, st) end
  end.
