(* C15 - operator precedence: the %left/%right/%nonassoc declarations of lib/config/config_parser.yy, the operator table of
   doc/17-language-reference.md and the table of the generator's minimal-parenthesis printer (vlib/p_c15.py) - all three
   regenerated into Facts/Facts_c15.v on every run - agree on the binary operators: same relative binding strength for every
   pair, same associativity class, every grammar rule covered; the prefix operators bind tighter than every binary one and
   looser than the postfix ones; ?: binds looser than every binary operator and is right associative.  The domain is the
   finite operator list of the grammar (20 binary operators), decided by computation.  What this does NOT prove: that bison
   resolves every conflict by these declarations alone (the differential run compares that: family precedence). *)
From Coq Require Import ZArith List String Bool Lia.
From Icv Require Import Facts.Facts_c15.
Import ListNotations.
Local Open Scope string_scope.

Fixpoint dsl_assoc_str (k : string) (l : list (string * Z)) : option Z :=
  match l with [] => None | (k', v) :: t => if String.eqb k k' then Some v else dsl_assoc_str k t end.

(* line number (0 = loosest) and associativity code of an operator in the grammar's declarations *)
Fixpoint dsl_yacc_find (op : string) (ls : list (Z * list string)) (i : nat) : option (nat * Z) :=
  match ls with
  | [] => None
  | (a, ops) :: t => if existsb (String.eqb op) ops then Some (i, a) else dsl_yacc_find op t (S i)
  end.
Definition dsl_yacc (op : string) : option (nat * Z) := dsl_yacc_find op f_c15_prec O.

(* the documented level of the BINARY reading of an operator (the table lists + - * & twice: prefix at level 2) *)
Definition dsl_doc_bin (op : string) : option Z := dsl_assoc_str op (filter (fun p => (3 <=? snd p)%Z) f_c15_doc).
Definition dsl_printer_lv (op : string) : option Z := dsl_assoc_str op f_c15_printer.

Definition dsl_binops : list string := map fst f_c15_binrules.

(* one operator: declared in the grammar, documented, known to the printer with the documented level; associativity:
   %left, or %nonassoc exactly where the printer parenthesises both sides *)
Definition dsl_prec_op_ok (op : string) : bool :=
  match dsl_yacc op, dsl_doc_bin op, dsl_printer_lv op with
  | Some (_, a), Some d, Some p =>
      (d =? p)%Z && (if existsb (Z.eqb p) f_c15_printer_nonassoc then (a =? 2)%Z else (a =? 0)%Z)
  | _, _, _ => false
  end.

(* two operators: tighter in the documentation <-> later line in the grammar; equal level <-> same line *)
Definition dsl_prec_pair_ok (o1 o2 : string) : bool :=
  match dsl_yacc o1, dsl_yacc o2, dsl_doc_bin o1, dsl_doc_bin o2 with
  | Some (i1, _), Some (i2, _), Some d1, Some d2 =>
      match Z.compare d1 d2 with
      | Lt => Nat.ltb i2 i1
      | Eq => Nat.eqb i1 i2
      | Gt => Nat.ltb i1 i2
      end
  | _, _, _, _ => false
  end.

Definition dsl_prec_unary_ok : bool :=
  match dsl_yacc ".", dsl_yacc "?" with
  | Some (ipost, _), Some (itern, atern) =>
      (atern =? 1)%Z &&
      forallb (fun u => match dsl_yacc u with
                        | Some (iu, _) => Nat.ltb iu ipost && forallb (fun b => match dsl_yacc b with Some (ib, _) => Nat.ltb ib iu && Nat.ltb itern ib | None => false end) dsl_binops
                        | None => false
                        end) ["!"; "~"; "UNARY_MINUS"; "UNARY_PLUS"; "REF_OP"; "DEREF_OP"]
  | _, _ => false
  end.

Definition dsl_prec_consistent : bool :=
  Nat.eqb (List.length dsl_binops) 20 && Nat.eqb (List.length f_c15_printer) (List.length dsl_binops) &&
  forallb dsl_prec_op_ok dsl_binops &&
  forallb (fun o1 => forallb (dsl_prec_pair_ok o1) dsl_binops) dsl_binops &&
  dsl_prec_unary_ok.

Lemma dsl_prec_consistent_true : dsl_prec_consistent = true.
Proof. vm_compute. reflexivity. Qed.

(* readable form *)
Lemma dsl_prec_tables_agree :
  (forall op, In op dsl_binops ->
     exists i a d, dsl_yacc op = Some (i, a) /\ dsl_doc_bin op = Some d /\ dsl_printer_lv op = Some d /\
                   (a = 2%Z <-> In d f_c15_printer_nonassoc) /\ (a = 0%Z \/ a = 2%Z)) /\
  (forall o1 o2, In o1 dsl_binops -> In o2 dsl_binops ->
     forall i1 a1 i2 a2 d1 d2, dsl_yacc o1 = Some (i1, a1) -> dsl_yacc o2 = Some (i2, a2) -> dsl_doc_bin o1 = Some d1 -> dsl_doc_bin o2 = Some d2 ->
     ((d1 < d2)%Z <-> (i2 < i1)%nat) /\ (d1 = d2 <-> i1 = i2)).
Proof.
  pose proof dsl_prec_consistent_true as H. unfold dsl_prec_consistent in H.
  apply andb_true_iff in H. destruct H as [H Hun].
  apply andb_true_iff in H. destruct H as [H H0].
  apply andb_true_iff in H. destruct H as [H H1].
  split.
  - intros op Hin. rewrite forallb_forall in H1. specialize (H1 op Hin). unfold dsl_prec_op_ok in H1.
    destruct (dsl_yacc op) as [[i a]|]; [|discriminate H1]. destruct (dsl_doc_bin op) as [d|]; [|discriminate H1].
    destruct (dsl_printer_lv op) as [p|]; [|discriminate H1].
    apply andb_true_iff in H1. destruct H1 as [E A]. apply Z.eqb_eq in E. subst p.
    exists i, a, d. repeat split; try reflexivity.
    + intros Ha. subst a. destruct (existsb (Z.eqb d) f_c15_printer_nonassoc) eqn:X; [|discriminate A].
      apply existsb_exists in X. destruct X as [x [Hx Ex]]. apply Z.eqb_eq in Ex. subst x. exact Hx.
    + intros Hd. destruct (existsb (Z.eqb d) f_c15_printer_nonassoc) eqn:X; [apply Z.eqb_eq in A; exact A|].
      exfalso. assert (existsb (Z.eqb d) f_c15_printer_nonassoc = true) as T by (apply existsb_exists; exists d; split; [exact Hd | apply Z.eqb_refl]). congruence.
    + destruct (existsb (Z.eqb d) f_c15_printer_nonassoc); apply Z.eqb_eq in A; auto.
  - intros o1 o2 H1' H2' i1 a1 i2 a2 d1 d2 Y1 Y2 D1 D2.
    rewrite forallb_forall in H0. specialize (H0 o1 H1'). rewrite forallb_forall in H0. specialize (H0 o2 H2').
    unfold dsl_prec_pair_ok in H0. rewrite Y1, Y2, D1, D2 in H0.
    destruct (Z.compare d1 d2) eqn:C.
    + apply Z.compare_eq in C. apply Nat.eqb_eq in H0. subst. split; split; intros; try lia; reflexivity.
    + rewrite Z.compare_lt_iff in C. apply Nat.ltb_lt in H0. split; split; intros; try lia.
    + rewrite Z.compare_gt_iff in C. apply Nat.ltb_lt in H0. split; split; intros; try lia.
Qed.
