(* C15 - "acyclic store => no DaCycle": the abort DaCycle (the model's rendering of the recorded finding cyclic-traversal)
   is only ever produced while a container reachable from itself exists in the store, and an abort leaves the evaluation with
   the store of the moment it was produced.  Hence: if no container of the RESULT store is reachable from itself, the
   evaluation did not end in DaCycle - for every program, frame, store and both budgets. *)
From Coq Require Import ZArith List String Ascii Bool Lia.
From Icv Require Import Dsl.DslDefs Dsl.DslOps Dsl.DslJson Dsl.DslEval Codec.JsModel.
Import ListNotations.
Local Open Scope string_scope.

(* some container is reachable from itself (dsl_cyclic = the test the model itself applies before a structural traversal) *)
Definition dsl_cyc_in (st : dsl_store) : Prop := exists v, dsl_cyclic st v = true.
Definition dsl_acyclic_store (st : dsl_store) : Prop := forall v, dsl_cyclic st v = false.

Lemma dsl_acyclic_not_cyc_in : forall st, dsl_acyclic_store st -> ~ dsl_cyc_in st.
Proof. intros st H [v Hv]. rewrite H in Hv. discriminate. Qed.

(* ------------------------------------------------------------------ the traversals with a recursion budget *)
Lemma dsl_cyc_arr_elems : forall f st path l,
  dsl_cyc (S f) st path (DvArr l) = false -> forall x, In x (dsl_arr st l) -> dsl_cyc f st (l :: path) x = false.
Proof.
  intros f st path l H x Hin. cbn [dsl_cyc] in H.
  destruct (existsb (Nat.eqb l) path); [discriminate|].
  destruct (dsl_cyc f st (l :: path) x) eqn:E; [|reflexivity].
  assert (existsb (dsl_cyc f st (l :: path)) (dsl_arr st l) = true) as T by (apply existsb_exists; exists x; split; assumption).
  rewrite T in H. discriminate.
Qed.

Lemma dsl_cyc_dict_elems : forall f st path l,
  dsl_cyc (S f) st path (DvDict l) = false -> forall kv, In kv (dsl_kv st l) -> dsl_cyc f st (l :: path) (snd kv) = false.
Proof.
  intros f st path l H kv Hin. cbn [dsl_cyc] in H.
  destruct (existsb (Nat.eqb l) path); [discriminate|].
  destruct (dsl_cyc f st (l :: path) (snd kv)) eqn:E; [|reflexivity].
  assert (existsb (fun kv => dsl_cyc f st (l :: path) (snd kv)) (dsl_kv st l) = true) as T by (apply existsb_exists; exists kv; split; assumption).
  rewrite T in H. discriminate.
Qed.

Ltac if_cases := repeat match goal with |- context [if ?c then _ else _] => destruct c end.

(* == : the traversal follows the LEFT operand; it cannot run out of budget on an acyclic one *)
Lemma dsl_veq_acyclic : forall f st path a,
  dsl_cyc f st path a = false -> forall F b, (f < F)%nat -> dsl_veq F st a b <> None.
Proof.
  induction f as [|f IH]; intros st path a H F b HF; [discriminate H|].
  destruct F as [|F]; [lia|]. assert (f < F)%nat as HF' by lia.
  destruct a; try (destruct b; cbn; if_cases; discriminate).
  destruct b; try (cbn; if_cases; discriminate).
  cbn [dsl_veq dsl_is_num dsl_is_bool dsl_is_str dsl_is_empty dsl_is_obj andb orb negb Bool.eqb].
  destruct (Nat.eqb l l0); [discriminate|].
  destruct (negb (Nat.eqb (List.length (dsl_arr st l)) (List.length (dsl_arr st l0)))); [discriminate|].
  pose proof (dsl_cyc_arr_elems f st path l H) as He.
  generalize (dsl_arr st l0). revert He. generalize (dsl_arr st l).
  induction l1 as [|x xs IHx]; intros He ys; [discriminate|].
  destruct ys as [|y ys]; [discriminate|].
  pose proof (IH st (l :: path) x (He x (or_introl eq_refl)) F y HF') as Hx.
  destruct (dsl_veq F st x y) as [[|]|]; [|discriminate|congruence].
  apply IHx. intros z Hz. apply He. right. exact Hz.
Qed.

Lemma dsl_veq_none_cyclic : forall st a b, dsl_veq (dsl_eqfuel st) st a b = None -> dsl_cyclic st a = true.
Proof.
  intros st a b H. unfold dsl_cyclic. destruct (dsl_cyc (S (List.length st)) st [] a) eqn:E; [reflexivity|].
  exfalso. eapply dsl_veq_acyclic; [exact E | | exact H]. unfold dsl_eqfuel. lia.
Qed.

Lemma dsl_contains_none_cyclic : forall st xs v, dsl_contains st xs v = None -> dsl_cyc_in st.
Proof.
  induction xs as [|x t IH]; intros v H; [discriminate H|].
  cbn [dsl_contains] in H. destruct (dsl_veq (dsl_eqfuel st) st x v) as [[|]|] eqn:E; [discriminate| eauto |].
  exists x. eapply dsl_veq_none_cyclic. exact E.
Qed.

Lemma dsl_arr_minus_none_cyclic : forall st xs ys, dsl_arr_minus st xs ys = None -> dsl_cyc_in st.
Proof.
  induction xs as [|x t IH]; intros ys H; [discriminate H|].
  cbn [dsl_arr_minus] in H. destruct (dsl_contains st ys x) eqn:E; [|eapply dsl_contains_none_cyclic; exact E].
  destruct (dsl_arr_minus st t ys) eqn:E2; [discriminate|]. eapply IH. exact E2.
Qed.

(* < and > : same, the traversal follows the left operand (the shorter side is compared as Empty) *)
Lemma dsl_vlt_scalar : forall F st gt a b, (1 <= F)%nat -> dsl_is_arr a = false -> dsl_vlt F st gt a b <> CrAbort DaCycle.
Proof.
  intros F st gt a b HF Ha. destruct F as [|F]; [lia|].
  destruct a; try discriminate Ha; destruct b; cbn; if_cases; try discriminate;
  repeat match goal with |- context [match ?x with _ => _ end] => destruct x end; discriminate.
Qed.

Lemma dsl_vlt_acyclic : forall f st path a,
  dsl_cyc f st path a = false -> forall F gt b, (f < F)%nat -> dsl_vlt F st gt a b <> CrAbort DaCycle.
Proof.
  induction f as [|f IH]; intros st path a H F gt b HF; [discriminate H|].
  destruct a; try (apply dsl_vlt_scalar; [lia | reflexivity]).
  destruct F as [|F]; [lia|]. assert (f < F)%nat as HF' by lia. assert (1 <= F)%nat as HF1 by lia.
  destruct b; try (cbn; if_cases; discriminate).
  cbn [dsl_vlt dsl_is_num dsl_is_empty andb orb negb].
  pose proof (dsl_cyc_arr_elems f st path l H) as He.
  generalize (dsl_arr st l0). revert He. generalize (dsl_arr st l).
  assert (Hgor : forall ys,
    (fix gor (ys : list dsl_val) : dsl_cres :=
       match ys with
       | [] => CrOk false
       | y :: ys' =>
           match dsl_vlt F st gt DvEmpty y with
           | CrOk true => CrOk true
           | CrOk false =>
               match dsl_vlt F st (negb gt) DvEmpty y with
               | CrOk true => CrOk false
               | CrOk false => gor ys'
               | o => o
               end
           | o => o
           end
       end) ys <> CrAbort DaCycle).
  { induction ys as [|y ys IHy]; [discriminate|].
    pose proof (dsl_vlt_scalar F st gt DvEmpty y HF1 eq_refl) as A1.
    pose proof (dsl_vlt_scalar F st (negb gt) DvEmpty y HF1 eq_refl) as A2.
    destruct (dsl_vlt F st gt DvEmpty y) as [[|]| |[| |]]; try discriminate; try congruence.
    destruct (dsl_vlt F st (negb gt) DvEmpty y) as [[|]| |[| |]]; try discriminate; try congruence; try exact IHy. }
  induction l1 as [|x xs IHx]; intros He ys.
  - destruct ys as [|y ys]; [discriminate|].
    pose proof (dsl_vlt_scalar F st gt DvEmpty y HF1 eq_refl) as A1.
    pose proof (dsl_vlt_scalar F st (negb gt) DvEmpty y HF1 eq_refl) as A2.
    destruct (dsl_vlt F st gt DvEmpty y) as [[|]| |[| |]]; try discriminate; try congruence.
    destruct (dsl_vlt F st (negb gt) DvEmpty y) as [[|]| |[| |]]; try discriminate; try congruence; try apply Hgor.
  - assert (Hx : dsl_cyc f st (l :: path) x = false) by (apply He; left; reflexivity).
    assert (Hxs : forall z, In z xs -> dsl_cyc f st (l :: path) z = false) by (intros z Hz; apply He; right; exact Hz).
    destruct ys as [|y ys].
    + pose proof (IH st (l :: path) x Hx F gt DvEmpty HF') as A1.
      pose proof (IH st (l :: path) x Hx F (negb gt) DvEmpty HF') as A2.
      destruct (dsl_vlt F st gt x DvEmpty) as [[|]| |[| |]]; try discriminate; try congruence.
      destruct (dsl_vlt F st (negb gt) x DvEmpty) as [[|]| |[| |]]; try discriminate; try congruence;
      try apply (IHx Hxs []).
    + pose proof (IH st (l :: path) x Hx F gt y HF') as A1.
      pose proof (IH st (l :: path) x Hx F (negb gt) y HF') as A2.
      destruct (dsl_vlt F st gt x y) as [[|]| |[| |]]; try discriminate; try congruence.
      destruct (dsl_vlt F st (negb gt) x y) as [[|]| |[| |]]; try discriminate; try congruence;
      try apply (IHx Hxs ys).
Qed.

Lemma dsl_vlt_abort_cyclic : forall st gt a b, dsl_vlt (dsl_eqfuel st) st gt a b = CrAbort DaCycle -> dsl_cyclic st a = true.
Proof.
  intros st gt a b H. unfold dsl_cyclic. destruct (dsl_cyc (S (List.length st)) st [] a) eqn:E; [reflexivity|].
  exfalso. eapply dsl_vlt_acyclic; [exact E | | exact H]. unfold dsl_eqfuel. lia.
Qed.

(* ------------------------------------------------------------------ primitives *)
(* case analysis on every match/if of a hypothesis until it is contradictory *)
Ltac split_hyp H :=
  repeat (first
    [ discriminate H
    | match type of H with context [match ?x with _ => _ end] =>
        lazymatch x with context [match _ with _ => _ end] => fail | _ => idtac end; destruct x end
    | match type of H with context [if ?x then _ else _] =>
        lazymatch x with context [if _ then _ else _] => fail | _ => idtac end; destruct x end ]).

Lemma dsl_mknum_nc : forall m e, dsl_mknum m e <> PrAbort DaCycle.
Proof. intros m e H. unfold dsl_mknum in H. destruct (dsl_norm m e). split_hyp H. Qed.

Lemma dsl_str_to_num_nc : forall s, dsl_str_to_num s <> PrAbort DaCycle.
Proof.
  intros s H. unfold dsl_str_to_num in H. destruct (dsl_parse_long s).
  - destruct (_ && _); [discriminate|]. exact (dsl_mknum_nc _ _ H).
  - split_hyp H.
Qed.

Lemma dsl_to_double_cyc : forall st v, dsl_to_double st v = PrAbort DaCycle -> dsl_cyclic st v = true.
Proof.
  intros st v H. destruct v; cbn [dsl_to_double] in H; try discriminate;
  try (match type of H with context [dsl_cyclic st ?x] => destruct (dsl_cyclic st x) eqn:E; [reflexivity | discriminate] end).
  destruct (String.eqb s ""); [discriminate|]. exfalso. exact (dsl_str_to_num_nc _ H).
Qed.

Lemma dsl_to_string_cyc : forall st v, dsl_to_string st v = SrAbort DaCycle -> dsl_cyclic st v = true.
Proof.
  intros st v H. destruct v; cbn [dsl_to_string] in H; try discriminate;
  try (match type of H with context [dsl_cyclic st ?x] => destruct (dsl_cyclic st x) eqn:E; [reflexivity | discriminate] end).
  destruct (dsl_numstr m e); discriminate.
Qed.

Lemma dsl_to_int_cyc : forall st v, dsl_to_int st v = PrAbort DaCycle -> dsl_cyclic st v = true.
Proof.
  intros st v H. unfold dsl_to_int in H. destruct (dsl_to_double st v) as [[]|k|a] eqn:E; try discriminate.
  - destruct (dsl_int32_ok _); discriminate.
  - inversion H; subst. apply dsl_to_double_cyc. exact E.
Qed.

Lemma dsl_num2_cyc : forall st f a b,
  (forall m1 e1 m2 e2, f m1 e1 m2 e2 <> PrAbort DaCycle) -> dsl_num2 st f a b = PrAbort DaCycle -> dsl_cyc_in st.
Proof.
  intros st f a b Hf H. unfold dsl_num2 in H.
  destruct (dsl_to_double st a) as [[]|k|x] eqn:Ea; try discriminate.
  - destruct (dsl_to_double st b) as [[]|k|y] eqn:Eb; try discriminate.
    + exfalso. exact (Hf _ _ _ _ H).
    + inversion H; subst. exists b. apply dsl_to_double_cyc. exact Eb.
  - inversion H; subst. exists a. apply dsl_to_double_cyc. exact Ea.
Qed.

Lemma dsl_int2_cyc : forall st f a b,
  (forall x y, f x y <> PrAbort DaCycle) -> dsl_int2 st f a b = PrAbort DaCycle -> dsl_cyc_in st.
Proof.
  intros st f a b Hf H. unfold dsl_int2 in H.
  destruct (dsl_to_int st a) as [[]|k|x] eqn:Ea; try discriminate.
  - destruct (dsl_to_int st b) as [[]|k|y] eqn:Eb; try discriminate.
    + exfalso. exact (Hf _ _ H).
    + inversion H; subst. exists b. apply dsl_to_int_cyc. exact Eb.
  - inversion H; subst. exists a. apply dsl_to_int_cyc. exact Ea.
Qed.

Lemma dsl_nadd_nc : forall a b c d, dsl_nadd a b c d <> PrAbort DaCycle.
Proof. intros. apply dsl_mknum_nc. Qed.
Lemma dsl_nsub_nc : forall a b c d, dsl_nsub a b c d <> PrAbort DaCycle.
Proof. intros. apply dsl_mknum_nc. Qed.
Lemma dsl_nmul_nc : forall a b c d, dsl_nmul a b c d <> PrAbort DaCycle.
Proof. intros a b c d H. unfold dsl_nmul in H. destruct (_ || _); [discriminate|]. exact (dsl_mknum_nc _ _ H). Qed.
Lemma dsl_ndiv_nc : forall a b c d, dsl_ndiv a b c d <> PrAbort DaCycle.
Proof.
  intros a b c d H. unfold dsl_ndiv in H. destruct (dsl_oddpart 64 c 0).
  destruct (_ && _); [discriminate|]. destruct (negb _); [discriminate|]. exact (dsl_mknum_nc _ _ H).
Qed.

Lemma dsl_of_cres_cyc : forall st gt a b,
  dsl_of_cres (dsl_vlt (dsl_eqfuel st) st gt a b) = PrAbort DaCycle -> dsl_cyc_in st.
Proof.
  intros st gt a b H. exists a. destruct (dsl_vlt (dsl_eqfuel st) st gt a b) as [x| |[| |]] eqn:E; try discriminate.
  eapply dsl_vlt_abort_cyclic. exact E.
Qed.

Lemma dsl_vle_nc : forall ge a b, dsl_of_cres (dsl_vle ge a b) <> PrAbort DaCycle.
Proof. intros ge a b H. unfold dsl_vle in H. destruct a, b; cbn in H; split_hyp H. Qed.

(* every operator: DaCycle only while a cyclic container exists; the store is unchanged then *)
Lemma dsl_binop_cyc : forall st op a b,
  fst (dsl_binop_eval st op a b) = PrAbort DaCycle -> dsl_cyc_in (snd (dsl_binop_eval st op a b)).
Proof.
  intros st op a b H.
  destruct op; unfold dsl_binop_eval, dsl_alloc in *; cbv zeta in *;
  repeat match goal with
         | |- context [if ?c then _ else _] => destruct c
         end; cbn [fst snd] in *; try discriminate;
  try (eapply dsl_num2_cyc; [|exact H]; auto using dsl_nadd_nc, dsl_nsub_nc, dsl_nmul_nc, dsl_ndiv_nc; fail);
  try (eapply dsl_int2_cyc; [|exact H]; intros; let X := fresh in intro X; split_hyp X; fail);
  try (eapply dsl_of_cres_cyc; exact H);
  try (exfalso; eapply dsl_vle_nc; exact H).
  - destruct (dsl_to_string st a) as [x|k|r] eqn:Ea; [destruct (dsl_to_string st b) as [y|k2|r2] eqn:Eb | destruct (dsl_to_string st b) as [y|k2|r2] eqn:Eb |];
      cbn [fst snd] in *; try discriminate;
      try (destruct (Nat.ltb _ _); cbn [fst snd] in *; discriminate);
      inversion H; subst; first [ exists b; apply dsl_to_string_cyc; exact Eb | exists a; apply dsl_to_string_cyc; exact Ea ].
  - destruct a; cbn [fst snd] in *; try discriminate. destruct b; cbn [fst snd] in *; try discriminate.
    destruct (dsl_arr_minus st (dsl_arr st l) (dsl_arr st l0)) eqn:E; cbn [fst snd] in *; [discriminate|].
    eapply dsl_arr_minus_none_cyclic. exact E.
  - exists a. destruct (dsl_veq (dsl_eqfuel st) st a b) eqn:E; [discriminate|]. eapply dsl_veq_none_cyclic. exact E.
  - exists a. destruct (dsl_veq (dsl_eqfuel st) st a b) eqn:E; [discriminate|]. eapply dsl_veq_none_cyclic. exact E.
Qed.

(* Json.encode: the traversal cannot run out of budget on an acyclic value *)
Lemma dsl_to_js_acyclic : forall f st path v,
  dsl_cyc f st path v = false -> forall F, (f < F)%nat -> dsl_to_js F st v <> JrAbort DaCycle.
Proof.
  induction f as [|f IH]; intros st path v H F HF; [discriminate H|].
  destruct F as [|F]; [lia|]. assert (f < F)%nat as HF' by lia.
  destruct v; cbn [dsl_to_js dsl_to_string]; try discriminate.
  - destruct e; [discriminate|]. destruct (_ && _); discriminate.
  - pose proof (dsl_cyc_arr_elems f st path l H) as He.
    generalize (@nil (js_value dsl_jflt)). revert He. generalize (dsl_arr st l).
    induction l0 as [|x xs IHx]; intros He acc; [discriminate|].
    pose proof (IH st (l :: path) x (He x (or_introl eq_refl)) F HF') as Hx.
    destruct (dsl_to_js F st x) as [j|[| |]]; try discriminate; try congruence.
    apply IHx. intros z Hz. apply He. right. exact Hz.
  - pose proof (dsl_cyc_dict_elems f st path l H) as He.
    generalize (@nil (list Z * js_value dsl_jflt)). revert He. generalize (dsl_kv st l).
    induction l0 as [|[k x] xs IHx]; intros He acc; [discriminate|].
    pose proof (IH st (l :: path) x (He (k, x) (or_introl eq_refl)) F HF') as Hx.
    destruct (dsl_to_js F st x) as [j|[| |]]; try discriminate; try congruence.
    apply IHx. intros z Hz. apply He. right. exact Hz.
Qed.

Lemma dsl_json_encode_cyc : forall st v, fst (dsl_json_encode st v) = DrAbort DaCycle -> dsl_cyc_in (snd (dsl_json_encode st v)).
Proof.
  intros st v H. unfold dsl_json_encode in *.
  destruct (dsl_cyclic st v) eqn:E; [exists v; exact E|].
  pose proof (dsl_to_js_acyclic (S (List.length st)) st [] v E (S (S (List.length st))) (Nat.lt_succ_diag_r _)) as N.
  destruct (dsl_to_js (S (S (Datatypes.length st))) st v) as [j|a].
  - destruct (Nat.ltb _ _); discriminate.
  - cbn [fst] in H. inversion H; subst. congruence.
Qed.

Lemma dsl_json_decode_nc : forall st s, fst (dsl_json_decode st s) <> DrAbort DaCycle.
Proof.
  intros st s H. unfold dsl_json_decode in H.
  destruct (js_decode _ _ _ _); [|discriminate]. destruct (dsl_of_js _ _) as [[]|]; discriminate.
Qed.

