(* C15 - what a loop visits when its body changes the container that is being iterated.
   The loop functions of DslEval.v are re-stated as "runs" that return, next to the loop's result, the list of body
   evaluations (visits); the first component IS the loop function (dsl_for_keys_run_fst, dsl_for_arr_run_fst), so every
   statement about the visits is a statement about the evaluator.  All statements hold for an ARBITRARY sub-evaluator
   [ev], i.e. whatever the body does to the store (add / remove / replace / clear / rebind, directly or through calls). *)
From Coq Require Import ZArith List String Ascii Bool Lia.
From Icv Require Import Dsl.DslDefs Dsl.DslOps Dsl.DslEval Dsl.DslProofs.
Import ListNotations.
Local Open Scope string_scope.

(* one evaluation of a loop body: the key / index and the value bound, the store the body started in, its outcome *)
Record dsl_visit := { dsl_vi_key : string; dsl_vi_idx : nat; dsl_vi_val : dsl_val; dsl_vi_in : dsl_store; dsl_vi_out : dsl_out }.

(* the loop goes on to the next element after this body outcome (normal end or `continue`) *)
Definition dsl_goes_on (o : dsl_out) : bool := match fst o with DrVal _ | DrContinue => true | _ => false end.

(* ------------------------------------------------------------------ for (k => v in dictionary / namespace) *)
Fixpoint dsl_for_keys_run (ev : dsl_evaluator) (fr : dsl_frame) (st : dsl_store) (k v : string) (l : nat) (isns : bool)
         (keys : list string) (body : dsl_expr) : dsl_out * list dsl_visit :=
  match keys with
  | [] => ((DrVal DvEmpty, st), [])
  | key :: rest =>
      let st1 := dsl_set_local fr st k (DvStr key) in
      match dsl_for_fetch isns st1 l key with
      | None => (dsl_err DkName st1, [])
      | Some cur =>
          let st2 := dsl_set_local fr st1 v cur in
          let vis := {| dsl_vi_key := key; dsl_vi_idx := 0; dsl_vi_val := cur; dsl_vi_in := st2; dsl_vi_out := ev fr st2 body |} in
          match ev fr st2 body with
          | (DrVal _, st3) | (DrContinue, st3) =>
              let '(o, log) := dsl_for_keys_run ev fr st3 k v l isns rest body in (o, vis :: log)
          | (DrBreak, st3) => ((DrVal DvEmpty, st3), [vis])
          | o => (o, [vis])
          end
      end
  end.

Lemma dsl_for_keys_run_fst : forall ev keys fr st k v l isns body,
  fst (dsl_for_keys_run ev fr st k v l isns keys body) = dsl_for_keys ev fr st k v l isns keys body.
Proof.
  intros ev keys. induction keys as [|key rest IH]; intros fr st k v l isns body; cbn [dsl_for_keys_run dsl_for_keys]; [reflexivity|].
  cbv zeta. destruct (dsl_for_fetch isns (dsl_set_local fr st k (DvStr key)) l key) as [cur|]; [|reflexivity].
  destruct (ev fr (dsl_set_local fr (dsl_set_local fr st k (DvStr key)) v cur) body) as [[x|x| | |x|x] st3]; try reflexivity.
  - specialize (IH fr st3 k v l isns body). destruct (dsl_for_keys_run ev fr st3 k v l isns rest body) as [o log]. exact IH.
  - specialize (IH fr st3 k v l isns body). destruct (dsl_for_keys_run ev fr st3 k v l isns rest body) as [o log]. exact IH.
Qed.

(* the keys visited are a PREFIX of the keys the container had when the loop was entered: same order, nothing added
   later is ever visited, nothing is visited twice; so the number of iterations is at most the number of keys at entry *)
Lemma dsl_for_keys_prefix : forall ev keys fr st k v l isns body,
  exists rest, keys = (map dsl_vi_key (snd (dsl_for_keys_run ev fr st k v l isns keys body)) ++ rest)%list.
Proof.
  intros ev keys. induction keys as [|key rest IH]; intros fr st k v l isns body; cbn [dsl_for_keys_run]; [exists []; reflexivity|].
  cbv zeta. destruct (dsl_for_fetch isns (dsl_set_local fr st k (DvStr key)) l key) as [cur|]; [|exists (key :: rest); reflexivity].
  destruct (ev fr (dsl_set_local fr (dsl_set_local fr st k (DvStr key)) v cur) body) as [[x|x| | |x|x] st3];
    try (exists rest; reflexivity).
  - destruct (IH fr st3 k v l isns body) as [r E]. destruct (dsl_for_keys_run ev fr st3 k v l isns rest body) as [o log].
    cbn [snd map app] in *. exists r. rewrite E at 1. reflexivity.
  - destruct (IH fr st3 k v l isns body) as [r E]. destruct (dsl_for_keys_run ev fr st3 k v l isns rest body) as [o log].
    cbn [snd map app] in *. exists r. rewrite E at 1. reflexivity.
Qed.

(* ... and exactly the keys at entry when every body evaluation goes on (no break / return / error): the number of
   iterations EQUALS the number of keys at entry whatever the bodies did to the container - except that a namespace
   member removed meanwhile ends the loop with a script error at its turn (Namespace::Get throws; a dictionary yields null) *)
Lemma dsl_for_keys_all : forall ev keys fr st k v l isns body,
  Forall (fun vis => dsl_goes_on (dsl_vi_out vis) = true) (snd (dsl_for_keys_run ev fr st k v l isns keys body)) ->
  map dsl_vi_key (snd (dsl_for_keys_run ev fr st k v l isns keys body)) = keys \/
  (isns = true /\ fst (dsl_for_keys ev fr st k v l isns keys body) = DrErr DkName).
Proof.
  intros ev keys. induction keys as [|key rest IH]; intros fr st k v l isns body; cbn [dsl_for_keys_run dsl_for_keys]; [left; reflexivity|].
  cbv zeta.
  destruct (dsl_for_fetch isns (dsl_set_local fr st k (DvStr key)) l key) as [cur|] eqn:F;
    [| intros _; right; split; [|reflexivity]; unfold dsl_for_fetch in F;
       destruct (dsl_dget key (dsl_kv (dsl_set_local fr st k (DvStr key)) l)); [discriminate|]; destruct isns; [reflexivity|discriminate]];
    (destruct (ev fr _ body) as [[x|x| | |x|x] st3] eqn:E;
     try (cbn [snd]; intros H; inversion H as [|? ? H1 H2]; subst; cbn [dsl_vi_out] in H1; try rewrite E in H1; cbn in H1; discriminate);
     (specialize (IH fr st3 k v l isns body); destruct (dsl_for_keys_run ev fr st3 k v l isns rest body) as [o log];
      cbn [snd map] in *; intros H; inversion H as [|? ? H1 H2]; subst; destruct (IH H2) as [IH1|IH1]; [left; cbn [dsl_vi_key]; f_equal; exact IH1 | right; exact IH1])).
Qed.

(* the value bound at each iteration is the value the container holds for that key AT THAT MOMENT (after the key variable has
   been bound, which matters for `for (k => v in locals)`): a function of the store the previous body left behind *)
Fixpoint dsl_for_chain (ev : dsl_evaluator) (fr : dsl_frame) (k v : string) (l : nat) (isns : bool) (body : dsl_expr)
         (st : dsl_store) (log : list dsl_visit) : Prop :=
  match log with
  | [] => True
  | vis :: rest =>
      let st1 := dsl_set_local fr st k (DvStr (dsl_vi_key vis)) in
      dsl_for_fetch isns st1 l (dsl_vi_key vis) = Some (dsl_vi_val vis) /\
      dsl_vi_in vis = dsl_set_local fr st1 v (dsl_vi_val vis) /\
      dsl_vi_out vis = ev fr (dsl_vi_in vis) body /\
      dsl_for_chain ev fr k v l isns body (snd (dsl_vi_out vis)) rest
  end.

Lemma dsl_for_keys_chain : forall ev keys fr st k v l isns body,
  dsl_for_chain ev fr k v l isns body st (snd (dsl_for_keys_run ev fr st k v l isns keys body)).
Proof.
  intros ev keys. induction keys as [|key rest IH]; intros fr st k v l isns body; cbn [dsl_for_keys_run]; [exact I|].
  cbv zeta. destruct (dsl_for_fetch isns (dsl_set_local fr st k (DvStr key)) l key) as [cur|] eqn:F; [|exact I].
  destruct (ev fr (dsl_set_local fr (dsl_set_local fr st k (DvStr key)) v cur) body) as [[x|x| | |x|x] st3] eqn:E;
    try (cbn [snd dsl_for_chain dsl_vi_key dsl_vi_val dsl_vi_in dsl_vi_out]; try rewrite E; repeat split; exact F).
  all: specialize (IH fr st3 k v l isns body); destruct (dsl_for_keys_run ev fr st3 k v l isns rest body) as [o log];
    cbn [snd dsl_for_chain dsl_vi_key dsl_vi_val dsl_vi_in dsl_vi_out] in *; try rewrite E; cbn [snd]; repeat split; [exact F | exact IH].
Qed.

(* a dictionary never refuses: the fetch of a key that is gone yields null *)
Lemma dsl_for_fetch_dict : forall st l key,
  dsl_for_fetch false st l key = Some (match dsl_dget key (dsl_kv st l) with Some x => x | None => DvEmpty end).
Proof. intros. unfold dsl_for_fetch. destruct (dsl_dget key (dsl_kv st l)); reflexivity. Qed.

(* the for node: which loop runs over what - the key list is read from the store right after the collection expression
   has been evaluated, before the first binding of the loop variables *)
Lemma dsl_for_node : forall L ev fr st k v coll body,
  dsl_do L ev fr st (DeFor k v coll body) =
  dsl_bind (ev fr st coll) (fun cv st1 =>
    match cv with
    | DvArr l => if negb (String.eqb v "") then dsl_err DkType st1 else dsl_for_arr ev L fr st1 k l 0 body
    | DvDict l => if String.eqb v "" then dsl_err DkType st1 else dsl_for_keys ev fr st1 k v l false (map fst (dsl_kv st1 l)) body
    | DvNs l => if String.eqb v "" then dsl_err DkType st1 else dsl_for_keys ev fr st1 k v l true (map fst (dsl_kv st1 l)) body
    | _ => dsl_err DkType st1
    end).
Proof. reflexivity. Qed.

Theorem dsl_for_dict_snapshot : forall L g fr st k v coll body l st1 (isns : bool),
  String.eqb v "" = false ->
  dsl_eval L g fr st coll = (DrVal (if isns then DvNs l else DvDict l), st1) ->
  let keys := map fst (dsl_kv st1 l) in
  let run := dsl_for_keys_run (dsl_eval L g) fr st1 k v l isns keys body in
  dsl_eval L (S g) fr st (DeFor k v coll body) = fst run /\
  (exists rest, keys = (map dsl_vi_key (snd run) ++ rest)%list) /\
  (Forall (fun vis => dsl_goes_on (dsl_vi_out vis) = true) (snd run) ->
     (map dsl_vi_key (snd run) = keys /\ List.length (snd run) = List.length (dsl_kv st1 l)) \/
     (isns = true /\ fst (fst run) = DrErr DkName)) /\
  dsl_for_chain (dsl_eval L g) fr k v l isns body st1 (snd run).
Proof.
  intros L g fr st k v coll body l st1 isns Hv Hc keys run. subst run.
  split; [|split; [|split]].
  - rewrite dsl_for_keys_run_fst. cbn [dsl_eval]. rewrite dsl_for_node. rewrite Hc. cbn [dsl_bind]. destruct isns; rewrite Hv; reflexivity.
  - apply dsl_for_keys_prefix.
  - intros H. destruct (dsl_for_keys_all _ _ _ _ _ _ _ _ _ H) as [E|[E1 E2]].
    + left. split; [exact E|]. rewrite <- (map_length dsl_vi_key), E. unfold keys. apply map_length.
    + right. split; [exact E1|]. rewrite dsl_for_keys_run_fst. exact E2.
  - apply dsl_for_keys_chain.
Qed.

(* ------------------------------------------------------------------ for (x in array) *)
(* index based, nothing is snapshotted: round i runs iff i < the length the array has NOW and binds the element at index i NOW *)
Fixpoint dsl_for_arr_run (ev : dsl_evaluator) (L : nat) (fr : dsl_frame) (st : dsl_store) (k : string) (l : nat) (i : nat)
         (body : dsl_expr) : dsl_out * list dsl_visit :=
  match L with
  | O => ((DrAbort DaFuel, st), [])
  | S L' =>
      let xs := dsl_arr st l in
      if Nat.leb (List.length xs) i then ((DrVal DvEmpty, st), [])
      else
        let st1 := dsl_set_local fr st k (nth i xs DvEmpty) in
        let vis := {| dsl_vi_key := ""; dsl_vi_idx := i; dsl_vi_val := nth i xs DvEmpty; dsl_vi_in := st1; dsl_vi_out := ev fr st1 body |} in
        match ev fr st1 body with
        | (DrVal _, st2) | (DrContinue, st2) =>
            let '(o, log) := dsl_for_arr_run ev L' fr st2 k l (S i) body in (o, vis :: log)
        | (DrBreak, st2) => ((DrVal DvEmpty, st2), [vis])
        | o => (o, [vis])
        end
  end.

Lemma dsl_for_arr_run_fst : forall ev L fr st k l i body,
  fst (dsl_for_arr_run ev L fr st k l i body) = dsl_for_arr ev L fr st k l i body.
Proof.
  intros ev L. induction L as [|L IH]; intros fr st k l i body; cbn [dsl_for_arr_run dsl_for_arr]; [reflexivity|].
  cbv zeta. destruct (Nat.leb (List.length (dsl_arr st l)) i); [reflexivity|].
  destruct (ev fr (dsl_set_local fr st k (nth i (dsl_arr st l) DvEmpty)) body) as [[x|x| | |x|x] st2]; try reflexivity.
  - specialize (IH fr st2 k l (S i) body). destruct (dsl_for_arr_run ev L fr st2 k l (S i) body). exact IH.
  - specialize (IH fr st2 k l (S i) body). destruct (dsl_for_arr_run ev L fr st2 k l (S i) body). exact IH.
Qed.

Fixpoint dsl_arr_chain (ev : dsl_evaluator) (fr : dsl_frame) (k : string) (l : nat) (body : dsl_expr)
         (st : dsl_store) (i : nat) (log : list dsl_visit) : Prop :=
  match log with
  | [] => True
  | vis :: rest =>
      dsl_vi_idx vis = i /\ (i < List.length (dsl_arr st l))%nat /\
      dsl_vi_val vis = nth i (dsl_arr st l) DvEmpty /\
      dsl_vi_in vis = dsl_set_local fr st k (dsl_vi_val vis) /\
      dsl_vi_out vis = ev fr (dsl_vi_in vis) body /\
      dsl_arr_chain ev fr k l body (snd (dsl_vi_out vis)) (S i) rest
  end.

Lemma dsl_for_arr_chain : forall ev L fr st k l i body,
  dsl_arr_chain ev fr k l body st i (snd (dsl_for_arr_run ev L fr st k l i body)).
Proof.
  intros ev L. induction L as [|L IH]; intros fr st k l i body; cbn [dsl_for_arr_run]; [exact I|].
  cbv zeta. destruct (Nat.leb (List.length (dsl_arr st l)) i) eqn:Hle; [exact I|].
  apply Nat.leb_gt in Hle.
  destruct (ev fr (dsl_set_local fr st k (nth i (dsl_arr st l) DvEmpty)) body) as [[x|x| | |x|x] st2] eqn:E;
    try (cbn [snd dsl_arr_chain dsl_vi_idx dsl_vi_val dsl_vi_in dsl_vi_out]; try rewrite E; repeat split; exact Hle).
  all: specialize (IH fr st2 k l (S i) body); destruct (dsl_for_arr_run ev L fr st2 k l (S i) body) as [o log];
    cbn [snd dsl_arr_chain dsl_vi_idx dsl_vi_val dsl_vi_in dsl_vi_out] in *; try rewrite E; cbn [snd]; repeat split; [exact Hle | exact IH].
Qed.

(* when the loop ends because the elements ran out (every body went on, the loop budget was not exhausted), the index has
   reached the length the array has at THAT moment - not the length at entry *)
Lemma dsl_for_arr_end : forall ev L fr st k l i body,
  Forall (fun vis => dsl_goes_on (dsl_vi_out vis) = true) (snd (dsl_for_arr_run ev L fr st k l i body)) ->
  fst (dsl_for_arr ev L fr st k l i body) <> DrAbort DaFuel ->
  fst (dsl_for_arr ev L fr st k l i body) = DrVal DvEmpty /\
  (List.length (dsl_arr (snd (dsl_for_arr ev L fr st k l i body)) l) <= i + List.length (snd (dsl_for_arr_run ev L fr st k l i body)))%nat.
Proof.
  intros ev L. induction L as [|L IH]; intros fr st k l i body; cbn [dsl_for_arr_run dsl_for_arr]; [intros _ H; exfalso; apply H; reflexivity|].
  cbv zeta. destruct (Nat.leb (List.length (dsl_arr st l)) i) eqn:Hle.
  - intros _ _. apply Nat.leb_le in Hle. cbn [fst snd List.length]. split; [reflexivity | lia].
  - destruct (ev fr (dsl_set_local fr st k (nth i (dsl_arr st l) DvEmpty)) body) as [[x|x| | |x|x] st2] eqn:E;
      try (cbn [snd]; intros H; inversion H as [|? ? H1 H2]; subst; cbn [dsl_vi_out] in H1; try rewrite E in H1; cbn in H1; discriminate).
    all: specialize (IH fr st2 k l (S i) body); destruct (dsl_for_arr_run ev L fr st2 k l (S i) body) as [o log];
      cbn [snd List.length] in *; intros H Hf; inversion H as [|? ? H1 H2]; subst; destruct (IH H2 Hf) as [I1 I2]; split; [exact I1 | lia].
Qed.

Theorem dsl_for_array_live : forall L g fr st k coll body l st1,
  dsl_eval L g fr st coll = (DrVal (DvArr l), st1) ->
  let run := dsl_for_arr_run (dsl_eval L g) L fr st1 k l 0 body in
  dsl_eval L (S g) fr st (DeFor k "" coll body) = fst run /\
  dsl_arr_chain (dsl_eval L g) fr k l body st1 0 (snd run) /\
  (Forall (fun vis => dsl_goes_on (dsl_vi_out vis) = true) (snd run) -> fst (fst run) <> DrAbort DaFuel ->
     fst (fst run) = DrVal DvEmpty /\ (List.length (dsl_arr (snd (fst run)) l) <= List.length (snd run))%nat).
Proof.
  intros L g fr st k coll body l st1 Hc run. subst run. split; [|split].
  - rewrite dsl_for_arr_run_fst. cbn [dsl_eval]. rewrite dsl_for_node. rewrite Hc. reflexivity.
  - apply dsl_for_arr_chain.
  - intros H Hf. rewrite dsl_for_arr_run_fst in *. destruct (dsl_for_arr_end _ _ _ _ _ _ _ _ H Hf) as [A B]. split; [exact A | exact B].
Qed.

(* ------------------------------------------------------------------ callback-taking natives (fix 2c1ef52) and while *)
(* Array#map/filter/any/all and Array#reduce: one round, stated as equations.  Index based like the for loop: the length is
   re-read at every round, the element handed to the callback is the one at index i of the array as it is at that moment,
   the callback runs in the store the previous callback left behind.  (These ARE the definitions, unfolded once: they are
   listed so that the statement the generator family compares against is visible next to the for-loop theorems.) *)
Lemma dsl_iter_round : forall ev mode f l L i st acc,
  dsl_iter ev mode f l (S L) i st acc =
  if Nat.leb (List.length (dsl_arr st l)) i then (DrVal DvEmpty, st, acc, false)
  else
    let item := nth i (dsl_arr st l) DvEmpty in
    match dsl_callback ev st f [item] with
    | (DrVal r, st1) =>
        match mode with
        | DiMap => dsl_iter ev mode f l L (S i) st1 (r :: acc)
        | _ =>
            match dsl_to_double st1 r with
            | PrVal (DvNum m _) =>
                let t := negb (m =? 0)%Z in
                match mode with
                | DiFilter => dsl_iter ev mode f l L (S i) st1 (if t then item :: acc else acc)
                | DiAny => if t then (DrVal DvEmpty, st1, acc, true) else dsl_iter ev mode f l L (S i) st1 acc
                | _ => if t then dsl_iter ev mode f l L (S i) st1 acc else (DrVal DvEmpty, st1, acc, true)
                end
            | PrVal _ => (DrAbort DaDomain, st1, acc, false)
            | PrErr k => (DrErr k, st1, acc, false)
            | PrAbort a => (DrAbort a, st1, acc, false)
            end
        end
    | (o, st1) => (o, st1, acc, false)
    end.
Proof. reflexivity. Qed.

Lemma dsl_reduce_round : forall ev L f l i acc st,
  dsl_reduce ev (S L) f l i acc st =
  if Nat.leb (List.length (dsl_arr st l)) i then (DrVal acc, st)
  else dsl_bind (dsl_callback ev st f [acc; nth i (dsl_arr st l) DvEmpty]) (fun r st1 => dsl_reduce ev L f l (S i) r st1).
Proof. reflexivity. Qed.

(* a callback that empties the array ends the iteration at once, one that keeps it non-empty past the index continues:
   the stop test looks at the store the callback produced *)
Lemma dsl_iter_stops_on_current_length : forall ev mode f l L i st acc,
  (List.length (dsl_arr st l) <= i)%nat -> dsl_iter ev mode f l (S L) i st acc = (DrVal DvEmpty, st, acc, false).
Proof. intros. rewrite dsl_iter_round. apply Nat.leb_le in H. rewrite H. reflexivity. Qed.

Lemma dsl_reduce_stops_on_current_length : forall ev f l L i acc st,
  (List.length (dsl_arr st l) <= i)%nat -> dsl_reduce ev (S L) f l i acc st = (DrVal acc, st).
Proof. intros. rewrite dsl_reduce_round. apply Nat.leb_le in H. rewrite H. reflexivity. Qed.

(* while: the condition is an ordinary expression evaluated again before every round in the store the body left *)
Lemma dsl_while_round : forall ev L fr st c body,
  dsl_while ev (S L) fr st c body =
  dsl_bind (ev fr st c) (fun cv st1 =>
    if negb (dsl_to_bool st1 cv) then (DrVal DvEmpty, st1)
    else match ev fr st1 body with
         | (DrVal _, st2) | (DrContinue, st2) => dsl_while ev L fr st2 c body
         | (DrBreak, st2) => (DrVal DvEmpty, st2)
         | o => o
         end).
Proof. reflexivity. Qed.

Lemma dsl_callback_iteration_live :
  (forall ev mode f l L i st acc, (List.length (dsl_arr st l) <= i)%nat -> dsl_iter ev mode f l (S L) i st acc = (DrVal DvEmpty, st, acc, false)) /\
  (forall ev f l L i acc st, (List.length (dsl_arr st l) <= i)%nat -> dsl_reduce ev (S L) f l i acc st = (DrVal acc, st)) /\
  (forall ev f l L i acc st, (i < List.length (dsl_arr st l))%nat ->
     dsl_reduce ev (S L) f l i acc st =
     dsl_bind (dsl_callback ev st f [acc; nth i (dsl_arr st l) DvEmpty]) (fun r st1 => dsl_reduce ev L f l (S i) r st1)) /\
  (forall ev f l L i st acc, (i < List.length (dsl_arr st l))%nat ->
     dsl_iter ev DiMap f l (S L) i st acc =
     match dsl_callback ev st f [nth i (dsl_arr st l) DvEmpty] with
     | (DrVal r, st1) => dsl_iter ev DiMap f l L (S i) st1 (r :: acc)
     | (o, st1) => (o, st1, acc, false)
     end).
Proof.
  split; [exact dsl_iter_stops_on_current_length | split; [exact dsl_reduce_stops_on_current_length | split]].
  - intros. rewrite dsl_reduce_round. apply Nat.leb_gt in H. rewrite H. reflexivity.
  - intros. rewrite dsl_iter_round. apply Nat.leb_gt in H. rewrite H. cbv zeta.
    destruct (dsl_callback ev st f [nth i (dsl_arr st l) DvEmpty]) as [[x|x| | |x|x] st1]; reflexivity.
Qed.

(* ------------------------------------------------------------------ witnesses *)
Local Open Scope Z_scope.
(* var d = { a = 1 }; var n = 0; for (k => v in d) { n += 1; d[k + "a"] = n }; [n, d.len()] *)
Definition dsl_prog_for_adds : dsl_expr :=
  DeDict true [dsl_var "d" (DeDict false [DeSet DsSet (DeIndex DeThis (dsl_s "a")) (dsl_n 1)]); dsl_var "n" (dsl_n 0);
               DeFor "k" "v" (DeVar "d") (DeDict true [DeSet DsAdd (DeVar "n") (dsl_n 1);
                                                        DeSet DsSet (DeIndex (DeVar "d") (DeBin DbAdd (DeVar "k") (dsl_s "a"))) (DeVar "n")]);
               DeArray [DeVar "n"; dsl_method (DeVar "d") "len" []]].
(* var a = 1; var b = 2; var n = 0; for (k => v in locals) { n += 1 }; n *)
Definition dsl_prog_for_locals : dsl_expr :=
  DeDict true [dsl_var "a" (dsl_n 1); dsl_var "b" (dsl_n 2); dsl_var "n" (dsl_n 0);
               DeFor "k" "v" DeLocals (DeDict true [DeSet DsAdd (DeVar "n") (dsl_n 1)]); DeVar "n"].
(* var d = { a = 1, b = 2, c = 3 }; var log = []; for (k => v in d) { log.add([k, v]); d.remove(k); d.remove("c") }; [log, d] *)
Definition dsl_prog_for_removes : dsl_expr :=
  DeDict true [dsl_var "d" (DeDict false [DeSet DsSet (DeIndex DeThis (dsl_s "a")) (dsl_n 1); DeSet DsSet (DeIndex DeThis (dsl_s "b")) (dsl_n 2);
                                          DeSet DsSet (DeIndex DeThis (dsl_s "c")) (dsl_n 3)]);
               dsl_var "log" (DeArray []);
               DeFor "k" "v" (DeVar "d") (DeDict true [dsl_method (DeVar "log") "add" [DeArray [DeVar "k"; DeVar "v"]];
                                                        dsl_method (DeVar "d") "remove" [DeVar "k"]; dsl_method (DeVar "d") "remove" [dsl_s "c"]]);
               DeArray [DeVar "log"; DeVar "d"]].
(* var a = [1, 2]; var n = 0; for (x in a) { n += 1; if (a.len() < 4) { a.add(x) } }; [n, a] *)
Definition dsl_prog_for_arr_grows : dsl_expr :=
  DeDict true [dsl_var "a" (DeArray [dsl_n 1; dsl_n 2]); dsl_var "n" (dsl_n 0);
               DeFor "x" "" (DeVar "a") (DeDict true [DeSet DsAdd (DeVar "n") (dsl_n 1);
                  DeCond (DeBin DbLt (dsl_method (DeVar "a") "len" []) (dsl_n 4)) (DeDict true [dsl_method (DeVar "a") "add" [DeVar "x"]]) None]);
               DeArray [DeVar "n"; DeVar "a"]].
(* globals.zza = 1; globals.zzb = 2; for (k => v in globals) { globals.remove("zzb") } *)
Definition dsl_prog_for_ns_removed : dsl_expr :=
  DeDict true [DeSet DsSet (DeIndex DeGlobals (dsl_s "zza")) (dsl_n 1); DeSet DsSet (DeIndex DeGlobals (dsl_s "zzb")) (dsl_n 2);
               DeFor "k" "v" DeGlobals (DeDict true [dsl_method DeGlobals "remove" [dsl_s "zzb"]])].

Lemma dsl_loop_witnesses :
  dsl_show_res (dsl_run 400 dsl_prog_for_adds) = "[1,2]"%string /\
  dsl_show_res (dsl_run 400 dsl_prog_for_locals) = "3"%string /\
  dsl_show_res (dsl_run 400 dsl_prog_for_removes) = "[[[""a"",1],[""b"",2],[""c"",null]],{}]"%string /\
  dsl_show_res (dsl_run 400 dsl_prog_for_arr_grows) = "[4,[1,2,1,2]]"%string /\
  fst (dsl_run 400 dsl_prog_for_ns_removed) = DrErr DkName.
Proof. vm_compute. repeat split; reflexivity. Qed.
