(* C15 - proofs about the interpreter of DslEval.v. *)
From Coq Require Import ZArith List String Ascii Bool Lia.
From Icv Require Import Dsl.DslDefs Dsl.DslOps Dsl.DslEval.
Import ListNotations.
Local Open Scope string_scope.
Local Open Scope Z_scope.

(* ------------------------------------------------------------------ determinism *)
(* evaluation is a function of (loop budget, depth budget, frame, store, program): nothing else is consulted *)
Lemma dsl_deterministic : forall L g fr st e r1 r2,
  dsl_eval L g fr st e = r1 -> dsl_eval L g fr st e = r2 -> r1 = r2.
Proof. intros; congruence. Qed.

Lemma dsl_observation_deterministic : forall L prog, dsl_observe (dsl_run L prog) = dsl_observe (dsl_run L prog).
Proof. reflexivity. Qed.

(* loop budget monotonicity for the while loop (fixed sub-evaluator): a result that is not "budget exhausted"
   is not changed by a larger budget *)
Lemma dsl_while_mono_step : forall ev L fr st c b,
  fst (dsl_while ev L fr st c b) <> DrAbort DaFuel ->
  dsl_while ev (S L) fr st c b = dsl_while ev L fr st c b.
Proof.
  intros ev L. induction L as [|L IH]; intros fr st c b H.
  - simpl in H. congruence.
  - remember (S L) as L1. simpl. subst L1.
    change (dsl_while ev (S L) fr st c b) with
      (dsl_bind (ev fr st c) (fun cv st1 =>
        if negb (dsl_to_bool st1 cv) then (DrVal DvEmpty, st1)
        else match ev fr st1 b with
             | (DrVal _, st2) | (DrContinue, st2) => dsl_while ev L fr st2 c b
             | (DrBreak, st2) => (DrVal DvEmpty, st2)
             | o => o
             end)) in *.
    unfold dsl_bind in *.
    destruct (ev fr st c) as [r st1]. destruct r; try reflexivity.
    destruct (negb (dsl_to_bool st1 v)); try reflexivity.
    destruct (ev fr st1 b) as [r2 st2]. destruct r2; try reflexivity; apply IH; exact H.
Qed.

Lemma dsl_while_mono : forall ev L k fr st c b,
  fst (dsl_while ev L fr st c b) <> DrAbort DaFuel ->
  dsl_while ev (k + L) fr st c b = dsl_while ev L fr st c b.
Proof.
  intros ev L k. induction k as [|k IH]; intros fr st c b H; [reflexivity|].
  change (S k + L)%nat with (S (k + L)).
  rewrite dsl_while_mono_step; [apply IH; exact H|].
  rewrite IH; exact H.
Qed.

(* ------------------------------------------------------------------ short circuit *)
(* false && e, true || e, untaken branches: e is not evaluated - the result and the store do not depend on e
   at all, for EVERY e (including programs that would diverge, overflow the stack or crash) *)
Lemma dsl_and_short : forall L g fr st a e va st1,
  dsl_eval L g fr st a = (DrVal va, st1) -> dsl_to_bool st1 va = false ->
  dsl_eval L (S g) fr st (DeAnd a e) = (DrVal va, st1).
Proof. intros. simpl. rewrite H. simpl. rewrite H0. reflexivity. Qed.

Lemma dsl_or_short : forall L g fr st a e va st1,
  dsl_eval L g fr st a = (DrVal va, st1) -> dsl_to_bool st1 va = true ->
  dsl_eval L (S g) fr st (DeOr a e) = (DrVal va, st1).
Proof. intros. simpl. rewrite H. simpl. rewrite H0. reflexivity. Qed.

Lemma dsl_cond_untaken_else : forall L g fr st c t e e' cv st1,
  dsl_eval L g fr st c = (DrVal cv, st1) -> dsl_to_bool st1 cv = true ->
  dsl_eval L (S g) fr st (DeCond c t (Some e)) = dsl_eval L (S g) fr st (DeCond c t (Some e')).
Proof. intros. simpl. rewrite H. simpl. rewrite H0. reflexivity. Qed.

Lemma dsl_cond_untaken_then : forall L g fr st c t t' f cv st1,
  dsl_eval L g fr st c = (DrVal cv, st1) -> dsl_to_bool st1 cv = false ->
  dsl_eval L (S g) fr st (DeCond c t f) = dsl_eval L (S g) fr st (DeCond c t' f).
Proof. intros. simpl. rewrite H. simpl. rewrite H0. reflexivity. Qed.

Lemma dsl_in_empty_short : forall L g fr st a e vb st1,
  dsl_eval L g fr st e = (DrVal vb, st1) -> dsl_is_empty vb = true ->
  dsl_eval L (S g) fr st (DeIn a e) = (DrVal (DvBool false), st1).
Proof. intros. simpl. rewrite H. simpl. rewrite H0. reflexivity. Qed.

Definition dsl_short_circuit_stmt : Prop :=
  (forall L g fr st a e va st1,
     dsl_eval L g fr st a = (DrVal va, st1) -> dsl_to_bool st1 va = false ->
     dsl_eval L (S g) fr st (DeAnd a e) = (DrVal va, st1)) /\
  (forall L g fr st a e va st1,
     dsl_eval L g fr st a = (DrVal va, st1) -> dsl_to_bool st1 va = true ->
     dsl_eval L (S g) fr st (DeOr a e) = (DrVal va, st1)) /\
  (forall L g fr st c t e e' cv st1,
     dsl_eval L g fr st c = (DrVal cv, st1) -> dsl_to_bool st1 cv = true ->
     dsl_eval L (S g) fr st (DeCond c t (Some e)) = dsl_eval L (S g) fr st (DeCond c t (Some e'))) /\
  (forall L g fr st c t t' f cv st1,
     dsl_eval L g fr st c = (DrVal cv, st1) -> dsl_to_bool st1 cv = false ->
     dsl_eval L (S g) fr st (DeCond c t f) = dsl_eval L (S g) fr st (DeCond c t' f)).

Lemma dsl_short_circuit : dsl_short_circuit_stmt.
Proof.
  repeat split.
  - exact dsl_and_short.
  - exact dsl_or_short.
  - exact dsl_cond_untaken_else.
  - exact dsl_cond_untaken_then.
Qed.

(* ------------------------------------------------------------------ depth *)
Fixpoint dsl_nest_not (n : nat) (e : dsl_expr) : dsl_expr :=
  match n with O => e | S n' => DeNot (dsl_nest_not n' e) end.
Fixpoint dsl_nest_arr (n : nat) (e : dsl_expr) : dsl_expr :=
  match n with O => e | S n' => DeArray [dsl_nest_arr n' e] end.
Fixpoint dsl_nest_add (n : nat) (e : dsl_expr) : dsl_expr :=
  match n with O => e | S n' => DeBin DbAdd (dsl_nest_add n' e) (DeLit (DvNum 1 0)) end.

Lemma dsl_depth_zero : forall L fr st e, dsl_eval L 0 fr st e = (DrErr DkStack, st).
Proof. reflexivity. Qed.

(* a chain of g nested nodes around ANY expression exhausts a depth budget of g: Err StackOverflow, store untouched *)
Lemma dsl_depth_not : forall L g fr st e, dsl_eval L g fr st (dsl_nest_not g e) = (DrErr DkStack, st).
Proof. intros L g. induction g as [|g IH]; intros; [reflexivity|]. simpl. rewrite IH. reflexivity. Qed.

Lemma dsl_depth_arr : forall L g fr st e, dsl_eval L g fr st (dsl_nest_arr g e) = (DrErr DkStack, st).
Proof. intros L g. induction g as [|g IH]; intros; [reflexivity|]. simpl. rewrite IH. reflexivity. Qed.

Lemma dsl_depth_add : forall L g fr st e, dsl_eval L g fr st (dsl_nest_add g e) = (DrErr DkStack, st).
Proof. intros L g. induction g as [|g IH]; intros; [reflexivity|]. simpl. rewrite IH. reflexivity. Qed.

(* a function body is evaluated with the caller's remaining budget minus one: recursion consumes depth *)
Lemma dsl_call_consumes_depth : forall L g st l self args params closed body,
  dsl_sget st l = Some (DoFun params closed body) -> (List.length params <= List.length args)%nat ->
  dsl_call_user (dsl_eval L 0) st l self args =
    (DrErr DkStack, fst (dsl_alloc st (DoDict (dsl_bind_args params args (dsl_dmerge closed []))))) /\
  dsl_call_user (dsl_eval L (S g)) st l self args =
    dsl_fun_result (dsl_do L (dsl_eval L g) {| dfr_locals := List.length st; dfr_self := self |}
                           (fst (dsl_alloc st (DoDict (dsl_bind_args params args (dsl_dmerge closed []))))) body).
Proof.
  intros. unfold dsl_call_user. rewrite H.
  assert (Nat.ltb (List.length args) (List.length params) = false) as Hlt by (apply Nat.ltb_ge; exact H0).
  rewrite Hlt. split; reflexivity.
Qed.

Definition dsl_depth_stmt : Prop :=
  (forall L fr st e, dsl_eval L 0 fr st e = (DrErr DkStack, st)) /\
  (forall L g fr st e, dsl_eval L g fr st (dsl_nest_not g e) = (DrErr DkStack, st)) /\
  (forall L g fr st e, dsl_eval L g fr st (dsl_nest_arr g e) = (DrErr DkStack, st)) /\
  (forall L g fr st e, dsl_eval L g fr st (dsl_nest_add g e) = (DrErr DkStack, st)).

Lemma dsl_depth : dsl_depth_stmt.
Proof. repeat split. - exact dsl_depth_not. - exact dsl_depth_arr. - exact dsl_depth_add. Qed.

(* ------------------------------------------------------------------ scoping *)
(* the callee's locals live in a FRESH dictionary (location = size of the store at the call), initialised with the
   captured values and the arguments only: nothing of it is visible to the caller unless the callee hands it out *)
Lemma dsl_call_fresh_locals : forall ev st l self args params closed body,
  dsl_sget st l = Some (DoFun params closed body) -> (List.length params <= List.length args)%nat ->
  dsl_call_user ev st l self args =
    dsl_fun_result (ev {| dfr_locals := List.length st; dfr_self := self |}
                       (st ++ [DoDict (dsl_bind_args params args (dsl_dmerge closed []))])%list body).
Proof.
  intros. unfold dsl_call_user. rewrite H.
  assert (Nat.ltb (List.length args) (List.length params) = false) as Hlt by (apply Nat.ltb_ge; exact H0).
  rewrite Hlt. reflexivity.
Qed.

(* use(x) captures the VALUE x has when the function expression is evaluated *)
Lemma dsl_use_by_value : forall L g fr st x v ps body,
  dsl_dget x (dsl_kv st (dfr_locals fr)) = Some v ->
  dsl_eval L (S (S g)) fr st (DeFunc ps [(x, DeVar x)] body) =
    (DrVal (DvFun (List.length st)), (st ++ [DoFun ps [(x, v)] body])%list).
Proof. intros. cbn [dsl_eval dsl_do dsl_eval_closed]. unfold dsl_var_read. rewrite H. reflexivity. Qed.

(* ... and a later assignment to the local x does not reach into the function object *)
Lemma dsl_sset_other : forall st l o k, k <> l -> dsl_sget (dsl_sset st l o) k = dsl_sget st k.
Proof.
  unfold dsl_sget. induction st as [|h t IH]; intros l o k Hk; [destruct l; reflexivity|].
  destruct l, k; simpl; try reflexivity; try congruence. apply IH. congruence.
Qed.

Lemma dsl_set_local_keeps_closure : forall fr st k v l,
  l <> dfr_locals fr -> dsl_sget (dsl_set_local fr st k v) l = dsl_sget st l.
Proof.
  intros. unfold dsl_set_local, dsl_kv_put.
  destruct (dsl_sget st (dfr_locals fr)) as [[| | | |]|]; apply dsl_sset_other; exact H.
Qed.

Definition dsl_scoping_stmt : Prop :=
  (forall ev st l self args params closed body,
     dsl_sget st l = Some (DoFun params closed body) -> (List.length params <= List.length args)%nat ->
     dsl_call_user ev st l self args =
       dsl_fun_result (ev {| dfr_locals := List.length st; dfr_self := self |}
                          (st ++ [DoDict (dsl_bind_args params args (dsl_dmerge closed []))])%list body)) /\
  (forall L g fr st x v ps body,
     dsl_dget x (dsl_kv st (dfr_locals fr)) = Some v ->
     dsl_eval L (S (S g)) fr st (DeFunc ps [(x, DeVar x)] body) =
       (DrVal (DvFun (List.length st)), (st ++ [DoFun ps [(x, v)] body])%list)) /\
  (forall fr st k v l, l <> dfr_locals fr -> dsl_sget (dsl_set_local fr st k v) l = dsl_sget st l).

Lemma dsl_scoping : dsl_scoping_stmt.
Proof. repeat split. - exact dsl_call_fresh_locals. - exact dsl_use_by_value. - exact dsl_set_local_keeps_closure. Qed.

(* ------------------------------------------------------------------ operator typing: total, ill-typed -> Err *)
Definition dsl_is_numop (op : dsl_binop) : bool :=
  match op with DbMul | DbXor | DbAnd | DbOr | DbShl | DbShr => true | _ => false end.

Lemma dsl_numop_illtyped : forall st op a b,
  dsl_is_numop op = true -> dsl_numguard a b = false -> dsl_binop_eval st op a b = (PrErr DkType, st).
Proof. intros st op a b Hop Hg. destruct op; try discriminate Hop; simpl; rewrite Hg; reflexivity. Qed.

Lemma dsl_div_illtyped : forall st a b,
  dsl_is_empty b = true \/ dsl_is_num b = false -> dsl_binop_eval st DbDiv a b = (PrErr DkType, st).
Proof.
  intros st a b [H|H]; simpl; rewrite H; [reflexivity|].
  destruct (dsl_is_empty b); [reflexivity|]. rewrite andb_false_r. reflexivity.
Qed.

Lemma dsl_div_by_zero : forall st a m e,
  (dsl_is_empty a || dsl_is_num a) = true -> m = 0 -> dsl_binop_eval st DbDiv a (DvNum m e) = (PrErr DkRange, st).
Proof. intros. subst. simpl. rewrite H. reflexivity. Qed.

Lemma dsl_le_illtyped : forall ge a b,
  (dsl_is_str a && dsl_is_str b) = false ->
  ((dsl_is_num a || dsl_is_empty a) && (dsl_is_num b || dsl_is_empty b) && negb (dsl_is_empty a && dsl_is_empty b)) = false ->
  dsl_vle ge a b = CrErr.
Proof.
  intros ge a b Hs Hn. unfold dsl_vle.
  destruct a, b; simpl in *; try discriminate; try reflexivity; try (rewrite Hn; reflexivity);
  try (destruct s; simpl in *; try discriminate; try reflexivity; rewrite ?Hn; reflexivity).
Qed.

(* every operator application returns a value, a script error or one of the model's explicit aborts: the
   operator table is a total function (no stuck state exists by construction); the crash aborts are characterised below *)
Lemma dsl_binop_total : forall st op a b, exists p st', dsl_binop_eval st op a b = (p, st').
Proof. intros. destruct (dsl_binop_eval st op a b) as [p st']. eauto. Qed.

(* the operators fixed in /repo (9eeddcb, 150ea79): array - null is a shallow clone; % re-checks the truncated divisor *)
Lemma dsl_sub_null_clone : forall st l,
  dsl_binop_eval st DbSub (DvArr l) DvEmpty = (PrVal (DvArr (List.length st)), (st ++ [DoArr (dsl_arr st l)])%list).
Proof. intros. reflexivity. Qed.

Lemma dsl_mod_fraction_err : forall st x, dsl_binop_eval st DbMod (DvNum x 0) (DvNum 1 1) = (PrErr DkRange, st) \/
                                          exists a, dsl_binop_eval st DbMod (DvNum x 0) (DvNum 1 1) = (PrAbort a, st).
Proof.
  intros. unfold dsl_binop_eval. cbn [dsl_is_empty dsl_is_num dsl_is_zero Z.eqb].
  unfold dsl_int2, dsl_to_int, dsl_to_double. cbn [dsl_trunc dsl_p2 Nat.max].
  destruct (dsl_int32_ok (dsl_trunc x 0)); [left; reflexivity|right; eexists; reflexivity].
Qed.

Definition dsl_fixed_ops_stmt : Prop :=
  (forall st l, dsl_binop_eval st DbSub (DvArr l) DvEmpty = (PrVal (DvArr (List.length st)), (st ++ [DoArr (dsl_arr st l)])%list)) /\
  (forall st x, dsl_binop_eval st DbMod (DvNum x 0) (DvNum 1 1) = (PrErr DkRange, st) \/
                exists a, dsl_binop_eval st DbMod (DvNum x 0) (DvNum 1 1) = (PrAbort a, st)).
Lemma dsl_fixed_ops : dsl_fixed_ops_stmt.
Proof. split. - exact dsl_sub_null_clone. - exact dsl_mod_fraction_err. Qed.

Definition dsl_total_errors_stmt : Prop :=
  (forall st op a b, exists p st', dsl_binop_eval st op a b = (p, st')) /\
  (forall st op a b, dsl_is_numop op = true -> dsl_numguard a b = false -> dsl_binop_eval st op a b = (PrErr DkType, st)) /\
  (forall st a b, dsl_is_empty b = true \/ dsl_is_num b = false -> dsl_binop_eval st DbDiv a b = (PrErr DkType, st)) /\
  (forall st a m e, (dsl_is_empty a || dsl_is_num a) = true -> m = 0 -> dsl_binop_eval st DbDiv a (DvNum m e) = (PrErr DkRange, st)) /\
  (forall ge a b, (dsl_is_str a && dsl_is_str b) = false ->
     ((dsl_is_num a || dsl_is_empty a) && (dsl_is_num b || dsl_is_empty b) && negb (dsl_is_empty a && dsl_is_empty b)) = false ->
     dsl_vle ge a b = CrErr).

Lemma dsl_total_errors : dsl_total_errors_stmt.
Proof.
  repeat split.
  - apply dsl_binop_total.
  - exact dsl_numop_illtyped.
  - exact dsl_div_illtyped.
  - exact dsl_div_by_zero.
  - exact dsl_le_illtyped.
Qed.

(* ------------------------------------------------------------------ algebraic laws the reference states *)
(* != is the negation of == *)
Lemma dsl_ne_is_not_eq : forall st a b r,
  fst (dsl_binop_eval st DbEq a b) = PrVal (DvBool r) -> fst (dsl_binop_eval st DbNe a b) = PrVal (DvBool (negb r)).
Proof.
  intros st a b r. unfold dsl_binop_eval. destruct (dsl_veq (dsl_eqfuel st) st a b) as [x|]; cbn [fst]; intros H.
  - inversion H. reflexivity.
  - discriminate H.
Qed.

(* an array equals itself (identity short cut: no traversal, also for cyclic arrays) *)
Lemma dsl_eq_same_array : forall st l, fst (dsl_binop_eval st DbEq (DvArr l) (DvArr l)) = PrVal (DvBool true).
Proof. intros. simpl. rewrite Nat.eqb_refl. reflexivity. Qed.

(* dictionaries are compared by identity *)
Lemma dsl_eq_dict_identity : forall st l1 l2,
  fst (dsl_binop_eval st DbEq (DvDict l1) (DvDict l2)) = PrVal (DvBool (Nat.eqb l1 l2)).
Proof. intros. reflexivity. Qed.

(* string + string concatenates (below the model's size cap); "" is neutral *)
Lemma dsl_add_strings : forall st s1 s2,
  (String.length s1 + String.length s2 <= dsl_size_cap)%nat -> s1 <> "" ->
  dsl_binop_eval st DbAdd (DvStr s1) (DvStr s2) = (PrVal (DvStr (s1 ++ s2)), st).
Proof.
  intros st s1 s2 Hc Hne. destruct s1 as [|c s1]; [congruence|].
  unfold dsl_binop_eval. cbn [dsl_is_empty dsl_is_num dsl_is_str negb andb orb dsl_to_string].
  destruct s2 as [|c2 s2]; cbn [dsl_is_empty dsl_is_num dsl_is_str negb andb orb];
  assert (Nat.ltb dsl_size_cap (String.length (String c s1) + String.length _) = false) as E by (apply Nat.ltb_ge; exact Hc);
  rewrite E; reflexivity.
Qed.

(* null + null is an error, null - [..] is the empty array *)
Lemma dsl_add_null_null : forall st, dsl_binop_eval st DbAdd DvEmpty DvEmpty = (PrErr DkType, st).
Proof. reflexivity. Qed.

Definition dsl_laws_stmt : Prop :=
  (forall st a b r, fst (dsl_binop_eval st DbEq a b) = PrVal (DvBool r) -> fst (dsl_binop_eval st DbNe a b) = PrVal (DvBool (negb r))) /\
  (forall st l, fst (dsl_binop_eval st DbEq (DvArr l) (DvArr l)) = PrVal (DvBool true)) /\
  (forall st l1 l2, fst (dsl_binop_eval st DbEq (DvDict l1) (DvDict l2)) = PrVal (DvBool (Nat.eqb l1 l2))) /\
  (forall st s1 s2, (String.length s1 + String.length s2 <= dsl_size_cap)%nat -> s1 <> "" ->
     dsl_binop_eval st DbAdd (DvStr s1) (DvStr s2) = (PrVal (DvStr (s1 ++ s2)), st)) /\
  (forall st, dsl_binop_eval st DbAdd DvEmpty DvEmpty = (PrErr DkType, st)).

Lemma dsl_laws : dsl_laws_stmt.
Proof.
  repeat split.
  - exact dsl_ne_is_not_eq.
  - exact dsl_eq_same_array.
  - exact dsl_add_strings.
Qed.

(* ------------------------------------------------------------------ the recorded findings on the model *)
Definition dsl_s (s : string) : dsl_expr := DeLit (DvStr s).
Definition dsl_n (z : Z) : dsl_expr := DeLit (DvNum z 0).
Definition dsl_var (x : string) (e : dsl_expr) : dsl_expr := DeSet DsSet (DeIndex DeLocals (dsl_s x)) e.
Definition dsl_method (o : dsl_expr) (m : string) (args : list dsl_expr) : dsl_expr := DeCall (DeIndex o (dsl_s m)) args.

(* var a = []; a.add(a); var b = []; b.add(b); a == b *)
Definition dsl_prog_cyclic : dsl_expr :=
  DeDict true [dsl_var "a" (DeArray []); dsl_method (DeVar "a") "add" [DeVar "a"];
               dsl_var "b" (DeArray []); dsl_method (DeVar "b") "add" [DeVar "b"];
               DeBin DbEq (DeVar "a") (DeVar "b")].
(* var a = []; a.add(a); a.to_string() *)
Definition dsl_prog_cyclic_tostring : dsl_expr :=
  DeDict true [dsl_var "a" (DeArray []); dsl_method (DeVar "a") "add" [DeVar "a"]; dsl_method (DeVar "a") "to_string" []].
(* [1] - null *)
Definition dsl_prog_minus_null : dsl_expr := DeDict true [DeBin DbSub (DeArray [dsl_n 1]) (DeLit DvEmpty)].
(* 5 % 0.5 *)
Definition dsl_prog_mod_fraction : dsl_expr := DeDict true [DeBin DbMod (dsl_n 5) (DeLit (DvNum 1 1))].
(* var a = [1]; a.map(function(x) use(a) { if (a.len() < 3) { a.add(x) } }) *)
Definition dsl_prog_iter : dsl_expr :=
  DeDict true [dsl_var "a" (DeArray [dsl_n 1]);
               dsl_method (DeVar "a") "map" [DeFunc ["x"] [("a", DeVar "a")]
                 (DeDict true [DeCond (DeBin DbLt (dsl_method (DeVar "a") "len" []) (dsl_n 3))
                                      (DeDict true [dsl_method (DeVar "a") "add" [DeVar "x"]]) None])]].

Lemma dsl_cyclic_refuted :
  fst (dsl_run 400 dsl_prog_cyclic) = DrAbort DaCycle /\ fst (dsl_run 400 dsl_prog_cyclic_tostring) = DrAbort DaCycle.
Proof. split; vm_compute; reflexivity. Qed.
(* using null; foo  - the lookup of foo reaches the import whose value is null (F-C15-f, fixed by 9625736: a script error) *)
Definition dsl_prog_null_import : dsl_expr := DeDict true [DeLit DvEmpty; DeVarU [DeLit DvEmpty] "foo"].
(* intersection([-5], [-5], [-5, 0, 7]) - the third array is longer than the running result (F-C15-g, fixed by b5e2da1) *)
Definition dsl_prog_isect_alias : dsl_expr :=
  DeDict true [DeCall (DeVar "intersection") [DeArray [dsl_n (-5)]; DeArray [dsl_n (-5)]; DeArray [dsl_n (-5); dsl_n 0; dsl_n 7]]].
(* the neighbours the model follows: a shorter third array; an import that is not reached *)
Definition dsl_prog_isect_ok : dsl_expr :=
  DeDict true [DeCall (DeVar "intersection") [DeArray [dsl_n 1; dsl_n 2; dsl_n 3]; DeArray [dsl_n 3; dsl_n 2; dsl_n 1]; DeArray [dsl_n 2; dsl_n 3]]].
Definition dsl_prog_null_import_unreached : dsl_expr :=
  DeDict true [dsl_var "a" (dsl_n 4); DeLit DvEmpty; DeVarU [DeLit DvEmpty] "a"].

Lemma dsl_null_import_fixed :
  fst (dsl_run 400 dsl_prog_null_import) = DrErr DkType /\
  dsl_observe (dsl_run 400 dsl_prog_null_import_unreached) = ["4"; "{}"; "{""a"":4}"; "{}"].
Proof. split; vm_compute; reflexivity. Qed.

Lemma dsl_isect_alias_fixed :
  dsl_observe (dsl_run 400 dsl_prog_isect_alias) = ["[-5]"; "{}"; "{}"; "{}"] /\
  dsl_observe (dsl_run 400 dsl_prog_isect_ok) = ["[2,3]"; "{}"; "{}"; "{}"].
Proof. split; vm_compute; reflexivity. Qed.

(* after the fixes these witnesses are ordinary programs: value, script error, value *)
Lemma dsl_fixed_witnesses :
  dsl_observe (dsl_run 400 dsl_prog_minus_null) = ["[1]"; "{}"; "{}"; "{}"] /\
  fst (dsl_run 400 dsl_prog_mod_fraction) = DrErr DkRange /\
  dsl_observe (dsl_run 400 dsl_prog_iter) = ["[null,null,null]"; "{}"; "{""a"":[1,1,1]}"; "{}"].
Proof. vm_compute. repeat split; reflexivity. Qed.

(* ------------------------------------------------------------------ the oracle accepts every model trace *)
Lemma dsl_lines_eqb_refl : forall l, dsl_lines_eqb l l = true.
Proof. induction l as [|x l IH]; [reflexivity|]. simpl. rewrite String.eqb_refl, IH. reflexivity. Qed.

Lemma dsl_oracle_accepts_model : forall L prog, dsl_oracle L prog (dsl_observe (dsl_run L prog)) = true.
Proof. intros. unfold dsl_oracle. rewrite dsl_lines_eqb_refl. apply orb_true_r. Qed.

(* and it rejects any other observation of a program the model follows to the end *)
Lemma dsl_lines_eqb_eq : forall a b, dsl_lines_eqb a b = true -> a = b.
Proof.
  induction a as [|x a IH]; destruct b as [|y b]; simpl; intros H; try discriminate; [reflexivity|].
  apply andb_true_iff in H. destruct H as [H1 H2]. apply String.eqb_eq in H1. subst. f_equal. apply IH. exact H2.
Qed.

Lemma dsl_oracle_sound : forall L prog obs,
  dsl_is_abort (dsl_run L prog) = false -> dsl_oracle L prog obs = true -> obs = dsl_observe (dsl_run L prog).
Proof.
  intros L prog obs Ha H. unfold dsl_oracle in H. rewrite Ha in H. simpl in H. symmetry. apply dsl_lines_eqb_eq. exact H.
Qed.
