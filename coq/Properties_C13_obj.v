(* C13, companion file - handlers that touch more than one object.  A Notification / Comment / Downtime has a checkable, a
   Service has a Host, and each carries its own "zone" attribute.  The statement speaks about the object a message CHANGES:
   these theorems say that, in every handler of the table regenerated from the source (coq/Facts/Facts_c13.v, f_mz_tested:
   tools/facts_c13.py compares the argument of Zone::CanAccessObject with the variables the handler changes after its
   checks), the object whose zone the entitlement test reads IS the object that is changed. *)
From Icv Require Import Base.Tac Facts.Facts_c13 Msg.MzModel Msg.MzFacts Msg.MzProofs Msg.MzObs Msg.MzOracleProofs
                        Msg.MzIdx Msg.MzCfg Msg.MzCfgProofs Msg.MzObj Msg.MzObjProofs.
From Coq Require Import String.
Local Open Scope nat_scope.
Local Open Scope string_scope.

(* per row of the generated table: the test names the object changed ("addressed"); or the handler's check reads no object
   at all and the row's pattern agrees ("none"); or the scan could not establish which objects are changed ("unknown": then
   only the correspondence run decides, logged).  A test that is RECOGNISED to name another object - the checkable of the
   notification changed, the host of the service changed, any other variable - stops this proof. *)
Theorem C13_tested_is_modified : forall r, In r mz_table ->
  match mz_sel_lookup (mz_rmethod r) with
  | MzSAddressed => True
  | MzSNone => mz_pat_reads_object (mz_rpat r) = false
  | MzSUnknown => True
  | MzSCheckableOf | MzSHostOf | MzSOther => False
  end.
Proof. exact mz_sel_row_now. Qed.
Print Assumptions C13_tested_is_modified.

(* hence the check of every handler sees exactly the object changed; the zones of its checkable and of its host - wherever
   they are: receiver's zone, parent, child, sibling, global, none - make no difference to what is applied *)
Theorem C13_related_zones_irrelevant : forall r, In r mz_table -> forall t c s om ck ck' h h',
  mz_tested_msg (mz_sel_lookup (mz_rmethod r)) {| mz_om := om; mz_ockzone := ck; mz_ohostzone := h |} = om /\
  mz_authorise_obj t c s {| mz_om := om; mz_ockzone := ck; mz_ohostzone := h |} r =
  mz_authorise_obj t c s {| mz_om := om; mz_ockzone := ck'; mz_ohostzone := h' |} r.
Proof.
  intros r I t c s om ck ck' h h'. split.
  - exact (mz_tested_is_changed r {| mz_om := om; mz_ockzone := ck; mz_ohostzone := h |} I).
  - exact (mz_related_irrelevant t c s om ck ck' h h' r I).
Qed.
Print Assumptions C13_related_zones_irrelevant.

(* C13_sound for the object CHANGED: whoever gets a multi-object handler past its checks is entitled for the zone of the
   object that handler changes (placement hypothesis: THAT object is one the node can hold) *)
Theorem C13_sound_modified_object : forall r, In r mz_table -> forall t c s om,
  mz_wf t -> mz_placed t c (mz_om om) -> mz_zoned s ->
  ~ (mz_ep s = None /\ mz_rep r = false /\ mz_class_of (mz_rmethod r) = Some MzKCertUpdate) ->
  mz_authorise_obj t c s om r = true ->
  exists k, mz_class_of (mz_rmethod r) = Some k /\ mz_entitled t c s (mz_om om) k.
Proof. exact mz_sound_obj. Qed.
Print Assumptions C13_sound_modified_object.

(* why this is load-bearing: the same CanAccessObject test applied to the CHECKABLE of a notification lets an endpoint of a
   child zone change a notification of the receiver's own zone (host in the child zone, notification in the receiver's) *)
Theorem C13_checkable_of_would_break :
  let t := mz_obj_witness_tree in
  let c := {| mz_local := 0; mz_accept_config := false; mz_accept_commands := false |} in
  let s := {| mz_cauth := true; mz_cident := Some (Some 1); mz_cclaim := None |} in
  let r := {| mz_rmethod := "event::SetNextNotification"; mz_rep := true; mz_rpat := MzPCanAccess; mz_rflag := MzFNone |} in
  mz_wf t /\ mz_placed t c (mz_om mz_obj_witness_msg) /\ mz_zoned s /\
  mz_authorise t c s (mz_tested_msg MzSCheckableOf mz_obj_witness_msg) r = true /\
  mz_authorise t c s (mz_tested_msg MzSAddressed mz_obj_witness_msg) r = false /\
  ~ mz_entitled t c s (mz_om mz_obj_witness_msg) MzKStateEvent.
Proof. exact mz_checkable_of_unsound. Qed.
Print Assumptions C13_checkable_of_would_break.

(* the extracted entry point of the multi-object family follows the generated selection, answers like the single-object
   model on the object changed, and the oracle (fed with the zone of the object changed) accepts its answers *)
Theorem C13_object_oracle_accepts_model : forall t c s om ts i name k zp,
  mz_wf t -> nth_error mz_class_table i = Some (name, k) ->
  (forall r, mz_lookup name = Some r -> ~ mz_finding_anon_cert s r) ->
  mz_run_obj_i t c s om ts i zp = mz_run_zp_i t c s (mz_om om) ts i zp /\
  mz_oracle_i t c s (mz_om om) i (mz_run_obj_i t c s om ts i zp) = 0.
Proof.
  intros t c s om ts i name k zp W N NF. split.
  - exact (mz_run_obj_i_spec t c s om ts i name k zp N).
  - exact (mz_oracle_obj_accepts t c s om ts i name k zp W N NF).
Qed.
Print Assumptions C13_object_oracle_accepts_model.

(* WHICH objects changed: the run lists the zones of all fixture objects whose serialised state differs after a message;
   the oracle demands entitlement for EACH of them (code 13 otherwise) and accepts what the model says changed - the one
   object the message names, when it is applied; a message naming an object type the handler does not know changes nothing *)
Theorem C13_changed_objects_oracle_accepts_model : forall t c s om ts i name k zp known,
  mz_wf t -> nth_error mz_class_table i = Some (name, k) -> mz_effectful k = true ->
  (forall r, mz_lookup name = Some r -> ~ mz_finding_anon_cert s r) ->
  mz_applied (mz_run_objk_i t c s om ts i zp false) = false /\
  mz_oracle_i t c s (mz_om om) i (mz_run_objk_i t c s om ts i zp known) = 0 /\
  mz_oracle_changed_i t c s (mz_om om) i (mz_changed_zones (mz_run_objk_i t c s om ts i zp known) om) = 0.
Proof.
  intros t c s om ts i name k zp known W N EF NF.
  exact (conj (mz_run_objk_unknown t c s om ts i zp)
        (conj (mz_oracle_objk_accepts t c s om ts i name k zp known W N NF)
              (mz_oracle_changed_k_accepts t c s om ts i name k zp known W N EF NF))).
Qed.
Print Assumptions C13_changed_objects_oracle_accepts_model.

(* non-vacuity: master (0) - satellite (1); host in the satellite zone, its notification in the master zone.  On the master
   the satellite may move the next check of the host, not the next notification of the master's notification; the master's
   own peer may do both; and the row of event::SetNextNotification reads the notification, not its checkable *)
Example C13_obj_nonvacuous :
  let t := mz_obj_witness_tree in
  let c := {| mz_local := 0; mz_accept_config := false; mz_accept_commands := false |} in
  let from z := {| mz_cauth := true; mz_cident := Some (Some z); mz_cclaim := None |} in
  let host := {| mz_om := {| mz_objzone := Some 1; mz_is_cmdep := false |}; mz_ockzone := Some 1; mz_ohostzone := Some 1 |} in
  match mz_lookup "event::SetNextNotification", mz_lookup "event::SetNextCheck" with
  | Some rn, Some rc =>
      mz_sel_lookup "event::SetNextNotification" = MzSAddressed /\
      mz_authorise_obj t c (from 1) mz_obj_witness_msg rn = false /\ mz_authorise_obj t c (from 0) mz_obj_witness_msg rn = true /\
      mz_authorise_obj t c (from 1) host rc = true
  | _, _ => False
  end.
Proof. vm_compute. repeat split; reflexivity. Qed.
