(* C13 - the property theorems, nothing else.  Each is closed by [exact] of a lemma proved in Msg/*.v and followed by
   Print Assumptions.  [mz_table] is the handler table tools/facts_c13.py regenerates from the source on every run. *)
From Icv Require Import Base.Tac Facts.Facts_c13 Msg.MzModel Msg.MzFacts Msg.MzProofs Msg.MzObs Msg.MzOracleProofs Msg.MzIdx.
From Coq Require Import String.
Local Open Scope nat_scope.
Local Open Scope string_scope.

(* Zone::IsChildOf on acyclic zone trees of arbitrary shape: it decides "a is z or lies below z", and is a partial order *)
Theorem C13_ischildof_order : forall t, mz_wf t ->
  (forall a z, mz_is_child_of t a z = true <-> mz_anc t a z) /\
  (forall a, mz_is_child_of t a a = true) /\
  (forall a b c, mz_is_child_of t a b = true -> mz_is_child_of t b c = true -> mz_is_child_of t a c = true) /\
  (forall a b, mz_is_child_of t a b = true -> mz_is_child_of t b a = true -> a = b).
Proof. exact mz_is_child_of_order. Qed.
Print Assumptions C13_ischildof_order.

(* MessageHandler's origin construction: a sender outside the receiver's zone is attributed to its OWN zone whatever
   "originZone" it claims; only a peer of the receiver's own zone is trusted to name the zone it relays for; a connection
   without Endpoint object has no zone at all.  [mz_eff_zone] is the zone C13_sound's entitlement is stated for. *)
Theorem C13_origin_claim_sound : forall l s,
  (forall ez, mz_ep s = Some (Some ez) -> ez <> l ->
     mz_from_zone l s = Some ez /\ mz_eff_zone l s = Some ez) /\
  (forall z, mz_from_zone l s = Some z ->
     exists ez, mz_cauth s = true /\ mz_cident s = Some ez /\
       ((ez = Some z /\ z <> l) \/ (ez = Some l /\ mz_cclaim s = Some z))) /\
  (mz_ep s = None -> mz_from_zone l s = None /\ mz_eff_zone l s = None).
Proof. exact mz_origin_claim_sound. Qed.
Print Assumptions C13_origin_claim_sound.

(* ... and that construction is the one the translator recognises in the source now (None = compared by the run only) *)
Theorem C13_origin_rule_source :
  match Facts_c13.f_mz_origin_rule with Some r => r = "claim_iff_sender_in_local_zone" | None => True end.
Proof. exact mz_origin_rule_now. Qed.
Print Assumptions C13_origin_rule_source.

(* every registered method: whoever gets past the handler's checks is entitled in the sense of the statement.
   Hypotheses: acyclic tree; the addressed object is one this node can hold (own zone, below, or global);
   Endpoint objects have a zone (Endpoint::OnAllConfigLoaded); and the negated signature of the recorded finding. *)
Theorem C13_sound : forall r, In r mz_table -> forall t c s m,
  mz_wf t -> mz_placed t c m -> mz_zoned s ->
  ~ (mz_ep s = None /\ mz_rep r = false /\ mz_class_of (mz_rmethod r) = Some MzKCertUpdate) ->
  mz_authorise t c s m r = true ->
  exists k, mz_class_of (mz_rmethod r) = Some k /\ mz_entitled t c s m k.
Proof. exact mz_sound. Qed.
Print Assumptions C13_sound.

(* the specification's 28 methods are all registered, and every registered method is classified and adequately checked *)
Theorem C13_table_complete : mz_all_registered = true /\ mz_table_ok mz_table = true.
Proof. exact (conj mz_all_registered_now mz_table_ok_now). Qed.
Print Assumptions C13_table_complete.

(* connections without Endpoint object (unauthenticated, or authenticated under an unconfigured name) can do nothing
   but request a certificate: every other method is refused or has no effect at all *)
Theorem C13_anonymous : forall r, In r mz_table -> forall t c s m k,
  mz_ep s = None -> mz_class_of (mz_rmethod r) = Some k ->
  mz_rmethod r <> "pki::RequestCertificate" ->
  ~ (mz_ep s = None /\ mz_rep r = false /\ mz_class_of (mz_rmethod r) = Some MzKCertUpdate) ->
  mz_authorise t c s m r = false \/ mz_effectful k = false.
Proof. exact mz_anonymous. Qed.
Print Assumptions C13_anonymous.

(* recorded finding anon-update-certificate (F-C13-b): the faithful row of pki::UpdateCertificate lets an
   unauthenticated sender through, on a one-zone tree *)
Theorem C13_anon_update_certificate_refuted :
  exists t c s m,
    mz_wf t /\ mz_placed t c m /\ mz_zoned s /\ mz_cauth s = false /\
    mz_authorise t c s m mz_cert_row_as_found = true /\ mz_effectful MzKCertUpdate = true /\
    ~ mz_entitled t c s m MzKCertUpdate.
Proof. exact mz_anon_update_certificate_refuted. Qed.
Print Assumptions C13_anon_update_certificate_refuted.

(* ... and that row is what the source shows now (or the endpoint test has been added since) *)
Theorem C13_anon_update_certificate_row :
  mz_lookup "pki::UpdateCertificate" = Some mz_cert_row_as_found \/
  (exists r, mz_lookup "pki::UpdateCertificate" = Some r /\ mz_rep r = true).
Proof. exact mz_cert_row_now. Qed.
Print Assumptions C13_anon_update_certificate_row.

(* configuration and command execution: only with the accept flag and only from the own zone or a zone above *)
Theorem C13_flags : forall r, In r mz_table -> forall t c s m,
  mz_wf t -> mz_zoned s -> mz_authorise t c s m r = true ->
  (mz_class_of (mz_rmethod r) = Some MzKConfig ->
     mz_accept_config c = true /\ exists ez, mz_cauth s = true /\ mz_cident s = Some (Some ez) /\ mz_anc t (mz_local c) ez) /\
  (mz_class_of (mz_rmethod r) = Some MzKCommand ->
     mz_accept_commands c = true /\ exists ez, mz_cauth s = true /\ mz_cident s = Some (Some ez) /\ mz_anc t (mz_local c) ez).
Proof. exact mz_flags. Qed.
Print Assumptions C13_flags.

(* a refused message is not applied by MessageHandler *)
Theorem C13_refused_not_applied : forall t c s m ts r eff,
  mz_authorise t c s m r = false -> mz_applied (mz_handle t c s m ts (Some r) eff) = false.
Proof. exact mz_handle_refused. Qed.
Print Assumptions C13_refused_not_applied.

(* why "Endpoint objects have a zone" is a hypothesis: a zone-less endpoint would pass every FromZone-guarded check
   (candidate F-C13-a; not reachable: Endpoint::OnAllConfigLoaded rejects such an object, re-checked on the real code) *)
Theorem C13_zoneless_would_pass : forall t c m claim p,
  match p with MzPCanAccess | MzPCanAccessOrCmdEp | MzPEqLocal | MzPLocalChildOfOrigin | MzPExecZoneChildOfOrigin => True | _ => False end ->
  mz_origin_ok t c {| mz_cauth := true; mz_cident := Some None; mz_cclaim := claim |} m p = true.
Proof. exact mz_zoneless_passes. Qed.
Print Assumptions C13_zoneless_would_pass.

(* the executable oracle run over implementation traces never fires on an answer of the model *)
Theorem C13_oracle_accepts_model : forall t c s m ts method,
  mz_wf t -> (forall r, mz_lookup method = Some r -> ~ mz_finding_anon_cert s r) ->
  mz_oracle_msg t c s m method (mz_run t c s m ts method) = 0.
Proof. exact mz_oracle_accepts_model. Qed.
Print Assumptions C13_oracle_accepts_model.

(* the string-free, index-addressed entry points that are extracted into vmodel are the functions above *)
Theorem C13_extracted_entry_points : forall t c s m ts i name k o,
  nth_error mz_class_table i = Some (name, k) ->
  mz_run_i t c s m ts i = mz_run t c s m ts name /\ mz_oracle_i t c s m i o = mz_oracle_msg t c s m name o.
Proof. intros; split; [eapply mz_run_i_spec|eapply mz_oracle_i_spec]; eassumption. Qed.
Print Assumptions C13_extracted_entry_points.

(* non-vacuity: a depth-3 tree, receiver in the middle; a sender from the parent zone is authorised for a config
   update (flag on) and refused with the flag off; a sender from the child zone is refused; a child-zone sender may
   update the next check of an object in its own zone but not of one in the receiver's zone *)
Example C13_nonvacuous :
  let t := [ {| mz_zparent := None; mz_zglobal := false |};      (* 0 grandparent *)
             {| mz_zparent := Some 0; mz_zglobal := false |};    (* 1 parent *)
             {| mz_zparent := Some 1; mz_zglobal := false |};    (* 2 receiver *)
             {| mz_zparent := Some 2; mz_zglobal := false |};    (* 3 child *)
             {| mz_zparent := None; mz_zglobal := true |} ] in   (* 4 global *)
  let c f := {| mz_local := 2; mz_accept_config := f; mz_accept_commands := false |} in
  let from z := {| mz_cauth := true; mz_cident := Some (Some z); mz_cclaim := None |} in
  let obj z := {| mz_objzone := Some z; mz_is_cmdep := false |} in
  match mz_lookup "config::UpdateObject", mz_lookup "event::SetNextCheck" with
  | Some ru, Some rn =>
      mz_authorise t (c true) (from 1) (obj 2) ru = true /\ mz_authorise t (c false) (from 1) (obj 2) ru = false /\
      mz_authorise t (c true) (from 3) (obj 2) ru = false /\
      mz_authorise t (c true) (from 3) (obj 3) rn = true /\ mz_authorise t (c true) (from 3) (obj 2) rn = false /\
      mz_authorise t (c true) (from 3) (obj 4) rn = true /\ mz_placed t (c true) (obj 3)
  | _, _ => False
  end.
Proof. vm_compute. repeat split; try reflexivity. right. eapply mz_anc_step; [reflexivity|constructor]. Qed.
