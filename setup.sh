#!/bin/bash
# Run once after a fresh restore (offline): build the hook-enabled Icinga objects, the harness,
# the Coq development and the extracted model driver.  Everything lands under /verif/build (git-ignored).
set -e
cd "$(dirname "$0")"
tools/build_icinga.sh
python3 tools/build_vdrive.py
python3 tools/srcfacts.py
tools/gen_coqproject.sh
(cd coq && timeout 3000 make -k -j16 2>&1 | tail -5)
bash tools/build_vmodel.sh
echo "setup done"
