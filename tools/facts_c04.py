"""C04 facts: WHERE two flags are released relative to the execution of a check.
 * f_sch_force_clear_site - SetForceNextCheck(false): Some 0 = in CheckerComponent::CheckThreadProc after the insertion into
   m_PendingCheckables and before QueueAsyncCallback (the model's SchAClearForce; C04_forced holds); Some 1 = in
   ExecuteCheckHelper after ExecuteCheck() returned (C04_forced_late_clear_refuted applies); None = not recognised.
 * f_sch_flag_release_site - `m_CheckRunning = false' inside Checkable::ExecuteCheck: Some 0 = only inside the else-branch of
   `if (local)' (remote executions; the model's SchATaskRemote), Some 1 = also reachable by local executions (behind the
   if/else or inside the local branch: an asynchronous command then loses its only guard), None = not recognised.
 * f_sch_pcr_clears_first - the first statement of ProcessCheckResult clears m_CheckRunning under the ObjectLock.
 * f_sch_tas_shape - `if (m_CheckRunning) return; m_CheckRunning = true;' inside one ObjectLock block.
Unrecognised facts are logged; the dependent statement in coq/Properties_C04.v only excludes the refuted shapes."""
import re

def _strip(s):
    return re.sub(r'/\*.*?\*/|//[^\n]*', '', s, flags=re.S)

def _block(src, start):
    """text of the brace block whose '{' is the first one at or after start; returns (inner, index after the closing brace)"""
    i = src.find('{', start)
    if i < 0:
        return None, -1
    depth = 0
    for j in range(i, len(src)):
        ch = src[j]
        if ch == '{':
            depth += 1
        elif ch == '}':
            depth -= 1
            if depth == 0:
                return src[i + 1:j], j + 1
    return None, -1

def _fn(src, sig):
    m = re.search(sig, src)
    if not m:
        return None
    return _block(src, m.end() - 1)[0]

def run(rd, emit, log, enum_values, ti_default):
    chk = _strip(rd('lib/checker/checkercomponent.cpp'))
    cc = _strip(rd('lib/icinga/checkable-check.cpp'))
    clear = r'SetForceNextCheck\(\s*false\s*\)'
    site = None
    ctp = _fn(chk, r'void\s+CheckerComponent::CheckThreadProc\s*\(\s*\)\s*\{')
    hlp = _fn(chk, r'void\s+CheckerComponent::ExecuteCheckHelper\s*\([^)]*\)\s*\{')
    if ctp is not None and hlp is not None:
        in_ctp = [m.start() for m in re.finditer(clear, ctp)]
        in_hlp = [m.start() for m in re.finditer(clear, hlp)]
        ins = ctp.find('m_PendingCheckables.insert(')
        q = ctp.find('QueueAsyncCallback(')
        ex = re.search(r'->\s*ExecuteCheck\s*\(', hlp)
        if in_hlp and ex and all(p > ex.start() for p in in_hlp):
            site = 1
        elif not in_hlp and len(in_ctp) == 1 and 0 <= ins < in_ctp[0] < q:
            site = 0
    if site is None:
        log.append('C04: site of SetForceNextCheck(false) not recognised (compared only)')
    rel = None
    ec = _fn(cc, r'void\s+Checkable::ExecuteCheck\s*\(\s*\)\s*\{')
    if ec is not None:
        m = re.search(r'if\s*\(\s*local\s*\)\s*\{', ec)
        if m:
            loc_inner, after_if = _block(ec, m.end() - 1)
            m2 = re.match(r'\s*else\s*\{', ec[after_if:]) if after_if > 0 else None
            if loc_inner is not None and m2:
                else_inner, after_else = _block(ec, after_if + m2.end() - 1)
                rx = r'm_CheckRunning\s*=\s*false'
                if else_inner is not None:
                    n_else = len(re.findall(rx, else_inner))
                    n_loc = len(re.findall(rx, loc_inner))
                    n_tail = len(re.findall(rx, ec[after_else:]))
                    n_head = len(re.findall(rx, ec[:m.start()]))
                    if n_loc + n_tail > 0:
                        rel = 1
                    elif n_else >= 1 and n_head == 0:
                        rel = 0
    if rel is None:
        log.append('C04: site of m_CheckRunning = false inside ExecuteCheck not recognised (compared only)')
    pcr = bool(re.search(r'Checkable::ProcessCheckResult\s*\([^)]*\)\s*\{\s*using\s+Result\s*=\s*Checkable::ProcessingResult\s*;\s*'
                         r'\{\s*ObjectLock\s+\w+\s*\(\s*this\s*\)\s*;\s*m_CheckRunning\s*=\s*false\s*;\s*\}', cc))
    tas = bool(ec and re.search(r'\{\s*ObjectLock\s+\w+\s*\(\s*this\s*\)\s*;\s*if\s*\(\s*m_CheckRunning\s*\)\s*return\s*;\s*m_CheckRunning\s*=\s*true\s*;', ec))
    for k, v in (('f_sch_pcr_clears_first', pcr), ('f_sch_tas_shape', tas)):
        if not v:
            log.append('C04: %s not recognised (compared only)' % k)
    opt = lambda v: 'None' if v is None else 'Some (%d)' % v
    emit('Facts_c04.v',
         'Definition f_sch_force_clear_site : option Z := %s.\n' % opt(site) +
         'Definition f_sch_flag_release_site : option Z := %s.\n' % opt(rel) +
         'Definition f_sch_pcr_clears_first : bool := %s.\n' % ('true' if pcr else 'false') +
         'Definition f_sch_tas_shape : bool := %s.\n' % ('true' if tas else 'false'))
