#!/usr/bin/env python3
"""integrator helper: import a confirmed seeded change from /tmp/seed/<ID>/out/<v> into seeded/<ID><v>/
   tools/seed_import.py <ID> <v> [round]"""
import sys, json, os, shutil
HERE = os.path.dirname(os.path.dirname(os.path.abspath(__file__)))
pid, v = sys.argv[1], sys.argv[2]
rnd = int(sys.argv[3]) if len(sys.argv) > 3 else 3
src = '/tmp/seed/%s/out/%s' % (pid, v)
dst = HERE + '/seeded/%s%s' % (pid, v)
os.makedirs(dst, exist_ok=True)
for f in ('patch.diff', 'demo.diff', 'demo.md'):
    if os.path.exists(src + '/' + f): shutil.copy(src + '/' + f, dst + '/' + f)
m = json.load(open(src + '/meta.json'))
m['round'] = rnd
m['written_by'] = 'fresh sub-agent given only the property text and its own scratch worktree of /repo (nothing from /verif)'
log = [l.strip()[:400] for l in open(src + '/confirm.log') if l.strip()]
m['integrator_confirmation'] = {'how': 'scratch worktree at /repo HEAD (first log line), /var/tmp/seedtools/confirm.sh: apply patch.diff, build, full ctest; apply demo.diff, build, full ctest; revert patch, build, full ctest', 'log': log}
ok = any(l.startswith('suite_with_change: 100% tests passed, 0 tests failed out of 182') for l in log) and \
     any(l.startswith('demo_with_change:') and 'Failed' in l for l in log) and \
     any(l.startswith('demo_without_change: 100% tests passed') for l in log)
m['integrator_confirmation']['confirmed'] = ok
m.setdefault('verif_checks', {'verdict': 'pending', 'results': {}})
json.dump(m, open(dst + '/meta.json', 'w'), indent=1)
print(dst, 'confirmed' if ok else 'NOT CONFIRMED')
