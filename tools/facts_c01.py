"""C01 facts: the bodies of Host::CalculateState, Host::IsStateOK, Service::IsStateOK."""
import re

def fn_body(src, sig_re):
    m = re.search(sig_re + r'[^{;]*\{', src)
    if not m:
        return None
    i = m.end()
    depth = 1
    j = i
    while j < len(src) and depth:
        if src[j] == '{': depth += 1
        elif src[j] == '}': depth -= 1
        j += 1
    return src[i:j - 1]

def run(rd, emit, log, enum_values, ti_default):
    host = rd('lib/icinga/host.cpp')
    svc = rd('lib/icinga/service.cpp')
    body = 'Require Import Icv.Facts.Facts_enums.\n\n'
    # Host::CalculateState: switch with case labels -> table over the four service states
    b = fn_body(host, r'HostState\s+Host::CalculateState\s*\(\s*ServiceState\s+state\s*\)')
    table = None
    if b:
        b = re.sub(r'/\*.*?\*/|//[^\n]*', '', b, flags=re.S)
        m = re.match(r'\s*switch\s*\(\s*state\s*\)\s*\{(.*)\}\s*$', b, re.S)
        if m:
            table = {}
            default = None
            pending = []
            for tok in re.finditer(r'case\s+(\w+)\s*:|default\s*:|return\s+(\w+)\s*;', m.group(1)):
                t = tok.group(0)
                if t.startswith('case'):
                    pending.append(tok.group(1))
                elif t.startswith('default'):
                    pending.append('__default__')
                else:
                    for p in pending:
                        if p == '__default__': default = tok.group(2)
                        else: table[p] = tok.group(2)
                    pending = []
            for s in ('ServiceOK', 'ServiceWarning', 'ServiceCritical', 'ServiceUnknown'):
                if s not in table:
                    if default is None:
                        table = None
                        break
                    table[s] = default
    if table:
        body += 'Definition f_calculate_state : option (list (Z * Z)) := Some [%s].\n' % '; '.join(
            '(f_%s, f_%s)' % (s, table[s]) for s in ('ServiceOK', 'ServiceWarning', 'ServiceCritical', 'ServiceUnknown'))
    else:
        log.append('C01: Host::CalculateState not recognised')
        body += 'Definition f_calculate_state : option (list (Z * Z)) := None.\n'
    b = fn_body(host, r'bool\s+Host::IsStateOK\s*\(\s*ServiceState\s+state\s*\)\s*const')
    ok = bool(b and re.match(r'\s*return\s+(?:Host::)?CalculateState\s*\(\s*state\s*\)\s*==\s*HostUp\s*;\s*$', b))
    if not ok: log.append('C01: Host::IsStateOK not recognised')
    body += 'Definition f_host_is_state_ok_is_up : bool := %s.\n' % ('true' if ok else 'false')
    b = fn_body(svc, r'bool\s+Service::IsStateOK\s*\(\s*ServiceState\s+state\s*\)\s*const')
    m = re.match(r'\s*return\s+state\s*==\s*(\w+)\s*;\s*$', b or '')
    if not m: log.append('C01: Service::IsStateOK not recognised')
    body += 'Definition f_service_ok_state : option Z := %s.\n' % ('Some f_' + m.group(1) if m else 'None')
    emit('Facts_c01.v', body)
