"""C01 facts: the bodies of Host::CalculateState, Host::IsStateOK, Service::IsStateOK; the lock structure of
Checkable::ProcessCheckResult (which reads and writes of the state fields the ObjectLock covers)."""
import re

def fn_body(src, sig_re):
    m = re.search(sig_re + r'[^{;]*\{', src)
    if not m:
        return None
    i = m.end()
    depth = 1
    j = i
    while j < len(src) and depth:
        if src[j] == '{': depth += 1
        elif src[j] == '}': depth -= 1
        j += 1
    return src[i:j - 1]

def run(rd, emit, log, enum_values, ti_default):
    host = rd('lib/icinga/host.cpp')
    svc = rd('lib/icinga/service.cpp')
    body = 'Require Import Icv.Facts.Facts_enums.\n\n'
    # Host::CalculateState: switch with case labels -> table over the four service states
    b = fn_body(host, r'HostState\s+Host::CalculateState\s*\(\s*ServiceState\s+state\s*\)')
    table = None
    if b:
        b = re.sub(r'/\*.*?\*/|//[^\n]*', '', b, flags=re.S)
        m = re.match(r'\s*switch\s*\(\s*state\s*\)\s*\{(.*)\}\s*$', b, re.S)
        if m:
            table = {}
            default = None
            pending = []
            for tok in re.finditer(r'case\s+(\w+)\s*:|default\s*:|return\s+(\w+)\s*;', m.group(1)):
                t = tok.group(0)
                if t.startswith('case'):
                    pending.append(tok.group(1))
                elif t.startswith('default'):
                    pending.append('__default__')
                else:
                    for p in pending:
                        if p == '__default__': default = tok.group(2)
                        else: table[p] = tok.group(2)
                    pending = []
            for s in ('ServiceOK', 'ServiceWarning', 'ServiceCritical', 'ServiceUnknown'):
                if s not in table:
                    if default is None:
                        table = None
                        break
                    table[s] = default
    if table:
        body += 'Definition f_calculate_state : option (list (Z * Z)) := Some [%s].\n' % '; '.join(
            '(f_%s, f_%s)' % (s, table[s]) for s in ('ServiceOK', 'ServiceWarning', 'ServiceCritical', 'ServiceUnknown'))
    else:
        log.append('C01: Host::CalculateState not recognised')
        body += 'Definition f_calculate_state : option (list (Z * Z)) := None.\n'
    b = fn_body(host, r'bool\s+Host::IsStateOK\s*\(\s*ServiceState\s+state\s*\)\s*const')
    ok = bool(b and re.match(r'\s*return\s+(?:Host::)?CalculateState\s*\(\s*state\s*\)\s*==\s*HostUp\s*;\s*$', b))
    if not ok: log.append('C01: Host::IsStateOK not recognised')
    body += 'Definition f_host_is_state_ok_is_up : bool := %s.\n' % ('true' if ok else 'false')
    b = fn_body(svc, r'bool\s+Service::IsStateOK\s*\(\s*ServiceState\s+state\s*\)\s*const')
    m = re.match(r'\s*return\s+state\s*==\s*(\w+)\s*;\s*$', b or '')
    if not m: log.append('C01: Service::IsStateOK not recognised')
    body += 'Definition f_service_ok_state : option Z := %s.\n' % ('Some f_' + m.group(1) if m else 'None')
    body += pcr_lock_facts(rd('lib/icinga/checkable-check.cpp'), log)
    emit('Facts_c01.v', body)


# ---- lock structure of Checkable::ProcessCheckResult (concurrent results, coq/Ck/CkConc.v) ----
PCR_READS = ('GetLastCheckResult', 'GetStateRaw', 'GetStateType', 'GetCheckAttempt', 'GetLastStateRaw', 'GetLastHardStateRaw',
             'GetLastHardStatesRaw', 'GetLastSoftStatesRaw')
PCR_WRITES = ('SetStateRaw', 'SetStateType', 'SetCheckAttempt', 'SetLastHardStateRaw', 'SetLastHardStatesRaw', 'SetLastSoftStatesRaw')


def strip_comments_keep_offsets(src):
    """comments and string literals blanked out (same length), so that positions stay comparable"""
    def blank(m):
        return re.sub(r'[^\n]', ' ', m.group(0))
    return re.sub(r'/\*.*?\*/|//[^\n]*|"(?:\\.|[^"\\\n])*"', blank, src, flags=re.S)


def depth0_positions(body, regex):
    """start offsets of the matches of regex that sit at brace depth 0 of body (statements of the function itself)"""
    depth = []
    d = 0
    for ch in body:
        depth.append(d)
        if ch == '{': d += 1
        elif ch == '}': d -= 1
    return [(m.start(), m) for m in re.finditer(regex, body) if depth[m.start()] == 0]


def pcr_lock_facts(src, log):
    """f_pcr_lock_covers_rmw: the function-level `ObjectLock x(this);' is taken before the first read of the previous
         state and not released before the last write of the state fields (Some true) / a read precedes it or a write
         follows its first release (Some false) / shape not recognised (None, compared only).
       f_pcr_cr_in_rmw_section: SetLastCheckResult(cr) happens before that first release (Some true) or in a later
         critical section (Some false).
       f_pcr_event_type_reread: the soft-event test after the critical sections reads GetStateType() again (Some true) or
         uses no getter (Some false)."""
    out = {'f_pcr_lock_covers_rmw': None, 'f_pcr_cr_in_rmw_section': None, 'f_pcr_event_type_reread': None}
    found = 'not found'
    clean = strip_comments_keep_offsets(src)
    m = re.search(r'Checkable::ProcessingResult\s+Checkable::ProcessCheckResult\s*\([^)]*\)\s*\{', clean)
    if m:
        i = m.end(); d = 1; j = i
        while j < len(clean) and d:
            if clean[j] == '{': d += 1
            elif clean[j] == '}': d -= 1
            j += 1
        body = clean[i:j - 1]
        locks = depth0_positions(body, r'\bObjectLock\s+(\w+)\s*\(\s*this\s*\)\s*;')
        reads = [mm.start() for mm in re.finditer(r'\b(?:this->)?(%s)\s*\(\s*\)' % '|'.join(PCR_READS), body)]
        writes = [mm.start() for mm in re.finditer(r'\b(?:this->)?(%s)\s*\(' % '|'.join(PCR_WRITES), body)]
        if len(locks) == 1 and reads and writes:
            lpos, lm = locks[0]
            name = lm.group(1)
            unl = [mm.start() for mm in re.finditer(r'\b%s\s*\.\s*Unlock\s*\(\s*\)' % re.escape(name), body) if mm.start() > lpos]
            first_unlock = min(unl) if unl else len(body)
            # reads of the previous state that feed the transition are those up to the last state write
            first_read, last_write = min(reads), max(writes)
            covers = lpos < first_read and last_write < first_unlock
            out['f_pcr_lock_covers_rmw'] = covers
            line = lambda pos: src[:m.end() + pos].count('\n') + 1
            found = 'lock line %d, first read of the previous state line %d, last state write line %d, first release %s' % (
                line(lpos), line(first_read), line(last_write), ('line %d' % line(first_unlock)) if unl else 'end of scope')
            crs = [mm.start() for mm in re.finditer(r'\bSetLastCheckResult\s*\(', body)]
            if crs:
                out['f_pcr_cr_in_rmw_section'] = lpos < min(crs) and max(crs) < first_unlock
                found += ', SetLastCheckResult line %d' % line(min(crs))
            # the soft-event branch: `else if (<cond>) { OnStateChange(this, cr, StateTypeSoft, origin);'
            em = re.search(r'else\s+if\s*\(([^{};]*)\)\s*\{\s*OnStateChange\s*\(\s*this\s*,\s*\w+\s*,\s*StateTypeSoft\b', body)
            if em and em.start() > first_unlock:
                cond = em.group(1)
                if re.search(r'\bGetStateType\s*\(\s*\)', cond):
                    out['f_pcr_event_type_reread'] = True
                elif not re.search(r'\bGet\w+\s*\(', cond):
                    out['f_pcr_event_type_reread'] = False
                found += ', soft-event test "%s"' % ' '.join(cond.split())
    for k, v in out.items():
        if v is None:
            log.append('C01: %s not recognised (compared only)' % k)
    if out['f_pcr_lock_covers_rmw'] is False:
        log.append('C01: ProcessCheckResult: the ObjectLock does NOT cover the read-modify-write of the state fields (%s)' % found)
    txt = '\n(* lock structure of Checkable::ProcessCheckResult: %s *)\n' % found.replace('*)', '* )').replace('(*', '( *')
    for k in ('f_pcr_lock_covers_rmw', 'f_pcr_cr_in_rmw_section', 'f_pcr_event_type_reread'):
        v = out[k]
        txt += 'Definition %s : option bool := %s.\n' % (k, 'None' if v is None else ('Some true' if v else 'Some false'))
    return txt
