"""C10 facts: the cold-start window of ApiListener::UpdateObjectAuthority (length, strictness of the comparison),
the shape of Utility::SDBM, the .ti default of `paused', and which components test IsPaused() before acting.
Unrecognised facts are emitted as None/false and logged; the model then falls back to the transcribed
values and the fact is covered by the correspondence run only ("compared only")."""
import re

def _strip(s):
    return re.sub(r'/\*.*?\*/|//[^\n]*', '', s, flags=re.S)

def run(rd, emit, log, enum_values, ti_default):
    auth = _strip(rd('lib/remote/apilistener-authority.cpp'))
    body = ''
    m = re.search(r'num_total\s*>\s*1\s*&&\s*endpoints\.size\(\)\s*<=\s*1\s*&&\s*\(\s*startTime\s*==\s*0\s*\|\|\s*'
                  r'Utility::GetTime\(\)\s*-\s*startTime\s*(<=|<)\s*(\d+)\s*\)', auth)
    if m:
        body += 'Definition f_au_window : option Z := Some (%s).\n' % m.group(2)
        body += 'Definition f_au_strict : option bool := Some %s.\n' % ('true' if m.group(1) == '<' else 'false')
    else:
        log.append('C10: cold-start condition not recognised (compared only)')
        body += 'Definition f_au_window : option Z := None.\nDefinition f_au_strict : option bool := None.\n'
    sorted_by_name = bool(re.search(r'std::sort\(\s*endpoints\.begin\(\)\s*,\s*endpoints\.end\(\)\s*,.*?return\s+a->GetName\(\)\s*<\s*b->GetName\(\)\s*;', auth, re.S))
    by_hash = bool(re.search(r'endpoints\[\s*Utility::SDBM\(\s*object->GetName\(\)\s*\)\s*%\s*endpoints\.size\(\)\s*\]\s*==\s*my_endpoint', auth))
    util = _strip(rd('lib/base/utility.cpp'))
    sdbm = bool(re.search(r'unsigned long Utility::SDBM\(const String& str, size_t len\)\s*\{\s*unsigned long hash = 0;.*?for \(char c : str\)'
                          r'.*?hash = c \+ \(hash << 6\) \+ \(hash << 16\) - hash;', util, re.S))
    ti = rd('lib/base/configobject.ti')
    dflt = ti_default(ti, 'paused')
    cobj = _strip(rd('lib/base/configobject.cpp'))
    chk = _strip(rd('lib/checker/checkercomponent.cpp'))
    nc = _strip(rd('lib/notification/notificationcomponent.cpp'))
    ckn = _strip(rd('lib/icinga/checkable-notification.cpp'))
    facts = {
        'f_au_sorted_by_name': sorted_by_name,
        'f_au_owner_by_hash': by_hash,
        'f_au_sdbm_shape': sdbm,
        'f_au_default_paused': dflt == 'true',
        'f_au_set_authority_shape': bool(re.search(r'if \(authority && GetPaused\(\)\) \{\s*SetResumeCalled\(false\);\s*Resume\(\);\s*ASSERT\(GetResumeCalled\(\)\);\s*SetPaused\(false\);\s*\}'
                                                   r'\s*else if \(!authority && !GetPaused\(\)\) \{\s*SetPaused\(true\);\s*SetPauseCalled\(false\);\s*Pause\(\);', cobj)),
        'f_au_guard_checker': bool(re.search(r'object->IsActive\(\)\s*&&\s*!object->IsPaused\(\)\s*&&\s*same_zone', chk)),
        'f_au_guard_nc_timer': bool(re.search(r'if \(notification->IsPaused\(\)\)\s*\{.*?if \(myEndpoint && GetEnableHA\(\)\)\s*\{.*?continue;', nc, re.S)),
        'f_au_guard_send': bool(re.search(r'if \(ApiListener::UpdatedObjectAuthority\(\)\)\s*\{\s*try\s*\{\s*if \(!notification->IsPaused\(\)\)', ckn)),
    }
    # ConfigObject::SetAuthority: is `paused' tested after the ObjectLock has been taken?
    #   Some true  - a GetPaused() test follows `ObjectLock olock(this);' (tested under the lock; an additional unlocked
    #                fast path in front of it is fine: C10_once_concurrent holds for auc_fast = true as well)
    #   Some false - `paused' is only looked at before the lock is taken (C10_once_needs_locked_recheck applies)
    #   None       - shape not recognised: compared only (real-thread run)
    m = re.search(r'void ConfigObject::SetAuthority\(bool authority\)\s*\{(.*?)\n\}', cobj, re.S)
    locked = None
    if m:
        b = m.group(1)
        parts = re.split(r'ObjectLock\s+\w+\s*\(\s*this\s*\)\s*;', b)
        if len(parts) == 2 and re.search(r'\bResume\(\)', parts[1]) and re.search(r'\bPause\(\)', parts[1]) \
                and not re.search(r'\b(Resume|Pause)\(\)', parts[0]):
            before = bool(re.search(r'GetPaused\(\)|IsPaused\(\)|m_Paused', parts[0]))
            after = len(re.findall(r'if\s*\([^)]*(?:GetPaused\(\)|IsPaused\(\))', parts[1]))
            if after >= 2:
                locked = True
            elif after == 0 and before:
                locked = False
    if locked is None:
        log.append('C10: SetAuthority lock/test order not recognised (compared only)')
    body += 'Definition f_au_paused_test_under_lock : option bool := %s.\n' % ('None' if locked is None else ('Some true' if locked else 'Some false'))
    for k, v in facts.items():
        if not v:
            log.append('C10: %s not recognised (compared only)' % k)
        body += 'Definition %s : bool := %s.\n' % (k, 'true' if v else 'false')
    emit('Facts_c10.v', body)
