#!/bin/bash
# Rebuild the Icinga object libraries from /repo's CURRENT WORKING TREE with the
# verification hooks enabled (-DICINGA2_VERIF).  Incremental (ninja); serialised by flock.
set -e
REPO=${VERIF_REPO:-/repo}
HERE=$(cd "$(dirname "$0")/.." && pwd)
B=${VERIF_ICINGA_BUILD:-${VERIF_BUILD:-$HERE/build}/icinga}
mkdir -p "$B"
# VERIF_ICINGA_PREBUILT=1: use the object files in $B as they are (scratch builds assembled by hand for mutation tests)
[ -n "$VERIF_ICINGA_PREBUILT" ] && exit 0
exec 9>"$B/.lock"
flock 9
LAUNCH=""
[ -n "$VERIF_CCACHE" ] && command -v ccache >/dev/null && LAUNCH="-DCMAKE_CXX_COMPILER_LAUNCHER=ccache -DCMAKE_C_COMPILER_LAUNCHER=ccache"
if [ ! -f "$B/build.ninja" ]; then
  cmake -G Ninja $LAUNCH -S "$REPO" -B "$B" \
    -DCMAKE_BUILD_TYPE=RelWithDebInfo \
    -DCMAKE_CXX_FLAGS_RELWITHDEBINFO="-O1" -DCMAKE_C_FLAGS_RELWITHDEBINFO="-O1" \
    -DCMAKE_CXX_FLAGS="-Wno-error -w -DICINGA2_VERIF" -DCMAKE_C_FLAGS="-w -DICINGA2_VERIF" \
    -DICINGA2_UNITY_BUILD=OFF -DICINGA2_LTO_BUILD=OFF \
    -DICINGA2_WITH_MYSQL=OFF -DICINGA2_WITH_PGSQL=OFF -DICINGA2_WITH_ICINGADB=OFF \
    -DICINGA2_WITH_LIVESTATUS=OFF -DICINGA2_WITH_COMPAT=OFF -DICINGA2_WITH_PERFDATA=OFF \
    -DICINGA2_WITH_TESTS=OFF -DICINGA2_GIT_VERSION_INFO=OFF \
    -DICINGA2_USER=root -DICINGA2_GROUP=root -DICINGA2_COMMAND_GROUP=root \
    > "$B/cmake.log" 2>&1 || { tail -30 "$B/cmake.log"; exit 2; }
fi
ninja -C "$B" -j${VERIF_JOBS:-16} mmatch socketpair execvpe base config remote icinga methods checker notification > "$B/ninja.log" 2>&1 || { grep -B2 -A12 -m5 'error' "$B/ninja.log" | head -80; echo "BUILD FAILED (see $B/ninja.log)"; exit 2; }
