#!/usr/bin/env python3
"""cxx2coq: translate small, (almost) pure C++ decision functions into Gallina definitions.

Part of the trusted base of the verification framework, therefore deliberately small:
  1. locate()    finds the brace-matched body of `Class::Function(...)` in the comment-free source text
  2. Parser      hand-written recursive descent over a restricted statement/expression grammar
  3. Tr          translation to a Gallina term under a *binding environment* given by the target table
Everything outside the subset raises Unsupported(reason); the caller then emits `recognised := false`.
The translator never guesses: an identifier, call or member access that the binding environment does not
name is an error, not a free variable.  See notes/XLATE.md for grammar, environments and assumptions."""
import re


class Unsupported(Exception):
    pass


# ------------------------------------------------------------------------------------------------ source location

def strip_comments(s):
    out, i, n = [], 0, len(s)
    while i < n:
        c = s[i]
        if c == '"' or c == "'":
            j = i + 1
            while j < n and s[j] != c:
                j += 2 if s[j] == '\\' else 1
            out.append(s[i:j + 1]); i = j + 1
        elif s.startswith('//', i):
            j = s.find('\n', i); i = n if j < 0 else j
        elif s.startswith('/*', i):
            j = s.find('*/', i + 2)
            seg = s[i:(n if j < 0 else j + 2)]
            out.append('\n' * seg.count('\n'))          # keep line numbers
            i = n if j < 0 else j + 2
        else:
            out.append(c); i += 1
    return ''.join(out)


def match_close(s, i, op, cl):
    depth, n = 0, len(s)
    while i < n:
        c = s[i]
        if c == '"' or c == "'":
            q = c; i += 1
            while i < n and s[i] != q:
                i += 2 if s[i] == '\\' else 1
        elif c == op:
            depth += 1
        elif c == cl:
            depth -= 1
            if depth == 0:
                return i
        i += 1
    return -1


def locate(src, qualname, nparams=None):
    """-> (params_text, body_text, line) of the DEFINITION of qualname at brace depth 0, or raises Unsupported."""
    s = strip_comments(src)
    found = []
    for m in re.finditer(r'(?<![\w:])' + re.escape(qualname) + r'\s*\(', s):
        # a definition starts at column 0 with its return type (calls live, indented, inside bodies)
        pre = s[:m.start()]
        head = pre[pre.rfind('\n') + 1:]
        if not re.match(r'^[A-Za-z_][\w:<>,*&\s]*$', head):
            continue
        po = m.end() - 1
        pc = match_close(s, po, '(', ')')
        if pc < 0:
            continue
        mm = re.match(r'\s*(?:const\b\s*)?(?:noexcept\b\s*)?(?:override\b\s*)?\{', s[pc + 1:])
        if not mm:
            continue
        bo = pc + 1 + mm.end() - 1
        bc = match_close(s, bo, '{', '}')
        if bc < 0:
            continue
        params = s[po + 1:pc]
        np_ = 0 if not params.strip() else len(split_top(params))
        if nparams is not None and np_ != nparams:
            continue
        found.append((params, s[bo + 1:bc], pre.count('\n') + 1))
    if len(found) != 1:
        raise Unsupported('%d definitions of %s found' % (len(found), qualname))
    return found[0]


def preprocess(body, defines, notes):
    """#ifdef M / #ifndef M / #else / #endif for the macros named in `defines` (M -> is it defined): the inactive branch is blanked
    (line numbers kept); conditionals on other macros are left for the caller (accepted only when they enclose no code)"""
    if not defines: return body
    out, stack = [], []            # stack of (known?, active?)
    for line in body.split('\n'):
        m = re.match(r'^[ \t]*#[ \t]*(ifdef|ifndef|else|endif)\b[ \t]*(\w*)', line)
        if m:
            d, name = m.group(1), m.group(2)
            if d in ('ifdef', 'ifndef'):
                if name in defines:
                    stack.append((True, defines[name] == (d == 'ifdef')))
                    notes.append('preprocessor: %s is %sdefined' % (name, '' if defines[name] else 'not '))
                    out.append(''); continue
                stack.append((False, True))
            elif d == 'else' and stack and stack[-1][0]:
                stack[-1] = (True, not stack[-1][1]); out.append(''); continue
            elif d == 'endif' and stack:
                known, _ = stack.pop()
                if known:
                    out.append(''); continue
        out.append(line if all(a for _, a in stack) else '')
    return '\n'.join(out)


def c_unescape(lit):
    """bytes of a C string / character literal (without the quotes)"""
    esc = {'n': 10, 't': 9, 'r': 13, '0': 0, '\\': 92, "'": 39, '"': 34, 'v': 11, 'a': 7, 'b': 8, 'f': 12}
    out, i = [], 0
    while i < len(lit):
        c = lit[i]
        if c == '\\':
            i += 1
            if i >= len(lit) or lit[i] not in esc: raise Unsupported('escape sequence in literal ' + lit)
            out.append(esc[lit[i]])
        else:
            b = c.encode('utf-8')
            out.extend(b)
        i += 1
    return out


def split_top(text):
    parts, depth, cur = [], 0, ''
    for c in text:
        if c in '(<[{': depth += 1
        elif c in ')>]}': depth -= 1
        if c == ',' and depth == 0:
            parts.append(cur); cur = ''
        else:
            cur += c
    parts.append(cur)
    return parts


def param_names(params):
    names = []
    for p in split_top(params) if params.strip() else []:
        p = p.split('=')[0].strip()
        m = re.search(r'([A-Za-z_]\w*)\s*$', p)
        if not m:
            raise Unsupported('parameter without a name: ' + p)
        names.append(m.group(1))
    return names


# ------------------------------------------------------------------------------------------------ lexer

TOKEN_RE = re.compile(r'''
   (?P<ws>\s+)
 | (?P<num>(?:0[xX][0-9a-fA-F]+|\d+\.\d*(?:[eE][-+]?\d+)?|\.\d+(?:[eE][-+]?\d+)?|\d+(?:[eE][-+]?\d+)?)[uUlLfF]*)
 | (?P<id>[A-Za-z_]\w*)
 | (?P<str>"(?:[^"\\]|\\.)*")
 | (?P<chr>'(?:[^'\\]|\\.)*')
 | (?P<op><<=|>>=|\.\.\.|::|->|<<|>>|<=|>=|==|!=|&&|\|\||\+\+|--|\+=|-=|\*=|/=|%=|&=|\|=|\^=|[-+*/%<>=!&|^~?:;,.(){}\[\]])
''', re.X)

KEYWORDS_BAD = {'delete', 'throw', 'try', 'catch', 'do', 'goto', 'using', 'typedef', 'static', 'struct', 'class',
                'co_await', 'co_return', 'asm'}
BUILTIN = {'unsigned', 'signed', 'long', 'int', 'short', 'char', 'bool', 'double', 'float', 'void'}
CCAST_TYPES = {'unsigned', 'signed', 'long', 'int', 'short', 'bool', 'double', 'uint_fast8_t', 'uint8_t', 'size_t'}
SMALLINT = ('uint_fast8_t', 'uint8_t')        # values are enum constants 0..3 here: no wrap-around (assumption, noted)


def lex(text):
    toks, i = [], 0
    while i < len(text):
        m = TOKEN_RE.match(text, i)
        if not m:
            raise Unsupported('cannot tokenise at: ' + text[i:i + 20])
        i = m.end()
        if m.lastgroup != 'ws':
            toks.append((m.lastgroup, m.group(m.lastgroup)))
    toks.append(('eof', ''))
    return toks


# ------------------------------------------------------------------------------------------------ parser
# Expressions:  ('num',t) ('str',t) ('chr',t) ('bool',b) ('null',) ('this',) ('id',qualified)
#               ('call',f,[args]) ('member',obj,op,name) ('index',a,i) ('un',op,e) ('bin',op,a,b) ('cond',c,a,b)
#               ('cast',kind,type,e) ('assign',op,lhs,rhs) ('postfix',op,e) ('initlist',[e])
# Statements:   ('return',e|None) ('if',c,[then],[else]) ('block',[s]) ('decl',type,name,init|None)
#               ('expr',e) ('switch',e,[(labels|None,[s])]) ('for',type,var,e,[body]) ('while',c,[body])
#               ('break',) ('continue',) ('empty',)

BINLEVELS = [['||'], ['&&'], ['|'], ['^'], ['&'], ['==', '!='], ['<', '>', '<=', '>='], ['<<', '>>'], ['+', '-'], ['*', '/', '%']]
ASSIGN_OPS = {'=', '+=', '-=', '*=', '/=', '%=', '&=', '|=', '^=', '<<=', '>>='}


class Parser:
    def __init__(self, text):
        self.t = lex(text)
        self.p = 0

    def peek(self, k=0):
        return self.t[min(self.p + k, len(self.t) - 1)]

    def at(self, v, k=0):
        return self.peek(k)[1] == v and self.peek(k)[0] in ('op', 'id')

    def next(self):
        tok = self.t[self.p]; self.p += 1
        return tok

    def expect(self, v):
        if not self.at(v):
            raise Unsupported('expected %r, found %r' % (v, self.peek()[1]))
        return self.next()

    # ---- types (only recognised, kept as text)
    def skip_angles(self):
        """self.at('<') ; consume a balanced <...> ; False (position restored) if it does not look like template arguments"""
        save, depth = self.p, 0
        while True:
            k, v = self.next()
            if k == 'eof' or v in (';', '{', '}', '&&', '||') or k in ('num', 'str'):
                self.p = save; return False
            if v == '<': depth += 1
            elif v == '>': depth -= 1
            elif v == '>>': depth -= 2
            if depth == 0: return True
            if depth < 0:
                self.p = save; return False

    def try_type(self):
        save = self.p
        words = []
        while self.at('const') or self.at('constexpr') or self.at('volatile'):
            self.next()
        if self.peek()[0] != 'id' or self.peek()[1] in KEYWORDS_BAD:
            self.p = save; return None
        if self.peek()[1] in BUILTIN:
            while self.peek()[0] == 'id' and self.peek()[1] in BUILTIN:
                words.append(self.next()[1])
        else:
            words.append(self.next()[1])
            while True:
                if self.at('<'):
                    if not self.skip_angles():
                        self.p = save; return None
                    words.append('<>')
                if self.at('::') and self.peek(1)[0] == 'id':
                    self.next(); words.append('::' + self.next()[1])
                else:
                    break
        while self.at('const'):
            self.next()
        while self.at('&') or self.at('*') or self.at('&&'):
            words.append(self.next()[1])
        return ' '.join(words).replace(' ::', '::').replace(' <>', '<>')

    def try_decl(self):
        save = self.p
        ty = self.try_type()
        if ty is None or self.peek()[0] != 'id' or self.peek()[1] in ('const',):
            self.p = save; return None
        name = self.next()[1]
        if self.at(';'):
            self.next(); return ('decl', ty, name, None)
        if self.at('='):
            self.next(); e = self.expr(); self.expect(';'); return ('decl', ty, name, e)
        if self.at('(') or self.at('{'):
            cl = ')' if self.at('(') else '}'
            self.next()
            args = []
            if not self.at(cl):
                args.append(self.assign())
                while self.at(','):
                    self.next(); args.append(self.assign())
            self.expect(cl)
            if not self.at(';'):
                self.p = save; return None
            self.next()
            return ('decl', ty, name, args[0] if len(args) == 1 else ('ctor', args))
        self.p = save
        return None

    # ---- statements
    def block_items(self):
        items = []
        while not self.at('}'):
            if self.peek()[0] == 'eof':
                raise Unsupported('unexpected end of body')
            items.append(self.stmt())
        return items

    def body(self):
        items = []
        while self.peek()[0] != 'eof':
            items.append(self.stmt())
        return items

    def sub(self):
        s = self.stmt()
        return s[1] if s[0] == 'block' else [s]

    def stmt(self):
        k, v = self.peek()
        if k == 'id' and v in KEYWORDS_BAD:
            raise Unsupported('statement keyword ' + v)
        if v == '{' and k == 'op':
            self.next(); items = self.block_items(); self.expect('}'); return ('block', items)
        if v == ';' and k == 'op':
            self.next(); return ('empty',)
        if k == 'id' and v == 'if':
            self.next(); self.expect('(')
            pre = None
            save = self.p
            ty = self.try_type()           # `if (T x = e)`: declaration as condition, the condition is x
            if ty is not None and self.peek()[0] == 'id' and self.at('=', 1):
                name = self.next()[1]; self.next(); e0 = self.expr()
                if self.at(')'):
                    self.next()
                    a = self.sub()
                    b = []
                    if self.at('else'):
                        self.next(); b = self.sub()
                    return ('block', [('decl', ty, name, e0), ('if', ('id', name), a, b)])
            self.p = save
            d = None
            try:
                d = self.try_decl()        # C++17 `if (init; cond)`
            except Unsupported:
                self.p = save
            if d is not None:
                pre = d
            else:
                self.p = save
            c = self.expr(); self.expect(')')
            a = self.sub()
            b = []
            if self.at('else'):
                self.next(); b = self.sub()
            node = ('if', c, a, b)
            return ('block', [pre, node]) if pre else node
        if k == 'id' and v == 'switch':
            self.next(); self.expect('('); e = self.expr(); self.expect(')'); self.expect('{')
            groups, labels, items, seen_label = [], [], [], False
            while not self.at('}'):
                if self.at('case') or self.at('default'):
                    if items:
                        groups.append((labels, items)); labels, items = [], []
                    if self.at('case'):
                        self.next(); labels.append(self.cond()); self.expect(':')
                    else:
                        self.next(); self.expect(':'); labels.append(None)
                    seen_label = True
                else:
                    if not seen_label:
                        raise Unsupported('statement before the first case label')
                    items.append(self.stmt())
            self.expect('}')
            if labels or items:
                groups.append((labels, items))
            return ('switch', e, groups)
        if k == 'id' and v == 'for':
            self.next(); self.expect('(')
            ty = self.try_type()
            if ty is None or self.peek()[0] != 'id' or not self.at(':', 1):
                raise Unsupported('only range-based for loops are supported')
            var = self.next()[1]; self.expect(':')
            e = self.expr(); self.expect(')')
            return ('for', ty, var, e, self.sub())
        if k == 'id' and v == 'while':
            self.next(); self.expect('('); c = self.expr(); self.expect(')')
            return ('while', c, self.sub())
        if k == 'id' and v == 'return':
            self.next()
            if self.at(';'):
                self.next(); return ('return', None)
            e = self.expr(); self.expect(';'); return ('return', e)
        if k == 'id' and v in ('break', 'continue'):
            self.next(); self.expect(';'); return (v,)
        if k == 'id' and v == 'auto' and self.at('[', 1):            # C++17 structured binding: auto [a, b] = e;
            self.next(); self.next(); names = []
            while True:
                if self.peek()[0] != 'id': raise Unsupported('structured binding')
                names.append(self.next()[1])
                if self.at(','): self.next(); continue
                break
            self.expect(']'); self.expect('='); e = self.expr(); self.expect(';')
            return ('sbind', names, e)
        d = self.try_decl()
        if d is not None:
            return d
        e = self.expr(); self.expect(';')
        return ('expr', e)

    # ---- expressions
    def expr(self):
        e = self.assign()
        if self.at(','):
            raise Unsupported('comma operator')
        return e

    def assign(self):
        lhs = self.cond()
        if self.peek()[0] == 'op' and self.peek()[1] in ASSIGN_OPS:
            op = self.next()[1]
            return ('assign', op, lhs, self.assign())
        return lhs

    def cond(self):
        c = self.binary(0)
        if self.at('?'):
            self.next(); a = self.assign(); self.expect(':'); b = self.assign()
            return ('cond', c, a, b)
        return c

    def binary(self, lvl):
        if lvl == len(BINLEVELS):
            return self.unary()
        a = self.binary(lvl + 1)
        while self.peek()[0] == 'op' and self.peek()[1] in BINLEVELS[lvl]:
            op = self.next()[1]
            a = ('bin', op, a, self.binary(lvl + 1))
        return a

    def unary(self):
        k, v = self.peek()
        if k == 'op' and v in ('!', '-', '+', '~', '*', '&'):
            self.next(); return ('un', v, self.unary())
        if k == 'op' and v in ('++', '--'):
            self.next(); return ('assign', v[0] + '=', self.unary(), ('num', '1'))
        if k == 'id' and v in ('static_cast', 'dynamic_cast', 'const_cast', 'reinterpret_cast', 'static_pointer_cast', 'dynamic_pointer_cast'):
            self.next(); self.expect('<')
            ty = self.try_type()
            if ty is None:
                raise Unsupported('cast target type')
            self.expect('>'); self.expect('('); e = self.expr(); self.expect(')')
            return self.postfix(('cast', v, ty, e))
        if k == 'id' and v == 'sizeof':
            raise Unsupported('sizeof')
        return self.postfix(self.primary())

    def primary(self):
        k, v = self.next()
        if k == 'num': return ('num', v)
        if k == 'str': return ('str', v)
        if k == 'chr': return ('chr', v)
        if k == 'id':
            if v in KEYWORDS_BAD: raise Unsupported('keyword ' + v)
            if v == 'true': return ('bool', True)
            if v == 'false': return ('bool', False)
            if v == 'nullptr' or v == 'NULL': return ('null',)
            if v == 'this': return ('this',)
            if v == 'new':                       # `new T(args)`: an opaque value (can only initialise a symbolic local)
                ty = self.try_type()
                if ty is None: raise Unsupported('new expression')
                args = []
                if self.at('('):
                    self.next()
                    if not self.at(')'):
                        args.append(self.assign())
                        while self.at(','):
                            self.next(); args.append(self.assign())
                    self.expect(')')
                return ('new', ty, args)
            name = v
            while self.at('::') and self.peek(1)[0] == 'id':
                self.next(); name += '::' + self.next()[1]
            if '::' in name and self.at('<'):               # call of a function template: ConfigType::GetObjectsByType<T>()
                save = self.p
                if self.skip_angles() and self.at('('):
                    name += '<>'
                else:
                    self.p = save
            return ('id', name)
        if k == 'op' and v == '(':
            # C-style cast to an arithmetic type:  (uint_fast8_t)e  ==  static_cast<uint_fast8_t>(e)
            j = 0
            while self.peek(j)[0] == 'id' and self.peek(j)[1] in CCAST_TYPES: j += 1
            if j and self.at(')', j) and (self.peek(j + 1)[0] in ('id', 'num') or self.at('(', j + 1)):
                ty = ' '.join(self.next()[1] for _ in range(j)); self.next()
                return ('cast', 'static_cast', ty, self.unary())
            e = self.expr(); self.expect(')'); return ('paren', e)
        if k == 'op' and v == '{':
            items = []
            if not self.at('}'):
                items.append(self.assign())
                while self.at(','):
                    self.next(); items.append(self.assign())
            self.expect('}')
            return ('initlist', items)
        if k == 'op' and v == '[':
            return self.lambda_()
        raise Unsupported('unexpected token %r' % v)

    def lambda_(self):
        """after '[': capture list, optional parameter list / specifiers, brace-matched body.  The body is NOT translated:
        a lambda is an opaque value ('lambda', n) that can only initialise a symbolic local (whose uses must be bound)"""
        def balanced(op, cl):
            depth = 1
            while depth:
                k, v = self.next()
                if k == 'eof': raise Unsupported('unterminated lambda expression')
                if k == 'op' and v == op: depth += 1
                elif k == 'op' and v == cl: depth -= 1
        balanced('[', ']')
        if self.at('('):
            self.next(); balanced('(', ')')
        while not self.at('{'):
            k, v = self.next()
            if k == 'eof' or v in (';', ')', ','): raise Unsupported('lambda expression without a body')
        self.next(); balanced('{', '}')
        self.nlambda = getattr(self, 'nlambda', 0) + 1
        return ('lambda', self.nlambda)

    def postfix(self, e):
        while True:
            if self.at('('):
                self.next(); args = []
                if not self.at(')'):
                    args.append(self.assign())
                    while self.at(','):
                        self.next(); args.append(self.assign())
                self.expect(')')
                e = ('call', e, args)
            elif self.at('->') or self.at('.'):
                op = self.next()[1]
                if self.peek()[0] != 'id':
                    raise Unsupported('member name expected')
                name = self.next()[1]
                if self.at('<'):                 # obj.IsObjectType<T>()
                    save = self.p
                    if self.skip_angles() and self.at('('):
                        name += '<>'
                    else:
                        self.p = save
                e = ('member', e, op, name)
            elif self.at('['):
                self.next(); i = self.expr(); self.expect(']'); e = ('index', e, i)
            elif self.at('++') or self.at('--'):
                op = self.next()[1]
                e = ('assign', op[0] + '=', e, ('num', '1'))     # value of the expression is never used at statement level
            else:
                return e


def unparen(e):
    while isinstance(e, tuple) and e[0] == 'paren':
        e = e[1]
    return e


# ------------------------------------------------------------------------------------------------ translation
# Types of translated terms: 'bool', 'Z' (C++ int / enum / double-timestamp), 'u64' (unsigned long, wraps),
# 'ptr' (a pointer whose only observable is its truth value; the term IS that truth value), and custom value
# types declared by the target (`types`: name -> dict(coq=..., truth=..., eqb=...)).

def key(e, env):
    """canonical text of an expression after substituting symbolic (pointer/opaque) locals; binding environments are keyed by it"""
    e = unparen(e)
    k = e[0]
    if k in ('num', 'str', 'chr'): return e[1]
    if k == 'bool': return 'true' if e[1] else 'false'
    if k == 'null': return 'nullptr'
    if k == 'this': return 'this'
    if k == 'id':
        a = env.alias.get(e[1]) if env else None
        return a if a is not None else e[1]
    if k == 'call': return key(e[1], env) + '(' + ','.join(key(a, env) for a in e[2]) + ')'
    if k == 'member':
        o = key(e[1], env)
        return e[3] if o == 'this' else o + e[2] + e[3]
    if k == 'index': return key(e[1], env) + '[' + key(e[2], env) + ']'
    if k == 'un': return e[1] + key(e[2], env)
    if k == 'bin': return key(e[2], env) + e[1] + key(e[3], env)
    if k == 'cond': return key(e[1], env) + '?' + key(e[2], env) + ':' + key(e[3], env)
    if k == 'cast': return e[1] + '<' + e[2] + '>(' + key(e[3], env) + ')'
    if k == 'assign': return key(e[2], env) + e[1] + key(e[3], env)
    if k == 'initlist': return '{' + ','.join(key(a, env) for a in e[1]) + '}'
    if k == 'ctor': return '(' + ','.join(key(a, env) for a in e[1]) + ')'
    if k == 'lambda': return '[lambda%d]' % e[1]
    if k == 'new': return '[new %s]' % e[1]
    raise Unsupported('expression kind ' + k)


class Env:
    """vals: C++ name -> (gallina name, type, decl id); alias: C++ name -> key text (symbolic locals) or None (declared, unset)"""
    def __init__(self, vals=None, alias=None):
        self.vals = dict(vals or {})
        self.alias = dict(alias or {})

    def copy(self):
        return Env(self.vals, self.alias)

    def leave_scope(self, outer):
        """back in the scope of `outer`: keep updates of outer's variables, drop inner declarations (and shadowing ones)"""
        r = Env()
        for n, (g, t, d) in outer.vals.items():
            cur = self.vals.get(n)
            r.vals[n] = cur if cur and cur[2] == d else (g, t, d)
        r.alias = dict(outer.alias)
        return r


class Ctx:
    """how the statement translator leaves the current context: ret(expr|None, env), fall(env) at the end of the
    statement list, brk/cont(env) inside loops and switches, abort(env) after VERIFY(false); rtype = Gallina type of
    the terms ret produces; top = directly in the function body (not inside a loop)"""
    def __init__(self, ret, fall, brk=None, cont=None, abort=None, rtype='_', top=False):
        self.ret, self.fall, self.brk, self.cont, self.abort, self.rtype, self.top = ret, fall, brk, cont, abort, rtype, top

    def with_(self, **kw):
        c = Ctx(self.ret, self.fall, self.brk, self.cont, self.abort, self.rtype, self.top)
        for k, v in kw.items():
            setattr(c, k, v)
        return c


def P(t):
    """parenthesise a compound term"""
    t = t.strip()
    return t if re.match(r'^[\w.\']+$', t) or (t.startswith('(') and match_close(t, 0, '(', ')') == len(t) - 1) else '(' + t + ')'


DEFAULTS = {'bool': 'false', 'Z': '0', 'u64': '0'}
COQTYPE = {'bool': 'bool', 'Z': 'Z', 'u64': 'Z', 'ptr': 'bool', 'Q': 'Q'}
PLACEHOLDER = '\x00K%d\x00'
SIZE_CAP = 20000


class Tr:
    def __init__(self, target):
        t = target
        self.bind = dict(t.get('bind', {}))          # key -> (term, type)
        self.fns = dict(t.get('fns', {}))            # callee key -> (head, [argtypes], rettype)
        self.lists = dict(t.get('lists', {}))        # container key -> (list term, element type)
        self.types = dict(t.get('types', {}))        # custom value types
        self.stmts = dict(t.get('stmts', {}))        # statement key -> {local: symbolic key}   (e.g. tie(a,b)=GetHostService(x))
        self.skip = [re.compile(r) for r in t.get('skip', [r'^Log\(', r'^ObjectLock ', r'^std::unique_lock<> '])]
        self.abort_pat = [re.compile(r) for r in t.get('abort_stmts', [r'^VERIFY\(!"', r'^VERIFY\(false\)', r'^ASSERT\(!"'])]
        self.abort_val = t.get('abort')              # value of paths that end in VERIFY(false); None = such paths are not accepted
        self.state = list(t.get('state', []))        # [(C++ pseudo-variable, gallina input name, type)]  see setters
        self.setters = dict(t.get('setters', {}))    # 'SetTriggerTime' -> state variable ; value = the single argument
        self.getters = dict(t.get('getters', {}))    # 'GetTriggerTime()' -> state variable
        self.ctypes = dict(t.get('ctypes', {}))      # C++ type name -> custom value type
        self.intdiv = bool(t.get('intdiv'))
        self.symtypes = set(t.get('symbolic_types', []))   # declared types whose locals always stay symbolic
        # calls that READ AND WRITE state variables (explicit state passing):  key -> dict(term='f {$a} {$b} {0}', updates=['$a','$b'],
        # ret=type|None, args=[types]).  key = full call text for value calls ('GetAcknowledgement()'), callee for statements.
        self.calls_st = dict(t.get('calls_st', {}))
        self.real = bool(t.get('real'))               # True: C++ double = exact rational arithmetic in Q (no rounding: an assumption, noted)
        self.strtypes = t.get('strings')              # dict(string='bytes', char='byte', lit='%d%%N'): byte strings as lists, + is concatenation
        self.dict_shape = t.get('dict_shape')         # ('seg', ['begin', 'end']): new Dictionary({{"begin", x}, {"end", y}}) is the value (x, y) of type seg
        self.assigns = dict(t.get('assigns', {}))     # key of an lvalue (e.g. '[new MessageOrigin]->FromZone') -> state variable
        self.appends = dict(t.get('appends', {}))     # 'v.push_back' -> list-typed local v :  v := v ++ [argument]
        self.emits = dict(t.get('emits', {}))        # call key (regex) -> (event list state variable, event term)
        self.fuel = t.get('fuel')                    # gallina nat term bounding every while loop
        self.opaque_ok = t.get('opaque', True)
        self.skipped, self.symbolic, self.notes = [], [], []
        self.used = set()
        self.nid = 0
        self.nk = 0

    # ---- names
    def fresh(self, base):
        base = re.sub(r'\W', '_', base)
        g, i = base, 0
        while g in self.used or g in RESERVED:
            i += 1; g = '%s_%d' % (base, i)
        self.used.add(g)
        return g

    def declid(self):
        self.nid += 1
        return self.nid

    def coqtype(self, ty):
        if ty in COQTYPE: return COQTYPE[ty]
        if ty in self.types: return self.types[ty]['coq']
        return ty

    # ---- coercions
    def coerce(self, tt, want):
        term, ty = tt
        if ty == want: return term
        if want == 'bool':
            if ty in ('Z', 'u64'): return 'negb (%s =? 0)' % P(term)
            if ty == 'ptr': return term
            if ty in self.types and self.types[ty].get('truth'): return '%s %s' % (self.types[ty]['truth'], P(term))
        if want == 'Z' and ty == 'u64': return term
        if want == 'u64' and ty == 'Z': return 'xl_u64 %s' % P(term)
        if want in ('Z', 'u64') and ty == 'bool': return 'if %s then 1 else 0' % term
        if want == 'Q' and ty == 'Z': return 'inject_Z %s' % P(term)
        raise Unsupported('no conversion from %s to %s (%s)' % (ty, want, term))

    # ---- expressions
    def tx(self, e, env):
        e = unparen(e)
        k = key(e, env)
        if k in self.getters:                       # getter of a state variable: its current value
            g, t, _ = env.vals[self.getters[k]]
            return (g, t)
        if k in self.bind:
            term, ty = self.bind[k]
            # a bound term may read the CURRENT value of a state variable: {$name}
            return (re.sub(r'\{(\$\w+)\}', lambda m: env.vals[m.group(1)][0], term), ty)
        kind = e[0]
        if kind == 'num':
            t = e[1].rstrip('uUlLfF')
            try:
                v = int(t, 0)
            except ValueError:
                f = float(t)
                if f != int(f):
                    if not self.real: raise Unsupported('non-integral literal ' + e[1])
                    from fractions import Fraction
                    fr = Fraction(t)
                    return ('(Qmake %d %d%%positive)' % (fr.numerator, fr.denominator), 'Q')
                v = int(f)
            return (str(v), 'Z')
        if kind == 'bool':
            return ('true' if e[1] else 'false', 'bool')
        if kind == 'str' and self.strtypes:
            bs = c_unescape(e[1][1:-1])
            return ('[' + '; '.join(self.strtypes['lit'] % b for b in bs) + ']', self.strtypes['string'])
        if kind == 'chr' and self.strtypes:
            bs = c_unescape(e[1][1:-1])
            if len(bs) != 1: raise Unsupported('character literal ' + e[1])
            return (self.strtypes['lit'] % bs[0], self.strtypes['char'])
        if kind == 'id':
            if e[1] in env.vals:
                g, t, _ = env.vals[e[1]]
                if g is None: raise Unsupported('read of uninitialised local ' + e[1])
                return (g, t)
            raise Unsupported('unbound identifier ' + k)
        if kind == 'call':
            fk = key(e[1], env)
            f = unparen(e[1])
            if fk not in self.fns and f[0] == 'member':
                # method of a custom value type:  <type>-><name>
                try:
                    ot = self.tx(f[1], env)
                    if ot[1] in self.types and (ot[1] + f[2] + f[3]) in self.fns:
                        head, ats, rt = self.fns[ot[1] + f[2] + f[3]]
                        args = [ot[0]] + [self.coerce(self.tx(a, env), at) for a, at in zip(e[2], ats[1:])]
                        if len(e[2]) != len(ats) - 1: raise Unsupported('arity of ' + fk)
                        return (head + ' ' + ' '.join(P(a) for a in args), rt)
                except Unsupported:
                    pass
            if fk in self.fns:
                head, ats, rt = self.fns[fk]
                if len(ats) != len(e[2]): raise Unsupported('arity of ' + fk)
                args = [self.coerce(self.tx(a, env), at) for a, at in zip(e[2], ats) if at is not None]   # None: argument not passed on (an object the callee's own inputs stand for)
                return ((head + ' ' + ' '.join(P(a) for a in args)).strip(), rt)
            raise Unsupported('unbound call ' + k)
        if kind == 'un':
            op = e[1]
            if op == '!': return ('negb %s' % P(self.coerce(self.tx(e[2], env), 'bool')), 'bool')
            a = self.tx(e[2], env)
            if op == '-' and a[1] == 'Z': return ('- %s' % P(a[0]), 'Z')
            if op == '+' and a[1] in ('Z', 'u64'): return a
            if op == '~' and a[1] == 'Z': return ('Z.lnot %s' % P(a[0]), 'Z')      # two's complement, as for C++ int
            raise Unsupported('unary %s on %s' % (op, a[1]))
        if kind == 'bin':
            return self.tbin(e[1], e[2], e[3], env)
        if kind == 'cond':
            c = self.coerce(self.tx(e[1], env), 'bool')
            a, b = self.tx(e[2], env), self.tx(e[3], env)
            ty = a[1] if a[1] == b[1] else ('u64' if {a[1], b[1]} == {'Z', 'u64'} else None)
            if ty is None: raise Unsupported('ternary branches of types %s / %s' % (a[1], b[1]))
            return ('if %s then %s else %s' % (c, self.coerce(a, ty), self.coerce(b, ty)), ty)
        if kind == 'new' and self.dict_shape and e[1] == 'Dictionary' and len(e[2]) == 1 and unparen(e[2][0])[0] == 'initlist':
            tyname, keys = self.dict_shape
            items = {}
            for it in unparen(e[2][0])[1]:
                it = unparen(it)
                if it[0] != 'initlist' or len(it[1]) != 2 or unparen(it[1][0])[0] != 'str': raise Unsupported('dictionary literal')
                items[unparen(it[1][0])[1].strip('"')] = self.coerce(self.tx(it[1][1], env), 'Z')
            if sorted(items) != sorted(keys): raise Unsupported('dictionary literal with keys ' + ','.join(sorted(items)))
            return ('(' + ', '.join(items[k_] for k_ in keys) + ')', tyname)
        if kind == 'index':
            a = self.tx(e[1], env)
            td = self.types.get(a[1], {})
            if td.get('elem') and td.get('default') is not None:
                i = self.coerce(self.tx(e[2], env), 'Z')
                self.notes.append('v[i] on a vector is nth (Z.to_nat i) v <default>: exact for 0 <= i < size, anything else is undefined behaviour in C++')
                return ('nth (Z.to_nat %s) %s %s' % (P(i), P(a[0]), P(td['default'])), td['elem'])
            raise Unsupported('index into ' + a[1])
        if kind == 'cast':
            a = self.tx(e[3], env)
            ty = e[2]
            if e[1] == 'static_cast':
                if ty == 'bool': return (self.coerce(a, 'bool'), 'bool')
                if ty in ('unsigned long', 'size_t', 'unsigned long long', 'uint64_t'): return (self.coerce(a, 'u64'), 'u64')
                if a[1] == 'Z' and (ty in self.cast_ok or ty in ('int', 'long', 'double', 'long long') + SMALLINT):
                    self.notes.append('static_cast<%s> of an integer/enum value is the identity on Z' % ty)
                    return a
            raise Unsupported('cast %s<%s>' % (e[1], ty))
        raise Unsupported('expression %s' % k)

    cast_ok = {'AcknowledgementType', 'ServiceState', 'HostState', 'StateType', 'NotificationType', 'DependencyType'}

    def tbin(self, op, ea, eb, env):
        if op in ('&&', '||'):
            a = self.coerce(self.tx(ea, env), 'bool'); b = self.coerce(self.tx(eb, env), 'bool')
            return ('%s %s %s' % (P(a), op, P(b)), 'bool')
        a, b = self.tx(ea, env), self.tx(eb, env)
        if 'Q' in (a[1], b[1]) and a[1] in ('Q', 'Z') and b[1] in ('Q', 'Z'):
            x, y = P(self.coerce(a, 'Q')), P(self.coerce(b, 'Q'))
            if op in ('+', '-', '*', '/'):
                return ('%s %s %s' % ({'+': 'Qplus', '-': 'Qminus', '*': 'Qmult', '/': 'Qdiv'}[op], x, y), 'Q')
            cmpq = {'<=': 'Qle_bool %s %s' % (x, y), '>=': 'Qle_bool %s %s' % (y, x), '<': 'negb (Qle_bool %s %s)' % (y, x),
                    '>': 'negb (Qle_bool %s %s)' % (x, y), '==': 'Qeq_bool %s %s' % (x, y), '!=': 'negb (Qeq_bool %s %s)' % (x, y)}
            if op in cmpq: return (cmpq[op], 'bool')
            raise Unsupported('operator %s on rationals' % op)
        num = lambda t: t in ('Z', 'u64')
        if op in ('<', '<=', '>', '>='):
            if not (num(a[1]) and num(b[1])): raise Unsupported('comparison of %s and %s' % (a[1], b[1]))
            x, y = P(a[0]), P(b[0])
            return ({'<': '%s <? %s' % (x, y), '<=': '%s <=? %s' % (x, y), '>': '%s <? %s' % (y, x), '>=': '%s <=? %s' % (y, x)}[op], 'bool')
        if op in ('==', '!='):
            if num(a[1]) and num(b[1]): t = '%s =? %s' % (P(a[0]), P(b[0]))
            elif a[1] == b[1] == 'bool': t = 'Bool.eqb %s %s' % (P(a[0]), P(b[0]))
            elif a[1] == b[1] and a[1] in self.types and self.types[a[1]].get('eqb'):
                t = '%s %s %s' % (self.types[a[1]]['eqb'], P(a[0]), P(b[0]))
            else: raise Unsupported('equality of %s and %s' % (a[1], b[1]))
            return (t if op == '==' else 'negb %s' % P(t), 'bool')
        if op == '+' and self.strtypes and a[1] == self.strtypes['string'] and b[1] in (self.strtypes['string'], self.strtypes['char']):
            return ('%s ++ %s' % (P(a[0]), P(b[0]) if b[1] == a[1] else '[%s]' % b[0]), a[1])
        if op in ('+', '-', '*'):
            if not (num(a[1]) and num(b[1])): raise Unsupported('arithmetic on %s and %s' % (a[1], b[1]))
            t = '%s %s %s' % (P(a[0]), op, P(b[0]))
            return ('xl_u64 %s' % P(t), 'u64') if 'u64' in (a[1], b[1]) else (t, 'Z')
        if op in ('&', '|'):
            if a[1] == b[1] == 'bool': return ('%s %s %s' % (P(a[0]), '&&' if op == '&' else '||', P(b[0])), 'bool')
            if num(a[1]) and num(b[1]):
                t = '%s %s %s' % ('Z.land' if op == '&' else 'Z.lor', P(a[0]), P(b[0]))
                return (t, 'u64' if 'u64' in (a[1], b[1]) else 'Z')
            raise Unsupported('bit operation on %s and %s' % (a[1], b[1]))
        if op == '<<':
            eb = unparen(eb)
            if num(a[1]) and eb[0] == 'num' and 0 <= int(eb[1]) < 64:
                t = '%s * %d' % (P(a[0]), 2 ** int(eb[1]))
                return ('xl_u64 %s' % P(t), 'u64') if a[1] == 'u64' else (t, 'Z')
        if op == '%' and 'u64' in (a[1], b[1]) and num(a[1]) and num(b[1]):
            self.notes.append('unsigned %: Z.modulo on non-negative values (the divisor is assumed non-zero, as C++ requires)')
            return ('%s mod %s' % (P(self.coerce(a, 'u64')), P(self.coerce(b, 'u64'))), 'u64')
        if op in ('/', '%'):
            if a[1] == b[1] == 'Z' and self.intdiv:
                return ('%s %s %s' % ('Z.quot' if op == '/' else 'Z.rem', P(a[0]), P(b[0])), 'Z')
        raise Unsupported('operator %s on %s and %s' % (op, a[1], b[1]))

    intdiv = False

    # ---- C++ declared type -> value type (None = opaque: the local is kept symbolic)
    def valtype(self, ty):
        ty = re.sub(r'\s*[&*]+$', '', ty).strip()
        if ty in self.ctypes: return self.ctypes[ty]
        if ty == 'bool': return 'bool'
        if ty in ('unsigned long', 'size_t', 'unsigned long long', 'uint64_t'): return 'u64'
        if self.real and ty in ('double', 'float'): return 'Q'
        if ty in ('int', 'long', 'short', 'long long', 'double', 'float', 'unsigned int', 'unsigned') + SMALLINT or ty in self.cast_ok: return 'Z'
        return None

    ctypes = {}

    # ---- statement classification
    def stmt_text(self, s, env):
        if s[0] == 'decl':
            return s[1] + ' ' + s[2] + ('' if s[3] is None else '=' + key(s[3], env))
        if s[0] == 'expr':
            return key(s[1], env)
        return s[0]

    def is_skip(self, s, env):
        if s[0] not in ('decl', 'expr'): return False
        t = self.stmt_text(s, env)
        return any(r.search(t) for r in self.skip)

    def is_abort(self, s, env=None):
        return s[0] == 'expr' and any(r.search(key(s[1], env)) for r in self.abort_pat)

    def target_of(self, e, env):
        """the variable an expression statement assigns: local name, state variable, or None"""
        e = unparen(e)
        if e[0] == 'assign':
            l = unparen(e[2])
            if l[0] != 'id':
                try:
                    return self.assigns.get(key(l, env))
                except Unsupported:
                    return None
            return l[1]
        if e[0] == 'call':
            fk = key(e[1], None)
            if self.setter_of(e): return self.setter_of(e)[0]
            if fk in self.emits: return self.emits[fk][0]
            if fk in self.appends: return self.appends[fk]
        return None

    def setter_of(self, e):
        """(state variable, value expression) of a call that is a bound setter, else None; `obj->Set("key", v)` is looked up as 'obj->Set("key")'"""
        fk = key(e[1], None)
        if fk in self.setters and len(e[2]) == 1: return self.setters[fk], e[2][0]
        if len(e[2]) == 2 and unparen(e[2][0])[0] == 'str':
            fk2 = '%s(%s)' % (fk, unparen(e[2][0])[1])
            if fk2 in self.setters: return self.setters[fk2], e[2][1]
        return None

    def targets_of(self, e, env):
        e = unparen(e)
        if e[0] == 'call' and key(e[1], None) in self.calls_st:
            return list(self.calls_st[key(e[1], None)]['updates'])
        t = self.target_of(e, env)
        return [t] if t else []

    def assigned(self, stmts, env):
        """value variables of env assigned somewhere in stmts (symbolic locals do not count)"""
        acc, declared = set(), set()
        def calls_in(x):
            if not isinstance(x, tuple): return
            if x[0] == 'call':
                try:
                    sp = self.calls_st.get(key(x, env))
                except Unsupported:
                    sp = None
                if sp and sp.get('ret'): acc.update(sp['updates'])
            for y in x:
                if isinstance(y, tuple): calls_in(y)
                elif isinstance(y, list):
                    for z in y: calls_in(z)
        def walk(ss):
            for s in ss:
                k = s[0]
                if self.calls_st and k in self.HEAD and s[self.HEAD[k]] is not None and not self.is_skip(s, env):
                    calls_in(s[self.HEAD[k]])
                if k == 'decl': declared.add(s[2])
                elif k == 'sbind': declared.update(s[1])
                elif k == 'expr':
                    if self.is_skip(s, env): continue
                    acc.update(self.targets_of(s[1], env))
                elif k == 'if': walk(s[2]); walk(s[3])
                elif k == 'block': walk(s[1])
                elif k == 'switch':
                    for _, b in s[2]: walk(b)
                elif k == 'for': walk(s[4])
                elif k == 'while': walk(s[2])
        walk(stmts)
        both = acc & declared & set(env.vals)
        if both: raise Unsupported('local shadows and assigns ' + ','.join(sorted(both)))
        return sorted(n for n in acc if n in env.vals and n not in declared)

    def has_jump(self, stmts, env, loop=False, sw=False):
        for s in stmts:
            k = s[0]
            if k == 'return': return True
            if k == 'break' and not (loop or sw): return True
            if k == 'continue' and not loop: return True
            if k == 'expr' and self.is_abort(s, env): return True
            if k == 'if' and (self.has_jump(s[2], env, loop, sw) or self.has_jump(s[3], env, loop, sw)): return True
            if k == 'block' and self.has_jump(s[1], env, loop, sw): return True
            if k == 'switch' and any(self.has_jump(b, env, loop, True) for _, b in s[2]): return True
            if k in ('for', 'while') and self.has_jump(s[-1], env, True, False): return True
        return False

    def always_jumps(self, stmts, env):
        for s in reversed(stmts):
            k = s[0]
            if k in ('return', 'break', 'continue'): return True
            if k == 'expr' and self.is_abort(s, env): return True
            if k == 'if': return bool(s[3]) and self.always_jumps(s[2], env) and self.always_jumps(s[3], env)
            if k == 'block': return self.always_jumps(s[1], env)
            if k == 'empty' or self.is_skip(s, env): continue
            return False
        return False

    # ---- tuples of variables
    def tup(self, names, env):
        if not names: return 'tt'
        for n in names:
            if env.vals[n][0] is None: raise Unsupported('variable %s may be read uninitialised' % n)
        return '(' + ', '.join(env.vals[n][0] for n in names) + ')' if len(names) > 1 else env.vals[names[0]][0]

    def rebind(self, names, env):
        """fresh gallina names for `names`; -> (pattern text usable after `let`, new env)"""
        e2 = env.copy()
        gs = []
        for n in names:
            g0, t, d = env.vals[n]
            g = self.fresh(n.lstrip('$'))
            e2.vals[n] = (g, t, d); gs.append(g)
        if not names: return ('_', e2)
        return (gs[0] if len(gs) == 1 else "'(" + ', '.join(gs) + ')', e2)

    def share(self, build, rest, env):
        """build(fall) -> term where every fall-through calls fall(env'); rest(env) is emitted once (let-bound) when
        the branches do not change variables, otherwise re-translated under each branch's environment"""
        self.nk += 1
        ph = PLACEHOLDER % self.nk
        body = build(lambda e2: ph)
        n = body.count(ph)
        if n == 0: return body
        r = rest(env)
        if n == 1 or len(r) < 40: return body.replace(ph, r)
        kname = self.fresh('xl_k')
        return 'let %s := %s in\n%s' % (kname, r, body.replace(ph, kname))

    # ---- calls with an effect on the state variables inside an expression: hoisted in front of the statement
    HEAD = {'expr': 1, 'decl': 3, 'if': 1, 'return': 1, 'switch': 1, 'while': 1}

    def st_term(self, spec, env, args=()):
        t = re.sub(r'\{(\$\w+)\}', lambda m: env.vals[m.group(1)][0], spec['term'])
        return t.format(*[P(a) for a in args]) if args else t

    def st_bind(self, spec, env, value_name=None):
        """fresh names for the state variables the call updates -> (let-pattern, new env)"""
        e2, gs = env.copy(), []
        if value_name: gs.append(value_name)
        for n in spec['updates']:
            g = self.fresh(n.lstrip('$')); gs.append(g)
            e2.vals[n] = (g, env.vals[n][1], env.vals[n][2])
        return (gs[0] if len(gs) == 1 else "'(" + ', '.join(gs) + ')'), e2

    def hoist(self, s, env):
        """value calls listed in calls_st that occur in the head expression of s: executed ONCE, in front of the statement, in
        evaluation order; every occurrence reads the value of that one execution.  Exact when (1) the first occurrence is
        evaluated unconditionally (checked here: not under the right operand of && || or a ?: branch) and (2) a repeated call
        returns the same value and changes nothing (idempotence: an obligation of the binding, proved in coq/Src)."""
        idx = self.HEAD.get(s[0])
        if idx is None or s[idx] is None or not any(sp.get('ret') for sp in self.calls_st.values()): return '', env, s
        order, seen = [], {}
        def walk(x, cond):
            if not isinstance(x, tuple): return x
            if x[0] == 'call':
                kk = key(x, env)
                sp = self.calls_st.get(kk)
                if sp and sp.get('ret'):
                    if kk not in seen:
                        if cond: raise Unsupported('call %s changes the state and is evaluated only conditionally' % kk)
                        seen[kk] = '$xl_call%d' % (len(seen) + 1 + self.nid * 100); order.append(kk)
                    return ('id', seen[kk])
                return ('call', walk(x[1], cond), [walk(a, cond) for a in x[2]])
            if x[0] == 'bin' and x[1] in ('&&', '||'):
                return ('bin', x[1], walk(x[2], cond), walk(x[3], True))
            if x[0] == 'cond':
                return ('cond', walk(x[1], cond), walk(x[2], True), walk(x[3], True))
            return tuple(walk(y, cond) if isinstance(y, tuple) else ([walk(z, cond) for z in y] if isinstance(y, list) else y) for y in x)
        e2 = walk(s[idx], False)
        if not order: return '', env, s
        if s[0] == 'while': raise Unsupported('state-changing call in a loop condition')
        pre = ''
        for kk in order:
            sp = self.calls_st[kk]
            v = self.fresh('xl_v')
            term = self.st_term(sp, env)
            pat, env = self.st_bind(sp, env, v)
            env.vals[seen[kk]] = (v, sp['ret'], self.declid())
            pre += 'let %s := %s in\n' % (pat, term)
            self.notes.append('%s is executed once per statement (state passed explicitly); repeated reads in the statement see that value' % kk)
        return pre, env, s[:idx] + (e2,) + s[idx + 1:]

    # ---- statements
    def ts(self, stmts, env, ctx):
        if not stmts:
            return ctx.fall(env)
        s, rest = stmts[0], stmts[1:]
        if self.calls_st and not self.is_skip(s, env):
            pre, env, s = self.hoist(s, env)
            if pre:
                return pre + self.ts([s] + rest, env, ctx)
        k = s[0]
        R = lambda e2: self.check(self.ts(rest, e2, ctx))
        if k == 'empty':
            return R(env)
        if self.is_skip(s, env):
            self.skipped.append(self.stmt_text(s, env)[:60])
            return R(env)
        if k == 'block':
            return self.ts(s[1], env, ctx.with_(fall=lambda e2: R(e2.leave_scope(env))))
        if k == 'return':
            return ctx.ret(s[1], env)
        if k == 'break':
            if not ctx.brk: raise Unsupported('break outside loop/switch')
            return ctx.brk(env)
        if k == 'continue':
            if not ctx.cont: raise Unsupported('continue outside loop')
            return ctx.cont(env)
        if k == 'decl':
            return self.t_decl(s, R, env)
        if k == 'sbind':
            sk = 'auto[' + ','.join(s[1]) + ']=' + key(s[2], env)
            if sk not in self.stmts: raise Unsupported('statement ' + sk[:60])
            e2 = env.copy()
            for n, kk in self.stmts[sk].items():
                e2.alias[n] = kk; e2.vals.pop(n, None)
            self.symbolic.append(sk[:60])
            return R(e2)
        if k == 'expr':
            return self.t_expr(s, R, env, ctx)
        if k == 'if':
            return self.t_if(s, R, env, ctx)
        if k == 'switch':
            return self.t_switch(s, R, env, ctx)
        if k == 'for':
            return self.t_for(s, R, env, ctx)
        if k == 'while':
            return self.t_while(s, R, env, ctx)
        raise Unsupported('statement ' + k)

    def check(self, term):
        if len(term) > SIZE_CAP: raise Unsupported('translation too large')
        return term

    def let(self, name, ty, term, env, R, declid=None):
        g = self.fresh(name.lstrip('$'))
        e2 = env.copy()
        e2.vals[name] = (g, ty, declid if declid else env.vals[name][2])
        e2.alias.pop(name, None)
        return 'let %s := %s in\n%s' % (g, term, R(e2))

    def t_decl(self, s, R, env):
        ty, name, init = s[1], s[2], s[3]
        vt = self.valtype(ty)
        e2 = env.copy()
        if init is None:
            if vt and self.types.get(vt, {}).get('elem'):
                return self.let(name, vt, '(@nil %s)' % P(self.coqtype(self.types[vt]['elem'])), env, R, self.declid())
            if vt:
                e2.vals[name] = (None, vt, self.declid()); e2.alias.pop(name, None)
            else:
                e2.alias[name] = None; e2.vals.pop(name, None)
            return R(e2)
        if init[0] == 'ctor':
            raise Unsupported('constructor call in declaration of ' + name)
        try:
            tt = self.tx(init, env)
        except Unsupported:
            if vt is not None or not self.opaque_ok: raise
            tt = None
        if vt is None and re.sub(r'\s*[&*]+$', '', ty).strip() in self.symtypes:
            tt = None        # e.g. icinga::Value: kept symbolic, so that `v != Empty` and `v` can be bound separately
        if tt is not None and tt[1] != 'ptr':
            want = vt or tt[1]
            return self.let(name, want, self.coerce(tt, want), env, R, self.declid())
        kk = key(init, env)
        self.symbolic.append('%s %s = %s' % (ty, name, kk[:50]))
        e2.alias[name] = kk; e2.vals.pop(name, None)
        if tt is not None and kk not in self.bind:
            self.bind = dict(self.bind); self.bind[kk] = tt      # the pointer's truth value, as translated at the declaration
        return R(e2)

    def t_expr(self, s, R, env, ctx):
        e = unparen(s[1])
        if self.is_abort(s, env):
            if self.abort_val is None: raise Unsupported('path ends in ' + key(e, env)[:30] + ' and the target names no abort value')
            if isinstance(self.abort_val, dict):          # {regex over the statement text: value}: which abort is it?
                txt = key(e, env)
                hits = [v for r, v in self.abort_val.items() if re.search(r, txt)]
                if len(hits) != 1: raise Unsupported('abort statement %s matches %d of the declared abort values' % (txt[:40], len(hits)))
                self.notes.append('a path ending in %s yields %s' % (txt[:60], hits[0]))
                saved, self.abort_val = self.abort_val, hits[0]
                try:
                    return ctx.abort(env)
                finally:
                    self.abort_val = saved
            self.notes.append('a path ending in %s yields %s' % (key(e, env)[:30], self.abort_val))
            return ctx.abort(env)
        sk = key(e, env)
        if sk in self.stmts:
            e2 = env.copy()
            for n, kk in self.stmts[sk].items():
                e2.alias[n] = kk; e2.vals.pop(n, None)
            self.symbolic.append(sk[:60])
            return R(e2)
        if e[0] == 'assign':
            lhs = unparen(e[2])
            if lhs[0] != 'id':
                n = self.assigns.get(key(lhs, env))
                if n is None or e[1] != '=': raise Unsupported('assignment to ' + key(lhs, env))
                return self.let(n, env.vals[n][1], self.coerce(self.tx(e[3], env), env.vals[n][1]), env, R)
            n = lhs[1]
            rhs = e[3] if e[1] == '=' else ('bin', e[1][:-1], lhs, e[3])
            if n in env.vals:
                _, t, _ = env.vals[n]
                return self.let(n, t, self.coerce(self.tx(rhs, env), t), env, R)
            if n in env.alias and e[1] == '=':
                e2 = env.copy(); e2.alias[n] = key(rhs, env)
                self.symbolic.append('%s = %s' % (n, e2.alias[n][:50]))
                return R(e2)
            raise Unsupported('assignment to unknown variable ' + n)
        if e[0] == 'call':
            fk = key(e[1], None)
            if self.setter_of(e):
                n, ve = self.setter_of(e)
                return self.let(n, env.vals[n][1], self.coerce(self.tx(ve, env), env.vals[n][1]), env, R)
            if fk in self.appends and len(e[2]) == 1:
                n = self.appends[fk]
                if n not in env.vals or env.vals[n][0] is None: raise Unsupported('append to an unknown or uninitialised list ' + n)
                lt = env.vals[n][1]
                et = self.types.get(lt, {}).get('elem')
                if not et: raise Unsupported('append to %s, which is not of a list type' % n)
                return self.let(n, lt, '%s ++ [%s]' % (P(env.vals[n][0]), self.coerce(self.tx(e[2][0], env), et)), env, R)
            if fk in self.calls_st and not self.calls_st[fk].get('ret'):
                sp = self.calls_st[fk]
                ats = sp.get('args', [])
                if len(ats) != len(e[2]): raise Unsupported('arity of ' + fk)
                args = [self.coerce(self.tx(a, env), at) for a, at in zip(e[2], ats) if at is not None]
                term = self.st_term(sp, env, args)
                pat, e2 = self.st_bind(sp, env)
                return 'let %s := %s in\n%s' % (pat, term, R(e2))
            if fk in self.emits:
                n, tmpl, ats = self.emits[fk]
                args = [self.coerce(self.tx(a, env), at) if at else '' for a, at in zip(e[2], ats)]
                if len(ats) != len(e[2]): raise Unsupported('arity of ' + fk)
                tmpl = re.sub(r'\{(\$\w+)\}', lambda m: env.vals[m.group(1)][0], tmpl)
                return self.let(n, env.vals[n][1], '%s ++ [%s]' % (env.vals[n][0], tmpl.format(*[P(a) for a in args])), env, R)
        raise Unsupported('statement ' + sk[:60])

    def t_if(self, s, R, env, ctx):
        c = self.coerce(self.tx(s[1], env), 'bool')
        A, B = s[2], s[3]
        names = self.assigned(A + B, env)
        if not (self.has_jump(A, env) or self.has_jump(B, env)):
            if not names:
                self.ts(A, env, Ctx(None, lambda e2: '')); self.ts(B, env, Ctx(None, lambda e2: ''))   # must still be in the subset
                return R(env)
            tc = Ctx(None, lambda e2: self.tup(names, e2))
            ta, tb = self.ts(A, env, tc), self.ts(B, env, tc)
            pat, e2 = self.rebind(names, env)
            return 'let %s := if %s then %s else %s in\n%s' % (pat, c, P(ta), P(tb), R(e2))
        def build(fall):
            f = lambda e2: fall(e2.leave_scope(env))
            return 'if %s\nthen %s\nelse %s' % (c, P(self.ts(A, env, ctx.with_(fall=f))), P(self.ts(B, env, ctx.with_(fall=f))))
        if names:
            return build(R)
        return self.share(build, R, env)

    def t_switch(self, s, R, env, ctx):
        sc = self.tx(s[1], env)
        if sc[1] not in ('Z', 'u64'): raise Unsupported('switch over ' + sc[1])
        groups = list(s[2])
        for i in range(len(groups) - 2, -1, -1):          # a group that does not end in a jump runs on into the next group
            if not self.always_jumps(groups[i][1], env):
                groups[i] = (groups[i][0], groups[i][1] + groups[i + 1][1])
        names = self.assigned([x for _, b in groups for x in b], env)
        scv = self.fresh('xl_sw')
        def build(fall):
            f = lambda e2: fall(e2.leave_scope(env))
            cx = ctx.with_(fall=f, brk=f)
            default, arms = None, []
            for labels, body in groups:
                t = P(self.ts(body, env, cx))
                tests = []
                for l in labels:
                    if l is None: default = t
                    else:
                        lt = self.tx(l, env)
                        if lt[1] not in ('Z', 'u64'): raise Unsupported('case label of type ' + lt[1])
                        tests.append('(%s =? %s)' % (scv, P(lt[0])))
                if tests: arms.append((' || '.join(tests), t))
            out = default if default is not None else f(env)
            for tst, t in reversed(arms):
                out = 'if %s then %s\nelse %s' % (tst, t, out)
            return 'let %s := %s in\n%s' % (scv, sc[0], out)
        return build(R) if names else self.share(build, R, env)

    def t_for(self, s, R, env, ctx):
        _, ty, var, ce, body = s
        ck = key(ce, env)
        if ck not in self.lists and unparen(ce)[0] == 'initlist' and unparen(ce)[1]:
            items = [self.tx(a, env) for a in unparen(ce)[1]]
            if len(set(t for _, t in items)) != 1 or items[0][1] not in ('Z', 'bool'):
                raise Unsupported('loop over a braced list of mixed or non-value types')
            lterm, et = '[' + '; '.join(t for t, _ in items) + ']', items[0][1]
        elif ck not in self.lists: raise Unsupported('loop over unbound container ' + ck)
        else: lterm, et = self.lists[ck]
        names = self.assigned(body, env)
        for n in names:
            if env.vals[n][0] is None: raise Unsupported('loop updates uninitialised ' + n)
        if var in self.used: raise Unsupported('loop variable name %s already in use' % var)
        self.used.add(var)
        pat, eb = self.rebind(names, env)
        if et in ('bool', 'Z', 'u64') or et in self.types:
            eb.vals[var] = (var, et, self.declid()); eb.alias.pop(var, None)
            xt = self.coqtype(et)
        else:
            eb.alias[var] = var; eb.vals.pop(var, None)     # element kept symbolic: bindings mention `var->...`
            xt = et
        hasret = self.has_jump(body, env, loop=True)
        if hasret and ctx.ret is None: raise Unsupported('return inside a loop in a branch merged by tuple')
        nxt = lambda e2: 'XlNext %s' % P(self.tup(names, e2.leave_scope(eb)))
        bctx = Ctx((lambda e, e2: 'XlReturn %s' % P(ctx.ret(e, e2))) if ctx.ret else None, nxt,
                   brk=lambda e2: 'XlBreak %s' % P(self.tup(names, e2.leave_scope(eb))), cont=nxt,
                   abort=(lambda e2: 'XlReturn %s' % P(ctx.abort(e2))) if ctx.abort else None)
        bt = self.ts(body, eb, bctx)
        sty = '(%s)%%type' % ' * '.join(P(self.coqtype(env.vals[n][1])) for n in names)
        spat = ('(_ : unit)' if not names else (pat if len(names) == 1 else '(xl_st : %s)' % sty))
        inner = bt if len(names) <= 1 else 'let %s := xl_st in\n%s' % (pat, bt)
        pat2, e2 = self.rebind(names, env)
        loop = 'xl_for (R:=%s) (fun %s (%s : %s) =>\n%s)\n%s %s' % (self.rtype_of(ctx), spat, var, xt, inner, P(lterm), P(self.tup(names, env)))
        after = R(e2)
        if len(names) > 1:
            after = 'let %s := xl_st in\n%s' % (pat2, after); p2 = 'xl_st'
        else:
            p2 = pat2
        return 'match %s with\n| inr xl_r => %s\n| inl %s => %s\nend' % (loop, 'xl_r' if ctx.ret else ctx.fall(env), p2, after)

    def rtype_of(self, ctx):
        return ('(%s)%%type' % ctx.rtype if ctx.rtype != '_' else '_') if ctx.ret else 'unit'

    def t_while(self, s, R, env, ctx):
        if not self.fuel: raise Unsupported('while loop and the target names no fuel')
        if not ctx.top: raise Unsupported('while loop nested in another loop')
        _, ce, body = s
        names = self.assigned(body, env)
        if ctx.ret is None: raise Unsupported('while loop in a branch merged by tuple')
        pat, eb = self.rebind(names, env)
        bind = (lambda t: t) if len(names) <= 1 else (lambda t: 'let %s := xl_st in\n%s' % (pat, t))
        spat = '(_ : unit)' if not names else (pat if len(names) == 1 else 'xl_st')
        cond = self.coerce(self.tx(ce, eb), 'bool')
        nxt = lambda e2: 'XlNext %s' % P(self.tup(names, e2.leave_scope(eb)))
        bctx = Ctx(lambda e, e2: 'XlReturn %s' % P(ctx.ret(e, e2)), nxt,
                   brk=lambda e2: 'XlBreak %s' % P(self.tup(names, e2.leave_scope(eb))), cont=nxt,
                   abort=(lambda e2: 'XlReturn %s' % P(ctx.abort(e2))) if ctx.abort else None)
        bt = self.ts(body, eb, bctx)
        pat2, e2 = self.rebind(names, env)
        after = R(e2)
        if len(names) > 1:
            after = 'let %s := xl_st in\n%s' % (pat2, after); p2 = 'xl_st'
        else:
            p2 = pat2
        loop = 'xl_while (R:=%s) %s (fun %s => %s)\n(fun %s =>\n%s)\n%s' % (
            self.rtype_of(ctx), P(self.fuel), spat, bind(cond), spat, bind(bt), P(self.tup(names, env)))
        return 'match %s with\n| None => None\n| Some (inr xl_r) => xl_r\n| Some (inl %s) => %s\nend' % (loop, p2, after)


RESERVED = {'if', 'then', 'else', 'let', 'in', 'fun', 'match', 'with', 'end', 'as', 'return', 'forall', 'exists', 'fix', 'at',
            'type', 'Type', 'Set', 'Prop', 'true', 'false', 'tt', 'negb', 'fst', 'snd', 'xl_st', 'xl_r', 'nil', 'cons', 'length',
            'S', 'O', 'Z', 'N', 'list', 'bool', 'unit', 'nat', 'option', 'Some', 'None', 'inl', 'inr', 'map', 'filter', 'find'}


# ------------------------------------------------------------------------------------------------ driver

def indent(term, n=2):
    """cosmetic only"""
    return '\n'.join(' ' * n + line for line in term.split('\n'))


def translate(target, src):
    """target: dict(name, func, inputs=[(gallina name, coq type)], ret, params={c++ name: (gallina term, type)}, bind, fns, ...)
    -> dict(ok, definition text (without the `Definition` header), coq result type, reason, skipped, symbolic, notes, line)"""
    tr = Tr(target)
    res = dict(ok=False, reason='', skipped=[], symbolic=[], notes=[], line=0)
    rettype = target['ret']
    state = tr.state
    comps = ([] if rettype == 'void' else [tr.coqtype(rettype)]) + [tr.coqtype(t) for _, _, t in state]
    rcoq = ' * '.join(comps) if comps else 'unit'
    if target.get('rcoq'): rcoq = target['rcoq']
    if tr.fuel: rcoq = 'option (%s)' % rcoq
    res['rcoq'] = rcoq
    try:
        params_text, body, line = locate(src, target['func'], target.get('nparams'))
        res['line'] = line
        outputs = []
        if target.get('region'):
            # a REGION of a large function: the statements between two anchors (regexes over the comment-free body);
            # the locals it reads are inputs (`locals`), the locals named in `outputs` and the state variables are its result
            m1 = re.search(target['region'][0], body)
            m2 = re.search(target['region'][1], body[m1.end():]) if m1 else None
            if not (m1 and m2): raise Unsupported('region anchors not found')
            if len(re.findall(target['region'][0], body)) != 1: raise Unsupported('region start anchor is not unique')
            start = m1.end() if target.get('region_after') else m1.start()     # region_after: the region begins AFTER the start anchor (e.g. a loop header)
            res['line'] = line + body[:start].count('\n')
            body = body[start:m1.end() + m2.start()]
            if body.count('{') != body.count('}'): raise Unsupported('region is not a balanced statement sequence')
            outputs = list(target.get('outputs', []))
        # preprocessor conditionals: accepted only when they enclose nothing but comments / blank lines (then they are dropped)
        def pp(m):
            if m.group(1).strip(): raise Unsupported('preprocessor conditional that encloses code')
            return '\n' * m.group(0).count('\n')
        body = preprocess(body, target.get('defines', {}), tr.notes)
        body = re.sub(r'^[ \t]*#[ \t]*if(?:n?def)?\b[^\n]*\n(.*?)^[ \t]*#[ \t]*endif\b[^\n]*$', pp, body, flags=re.S | re.M)
        stmts = Parser(body).body()
        env = Env()
        for cn, (g, t) in target.get('locals', {}).items():
            env.vals[cn] = (g, t, tr.declid())
        for cn, kk in target.get('aliases', {}).items():      # pointer/opaque locals declared before a region: their canonical key
            env.alias[cn] = kk
        for g, _ in target['inputs']:
            tr.used.add(g)
        for p in param_names(params_text):
            if p in target.get('params', {}):
                g, t = target['params'][p]
                if t in ('bool', 'Z', 'u64') or t in tr.types: env.vals[p] = (g, t, tr.declid())
                else: env.alias[p] = g
            elif p not in env.alias:         # (a region may name a parameter in `aliases`)
                env.alias[p] = None          # unbound parameter: any use as a value is an error
        for pseudo, g, t in state:
            env.vals[pseudo] = (g, t, tr.declid())

        def ret(e, e2):
            vals = []
            if rettype != 'void':
                if e is None: raise Unsupported('return without a value')
                vals.append(tr.coerce(tr.tx(e, e2), rettype))
            elif e is not None:
                raise Unsupported('return with a value in a void function')
            for o in outputs:
                if o not in e2.vals or e2.vals[o][0] is None: raise Unsupported('region output %s is not set at the end of the region' % o)
                vals.append(e2.vals[o][0])
            vals += [e2.vals[p][0] for p, _, _ in state]
            t = 'tt' if not vals else (vals[0] if len(vals) == 1 else '(' + ', '.join(P(v) for v in vals) + ')')
            return 'Some %s' % P(t) if tr.fuel else t

        def fall(e2):
            if rettype != 'void': raise Unsupported('control reaches the end of a non-void function')
            return ret(None, e2)

        def ret_region(e, e2):
            raise Unsupported('return inside a region')

        # region_exit: the region may be left early by `return;` / `continue;` / `break;` (of the enclosing function / loop);
        # its result is then (left early?, outputs, state)
        def region_result(left, e2):
            vals = [left if isinstance(left, str) else ('true' if left else 'false')]
            for o in outputs:
                if o not in e2.vals or e2.vals[o][0] is None: raise Unsupported('region output %s is not set when the region is left' % o)
                vals.append(e2.vals[o][0])
            vals += [e2.vals[p][0] for p, _, _ in state]
            return vals[0] if len(vals) == 1 else '(' + ', '.join(P(v) for v in vals) + ')'

        def ret_exit(e, e2):
            # exit_code_of = F: every `return F(code, ...)` leaves the region with the (integer) code, falling through yields 0
            ec = target.get('exit_code_of')
            if ec:
                e = unparen(e) if e is not None else None
                if e is None or e[0] != 'call' or key(e[1], None) != ec or not e[2]: raise Unsupported('return inside the region is not %s(code, ...)' % ec)
                return region_result(tr.coerce(tr.tx(e[2][0], e2), 'Z'), e2)
            if e is not None and not target.get('exit_ignore_value'): raise Unsupported('return with a value inside a region')
            if e is not None: tr.notes.append('the value returned when the region is left early is not part of the translation')
            return region_result(True, e2)

        def abort(e2):
            return ('Some %s' % P(tr.abort_val)) if tr.fuel else tr.abort_val

        if target.get('region_exit'):
            ctx0 = Ctx(ret_exit, lambda e2: region_result('0' if target.get('exit_code_of') else False, e2), brk=lambda e2: region_result(True, e2),
                       cont=lambda e2: region_result(True, e2), abort=abort, rtype=rcoq, top=True)
        else:
            ctx0 = Ctx(ret_region if target.get('region') else ret, fall, abort=abort, rtype=rcoq, top=True)
        term = tr.ts(stmts, env, ctx0)
        if '\x00' in term: raise Unsupported('internal: unresolved continuation')
        res.update(ok=True, term=term)
    except Unsupported as ex:
        res['reason'] = str(ex)
    except (IndexError, KeyError, ValueError) as ex:       # a translator bug must never pass for a translation
        res['reason'] = 'internal error %s: %s' % (type(ex).__name__, ex)
    res['skipped'] = sorted(set(tr.skipped)); res['symbolic'] = sorted(set(tr.symbolic)); res['notes'] = sorted(set(tr.notes))
    return res


def dummy(rcoq):
    """a value of the result type for unrecognised functions (never used by a proof: theorems are guarded by *_recognised)"""
    rcoq = rcoq.strip()
    if rcoq.startswith('option'): return 'None'
    parts = [x.strip() for x in split_top(rcoq.replace('*', ','))]
    d = {'bool': 'false', 'Z': '0', 'unit': 'tt', 'nat': 'O'}
    vals = []
    for x in parts:
        if x.startswith('list'): vals.append('nil')
        elif x in d: vals.append(d[x])
        else: return None
    return vals[0] if len(vals) == 1 else '(' + ', '.join(vals) + ')'


def csafe(x):
    """text that is safe inside a Coq comment"""
    return ' '.join(x.replace('*)', '* )').replace('(*', '( *').replace('"', "'").split())


def emit_definition(target, res):
    name = 'src_' + target['name']
    args = ' '.join('(%s : %s)' % (g, t) for g, t in target['inputs'])
    hdr = '(* %s  %s:%d' % (target['func'], target['file'], res['line'])
    if res['ok']:
        for lab in ('skipped', 'symbolic', 'notes'):
            if res[lab]: hdr += '\n   %s: %s' % (lab, '; '.join(csafe(x) for x in res[lab]))
        hdr += ' *)\n'
        return '%sDefinition %s_recognised : bool := true.\nDefinition %s %s : %s :=\n%s.\n' % (hdr, name, name, args, res['rcoq'], indent(res['term']))
    d = target.get('dummy') or dummy(res['rcoq'])
    if d is None:
        raise RuntimeError('no dummy value for result type %s of %s' % (res['rcoq'], name))
    hdr += '\n   NOT RECOGNISED: %s *)\n' % csafe(res['reason'])
    return '%sDefinition %s_recognised : bool := false.\nDefinition %s %s : %s := %s.\n' % (hdr, name, name, args, res['rcoq'], d)


if __name__ == '__main__':
    import sys
    body = sys.stdin.read()
    print(Parser(body).body())
