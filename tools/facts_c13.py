"""C13 facts: for every REGISTER_APIFUNCTION the normalised origin check of its handler.

Emits coq/Facts/Facts_c13.v:
  f_mz_handlers : list (method, (endpoint_check, pattern, flag))   -- strings, decoded in coq/Msg/MzFacts.v
A handler whose checks cannot be normalised yields pattern "unrecognised" (-> C13_sound fails for that row).
Recognition works on the comment-free, Log-free, whitespace-free text of the brace-matched function body and
is independent of local variable names."""
import re, os

REPO = os.environ.get('VERIF_REPO', '/repo')


def strip_comments(s):
    # keep string literals intact while removing // and /* */ comments
    out = []
    i, n = 0, len(s)
    while i < n:
        c = s[i]
        if c == '"':
            j = i + 1
            while j < n and s[j] != '"':
                j += 2 if s[j] == '\\' else 1
            out.append(s[i:j + 1]); i = j + 1
        elif c == "'" :
            j = i + 1
            while j < n and s[j] != "'":
                j += 2 if s[j] == '\\' else 1
            out.append(s[i:j + 1]); i = j + 1
        elif s.startswith('//', i):
            j = s.find('\n', i)
            i = n if j < 0 else j
        elif s.startswith('/*', i):
            j = s.find('*/', i + 2)
            i = n if j < 0 else j + 2
        else:
            out.append(c); i += 1
    return ''.join(out)


def match_close(s, i, op='{', cl='}'):
    """s[i] == op ; -> index of the matching close (string-literal aware)"""
    depth = 0
    n = len(s)
    while i < n:
        c = s[i]
        if c == '"':
            i += 1
            while i < n and s[i] != '"':
                i += 2 if s[i] == '\\' else 1
        elif c == op:
            depth += 1
        elif c == cl:
            depth -= 1
            if depth == 0:
                return i
        i += 1
    return -1


def fn_body(src, name):
    """body of the definition of function `name` (possibly qualified) in comment-free src"""
    for m in re.finditer(r'\b(?:Value|void|bool)\s+(?:\w+::)*' + re.escape(name) + r'\s*\(', src):
        p = match_close(src, m.end() - 1, '(', ')')
        if p < 0:
            continue
        q = p + 1
        while q < len(src) and src[q] in ' \t\r\n':
            q += 1
        if src.startswith('const', q):
            q += 5
            while q < len(src) and src[q] in ' \t\r\n':
                q += 1
        if q < len(src) and src[q] == '{':
            e = match_close(src, q)
            if e > 0:
                return src[q + 1:e]
    return None


def drop_logs(body):
    """remove `Log(...) << ... ;` statements and `Log name (...); name << ...;` is left alone (not used in checks)"""
    out = []
    i = 0
    while True:
        m = re.search(r'\bLog\s*\(', body[i:])
        if not m:
            out.append(body[i:]); break
        s = i + m.start()
        out.append(body[i:s])
        # to the terminating ';' outside strings/parens
        j = s
        depth = 0
        n = len(body)
        while j < n:
            c = body[j]
            if c == '"':
                j += 1
                while j < n and body[j] != '"':
                    j += 2 if body[j] == '\\' else 1
            elif c in '([': depth += 1
            elif c in ')]': depth -= 1
            elif c == ';' and depth == 0:
                break
            j += 1
        i = j + 1
    return ''.join(out)


def compact(body):
    """whitespace-free text; a space is kept only between two identifier characters"""
    body = re.sub(r'\s+', ' ', body)
    body = re.sub(r'(?<![A-Za-z0-9_]) | (?![A-Za-z0-9_])', '', body)
    return body


def returning_ifs(c):
    """conditions of all `if (...)` whose then-branch starts with a return; -> list of (pos, cond)"""
    res = []
    for m in re.finditer(r'\bif\(', c):
        p = match_close(c, m.end() - 1, '(', ')')
        if p < 0:
            continue
        rest = c[p + 1:]
        if rest.startswith('{return') or rest.startswith('return'):
            res.append((m.start(), c[m.end():p]))
    return res


def depth_at(c, pos):
    """brace depth of position pos in compact text c (string-literal aware)"""
    d = 0
    i = 0
    while i < pos:
        ch = c[i]
        if ch == '"':
            i += 1
            while i < pos and c[i] != '"':
                i += 2 if c[i] == '\\' else 1
        elif ch == '{':
            d += 1
        elif ch == '}':
            d -= 1
        i += 1
    return d


# ---- dominance: does every recognised refusal check precede every state-changing action of the handler? ----
# The text before the end of the last recognised check must be free of effects.  An effect is
#   * a call whose name is not a pure accessor, made on / handed an object that is not message-local, or
#   * an assignment to a member or qualified name.
# Message-local = `params`, values read out of message-local values with a pure accessor, and objects allocated
# with `new` (or default-constructed) inside the handler.  Anything the scanner is unsure about counts as an effect.
PURE_CALL = re.compile(r'^(Get\w*|Is\w*|Has\w*|Contains|CanAccessObject|get|size|empty|count|find|begin|end|'
                       r'static_cast|dynamic_cast|static_pointer_cast|dynamic_pointer_cast)$')
KEYWORDS = {'if', 'for', 'while', 'switch', 'return', 'catch', 'sizeof', 'else', 'do'}
LOCK_TYPES = {'ObjectLock', 'ObjectNameLock'}
IDENT = r'[A-Za-z_]\w*'


def _chain_root(c, i):
    """i = index of the last character of the receiver expression of a member / qualified call;
    -> leftmost identifier of the access chain  a->b(x).c::d"""
    j = i
    start = None
    while j >= 0:
        # postfix groups  (...)  [...]  <...>
        while j >= 0 and c[j] in ')]>':
            if c[j] == '>' and j >= 1 and c[j - 1] == '-':
                break
            cl = c[j]
            op = {')': '(', ']': '[', '>': '<'}[cl]
            d = 0
            while j >= 0:
                if c[j] == cl:
                    d += 1
                elif c[j] == op:
                    d -= 1
                    if d == 0:
                        break
                j -= 1
            j -= 1
        k = j
        while j >= 0 and (c[j].isalnum() or c[j] == '_'):
            j -= 1
        if j == k:
            break                       # no identifier here: not a chain we understand
        start = j + 1
        if j >= 1 and c[j - 1:j + 1] in ('->', '::'):
            j -= 2
        elif j >= 0 and c[j] == '.':
            j -= 1
        else:
            break
    if start is None:
        return None
    m = re.match(IDENT, c[start:i + 1])
    return m.group(0) if m else None


def _expr_root(e):
    """leftmost identifier of an expression like  params->Get("cr")  /  new Foo()  /  literals"""
    e = e.strip()
    if e.startswith('new ') or re.fullmatch(r'-?\d+(?:\.\d+)?[uUlLfF]*|true|false|nullptr|Empty|"(?:[^"\\]|\\.)*"', e):
        return '#fresh'
    m = re.match(r'(?:\(\w+\))?(' + IDENT + r')', e)
    return m.group(1) if m else None


def _rhs_pure_from(e, locs):
    """is e a value read out of a message-local value (or freshly allocated)?"""
    r = _expr_root(e)
    if r == '#fresh':
        return True
    if r is None or r not in locs:
        return False
    # every call in e must be a pure accessor
    for m in re.finditer(r'(' + IDENT + r')(?:<[^<>()]*>)?\(', e):
        if not PURE_CALL.match(m.group(1)):
            return False
    return True


def message_locals(pfx):
    assigns = {}
    for m in re.finditer(r'(?<![\w>.:\]])(' + IDENT + r')=(?!=)([^;]*);', pfx):
        assigns.setdefault(m.group(1), []).append(m.group(2))
    for m in re.finditer(r'(?<![\w>.:])(?:auto|[\w:]+(?:<[^;(){}]*>)?) (' + IDENT + r')\(([^;]*)\);', pfx):
        if m.group(0).split(' ')[0] not in LOCK_TYPES | {'return', 'new', 'else'}:
            assigns.setdefault(m.group(1), []).append(m.group(2))
    for m in re.finditer(r'for\((?:const )?[\w:]+(?:<[^;(){}]*>)?[&*]? ?(' + IDENT + r'):(' + IDENT + r')\)', pfx):
        assigns.setdefault(m.group(1), []).append(m.group(2))
    uninit = set(m.group(1) for m in re.finditer(r'(?<=[;{}])(?!return )(?:[\w:]+(?:<[^;(){}]*>)?) (' + IDENT + r');', pfx))
    locs = {'params'}
    changed = True
    while changed:
        changed = False
        for v in set(assigns) | uninit:
            if v in locs:
                continue
            if all(_rhs_pure_from(e, locs) for e in assigns.get(v, [])):
                locs.add(v)
                changed = True
    return locs


def effects_in(pfx):
    """-> list of offending snippets in the compact text pfx (empty = free of effects)"""
    bad = []
    locs = message_locals(pfx)
    for m in re.finditer(r'(' + IDENT + r')(?:<[^<>()]*>)?\(', pfx):
        name, i = m.group(1), m.start()
        if name in KEYWORDS:
            continue
        before = pfx[:i]
        if before.endswith('->') or before.endswith('.') or before.endswith('::'):
            k = len(before) - (1 if before.endswith('.') else 2)
            root = _chain_root(pfx, k - 1)
            if PURE_CALL.match(name):
                continue
            if root == 'std' and name in ('move', 'max', 'min', 'to_string'):
                continue
            if root in locs and not before.endswith('::'):
                continue
            bad.append(pfx[max(0, i - 25):m.end()])
            continue
        mm = re.search(r'([\w:<>*&]+) $', before)
        if mm:
            prev = mm.group(1)
            if prev == 'new':
                continue
            if prev not in ('return', 'else'):
                # declaration  T name(args): a lock, or a local initialised from args (classified by message_locals)
                continue
        if PURE_CALL.match(name):
            continue
        if name == 'Deserialize':
            a0 = re.match(r'\((' + IDENT + r'),', pfx[m.end() - 1:])
            if a0 and a0.group(1) in locs:
                continue
        bad.append(pfx[max(0, i - 25):m.end()])
    # assignments to members / qualified names
    for m in re.finditer(r'((?:' + IDENT + r')(?:(?:->|\.|::)' + IDENT + r')+)=(?!=)', pfx):
        root = re.match(IDENT, m.group(1)).group(0)
        if root in locs and '::' not in m.group(1):
            continue
        if pfx[max(0, m.start() - 1):m.start()] in ('!', '<', '>', '='):
            continue
        bad.append(m.group(0))
    return bad


def check_end(c, pos):
    """end of the refusal statement  if(...){?return Empty;}?  that starts at pos"""
    p = match_close(c, c.index('(', pos), '(', ')')
    mm = re.match(r'\{?return ?(?:Empty)?;\}?', c[p + 1:])
    return p + 1 + (mm.end() if mm else 0)


# ---- which object does the entitlement test name, and which object does the handler change? ----
# tested  = the argument of CanAccessObject (for event::ExecutedCommand: the record whose "endpoint" names the zone tested)
# changed = the roots of all non-pure member calls after the last refusal check, message-local values and the ApiListener
#           instance (relaying) left aside.
# Verdict (relative to the object changed):  addressed = it IS the object tested;  checkable_of / host_of = the test names
# the checkable / the host of the object changed;  other = some other recognised variable;  none = the check reads no
# object;  unknown = the scan cannot tell (then only the correspondence run decides - logged).
TESTED = {}


def changed_roots(c, start):
    locs = message_locals(c)
    listeners = set(m.group(1) for m in re.finditer(r'ApiListener::Ptr ?(' + IDENT + r')=ApiListener::GetInstance\(\);', c))
    roots = []
    sfx = c[start:]
    for m in re.finditer(r'(' + IDENT + r')(?:<[^<>()]*>)?\(', sfx):
        name, i = m.group(1), m.start()
        before = sfx[:i]
        if not (before.endswith('->') or before.endswith('.')):
            continue
        if PURE_CALL.match(name):
            continue
        k = len(before) - (1 if before.endswith('.') else 2)
        root = _chain_root(sfx, k - 1)
        if root is None or root in locs or root in listeners or root in ('origin', 'std'):
            continue
        if root not in roots:
            roots.append(root)
    return roots


def tested_selection(c, pat, cond, check_end_pos, log, method):
    if pat not in ('canaccess', 'canaccess_or_cmdep', 'execzone_childof_origin'):
        return 'none'
    if pat == 'execzone_childof_origin':
        m = re.search(r'Endpoint::Ptr ?(' + IDENT + r')=Endpoint::GetByName\((' + IDENT + r')->Get\("endpoint"\)\);', c)
        mm = re.search(r'&&!(' + IDENT + r')->GetZone\(\)->IsChildOf\(', cond)
        if not m or not mm or m.group(1) != mm.group(1):
            return 'unknown'
        v = m.group(2)
    else:
        m = re.search(r'->CanAccessObject\((' + IDENT + r')\)', cond)
        if not m:
            return 'unknown'
        v = m.group(1)
    roots = changed_roots(c, check_end_pos)
    if roots == [v]:
        return 'addressed'
    if len(roots) != 1:
        log.append('C13: %s: entitlement test names %s, handler changes %s - identity not established' % (method, v, roots or 'nothing recognised'))
        return 'unknown'
    mod = roots[0]
    e = re.escape
    if re.search(r'(?<![\w>.])' + e(v) + r'=' + e(mod) + r'->GetCheckable\(\);', c) or re.search(r' ' + e(v) + r'\(' + e(mod) + r'->GetCheckable\(\)\);', c):
        sel = 'checkable_of'
    elif re.search(r'(?<![\w>.])' + e(v) + r'=' + e(mod) + r'->GetHost\(\);', c) or \
            re.search(r'(?<![\w>.])' + e(mod) + r'=' + e(v) + r'->GetServiceByShortName\(', c):
        sel = 'host_of'
    else:
        sel = 'other'
    log.append('C13: %s: entitlement test names %s (%s) but the handler changes %s' % (method, v, sel, mod))
    return sel


W = r'[A-Za-z_]\w*'
FZ = r'origin->FromZone'
LOCAL = r'Zone::GetLocalZone\(\)'


def origin_cond(cond, c, epvar):
    """normalise one refusal condition -> pattern name or None (not an origin check) or 'unrecognised'"""
    if re.fullmatch(FZ + r'&&!' + FZ + r'->CanAccessObject\(' + W + r'\)', cond):
        return 'canaccess'
    m = re.fullmatch(FZ + r'&&!' + FZ + r'->CanAccessObject\((' + W + r')\)&&(' + W + r')!=(' + W + r')->GetCommandEndpoint\(\)', cond)
    if m:
        return 'canaccess_or_cmdep' if (m.group(1) == m.group(3) and m.group(2) == epvar) else 'unrecognised'
    if re.fullmatch(FZ + r'&&' + FZ + r'!=' + LOCAL, cond):
        return 'eq_local'
    if re.fullmatch(FZ + r'&&!' + LOCAL + r'->IsChildOf\(' + FZ + r'\)', cond):
        return 'local_childof_origin'
    m = re.fullmatch(r'!' + LOCAL + r'->IsChildOf\((' + W + r')\)', cond)
    if m:
        if epvar and re.search(r'Zone::Ptr ?' + m.group(1) + r'=' + epvar + r'->GetZone\(\);', c):
            return 'local_childof_epzone'
        return 'unrecognised'
    m = re.fullmatch(FZ + r'&&!(' + W + r')->GetZone\(\)->IsChildOf\(' + FZ + r'\)', cond)
    if m:
        if re.search(r'Endpoint::Ptr ?' + m.group(1) + r'=Endpoint::GetByName\(' + W + r'->Get\("endpoint"\)\);', c):
            return 'execzone_childof_origin'
        return 'unrecognised'
    if re.search(r'FromZone|IsChildOf|CanAccessObject|GetLocalZone|GetZone\(\)|IsAuthenticated', cond):
        return 'unrecognised'
    return None


def analyse(method, fname, body, all_src, log):
    """-> (ep:bool, pattern:str, flag:str, dom:str)
    dom: "all" = every recognised refusal check precedes every effect of the handler; "origin_only" = that holds for the
    endpoint/origin check but not for the accept flag; "no_check" = the handler has no refusal check at all;
    "unknown" = could not be established"""
    c = compact(drop_logs(body))
    # ---- trivial handler
    if re.fullmatch(r'return ?Empty;', c):
        return (False, 'none', 'none', 'no_check')
    # ---- endpoint variable
    m = re.search(r'(?:Endpoint::Ptr ?|auto ?)?(' + W + r')(?:=|\()(?:origin->FromClient|(' + W + r'))->GetEndpoint\(\)\)?;', c)
    epvar = m.group(1) if m else None
    if m and m.group(2):
        # via a local alias of origin->FromClient
        if not re.search(r'(?:auto ?|JsonRpcConnection::Ptr ?)' + m.group(2) + r'(?:=|\()origin->FromClient\)?;', c):
            epvar = None
    ep = False
    pats = []
    flag = 'none'
    if method == 'event::ExecuteCommand':
        return analyse_execute(c, all_src, log)
    # positive guard (icinga::Hello):  if (origin) { client = origin->FromClient; if (client) { ep = client->GetEndpoint(); if (ep) { ... } } } return Empty;
    mg = re.fullmatch(r'if\(origin\)\{auto ?(' + W + r')\(origin->FromClient\);if\(\1\)\{auto ?(' + W + r')\(\1->GetEndpoint\(\)\);if\(\2\)\{.*\}\}\}return ?Empty;', c)
    if mg:
        return (True, 'none', 'none', 'all')      # everything the handler does sits inside the innermost guard
    origin_ends = []       # end positions of the endpoint / origin refusals
    flag_ends = []
    pat_conds = []
    nested = False
    for pos, cond in returning_ifs(c):
        is_check = False
        kind = None
        if epvar and cond == '!' + epvar:
            ep = True
            is_check, kind = True, 'o'
        else:
            mm = re.fullmatch(r'!(?:' + (re.escape(epvar) if epvar else 'NOVAR') + r'|origin->FromClient->GetEndpoint\(\))\|\|\((.*)\)', cond)
            if mm:
                ep = True
                cond = mm.group(1)
                is_check, kind = True, 'o'
            if cond == '!origin->FromClient->GetEndpoint()':
                ep = True
                is_check, kind = True, 'o'
            else:
                pp = origin_cond(cond, c, epvar)
                if pp:
                    pats.append(pp)
                    pat_conds.append(cond)
                    is_check, kind = True, 'o'
                elif re.fullmatch(r'!' + W + r'->GetAcceptConfig\(\)', cond):
                    flag = 'accept_config' if flag == 'none' else 'unrecognised'
                    is_check, kind = True, 'f'
                elif re.search(r'GetAccept', cond):
                    flag = 'unrecognised'
        if is_check:
            if depth_at(c, pos) != 0 or (pos > 0 and c[pos - 1] not in ';{}'):
                nested = True          # a refusal inside some other block / under another condition does not guard the rest
            (origin_ends if kind == 'o' else flag_ends).append(check_end(c, pos))
    # a mention of an accept flag / origin zone outside a recognised refusal is not understood
    if 'GetAcceptConfig' in c and flag != 'accept_config':
        flag = 'unrecognised'
    if 'GetAcceptCommands' in c:
        flag = 'unrecognised'
    n_fz_checks = len(re.findall(r'if\([^;{}]*(?:FromZone|IsChildOf|CanAccessObject)', c))
    if len(pats) == 0:
        pat = 'none' if n_fz_checks == 0 else 'unrecognised'
    elif len(pats) == 1 and n_fz_checks == 1:
        pat = pats[0]
    else:
        pat = 'unrecognised'
    if nested:
        log.append('C13: %s: a refusal check sits inside a nested block' % method)
        pat = 'unrecognised'
    # ---- the object tested vs. the object changed
    try:
        TESTED[method] = tested_selection(c, pat, pat_conds[0] if len(pat_conds) == 1 else '', max(origin_ends + flag_ends) if (origin_ends or flag_ends) else 0, log, method)
    except Exception as ex:
        log.append('C13: tested-object analysis of %s failed: %r' % (method, ex))
        TESTED[method] = 'unknown'
    # ---- dominance
    if not origin_ends and not flag_ends:
        dom = 'no_check'
    else:
        dom = 'unknown'
        try:
            eo = effects_in(c[:max(origin_ends)]) if origin_ends else []
            ef = effects_in(c[:max(flag_ends)]) if flag_ends else []
            if not eo and not ef:
                dom = 'all'
            elif not eo:
                dom = 'origin_only'
            if eo or ef:
                log.append('C13: %s: effect before a refusal check: %s' % (method, '; '.join((eo + ef)[:3])))
        except Exception as ex:
            log.append('C13: dominance analysis of %s failed: %r' % (method, ex))
    return (ep, pat, flag, dom)


def top_statements(blk):
    """split the compact text of a block body into its top-level statements (if/else chains are one statement)"""
    out = []
    i, n = 0, len(blk)
    while i < n:
        j = i
        if re.match(r'(?:if|for|while|switch)\(', blk[i:]) or blk.startswith('else', i) or blk.startswith('try{', i) or blk.startswith('do{', i):
            # header (...) then a block or a single statement; an if keeps its else branches
            while True:
                m = re.match(r'(?:else ?)?(?:if|for|while|switch|catch)\(', blk[j:])
                if m:
                    j = match_close(blk, j + m.end() - 1, '(', ')') + 1
                elif blk.startswith('else', j):
                    j += 4
                    if j < n and blk[j] == ' ':
                        j += 1
                elif blk.startswith('try', j) or blk.startswith('do', j):
                    j += 3 if blk.startswith('try', j) else 2
                if j < n and blk[j] == '{':
                    j = match_close(blk, j) + 1
                else:
                    k = j
                    d = 0
                    while k < n and not (blk[k] == ';' and d == 0):
                        if blk[k] == '"':
                            k += 1
                            while k < n and blk[k] != '"':
                                k += 2 if blk[k] == '\\' else 1
                        elif blk[k] in '([{':
                            d += 1
                        elif blk[k] in ')]}':
                            d -= 1
                        k += 1
                    j = k + 1
                if blk.startswith('else', j) or blk.startswith('catch(', j):
                    continue
                break
        elif blk[i] == '{':
            j = match_close(blk, i) + 1
        else:
            d = 0
            while j < n and not (blk[j] == ';' and d == 0):
                if blk[j] == '"':
                    j += 1
                    while j < n and blk[j] != '"':
                        j += 2 if blk[j] == '\\' else 1
                elif blk[j] in '([{':
                    d += 1
                elif blk[j] in ')]}':
                    d -= 1
                j += 1
            j += 1
        if j <= i:
            return None
        out.append(blk[i:j])
        i = j
    return out


def always_returns(blk):
    """does every path through the block body end in a return?  (last top-level statement is a return, or an if/else chain
    with a final else all of whose branches always return)"""
    try:
        st = top_statements(blk)
    except Exception:
        return False
    if not st:
        return False
    last = st[-1]
    if re.fullmatch(r'return(?: [^;]*|\([^;]*)?;', last) or last == 'return;':
        return True
    if last.startswith('{') and last.endswith('}'):
        return always_returns(last[1:-1])
    if last.startswith('if('):
        # branches of the chain
        j = 0
        branches = []
        has_else = False
        while j < len(last):
            m = re.match(r'(?:else ?)?if\(', last[j:])
            if m:
                j = match_close(last, j + m.end() - 1, '(', ')') + 1
            elif last.startswith('else', j):
                j += 4
                if j < len(last) and last[j] == ' ':
                    j += 1
                has_else = True
            else:
                return False
            if j < len(last) and last[j] == '{':
                e = match_close(last, j)
                branches.append(last[j + 1:e])
                j = e + 1
            else:
                e = last.find(';', j)
                if e < 0:
                    return False
                branches.append(last[j:e + 1])
                j = e + 1
        return has_else and all(always_returns(b) for b in branches)
    return False


EXQ = {}


def exq_rules(qc, fm, flag):
    """ExecuteCheckFromQueue (compact text qc; fm = match of the accept_commands test) ->
    refusal: the accept_commands branch is a top-level statement, answers (ExecutedCommand 126 with "source", UNKNOWN check
             result without) and returns, and every call that executes a command comes after it;
    types:   which command types are executed and what a missing command / an expired deadline does"""
    r = {}
    execs = [m.start() for m in re.finditer(r'->(?:ExecuteRemoteCheck|ExecuteEventHandler|Execute)\(', qc)]
    if flag == 'accept_commands' and fm and depth_at(qc, fm.start()) == 0 and qc[fm.start() - 1] in ';}':
        e = match_close(qc, fm.end() - 1)
        blk = qc[fm.end():e]
        shape = (r'(?:String ?' + W + r'=[^;]*;)?if\(params->Contains\("source"\)\)\{(?:double ?' + W + r'=Utility::GetTime\(\);)?'
                 r'SendEventExecutedCommand\(params,126,[^;]*\);\}else\{[^{}]*(?:if\(params->Contains\("service"\)\)[^;{}]*;)?[^{}]*'
                 r'->SetState\(ServiceUnknown\);[^{}]*MakeCheckResultMessage\([^;]*\);' + W + r'->SyncSendMessage\(' + W + r',' + W + r'\);\}return;')
        if len(execs) >= 3 and all(x > e for x in execs) and re.fullmatch(shape, blk):
            r['refusal'] = 'reply_and_return_before_any_execution'
    lookups = (r'if\(command_type=="check_command"\)\{if\(!CheckCommand::GetByName\(command\)\)\{.*?return;\}\}'
               r'else if\(command_type=="event_command"\)\{if\(!EventCommand::GetByName\(command\)\)\{.*?return;\}\}'
               r'else if\(command_type=="notification_command"\)\{if\(!NotificationCommand::GetByName\(command\)\)\{.*?return;\}\}')
    runs = (r'if\(command_type=="check_command"\)\{try\{' + W + r'->ExecuteRemoteCheck\(' + W + r'\);\}catch.*?'
            r'\}else if\(command_type=="event_command"\)\{try\{' + W + r'->ExecuteEventHandler\(' + W + r',true\);\}catch.*?'
            r'\}else if\(command_type=="notification_command"&&params->Contains\("source"\)\)\{.*?' + W + r'->Execute\(.*\}$')
    deadline = r'if\(params->Contains\("source"\)\)\{.*?double ?(' + W + r')=params->Get\("deadline"\);if\(Utility::GetTime\(\)>\1\)\{?return;'
    ml, mr, md = re.search(lookups, qc), re.search(runs, qc), re.search(deadline, qc)
    if ml and mr and md and md.start() < (fm.start() if fm else 0) < ml.start() < mr.start() and len(execs) == 3 \
            and 'String command_type=params->Get("command_type");' in qc and 'String command=params->Get("command");' in qc:
        r['types'] = 'check_event_notification_with_source'
    return r


def analyse_execute(c, all_src, log):
    """event::ExecuteCommand: two-stage check (handler, then ExecuteCheckFromQueue)"""
    m = re.search(r'if\(!origin->IsLocal\(\)\)\{', c)
    if not m:
        return (False, 'unrecognised', 'unrecognised', 'unknown')
    e = match_close(c, m.end() - 1)
    blk = c[m.end():e]
    rx = (r'Endpoint::Ptr ?(?P<e>' + W + r')=origin->FromClient->GetEndpoint\(\);'
          r'if\(!(?P=e)\)\{?return ?Empty;\}?'
          r'Zone::Ptr ?(?P<oz>' + W + r')=(?P=e)->GetZone\(\);'
          r'Zone::Ptr ?(?P<lz>' + W + r')=' + LOCAL + r';'
          r'bool ?(?P<fl>' + W + r')=(?:(?P=oz)==(?P=lz)|(?P=lz)==(?P=oz));'
          r'Zone::Ptr ?(?P<pz>' + W + r')=(?P=lz)->GetParent\(\);'
          r'bool ?(?P<fp>' + W + r')=(?P=pz)&&(?:(?P=oz)==(?P=pz)|(?P=pz)==(?P=oz));'
          r'if\((?:!(?P=fl)&&!(?P=fp)|!(?P=fp)&&!(?P=fl))\)\{?return ?Empty;\}?')
    ok1 = re.fullmatch(rx, blk) is not None
    # nothing but the relay/enqueue logic may precede the origin block except the listener lookup
    pre = c[:m.start()]
    ok_pre = re.fullmatch(r'ApiListener::Ptr ?(' + W + r')=ApiListener::GetInstance\(\);if\(!\1\)return ?Empty;', pre) is not None
    ok_enq = 'EnqueueCheck(origin,params);' in c[e:]
    q = fn_body(all_src, 'ExecuteCheckFromQueue')
    ok2 = False
    flag = 'unrecognised'
    if q is not None:
        qc = compact(drop_logs(q))
        mm = re.search(r'if\(!(' + W + r')\|\|\(' + FZ + r'&&!' + LOCAL + r'->IsChildOf\(' + FZ + r'\)\)\)\{?return;', qc)
        if mm and re.search(r'if\(origin->FromClient\)\{' + mm.group(1) + r'=origin->FromClient->GetEndpoint\(\);\}', qc):
            ok2 = True
        fm = re.search(r'if\(!(' + W + r')->GetAcceptCommands\(\)&&!origin->IsLocal\(\)\)\{', qc)
        if fm and len(re.findall(r'GetAcceptCommands', qc)) == 1:
            # the refusal branch must END in an unconditional return (its last top-level statement), for every kind of
            # command: a return that sits inside a nested if/else of the branch does not count
            s = match_close(qc, fm.end() - 1)
            blk = qc[fm.end():s] if s > 0 else ''
            if always_returns(blk):
                flag = 'accept_commands'
            else:
                log.append('C13: ExecuteCheckFromQueue: the accept_commands branch does not end in an unconditional return')
        EXQ.clear()
        try:
            EXQ.update(exq_rules(qc, fm, flag))
        except Exception as ex:
            log.append('C13: ExecuteCheckFromQueue shape analysis failed: %r' % (ex,))
    # dominance: stage 1 precedes everything in the handler (ok_pre: nothing but the listener lookup before it, and it sits
    # at the top level); stage 2 precedes everything in ExecuteCheckFromQueue; the accept_commands refusal too?
    dom = 'unknown'
    if ok1 and ok_pre and depth_at(c, m.start()) == 0 and q is not None and ok2:
        try:
            qc = compact(drop_logs(q))
            e2 = effects_in(qc[:check_end(qc, mm.start())]) + ([] if depth_at(qc, mm.start()) == 0 else ['nested stage 2'])
            ef = (effects_in(qc[:fm.start()]) + ([] if depth_at(qc, fm.start()) == 0 else ['nested flag check'])) if flag == 'accept_commands' else ['?']
            dom = 'all' if (not e2 and not ef) else ('origin_only' if not e2 else 'unknown')
            if e2 or ef:
                log.append('C13: event::ExecuteCommand: effect before a refusal check in ExecuteCheckFromQueue: %s' % '; '.join((e2 + ef)[:3]))
        except Exception as ex:
            log.append('C13: dominance analysis of event::ExecuteCommand failed: %r' % (ex,))
    if ok1 and ok_pre and ok_enq and ok2:
        return (True, 'local_or_parent_then_origin', flag, dom)
    log.append('C13: ExecuteCommand not recognised (stage1=%s pre=%s enqueue=%s stage2=%s)' % (ok1, ok_pre, ok_enq, ok2))
    return (ok1, 'unrecognised', flag, dom)


BUILD = (r'(?:double ?' + W + r'=Utility::GetTime\(\);|Dictionary::Ptr ?' + W + r'=new ?Dictionary\(\);|' + W + r'->Set\("[a-z_]+",[^;]*\);|'
         r'if\(params->Contains\("service"\)\)' + W + r'->Set\("service",params->Get\("service"\)\);)*')


def forward_shape(c, log):
    """ExecuteCommandAPIHandler after the stage-1 block: the "endpoint" branch.  -> rule name or None"""
    m = re.search(r'if\(!origin->IsLocal\(\)\)\{', c)
    if not m:
        return None
    e = match_close(c, m.end() - 1)
    rest = c[e + 1:]
    m1 = re.match(r'String ?(' + W + r')=params->Get\("source"\);if\(params->Contains\("endpoint"\)\)\{', rest)
    if not m1:
        return None
    b_end = match_close(rest, m1.end() - 1)
    if rest[b_end + 1:] != 'EnqueueCheck(origin,params);return Empty;':
        return None
    body = rest[m1.end():b_end]
    m2 = re.match(r'Endpoint::Ptr ?(?P<E>' + W + r')=Endpoint::GetByName\(params->Get\("endpoint"\)\);if\(!(?P=E)\)\{?return ?Empty;\}?'
                  r'if\((?P=E)!=Endpoint::GetLocalEndpoint\(\)\)\{', body)
    if not m2 or match_close(body, m2.end() - 1) != len(body) - 1:
        return None
    E = m2.group('E')
    inner = body[m2.end():-1]
    m3 = re.match(r'Zone::Ptr ?(?P<EZ>' + W + r')=' + E + r'->GetZone\(\);Zone::Ptr ?(?P<LZ>' + W + r')=' + LOCAL + r';'
                  r'if\(!(?P=EZ)->IsChildOf\((?P=LZ)\)\)\{?return ?Empty;\}?'
                  r'for\(const ?Zone::Ptr ?& ?(?P<Z>' + W + r'):ConfigType::GetObjectsByType<Zone>\(\)\)\{', inner)
    if not m3:
        return None
    EZ, LZ, Z = m3.group('EZ'), m3.group('LZ'), m3.group('Z')
    l_end = match_close(inner, m3.end() - 1)
    loop = inner[m3.end():l_end]
    tail = inner[l_end + 1:]
    if not re.fullmatch(BUILD + r'listener->RelayMessage\(origin,' + EZ + r',' + W + r',true\);return ?Empty;', tail):
        return None
    m4 = re.match(r'if\((?:' + Z + r'->GetParent\(\)==' + LZ + r'|' + LZ + r'==' + Z + r'->GetParent\(\))&&' + Z + r'->CanAccessObject\(' + EZ + r'\)\)\{', loop)
    if not m4 or match_close(loop, m4.end() - 1) != len(loop) - 1:
        return None
    zb = loop[m4.end():-1]
    reply = BUILD + r'listener->RelayMessage\(nullptr,nullptr,' + W + r',true\);return ?Empty;'
    rx = (r'std::set<Endpoint::Ptr> ?(?P<ES>' + W + r')=' + Z + r'->GetEndpoints\(\);'
          r'for\(const ?Endpoint::Ptr ?& ?(?P<CE>' + W + r'):(?P=ES)\)\{if\(!\((?P=CE)->GetCapabilities\(\)&\(uint_fast64_t\)ApiCapabilities::ExecuteArbitraryCommand\)\)\{' + reply + r'\}\}'
          r'Checkable::Ptr ?(?P<CK>' + W + r');Host::Ptr ?(?P<H>' + W + r')=Host::GetByName\(params->Get\("host"\)\);if\(!(?P=H)\)\{?return ?Empty;\}?'
          r'if\(params->Contains\("service"\)\)(?P=CK)=(?P=H)->GetServiceByShortName\(params->Get\("service"\)\);else ?(?P=CK)=(?P=H);'
          r'if\(!(?P=CK)\)\{[^{}]*return ?Empty;\}'
          r'if\(!' + Z + r'->CanAccessObject\((?P=CK)\)&&' + Z + r'!=' + EZ + r'\)\{' + reply + r'\}')
    if not re.fullmatch(rx, zb):
        return None
    if 'GetAcceptCommands' in c:
        return None
    return 'target_in_subtree_then_relay_to_target_zone'


def relay_shape(src, log):
    """ApiListener::RelayMessageOne / SyncRelayMessage -> rule name or None"""
    one = fn_body(src, 'RelayMessageOne')
    syn = fn_body(src, 'SyncRelayMessage')
    if one is None or syn is None:
        return None
    o = compact(drop_logs(one))
    y = compact(drop_logs(syn))
    pieces = [
        r'if\(!(?P<T>' + W + r')->GetGlobal\(\)&&(?P=T)!=(?P<L>' + W + r')&&(?P=T)!=(?P=L)->GetParent\(\)&&(?P=T)->GetParent\(\)!=(?P=L)\)\{?return ?true;\}?',
        r'if\((?P<TE>' + W + r')==(?P<LE>' + W + r')\)continue;',
        r'if\(!(?P=TE)->GetConnected\(\)\)\{',
        r'if\((?P<R>' + W + r')&&(?P<CZ>' + W + r')!=(?P=L)\)\{' + W + r'\.push_back\((?P=TE)\);continue;\}',
        r'if\(origin&&origin->FromClient&&(?P=TE)==origin->FromClient->GetEndpoint\(\)\)\{' + W + r'\.push_back\((?P=TE)\);continue;\}',
        r'if\(origin&&origin->FromZone&&(?P=CZ)==origin->FromZone\)\{' + W + r'\.push_back\((?P=TE)\);continue;\}',
        r'bool ?(?P<M>' + W + r')=\((?P<ZM>' + W + r')==(?P=LE)\);if\(!(?P=M)&&(?P=TE)!=(?P=ZM)\)\{' + W + r'\.push_back\((?P=TE)\);continue;\}',
        r'(?P=R)=true;SyncSendMessage\((?P=TE),' + W + r'\);',
    ]
    rx = '.*?'.join(pieces)
    if not re.search(rx, o):
        return None
    if len(re.findall(r'SyncSendMessage\(', o)) != 1:
        return None
    if not re.search(r'Zone::Ptr ?(?P<TZ>' + W + r');if\((?P<S>' + W + r')\)\{if\((?P=S)->GetReflectionType\(\)==Zone::TypeInstance\)(?P=TZ)=static_pointer_cast<Zone>\((?P=S)\);'
                     r'else ?(?P=TZ)=static_pointer_cast<Zone>\((?P=S)->GetZone\(\)\);\}if\(!(?P=TZ)\)(?P=TZ)=' + LOCAL + r';.*?'
                     r'bool ?(?P<NL>' + W + r')=!RelayMessageOne\((?P=TZ),origin,' + W + r',' + W + r'\);'
                     r'for\(const ?Zone::Ptr ?& ?(?P<Z>' + W + r'):(?P=TZ)->GetAllParentsRaw\(\)\)\{if\(!RelayMessageOne\((?P=Z),origin,', y):
        return None
    return 'adjacent_zones_not_back_master_only'


def update_object_zone_rule(c):
    """config::UpdateObject: what the handler does with params.zone -> rule name or None"""
    m = re.search(r'String ?(' + W + r')=params->Get\("zone"\);', c)
    if not m:
        return 'zone_not_read' if '"zone"' not in c else None
    v = m.group(1)
    uses = len(re.findall(r'(?<![\w])' + re.escape(v) + r'(?![\w])', c))
    if re.search(r'if\(!' + v + r'\.IsEmpty\(\)&&!Zone::GetByName\(' + v + r'\)\)\{?return ?Empty;\}?', c) and uses == 3 and c.count('"zone"') == 1:
        return 'refuse_unknown_nonempty_zone_otherwise_unused'
    return None


def run(rd, emit, log, enum_values, ti_default):
    files = []
    for root, _, fns in os.walk(os.path.join(REPO, 'lib')):
        for fn in fns:
            if fn.endswith('.cpp'):
                files.append(os.path.relpath(os.path.join(root, fn), REPO))
    files.sort()
    srcs = {}
    regs = []
    raw_macro_uses = 0          # every use of the registration macro, parsed or not
    other_registrations = 0     # direct use of the registry / constructor outside the macro
    hdrs = []
    for root, _, fns in os.walk(os.path.join(REPO, 'lib')):
        for fn in fns:
            if fn.endswith('.hpp') or fn.endswith('.ti'):
                hdrs.append(os.path.relpath(os.path.join(root, fn), REPO))
    for f in sorted(hdrs):
        if f.endswith('remote/apifunction.hpp'):
            continue
        t = strip_comments(rd(f))
        raw_macro_uses += len(re.findall(r'\bREGISTER_APIFUNCTION\s*\(', t))
        other_registrations += len(re.findall(r'ApiFunctionRegistry::GetInstance\(\)\s*->\s*Register\s*\(|new\s+ApiFunction\s*\(', t))
    for f in files:
        t = rd(f)
        if 'ApiFunction' in t and not f.endswith('remote/apifunction.cpp'):
            tt = strip_comments(t)
            other_registrations += len(re.findall(r'ApiFunctionRegistry::GetInstance\(\)\s*->\s*Register\s*\(|new\s+ApiFunction\s*\(', tt))
        if 'REGISTER_APIFUNCTION' not in t and 'ExecuteCheckFromQueue' not in t:
            continue
        t = strip_comments(t)
        srcs[f] = t
        raw_macro_uses += len(re.findall(r'\bREGISTER_APIFUNCTION\s*\(', t))
        for m in re.finditer(r'^\s*REGISTER_APIFUNCTION\s*\(\s*(\w+)\s*,\s*(\w+)\s*,\s*&\s*((?:\w+::)*)(\w+)\s*\)\s*;', t, re.M):
            regs.append((m.group(2) + '::' + m.group(1), m.group(4), f, m.group(3)))
    all_src = '\n'.join(srcs.values())
    rows = []
    doms = []
    fwd_rule = None
    uo_rule = None
    for method, fname, f, qual in sorted(regs):
        body = fn_body(srcs[f], fname) or fn_body(all_src, fname)
        if body is None:
            log.append('C13: handler %s of %s not found' % (fname, method))
            rows.append((method, False, 'unrecognised', 'unrecognised'))
            doms.append((method, 'unknown'))
            continue
        try:
            ep, pat, flag, dom = analyse(method, fname, body, all_src, log)
        except Exception as ex:   # never let the translator crash a check
            log.append('C13: analysing %s failed: %r' % (method, ex))
            ep, pat, flag, dom = False, 'unrecognised', 'unrecognised', 'unknown'
        if pat == 'unrecognised' or flag == 'unrecognised':
            log.append('C13: %s: check not recognised (ep=%s pattern=%s flag=%s)' % (method, ep, pat, flag))
        if dom not in ('all', 'no_check'):
            log.append('C13: %s: refusal checks not shown to precede every effect (%s) - behaviour compared by the run only' % (method, dom))
        rows.append((method, ep, pat, flag))
        doms.append((method, dom))
        try:
            if method == 'event::ExecuteCommand':
                fwd_rule = forward_shape(compact(drop_logs(body)), log)
            if method == 'config::UpdateObject':
                uo_rule = update_object_zone_rule(compact(drop_logs(body)))
        except Exception as ex:
            log.append('C13: shape analysis of %s failed: %r' % (method, ex))
    # a few single-spot shapes, logged only (their behaviour is covered by the correspondence run)
    shapes = {}
    z = compact(strip_comments(rd('lib/remote/zone.cpp')))
    shapes['Zone::IsChildOf'] = re.search(
        r'bool ?Zone::IsChildOf\(const ?Zone::Ptr&(' + W + r')\)\{Zone::Ptr ?(' + W + r')=this;while\(\2\)\{if\(\2==\1\)return ?true;\2=\2->GetParent\(\);\}return ?false;\}', z) is not None
    # origin construction in MessageHandler: which claimed "originZone" is honoured.  Recognised rule (names free):
    #   origin->FromClient = this;
    #   if (m_Endpoint) { if (m_Endpoint->GetZone() != Zone::GetLocalZone()) origin->FromZone = m_Endpoint->GetZone();
    #                     else origin->FromZone = Zone::GetByName(message->Get("originZone")); }
    origin_rule = None
    mh = fn_body(strip_comments(rd('lib/remote/jsonrpcconnection.cpp')), 'MessageHandler')
    if mh is not None:
        mc = compact(drop_logs(mh))
        mo = re.search(r'(' + W + r')->FromClient=this;(.*?)Value ?' + W + r';', mc)
        if mo:
            o = re.escape(mo.group(1))
            blk = mo.group(2)
            rule = (r'if\(m_Endpoint\)\{if\((?:m_Endpoint->GetZone\(\)!=' + LOCAL + r'|' + LOCAL + r'!=m_Endpoint->GetZone\(\))\)\{?'
                    + o + r'->FromZone=m_Endpoint->GetZone\(\);\}?else\{? ?' + o + r'->FromZone=Zone::GetByName\(' + W + r'->Get\("originZone"\)\);\}?\}')
            if re.fullmatch(rule, blk):
                origin_rule = 'claim_iff_sender_in_local_zone'
        # FromZone must not be assigned anywhere else in the handler
        if origin_rule and len(re.findall(r'->FromZone=', mc)) != 2:
            origin_rule = None
    shapes['MessageHandler origin'] = origin_rule is not None
    shapes['Zone parent not global'] = re.search(
        r'void ?Zone::OnAllConfigLoaded\(\)\{[^}]*m_Parent=Zone::GetByName\(GetParentRaw\(\)\);if\(m_Parent&&m_Parent->IsGlobal\(\)\)BOOST_THROW_EXCEPTION\(', z) is not None
    j = compact(strip_comments(rd('lib/remote/jsonrpcconnection.cpp')))
    shapes['ctor endpoint iff authenticated'] = 'if(authenticated)m_Endpoint=Endpoint::GetByName(identity);' in j
    e = compact(strip_comments(rd('lib/remote/endpoint.cpp')))
    shapes['Endpoint requires zone'] = re.search(r'void ?Endpoint::OnAllConfigLoaded\(\)\{[^}]*if\(!m_Zone\)BOOST_THROW_EXCEPTION\(', e) is not None
    relay_rule = None
    try:
        relay_rule = relay_shape(strip_comments(rd('lib/remote/apilistener.cpp')), log)
    except Exception as ex:
        log.append('C13: relay shape analysis failed: %r' % (ex,))
    shapes['ExecuteCommand forwarding branch'] = fwd_rule is not None
    shapes['RelayMessageOne / SyncRelayMessage'] = relay_rule is not None
    shapes['config::UpdateObject use of params.zone'] = uo_rule is not None
    shapes['ExecuteCheckFromQueue accept_commands refusal'] = EXQ.get('refusal') is not None
    shapes['ExecuteCheckFromQueue command types'] = EXQ.get('types') is not None
    for k, v in shapes.items():
        if not v:
            log.append('C13: shape not recognised (correspondence only): ' + k)
    body = 'Local Open Scope string_scope.\n\n'
    body += '(* (method, (refuses without endpoint, normalised origin check, accept flag consulted)) *)\n'
    body += 'Definition f_mz_handlers : list (string * (bool * string * string)) := [\n'
    body += ';\n'.join('  ("%s", (%s, "%s", "%s"))' % (m, 'true' if ep else 'false', p, fl) for m, ep, p, fl in rows)
    body += '\n].\n\n'
    body += '(* (method, (handler function, source file)) for every REGISTER_APIFUNCTION that could be parsed *)\n'
    body += 'Definition f_mz_registrations : list (string * (string * string)) := [\n'
    body += ';\n'.join('  ("%s", ("%s%s", "%s"))' % (m, q, fn, f) for m, fn, f, q in sorted(regs))
    body += '\n].\n\n'
    body += '(* uses of the registration macro in lib/ (parsed or not) and registrations that bypass it *)\n'
    body += 'Definition f_mz_macro_uses : nat := %d.\n' % raw_macro_uses
    body += 'Definition f_mz_other_registrations : nat := %d.\n\n' % other_registrations
    body += '(* do the recognised refusal checks of the handler precede everything it does?  all / origin_only / no_check / unknown *)\n'
    body += 'Definition f_mz_dominance : list (string * string) := [\n'
    body += ';\n'.join('  ("%s", "%s")' % (m, d) for m, d in doms)
    body += '\n].\n\n'
    body += 'Definition f_mz_registered : nat := %d.\n' % len(regs)
    opt = lambda v: ('Some "%s"' % v) if v else 'None'
    body += '(* the "endpoint" branch of event::ExecuteCommand, RelayMessageOne/SyncRelayMessage, params.zone of config::UpdateObject *)\n'
    body += 'Definition f_mz_exec_forward_rule : option string := %s.\n' % opt(fwd_rule)
    body += 'Definition f_mz_relay_rule : option string := %s.\n' % opt(relay_rule)
    body += 'Definition f_mz_update_object_zone_rule : option string := %s.\n' % opt(uo_rule)
    body += '(* which claimed originZone MessageHandler honours; None = shape not recognised (compared by the run only) *)\n'
    body += 'Definition f_mz_origin_rule : option string := %s.\n' % ('Some "%s"' % origin_rule if origin_rule else 'None')
    body += '(* per handler: the object its entitlement test names, relative to the object it changes *)\n'
    body += 'Definition f_mz_tested : list (string * string) := [\n'
    body += ';\n'.join('  ("%s", "%s")' % (m, TESTED.get(m, 'none')) for m, _, _, _ in rows)
    body += '\n].\n\n'
    body += '(* ExecuteCheckFromQueue: the accept_commands refusal; the command types executed *)\n'
    body += 'Definition f_mz_exq_refusal_rule : option string := %s.\n' % opt(EXQ.get('refusal'))
    body += 'Definition f_mz_exq_types_rule : option string := %s.\n' % opt(EXQ.get('types'))
    for k, v in shapes.items():
        body += 'Definition f_mz_shape_%s : bool := %s.\n' % (re.sub(r'\W+', '_', k), 'true' if v else 'false')
    emit('Facts_c13.v', body)
