"""C13 facts: for every REGISTER_APIFUNCTION the normalised origin check of its handler.

Emits coq/Facts/Facts_c13.v:
  f_mz_handlers : list (method, (endpoint_check, pattern, flag))   -- strings, decoded in coq/Msg/MzFacts.v
A handler whose checks cannot be normalised yields pattern "unrecognised" (-> C13_sound fails for that row).
Recognition works on the comment-free, Log-free, whitespace-free text of the brace-matched function body and
is independent of local variable names."""
import re, os

REPO = os.environ.get('VERIF_REPO', '/repo')


def strip_comments(s):
    # keep string literals intact while removing // and /* */ comments
    out = []
    i, n = 0, len(s)
    while i < n:
        c = s[i]
        if c == '"':
            j = i + 1
            while j < n and s[j] != '"':
                j += 2 if s[j] == '\\' else 1
            out.append(s[i:j + 1]); i = j + 1
        elif c == "'" :
            j = i + 1
            while j < n and s[j] != "'":
                j += 2 if s[j] == '\\' else 1
            out.append(s[i:j + 1]); i = j + 1
        elif s.startswith('//', i):
            j = s.find('\n', i)
            i = n if j < 0 else j
        elif s.startswith('/*', i):
            j = s.find('*/', i + 2)
            i = n if j < 0 else j + 2
        else:
            out.append(c); i += 1
    return ''.join(out)


def match_close(s, i, op='{', cl='}'):
    """s[i] == op ; -> index of the matching close (string-literal aware)"""
    depth = 0
    n = len(s)
    while i < n:
        c = s[i]
        if c == '"':
            i += 1
            while i < n and s[i] != '"':
                i += 2 if s[i] == '\\' else 1
        elif c == op:
            depth += 1
        elif c == cl:
            depth -= 1
            if depth == 0:
                return i
        i += 1
    return -1


def fn_body(src, name):
    """body of the definition of function `name` (possibly qualified) in comment-free src"""
    for m in re.finditer(r'\b(?:Value|void)\s+(?:\w+::)*' + re.escape(name) + r'\s*\(', src):
        p = match_close(src, m.end() - 1, '(', ')')
        if p < 0:
            continue
        q = p + 1
        while q < len(src) and src[q] in ' \t\r\n':
            q += 1
        if src.startswith('const', q):
            q += 5
            while q < len(src) and src[q] in ' \t\r\n':
                q += 1
        if q < len(src) and src[q] == '{':
            e = match_close(src, q)
            if e > 0:
                return src[q + 1:e]
    return None


def drop_logs(body):
    """remove `Log(...) << ... ;` statements and `Log name (...); name << ...;` is left alone (not used in checks)"""
    out = []
    i = 0
    while True:
        m = re.search(r'\bLog\s*\(', body[i:])
        if not m:
            out.append(body[i:]); break
        s = i + m.start()
        out.append(body[i:s])
        # to the terminating ';' outside strings/parens
        j = s
        depth = 0
        n = len(body)
        while j < n:
            c = body[j]
            if c == '"':
                j += 1
                while j < n and body[j] != '"':
                    j += 2 if body[j] == '\\' else 1
            elif c in '([': depth += 1
            elif c in ')]': depth -= 1
            elif c == ';' and depth == 0:
                break
            j += 1
        i = j + 1
    return ''.join(out)


def compact(body):
    """whitespace-free text; a space is kept only between two identifier characters"""
    body = re.sub(r'\s+', ' ', body)
    body = re.sub(r'(?<![A-Za-z0-9_]) | (?![A-Za-z0-9_])', '', body)
    return body


def returning_ifs(c):
    """conditions of all `if (...)` whose then-branch starts with a return; -> list of (pos, cond)"""
    res = []
    for m in re.finditer(r'\bif\(', c):
        p = match_close(c, m.end() - 1, '(', ')')
        if p < 0:
            continue
        rest = c[p + 1:]
        if rest.startswith('{return') or rest.startswith('return'):
            res.append((m.start(), c[m.end():p]))
    return res


W = r'[A-Za-z_]\w*'
FZ = r'origin->FromZone'
LOCAL = r'Zone::GetLocalZone\(\)'


def origin_cond(cond, c, epvar):
    """normalise one refusal condition -> pattern name or None (not an origin check) or 'unrecognised'"""
    if re.fullmatch(FZ + r'&&!' + FZ + r'->CanAccessObject\(' + W + r'\)', cond):
        return 'canaccess'
    m = re.fullmatch(FZ + r'&&!' + FZ + r'->CanAccessObject\((' + W + r')\)&&(' + W + r')!=(' + W + r')->GetCommandEndpoint\(\)', cond)
    if m:
        return 'canaccess_or_cmdep' if (m.group(1) == m.group(3) and m.group(2) == epvar) else 'unrecognised'
    if re.fullmatch(FZ + r'&&' + FZ + r'!=' + LOCAL, cond):
        return 'eq_local'
    if re.fullmatch(FZ + r'&&!' + LOCAL + r'->IsChildOf\(' + FZ + r'\)', cond):
        return 'local_childof_origin'
    m = re.fullmatch(r'!' + LOCAL + r'->IsChildOf\((' + W + r')\)', cond)
    if m:
        if epvar and re.search(r'Zone::Ptr ?' + m.group(1) + r'=' + epvar + r'->GetZone\(\);', c):
            return 'local_childof_epzone'
        return 'unrecognised'
    m = re.fullmatch(FZ + r'&&!(' + W + r')->GetZone\(\)->IsChildOf\(' + FZ + r'\)', cond)
    if m:
        if re.search(r'Endpoint::Ptr ?' + m.group(1) + r'=Endpoint::GetByName\(' + W + r'->Get\("endpoint"\)\);', c):
            return 'execzone_childof_origin'
        return 'unrecognised'
    if re.search(r'FromZone|IsChildOf|CanAccessObject|GetLocalZone|GetZone\(\)|IsAuthenticated', cond):
        return 'unrecognised'
    return None


def analyse(method, fname, body, all_src, log):
    """-> (ep:bool, pattern:str, flag:str)"""
    c = compact(drop_logs(body))
    # ---- trivial handler
    if re.fullmatch(r'return ?Empty;', c):
        return (False, 'none', 'none')
    # ---- endpoint variable
    m = re.search(r'(?:Endpoint::Ptr ?|auto ?)?(' + W + r')(?:=|\()(?:origin->FromClient|(' + W + r'))->GetEndpoint\(\)\)?;', c)
    epvar = m.group(1) if m else None
    if m and m.group(2):
        # via a local alias of origin->FromClient
        if not re.search(r'(?:auto ?|JsonRpcConnection::Ptr ?)' + m.group(2) + r'(?:=|\()origin->FromClient\)?;', c):
            epvar = None
    ep = False
    pats = []
    flag = 'none'
    special_exec = method == 'event::ExecuteCommand' or 'fromParentZone' in c or re.search(r'->GetParent\(\)', c) and 'originZone' in c
    if method == 'event::ExecuteCommand':
        return analyse_execute(c, all_src, log)
    # positive guard (icinga::Hello):  if (origin) { client = origin->FromClient; if (client) { ep = client->GetEndpoint(); if (ep) { ... } } } return Empty;
    mg = re.fullmatch(r'if\(origin\)\{auto ?(' + W + r')\(origin->FromClient\);if\(\1\)\{auto ?(' + W + r')\(\1->GetEndpoint\(\)\);if\(\2\)\{.*\}\}\}return ?Empty;', c)
    if mg:
        return (True, 'none', 'none')
    for pos, cond in returning_ifs(c):
        parts = None
        if epvar and cond == '!' + epvar:
            ep = True
            continue
        mm = re.fullmatch(r'!(?:' + (re.escape(epvar) if epvar else 'NOVAR') + r'|origin->FromClient->GetEndpoint\(\))\|\|\((.*)\)', cond)
        if mm:
            ep = True
            cond = mm.group(1)
        if cond == '!origin->FromClient->GetEndpoint()':
            ep = True
            continue
        p = origin_cond(cond, c, epvar)
        if p:
            pats.append(p)
            continue
        if re.fullmatch(r'!' + W + r'->GetAcceptConfig\(\)', cond):
            flag = 'accept_config' if flag == 'none' else 'unrecognised'
            continue
        if re.search(r'GetAccept', cond):
            flag = 'unrecognised'
    # a mention of an accept flag / origin zone outside a recognised refusal is not understood
    if 'GetAcceptConfig' in c and flag != 'accept_config':
        flag = 'unrecognised'
    if 'GetAcceptCommands' in c:
        flag = 'unrecognised'
    n_fz_checks = len(re.findall(r'if\([^;{}]*(?:FromZone|IsChildOf|CanAccessObject)', c))
    if len(pats) == 0:
        pat = 'none' if n_fz_checks == 0 else 'unrecognised'
    elif len(pats) == 1 and n_fz_checks == 1:
        pat = pats[0]
    else:
        pat = 'unrecognised'
    if 'GetEndpoint()' in c and not ep and pat != 'none' and False:
        pat = 'unrecognised'
    return (ep, pat, flag)


def analyse_execute(c, all_src, log):
    """event::ExecuteCommand: two-stage check (handler, then ExecuteCheckFromQueue)"""
    m = re.search(r'if\(!origin->IsLocal\(\)\)\{', c)
    if not m:
        return (False, 'unrecognised', 'unrecognised')
    e = match_close(c, m.end() - 1)
    blk = c[m.end():e]
    rx = (r'Endpoint::Ptr ?(?P<e>' + W + r')=origin->FromClient->GetEndpoint\(\);'
          r'if\(!(?P=e)\)\{?return ?Empty;\}?'
          r'Zone::Ptr ?(?P<oz>' + W + r')=(?P=e)->GetZone\(\);'
          r'Zone::Ptr ?(?P<lz>' + W + r')=' + LOCAL + r';'
          r'bool ?(?P<fl>' + W + r')=(?:(?P=oz)==(?P=lz)|(?P=lz)==(?P=oz));'
          r'Zone::Ptr ?(?P<pz>' + W + r')=(?P=lz)->GetParent\(\);'
          r'bool ?(?P<fp>' + W + r')=(?P=pz)&&(?:(?P=oz)==(?P=pz)|(?P=pz)==(?P=oz));'
          r'if\((?:!(?P=fl)&&!(?P=fp)|!(?P=fp)&&!(?P=fl))\)\{?return ?Empty;\}?')
    ok1 = re.fullmatch(rx, blk) is not None
    # nothing but the relay/enqueue logic may precede the origin block except the listener lookup
    pre = c[:m.start()]
    ok_pre = re.fullmatch(r'ApiListener::Ptr ?(' + W + r')=ApiListener::GetInstance\(\);if\(!\1\)return ?Empty;', pre) is not None
    ok_enq = 'EnqueueCheck(origin,params);' in c[e:]
    q = fn_body(all_src, 'ExecuteCheckFromQueue')
    ok2 = False
    flag = 'unrecognised'
    if q is not None:
        qc = compact(drop_logs(q))
        mm = re.search(r'if\(!(' + W + r')\|\|\(' + FZ + r'&&!' + LOCAL + r'->IsChildOf\(' + FZ + r'\)\)\)\{?return;', qc)
        if mm and re.search(r'if\(origin->FromClient\)\{' + mm.group(1) + r'=origin->FromClient->GetEndpoint\(\);\}', qc):
            ok2 = True
        fm = re.search(r'if\(!(' + W + r')->GetAcceptCommands\(\)&&!origin->IsLocal\(\)\)\{', qc)
        if fm and len(re.findall(r'GetAcceptCommands', qc)) == 1:
            # the refusal branch must end in a return before the command is looked up
            s = match_close(qc, fm.end() - 1)
            if s > 0 and qc[:s].rstrip('}').endswith('return;'):
                flag = 'accept_commands'
    if ok1 and ok_pre and ok_enq and ok2:
        return (True, 'local_or_parent_then_origin', flag)
    log.append('C13: ExecuteCommand not recognised (stage1=%s pre=%s enqueue=%s stage2=%s)' % (ok1, ok_pre, ok_enq, ok2))
    return (ok1, 'unrecognised', flag)


def run(rd, emit, log, enum_values, ti_default):
    files = []
    for root, _, fns in os.walk(os.path.join(REPO, 'lib')):
        for fn in fns:
            if fn.endswith('.cpp'):
                files.append(os.path.relpath(os.path.join(root, fn), REPO))
    files.sort()
    srcs = {}
    regs = []
    for f in files:
        t = rd(f)
        if 'REGISTER_APIFUNCTION' not in t and 'ExecuteCheckFromQueue' not in t:
            continue
        t = strip_comments(t)
        srcs[f] = t
        for m in re.finditer(r'^\s*REGISTER_APIFUNCTION\s*\(\s*(\w+)\s*,\s*(\w+)\s*,\s*&\s*((?:\w+::)*)(\w+)\s*\)\s*;', t, re.M):
            regs.append((m.group(2) + '::' + m.group(1), m.group(4), f))
    all_src = '\n'.join(srcs.values())
    rows = []
    for method, fname, f in sorted(regs):
        body = fn_body(srcs[f], fname) or fn_body(all_src, fname)
        if body is None:
            log.append('C13: handler %s of %s not found' % (fname, method))
            rows.append((method, False, 'unrecognised', 'unrecognised'))
            continue
        try:
            ep, pat, flag = analyse(method, fname, body, all_src, log)
        except Exception as ex:   # never let the translator crash a check
            log.append('C13: analysing %s failed: %r' % (method, ex))
            ep, pat, flag = False, 'unrecognised', 'unrecognised'
        if pat == 'unrecognised' or flag == 'unrecognised':
            log.append('C13: %s: check not recognised (ep=%s pattern=%s flag=%s)' % (method, ep, pat, flag))
        rows.append((method, ep, pat, flag))
    # a few single-spot shapes, logged only (their behaviour is covered by the correspondence run)
    shapes = {}
    z = compact(strip_comments(rd('lib/remote/zone.cpp')))
    shapes['Zone::IsChildOf'] = re.search(
        r'bool ?Zone::IsChildOf\(const ?Zone::Ptr&(' + W + r')\)\{Zone::Ptr ?(' + W + r')=this;while\(\2\)\{if\(\2==\1\)return ?true;\2=\2->GetParent\(\);\}return ?false;\}', z) is not None
    # origin construction in MessageHandler: which claimed "originZone" is honoured.  Recognised rule (names free):
    #   origin->FromClient = this;
    #   if (m_Endpoint) { if (m_Endpoint->GetZone() != Zone::GetLocalZone()) origin->FromZone = m_Endpoint->GetZone();
    #                     else origin->FromZone = Zone::GetByName(message->Get("originZone")); }
    origin_rule = None
    mh = fn_body(strip_comments(rd('lib/remote/jsonrpcconnection.cpp')), 'MessageHandler')
    if mh is not None:
        mc = compact(drop_logs(mh))
        mo = re.search(r'(' + W + r')->FromClient=this;(.*?)Value ?' + W + r';', mc)
        if mo:
            o = re.escape(mo.group(1))
            blk = mo.group(2)
            rule = (r'if\(m_Endpoint\)\{if\((?:m_Endpoint->GetZone\(\)!=' + LOCAL + r'|' + LOCAL + r'!=m_Endpoint->GetZone\(\))\)\{?'
                    + o + r'->FromZone=m_Endpoint->GetZone\(\);\}?else\{? ?' + o + r'->FromZone=Zone::GetByName\(' + W + r'->Get\("originZone"\)\);\}?\}')
            if re.fullmatch(rule, blk):
                origin_rule = 'claim_iff_sender_in_local_zone'
        # FromZone must not be assigned anywhere else in the handler
        if origin_rule and len(re.findall(r'->FromZone=', mc)) != 2:
            origin_rule = None
    shapes['MessageHandler origin'] = origin_rule is not None
    j = compact(strip_comments(rd('lib/remote/jsonrpcconnection.cpp')))
    shapes['ctor endpoint iff authenticated'] = 'if(authenticated)m_Endpoint=Endpoint::GetByName(identity);' in j
    e = compact(strip_comments(rd('lib/remote/endpoint.cpp')))
    shapes['Endpoint requires zone'] = re.search(r'void ?Endpoint::OnAllConfigLoaded\(\)\{[^}]*if\(!m_Zone\)BOOST_THROW_EXCEPTION\(', e) is not None
    for k, v in shapes.items():
        if not v:
            log.append('C13: shape not recognised (correspondence only): ' + k)
    body = 'Local Open Scope string_scope.\n\n'
    body += '(* (method, (refuses without endpoint, normalised origin check, accept flag consulted)) *)\n'
    body += 'Definition f_mz_handlers : list (string * (bool * string * string)) := [\n'
    body += ';\n'.join('  ("%s", (%s, "%s", "%s"))' % (m, 'true' if ep else 'false', p, fl) for m, ep, p, fl in rows)
    body += '\n].\n\n'
    body += 'Definition f_mz_registered : nat := %d.\n' % len(regs)
    body += '(* which claimed originZone MessageHandler honours; None = shape not recognised (compared by the run only) *)\n'
    body += 'Definition f_mz_origin_rule : option string := %s.\n' % ('Some "%s"' % origin_rule if origin_rule else 'None')
    for k, v in shapes.items():
        body += 'Definition f_mz_shape_%s : bool := %s.\n' % (re.sub(r'\W+', '_', k), 'true' if v else 'false')
    emit('Facts_c13.v', body)
