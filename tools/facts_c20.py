"""C20 facts, re-extracted from the source on every run (coq/Facts/Facts_c20.v).

JSON nesting (lib/base/json.cpp):
  * f_js_max_depth            the nesting limit of JsonDecode: the constant, and that both JsonSax::start_object and
                              JsonSax::start_array test `m_CurrentSubtree.size() >= <constant>` before anything else and throw
                              (None = guard not recognised: no limit in the model, the correspondence run decides)
  * f_js_trusted_max_depth    the nesting limit of JsonDecodeTrusted: Some None = it parses with JsonSaxTrusted whose
                              start_object/start_array have no guard at all; Some (Some n) = same guard shape with constant n;
                              None = the function / the class is not recognised (e.g. the tree predates fix 9f18442)
  * f_js_restore_trusted      Some true = ConfigObject::RestoreObject decodes with JsonDecodeTrusted(message), Some false = with
                              JsonDecode(message)
  * f_js_encode_unlimited     Some true = nothing in JsonEncoder / Encode*() counts or tests a nesting depth
netstring (lib/base/netstring.cpp, netstring.hpp) and its callers:
  * f_ns_buf_digits / f_ns_sync_digits / f_ns_co_digits
                              a length prefix with more digits than this is rejected by the buffered / the synchronous TLS /
                              the coroutine TLS reader
  * f_ns_buf_limit_plus_one   the buffered reader compares `len + 1 > maxMessageLength` (only when maxMessageLength >= 0)
  * f_ns_stream_limit_gt      both TLS readers compare `len > maxMessageLength` (only when maxMessageLength >= 0), before the
                              payload buffer is allocated
  * f_ns_writer_plain         WriteStringToStream(std::ostream&, str) is `stream << str.GetLength() << ":" << str << ","` and the
                              other overloads go through it: the writer has no limit of its own
  * f_ns_default_max          the default maxMessageLength of the readers in netstring.hpp (the same for all three)
  * f_ns_file_callers_default Some true = every caller of the buffered reader (RestoreObjects, ReplayLog, the CLI list readers)
                              passes exactly (stream, &message, context), i.e. the default limit
  * f_rpc_anon_max / f_rpc_endpoint_max
                              what JsonRpcConnection::HandleIncomingMessages passes to JsonRpc::ReadMessage for a connection
                              without / with an endpoint
A fact that is no longer recognised is emitted as None: the theorems over it degrade to `True` (compared only)."""
import re


def _strip(s):
    return re.sub(r'/\*.*?\*/|//[^\n]*', '', s, flags=re.S)


def _fn_body(src, sig_re):
    m = re.search(sig_re + r'[^{;]*\{', src)
    if not m:
        return None
    i = m.end()
    depth = 1
    j = i
    while j < len(src) and depth:
        if src[j] == '{': depth += 1
        elif src[j] == '}': depth -= 1
        j += 1
    return src[i:j - 1]


def _oz(v):
    return 'None' if v is None else 'Some (%d)' % v


def _ob(v):
    return 'None' if v is None else ('Some true' if v else 'Some false')


def _const(expr):
    expr = expr.strip()
    if re.fullmatch(r'-\s*\d+', expr):
        return -int(expr.replace('-', '').strip())
    if re.fullmatch(r'[\d\s*()UuLl]+', expr):
        try:
            return int(eval(re.sub(r'[UuLl]', '', expr), {'__builtins__': {}}))
        except Exception:
            return None
    return None


def run(rd, emit, log, enum_values, ti_default):
    src = _strip(rd('lib/base/json.cpp'))
    out = ''
    # ------------------------------------------------------------------ JSON nesting
    val = None
    name = None
    m = re.search(r'static\s+const\s+std::size_t\s+(\w+)\s*=\s*(\d+)\s*;', src)
    guard = r'bool\s+%s::%s\s*\(\s*std::size_t\s*\)\s*\{\s*if\s*\(\s*m_CurrentSubtree\.size\(\)\s*>=\s*%s\s*\)\s*\{?\s*(?:BOOST_THROW_EXCEPTION\s*\(|throw\s)'
    if m:
        name, n = m.group(1), int(m.group(2))
        if all(re.search(guard % ('JsonSax', fn, name), src) for fn in ('start_object', 'start_array')):
            val = n
    if val is None:
        log.append('C20: nesting limit of JsonSax::start_object/start_array not recognised (no limit in the model; compared only)')
    out += 'Definition f_js_max_depth : option Z := %s.\n' % _oz(val)

    trusted = 'None'
    jb = _fn_body(src, r'Value\s+icinga::JsonDecodeTrusted\s*\(\s*const\s+String&\s*\w+\s*\)')
    if jb is not None and re.search(r'\bJsonSaxTrusted\s+\w+\s*;', jb) and re.search(r'sax_parse\s*\(', jb) \
            and re.search(r'class\s+JsonSaxTrusted\s+(?:final\s*)?:\s*public\s+JsonSax\b', src):
        bodies = [_fn_body(src, r'bool\s+JsonSaxTrusted::%s\s*\(\s*std::size_t\s*\)' % fn) for fn in ('start_object', 'start_array')]
        if all(b is not None for b in bodies):
            if all(not re.search(r'\bif\b|\bthrow\b|BOOST_THROW_EXCEPTION|size\s*\(', b) for b in bodies):
                trusted = 'Some None'
            elif name and all(re.search(guard % ('JsonSaxTrusted', fn, r'(\w+)'), src) for fn in ('start_object', 'start_array')):
                g = re.search(guard % ('JsonSaxTrusted', 'start_object', r'(\w+)'), src).group(1)
                mm = re.search(r'static\s+const\s+std::size_t\s+%s\s*=\s*(\d+)\s*;' % re.escape(g), src)
                if mm:
                    trusted = 'Some (Some (%d))' % int(mm.group(1))
    if trusted == 'None':
        log.append('C20: JsonDecodeTrusted / JsonSaxTrusted not recognised (second decoder compared only)')
    out += 'Definition f_js_trusted_max_depth : option (option Z) := %s.\n' % trusted

    co = _strip(rd('lib/base/configobject.cpp'))
    rb = _fn_body(co, r'void\s+ConfigObject::RestoreObject\s*\(')
    rt = None
    if rb is not None:
        if re.search(r'=\s*JsonDecodeTrusted\s*\(\s*message\s*\)\s*;', rb) and not re.search(r'\bJsonDecode\s*\(', rb): rt = True
        elif re.search(r'=\s*JsonDecode\s*\(\s*message\s*\)\s*;', rb) and not re.search(r'\bJsonDecodeTrusted\s*\(', rb): rt = False
    if rt is None: log.append('C20: decoder of ConfigObject::RestoreObject not recognised')
    out += 'Definition f_js_restore_trusted : option bool := %s.\n' % _ob(rt)

    enc = None
    eb = re.search(r'class\s+JsonEncoder\b.*?Value\s+icinga::JsonDecode\b', src, re.S)
    if eb and not re.search(r'[Dd]epth|[Nn]esting|[Ll]evel', eb.group(0).replace(name or '\0', '')):
        enc = True
    if enc is None: log.append('C20: JsonEncode nesting behaviour not recognised')
    out += 'Definition f_js_encode_unlimited : option bool := %s.\n' % _ob(enc)

    # ------------------------------------------------------------------ netstring
    ns = _strip(rd('lib/base/netstring.cpp'))
    nsh = _strip(rd('lib/base/netstring.hpp'))
    bufb = _fn_body(ns, r'StreamReadStatus\s+NetString::ReadStringFromStream\s*\(\s*const\s+Stream::Ptr')
    bd = None
    plus1 = None
    if bufb:
        m = re.search(r'if\s*\(\s*i\s*>=\s*(\d+)\s*\)\s*BOOST_THROW_EXCEPTION', bufb)
        if m and re.search(r'for\s*\(\s*i\s*=\s*0\s*;\s*i\s*<\s*header_length\s*&&\s*isdigit\(context\.Buffer\[i\]\)\s*;\s*i\+\+\s*\)', bufb):
            bd = int(m.group(1))
        if re.search(r'size_t\s+data_length\s*=\s*len\s*\+\s*1\s*;', bufb) and \
           re.search(r'if\s*\(\s*maxMessageLength\s*>=\s*0\s*&&\s*data_length\s*>\s*\(size_t\)\s*maxMessageLength\s*\)', bufb):
            plus1 = True
    sync = _fn_body(ns, r'String\s+NetString::ReadStringFromStream\s*\(\s*const\s+Shared<AsioTlsStream>::Ptr&\s*\w+\s*,\s*ssize_t\s+\w+\s*\)')
    cor = _fn_body(ns, r'String\s+NetString::ReadStringFromStream\s*\(\s*const\s+Shared<AsioTlsStream>::Ptr&\s*\w+\s*,\s*boost::asio::yield_context\s+\w+\s*,\s*ssize_t\s+\w+\s*\)')
    sd = []
    gt = True
    for b in (sync, cor):
        d = None
        if b:
            m = re.search(r'if\s*\(\s*isdigit\s*\(\s*byte\s*\)\s*\)\s*\{\s*if\s*\(\s*readBytes\s*==\s*(\d+)\s*\)\s*\{?\s*BOOST_THROW_EXCEPTION', b)
            if m and re.search(r'for\s*\(\s*uint_fast8_t\s+readBytes\s*=\s*0\s*;\s*;\s*\+\+readBytes\s*\)', b):
                d = int(m.group(1))
            g = re.search(r'if\s*\(\s*maxMessageLength\s*>=\s*0\s*&&\s*len\s*>\s*maxMessageLength\s*\)', b)
            a = re.search(r'payload\.Append\s*\(\s*len\s*,', b)
            if not (g and a and g.start() < a.start()):
                gt = False
        else:
            gt = False
        sd.append(d)
    if bd is None or None in sd: log.append('C20: netstring length-digit limits not (all) recognised')
    if not plus1 or not gt: log.append('C20: netstring maxMessageLength tests not (all) recognised')
    out += 'Definition f_ns_buf_digits : option Z := %s.\n' % _oz(bd)
    out += 'Definition f_ns_sync_digits : option Z := %s.\n' % _oz(sd[0])
    out += 'Definition f_ns_co_digits : option Z := %s.\n' % _oz(sd[1])
    out += 'Definition f_ns_buf_limit_plus_one : option bool := %s.\n' % ('Some true' if plus1 else 'None')
    out += 'Definition f_ns_stream_limit_gt : option bool := %s.\n' % ('Some true' if gt else 'None')

    wp = None
    wb = _fn_body(ns, r'void\s+NetString::WriteStringToStream\s*\(\s*std::ostream&\s*\w+\s*,\s*const\s+String&\s*\w+\s*\)')
    if wb is not None and re.fullmatch(r'\s*stream\s*<<\s*str\.GetLength\(\)\s*<<\s*":"\s*<<\s*str\s*<<\s*","\s*;\s*', wb):
        others = re.findall(r'size_t\s+NetString::WriteStringToStream\s*\([^)]*\)\s*\{', ns)
        bodies = [_fn_body(ns[m.start():], r'size_t\s+NetString::WriteStringToStream\s*\(') for m in re.finditer(r'size_t\s+NetString::WriteStringToStream\s*\(', ns)]
        if len(others) == len(bodies) and bodies and all(b and re.search(r'WriteStringToStream\s*\(\s*msgbuf\s*,\s*str\s*\)\s*;', b)
                                                          and not re.search(r'\bif\b|\bthrow\b|BOOST_THROW', b) for b in bodies):
            wp = True
    if wp is None: log.append('C20: NetString::WriteStringToStream not recognised')
    out += 'Definition f_ns_writer_plain : option bool := %s.\n' % _ob(wp)

    defaults = re.findall(r'ReadStringFromStream\s*\([^;]*?ssize_t\s+\w+\s*=\s*(-?\s*\d+)\s*\)\s*;', nsh)
    dm = None
    if len(defaults) == 3 and len(set(d.replace(' ', '') for d in defaults)) == 1:
        dm = int(defaults[0].replace(' ', ''))
    if dm is None: log.append('C20: default maxMessageLength not recognised')
    out += 'Definition f_ns_default_max : option Z := %s.\n' % _oz(dm)

    callers_ok = True
    ncalls = 0
    for f in ('lib/base/configobject.cpp', 'lib/remote/apilistener.cpp', 'lib/cli/objectlistcommand.cpp', 'lib/cli/variableutility.cpp'):
        try:
            t = _strip(rd(f))
        except Exception:
            callers_ok = False
            continue
        for call in re.findall(r'NetString::ReadStringFromStream\s*\(([^;]*)\)\s*;', t):
            ncalls += 1
            if not re.fullmatch(r'\s*\w+\s*,\s*&\w+\s*,\s*\w+\s*', call):
                callers_ok = False
    if ncalls < 4: callers_ok = False
    if not callers_ok: log.append('C20: callers of the buffered netstring reader not recognised')
    out += 'Definition f_ns_file_callers_default : option bool := %s.\n' % ('Some true' if callers_ok else 'None')

    jc = _strip(rd('lib/remote/jsonrpcconnection.cpp'))
    hb = _fn_body(jc, r'void\s+JsonRpcConnection::HandleIncomingMessages\s*\(')
    anon = ep = None
    if hb:
        m = re.search(r'JsonRpc::ReadMessage\s*\(\s*m_Stream\s*,\s*yc\s*,\s*m_Endpoint\s*\?\s*([^:;]+?)\s*:\s*([^;]+?)\s*\)\s*;', hb)
        if m:
            ep, anon = _const(m.group(1)), _const(m.group(2))
    if anon is None or ep is None: log.append('C20: message length limits of JsonRpcConnection::HandleIncomingMessages not recognised')
    out += 'Definition f_rpc_anon_max : option Z := %s.\n' % _oz(anon)
    out += 'Definition f_rpc_endpoint_max : option Z := %s.\n' % _oz(ep)
    emit('Facts_c20.v', out)
