"""C20 facts: the nesting limit of JsonDecode (lib/base/json.cpp): the constant and that both JsonSax::start_object and
JsonSax::start_array test `m_CurrentSubtree.size() >= <constant>` before anything else and throw.  If the guard is not
recognised (e.g. the fix is reverted) the fact is None: the model then has no limit and the correspondence run decides."""
import re

def _strip(s):
    return re.sub(r'/\*.*?\*/|//[^\n]*', '', s, flags=re.S)

def run(rd, emit, log, enum_values, ti_default):
    src = _strip(rd('lib/base/json.cpp'))
    val = None
    m = re.search(r'static\s+const\s+std::size_t\s+(\w+)\s*=\s*(\d+)\s*;', src)
    if m:
        name, n = m.group(1), int(m.group(2))
        ok = True
        for fn in ('start_object', 'start_array'):
            g = re.search(r'bool\s+JsonSax::%s\s*\(\s*std::size_t\s*\)\s*\{\s*if\s*\(\s*m_CurrentSubtree\.size\(\)\s*>=\s*%s\s*\)\s*\{?\s*(?:BOOST_THROW_EXCEPTION\s*\(|throw\s)' % (fn, name), src)
            if not g:
                ok = False
        if ok:
            val = n
    if val is None:
        log.append('C20: nesting limit of JsonSax::start_object/start_array not recognised (no limit in the model; compared only)')
    emit('Facts_c20.v', 'Definition f_js_max_depth : option Z := %s.\n' % ('Some (%d)' % val if val is not None else 'None'))
