"""C12 facts, re-extracted from the source on every run (coq/Facts/Facts_c12.v): the SIZE limits of the replay log on the
write side (ApiListener::PersistMessage) and on the read side (ApiListener::ReplayLog through the Stream reader of
NetString), and the forms of the places the two recorded findings and the boundary theorems depend on.
   * f_rl_ns_len_digits          the netstring Stream reader rejects a length prefix of more than this many digits
   * f_rl_ns_colon_window        ... and a buffer without ':' among its first <n>+1 bytes (the `i > 16` test)
   * f_rl_ns_limit_len_plus_one  the reader's maxMessageLength test is `len + 1 > maxMessageLength`, only when >= 0
   * f_rl_ns_writer_plain        the writer emits `<length in decimal>:<bytes>,` for ANY length
   * f_rl_replay_maxlen          the maxMessageLength ReplayLog passes to the reader: Some None = none (default -1)
   * f_rl_persist_maxlen         the largest entry PersistMessage writes: Some None = no limit (every message goes to
                                 NetString::WriteStringToStream(m_LogFile, JsonEncode(pmessage)) unconditionally)
   * f_rl_replay_skip_le         true = ReplayLog skips an entry with `timestamp <= peer_ts` (equal timestamps: the second is skipped)
   * f_rl_rotate_never_overwrites  true = RotateLogFile renames only `if (!Utility::PathExists(newpath))`
   * f_rl_replay_emits_setlogposition  true = ReplayLog emits log::SetLogPosition with the name of its own file
                                 (finding replay-setlogposition-acks-wrong-log); false = repo_patches/c12-replaylog-no-setlogposition.diff
   * f_rl_replay_bounds_timestamp  false = an entry's timestamp is not compared with the name bound of its file
                                 (finding corrupt-timestamp-hides-later-entries); true = repo_patches/c12-replaylog-bound-timestamp.diff
A fact that is no longer recognised is emitted as None: the lemmas over it stop checking."""
import re


def _strip(s):
    """remove comments; string and character literals are kept (apilistener.cpp contains "log/*")"""
    out = []
    i, n = 0, len(s)
    while i < n:
        c = s[i]
        if c == '"' or c == "'":
            j = i + 1
            while j < n and s[j] != c:
                j += 2 if s[j] == '\\' else 1
            out.append(s[i:j + 1])
            i = j + 1
        elif s.startswith('//', i):
            j = s.find('\n', i)
            i = n if j < 0 else j
        elif s.startswith('/*', i):
            j = s.find('*/', i + 2)
            i = n if j < 0 else j + 2
            out.append(' ')
        else:
            out.append(c)
            i += 1
    return ''.join(out)


def _fn_body(src, sig_re):
    m = re.search(sig_re + r'[^{;]*\{', src)
    if not m:
        return None
    i = m.end()
    depth = 1
    j = i
    while j < len(src) and depth:
        if src[j] == '{': depth += 1
        elif src[j] == '}': depth -= 1
        j += 1
    return src[i:j - 1]


def _const_int(expr, scopes):
    """value of a small constant expression: products/sums of integer literals, or a named constant defined in one of the scopes"""
    expr = expr.strip()
    if re.fullmatch(r'-\s*1', expr):
        return -1
    if re.fullmatch(r'[\d\s*+()UuLl]+', expr) and re.search(r'\d', expr):
        try:
            return int(eval(re.sub(r'[UuLl]', '', expr), {'__builtins__': {}}))
        except Exception:
            return None
    if re.fullmatch(r'[A-Za-z_]\w*', expr):
        for sc in scopes:
            m = re.search(r'\b(?:static\s+|const\s+|constexpr\s+)*(?:ssize_t|size_t|std::size_t|int|long|unsigned|auto)\s+(?:const\s+)?' + re.escape(expr)
                          + r'\s*(?:=\s*([^;]+)|\(\s*([^;]+)\)|\{\s*([^;]+)\})\s*;', sc)
            if m:
                return _const_int(next(g for g in m.groups() if g), [])
            m = re.search(r'#\s*define\s+' + re.escape(expr) + r'\s+([^\n]+)', sc)
            if m:
                return _const_int(m.group(1), [])
    return None


def _split_args(s):
    out, depth, cur = [], 0, ''
    for ch in s:
        if ch in '([{': depth += 1
        elif ch in ')]}': depth -= 1
        if ch == ',' and depth == 0:
            out.append(cur.strip()); cur = ''
        else:
            cur += ch
    if cur.strip():
        out.append(cur.strip())
    return out


def _b(v):
    return 'None' if v is None else ('Some true' if v else 'Some false')


def run(rd, emit, log, enum_values, ti_default):
    ns = _strip(rd('lib/base/netstring.cpp'))
    nsh = _strip(rd('lib/base/netstring.hpp'))
    al = _strip(rd('lib/remote/apilistener.cpp'))
    body = ''
    # ---- the Stream reader of netstrings
    rb = _fn_body(ns, r'StreamReadStatus\s+NetString::ReadStringFromStream\s*\(\s*const\s+Stream::Ptr')
    digits = window = plus1 = None
    if rb:
        m = re.search(r'if\s*\(\s*i\s*>=\s*(\d+)\s*\)\s*BOOST_THROW_EXCEPTION', rb)
        if m and re.search(r'for\s*\(\s*i\s*=\s*0\s*;\s*i\s*<\s*header_length\s*&&\s*isdigit\(context\.Buffer\[i\]\)\s*;\s*i\+\+\s*\)', rb):
            digits = int(m.group(1))
        m = re.search(r'else\s+if\s*\(\s*i\s*>\s*(\d+)\s*\)\s*BOOST_THROW_EXCEPTION', rb)
        if m and re.search(r'if\s*\(\s*context\.Buffer\[i\]\s*==\s*\':\'\s*\)', rb):
            window = int(m.group(1))
        if re.search(r'size_t\s+data_length\s*=\s*len\s*\+\s*1\s*;', rb) and \
           re.search(r'if\s*\(\s*maxMessageLength\s*>=\s*0\s*&&\s*data_length\s*>\s*\(size_t\)\s*maxMessageLength\s*\)', rb):
            plus1 = True
    if digits is None: log.append('C12: netstring length-digit limit not recognised')
    if window is None: log.append('C12: netstring colon window not recognised')
    if plus1 is None: log.append('C12: netstring maxMessageLength test not recognised')
    body += '(* a length prefix of more than this many digits is rejected by the netstring Stream reader *)\n'
    body += 'Definition f_rl_ns_len_digits : option Z := %s.\n' % ('Some (%d)' % digits if digits is not None else 'None')
    body += '(* the reader throws when no colon is found at an index <= this value *)\n'
    body += 'Definition f_rl_ns_colon_window : option Z := %s.\n' % ('Some (%d)' % window if window is not None else 'None')
    body += '(* the limit test is `len + 1 > maxMessageLength` (and only when maxMessageLength >= 0) *)\n'
    body += 'Definition f_rl_ns_limit_len_plus_one : option bool := %s.\n' % _b(plus1)
    # ---- the writer
    wb = _fn_body(ns, r'void\s+NetString::WriteStringToStream\s*\(\s*std::ostream&')
    wb2 = _fn_body(ns, r'size_t\s+NetString::WriteStringToStream\s*\(\s*const\s+Stream::Ptr')
    plain = None
    if wb and wb2 and re.fullmatch(r'\s*stream\s*<<\s*str\.GetLength\(\)\s*<<\s*":"\s*<<\s*str\s*<<\s*","\s*;\s*', wb) \
            and re.search(r'WriteStringToStream\s*\(\s*msgbuf\s*,\s*str\s*\)\s*;', wb2) \
            and re.search(r'stream->Write\s*\(\s*msg\.CStr\(\)\s*,\s*msg\.GetLength\(\)\s*\)\s*;', wb2) \
            and not re.search(r'\bif\b|\bthrow\b|THROW', wb2):
        plain = True
    if plain is None: log.append('C12: netstring writer not recognised')
    body += '(* the writer emits <decimal length>:<bytes>, for a string of any length *)\n'
    body += 'Definition f_rl_ns_writer_plain : option bool := %s.\n' % _b(plain)
    # ---- what ReplayLog passes to the reader
    default = None
    m = re.search(r'static\s+StreamReadStatus\s+ReadStringFromStream\s*\(\s*const\s+Stream::Ptr&\s*\w+\s*,\s*String\s*\*\s*\w+\s*,\s*StreamReadContext&\s*\w+\s*,\s*bool\s+\w+\s*=\s*false\s*,\s*ssize_t\s+\w+\s*=\s*(-?\s*\d+)\s*\)', nsh)
    if m:
        default = int(m.group(1).replace(' ', ''))
    rl = _fn_body(al, r'void\s+ApiListener::ReplayLog\s*\(')
    rmax = 'None'
    if rl is not None:
        calls = re.findall(r'NetString::ReadStringFromStream\s*\(([^;]*)\)\s*;', rl)
        if len(calls) == 1:
            args = _split_args(calls[0])
            val = None
            if len(args) in (3, 4) and default is not None:
                val = default
            elif len(args) == 5:
                val = _const_int(args[4], [rl, al])
            if val is not None:
                rmax = 'Some None' if val < 0 else 'Some (Some (%d))' % val
    if rmax == 'None': log.append('C12: maxMessageLength of ReplayLog not recognised')
    body += '(* maxMessageLength passed by ApiListener::ReplayLog: Some None = no limit *)\n'
    body += 'Definition f_rl_replay_maxlen : option (option Z) := %s.\n' % rmax
    # ---- the write side
    pm = _fn_body(al, r'void\s+ApiListener::PersistMessage\s*\(')
    pmax = 'None'
    if pm is not None:
        # the entry (JsonEncode(pmessage), directly or through a local) goes to NetString::WriteStringToStream(m_LogFile, ..)
        # under no other condition than an open log file: the only branches of the function are the known three, nothing
        # returns / throws / compares a length
        enc = re.search(r'JsonEncode\s*\(\s*pmessage\s*\)', pm)
        wr = re.search(r'NetString::WriteStringToStream\s*\(\s*m_LogFile\s*,\s*([^;]+)\)\s*;', pm)
        ok = bool(enc and wr)
        if ok:
            arg = wr.group(1).strip()
            if not re.fullmatch(r'JsonEncode\s*\(\s*pmessage\s*\)', arg):
                ok = bool(re.fullmatch(r'\w+', arg) and re.search(r'\b(?:const\s+)?(?:String|auto)\s*&?\s*' + re.escape(arg) + r'\s*(?:=\s*JsonEncode\s*\(\s*pmessage\s*\)|\(\s*JsonEncode\s*\(\s*pmessage\s*\)\s*\)|\{\s*JsonEncode\s*\(\s*pmessage\s*\)\s*\})\s*;', pm))
        if ok:
            rest = pm
            for known in (r'if\s*\(\s*secobj\s*\)', r'if\s*\(\s*m_LogFile\s*\)', r'if\s*\(\s*m_LogMessageCount\s*>\s*\d+\s*\)'):
                rest = re.sub(known, '', rest, count=1)
            if re.search(r'\b(if|else|switch|while|for|return|continue|break|goto|throw|try|catch)\b|\?|BOOST_THROW|GetLength|\.size\s*\(|\.length\s*\(|substr|SubStr', rest):
                ok = False
            # the write precedes nothing that could undo it and sits inside the m_LogFile branch
            m = re.search(r'if\s*\(\s*m_LogFile\s*\)\s*\{', pm)
            if not m or not (m.end() <= wr.start()):
                ok = False
        if ok:
            pmax = 'Some None'
    if pmax == 'None': log.append('C12: PersistMessage entry emission not recognised')
    body += '(* largest entry ApiListener::PersistMessage writes: Some None = no limit *)\n'
    body += 'Definition f_rl_persist_maxlen : option (option Z) := %s.\n' % pmax
    # ---- forms of ReplayLog / RotateLogFile
    skip_le = emits = bounds = None
    if rl is not None:
        if re.search(r'if\s*\(\s*pmessage->Get\("timestamp"\)\s*<=\s*peer_ts\s*\)\s*continue\s*;', rl):
            skip_le = True
        elif re.search(r'if\s*\(\s*pmessage->Get\("timestamp"\)\s*<\s*peer_ts\s*\)\s*continue\s*;', rl):
            skip_le = False
        has_emit = re.search(r'if\s*\(\s*file\.first\s*>\s*logpos_ts\s*\+\s*10\s*\)\s*\{\s*logpos_ts\s*=\s*file\.first\s*;', rl) and \
            re.search(r'"log::SetLogPosition"', rl) and re.search(r'client->SendMessage\s*\(\s*lmessage\s*\)', rl)
        if has_emit:
            emits = True
        elif not re.search(r'SetLogPosition', rl) and not re.search(r'SendMessage\s*\(', rl):
            emits = False
        seg = None
        m1 = re.search(r'pmessage\s*=\s*JsonDecode\s*\(\s*message\s*\)\s*;\s*\}\s*catch\s*\(\s*const\s+std::exception&\s*\)\s*\{[^{}]*\bbreak\s*;\s*\}', rl)
        m2 = re.search(r'if\s*\(\s*pmessage->Get\("timestamp"\)\s*<=?\s*peer_ts\s*\)', rl)
        if m1 and m2 and m1.end() < m2.start():
            seg = rl[m1.end():m2.start()]
        if seg is not None:
            if re.search(r'if\s*\(\s*pmessage->Get\("timestamp"\)\s*>=\s*file\.first\s*\)\s*\{[^{}]*\bbreak\s*;\s*\}', seg):
                bounds = True
            elif not re.search(r'\bfile\b', seg) and not re.search(r'"timestamp"', seg):
                bounds = False
    if skip_le is None: log.append('C12: ReplayLog timestamp comparison not recognised')
    if emits is None: log.append('C12: ReplayLog SetLogPosition emission not recognised')
    if bounds is None: log.append('C12: ReplayLog timestamp bound not recognised')
    body += '(* true = ReplayLog skips an entry whose timestamp is <= peer_ts *)\n'
    body += 'Definition f_rl_replay_skip_le : option bool := %s.\n' % _b(skip_le)
    body += '(* true = ReplayLog emits log::SetLogPosition carrying the name of its own log file *)\n'
    body += 'Definition f_rl_replay_emits_setlogposition : option bool := %s.\n' % _b(emits)
    body += '(* true = ReplayLog treats an entry with timestamp >= the name bound of its file as corruption *)\n'
    body += 'Definition f_rl_replay_bounds_timestamp : option bool := %s.\n' % _b(bounds)
    ro = _fn_body(al, r'void\s+ApiListener::RotateLogFile\s*\(')
    never = None
    if ro is not None:
        if re.search(r'if\s*\(\s*!\s*Utility::PathExists\s*\(\s*newpath\s*\)\s*\)\s*\{\s*try\s*\{\s*Utility::RenameFile\s*\(\s*oldpath\s*,\s*newpath\s*\)', ro) \
                and len(re.findall(r'RenameFile', ro)) == 1 \
                and re.search(r'Convert::ToString\s*\(\s*static_cast<int>\s*\(\s*ts\s*\)\s*\+\s*1\s*\)', ro):
            never = True
    if never is None: log.append('C12: RotateLogFile form not recognised')
    body += '(* true = RotateLogFile renames current to int(ts)+1 only if no file of that name exists *)\n'
    body += 'Definition f_rl_rotate_never_overwrites : option bool := %s.\n' % _b(never)
    emit('Facts_c12.v', body)
