"""Field widths: the declared C++ type of the .ti attributes whose values the models keep as unbounded Z.
Emits, per (class, field), the largest integer the declared type stores exactly (`None` when the declaration is not
recognised: the dependent theorem then holds vacuously and the field is 'compared only').  A narrowing of a counter
(int -> unsigned short) makes the width theorem of the property stop compiling."""
import re

MAXV = {
    'int': 2**31 - 1, 'long': 2**63 - 1, 'unsigned int': 2**32 - 1, 'unsigned long': 2**64 - 1,
    'short': 2**15 - 1, 'unsigned short': 2**16 - 1, 'char': 127, 'unsigned char': 255, 'uint8_t': 255, 'int8_t': 127,
    'uint16_t': 2**16 - 1, 'int16_t': 2**15 - 1, 'uint32_t': 2**32 - 1, 'int32_t': 2**31 - 1, 'uint64_t': 2**64 - 1,
    'int64_t': 2**63 - 1, 'size_t': 2**64 - 1, 'double': 2**53, 'Timestamp': 2**53, 'float': 2**24, 'bool': 1,
}

FIELDS = [
    ('lib/icinga/checkable.ti', 'Checkable', ['check_attempt', 'max_check_attempts', 'downtime_depth', 'flapping_index',
                                              'flapping_buffer', 'suppressed_notifications', 'acknowledgement_expiry',
                                              'check_interval', 'retry_interval', 'next_check']),
    ('lib/icinga/notification.ti', 'Notification', ['notification_number', 'interval', 'next_notification',
                                                    'suppressed_notifications']),
    ('lib/icinga/downtime.ti', 'Downtime', ['start_time', 'end_time', 'trigger_time', 'duration', 'entry_time']),
    ('lib/icinga/comment.ti', 'Comment', ['entry_time', 'expire_time']),
]


def field_type(src, field):
    src = re.sub(r'/\*.*?\*/|//[^\n]*', '', src, flags=re.S)
    # `[attrs] type name {` | `[attrs] type name;` | `[attrs] "unsigned short" name ...` | `[attrs] enum(X) name`
    m = re.search(r'\]\s*(?:"([^"]+)"|enum\s*\(\s*\w+\s*\)|name\s*\(\s*\w+\s*\)|([A-Za-z_][\w:<>]*))\s+' + re.escape(field) + r'\s*(?:[{;]|\()', src)
    if not m:
        return None
    if m.group(1):
        return m.group(1).strip()
    if m.group(2):
        return m.group(2)
    return 'int' if 'enum' in m.group(0) else None


def run(rd, emit, log, enum_values, ti_default):
    body = ''
    for path, cls, fields in FIELDS:
        src = rd(path)
        for f in fields:
            t = field_type(src, f)
            mx = MAXV.get(t) if t else None
            if mx is None:
                log.append('types: %s.%s: declared type %r not recognised (width compared only)' % (cls, f, t))
            body += '(* %s.%s : %s *)\nDefinition f_ti_%s_%s_max : option Z := %s.\n' % (cls, f, t, cls, f, 'Some (%d)' % mx if mx is not None else 'None')
    emit('Facts_types.v', body)
